HOOK_COMMITS = ["2f192d4"]

PENDING = "check not built yet in this session (claimed by DESIGN.md section 6; will move to checks when its model, theorems and harness exist)"
NOT_APPLICABLE = {("C%02d" % i): PENDING for i in range(1, 21)}

META = {
    "C09": {
        "text": "Invariant theorem over every sequence of Add/Update/Get/Push/Pop/Reset/Last from a fresh cache of any capacity: used size = sum of stored lengths, total <= capacity, every stored value within its symbol's limit, each symbol in at most one scope, size entries cover live symbols; plus: a rejected operation returns exactly the previous state (Update's blank-and-restore is modelled and proved to restore), Pop releases exactly the top scope, no Go panic site reachable. Tied to cache/cache.go by step-by-step comparison of all exported fields on generated histories.",
        "design_ref": "DESIGN.md section 6 C09",
        "note": "Trusted: Coq kernel, harness. Hypothesis op_bounded (value length + capacity < 2^32) excludes the uint32 wrap of the usage counter. Go maps are modelled as association lists and compared sorted.",
        "technique": "Coq proof (invariant by induction over operation lists) + stepwise model/implementation correspondence by vm_compute",
    },
    "C14": {
        "text": "Round-trip theorems for every integer < 2^32, every symbol of 1..255 bytes, every instruction and every non-empty program (decode(encode p) = p, exact consumption, disassembler listing, both encoders agree), proved in Coq over an executable model of vm/vm.go, vm/debug.go and the assembler's writers; the model is tied to the code by regenerated opcode tables and a differential run of the real encoders/decoders on generated programs evaluated with vm_compute.",
        "design_ref": "DESIGN.md section 6 C14",
        "note": "Trusted: Coq kernel, genconsts translator, harness generators/printer; math.Log2 modelled as integer log2 (swept in thorough tier). The theorem is about the model; the correspondence check is differential testing.",
        "technique": "Coq proof (induction over programs, arithmetic on N) + model/implementation correspondence by vm_compute",
    },
    "C15": {
        "text": "Totality theorem: for every byte string the decoder model, whose every Go index/slice operation is an explicit Panic site, never reaches a Panic (decode_one, parse_all, to_string); acceptance theorem: parse_all b = Ok p implies an independently written strict grammar accepts b as p. Tied to the code by correspondence on exhaustive short strings, all truncations and random corruptions under recover().",
        "design_ref": "DESIGN.md section 6 C15",
        "note": "Trusted: Coq kernel, harness; the Panic sites in the model are placed by hand where the Go code indexes or slices; correspondence compares Ok/Err/Panic outcome and decoded instructions.",
        "technique": "Coq proof (totality by case analysis on explicit panic sites; refinement to a strict reference grammar) + correspondence by vm_compute",
    },
    "C12": {
        "text": "Crash-atomicity theorem for the operation list Put performs today (CreateTemp in the same directory, Write, Chmod, Close, Rename): at every crash state - before/after each operation and after every partial transfer of the write, for all byte strings and any split into write calls - the session's record is the complete previous or the complete new one (first save: absent or complete), no other file changes, recovery (Persister.Load + ensurePersist) continues from one of the two and never starts a fresh session, a failed save changes nothing and leaves no temp file, and a leftover temp file is never a record name, never changes another session's recovery or the Dump listing. Refutation theorem for the pre-repair list (truncate, write, close): for every store there is a crash state with an empty record, recovery starts a fresh session and overwrites it. Tied to the code by (1) strace of the real Put in a child process, abstracted syscall sequence = the model's list, (2) materialising the model's crash states for real persisted records and running the real Load/Dump/engine on them, (3) really killing the real Put at write/fchmod/renameat.",
        "design_ref": "DESIGN.md section 6 C12",
        "note": "Trusted: Coq kernel, harness, strace and the syscall abstraction. Process death only (no power loss, no fsync claimed); POSIX rename/O_EXCL/partial-write semantics assumed; CBOR validity is a hypothesis checked per generated record. The crash states between system calls are produced by replaying the model's operations with real system calls (and, for three points, by really killing the process), not by exhaustive kill injection at every byte.",
        "technique": "Coq proof (induction over the write chunks / prefixes; alist lemmas) + syscall-trace correspondence + crash-state materialisation evaluated by vm_compute, with negative controls for the old operation list",
    },
    "C16": {
        "text": "Translation theorem over ALL token-level sources (induction over the lines with the batcher state as invariant): if every line follows the documented form of instructions.texi (batch lines as the final block) and the source lies outside four decidable classes, then whatever the assembler model emits is exactly the concatenation of the encodings of the instructions written (numbers read in decimal, batch block expanded to MOUT/MNEXT/MPREV..HALT..INCMP), and by composition with the C14 round trip decodes to exactly those instructions; batch-expansion theorem for every combination of DOWN/UP/NEXT/PREVIOUS lines. The full statement is refuted on the code as it is: four theorems exhibit a documented-form source in each excluded class whose emitted bytes decode to something else (00->0, 1a->1 / a, 256-byte MOVE symbol dropped, 010->8). Tied to asm/asm.go and asm/menu.go by a differential run of the real asm.Parse on generated sources, evaluated with vm_compute; the C16 monitor runs on the bytes the real assembler wrote.",
        "design_ref": "DESIGN.md section 6 C16",
        "note": "Partial: proved under the guards lossless_selectors, short_syms, decimal_sizes (complements of K-C16-numnorm, -digitprefix, -longsym, -octal). Trusted: Coq kernel, harness generators/printer, the hand-written model of the participle lexer/grammar and of ParseUint base 0 (modelled, not verified). Sources the assembler rejects (error or panic) are counted, not violations. Flag-name preprocessing not modelled.",
        "technique": "Coq proof (induction over source lines, batcher invariant, composition with the codec round trip) + refutation witnesses by vm_compute + model/implementation correspondence by vm_compute",
    },
    "C04": {
        "text": "Refinement theorem for one navigation step: for every target, state and cache (>= 1 frame), a call of applyTarget that returns nil moves (ExecPath, SizeIdx) exactly as the move table transcribed from doc/texinfo/navigation.texi says (named node: push, index 0; _: pop, index 0; ^: cut to the entry node, index 0; .: stay; >: index+1 mod 2^16; <: index-1), returns the node now current, touches nothing else in the state, and moves the cache as many levels as the stack (levels = depth+1 is an invariant); every failing call (malformed target, < at index 0, moves without an entry node, depth limit) leaves state and cache unchanged; the only reachable panic is a descent into the current node (iff). History form by induction over arbitrary target lists. One documented row is violated by the code and recorded: '_' at the entry node returns nil and leaves an empty stack. The three input patterns are characterised and pinned to the regenerated regex sources. Tied to vm/input.go, vm/runner.go:Rewind and state/state.go by stepwise comparison on generated target sequences, incl. across MaxLevel and the uint16 wrap.",
        "design_ref": "DESIGN.md section 6 C04",
        "note": "Trusted: Coq kernel, harness, the hand transcription of the table (nav_spec) and of the three regexes (checked exhaustively on short strings against Go's regexp). Where the text is silent the spec follows DESIGN.md: '^' at the entry node and '^'/'.' on the empty stack are the identity. Hypothesis: cache has >= 1 frame.",
        "technique": "Coq proof (case analysis over the target grammar, induction over Rewind's loop and over target lists) + stepwise model/implementation correspondence and table monitor by vm_compute",
    },
}
