HOOK_COMMITS = ["2f192d4"]

PENDING = "check not built yet in this session (claimed by DESIGN.md section 6; will move to checks when its model, theorems and harness exist)"
NOT_APPLICABLE = {("C%02d" % i): PENDING for i in range(1, 21)}

META = {
    "C09": {
        "text": "Invariant theorem over every sequence of Add/Update/Get/Push/Pop/Reset/Last from a fresh cache of any capacity: used size = sum of stored lengths, total <= capacity, every stored value within its symbol's limit, each symbol in at most one scope, size entries cover live symbols; plus: a rejected operation returns exactly the previous state (Update's blank-and-restore is modelled and proved to restore), Pop releases exactly the top scope, no Go panic site reachable. Tied to cache/cache.go by step-by-step comparison of all exported fields on generated histories.",
        "design_ref": "DESIGN.md section 6 C09",
        "note": "Trusted: Coq kernel, harness. Hypothesis op_bounded (value length + capacity < 2^32) excludes the uint32 wrap of the usage counter. Go maps are modelled as association lists and compared sorted.",
        "technique": "Coq proof (invariant by induction over operation lists) + stepwise model/implementation correspondence by vm_compute",
    },
    "C14": {
        "text": "Round-trip theorems for every integer < 2^32, every symbol of 1..255 bytes, every instruction and every non-empty program (decode(encode p) = p, exact consumption, disassembler listing, both encoders agree), proved in Coq over an executable model of vm/vm.go, vm/debug.go and the assembler's writers; the model is tied to the code by regenerated opcode tables and a differential run of the real encoders/decoders on generated programs evaluated with vm_compute.",
        "design_ref": "DESIGN.md section 6 C14",
        "note": "Trusted: Coq kernel, genconsts translator, harness generators/printer; math.Log2 modelled as integer log2 (swept in thorough tier). The theorem is about the model; the correspondence check is differential testing.",
        "technique": "Coq proof (induction over programs, arithmetic on N) + model/implementation correspondence by vm_compute",
    },
    "C15": {
        "text": "Totality theorem: for every byte string the decoder model, whose every Go index/slice operation is an explicit Panic site, never reaches a Panic (decode_one, parse_all, to_string); acceptance theorem: parse_all b = Ok p implies an independently written strict grammar accepts b as p. Tied to the code by correspondence on exhaustive short strings, all truncations and random corruptions under recover().",
        "design_ref": "DESIGN.md section 6 C15",
        "note": "Trusted: Coq kernel, harness; the Panic sites in the model are placed by hand where the Go code indexes or slices; correspondence compares Ok/Err/Panic outcome and decoded instructions.",
        "technique": "Coq proof (totality by case analysis on explicit panic sites; refinement to a strict reference grammar) + correspondence by vm_compute",
    },
    "C12": {
        "text": "Crash-atomicity theorem for the operation list Put performs today (CreateTemp in the same directory, Write, Chmod, Close, Rename): at every crash state - before/after each operation and after every partial transfer of the write, for all byte strings and any split into write calls - the session's record is the complete previous or the complete new one (first save: absent or complete), no other file changes, recovery (Persister.Load + ensurePersist) continues from one of the two and never starts a fresh session, a failed save changes nothing and leaves no temp file, and a leftover temp file is never a record name, never changes another session's recovery or the Dump listing. Refutation theorem for the pre-repair list (truncate, write, close): for every store there is a crash state with an empty record, recovery starts a fresh session and overwrites it. Tied to the code by (1) strace of the real Put in a child process, abstracted syscall sequence = the model's list, (2) materialising the model's crash states for real persisted records and running the real Load/Dump/engine on them, (3) really killing the real Put at write/fchmod/renameat.",
        "design_ref": "DESIGN.md section 6 C12",
        "note": "Trusted: Coq kernel, harness, strace and the syscall abstraction. Process death only (no power loss, no fsync claimed); POSIX rename/O_EXCL/partial-write semantics assumed; CBOR validity is a hypothesis checked per generated record. The crash states between system calls are produced by replaying the model's operations with real system calls (and, for three points, by really killing the process), not by exhaustive kill injection at every byte.",
        "technique": "Coq proof (induction over the write chunks / prefixes; alist lemmas) + syscall-trace correspondence + crash-state materialisation evaluated by vm_compute, with negative controls for the old operation list",
    },
    "C16": {
        "text": "Translation theorem over ALL token-level sources (induction over the lines with the batcher state as invariant): if every line follows the documented form of instructions.texi (batch lines as the final block) and the source lies outside four decidable classes, then whatever the assembler model emits is exactly the concatenation of the encodings of the instructions written (numbers read in decimal, batch block expanded to MOUT/MNEXT/MPREV..HALT..INCMP), and by composition with the C14 round trip decodes to exactly those instructions; batch-expansion theorem for every combination of DOWN/UP/NEXT/PREVIOUS lines. The full statement is refuted on the code as it is: four theorems exhibit a documented-form source in each excluded class whose emitted bytes decode to something else (00->0, 1a->1 / a, 256-byte MOVE symbol dropped, 010->8). Tied to asm/asm.go and asm/menu.go by a differential run of the real asm.Parse on generated sources, evaluated with vm_compute; the C16 monitor runs on the bytes the real assembler wrote.",
        "design_ref": "DESIGN.md section 6 C16",
        "note": "Partial: proved under the guards lossless_selectors, short_syms, decimal_sizes (complements of K-C16-numnorm, -digitprefix, -longsym, -octal). Trusted: Coq kernel, harness generators/printer, the hand-written model of the participle lexer/grammar and of ParseUint base 0 (modelled, not verified). Sources the assembler rejects (error or panic) are counted, not violations. Flag-name preprocessing not modelled.",
        "technique": "Coq proof (induction over source lines, batcher invariant, composition with the codec round trip) + refutation witnesses by vm_compute + model/implementation correspondence by vm_compute",
    },
    "C04": {
        "text": "Refinement theorem for one navigation step: for every target, state and cache (>= 1 frame), a call of applyTarget that returns nil moves (ExecPath, SizeIdx) exactly as the move table transcribed from doc/texinfo/navigation.texi says (named node: push, index 0; _: pop, index 0; ^: cut to the entry node, index 0; .: stay; >: index+1 mod 2^16; <: index-1), returns the node now current, touches nothing else in the state, and moves the cache as many levels as the stack (levels = depth+1 is an invariant); every failing call (malformed target, < at index 0, moves without an entry node, depth limit) leaves state and cache unchanged; the only reachable panic is a descent into the current node (iff). History form by induction over arbitrary target lists. One documented row is violated by the code and recorded: '_' at the entry node returns nil and leaves an empty stack. The three input patterns are characterised and pinned to the regenerated regex sources. Tied to vm/input.go, vm/runner.go:Rewind and state/state.go by stepwise comparison on generated target sequences, incl. across MaxLevel and the uint16 wrap.",
        "design_ref": "DESIGN.md section 6 C04",
        "note": "Trusted: Coq kernel, harness, the hand transcription of the table (nav_spec) and of the three regexes (checked exhaustively on short strings against Go's regexp). Where the text is silent the spec follows DESIGN.md: '^' at the entry node and '^'/'.' on the empty stack are the identity. Hypothesis: cache has >= 1 frame.",
        "technique": "Coq proof (case analysis over the target grammar, induction over Rewind's loop and over target lists) + stepwise model/implementation correspondence and table monitor by vm_compute",
    },
    "C13": {
        "text": "Model of db/postgres/pg.go over an abstract transactional store in which every primitive driver call consumes one bit of a fault oracle. Proved in Coq for every key context, initial content, operation sequence (Put/Get/Start/Stop/Abort/Close) and every fault oracle (any number of faults): a fault inside an operation makes it return an error (except K-C13-trfetch); never two open transactions, never a call on a finished transaction, no nil dereference (unconditional); outside the guard of K-C13-stickymulti every operation outside an explicit transaction leaves no transaction open, exactly one is open inside a healthy explicit transaction, and every fault-free Get returns exactly the acknowledged writes (refinement to a map updated only by acknowledged Puts / successful Stops; a Put whose Commit failed is neither acknowledged nor visible); all-successful explicit transactions commit exactly their writes at Stop and nothing after Abort. Both findings have vm_compute witnesses. Tied to the code by running the real pgDb on a transactional fake of the pgx interface and comparing result, OpenTx, committed data and the driver call log per operation.",
        "design_ref": "DESIGN.md section 6 C13",
        "note": "Trusted: Coq kernel, harness, and the fake's transaction semantics (go/fakepg) which stand in for Postgres. The guarded theorems exclude exactly: single operations issued after some Start succeeded and outside an explicit transaction (multi never cleared), and Gets whose row fetch on the translated key failed. The property is silent about explicit transactions in which an operation failed; the monitor re-synchronises on the committed data at their end.",
        "technique": "Coq proof (exhaustive symbolic case analysis of one step over all oracle bits + invariant/refinement by induction over operation lists) + stepwise model/implementation correspondence by vm_compute over an in-process transactional fake",
    },
    "C10": {
        "text": "Refinement theorems over EVERY history of Put/Get/SetPrefix/SetSession/SetLanguage/SetLock: the memory and Postgres models return, operation by operation, exactly what a reference map (type, session, language, key) -> value returns (latest successful write, translation-then-default lookup, ENotFound for a key never written, refusal while locked), under the weakest guards for which the key encoding is injective; the filesystem model (text and base64 mode) does so under the named guards plain-names / no_legacy_clash / b64_slash_free; Dump lists exactly the stored keys with the prefix once each (text mode, default language); locked Put is a no-op; sealing is final. Seven refutation theorems exhibit the recorded defects of the filesystem backend. Tied to db/*.go by running one generated history on all four real backends and comparing every result and the final store with the model.",
        "design_ref": "DESIGN.md section 6 C10",
        "note": "Trusted: Coq kernel, harness, fakepg. Modelled not verified: path.Clean, kernel open/rename error classes, ReadDir order, base64. Findings K-C10-1..7 are genuine defects of db/fs recorded, not repaired (repair changes the storage format or removes the legacy fallback).",
        "technique": "Coq proof (simulation relation by induction over operation lists; injectivity of the key encoding, of hex and of padded base64) + stepwise model/implementation correspondence by vm_compute",
    },
    "C11": {
        "text": "Injectivity theorems for the storage key: (type, session, key) is recovered from the key for the sessioned types when session ids are non-empty and dot-free (the strongest guard: both complements are refuted), types are disjoint by the first byte, (key, language) is recovered for keys without language suffix, file paths are injective on plain names and a legacy fallback name never hits an entry unless it begins with a type character; history-level non-interference for mem/pg: over all interleavings a Put never changes a Get under a different (type, session, key). Four refutation theorems (dot in session id, empty session id, '/../' traversal, legacy-name cross-type read), each replayed on the real backends.",
        "design_ref": "DESIGN.md section 6 C11",
        "note": "Trusted: as C10. Isolation for the four unsessioned types across sessions is not claimed (they ignore the session by documented design). Findings K-C11-1..4 recorded, not repaired.",
        "technique": "Coq proof (list lemmas on the first dot / equal-length tails; induction over histories for non-interference) + adversarial and exhaustive small-alphabet correspondence with an isolation monitor on the observed results",
    },
    "C02": {
        "text": "Theorems over an executable model of Page.Render/joinSink/GetAt/Menu.Render for ALL row lists, all values of `remaining` and all label sizes (induction over the rows with a loop invariant): "
                "the pages delivered by GetAt for idx 0..n-1 are a partition of the rows into contiguous non-empty blocks in order, one cursor per page, every idx >= n is an error; template text, "
                "error prefix, non-sink values and ordinary menu lines are on every page and the browse lines are exactly next iff i+1<n, previous iff 0<i; a page past the end of a page with a menu is an "
                "error; no Go panic site of Page.Render is reachable; under budget_ok joinSink succeeds and every page with its browse entries fits. The findings (empty rows, NUL bytes, tight budget, "
                "mis-measured labels) are stated as decidable guards with vm_compute refutation witnesses, and are re-found on the real code on every run. Tied to render/*.go by stepwise comparison "
                "of a real Page/Menu/Sizer against the model on generated pages and by driving the private joinSink.",
        "design_ref": "DESIGN.md section 6 C02, Appendix A (render rows)",
        "note": "Trusted: Coq kernel, harness, the text/template fragment. offered_page_renders is proved for the paginator only (partial): the lift to Page.Render needs 'sink mentioned once' and 'labels measured correctly'. Engine-level walk over '>'/'<' histories is not part of these files.",
        "technique": "Coq proof (loop invariants by induction over rows; case analysis of the render pipeline) + refutation witnesses + stepwise model/implementation correspondence by vm_compute",
    },
    "C01": {   # page level
        "text": "render_fits: for every template, value map, menu, browse configuration, error prefix, leftover cursor state and index, an Ok result of Page.Render is at most outputSize bytes (nothing is appended after the final Sizer.Check; prepare never changes outputSize); "
                "no_silent_truncation (partial): an Ok page is exactly the instantiated template (error prefix and extra spliced into the source) followed by the complete Menu.Render text, every non-sink symbol with its full mapped value.",
        "design_ref": "DESIGN.md section 6 C01",
        "note": "Page level only. The sink symbol's rows are covered by C02_pages_partition_partial.",
        "technique": "Coq proof + correspondence by vm_compute",
    },
}

META["C07"] = {
    "text": "PLACEHOLDER",
    "design_ref": "DESIGN.md section 6 C07",
    "note": "PLACEHOLDER",
    "technique": "Coq proof + four-way correspondence (real engine long-lived / per-request, model long-lived / per-request) by vm_compute",
}
META["C08"] = dict(META["C07"], design_ref="DESIGN.md section 6 C08")

for _p in ("C03", "C05", "C06", "C17", "C18", "C20"):
    META[_p] = dict(META["C07"], design_ref="DESIGN.md section 6 " + _p)

META["C19"] = {
    "text": "PARTIAL. Proved in Coq, for ANY number of sessions, ANY interleaving of their operations, any spare capacities of the shared arrays and any array-growth function: "
            "Go-slice semantics (array, offset, len, cap; append writes in place when capacity allows) for the pending-code buffer of vm/runner.go — every session's buffer always lies in "
            "an array that session allocated (or is empty), so no write ever lands in a resource array and the shared arrays keep their content incl. spare capacity "
            "(C19_no_write_to_shared); what each session can read of its buffer after every step equals the value-semantics result of its own operations (C19_sessions_refine_values) "
            "and hence what it reads when run alone, even under a different growth function (C19_sessions_noninterfering); every Run of the validated VM model, for every program, state "
            "and fuel, only does to the code what the trace language expresses (consume, append-from-resource, replace-by-copy, fresh line) and replaying it on the slice heap among "
            "arbitrary other sessions yields the model's code (C19_vm_run_on_heap); the pre-repair CATCH (b = bh) refutes all of this on one goroutine: session 1 reads [2;2] instead of "
            "[1;1] and the shared array is overwritten (C19_adopt_refuted; defect repaired by 800b081). Request level: the model's request functions see one session's engine/store "
            "and the immutable resource only; any interleaving of requests gives every session its solo responses and final state (C19_requests_noninterfering_long/_persisted). "
            "NOT proved, only validated by running the real code: goroutine interleavings below the request level, the Go memory model / data-race freedom (2-16 concurrent sessions "
            "under the race detector, verdict = exit status), and that package-level variables are written by set-up calls only.",
    "design_ref": "DESIGN.md section 6 C19",
    "note": "Partial by nature: the theorem covers the aliasing discipline and request-level interleavings; the race-detector runs are a runtime check, reported as such and never counted "
            "as an obligation. Trusted: Coq kernel, harness, Go race detector, the source scan of package-level variables. Tied to the code by (1) the library's buffer statements executed on "
            "real slices vs the slice model incl. the interference of the old CATCH, (2) the real engine serving interleaved/concurrent sessions over shared slices with sentinel-filled "
            "spare capacity vs EngineModel per session, solo runs and the initial arrays. Recorded observation outside the quantifier: vm.RegisterInputValidator's table is process-wide "
            "(one engine's AddValidInput applies to every engine, a second engine's call fails, and calling it while serving is a data race).",
    "technique": "Coq proof (ownership invariant + frame lemma for heap writes, refinement to value semantics by induction over schedules; induction over fuel for Run; generic interleaving lemma) "
                 "+ refutation witness by vm_compute + model/implementation correspondence by vm_compute + concurrent runs under the Go race detector (runtime validation, not an obligation)",
}
