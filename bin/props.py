"""Per-property configuration for bin/check."""

TRUSTED_BASE = [
    "Coq 8.16.1 kernel (coqc; vm_compute used for witnesses, finite sweeps and the correspondence evaluation; native_compute not used)",
    "no Axiom/Parameter/Conjecture/Admitted/admit anywhere under coq/ (scanned on every run); expected Print Assumptions: Closed under the global context",
    "translator go/cmd/genconsts (constants and tables -> coq/gen/Consts.v, regenerated on every run) and the add-only //go:build verif export files in /repo",
    "correspondence harness go/cmd/vh: generators, error-class canonicalisation, Coq term printer (no extraction; the model runs inside Coq)",
]

ALLOWED_AXIOMS = set()  # none needed so far; stdlib axioms would be named here and in DESIGN.md section 5

CODEC_MODEL = ["gen/Consts.v", "model/Bytes.v", "model/Errors.v", "model/Codec.v", "corr/CorrBase.v", "corr/CodecCorr.v"]

CACHE_MODEL = ["model/Bytes.v", "model/Errors.v", "model/CacheModel.v", "corr/CorrBase.v", "corr/CacheCorr.v"]

FSCRASH_MODEL = ["gen/Consts.v", "model/Bytes.v", "model/Errors.v", "model/FsCrash.v", "corr/CorrBase.v", "corr/FsCrashCorr.v"]

ASM_MODEL = ["gen/Consts.v", "model/Bytes.v", "model/Errors.v", "model/Codec.v", "corr/CorrBase.v", "corr/CodecCorr.v",
             "model/AsmModel.v", "corr/AsmCorr.v"]

NAV_MODEL = ["gen/Consts.v", "model/Bytes.v", "model/Errors.v", "model/CacheModel.v", "model/StateModel.v",
             "model/NavModel.v", "proofs/BytesProofs.v", "proofs/NavProofs.v", "corr/CorrBase.v", "corr/NavCorr.v"]

PG_MODEL = ["gen/Consts.v", "model/Bytes.v", "model/Errors.v", "model/PgTx.v", "corr/CorrBase.v", "corr/PgCorr.v"]

DB_MODEL = ["gen/Consts.v", "model/Bytes.v", "model/Errors.v", "model/DbKey.v", "model/DbModel.v", "corr/CorrBase.v", "corr/DbCorr.v"]

RENDER_MODEL = ["model/Bytes.v", "model/Errors.v", "model/CacheModel.v", "model/RenderModel.v", "corr/CorrBase.v", "corr/RenderCorr.v"]

PROPS = {
    "C09": {
        "prop_file": "props/C09.v",
        "files": ["proofs/BytesProofs.v", "proofs/CacheProofs.v", "props/C09.v"],
        "model_files": CACHE_MODEL,
        "drivers": [{"name": "cache", "n_quick": 400, "n_thorough": 5000}],
        "rule": "histories of 2-25 (thorough: 2-41) operations Add/Update/Get/Push/Pop/Reset/Last over 5 keys, limits {0,1,3,10,100,65535}, capacities {0,10,25,100,70000,200000}, "
                "value lengths {0,1,2,limit-1,limit,limit+1,65535..65537,65536+limit(+1),70000, random<12}, multi-line values; all exported Cache fields compared with the model "
                "after every operation; non-trivial = at least 2 operations; distinct by full case term",
        "assumptions": ["value length + capacity < 2^32 (op_bounded): the uint32 wrap of CacheUseSize needs > 4 GiB of cached values and is outside the theorem"],
        "widen_n": 2000,
    },
    "C14": {
        "prop_file": "props/C14.v",
        "files": ["proofs/BytesProofs.v", "proofs/CodecProofs.v", "props/C14.v"],
        "model_files": CODEC_MODEL,
        "drivers": [{"name": "codec", "n_quick": 400, "n_thorough": 6000}],
        "rule": "generated programs of 1-6 instructions over all 12 opcodes (symbol lengths 1..255 incl. 254/255, integers from a boundary set "
                "{0,1,255,256,65535,65536,2^24+-1,2^31,2^32-1} and random uint32), encoded with vm.NewLine and with the assembler's writers, decoded with the "
                "VM's Parse functions, ParseAll and ToString; non-trivial = everything except the fixed primitive cases; distinct by encoded bytes",
        "assumptions": ["math.Log2 in asm.numSize is modelled by N.log2 n / 8 + 1 (the thorough tier sweeps all 2^32 values in Go against the integer formula)",
                        "bytes are < 256 (the model's byte lists carry this as wf_sym / bytes_ok where it matters)"],
        "widen_n": 3000,
    },
    "C15": {
        "prop_file": "props/C15.v",
        "files": ["proofs/BytesProofs.v", "proofs/CodecProofs.v", "props/C15.v"],
        "model_files": CODEC_MODEL,
        "drivers": [{"name": "codec", "n_quick": 150, "n_thorough": 1500}],
        "rule": "all byte strings up to length 3 (thorough: 4) over {0..13,255}; width/length-prefix primitives on short and hostile inputs; every truncation and "
                "random single-byte corruptions of generated valid programs; each fed to ParseAll (collecting handlers), ToString and the VM's per-opcode Parse path under recover(); "
                "trivial = strings shorter than 2 bytes",
        "assumptions": ["text/template, logging and io.Writer are outside the decoder and assumed panic-free"],
        "widen_n": 1500,
    },
    "C12": {
        "prop_file": "props/C12.v",
        "files": ["proofs/BytesProofs.v", "proofs/FsCrashProofs.v", "props/C12.v"],
        "model_files": FSCRASH_MODEL,
        "drivers": [{"name": "fscrash", "n_quick": 40, "n_thorough": 300}],
        "rule": "(1) the real fsDb.Put run in a child process under strace (6 fixed + n/5 random values of 0..300 bytes, one of 72000 bytes, STATE and USERDATA keys, one "
                "Put whose record name is a directory so the rename fails): the system calls on the store directory, abstracted to CreateTemp/Write/Chmod/Close/Rename/Remove/OpenTrunc, "
                "must equal the model's put_ops; (2) 5 fixed + n (previous,new) pairs of real persisted session records (engine app of 5 nodes over fsDb, histories of 1-5 requests, "
                "2 other sessions + 1 userdata file in the store; kinds: pair, first save, record only under the legacy name, stale temp file present, session id '.tmp-42'): every crash state "
                "of put_ops with partial-write lengths {0,1,half,len-1,len} (thorough: every length up to 96, else 32 samples) is materialised in a scratch directory and the real "
                "Persister.Load, the real Dump and a fresh engine's Exec+Flush+Finish are run on it; (2b) 2+n/10 pairs where the real Put is killed (SIGKILL injected by strace on entry to "
                "write/fchmod/renameat, and not killed); self-test (prelude, not counted): the same for the pre-repair operation list and an strace of an old-style WriteFile, which must be flagged/rejected. "
                "distinct by (kind, session, previous record, new record, post-crash input) resp. trace parameters; no case is trivial",
        "assumptions": ["crash = process death: the kernel's view of the directory (page cache) survives; power loss is not modelled and the code issues no fsync - nothing is claimed about what reaches the disk",
                        "POSIX semantics assumed, not verified: rename(2) within one directory replaces the target atomically; open(O_CREAT|O_EXCL) creates an empty file under an unused name; write(2) may transfer any prefix of its buffer; open(O_TRUNC) empties at once",
                        "the record format (fxamacker/cbor) is abstract: 'valid b' = Deserialize accepts b; the theorems take 'valid old', 'valid new' (and 'valid [] = false' for the refutation) as hypotheses; the harness checks them, and that every sampled strict prefix of a record fails to load, on every generated record",
                        "session keys contain no '/' (path.Join is then plain concatenation; the '/' traversal is the recorded C11 fs finding) and the session key does not start with '.tmp-' (see findings)"],
        "trusted_extra": ["strace (system call log of the child process) and the driver's abstraction of its output into fsops (fscrash.go: fcAbstract)"],
        "widen_n": 120,
    },
    "C16": {
        "prop_file": "props/C16.v",
        "files": ["proofs/BytesProofs.v", "proofs/CodecProofs.v", "proofs/AsmProofs.v", "props/C16.v"],
        "model_files": ASM_MODEL,
        "drivers": [{"name": "asm", "n_quick": 600, "n_thorough": 6000}],
        "rule": "token-level sources (opcode word + argument texts per line) printed with generator-chosen blanks/tabs, trailing comments, CRLF and empty lines, "
                "assembled by the real asm.Parse under recover(); fixed corpus (one witness per finding class, every instruction form and the five batch-expansion "
                "examples of instructions.texi, the never-reset batcher, NOOP, empty source) + the 55 example sources /repo/examples/*/*.vis + a finite sweep of the selector "
                "position (all strings of length <= 2, thorough <= 3, over {0,1,8,a,B,_,*} in INCMP/MOUT/DOWN/UP) + 2/3 documented-form sources (0-4 plain lines over all 12 "
                "documented opcode words followed by 0-3 batch lines over DOWN/UP/NEXT/PREVIOUS; selector classes digits/letters/mixed/leading zeros/digit prefix/*/upper case; "
                "numbers from {0,1,7,8,255,256,65535,65536,2^24-1,2^24,2^31,2^32-1,2^32,2^64}, leading-zero forms and random uint32; symbols of 1..12, 254, 255, 256, 300 bytes) "
                "+ 1/3 adversarial sources (any word incl. NOOP and unknown words, 0-5 arguments of any class incl. junk characters, batch blocks anywhere and repeated); "
                "compared: bytes written to the writer (also those written before an error/panic) and the ending Ok/Err/Panic; trivial = the empty source; distinct by token-level source",
        "assumptions": ["the participle lexer/grammar and strconv.ParseUint(s, 0, bits) are modelled (first-match rule order, five greedy optional Arg slots, base-0 conversion), not verified; tied by the correspondence only",
                        "argument texts contain no blank, CR, LF or '#' (they are what the printer separates); layout the real parser rejects (leading empty line, missing final newline, comment-only or blank-only line) is probed and counted, not modelled",
                        "flag-name preprocessing (asm/flag.go, dev/asm/main.go processor) runs before asm.Parse and is not modelled; examples/preprocessor/root.vis needs it and is rejected by asm.Parse alone (model agrees: Err)",
                        "math.Log2 in asm.numSize modelled as in C14"],
        "widen_n": 3000,
    },
    "C04": {   # component half; extend "files"/"drivers" with the engine half
        "prop_file": "props/C04nav.v",
        "files": ["proofs/BytesProofs.v", "proofs/NavProofs.v", "props/C04nav.v"],
        "model_files": NAV_MODEL,
        "drivers": [{"name": "nav", "n_quick": 300, "n_thorough": 3000}],
        "rule": "sequences of 1-30 (thorough: 1-60) applyTarget calls on a real state.State + cache.Cache: targets from 10 node names (incl. _catch, digit-leading, "
                "repeated names so that descents into the current node happen), the five control tokens, and malformed strings (empty, one letter, a-b, _x, .., 0xFF, LF, +ab, "
                "random 1-3 bytes over a hostile alphabet); started from the empty state, from stacks of depth 1-6, from depth 124-131 (crossing MaxLevel), from SizeIdx "
                "65532-65535 (crossing the uint16 wrap), with cache depths that do not match the stack (adversarial stream), lateral-heavy; 12 fixed corpus cases first. "
                "After every call: returned symbol and index, nil/IndexError/other error/panic, ExecPath, SizeIdx, cache Levels(), Code, Flags compared with the model. "
                "Plus all strings up to length 3 (thorough: 4) over {+ _ . LF 0xFF ^ > < a Z 0 -} and 20 fixed strings against inputRegex/symRegex/ctrlRegex (compiled from "
                "the exported pattern strings), vm.ValidInput, vm.ValidSym and vm.valid; non-trivial = at least 2 calls; distinct by full case term",
        "assumptions": ["the cache has at least one frame (cache.NewCache and every cache operation guarantee it; CacheProofs.CInv contains it)",
                        "no custom input validator registered (vm.RegisterInputValidator): valid_input_b models the default pattern only",
                        "State.Moves and State.lastMove are not part of StateModel and are not compared"],
        "widen_n": 1500,
    },
    "C13": {
        "prop_file": "props/C13.v",
        "files": ["proofs/BytesProofs.v", "proofs/CacheProofs.v", "proofs/PgProofs.v", "props/C13.v"],
        "model_files": PG_MODEL,
        "drivers": [{"name": "pg", "n_quick": 4000, "n_thorough": 40000}],
        "rule": "universe = 3 key contexts (user data with session; translated TEMPLATE with language 'nor', empty store; the same with a pre-committed default-language row) x "
                "every history over {Put a 1, Put a 2, Put b 1, Get a, Get b, Start, Stop, Abort} of length 1-4 (thorough: 1-5) x {no fault, every single fault position, every pair of "
                "fault positions} (positions enumerated adaptively over the driver calls actually made); quick 735 007 / thorough 8 812 634 elements, of which every fault-free history of "
                "length <= 2 and a seeded uniform sample (hx.Rng per block of 4096 indices) up to n*7/8 are run; n/8 adversarial histories of 3-12 operations incl. Close over 10 key contexts "
                "(unknown prefix, locked type, empty session, empty language code, colliding keys a/a_nor, pre-committed rows) with fault density 0-40 %; 19 corpus cases first. Each on a fresh "
                "pgDb + fakepg; per operation the result class/value, OpenTx, committed map and driver call log are compared with the model. Non-trivial = at least 2 operations; distinct by case term. "
                "stats.universe_size / universe_selected / universe_covered_permille record the coverage.",
        "assumptions": ["driver semantics are those of go/fakepg (stated at the top of fakepg.go and PgTx.v): read-committed + own writes, atomic Commit, a failing Commit/Rollback ends the transaction with nothing applied, a failing Next returns false",
                        "single goroutine; Connect/ensureTable and Dump are not modelled; language only via SetLanguage (not via ctx.Value(\"Language\"))"],
        "widen_n": 12000,
    },
    "C10": {
        "prop_file": "props/C10.v",
        "files": ["proofs/BytesProofs.v", "proofs/DbProofs.v", "props/C10.v"],
        "model_files": DB_MODEL,
        "drivers": [{"name": "db", "n_quick": 300, "n_thorough": 2000}],
        "rule": "corpus of 16 fixed histories (one witness per finding class, odd prefixes, empty/dir/NUL names, locks and seal, languages) + n mostly-valid histories "
                "(8-21 ops, thorough 8-47: Put/Get/SetPrefix/SetSession/SetLanguage/SetLock/Dump/VerifPaths over per-case pools of 5 symbol-grammar keys, 3 dot-free session ids, "
                "the six documented types, languages {nil,eng,nor,swa}; 30 % of them with binary keys of 0-4 bytes) + n/4 adversarial histories over {a,b,.,_,/,P,@,0xFF}; "
                "every history is run in lockstep on mem, fs text, fs binary-key (fresh /tmp/db-* directory each) and Postgres (fakepg); every result, the final directory "
                "contents and the committed rows are compared with the model; the C10 monitor judges a backend only when the whole history lies in the property's quantifier; "
                "non-trivial = at least 3 operations; distinct by full case term",
        "assumptions": ["path.Join/Clean, os.Open/CreateTemp/Rename error classes, os.ReadDir order and base64.StdEncoding are modelled (DbModel.v) and exercised differentially only",
                        "the Language value of the context.Context (second language source in ToKey) is not modelled; the harness passes a context without it",
                        "Postgres is the in-process fake (fakepg); db/postgres/dump.go is not modelled (DSkip)",
                        "error class Refused is recognised by the message 'unsafe put and safety set' (the code has no error type for it)"],
        "widen_n": 600,
    },
    "C11": {
        "prop_file": "props/C11.v",
        "files": ["proofs/BytesProofs.v", "proofs/DbProofs.v", "props/C11.v"],
        "model_files": DB_MODEL,
        "drivers": [{"name": "db", "n_quick": 300, "n_thorough": 1200}],
        "rule": "same corpus + n adversarial histories: 1-3 writers (type, session, key) with strings of length <= 3 over {a,b,.,_,/,P,@,0xFF}, 4-9 (thorough 6-19) readers derived from a writer "
                "(dot moved, no session + whole storage key, '/../'+file name, legacy name as session/key, same triple, random), every writer reads back at the end; + n/3 mostly-valid histories; "
                "+ exhaustive sweep: every writer against every reader with len(session)+len(key) <= 1 (thorough: <= 2, 418 writers x 836 reads) for STATE and USERDATA; "
                "values are unique per Put so that the monitor can name the write a returned value came from",
        "assumptions": ["same as C10", "operations whose file paths would leave the scratch root are dropped from the history before it is run (none was in the quick/thorough runs)"],
        "widen_n": 600,
    },
    "C02": {
        "prop_file": "props/C02.v",
        "files": ["proofs/BytesProofs.v", "proofs/RenderProofs.v", "props/C02.v"],
        "model_files": RENDER_MODEL,
        "drivers": [{"name": "sink", "n_quick": 100, "n_thorough": 600},
                    {"name": "render", "n_quick": 250, "n_thorough": 4000}],
        "rule": "sink: the private joinSink (VerifJoinSink) + Sizer.GetAt on 0-12 generated rows of length 0-20 (two thirds without empty rows, trailing-empty rows, "
                "NUL bytes rarely), 3 (thorough: 8) values of `remaining` per row list from 0..80 biased to the break band, 6 label-size pairs, GetAt for every idx 0..count+1; "
                "thorough adds the exhaustive sweep rows in {'',a,bb,cccc}^<=4 x remaining 0..40. "
                "render: a real render.Page over a real cache.Cache and a MenuResource (or DbResource over a mem db) with generated templates (literals + one placeholder per mapped symbol), "
                "0-3 mapped symbols with/without a zero-size sink of 1-9 rows, 0-4 menu items, MSINK, browse labels (sometimes resolved to a different text), separators, error prefix, "
                "sizes biased to the band template+menu+1..k rows (also 1..300, 1..20, no sizer, NewSizer(0)); 70% walks (Render idx 0,1,2,.. each on a FRESH page as the VM builds it, until two "
                "consecutive failures), 30% operation sequences on ONE page object (Render twice, Render/Reset/Map/Put/Render); every fifth case adversarial (no menu, sizer attached late, "
                "failing template/label lookups, unmapped placeholder, sink mentioned twice, second zero-size symbol, browse entries unavailable, unknown symbol); "
                "compared after every operation: outcome class, output bytes, sizer cursors and sink, Menu.String(), Page.Val on probe keys, Page.Usage, a RenderTemplate probe (error prefix, extra), "
                "and Menu.Render(0) at the end of the run (items left); non-trivial = at least one Ok render / at least 2 rows; distinct by case term",
        "assumptions": ["Go text/template is modelled for literal text and {{.name}} placeholders with missingkey=error only; templates, error prefixes and labels containing '{{' otherwise are outside the model (never generated)",
                        "C02 monitor domain: walk cases on a VM-shaped page (menu attached, sizer attached before the Maps, size > 0, both browse entries configured, non-empty separator), template resolves and mentions the sink exactly once, labels resolve, page 0 renders",
                        "theorem hypotheses len vs < 2^16 (uint16 page count), total sink size < 2^32 (uint32 cursors), remaining < 2^31 in budget_ok, len out < 2^32 in C01_render_fits: fixed-width ranges of the code, not findings",
                        "Go map iteration order: the model iterates association lists in order; order-independent when at most one mapped symbol has reserved size 0 (Page.Map enforces it)"],
        "widen_n": 1500,
    },
    "C01": {   # page-level half only; engine-level theorems/driver to be added by main
        "prop_file": "props/C01page.v",
        "files": ["proofs/BytesProofs.v", "proofs/RenderProofs.v", "props/C01page.v"],
        "model_files": RENDER_MODEL,
        "drivers": [{"name": "render", "n_quick": 250, "n_thorough": 4000}],
        "rule": "same render cases as C02 with the C01 monitor: every Ok output of every Render (walks and operation sequences) is at most `size` bytes; on the first render of a fresh page the output "
                "decodes as template-before-sink ++ X ++ template-after-sink ++ menu with X a run of WHOLE sink rows (nothing cut), or the whole value when no sizer is attached",
        "assumptions": ["len out < 2^32 (Sizer.Check compares uint32(len(s)))"],
        "widen_n": 1500,
    },
}

# ---- engine-level properties: one harness driver (real engine, long-lived and one engine per
# request over a store, on generated applications and input histories), one model, one monitor each
ENGINE_MODEL = ["gen/Consts.v", "gen/EngConsts.v", "model/Bytes.v", "model/Errors.v", "model/Codec.v", "model/CacheModel.v",
                "model/StateModel.v", "model/NavModel.v", "model/NavSpec.v", "model/RenderModel.v", "model/VmModel.v",
                "model/EngineModel.v", "corr/CorrBase.v", "corr/EngineCorr.v", "corr/EngineMon.v"]
ENGINE_RULE = ("a fixed corpus of hand-written applications (one per recorded or repaired defect and per session-end kind) followed by generated applications: "
               "2-6 nodes plus _catch, each with a prologue of LOAD/RELOAD/MAP/CATCH/CROAK/MOUT/MNEXT/MPREV/MSINK, HALT, 0-5 INCMP lines (named, relative and missing targets, "
               "duplicate selectors, wildcard anywhere) and an optional tail (MOVE / second HALT / end of code); templates with placeholders and translations, menu labels, "
               "scripted entry functions (results of length 0 / short / at limit / over limit / multi-line, flag lists incl. reserved indices, failures, language switches), "
               "output sizes 0 and 1..160, cache capacities, configured language / separator / reset-on-empty-input / entry function; input histories of 4-9 requests "
               "(offered selectors, browse selectors, other selectors, empty, junk, refused patterns, over-long inputs). Every history is served by the real engine twice: one "
               "long-lived engine (until it reports stop) and a new engine per request over a store (Exec, Flush, Finish). Compared with the model after every request: continue flag, "
               "error class of Exec and Flush, output bytes, every exported State and Cache field, entry-function calls and code fetches in order, language of every template/menu "
               "lookup. non-trivial = at least 2 requests; distinct by full case term")
ENGINE_ASSUME = ["text/template restricted to literal text and {{.name}} placeholders (generated templates, labels and inputs contain no '{{')",
                 "ISO 639 resolution is the table gen/EngConsts.v dumped from lang.LanguageFromCode for the codes the generator uses",
                 "the CBOR round trip of persist.Persister is exercised (the persisted mode goes through the real Save/Load) but not modelled: the model's snapshot is the exported fields",
                 "the run loop model is fuelled (3000 instructions per request); a case that would exhaust it is not compared (none does: generated applications put a HALT on every cycle)"]


def _engine_prop(prop_file, files, n_quick=150, n_thorough=2500, extra_drivers=None, rule_prefix=""):
    return {
        "prop_file": prop_file,
        "files": ["proofs/BytesProofs.v", "proofs/CodecProofs.v", "proofs/CacheProofs.v", "proofs/NavProofs.v", "proofs/RenderProofs.v", "proofs/VmProofs.v"] + files + [prop_file],
        "model_files": ENGINE_MODEL,
        "drivers": (extra_drivers or []) + [{"name": "engine", "n_quick": n_quick, "n_thorough": n_thorough, "timeout": 1200}],
        "rule": rule_prefix + ENGINE_RULE,
        "assumptions": ENGINE_ASSUME,
        "widen_n": 600,
    }


PROPS["C07"] = _engine_prop("props/C07.v", [])
PROPS["C08"] = _engine_prop("props/C08.v", [])

# C01 and C04 are decided at two levels: component drivers (render / nav) and the engine driver
for _p in ("C01", "C04"):
    PROPS[_p]["drivers"] = PROPS[_p]["drivers"] + [{"name": "engine", "n_quick": 120, "n_thorough": 2000, "timeout": 1200}]
    PROPS[_p]["model_files"] = list(dict.fromkeys(PROPS[_p]["model_files"] + ENGINE_MODEL))
    PROPS[_p]["rule"] = PROPS[_p]["rule"] + " || engine level: " + ENGINE_RULE
    PROPS[_p]["assumptions"] = PROPS[_p].get("assumptions", []) + ENGINE_ASSUME

for _p in ("C03", "C05", "C06", "C17", "C18", "C20"):
    PROPS[_p] = _engine_prop("props/%si.v" % _p, [])

PROPS["C02"]["drivers"] = PROPS["C02"]["drivers"] + [{"name": "engine", "n_quick": 100, "n_thorough": 2000, "timeout": 1200}]
PROPS["C02"]["model_files"] = list(dict.fromkeys(PROPS["C02"]["model_files"] + ENGINE_MODEL))
PROPS["C02"]["rule"] = PROPS["C02"]["rule"] + " || engine level: " + ENGINE_RULE
PROPS["C02"]["assumptions"] = PROPS["C02"].get("assumptions", []) + ENGINE_ASSUME

PROPS["C01"]["prop_files"] = ["props/C01page.v", "props/C01.v"]
PROPS["C01"]["files"] = list(dict.fromkeys(PROPS["C01"]["files"] + ["proofs/CodecProofs.v", "proofs/CacheProofs.v", "proofs/NavProofs.v", "proofs/VmProofs.v", "proofs/SizeProofs.v", "props/C01.v"]))

PROPS["C08"]["prop_files"] = ["props/C08.v", "props/C08safe.v"]
PROPS["C08"]["files"] = list(dict.fromkeys(PROPS["C08"]["files"] + ["proofs/SafetyProofs.v", "props/C08safe.v"]))

SLICE_MODEL = ["gen/Consts.v", "gen/EngConsts.v", "model/Bytes.v", "model/Errors.v", "model/Codec.v", "model/CacheModel.v", "model/StateModel.v",
               "model/NavModel.v", "model/RenderModel.v", "model/VmModel.v", "model/EngineModel.v", "corr/CorrBase.v", "corr/EngineCorr.v",
               "model/SliceHeap.v", "corr/SliceCorr.v"]

PROPS["C19"] = {
    "prop_file": "props/C19.v",
    "files": ["proofs/BytesProofs.v", "proofs/CodecProofs.v", "proofs/SliceHeapProofs.v", "props/C19.v"],
    "model_files": SLICE_MODEL,
    "drivers": [{"name": "alias", "bin": "vh_conc", "env": {"GORACE": "halt_on_error=1 exitcode=66"}, "n_quick": 200, "n_thorough": 2000},
                {"name": "race", "bin": "vh_conc", "env": {"GORACE": "halt_on_error=1 exitcode=66"}, "n_quick": 40, "n_thorough": 300, "timeout": 1800}],
    "rule": "driver alias (one goroutine, deterministic): n/2 schedules of 6-35 buffer operations (consume/append-from-resource/replace-from-resource/"
            "fresh line/store/take/decode) for 2-4 sessions over 2-5 shared arrays with spare capacity {0,1,3,8,24,64}, executed with the library's own Go "
            "statements on real slices, every step's readable contents, every allocation's capacity and the final arrays compared with SliceHeap; n/10 such "
            "schedules with the pre-repair OpAdopt (model must reproduce the interference Go shows; not judged by the monitor); 2n/5 generated applications "
            "(3-6 nodes of LOAD/RELOAD/MAP/CATCH/MOVE/MOUT before HALT, 1-4 INCMP after; forward-only moves before the first HALT) served by the REAL engine for 2-4 "
            "sessions (long-lived or one engine per request over its own store, at random) that share nothing but the application's byte slices "
            "(make([]byte,n,n+64), capacity filled with 0xEE, put into per-session db/mem instances: Put keeps the slice, checked), requests interleaved along a "
            "generated schedule; every session's responses, snapshots and resource calls compared with EngineModel run for that session alone, responses compared with "
            "the session's solo run, shared arrays compared byte for byte incl. the sentinel region, st.Code checked for overlap with shared arrays after every request. "
            "driver race (binary built with -race): n applications x 2-16 goroutines (one session each, histories of 3-7, thorough 3-11 requests), each served concurrently 5 "
            "(thorough 10) times, same comparisons; a data race ends the process with status 66. Self-test in every case file: the fixed two-session OpAdopt schedule and an "
            "engine run whose st.Code was seeded with the resource's slice must be flagged; negative control: two goroutines through ONE DbResource must make the "
            "detector fire. Non-trivial = at least 3 operations resp. 2 requests per session; distinct by case term",
    "assumptions": ["sessions share ONLY immutable application data: one db/mem, DbResource, state, cache, store handle per session (a DbResource sets its db's key prefix on "
                    "every call: sharing one is a data race, shown by the negative control)",
                    "package-level variables are written by set-up calls only, before any session is served (list in trusted_extra); in particular engine.AddValidInput / "
                    "vm.RegisterInputValidator is not called while serving (it races with vm.ValidInput, and its table is process-wide: see findings)",
                    "the growth of reallocated arrays is an arbitrary function in the theorems; the correspondence feeds the capacities Go actually chose as the oracle",
                    "array addresses are not observable in the library (no pointer comparison on the buffer): array ids in the model carry a ghost owner and a per-session counter",
                    "entry functions (resource.EntryFunc) are the application's: the harness gives each session its own scripted functions"],
    "trusted_extra": ["the Go race detector (ThreadSanitizer runtime linked by go build -race) and the Go scheduler: data-race freedom and sub-request interleavings are "
                      "validated on the runs performed, not proved; verdict = process exit status 66",
                      "package-level variables of /repo's library packages that are written after package initialisation, from the source (go/ast scan, 2026-09-28): "
                      "vm.preInputRegexStr (map; written by vm.RegisterInputValidator <- engine.(*DefaultEngine).AddValidInput; read by vm.ValidInput), "
                      "state.FlagDebugger (struct with a map; written by (*flagDebugger).Register <- asm.(*FlagParser).Load in debug mode and by applications; read by State.String in "
                      "debug mode and engine.SimpleDebug.Break), logging.LogWriter and logging.LogLevel (exported, assigned by applications — the harness sets LogWriter once in hx.Silence; "
                      "read by every log call resp. at logger construction), debug.NodeIndex / debug.MenuIndex (dev tooling, not imported by engine/vm/state/render/cache/persist/resource/db). "
                      "Written only by set-up calls; everything else at package level is a constant table, a compiled regexp, a value-type logger or an error sentinel "
                      "(state.MaxLevel, lang.Default, vm.OpcodeString/OpcodeIndex are exported and never written by the library); no init(), no sync/atomic anywhere",
                      "harness go/cmd/vh_conc: the verbatim copies of the library's buffer statements in ccBuf.step, pointer-overlap test via unsafe.SliceData"],
    "widen_n": 400,
}

PROPS["C19"]["selftests"] = [{"bin": "vh_conc", "args": ["race", "-prop", "C19", "-replay", "selftest:shared-resource"],
                              "env": {"GORACE": "halt_on_error=1 exitcode=66"}, "expect_rc": 66}]

PROPS["C03"]["prop_files"] = ["props/C03.v", "props/C03i.v"]
PROPS["C03"]["prop_file"] = "props/C03.v"
PROPS["C03"]["files"] = list(dict.fromkeys(PROPS["C03"]["files"] + ["proofs/RoutingProofs.v", "props/C03.v"]))
PROPS["C04"]["prop_files"] = ["props/C04nav.v", "props/C04eng.v"]
PROPS["C04"]["files"] = list(dict.fromkeys(PROPS["C04"]["files"] + ["proofs/CodecProofs.v", "proofs/CacheProofs.v", "proofs/VmProofs.v", "proofs/RoutingProofs.v", "props/C04eng.v"]))
PROPS["C05"]["prop_files"] = ["props/C05.v", "props/C05i.v"]
PROPS["C05"]["prop_file"] = "props/C05.v"
PROPS["C05"]["files"] = list(dict.fromkeys(PROPS["C05"]["files"] + ["proofs/SymbolProofs.v", "props/C05.v"]))
PROPS["C18"]["prop_files"] = ["props/C18.v", "props/C18i.v"]
PROPS["C18"]["prop_file"] = "props/C18.v"
PROPS["C18"]["files"] = list(dict.fromkeys(PROPS["C18"]["files"] + ["proofs/SymbolProofs.v", "props/C18.v"]))

for _p in ("C06", "C20"):
    PROPS[_p]["prop_files"] = ["props/%s.v" % _p, "props/%si.v" % _p]
    PROPS[_p]["prop_file"] = "props/%s.v" % _p
    PROPS[_p]["files"] = list(dict.fromkeys(PROPS[_p]["files"] + ["proofs/SafetyProofs.v", "proofs/FlagProofs.v", "proofs/FlagProofs2.v", "props/%s.v" % _p]))

for _p in ("C07", "C17"):
    PROPS[_p]["files"] = list(dict.fromkeys(PROPS[_p]["files"] + ["proofs/EngineProofs.v", "proofs/BisimProofs.v", "props/%s.v" % _p]))
PROPS["C17"]["prop_files"] = ["props/C17.v", "props/C17i.v"]
PROPS["C17"]["prop_file"] = "props/C17.v"

# the cache component carries C05's limits and C08/C20's size accounting: its driver runs there too
for _p in ("C05", "C08", "C20"):
    PROPS[_p]["drivers"] = [{"name": "cache", "n_quick": 250, "n_thorough": 3000}] + PROPS[_p]["drivers"]
    PROPS[_p]["model_files"] = list(dict.fromkeys(PROPS[_p]["model_files"] + ["corr/CacheCorr.v"]))
    PROPS[_p]["rule"] = "cache component: " + PROPS["C09"]["rule"] + " || engine level: " + PROPS[_p]["rule"]

PROPS["C18"]["prop_files"] = ["props/C18.v", "props/C18i.v", "props/C18res.v"]
PROPS["C18"]["files"] = list(dict.fromkeys(PROPS["C18"]["files"] + ["proofs/DbProofs.v", "proofs/ResProofs.v", "props/C18res.v"]))
PROPS["C18"]["model_files"] = list(dict.fromkeys(PROPS["C18"]["model_files"] + ["model/DbKey.v", "model/DbModel.v", "model/ResModel.v"]))

# C15 also covers the VM's own decoding path (vm/runner.go): Vm.Run on malformed code from prepared states
PROPS["C15"]["drivers"] = PROPS["C15"]["drivers"] + [{"name": "vmrun", "n_quick": 80, "n_thorough": 800}]
PROPS["C15"]["model_files"] = list(dict.fromkeys(PROPS["C15"]["model_files"] + ENGINE_MODEL + ["corr/VmRunCorr.v"]))
PROPS["C15"]["rule"] = PROPS["C15"]["rule"] + (" || vmrun: the real Vm.Run on generated programs of 1-5 instructions, every 1st-3rd truncation and three single-byte corruptions of each, "
    "from independently drawn states (subsets of READIN/INMATCH/WAIT/LOADFAIL/TERMINATE/client flags, input absent/empty/selector, stack depth 0-3) with a resource answering every code fetch "
    "with empty code; observed: nil/error/panic, remaining code, flags, stack; corpus: truncated INCMP after a matched 'previous' on the first page")

# C18's store side: the translation-then-default lookup of db.ToKey / Get on every backend (db/db.go), judged against the C10 reference map
PROPS["C18"]["drivers"] = PROPS["C18"]["drivers"] + [{"name": "db", "n_quick": 120, "n_thorough": 900}]
PROPS["C18"]["model_files"] = list(dict.fromkeys(PROPS["C18"]["model_files"] + DB_MODEL + ["corr/DbLangCorr.v"]))
PROPS["C18"]["rule"] = PROPS["C18"]["rule"] + (" || db: the C10 storage histories (languages {nil,eng,nor,swa} over the language-scoped types, all four backends) with the monitor db_violations_c18: "
                                               "every Get of a template / menu / static-value type returns the reference map's translation-else-default entry")

# C06's flag field itself (state/flag.go): what CATCH and CROAK test, for flag indices of any size
PROPS["C06"]["drivers"] = PROPS["C06"]["drivers"] + [{"name": "flags", "n_quick": 300, "n_thorough": 3000}]
PROPS["C06"]["model_files"] = list(dict.fromkeys(PROPS["C06"]["model_files"] + ["corr/FlagCorr.v"]))
PROPS["C06"]["rule"] = PROPS["C06"]["rule"] + (" || flags: 5 corpus + n generated sequences of 4-19 (thorough 4-43) SetFlag/ResetFlag/GetFlag/MatchFlag calls on the real state.State for flag counts "
                                               "{0,1,4,8,9,56,120,248,249,300,600,1000,2032} (4 % beyond 2032), indices from a pool of low, last, first-outside, above 256 and their aliases mod 256; "
                                               "model comparison per returned value and final flag bytes; monitor flag_violations against a reference set of indices")
PROPS["C06"]["prop_files"] = PROPS["C06"]["prop_files"] + ["props/C06f.v"]
PROPS["C06"]["files"] = list(dict.fromkeys(PROPS["C06"]["files"] + ["proofs/FlagFieldProofs.v", "props/C06f.v"]))

# C18: the gettext resource (resource/gettext.go), agent symbols follow-up
PROPS["C18"]["prop_files"] = PROPS["C18"]["prop_files"] + ["props/C18po.v"]
PROPS["C18"]["files"] = list(dict.fromkeys(PROPS["C18"]["files"] + ["proofs/SymbolProofs.v", "props/C18.v", "proofs/PoProofs.v", "props/C18po.v"]))
PROPS["C18"]["model_files"] = list(dict.fromkeys(PROPS["C18"]["model_files"] + ["model/PoModel.v", "corr/PoCorr.v"]))
PROPS["C18"]["drivers"] = PROPS["C18"]["drivers"] + [{"name": "po", "n_quick": 100, "n_thorough": 800}]
PROPS["C18"]["rule"] = PROPS["C18"]["rule"] + (
    " || po: the real resource.NewPoResource(default, dir).WithLanguage(...) on generated locale directories: per case 6 ISO-639 languages shuffled, "
    "one default, 0-2 registered (sometimes the default registered twice), files on disk for the default (9 in 10), most registered ones and (1 in 2) one "
    "unregistered language; per language x-vise.po / x-vise_menu.po (7 in 8 each; those of non-default languages must be ignored) and default.po (7 in 8), "
    "each in <lang>/ or <lang>/LC_MESSAGES/, header present 3 in 4, 4-9 symbols from a pool with spaces, quotes, newline, tab, backslash, %, non-ASCII, "
    "leading/trailing blanks, the words msgid/msgstr; msgstr empty (1 in 7-8), identity, tagged, or from a pool; entries single-line or multi-line split at "
    "arbitrary byte positions, comment/blank lines, indentation; default.po entries for sources, bare symbols and pool strings (45%); then GetTemplate and "
    "GetMenu for up to 8 symbols (incl. one outside the tables and, 1 in 4, the empty symbol) x {no language in the context, default, every registered, "
    "one unregistered (maybe with files), one unregistered without files}: returned string / error / panic compared with po_get, and judged by the C18 "
    "monitor against the generated tables; 2 fixed corpus cases first (the repository's testdata/testlocale transcribed; a default language whose own "
    "default.po rewrites a source string); non-trivial = some call returned something else than its symbol")
PROPS["C18"]["assumptions"] = PROPS["C18"].get("assumptions", []) + [
    "PoResource: locale directories named by the 3-letter code only (gotext's fallback to the 2-letter directory is not exercised), no msgctxt, no plural forms, no duplicate msgids",
    "PoResource: the context value \"Language\" is a lang.Language, as the engine and the VM put it there"]

PROPS["C13"]["rule"] = PROPS["C13"]["rule"].replace("{Put a 1, Put a 2, Put b 1, Get a, Get b, Start, Stop, Abort}", "{Put a 1, Put a 2, Put b 1, Get a, Get b, Start, Stop, Abort, Dump a}").replace("quick 735 007 / thorough 8 812 634 elements", "quick 1 296 083 elements, thorough proportionally larger")
PROPS["C13"]["assumptions"] = [a.replace("Connect/ensureTable and Dump are not modelled", "Connect/ensureTable are not modelled; the Dump iteration after the deferred Commit is modelled as the fake exhibits it (result set materialised at Query time)") for a in PROPS["C13"]["assumptions"]]

# C15 at run level (agent vmdecode): Vm.Run's own decoding path
PROPS["C15"]["prop_files"] = PROPS["C15"].get("prop_files", [PROPS["C15"]["prop_file"]]) + ["props/C15run.v"]
PROPS["C15"]["files"] = list(dict.fromkeys(PROPS["C15"]["files"] + ["proofs/VmDecodeProofs.v", "props/C15run.v"]))

# C18: third way of serving a session - State and Cache kept in memory, a NEW engine object per request (WithState/WithMemory, no persister)
PROPS["C18"]["drivers"] = PROPS["C18"]["drivers"] + [{"name": "enginekept", "n_quick": 100, "n_thorough": 800}]
PROPS["C18"]["model_files"] = list(dict.fromkeys(PROPS["C18"]["model_files"] + ["corr/EngineKeptCorr.v"]))
PROPS["C18"]["rule"] = PROPS["C18"]["rule"] + (" || enginekept: the engine corpus + 3 language cases + n generated applications/histories served by a new engine object per request around the SAME State and Cache "
                                               "objects (NewEngine.WithState.WithMemory); model request_kept (ensureState's explicit-state branch, then Exec and Flush), monitor c18_steps + "
                                               "'a selected language changes only in a request that called a function'")

# engine.Loop (agent loop): interactive driver modelled, driven and reduced to the request driver
LOOP_MODEL = ["model/LoopModel.v", "corr/LoopCorr.v"]
LOOP_RULE = ("engine.Loop: a fixed corpus of 26 hand-written cases over the engine corpus applications (graceful end in the middle of the input; TERMINATE; abnormal end; "
             "refused line / over-long line; lines longer than bufio's 4096-byte buffer; Flush error from exit-value overflow and from browsing past the end; refused / over-long / "
             "selector `initial`; unterminated tail; reader without any line feed; empty reader; blank lines with ResetOnEmptyInput; CRLF/tab/VT/FF padding; every non-ASCII Unicode "
             "White_Space code point; byte sequences that look like white space but are not; inner space kept; entry function configured; 131-line deep cycle), one generated reader per "
             "example application of the repository, then generated applications (genApp of the engine driver; three cases out of four are regenerated until the first request of the "
             "real engine goes on) with a generated reader content: 0-8 lines, each = padding + token + padding + LF | CRLF | LF LF; tokens: offered selectors 64%, browse selectors 11%, "
             "other selectors 6%, empty 5%, junk 6%, refused patterns 4%, 250-255 bytes 2%, 256-300 bytes 2%; padding: none 60%, 1-4 items of ASCII white space / all 19 non-ASCII "
             "White_Space code points (U+0085 U+00A0 U+1680 U+2000..U+200A U+2028 U+2029 U+202F U+205F U+3000) and, in the malformed stream (1 case in 8), look-alike byte "
             "sequences (lone C2 / A0 / 85, truncated E2 80, overlong C0 A0, U+200B, U+3001, FF, 1C, 1F, 00 ...); an unterminated last line in 1 case of 4; `initial` nil 40% / empty 30% / "
             "a selector 20% / refused (leading space, '!bad', LF, 300 bytes) 10%. The REAL engine.Loop runs on the long-lived engine of the engine driver (WithState/WithMemory) wrapped in a "
             "recorder implementing engine.Engine. Compared with the model: all bytes written, the class of the returned error (nil / as-is class / 'unexpected termination' / panic), the "
             "session after Loop (every exported State and Cache field), and per request the input Loop passed, continue flag, error classes of Exec and Flush, Flush bytes and count. "
             "non-trivial = at least 2 requests; distinct by full case term")
for _p in ("C20", "C01"):
    PROPS[_p]["drivers"] = PROPS[_p]["drivers"] + [{"name": "loop", "n_quick": 150, "n_thorough": 1200}]
    PROPS[_p]["model_files"] = list(dict.fromkeys(PROPS[_p]["model_files"] + LOOP_MODEL))
    PROPS[_p]["rule"] = PROPS[_p]["rule"] + " || interactive driver: " + LOOP_RULE
    PROPS[_p]["assumptions"] = PROPS[_p].get("assumptions", []) + [
        "bufio.Reader.ReadString over a reader that delivers its content and then io.EOF, and strings.TrimSpace on arbitrary bytes, are modelled (split_lines, trim_space) and checked "
        "differentially; a reader or writer that fails, and context cancellation, are not modelled"]
PROPS["C20"]["prop_files"] = PROPS["C20"]["prop_files"] + ["props/C20loop.v"]
PROPS["C20"]["files"] = list(dict.fromkeys(PROPS["C20"]["files"] + ["proofs/RenderProofs.v", "proofs/SizeProofs.v", "proofs/LoopProofs.v", "props/C20loop.v"]))

# C19 (agent conc follow-up 3): deployment shapes of the race driver
_r = PROPS["C19"]["rule"]
_i = _r.index("driver race (binary built with -race)")
PROPS["C19"]["rule"] = _r[:_i] + ("driver race (binary built with -race): n applications x 2-16 goroutines (one session each, histories of 3-7, thorough 3-11 requests; 70 % of the sessions with an entry function of "
    "their own), each served concurrently 5 (thorough 10) times in one of three deployment shapes chosen by run index - one third plain (long-lived engines and per-request engines over a db/mem "
    "store per session), one third with ALL sessions in state-debug mode (Config.StateDebug, a third of them also EngineDebug with an engine debugger; user flags unregistered, in the last such run "
    "flags 8 and 9 registered with state.FlagDebugger before the goroutines start), one third with 80 % persisted sessions of which 6 in 7 share ONE db/fs directory through a new handle per request "
    "(fresh directory per run under the -out directory, removed afterwards); compared with the sessions' solo runs: responses, Finish/load success and the finally stored session, and with EngineModel "
    "per session; a data race ends the process with status 66.")
PROPS["C19"]["trusted_extra"] = [t.replace("state.FlagDebugger (struct with a map; written by (*flagDebugger).Register <- asm.(*FlagParser).Load in debug mode and by applications; read by State.String in debug mode and engine.SimpleDebug.Break)",
    "state.FlagDebugger (struct with a map): written ONLY by (*flagDebugger).Register (= application set-up: asm.(*FlagParser).Load in debug mode, applications, the harness in one debug run before its goroutines start) and by newFlagDebugger at package initialisation; AsList/AsString only read it - from State.String when the state is in debug mode (an eagerly evaluated log argument of engine.exec, db.go:541/545) and from engine.SimpleDebug.Break; exercised concurrently by the race driver's debug runs") for t in PROPS["C19"]["trusted_extra"]]
PROPS["C19"]["assumptions"] = PROPS["C19"]["assumptions"] + ["sessions that share a filesystem state directory have distinct session ids (distinct records); the directory is written by this process only"]
PROPS["C18"]["prop_files"] = PROPS["C18"]["prop_files"] + ["props/C18kept.v"]
PROPS["C18"]["files"] = list(dict.fromkeys(PROPS["C18"]["files"] + ["proofs/KeptProofs.v", "props/C18kept.v"]))

# C16: the command's flag preprocessor (agent asm follow-up 2)
ASM_MODEL = ASM_MODEL[:-1] + ["model/AsmPreModel.v", ASM_MODEL[-1]] if "model/AsmPreModel.v" not in ASM_MODEL else ASM_MODEL
PROPS["C16"]["model_files"] = ASM_MODEL
PROPS["C16"]["files"] = list(dict.fromkeys(PROPS["C16"]["files"] + ["proofs/AsmPreProofs.v", "props/C16pre.v"]))
PROPS["C16"]["prop_files"] = ["props/C16.v", "props/C16pre.v"]
PROPS["C16"]["rule"] = PROPS["C16"]["rule"] + " + every corpus/example source and every 7th generated one also through the shipped dev/asm command (case kind ACmd: standard output, exit status)" + " + the shipped command with its flag preprocessor (asm -f table.csv file; case kind APre: standard output and exit status): the repository's examples/preprocessor/*.vis with pp.csv, 33 fixed cases (names, numerals, unknown names, missing arguments that make processFlag dereference nil, a third token after CROAK, 010/00/1a/*/2^64-size numerals as flag, tables with a leading-zero or signed or too small or non-numeric number, short rows, non-flag rows, a name defined twice, numerals as names, the empty table) and n/3 generated cases: tables of 2-5 distinct names over the symbol alphabet with numbers 8..40, sometimes a description column; documented-form sources (as above) whose CATCH/CROAK flag is a name of the table (70%), an undefined name, a numeral or an odd token, at least one such line per source, all other instruction kinds and batch lines passed through; every 7th table spoilt by one malformed/unusual row; every 5th source adversarial"
PROPS["C16"]["assumptions"] = [a for a in PROPS["C16"]["assumptions"] if not a.startswith("flag-name preprocessing")] + ["the flag preprocessor (asm/flag.go Load/GetAsString, dev/asm/main.go processor.run) is modelled from the CSV records on (encoding/csv itself — quoting, separators, blank lines — is outside; generated fields contain no quote, comma, line break or leading blank); the preprocessor's participle grammar (NumFirst/Sym tokens, at most three) and strconv.Atoi are modelled, not verified"]

# C04 (agent routing follow-up 2) and C08 (agent safety follow-up): rewinds and continuation
PROPS["C04"]["prop_files"] = PROPS["C04"]["prop_files"] + ["props/C04reset.v"]
PROPS["C04"]["files"] = list(dict.fromkeys(PROPS["C04"]["files"] + ["proofs/RoutingProofs2.v", "props/C04reset.v"]))
PROPS["C08"]["prop_files"] = PROPS["C08"].get("prop_files", [PROPS["C08"]["prop_file"]]) + ["props/C08cont.v"]
PROPS["C08"]["files"] = list(dict.fromkeys(PROPS["C08"]["files"] + ["proofs/ContinueProofs.v", "props/C08cont.v"]))

PROPS["C06"]["rule"] = PROPS["C06"]["rule"] + (" || engine driver under C06: every application/history is served a second time with every request for a flag <= FLAG_RESERVED removed from the functions' "
    "FlagSet/FlagReset lists (metamorphic twin, case pair mkE17): responses, stored sessions and calls of the two runs must be identical (engine_violations_c06x)")

# C20 (agent flags follow-up 2) and C02 (agent render follow-up 2)
PROPS["C20"]["files"] = list(dict.fromkeys(PROPS["C20"]["files"] + ["proofs/RenderProofs.v", "proofs/FlagProofs3.v"]))
PROPS["C02"]["prop_files"] = PROPS["C02"].get("prop_files", [PROPS["C02"]["prop_file"]]) + ["props/C02walk.v"]
PROPS["C02"]["files"] = list(dict.fromkeys(PROPS["C02"]["files"] + ["proofs/WalkProofs.v", "props/C02walk.v"]))

# C18: static LOAD symbols of a DbResource asked repeatedly in different languages (resource/db.go DbFuncFor)
PROPS["C18"]["drivers"] = PROPS["C18"]["drivers"] + [{"name": "staticload", "n_quick": 200, "n_thorough": 2000}]
PROPS["C18"]["model_files"] = list(dict.fromkeys(PROPS["C18"]["model_files"] + ["model/ResModel.v", "corr/StaticCorr.v"]))
PROPS["C18"]["rule"] = PROPS["C18"]["rule"] + (" || staticload: 3 corpus + n generated stores of DATATYPE_STATICLOAD entries (6 symbols, plain and '.txt' keys, translations nor/swa/fra at random) "
    "and 3-12 lookups through ONE DbResource (FuncFor + call) under context languages {none, nor, swa, fra, eng}, half of them repeating the previous symbol in another language; "
    "model ResModel.db_staticload threaded through the sequence; monitor: translation, else default entry, else the '.txt' forms, else not-found, judged from the entries alone")

# C19 (agent conc follow-up 4) + C18: one WithFlush persister reused by several sessions; an emitting logger shared by the goroutines
PROPS["C19"]["rule"] = PROPS["C19"]["rule"] + (" || alias: a third of the application cases in the shape of a long-lived server - ONE persist.Persister created WithFlush reused for every request of 2-4 "
    "interleaved sessions over one db/mem store, every session with a Config.Language of its own (nor/swa/fra/eng/none), applications with translated templates and (because of K-C11-6) without LOAD/RELOAD "
    "and without entry functions; race: a sixth of the runs with the application logging every request through one emitting library logger (Vanilla.WithLevel(LVL_TRACE), LogWriter = io.Discard)")
PROPS["C19"]["trusted_extra"] = PROPS["C19"]["trusted_extra"] + ["the library's OWN log calls stay filtered at LVL_NONE in the registered binary (the level is fixed by build tag at package initialisation); a build with -tags logtrace exercises them (optional binary vh_conc_log, not registered)"]
PROPS["C18"]["drivers"] = PROPS["C18"]["drivers"] + [{"name": "alias", "bin": "vh_conc", "args": ["-replay", "only:shared-persister"], "env": {"GORACE": "halt_on_error=1 exitcode=66"}, "n_quick": 60, "n_thorough": 600}]
PROPS["C18"]["model_files"] = list(dict.fromkeys(PROPS["C18"]["model_files"] + SLICE_MODEL))
PROPS["C18"]["rule"] = PROPS["C18"]["rule"] + (" || alias (vh_conc, shape shared-persister only): ONE WithFlush persister reused for every request of 2-4 interleaved sessions with different configured languages; "
    "every session's responses, stored session (language included) and calls must equal its solo run")

# C14: asm/menu.go (an anchor of C14) used directly: the menu encoder must not alter selectors
PROPS["C14"]["drivers"] = PROPS["C14"]["drivers"] + [{"name": "asm", "n_quick": 150, "n_thorough": 1500}]
PROPS["C14"]["model_files"] = list(dict.fromkeys(PROPS["C14"]["model_files"] + ASM_MODEL))
PROPS["C14"]["rule"] = PROPS["C14"]["rule"] + (" || asm (menu cases only): 5 corpus + n sequences of 1-4 MenuProcessor.Add calls (DOWN/UP/NEXT/PREVIOUS, selectors from {0,1,00,01,007,010,0000,42,2^32,a,b2,1a,*,x_1,99999999999}) "
    "followed by ToLines; model AsmModel.menu_proc_add/to_lines; monitor: the bytes decode to MOUT/MNEXT/MPREV..., HALT, INCMP... with the selector bytes exactly as given")

# C17: the interactive driver ends on a refused line; what it leaves behind (Finish, the saved session) is part of "no side effects"
PROPS["C17"]["drivers"] = PROPS["C17"]["drivers"] + [{"name": "loop", "n_quick": 100, "n_thorough": 800}]
PROPS["C17"]["model_files"] = list(dict.fromkeys(PROPS["C17"]["model_files"] + LOOP_MODEL))
PROPS["C17"]["rule"] = PROPS["C17"]["rule"] + " || interactive driver (engine.Loop, see C20): readers with refused lines; the monitor demands that Finish runs exactly once on every exit, the error exit after a refused line included"

# C11: sessions served through ONE reused persister must not see each other's data (persist/persist.go is an anchor)
PROPS["C11"]["drivers"] = PROPS["C11"]["drivers"] + [{"name": "alias", "bin": "vh_conc", "args": ["-replay", "only:shared-persister"], "env": {"GORACE": "halt_on_error=1 exitcode=66"}, "n_quick": 60, "n_thorough": 600}]
PROPS["C11"]["model_files"] = list(dict.fromkeys(PROPS["C11"]["model_files"] + SLICE_MODEL))
PROPS["C11"]["rule"] = PROPS["C11"]["rule"] + (" || alias (vh_conc, shape shared-persister only): ONE WithFlush persister reused for every request of 2-4 interleaved sessions; every session's responses and "
    "stored session must equal its solo run (applications without LOAD/RELOAD and without entry functions: see K-C11-6)")

# C19 (agent conc follow-up 5): a third of the race runs with a Config.Language per session and a language function
PROPS["C19"]["rule"] = PROPS["C19"]["rule"] + " || race: a third of the runs (those formerly plain or logging-only) give every session its own Config.Language out of {nor, swa, fra, eng, none} and use applications with LOADs, a lang1 function (FLAG_LANG) and translated templates"

# C11: persist/persist.go modelled (agent persist): one real Persister over a mem store, step-by-step
PERSIST_MODEL = ["model/Bytes.v", "model/Errors.v", "model/CacheModel.v", "model/StateModel.v", "model/DbKey.v", "model/PersistModel.v", "corr/CorrBase.v", "corr/PersistCorr.v"]
PROPS["C11"]["files"] = list(dict.fromkeys(PROPS["C11"]["files"] + ["proofs/PersistProofs.v", "props/C11persist.v"]))
PROPS["C11"]["prop_files"] = PROPS["C11"].get("prop_files", [PROPS["C11"]["prop_file"]]) + ["props/C11persist.v"]
PROPS["C11"]["drivers"] = PROPS["C11"]["drivers"] + [{"name": "persist", "n_quick": 150, "n_thorough": 1500}]
PROPS["C11"]["model_files"] = list(dict.fromkeys(PROPS["C11"]["model_files"] + PERSIST_MODEL))
PROPS["C11"]["rule"] = PROPS["C11"]["rule"] + (" || persist: 7 hand-written histories (the leaks repaired by a037abb as regressions, the remaining mechanism of K-C11-6 with and without flush mode, the clean deployment, "
    "invalid marks, nil objects) + n generated histories of 4-25 operations on ONE real persist.Persister over a mem store with 1-3 session keys: WithContent(generated state and cache), Save(k), Load(k), WithFlush, "
    "Invalidate; after EVERY operation compared with the model: result class, all exported fields of p.State and p.Memory, GetInput, the Invalid marks, the spare part of Cache.Cache's backing array, and all probed records "
    "of the store decoded by a NEW persister; monitor: after Load(k) the persister holds exactly the record last stored under k, a failed Load changes nothing, Save(k) stores exactly the current content and no other "
    "record changes, after a flushing Save the persister is empty (class 0); class 6 (K-C11-6): a Load(k) found no record while the persister still holds the session of another key")

# C11: a static LOAD symbol must be served from its STATICLOAD record whatever else the resource's handle was used for in between
PROPS["C11"]["drivers"] = PROPS["C11"]["drivers"] + [{"name": "staticload", "n_quick": 100, "n_thorough": 1000}]
PROPS["C11"]["model_files"] = list(dict.fromkeys(PROPS["C11"]["model_files"] + ["model/ResModel.v", "corr/StaticCorr.v"]))
PROPS["C11"]["rule"] = PROPS["C11"]["rule"] + " || staticload (see C18): between resolving a static symbol and calling the returned function the same resource serves a code and a template lookup (other data types on the shared handle)"

# C17, last sentence: Flush before anything was executed, on every kind of engine object
PROPS["C17"]["drivers"] = PROPS["C17"]["drivers"] + [{"name": "flushfirst", "n_quick": 40, "n_thorough": 400}]
PROPS["C17"]["model_files"] = list(dict.fromkeys(PROPS["C17"]["model_files"] + ["corr/FlushFirstCorr.v"]))
PROPS["C17"]["rule"] = PROPS["C17"]["rule"] + " || flushfirst: n generated configurations x 4 ways of building the engine object (alone, with a persister for a new / a stored session, with an explicit state and cache): Flush as the first operation, twice; it must answer ErrFlushNoExec, write nothing and not panic"

# C19 (agent conc follow-up 6): short catch nodes, pairwise aliasing observation, LOADs back in the shared-persister shape
PROPS["C19"]["rule"] = PROPS["C19"]["rule"] + (" || one generated application in three has a 6-byte catch node (HALT; MOVE _ / HALT; MOVE ^); after every request (alias) resp. after every concurrent run (race) the backing arrays "
    "of the sessions' pending-code slices must be pairwise disjoint and disjoint from the application's shared arrays; shared-persister shape (after a037abb): applications with LOAD/RELOAD/MAP and a lang1 function, "
    "no entry functions, no out-of-range flag tests (a panicking request is never saved: K-C11-6)")

# C08: the session invariant (flag field covers BitSize) for sessions served through ONE reused WithFlush persister
PROPS["C08"]["drivers"] = PROPS["C08"]["drivers"] + [{"name": "alias", "bin": "vh_conc", "args": ["-replay", "only:shared-persister"], "env": {"GORACE": "halt_on_error=1 exitcode=66"}, "n_quick": 40, "n_thorough": 400}]
PROPS["C08"]["model_files"] = list(dict.fromkeys(PROPS["C08"]["model_files"] + SLICE_MODEL))
PROPS["C08"]["rule"] = PROPS["C08"]["rule"] + (" || alias (vh_conc, shape shared-persister only): ONE WithFlush persister reused for every request of 2-4 interleaved sessions, new sessions arriving through it; "
    "every session's responses and stored session (flag field size included) must equal its solo run")

# C03: routing of one session must not depend on what other sessions of the same process do (shared resource arrays)
PROPS["C03"]["drivers"] = PROPS["C03"]["drivers"] + [{"name": "alias", "bin": "vh_conc", "env": {"GORACE": "halt_on_error=1 exitcode=66"}, "n_quick": 60, "n_thorough": 600}]
PROPS["C03"]["model_files"] = list(dict.fromkeys(PROPS["C03"]["model_files"] + SLICE_MODEL))
PROPS["C03"]["rule"] = PROPS["C03"]["rule"] + (" || alias (vh_conc): 2-4 sessions interleaved request by request over ONE resource that hands out the same stored slices (with spare capacity); every session must be routed "
    "as in its solo run, and no session's pending code may share a backing array with the resource or with another session")

# CDisasmEnc (large files judged through the C14 round-trip theorem): the lemma that justifies it
for _p in ("C14", "C15"):
    PROPS[_p]["files"] = list(dict.fromkeys(PROPS[_p]["files"] + ["proofs/CodecCorrProofs.v"]))

# C07 / C06: the alias driver (see C03, C08).  C07: a long-lived engine and per-request engines over ONE resource with shared slices, and
# new sessions arriving through one reused WithFlush persister, must answer like the solo runs; C06: the flag field of a session that
# arrives through a reused WithFlush persister has the configured size
PROPS["C07"]["drivers"] = PROPS["C07"]["drivers"] + [{"name": "alias", "bin": "vh_conc", "env": {"GORACE": "halt_on_error=1 exitcode=66"}, "n_quick": 60, "n_thorough": 600}]
PROPS["C07"]["model_files"] = list(dict.fromkeys(PROPS["C07"]["model_files"] + SLICE_MODEL))
PROPS["C07"]["rule"] = PROPS["C07"]["rule"] + (" || alias (vh_conc): 2-4 sessions interleaved over ONE resource handing out its stored slices, a third of the cases through ONE reused WithFlush persister: "
    "every session's responses and stored session must equal its solo run (long-lived and per-request engines alike)")
PROPS["C06"]["drivers"] = PROPS["C06"]["drivers"] + [{"name": "alias", "bin": "vh_conc", "args": ["-replay", "only:shared-persister"], "env": {"GORACE": "halt_on_error=1 exitcode=66"}, "n_quick": 40, "n_thorough": 400}]
PROPS["C06"]["model_files"] = list(dict.fromkeys(PROPS["C06"]["model_files"] + SLICE_MODEL))
PROPS["C06"]["rule"] = PROPS["C06"]["rule"] + (" || alias (vh_conc, shape shared-persister only): sessions arriving through ONE reused WithFlush persister have the configured flag count; flags set in the first request of a new session are stored")

# C09: the cache a session is saved with comes back from the store (persist driver, class-0 clauses of its monitor)
PROPS["C09"]["drivers"] = PROPS["C09"]["drivers"] + [{"name": "persist", "n_quick": 100, "n_thorough": 1000}]
PROPS["C09"]["model_files"] = list(dict.fromkeys(PROPS["C09"]["model_files"] + PERSIST_MODEL))
PROPS["C09"]["rule"] = PROPS["C09"]["rule"] + (" || persist: histories of WithContent / Save / Load / WithFlush on one real persist.Persister; after a Load the cache (frames, per-symbol limits, usage, capacity, "
    "spare part of the frame array) must be the one last saved under that key")

# C17: input formats registered by the application (engine.AddValidInput), outside the engine model
PROPS["C17"]["drivers"] = PROPS["C17"]["drivers"] + [{"name": "validinput", "n_quick": 300, "n_thorough": 3000}]
PROPS["C17"]["model_files"] = list(dict.fromkeys(PROPS["C17"]["model_files"] + ["model/NavModel.v", "corr/ValidInputCorr.v"]))
PROPS["C17"]["rule"] = PROPS["C17"]["rule"] + (" || validinput: two formats registered with engine.AddValidInput (^\\*[0-9*]+#$ and ^#[0-9]{1,4}$) in the driver's own process; vm.ValidInput called on service codes, "
    "near misses and every combination with leading/trailing blanks, CR, LF, NUL, and the same inputs sent as the second request of a stored session: the format index must be the model's, an input matching no format "
    "(or over-long) must be refused, and a refused input must leave the stored session unchanged")

# C02: engine.Loop must hand Exec the selector as typed, without CR / blanks (browse walks over paged sinks)
PROPS["C02"]["drivers"] = PROPS["C02"]["drivers"] + [{"name": "loop", "n_quick": 150, "n_thorough": 1200}]          # Viol = loop_violations_c02, Mism = loop_mismatches
PROPS["C02"]["model_files"] = list(dict.fromkeys(PROPS["C02"]["model_files"] + ENGINE_MODEL + LOOP_MODEL))       # LoopCorr needs corr/EngineMon.v (in ENGINE_MODEL)
PROPS["C02"]["rule"] = PROPS["C02"]["rule"] + (" || interactive driver (engine.Loop, see C20): every generated case is a browse walk — an application whose first page offers the 'next' entry, walked with the browse "
    "selectors 11 / 22 on lines ending in CR LF or padded with blanks, tabs, VT, FF, NBSP, U+3000; plus the corpus walks over sizer-sink-name, menu-sink, browse-past-end, sink-name-reused. Monitor: the input handed to Exec is "
    "the typed line without the white space around it, and the page index observed after every request moves one step at a time")

# C12: the record engine.Loop leaves in the store (Finish exactly once; WithFlush must not overwrite it with the flushed state)
PROPS["C12"]["drivers"] = PROPS["C12"]["drivers"] + [{"name": "loop", "n_quick": 150, "n_thorough": 1200}]          # Viol = loop_violations_c12, Mism = loop_mismatches
PROPS["C12"]["model_files"] = list(dict.fromkeys(PROPS["C12"]["model_files"] + ENGINE_MODEL + LOOP_MODEL))
PROPS["C12"]["rule"] = PROPS["C12"]["rule"] + (" || interactive driver (engine.Loop, see C20): every generated case runs Loop over a persister — memory or filesystem store, plain or WithFlush, no record at the start — "
    "plus 15 corpus sessions that the engine ends (graceful end, TERMINATE, abnormal end, stop on the first request) or that end on EOF / an error; the record found in the store afterwards must be the session observed after the "
    "last request (one Finish; compared with the model's loop_stored and, observation only, by loop_c12_ok)")

# round-7 follow-ups of the agents pg / asm / conc / vmdecode (rule texts)
PROPS["C13"]["rule"] = PROPS["C13"]["rule"] + (" || Connect-again (Connect on the already connected store) is a tenth symbol of the exhaustive alphabet and of the adversarial stream, inside and outside Start/Stop, with fault "
    "scripts active: the model predicts no driver call, no effect and result nil; a panic of the real call is recorded as a Panic result; 5 corpus cases")
PROPS["C16"]["rule"] = PROPS["C16"]["rule"] + " || sources with two or three LOAD lines for the same symbol (pool of three symbols; equal and different sizes; adjacent, separated by other lines, and across the menu block), 4 fixed cases and n/10 generated"
for _p in ("C14", "C15"):
    PROPS[_p]["rule"] = PROPS[_p]["rule"] + (" || every ToString listing is produced by ONE long-lived ParseHandler immediately after a ToString call on it that listed one instruction and then failed to decode "
        "(00 07 00 06 03 66), and compared with a fresh handler's result; files of 64 KiB and more holding the encoding of a known program are judged through the C14 round-trip theorem (CDisasmEnc)")
PROPS["C15"]["rule"] = PROPS["C15"]["rule"] + (" || vmrun: the driver's resource has one entry function (lds -> 'x') and a case may run other code in an earlier Run of the same Vm (state and cache carried over): LOAD lds n, "
    "0-2 generated instructions, then LOAD of the cached symbol (or of an uncached control symbol) whose size argument is missing, one byte short, or has a width byte 5..255, as the last bytes of the code and followed by more bytes")
PROPS["C19"]["rule"] = PROPS["C19"]["rule"] + (" || race: one run in ten in the GETTEXT shape: all sessions' engines share ONE resource.PoResource over a locale directory the driver writes (only eng and nor registered), session "
    "languages eng / nor / fra (file present, never registered) / swa (no file) / none; compared with solo runs on a PoResource of their own and with the engine model over the equivalent plain application")
PROPS["C19"]["assumptions"] = PROPS["C19"]["assumptions"] + ["a PoResource is shared between sessions only after all WithLanguage calls (set-up); gotext's own locking is trusted (not modelled)"]
PROPS["C12"]["rule"] = PROPS["C12"]["rule"] + (" || shared-handle-history: one history served request by request on the filesystem store whose handle the application also uses for data of another type between creating the "
    "persister and the request (and connects again now and then), and on a memory store used for nothing else: responses and final record must be equal (FSame)")
PROPS["C10"]["rule"] = PROPS["C10"]["rule"] + (" || a quarter of the valid histories pass the language in the CALLER'S CONTEXT instead of SetLanguage; application-defined data types (9, 12, 33, 48, 64, 66, 128, 192); "
    "Connect-again inside histories; keys tmp / foo.tmp / a session id used as key; SetLanguage with the value lang.LanguageFromCode returns for eng, nor, swa and the ISO 639-3-only codes guz, luy, mer")
