"""Per-property configuration for bin/check."""

TRUSTED_BASE = [
    "Coq 8.16.1 kernel (coqc; vm_compute used for witnesses, finite sweeps and the correspondence evaluation; native_compute not used)",
    "no Axiom/Parameter/Conjecture/Admitted/admit anywhere under coq/ (scanned on every run); expected Print Assumptions: Closed under the global context",
    "translator go/cmd/genconsts (constants and tables -> coq/gen/Consts.v, regenerated on every run) and the add-only //go:build verif export files in /repo",
    "correspondence harness go/cmd/vh: generators, error-class canonicalisation, Coq term printer (no extraction; the model runs inside Coq)",
]

ALLOWED_AXIOMS = set()  # none needed so far; stdlib axioms would be named here and in DESIGN.md section 5

CODEC_MODEL = ["gen/Consts.v", "model/Bytes.v", "model/Errors.v", "model/Codec.v", "corr/CorrBase.v", "corr/CodecCorr.v"]

CACHE_MODEL = ["model/Bytes.v", "model/Errors.v", "model/CacheModel.v", "corr/CorrBase.v", "corr/CacheCorr.v"]

PROPS = {
    "C09": {
        "prop_file": "props/C09.v",
        "files": ["proofs/BytesProofs.v", "proofs/CacheProofs.v", "props/C09.v"],
        "model_files": CACHE_MODEL,
        "drivers": [{"name": "cache", "n_quick": 400, "n_thorough": 5000}],
        "rule": "histories of 2-25 (thorough: 2-41) operations Add/Update/Get/Push/Pop/Reset/Last over 5 keys, limits {0,1,3,10,100,65535}, capacities {0,10,25,100,70000,200000}, "
                "value lengths {0,1,2,limit-1,limit,limit+1,65535..65537,65536+limit(+1),70000, random<12}, multi-line values; all exported Cache fields compared with the model "
                "after every operation; non-trivial = at least 2 operations; distinct by full case term",
        "assumptions": ["value length + capacity < 2^32 (op_bounded): the uint32 wrap of CacheUseSize needs > 4 GiB of cached values and is outside the theorem"],
        "widen_n": 2000,
    },
    "C14": {
        "prop_file": "props/C14.v",
        "files": ["proofs/BytesProofs.v", "proofs/CodecProofs.v", "props/C14.v"],
        "model_files": CODEC_MODEL,
        "drivers": [{"name": "codec", "n_quick": 400, "n_thorough": 6000}],
        "rule": "generated programs of 1-6 instructions over all 12 opcodes (symbol lengths 1..255 incl. 254/255, integers from a boundary set "
                "{0,1,255,256,65535,65536,2^24+-1,2^31,2^32-1} and random uint32), encoded with vm.NewLine and with the assembler's writers, decoded with the "
                "VM's Parse functions, ParseAll and ToString; non-trivial = everything except the fixed primitive cases; distinct by encoded bytes",
        "assumptions": ["math.Log2 in asm.numSize is modelled by N.log2 n / 8 + 1 (the thorough tier sweeps all 2^32 values in Go against the integer formula)",
                        "bytes are < 256 (the model's byte lists carry this as wf_sym / bytes_ok where it matters)"],
        "widen_n": 3000,
    },
    "C15": {
        "prop_file": "props/C15.v",
        "files": ["proofs/BytesProofs.v", "proofs/CodecProofs.v", "props/C15.v"],
        "model_files": CODEC_MODEL,
        "drivers": [{"name": "codec", "n_quick": 150, "n_thorough": 1500}],
        "rule": "all byte strings up to length 3 (thorough: 4) over {0..13,255}; width/length-prefix primitives on short and hostile inputs; every truncation and "
                "random single-byte corruptions of generated valid programs; each fed to ParseAll (collecting handlers), ToString and the VM's per-opcode Parse path under recover(); "
                "trivial = strings shorter than 2 bytes",
        "assumptions": ["text/template, logging and io.Writer are outside the decoder and assumed panic-free"],
        "widen_n": 1500,
    },
}
