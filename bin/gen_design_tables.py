#!/usr/bin/env python3
"""Rewrites the table of seeded changes in DESIGN.md (between the SEEDED-TABLE markers) from seeded/*/meta.json."""
import json, glob, os, re
root = os.path.dirname(os.path.dirname(os.path.abspath(__file__)))
rows = ['| id | file | change (first words) | verdict of the property check |', '|---|---|---|---|']
n = miss = 0
for d in sorted(glob.glob(os.path.join(root, 'seeded/*/meta.json'))):
    m = json.load(open(d)); i = os.path.basename(os.path.dirname(d)); n += 1
    chk = m.get('check', {}); first = chk.get('first_run')
    tie = any('no-failing-input-found' in l for l in chk.get('last_lines', []))
    kind = 'detected as a broken correspondence (VIOLATION ... no-failing-input-found)' if tie else 'detected (concrete failing input in the replay)'
    if not chk.get('detected') and chk.get('other'):
        how = 'not by this property\'s check: ' + chk['other']; miss += 1
    elif not chk.get('detected'):
        how = 'MISSED (open)'; miss += 1
    elif first and not first.get('detected', True):
        how = 'missed at first; ' + chk.get('note', '') + ('; ' + kind if tie else '')
    elif first and first.get('how'):
        how = 'first run: ' + first['how'] + '; ' + chk.get('note', '')
    else:
        how = kind
    rows.append('| %s | %s | %s | %s |' % (i, ', '.join(m.get('files', [])), m.get('what', '')[:110].replace('|', '/').replace('\n', ' '), how.replace('|', '/')))
p = os.path.join(root, 'DESIGN.md'); s = open(p).read()
tbl = '<!-- SEEDED-TABLE-BEGIN -->\n%d changes, %d currently missed.\n\n%s\n<!-- SEEDED-TABLE-END -->' % (n, miss, '\n'.join(rows))
if '<!-- SEEDED-TABLE-BEGIN -->' in s:
    s = re.sub(r'<!-- SEEDED-TABLE-BEGIN -->.*?<!-- SEEDED-TABLE-END -->', lambda _: tbl, s, flags=re.S)
else:
    a = s.index('| id | file | change (first words)')
    b = s.index('What the misses taught')
    s = s[:a] + tbl + '\n\n' + s[b:]
open(p, 'w').write(s)
print(n, 'seeded changes,', miss, 'missed')
