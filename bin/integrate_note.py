#!/usr/bin/env python3
"""Helper used while building: merge an agent's integration note into the registry files."""
import re, sys, json, os, shutil, glob
name = sys.argv[1]
root = '/verif'
note = open(f'{root}/notes/integration_{name}.md').read()
def block(title_re, lang):
    m = re.search(title_re + r".*?\n```" + lang + r"\n(.*?)```", note, re.S)
    return m.group(1) if m else None
# _CoqProject
cp = block(r"##[^\n]*_CoqProject", "")
if cp:
    lines = [l.split('#')[0].strip() for l in cp.split('\n')]
    lines = [l for l in lines if l.endswith('.v')]
    p = f'{root}/coq/_CoqProject'; s = open(p).read()
    have = set(s.split())
    add = [l for l in lines if l not in have]
    open(p, 'w').write(s.rstrip('\n') + '\n' + '\n'.join(add) + ('\n' if add else ''))
    print('coqproject +', add)
# props
pe = block(r"##[^\n]*props\.py", "python")
if pe:
    idx = re.search(r'^    "C\d+', pe, re.M).start()
    pre, body = pe[:idx].strip(), pe[idx:].rstrip()
    p = f'{root}/bin/props.py'; s = open(p).read()
    if pre and pre.split('=')[0].strip() not in s:
        s = s.replace('PROPS = {', pre + '\n\nPROPS = {', 1)
    import textwrap
    body = re.sub(r'^    "(C\d+)": \{', r'PROPS["\1"] = {', body, flags=re.M)
    body = textwrap.dedent(body).rstrip().rstrip(',')
    s = s.rstrip('\n') + '\n\n' + body + '\n'
    open(p, 'w').write(s); print('props + entries')
me = block(r"##[^\n]*manifest_meta\.py", "python")
if me:
    p = f'{root}/bin/manifest_meta.py'; s = open(p).read()
    import textwrap
    me2 = re.sub(r'^    "(C\d+)": \{', r'META["\1"] = {', me.strip('\n'), flags=re.M)
    me2 = textwrap.dedent(me2).rstrip().rstrip(',')
    s = s.rstrip('\n') + '\n\n' + me2 + '\n'
    open(p, 'w').write(s); print('meta + entries')
kf = block(r"##[^\n]*KNOWN_FINDINGS", "json")
if kf:
    txt = kf.strip()
    try:
        ents = json.loads('[' + txt.rstrip(',') + ']')
    except Exception as e:
        print('KNOWN_FINDINGS not parsed:', e); ents = []
    p = f'{root}/KNOWN_FINDINGS.json'; d = json.load(open(p))
    ids = {f['id'] for f in d['findings']}
    for e in ents:
        if e['id'] not in ids:
            d['findings'].append(e)
    json.dump(d, open(p, 'w'), indent=1); print('findings +', [e['id'] for e in ents])
src = f'{root}/go/cmd/vh_{name}'
if os.path.isdir(src):
    for f in glob.glob(src + '/*.go'):
        if os.path.basename(f) != 'main.go':
            shutil.copy(f, f'{root}/go/cmd/vh/' + os.path.basename(f)); print('driver', os.path.basename(f))
    shutil.rmtree(src)
