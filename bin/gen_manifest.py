#!/usr/bin/env python3
"""Regenerates MANIFEST.json from bin/props.py + bin/manifest_meta.py."""
import json, os, sys
ROOT = os.path.dirname(os.path.dirname(os.path.abspath(__file__)))
sys.path.insert(0, os.path.join(ROOT, "bin"))
from props import PROPS
from manifest_meta import META, NOT_APPLICABLE, HOOK_COMMITS

checks = []
for pid in sorted(PROPS):
    m = META[pid]
    checks.append({
        "property_id": pid,
        "quick_cmd": "bin/check %s quick" % pid,
        "thorough_cmd": "bin/check %s thorough" % pid,
        "evidence_file": "/verif/evidence/%s.json" % pid,
        "replay_cmd_template": "bin/check %s --replay {path}" % pid,
        "engine": "coq-model+correspondence",
        "level_claimed": {"category": "proof", "text": m["text"], "design_ref": m["design_ref"]},
        "level_note": m["note"],
        "technique": m["technique"],
    })
man = {
    "version": 1,
    "setup_cmd": "bin/setup",
    "hooks": {
        "guard": "verif",
        "enable": "go build -tags verif (files */verif_export.go are //go:build verif; they only re-export private constants and functions)",
        "baseline_off_cmd": "cd /repo && GOFLAGS=-mod=mod GOPROXY=off GOSUMDB=off GOTOOLCHAIN=local go test -vet=off -count=1 -timeout 25m ./...",
        "source_commits": HOOK_COMMITS,
        "add_only": True,
    },
    "engines": [{
        "name": "coq-model+correspondence", "path": "/verif/coq, /verif/go, /verif/bin/check",
        "serves_properties": sorted(PROPS),
        "kind_free_text": "Rocq/Coq 8.16.1 development (hand-written executable Gallina model of the Go code + generated Consts.v + theorems) tied to /repo by a constants translator and a differential correspondence check evaluated inside Coq with vm_compute",
    }],
    "checks": checks,
    "not_applicable": [{"property_id": p, "reason": r} for p, r in sorted(NOT_APPLICABLE.items()) if p not in PROPS],
    "notes": "See DESIGN.md. All checks share one Coq build (coq/) and one harness binary (go/bin/vh), rebuilt from /repo's working tree on every run.",
}
json.dump(man, open(os.path.join(ROOT, "MANIFEST.json"), "w"), indent=1)
print("wrote MANIFEST.json with", len(checks), "checks;", len(man["not_applicable"]), "not applicable")
