// Package fakepg is an in-process transactional fake of the part of the pgx driver that
// db/postgres uses (postgres.PgInterface, pgx.Tx, pgx.Rows), with a scripted fault oracle.
//
// Semantics (these are the assumptions of the C13 model, coq/model/PgTx.v):
//   - one committed key/value map; every open transaction has a private pending overlay;
//     reads inside a transaction see committed data overlaid with the own pending writes
//     (read committed, no write conflicts: the code under study never holds two writers);
//   - Commit applies the overlay atomically and ends the transaction; Rollback drops it;
//   - every primitive driver call (BeginTx, Exec, Query, Next, Scan, Commit, Rollback) consumes
//     one entry of the fault script; a "true" entry makes exactly that call fail:
//     BeginTx/Exec/Query/Scan return ErrFault and have no effect, Next returns false and sets
//     Rows.Err(), a failing Commit or Rollback returns ErrFault and leaves the transaction ENDED
//     WITH NOTHING APPLIED (the connection is gone, the server discards the transaction);
//   - Commit/Rollback/Exec/Query on a finished transaction return pgx.ErrTxClosed without effect;
//   - BeginTx after Close returns ErrClosed.
package fakepg

import (
	"bytes"
	"context"
	"errors"
	"fmt"
	"sort"
	"strings"
	"sync"

	pgx "github.com/jackc/pgx/v5"
	"github.com/jackc/pgx/v5/pgconn"
)

var (
	// ErrFault is the injected driver error.
	ErrFault = errors.New("fakepg: injected fault")
	// ErrClosed is returned by BeginTx after Close.
	ErrClosed = errors.New("fakepg: closed pool")
)

// Server is the fake database: committed data, open transactions and the call log.
type Server struct {
	mu        sync.Mutex
	committed map[string][]byte
	open      map[int]*Tx
	nextID    int
	closed    bool
	faults    []bool
	calls     int
	log       []entry
}

type entry struct {
	kind string
	id   int
	flag string
}

func New() *Server {
	return &Server{committed: map[string][]byte{}, open: map[int]*Tx{}, nextID: 1}
}

// Conn returns a connection handle implementing postgres.PgInterface.
func (s *Server) Conn() *Conn { return &Conn{s: s} }

// Script installs the fault oracle: the i-th primitive driver call from now on (counting from 0)
// fails iff faults[i]; calls beyond the script do not fail.
func (s *Server) Script(faults []bool) {
	s.mu.Lock()
	defer s.mu.Unlock()
	s.faults = append([]bool{}, faults...)
	s.calls = 0
}

// Calls is the number of primitive driver calls made since the last Script.
func (s *Server) Calls() int {
	s.mu.Lock()
	defer s.mu.Unlock()
	return s.calls
}

// Log returns the call log: "<kind>#<txid>" with kind in begin, exec, query, next, scan, commit,
// rollback (and "close#0" for Conn.Close), suffixed "!fault" when an injected fault fired,
// "!closed" for BeginTx on a closed pool, "!done" for a call on a finished transaction.
func (s *Server) Log() []string {
	s.mu.Lock()
	defer s.mu.Unlock()
	out := make([]string, len(s.log))
	for i, e := range s.log {
		out[i] = fmt.Sprintf("%s#%d", e.kind, e.id)
		if e.flag != "" {
			out[i] += "!" + e.flag
		}
	}
	return out
}

// Committed returns a copy of the committed data.
func (s *Server) Committed() map[string][]byte {
	s.mu.Lock()
	defer s.mu.Unlock()
	m := make(map[string][]byte, len(s.committed))
	for k, v := range s.committed {
		m[k] = append([]byte{}, v...)
	}
	return m
}

// Seed stores committed data directly (test set-up; not a driver call).
func (s *Server) Seed(key, val []byte) {
	s.mu.Lock()
	defer s.mu.Unlock()
	s.committed[string(key)] = append([]byte{}, val...)
}

// OpenTx is the number of transactions begun and not yet committed or rolled back.
func (s *Server) OpenTx() int {
	s.mu.Lock()
	defer s.mu.Unlock()
	return len(s.open)
}

// tick consumes one oracle entry; the caller holds the lock.
func (s *Server) tick() bool {
	i := s.calls
	s.calls++
	return i < len(s.faults) && s.faults[i]
}

func (s *Server) emit(kind string, id int, flag string) {
	s.log = append(s.log, entry{kind, id, flag})
}

// Conn implements postgres.PgInterface.
type Conn struct{ s *Server }

func (c *Conn) BeginTx(ctx context.Context, _ pgx.TxOptions) (pgx.Tx, error) {
	s := c.s
	s.mu.Lock()
	defer s.mu.Unlock()
	f := s.tick()
	id := s.nextID
	s.nextID++
	if f {
		s.emit("begin", id, "fault")
		return nil, ErrFault
	}
	if s.closed {
		s.emit("begin", id, "closed")
		return nil, ErrClosed
	}
	tx := &Tx{s: s, id: id, pending: map[string][]byte{}}
	s.open[id] = tx
	s.emit("begin", id, "")
	return tx, nil
}

func (c *Conn) Close() {
	s := c.s
	s.mu.Lock()
	defer s.mu.Unlock()
	s.closed = true
	s.emit("close", 0, "")
}

// Tx implements pgx.Tx; methods that db/postgres does not use are left to the embedded nil
// interface (calling them panics, which a harness run would report).
type Tx struct {
	pgx.Tx
	s       *Server
	id      int
	pending map[string][]byte
	order   []string
}

func (t *Tx) live() bool { _, ok := t.s.open[t.id]; return ok }

func (t *Tx) Exec(ctx context.Context, sql string, args ...any) (pgconn.CommandTag, error) {
	s := t.s
	s.mu.Lock()
	defer s.mu.Unlock()
	if s.tick() {
		s.emit("exec", t.id, "fault")
		return pgconn.CommandTag{}, ErrFault
	}
	if !t.live() {
		s.emit("exec", t.id, "done")
		return pgconn.CommandTag{}, pgx.ErrTxClosed
	}
	q := strings.TrimSpace(sql)
	switch {
	case strings.HasPrefix(q, "INSERT INTO") && strings.Contains(q, "ON CONFLICT"):
		if len(args) != 2 {
			return pgconn.CommandTag{}, fmt.Errorf("fakepg: upsert expects (key, value)")
		}
		k, ok1 := args[0].([]byte)
		v, ok2 := args[1].([]byte)
		if !ok1 || !ok2 {
			return pgconn.CommandTag{}, fmt.Errorf("fakepg: upsert arguments must be []byte")
		}
		if _, seen := t.pending[string(k)]; !seen {
			t.order = append(t.order, string(k))
		}
		t.pending[string(k)] = append([]byte{}, v...)
		s.emit("exec", t.id, "")
		return pgconn.NewCommandTag("INSERT 0 1"), nil
	case strings.HasPrefix(q, "CREATE TABLE"):
		s.emit("exec", t.id, "")
		return pgconn.NewCommandTag("CREATE TABLE"), nil
	}
	return pgconn.CommandTag{}, fmt.Errorf("fakepg: unsupported statement: %.40s", q)
}

// read is a lookup inside the transaction: own pending writes over committed data.
func (t *Tx) read(k string) ([]byte, bool) {
	if v, ok := t.pending[k]; ok {
		return v, true
	}
	v, ok := t.s.committed[k]
	return v, ok
}

func (t *Tx) Query(ctx context.Context, sql string, args ...any) (pgx.Rows, error) {
	s := t.s
	s.mu.Lock()
	defer s.mu.Unlock()
	if s.tick() {
		s.emit("query", t.id, "fault")
		return nil, ErrFault
	}
	if !t.live() {
		s.emit("query", t.id, "done")
		return nil, pgx.ErrTxClosed
	}
	q := strings.TrimSpace(sql)
	if len(args) != 1 {
		return nil, fmt.Errorf("fakepg: query expects (key)")
	}
	k, ok := args[0].([]byte)
	if !ok {
		return nil, fmt.Errorf("fakepg: query argument must be []byte")
	}
	rs := &Rows{t: t}
	switch {
	case strings.HasPrefix(q, "SELECT value FROM") && strings.Contains(q, "WHERE key = $1"):
		if v, ok := t.read(string(k)); ok {
			rs.rows = append(rs.rows, [][]byte{append([]byte{}, v...)})
		}
	case strings.HasPrefix(q, "SELECT key, value FROM") && strings.Contains(q, "WHERE key >= $1"):
		// Dump: every visible row with key >= k, in key order (bytea comparison).
		keys := map[string]bool{}
		for kk := range s.committed {
			keys[kk] = true
		}
		for kk := range t.pending {
			keys[kk] = true
		}
		var ks []string
		for kk := range keys {
			if bytes.Compare([]byte(kk), k) >= 0 {
				ks = append(ks, kk)
			}
		}
		sort.Strings(ks)
		for _, kk := range ks {
			v, _ := t.read(kk)
			rs.rows = append(rs.rows, [][]byte{[]byte(kk), append([]byte{}, v...)})
		}
	default:
		return nil, fmt.Errorf("fakepg: unsupported query: %.40s", q)
	}
	s.emit("query", t.id, "")
	return rs, nil
}

func (t *Tx) Commit(ctx context.Context) error {
	s := t.s
	s.mu.Lock()
	defer s.mu.Unlock()
	f := s.tick()
	if !t.live() {
		if f {
			s.emit("commit", t.id, "fault")
			return ErrFault
		}
		s.emit("commit", t.id, "done")
		return pgx.ErrTxClosed
	}
	delete(s.open, t.id)
	if f {
		s.emit("commit", t.id, "fault")
		return ErrFault
	}
	for _, k := range t.order {
		s.committed[k] = t.pending[k]
	}
	s.emit("commit", t.id, "")
	return nil
}

func (t *Tx) Rollback(ctx context.Context) error {
	s := t.s
	s.mu.Lock()
	defer s.mu.Unlock()
	f := s.tick()
	if !t.live() {
		if f {
			s.emit("rollback", t.id, "fault")
			return ErrFault
		}
		s.emit("rollback", t.id, "done")
		return pgx.ErrTxClosed
	}
	delete(s.open, t.id)
	if f {
		s.emit("rollback", t.id, "fault")
		return ErrFault
	}
	s.emit("rollback", t.id, "")
	return nil
}

// Rows implements pgx.Rows over a materialised result (snapshot at Query time). As in pgx,
// Next closes the rows when it returns false.
type Rows struct {
	pgx.Rows
	t      *Tx
	rows   [][][]byte
	pos    int // index of the current row + 1
	closed bool
	err    error
}

func (r *Rows) Next() bool {
	s := r.t.s
	s.mu.Lock()
	defer s.mu.Unlock()
	if r.closed {
		return false
	}
	if s.tick() {
		s.emit("next", r.t.id, "fault")
		r.err = ErrFault
		r.closed = true
		return false
	}
	s.emit("next", r.t.id, "")
	if r.pos >= len(r.rows) {
		r.closed = true
		return false
	}
	r.pos++
	return true
}

func (r *Rows) Scan(dest ...any) error {
	s := r.t.s
	s.mu.Lock()
	defer s.mu.Unlock()
	if s.tick() {
		s.emit("scan", r.t.id, "fault")
		r.err = ErrFault
		r.closed = true
		return ErrFault
	}
	if r.pos == 0 || r.pos > len(r.rows) || r.closed {
		s.emit("scan", r.t.id, "done")
		return errors.New("fakepg: Scan without a current row")
	}
	row := r.rows[r.pos-1]
	if len(dest) != len(row) {
		return fmt.Errorf("fakepg: Scan expects %d destinations", len(row))
	}
	for i, d := range dest {
		p, ok := d.(*[]byte)
		if !ok {
			return fmt.Errorf("fakepg: Scan destination must be *[]byte")
		}
		*p = append([]byte{}, row[i]...)
	}
	s.emit("scan", r.t.id, "")
	return nil
}

// Close is idempotent and harmless after Next returned false (which already closed the rows).
func (r *Rows) Close() { r.closed = true }

// Err reports the injected fault that made Next return false (or Scan fail); nil for "no more rows".
// Neither Close nor Err is a fault point: they consume no oracle entry and are not logged.
func (r *Rows) Err() error { return r.err }
