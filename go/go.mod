module verif/harness

go 1.22.0

require (
	git.defalsify.org/vise.git v0.0.0
	github.com/jackc/pgx/v5 v5.7.0
)

require (
	github.com/alecthomas/participle/v2 v2.0.0 // indirect
	github.com/barbashov/iso639-3 v0.0.0-20211020172741-1f4ffb2d8d1c // indirect
	github.com/fxamacker/cbor/v2 v2.4.0 // indirect
	github.com/jackc/pgpassfile v1.0.0 // indirect
	github.com/jackc/pgservicefile v0.0.0-20240606120523-5a60cdf6a761 // indirect
	github.com/jackc/puddle/v2 v2.2.1 // indirect
	github.com/mattn/kinako v0.0.0-20170717041458-332c0a7e205a // indirect
	github.com/x448/float16 v0.8.4 // indirect
	golang.org/x/crypto v0.27.0 // indirect
	golang.org/x/sync v0.8.0 // indirect
	golang.org/x/text v0.18.0 // indirect
	gopkg.in/leonelquinteros/gotext.v1 v1.3.1 // indirect
)

replace git.defalsify.org/vise.git => /repo
