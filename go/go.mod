module verif/harness

go 1.22.0

require git.defalsify.org/vise.git v0.0.0

require (
	github.com/alecthomas/participle/v2 v2.0.0 // indirect
	github.com/barbashov/iso639-3 v0.0.0-20211020172741-1f4ffb2d8d1c // indirect
	github.com/mattn/kinako v0.0.0-20170717041458-332c0a7e205a // indirect
	gopkg.in/leonelquinteros/gotext.v1 v1.3.1 // indirect
)

replace git.defalsify.org/vise.git => /repo
