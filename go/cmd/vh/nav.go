//go:build verif

package main

import (
	"bytes"
	"context"
	"errors"
	"fmt"
	"math/rand"
	"regexp"
	"strings"

	"git.defalsify.org/vise.git/cache"
	"git.defalsify.org/vise.git/state"
	"git.defalsify.org/vise.git/vm"
	"verif/harness/internal/hx"
)

// Driver "nav" (property C04, component level): runs the real vm.applyTarget (through the
// verif hook) on a real state.State and cache.Cache over generated target sequences, and
// records after every call: returned symbol and index, how it ended (nil / IndexError /
// other error / panic), ExecPath, SizeIdx, cache Levels(), Code and Flags.  A second stream
// checks the three input patterns on all short strings over a small hostile alphabet.
// The Coq side (corr/NavCorr.v) compares with the model (nav_mismatches) and runs the move
// table of doc/texinfo/navigation.texi as a monitor on the observed steps (nav_violations).

func init() { drivers["nav"] = runNav }

type navObs struct {
	Sym    string   `json:"sym"`
	Ridx   uint16   `json:"ridx"`
	Res    string   `json:"res"`
	Path   []string `json:"-"`
	Depth  int      `json:"len"`
	Where  string   `json:"where"`
	Sidx   uint16   `json:"sizeidx"`
	Levels uint32   `json:"levels"`
	Code   []byte   `json:"-"`
	Flags  []byte   `json:"-"`
}

func commonPrefix(a, b []string) int {
	n := 0
	for n < len(a) && n < len(b) && a[n] == b[n] {
		n++
	}
	return n
}

func (o navObs) term(init []string) string {
	k := commonPrefix(init, o.Path)
	return fmt.Sprintf("(mkNobs %s %d %s %d %s %d %d %s %s)", hx.S(o.Sym), o.Ridx, o.Res, k,
		hx.SList(o.Path[k:]), o.Sidx, o.Levels, hx.B(o.Code), hx.B(o.Flags))
}

func cycPath(seeds []string, n int) []string {
	r := make([]string, 0, n)
	for i := 0; i < n && len(seeds) > 0; i++ {
		r = append(r, seeds[i%len(seeds)])
	}
	return r
}

// one real call under recover()
func navStep(st *state.State, ca *cache.Cache, target []byte) navObs {
	var o navObs
	var sym string
	var idx uint16
	var err error
	pk, _ := hx.Recover(func() {
		sym, idx, err = vm.VerifApplyTarget(target, st, ca, context.Background())
	})
	switch {
	case pk:
		o.Res = "NPanic"
	case err == nil:
		o.Res = "NOk"
	case errors.Is(err, state.IndexError):
		o.Res = "(NErr EIndex)"
	default:
		o.Res = "(NErr EGen)"
	}
	if !pk {
		o.Sym = sym
		o.Ridx = idx
	}
	o.Path = append([]string{}, st.ExecPath...)
	o.Depth = len(o.Path)
	o.Where, _ = st.Where()
	o.Sidx = st.SizeIdx
	o.Levels = ca.Levels()
	o.Code = append([]byte{}, st.Code...)
	o.Flags = append([]byte{}, st.Flags...)
	return o
}

var (
	navNames   = []string{"aa", "bb", "foo", "bar", "baz", "node_1", "_catch", "x1", "A_", "00"}
	navCtrl    = []string{"_", "^", ".", ">", "<"}
	navInvalid = []string{"", "x", "a-b", "_x", "..", "\xff", "a\xff", "ab\n", "+ab", ">>", "_catch_", "^.", "a b", "é"}
)

func runNav(o opts) error {
	w := &hx.Writer{Dir: o.out, Prop: o.prop, Imports: "Bytes Errors CacheModel StateModel NavModel CorrBase NavProofs NavCorr",
		CaseType: "navcase", Mism: "nav_mismatches", Viol: "nav_violations", PerShard: 50}

	run := func(kind string, seeds []string, n int, idx uint16, levels int, targets []string) {
		init := cycPath(seeds, n)
		st := state.NewState(8)
		st.SetFlag(3)
		st.SetFlag(9)
		st.Code = []byte{0, 1}
		st.ExecPath = append([]string{}, init...)
		st.SizeIdx = idx
		ca := cache.NewCache()
		for i := 1; i < levels; i++ {
			ca.Push()
		}
		obs := make([]string, len(targets))
		desc := make([]navObs, len(targets))
		for i, t := range targets {
			ob := navStep(st, ca, []byte(t))
			obs[i] = ob.term(init)
			desc[i] = ob
			w.Count("res:" + ob.Res)
			switch {
			case len(t) == 1 && strings.Contains("_^.<>", t):
				w.Count("target:" + t + ":" + ob.Res)
			case vm.ValidSym([]byte(t)) == nil:
				w.Count("target:name:" + ob.Res)
			default:
				w.Count("target:invalid:" + ob.Res)
			}
			if ob.Depth >= 129 {
				w.Count("depth>=129")
			}
		}
		w.Add(hx.Case{Kind: kind, Trivial: len(targets) < 2,
			Term: fmt.Sprintf("NavSeq %s %d %d %d %s %s", hx.SList(seeds), n, idx, levels, hx.SList(targets), hx.List(obs)),
			Desc: map[string]interface{}{"init_path": map[string]interface{}{"seeds": seeds, "n": n}, "init_idx": idx,
				"init_levels": levels, "targets": hexAll(targets), "observed": desc}})
	}

	// ---- corpus -----------------------------------------------------------------------
	// the documented example table
	run("corpus:doc-table", nil, 0, 0, 1, []string{"foo", "bar", "baz", ">", ">", "<", ".", "_", "baz", "^"})
	// "_" at the entry node: the text says it fails; the code returns nil and empties the stack
	run("corpus:up-at-entry", []string{"root"}, 1, 0, 2, []string{"_", ".", "_", "root"})
	run("corpus:up-at-entry-idx", []string{"root"}, 1, 3, 2, []string{"_"})
	run("corpus:prev-at-0", []string{"root", "foo"}, 2, 0, 3, []string{"<", ">", "<", "<"})
	run("corpus:top-at-entry-keeps-idx", []string{"root"}, 1, 3, 2, []string{"^", "foo", ">", "^", "^"})
	run("corpus:empty-state", nil, 0, 0, 1, []string{"^", ".", ">", "<", "_", "x", "", "root", "root"})
	// a move to the current node: refused with an error since b32c1a0 (used to panic in State.Down)
	run("corpus:same-node", []string{"root", "foo"}, 2, 2, 3, []string{"foo", ".", "bar", "bar", "_", "foo"})
	run("corpus:maxlevel", []string{"aa", "bb"}, 127, 0, 128, []string{"foo", "bar", "foo", "bar", "foo", "_", "_", "bar", "baz", "^"})
	run("corpus:maxlevel-over", []string{"aa", "bb"}, 131, 1, 132, []string{"foo", ">", "_", "_", "_", "foo", "bar", "^"})
	run("corpus:uint16-wrap", []string{"root", "foo"}, 2, 65534, 3, []string{">", ">", "<", ">", ">", "<", "<"})
	run("corpus:cache-floor", []string{"root", "foo", "bar"}, 3, 0, 1, []string{"_", "^", "baz", "_", "_"})
	run("corpus:digit-and-short-names", []string{"root"}, 1, 0, 2, []string{"1ab", "_", "x", "0_", "__", "_catch"})

	// ---- generated sequences -------------------------------------------------------------
	pick := func(r *rand.Rand, pn, pc, pi int) string {
		x := r.Intn(pn + pc + pi)
		switch {
		case x < pn:
			// few names, so that descents into the current node happen
			return navNames[r.Intn(len(navNames))]
		case x < pn+pc:
			return navCtrl[r.Intn(len(navCtrl))]
		}
		if r.Intn(4) == 0 {
			b := make([]byte, 1+r.Intn(3))
			for i := range b {
				b[i] = matchAlphabet[r.Intn(len(matchAlphabet))]
			}
			return string(b)
		}
		return navInvalid[r.Intn(len(navInvalid))]
	}
	maxLen := 30
	if o.tier == "thorough" {
		maxLen = 60
	}
	for c := 0; c < o.n; c++ {
		r := hx.Rng(o.seed, "nav", c)
		nt := 1 + r.Intn(maxLen)
		var ts []string
		switch c % 8 {
		case 0, 1: // from the empty state; the first target is usually a node name
			if r.Intn(8) > 0 {
				ts = append(ts, navNames[r.Intn(5)])
			}
			for len(ts) < nt {
				ts = append(ts, pick(r, 8, 9, 2))
			}
			run("seq:empty", nil, 0, 0, 1, ts)
		case 2, 3: // from a deep state
			d := 1 + r.Intn(6)
			seeds := make([]string, d)
			for i := range seeds {
				seeds[i] = navNames[(r.Intn(3)+i*3)%len(navNames)]
				if i > 0 && seeds[i] == seeds[i-1] {
					seeds[i] = "zz"
				}
			}
			for len(ts) < nt {
				ts = append(ts, pick(r, 6, 12, 2))
			}
			run("seq:deep", seeds, d, uint16(r.Intn(4)), d+1, ts)
		case 4: // across MaxLevel
			d := 124 + r.Intn(8)
			for len(ts) < nt {
				ts = append(ts, pick(r, 12, 5, 1))
			}
			run("seq:maxlevel", []string{"aa", "bb", "x1"}, d, uint16(r.Intn(2)), d+1, ts)
		case 5: // across the uint16 wrap of SizeIdx
			idx := uint16(65536 - 1 - r.Intn(4))
			for len(ts) < nt {
				if r.Intn(3) > 0 {
					ts = append(ts, []string{">", ">", ">", "<"}[r.Intn(4)])
				} else {
					ts = append(ts, pick(r, 3, 6, 1))
				}
			}
			d := 1 + r.Intn(2)
			run("seq:wrap", []string{"root", "foo"}, d, idx, d+1, ts)
		case 6: // adversarial: malformed targets, cache depth not matching the stack
			d := r.Intn(5)
			for len(ts) < nt {
				ts = append(ts, pick(r, 3, 6, 8))
			}
			run("seq:adversarial", []string{"root", "foo", "bar", "baz"}, d, uint16(r.Intn(3)), 1+r.Intn(d+3), ts)
		default: // lateral-heavy
			d := 1 + r.Intn(3)
			for len(ts) < nt {
				ts = append(ts, pick(r, 2, 12, 1))
			}
			run("seq:lateral", []string{"root", "foo", "bar"}, d, uint16(r.Intn(3)), d+1, ts)
		}
	}

	// ---- the three patterns on all strings up to length 3 (thorough: 4) ---------------------
	reIn := regexp.MustCompile(vm.VerifInputRegexStr())
	reSym := regexp.MustCompile(vm.VerifSymRegexStr())
	reCtrl := regexp.MustCompile(vm.VerifCtrlRegexStr())
	maxL := 3
	if o.tier == "thorough" {
		maxL = 4
	}
	var items []string
	var shorts []string
	flush := func() {
		if len(items) == 0 {
			return
		}
		w.Add(hx.Case{Kind: "match", Term: fmt.Sprintf("NavMatch %s", hx.List(items)), Key: strings.Join(shorts, ","),
			Desc: map[string]interface{}{"strings_hex": shorts}})
		items, shorts = nil, nil
	}
	check := func(s []byte) {
		m := 0
		if reIn.Match(s) {
			m |= 1
		}
		if reSym.Match(s) {
			m |= 2
		}
		if reCtrl.Match(s) {
			m |= 4
		}
		if _, err := vm.ValidInput(s); err == nil {
			m |= 8
		}
		if vm.ValidSym(s) == nil {
			m |= 16
		}
		if vm.VerifValidTarget(s) {
			m |= 32
		}
		w.Count(fmt.Sprintf("match:mask=%d", m))
		items = append(items, fmt.Sprintf("(%s, %d)", hx.B(s), m))
		shorts = append(shorts, fmt.Sprintf("%x", s))
		if len(items) == 60 {
			flush()
		}
	}
	var rec func(prefix []byte, l int)
	rec = func(prefix []byte, l int) {
		check(prefix)
		if l == maxL {
			return
		}
		for _, b := range matchAlphabet {
			rec(append(append([]byte{}, prefix...), b), l+1)
		}
	}
	rec(nil, 0)
	for _, s := range []string{"_catch", "_catch_", "_catc", "+_catch", "+a", "++a", "+", "a\nb", "ab\n", "\nab", "node_1", "a__", "1_", "Zz9_", "é", "aé", "a\xffb", "+9\xff", "abc-d", bytes.NewBufferString(strings.Repeat("a", 300)).String()} {
		check([]byte(s))
	}
	flush()
	return w.Flush()
}

// '+', '_', '.', LF, 0xFF, '^', '>', '<', letters, digits, '-'
var matchAlphabet = []byte{'+', '_', '.', '\n', 0xff, '^', '>', '<', 'a', 'Z', '0', '-'}

func hexAll(ts []string) []string {
	r := make([]string, len(ts))
	for i, t := range ts {
		printable := true
		for _, c := range []byte(t) {
			if c < 32 || c > 126 {
				printable = false
			}
		}
		if printable {
			r[i] = t
		} else {
			r[i] = fmt.Sprintf("hex:%x", t)
		}
	}
	return r
}
