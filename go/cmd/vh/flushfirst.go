//go:build verif

package main

// Driver "flushfirst" (C17): Flush as the very first operation on an engine object, for every way of
// building one; it must be refused (ErrFlushNoExec), write nothing and not panic — also when repeated.

import (
	"bytes"
	"context"
	"fmt"

	"git.defalsify.org/vise.git/cache"
	memdb "git.defalsify.org/vise.git/db/mem"
	"git.defalsify.org/vise.git/engine"
	"git.defalsify.org/vise.git/persist"
	"git.defalsify.org/vise.git/state"
	"verif/harness/internal/hx"
)

func init() { drivers["flushfirst"] = runFlushFirst }

func runFlushFirst(o opts) error {
	w := &hx.Writer{Dir: o.out, Prop: o.prop, Imports: "Bytes Errors Consts Codec CacheModel StateModel NavModel RenderModel VmModel EngineModel CorrBase EngineCorr FlushFirstCorr",
		CaseType: "ffcase", Mism: "flushfirst_mismatches", Viol: "flushfirst_violations", PerShard: 100}
	ctx := context.Background()
	flush := func(en *engine.DefaultEngine) (string, []byte) {
		stat := "OSPanic"
		var out []byte
		hx.Recover(func() {
			b := bytes.NewBuffer(nil)
			_, err := en.Flush(ctx, b)
			out = b.Bytes()
			stat = errClass(err)
		})
		return stat, out
	}
	for c := 0; c < o.n; c++ {
		r := hx.Rng(o.seed, "flushfirst", c)
		g := genApp(r)
		w0 := &eWorld{counts: map[string]int{}}
		rs, err := buildResource(g.app, w0)
		if err != nil {
			return err
		}
		cfg := mkConfig(g.cfg)
		for kind := 0; kind < 4; kind++ {
			en := engine.NewEngine(cfg, rs)
			if g.cfg.First != nil {
				en = en.WithFirst(scripted(w0, "_first", g.cfg.First))
			}
			switch kind {
			case 1, 2:
				store := memdb.NewMemDb()
				store.Connect(ctx, "")
				if kind == 2 { // a stored session: one request served by another engine object before
					e0 := engine.NewEngine(cfg, rs).WithPersister(persist.NewPersister(store))
					hx.Recover(func() {
						e0.Exec(ctx, []byte{})
						e0.Flush(ctx, bytes.NewBuffer(nil))
						e0.Finish(ctx)
					})
				}
				en = en.WithPersister(persist.NewPersister(store))
			case 3:
				en = en.WithState(state.NewState(g.cfg.FlagCount)).WithMemory(cache.NewCache())
			}
			s1, o1 := flush(en)
			s2, o2 := flush(en)
			w.Add(hx.Case{Kind: fmt.Sprintf("construction-%d", kind), Key: fmt.Sprintf("ff-%d-%d", c, kind),
				Term: fmt.Sprintf("(mkFf %d %s %s %s %s %s)", kind, g.cfg.term(), s1, hx.B(o1), s2, hx.B(o2)),
				Desc: map[string]interface{}{"construction": []string{"NewEngine", "WithPersister (new session)", "WithPersister (stored session)", "WithState+WithMemory"}[kind], "cfg": g.cfg, "first": s1, "second": s2}})
		}
	}
	return w.Flush()
}
