//go:build verif

package main

// Persister driver: sequences of operations on ONE real persist.Persister over a mem store for up to three
// session keys (and, rarely, session ids): WithContent (generated state and cache), WithFlush, Save, Load,
// Invalidate.  After every operation the driver prints the exported fields of p.State / p.Memory, the
// unexported input and invalid marks (through their getters), the part of the cache's backing array beyond
// its length (where Cache.Reset / Cache.Pop leave the maps they cut off), and every probed record of the store
// decoded by a NEW persister (coq/corr/PersistCorr.v).

import (
	"context"
	"fmt"
	"math/rand"
	"strings"

	"git.defalsify.org/vise.git/cache"
	"git.defalsify.org/vise.git/db"
	memdb "git.defalsify.org/vise.git/db/mem"
	"git.defalsify.org/vise.git/persist"
	"git.defalsify.org/vise.git/state"
	"verif/harness/internal/hx"
)

func init() { drivers["persist"] = runPersist }

var (
	psSessions = []string{"", "s1", "s2"}
	psKeys     = []string{"k1", "k2", "k3"}
	psNodes    = []string{"root", "foo", "bar", "baz", "qux"}
	psSyms     = []string{"aa", "bb", "cc", "dd", "ee", "ff"}
	psLangs    = []string{"", "", "nor", "swa", "fra", "eng"}
)

type psOp struct {
	kind string // content flush session save load invst invmem
	arg  string
	st   *state.State
	ca   *cache.Cache
	term string
}

func psOptB(b []byte, ok bool) string {
	if !ok {
		return "None"
	}
	return "(Some " + hx.B(b) + ")"
}

func psFrames(fs []map[string]string) string {
	items := make([]string, len(fs))
	for i, f := range fs {
		items[i] = sortedMap(f)
	}
	return hx.List(items)
}

func psSpare(ca *cache.Cache) string {
	full := ca.Cache[:cap(ca.Cache)]
	items := []string{}
	for _, f := range full[len(ca.Cache):] {
		if f == nil {
			items = append(items, "None")
		} else {
			items = append(items, "(Some "+sortedMap(f)+")")
		}
	}
	return hx.List(items)
}

func psLang(st *state.State) string {
	if st.Language == nil {
		return "None"
	}
	return "(Some " + hx.S(st.Language.Code) + ")"
}

func psStateFields(st *state.State) string {
	in, err := st.GetInput()
	return fmt.Sprintf("%s %s %d %d %s %s %s", hx.B(st.Code), hx.SList(st.ExecPath), st.BitSize, st.SizeIdx, hx.B(st.Flags), psLang(st), psOptB(in, err == nil))
}

func psMemFields(ca *cache.Cache) string {
	return fmt.Sprintf("%d %d %s %s %s %s", ca.CacheSize, ca.CacheUseSize, psFrames(ca.Cache), sortedSizes(ca.Sizes), hx.S(ca.LastValue), psSpare(ca))
}

func psContentTerm(st *state.State, ca *cache.Cache) string {
	return fmt.Sprintf("(PWithContent (mk_content_st %s) (mk_content_mem %s))", psStateFields(st), psMemFields(ca))
}

// generated content: paths of depth 0-3, a cache with one frame per level (sometimes more or fewer), 0-3 symbols
// per frame from a small shared pool (so that different sessions use the same names), size limits, last value,
// language, client flags, pending code, sometimes an input, sometimes frames cut off before (non-nil spare)
func psGenContent(r *rand.Rand, tag string) (*state.State, *cache.Cache) {
	fc := uint32(r.Intn(12))
	st := state.NewState(fc)
	depth := r.Intn(4)
	last := ""
	for i := 0; i < depth; i++ {
		n := pick(r, psNodes)
		for n == last {
			n = pick(r, psNodes)
		}
		st.Down(n)
		last = n
	}
	if depth > 0 {
		for i := r.Intn(3); i > 0; i-- {
			st.Next()
		}
	}
	for i := r.Intn(4); i > 0; i-- {
		st.SetFlag(uint32(r.Intn(int(fc) + 8)))
	}
	code := make([]byte, r.Intn(7))
	r.Read(code)
	st.SetCode(code)
	if l := pick(r, psLangs); l != "" {
		st.SetLanguage(l)
	}
	if r.Intn(5) < 2 {
		st.SetInput([]byte("in-" + tag))
	}
	ca := cache.NewCache()
	if r.Intn(10) < 3 {
		ca = ca.WithCacheSize(uint32(40 + r.Intn(200)))
	}
	frames := depth + 1
	if r.Intn(5) == 0 {
		frames = 1 + r.Intn(4)
	}
	for i := 0; i < frames; i++ {
		if i > 0 {
			ca.Push()
		}
		for j := r.Intn(4); j > 0; j-- {
			k := pick(r, psSyms)
			v := fmt.Sprintf("%s%s%d", tag, k, r.Intn(100))
			if n := 1 + r.Intn(7); n < len(v) {
				v = v[:n]
			}
			if r.Intn(8) == 0 {
				v = ""
			}
			lim := uint16(0)
			if r.Intn(3) > 0 {
				lim = uint16(len(v) + r.Intn(10))
			}
			ca.Add(k, v, lim)
		}
	}
	switch r.Intn(8) {
	case 0:
		ca.Last()
	case 1:
		ca.Pop()
	case 2:
		ca.Push()
		ca.Add(pick(r, psSyms), "x"+tag, 0)
		ca.Pop()
	}
	return st, ca
}

type psRun struct {
	store interface {
		db.Db
	}
	p    *persist.Persister
	sess string
}

func (rn *psRun) probe() string {
	ctx := context.Background()
	items := []string{}
	for _, s := range psSessions {
		for _, k := range psKeys {
			rn.store.SetSession(s)
			rn.store.SetPrefix(db.DATATYPE_STATE)
			b, err := rn.store.Get(ctx, []byte(k))
			rec := "None"
			if err == nil {
				q := persist.NewPersister(rn.store)
				if derr := q.Deserialize(b); derr != nil || q.State == nil || q.Memory == nil {
					rec = "(Some (mkOrec [255] [] 0 0 [] None 0 0 [] [] []))" // undecodable record: never equal to the model's
				} else {
					st, ca := q.State, q.Memory
					rec = fmt.Sprintf("(Some (mkOrec %s %s %d %d %s %s %d %d %s %s %s))", hx.B(st.Code), hx.SList(st.ExecPath), st.BitSize, st.SizeIdx,
						hx.B(st.Flags), psLang(st), ca.CacheSize, ca.CacheUseSize, psFrames(ca.Cache), sortedSizes(ca.Sizes), hx.S(ca.LastValue))
				}
			} else if !db.IsNotFound(err) {
				rec = "(Some (mkOrec [254] [] 0 0 [] None 0 0 [] [] []))"
			}
			items = append(items, fmt.Sprintf("(%s, %s, %s)", hx.S(s), hx.S(k), rec))
		}
	}
	rn.store.SetSession(rn.sess)
	return hx.List(items)
}

func (rn *psRun) obs(res string) string {
	st, mem := "None", "None"
	if rn.p.State != nil {
		st = fmt.Sprintf("(Some (mkOst %s %s))", psStateFields(rn.p.State), hx.Bool(rn.p.State.Invalid()))
	}
	if rn.p.Memory != nil {
		mem = fmt.Sprintf("(Some (mkOmem %s %s))", psMemFields(rn.p.Memory), hx.Bool(rn.p.Memory.Invalid()))
	}
	return fmt.Sprintf("(mkPobs %s %s %s %s)", res, st, mem, rn.probe())
}

func (rn *psRun) apply(o *psOp) (string, error) {
	res := "POk"
	var herr error
	panicked, _ := hx.Recover(func() {
		switch o.kind {
		case "content":
			rn.p = rn.p.WithContent(o.st, o.ca)
		case "flush":
			rn.p = rn.p.WithFlush()
		case "session":
			rn.p = rn.p.WithSession(o.arg)
			rn.sess = o.arg
		case "save":
			if err := rn.p.Save(o.arg); err != nil {
				herr = fmt.Errorf("Save(%s): %v", o.arg, err)
			}
		case "load":
			if err := rn.p.Load(o.arg); err != nil {
				if db.IsNotFound(err) {
					res = "PNotFound"
				} else {
					herr = fmt.Errorf("Load(%s): %v", o.arg, err)
				}
			}
		case "invst":
			rn.p.State.Invalidate()
		case "invmem":
			rn.p.Memory.Invalidate()
		}
	})
	if panicked {
		res = "PPanic"
	}
	return res, herr
}

func psRunCase(ops []*psOp) (string, []string, error) {
	ctx := context.Background()
	store := memdb.NewMemDb()
	store.Connect(ctx, "")
	rn := &psRun{store: store, p: persist.NewPersister(store)}
	init := rn.obs("POk")
	opTerms := make([]string, len(ops))
	obs := make([]string, len(ops))
	results := make([]string, len(ops))
	for i, o := range ops {
		if i%3 == 1 && (o.kind == "save" || o.kind == "load") {
			// the application uses the shared handle for data of its own between the persister's operations
			// (no model operation: records of another type under another key)
			store.SetPrefix(db.DATATYPE_USERDATA)
			store.Put(ctx, []byte("note"), []byte{byte(i)})
			if i%2 == 1 {
				store.Connect(ctx, "") // and connects again, which must be ignored
			}
		}
		// the content term is printed BEFORE the operation: the objects are shared with the persister afterwards
		switch o.kind {
		case "content":
			opTerms[i] = psContentTerm(o.st, o.ca)
		case "flush":
			opTerms[i] = "PWithFlush"
		case "session":
			opTerms[i] = "(PWithSession " + hx.S(o.arg) + ")"
		case "save":
			opTerms[i] = "(PSave " + hx.S(o.arg) + ")"
		case "load":
			opTerms[i] = "(PLoad " + hx.S(o.arg) + ")"
		case "invst":
			opTerms[i] = "PInvalidateState"
		case "invmem":
			opTerms[i] = "PInvalidateMemory"
		}
		res, err := rn.apply(o)
		if err != nil {
			return "", nil, err
		}
		results[i] = o.kind + ":" + res
		obs[i] = rn.obs(res)
	}
	term := fmt.Sprintf("(mkPcase %s %s %s)", init, hx.List(opTerms), hx.List(obs))
	return term, results, nil
}

func psGenOps(r *rand.Rand) ([]*psOp, string) {
	var ops []*psOp
	kind := "noflush"
	if r.Intn(2) == 0 {
		ops = append(ops, &psOp{kind: "flush"})
		kind = "flush"
	}
	// a third of the histories in the shape the engine uses a persister it was given without content:
	// every Load is preceded by WithContent(new state, new cache)
	clean := r.Intn(3) == 0
	if clean {
		kind += "-newobjects"
	}
	nkeys := 1 + r.Intn(3)
	n := 4 + r.Intn(12)
	for i := 0; i < n; i++ {
		k := psKeys[r.Intn(nkeys)]
		switch x := r.Intn(100); {
		case x < 28:
			st, ca := psGenContent(r, fmt.Sprintf("%c", 'A'+i%26))
			ops = append(ops, &psOp{kind: "content", st: st, ca: ca})
			if r.Intn(3) > 0 {
				ops = append(ops, &psOp{kind: "save", arg: k})
			}
		case x < 52:
			ops = append(ops, &psOp{kind: "save", arg: k})
		case x < 88:
			if clean {
				ca := cache.NewCache()
				if r.Intn(3) == 0 {
					ca = ca.WithCacheSize(uint32(40 + r.Intn(200)))
				}
				ops = append(ops, &psOp{kind: "content", st: state.NewState(uint32(r.Intn(12))), ca: ca})
			}
			ops = append(ops, &psOp{kind: "load", arg: k})
		case x < 93:
			ops = append(ops, &psOp{kind: "session", arg: pick(r, psSessions)})
		case x < 95:
			ops = append(ops, &psOp{kind: "flush"})
		case x < 97:
			if !clean {
				ops = append(ops, &psOp{kind: "invst"})
			}
		default:
			if !clean {
				ops = append(ops, &psOp{kind: "invmem"})
			}
		}
	}
	return ops, kind
}

// hand-written histories: the leaks repaired by a037abb (1, 2: now clean), what is left of K-C11-6 (3: no Save
// happened, a failed Load leaves another session in the persister), and the clean deployment
func psCorpus() [][]*psOp {
	mk := func(path []string, lang string, frames [][][2]string, input string) (*state.State, *cache.Cache) {
		st := state.NewState(3)
		for _, p := range path {
			st.Down(p)
		}
		st.SetCode([]byte{0, 7})
		if lang != "" {
			st.SetLanguage(lang)
		}
		if input != "" {
			st.SetInput([]byte(input))
		}
		ca := cache.NewCache()
		for i, f := range frames {
			if i > 0 {
				ca.Push()
			}
			for _, kv := range f {
				ca.Add(kv[0], kv[1], 0)
			}
		}
		return st, ca
	}
	c := func(st *state.State, ca *cache.Cache) *psOp { return &psOp{kind: "content", st: st, ca: ca} }
	o := func(kind, arg string) *psOp { return &psOp{kind: kind, arg: arg} }
	a := func() *psOp {
		return c(mk([]string{"root", "foo"}, "nor", [][][2]string{{}, {{"aa", "secret of A"}}}, "1"))
	}
	b := func() *psOp { return c(mk([]string{"root", "bar"}, "", [][][2]string{{}, {{"bb", "b"}}}, "")) }
	return [][]*psOp{
		// 1 (repaired): the flush used to leave Sizes and LastValue, which a new key adopted
		{o("flush", ""), a(), o("save", "k1"), o("load", "k2"), o("save", "k2"), o("load", "k2")},
		// 2 (repaired): the next record used to be decoded INTO the frame maps the flush cut off
		{b(), o("save", "k2"), o("flush", ""), a(), o("save", "k1"), o("load", "k2"), o("save", "k2")},
		// 3 (K-C11-6): content that was never saved away (a request that ended without a saving Finish): a failed Load
		// leaves it in place and the next Save stores it under the other key
		{o("flush", ""), a(), o("save", "k1"), o("load", "k1"), o("load", "k3"), o("save", "k3"), o("load", "k1")},
		// 3b: the same without flush mode
		{b(), o("save", "k2"), a(), o("load", "k3"), o("save", "k3"), o("load", "k2")},
		// clean: every load into new objects
		{a(), o("save", "k1"), b(), o("save", "k2"), c(mk(nil, "", [][][2]string{{}}, "")), o("load", "k1"), c(mk(nil, "", [][][2]string{{}}, "")), o("load", "k2")},
		// (repaired) invalid marks used to survive a load
		{a(), o("save", "k1"), o("invmem", ""), o("load", "k1"), o("save", "k1")},
		// nil objects
		{o("save", "k1"), o("load", "k1"), o("invst", ""), a(), o("save", "k1"), o("session", "s1"), o("load", "k1"), o("save", "k1"), o("session", ""), o("load", "k1")},
	}
}

func runPersist(o opts) error {
	w := &hx.Writer{Dir: o.out, Prop: o.prop, Imports: "Bytes Errors Consts CacheModel StateModel DbKey PersistModel CorrBase PersistCorr",
		CaseType: "pcase", Mism: "persist_mismatches", Viol: "persist_violations", PerShard: 50}
	if o.prop == "C09" {
		w.Viol = "persist_violations_c09"
	}
	add := func(kind string, ops []*psOp) error {
		term, results, err := psRunCase(ops)
		if err != nil {
			return err
		}
		w.Add(hx.Case{Term: term, Kind: kind, Trivial: len(ops) < 3, Desc: map[string]interface{}{"ops": results}})
		for _, r := range results {
			w.Count(r)
		}
		return nil
	}
	for i, ops := range psCorpus() {
		if err := add(fmt.Sprintf("corpus:%d", i+1), ops); err != nil {
			return err
		}
	}
	for i := 0; i < o.n; i++ {
		r := hx.Rng(o.seed, "persist", i)
		ops, kind := psGenOps(r)
		if err := add("generated-"+kind, ops); err != nil {
			return err
		}
	}
	_ = strings.Join
	return w.Flush()
}
