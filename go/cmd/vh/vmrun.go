//go:build verif

package main

// Driver "vmrun" (C15): the real Vm.Run on valid, truncated and corrupted bytecode, from prepared
// states (flag combinations, position, input), with a resource that answers every code fetch with
// empty code and has one entry function ("lds" -> "x").  A case may run other code in an EARLIER Run
// of the same Vm (state and cache carried over).  Observed: error / panic, remaining code, flags, position.

import (
	"context"
	"errors"
	"fmt"
	"math/rand"

	"git.defalsify.org/vise.git/cache"
	"git.defalsify.org/vise.git/resource"
	"git.defalsify.org/vise.git/state"
	"git.defalsify.org/vise.git/vm"
	"verif/harness/internal/hx"
)

func init() { drivers["vmrun"] = runVmRun }

type vrState struct {
	flags []uint32
	input []byte
	noIn  bool
	path  []string
	pre   []byte // code of an earlier Run of the same Vm, state and cache; nil = none
}

func vmRunOnce(s vrState, code []byte) (stat string, rest []byte, flags []byte, path []string) {
	st := state.NewState(4)
	for _, f := range s.flags {
		st.SetFlag(f)
	}
	st.ExecPath = append([]string{}, s.path...)
	if !s.noIn {
		st.SetInput(s.input)
	}
	ca := cache.NewCache()
	for range s.path {
		ca.Push()
	}
	rs := resource.NewMenuResource()
	rs.WithCodeGetter(func(ctx context.Context, sym string) ([]byte, error) {
		if sym == "_catch" {
			return vm.NewLine(nil, vm.HALT, nil, nil, nil), nil
		}
		return []byte{}, nil
	})
	rs.AddLocalFunc("lds", func(ctx context.Context, sym string, input []byte) (resource.Result, error) {
		return resource.Result{Content: "x"}, nil
	})
	stat = "OSPanic"
	panicked, _ := hx.Recover(func() {
		v := vm.NewVm(st, rs, ca, nil)
		if len(s.pre) > 0 {
			v.Run(context.Background(), append([]byte{}, s.pre...))
		}
		b, err := v.Run(context.Background(), append([]byte{}, code...))
		rest = b
		switch {
		case err == nil:
			stat = "OSOk"
		case errors.Is(err, state.IndexError):
			stat = "(OSErr EIndex)"
		default:
			stat = "(OSErr EGen)"
		}
	})
	if panicked {
		stat = "OSPanic"
	}
	return stat, rest, st.Flags, st.ExecPath
}

func vrTerm(s vrState, code []byte) (string, string) {
	stat, rest, flags, path := vmRunOnce(s, code)
	in := "None"
	if !s.noIn {
		in = "(Some " + hx.B(s.input) + ")"
	}
	return fmt.Sprintf("(mkVr %s %s %s %s %s %s %s %s %s)", hx.NList(s.flags), in, hx.SList(s.path), hx.B(code), hx.B(s.pre), stat, hx.B(rest), hx.B(flags), hx.SList(path)), stat
}

func genVrState(r *rand.Rand) vrState {
	var s vrState
	for _, f := range []uint32{state.FLAG_READIN, state.FLAG_INMATCH, state.FLAG_WAIT, state.FLAG_LOADFAIL, state.FLAG_TERMINATE, 8, 9} {
		p := 4
		if f == state.FLAG_TERMINATE || f == state.FLAG_LOADFAIL {
			p = 12
		}
		if r.Intn(p) == 0 {
			s.flags = append(s.flags, f)
		}
	}
	switch r.Intn(4) {
	case 0:
		s.noIn = true
	case 1:
		s.input = []byte{}
	default:
		s.input = []byte(pick(r, []string{"1", "2", "a", "x1"}))
	}
	s.path = pick(r, [][]string{{}, {"root"}, {"root", "foo"}, {"root", "foo", "bar"}})
	return s
}

// instructions with small symbols and selectors the generated states can match
func genVrInstr(r *rand.Rand) Instr {
	i := genInstr(r)
	short := func() []byte {
		return []byte(pick(r, []string{"foo", "bar", "baz", "_", ".", ">", "<", "^", "1", "2", "a", "*", "_catch"}))
	}
	switch i.Op {
	case vm.INCMP:
		i.S1, i.S2 = short(), []byte(pick(r, []string{"1", "2", "a", "*", "x1"}))
	case vm.MOVE, vm.CATCH:
		i.S1 = short()
		if i.Op == vm.CATCH {
			i.N = uint32(pick(r, []int{0, 1, 2, 3, 8, 9, 11}))
		}
	case vm.CROAK:
		i.N = uint32(pick(r, []int{0, 1, 3, 8, 9, 11}))
	}
	return i
}

// opcode and symbol of a LOAD, without its size argument
func loadHead(sym string) []byte {
	return append([]byte{0, byte(vm.LOAD), byte(len(sym))}, sym...)
}

// malformed size arguments of a LOAD: nothing; a width byte 1..4 with too few bytes; a width byte 5..255 as
// the last byte; the same followed by more bytes (junk, a complete HALT, enough bytes for that width)
func loadTails(r *rand.Rand) [][]byte {
	w := byte(5)
	short := byte(2)
	if r != nil {
		w = byte(5 + r.Intn(251))
		short = byte(1 + r.Intn(4))
	}
	full := append([]byte{w}, make([]byte, int(w))...)
	return [][]byte{
		{},
		append([]byte{short}, make([]byte, int(short)-1)...),
		{w},
		{w, 0, byte(vm.HALT)},
		{w, 1, 2, 3},
		full,
		append(append([]byte{}, full...), 0, byte(vm.HALT)),
	}
}

func runVmRun(o opts) error {
	w := &hx.Writer{Dir: o.out, Prop: o.prop, Imports: "Bytes Errors Consts Codec CacheModel StateModel NavModel RenderModel VmModel EngineModel CorrBase EngineCorr VmRunCorr",
		CaseType: "vrcase", Mism: "vmrun_mismatches", Viol: "vmrun_violations", PerShard: 100}
	add := func(kind string, s vrState, code []byte) {
		t, stat := vrTerm(s, code)
		w.Add(hx.Case{Term: t, Kind: kind, Trivial: len(code) < 2, Desc: map[string]interface{}{"flags": s.flags, "input": string(s.input), "path": s.path, "code": fmt.Sprintf("%x", code), "pre": fmt.Sprintf("%x", s.pre), "stat": stat}})
		w.Count("stat:" + stat)
	}
	// corpus: a matched "previous" on the first page leaves INMATCH and READIN set; a truncated INCMP after it
	first := encNewLine(nil, Instr{Op: vm.INCMP, S1: []byte("<"), S2: []byte("1")})
	second := encNewLine(nil, Instr{Op: vm.INCMP, S1: []byte("foo"), S2: []byte("2")})
	for cut := 1; cut < len(second); cut++ {
		add("corpus:trunc-incmp-after-index-error", vrState{input: []byte("1"), path: []string{"root"}, flags: []uint32{state.FLAG_WAIT}}, append(append([]byte{}, first...), second[:cut]...))
		add("corpus:trunc-incmp-skipped", vrState{input: []byte("1"), path: []string{"root"}, flags: []uint32{state.FLAG_READIN, state.FLAG_INMATCH}}, second[:cut])
	}
	// corpus: a truncated instruction behind a firing INCMP / a MOVE is completed by the first bytes of the
	// target node's code, which the VM appends after it (K-C15-glue)
	add("corpus:glue-after-incmp", vrState{input: []byte("2"), path: []string{"root", "foo"}, flags: []uint32{9}},
		append(encNewLine(nil, Instr{Op: vm.INCMP, S1: []byte("_catch"), S2: []byte("2")}), 0, 2, 1, 3))
	add("corpus:glue-after-move", vrState{input: []byte("2"), path: []string{"root"}},
		append(encNewLine(nil, Instr{Op: vm.MOVE, S1: []byte("_catch")}), 0, 2, 1, 3))
	// corpus: LOAD of a symbol that is ALREADY cached, with a malformed size argument (missing, cut short,
	// width byte 5..255) at the end of the code and followed by more bytes; the first LOAD in the same
	// Run or in an earlier Run of the same session.  Control: the same tails on a symbol that is not cached.
	plain := vrState{input: []byte("1"), path: []string{"root"}}
	for _, tail := range loadTails(nil) {
		for _, sym := range []string{"lds", "ldx"} {
			first := encNewLine(nil, Instr{Op: vm.LOAD, S1: []byte("lds"), N: 1})
			bad := append(loadHead(sym), tail...)
			add("corpus:load-cached-malformed-size", plain, append(append([]byte{}, first...), bad...))
			early := plain
			early.pre = vm.NewLine(append([]byte{}, first...), vm.HALT, nil, nil, nil)
			add("corpus:load-cached-earlier-run", early, bad)
		}
	}
	for c := 0; c < (o.n+1)/2; c++ {
		r := hx.Rng(o.seed, "vmrun-load", c)
		first := encNewLine(nil, Instr{Op: vm.LOAD, S1: []byte("lds"), N: uint32(pick(r, []int{0, 1, 2, 40}))})
		var mid []byte
		for k := r.Intn(3); k > 0; k-- {
			mid = encNewLine(mid, genVrInstr(r))
		}
		sym := pick(r, []string{"lds", "lds", "lds", "ldx"})
		for _, tail := range loadTails(r) {
			bad := append(loadHead(sym), tail...)
			s := genVrState(r)
			if r.Intn(2) == 0 {
				add("load-cached:same-run", s, append(append(append([]byte{}, first...), mid...), bad...))
			} else {
				s.pre = vm.NewLine(append([]byte{}, first...), vm.HALT, nil, nil, nil)
				add("load-cached:earlier-run", s, append(append([]byte{}, mid...), bad...))
			}
		}
		// the well-formed second LOAD, for comparison
		s := genVrState(r)
		add("load-cached:valid", s, encNewLine(append(append([]byte{}, first...), mid...), Instr{Op: vm.LOAD, S1: []byte(sym), N: 1}))
	}
	for c := 0; c < o.n; c++ {
		r := hx.Rng(o.seed, "vmrun", c)
		n := 1 + r.Intn(5)
		var enc []byte
		for k := 0; k < n; k++ {
			enc = encNewLine(enc, genVrInstr(r))
		}
		s := genVrState(r)
		add("valid", s, enc)
		// every truncation and a few corruptions, each from an independently drawn state
		for cut := 1; cut < len(enc); cut += 1 + r.Intn(3) {
			add("truncation", genVrState(r), enc[:cut])
		}
		for k := 0; k < 3; k++ {
			m := append([]byte{}, enc...)
			m[r.Intn(len(m))] = byte(pick(r, []int{0, 1, 2, 7, 8, 13, 255, r.Intn(256)}))
			add("corruption", genVrState(r), m)
		}
	}
	return w.Flush()
}
