//go:build verif

package main

// Driver "po" (C18): the real resource.PoResource (resource/gettext.go over gotext) on generated
// locale directories.  Every case writes a scratch directory of real .po files from generated
// tables (languages incl. the default, domains default / x-vise / x-vise_menu, both directory
// layouts gotext accepts, single-line and multi-line entries, headers present or not, comments,
// empty msgstr, missing files, key-domain files of non-default languages that must be ignored),
// builds NewPoResource(default, dir).WithLanguage(...)... and calls GetTemplate / GetMenu with
// contexts carrying: no language, the default, registered and unregistered languages (with and
// without files on disk).  Observed: the returned string / error / panic.
// Written by agent `symbols`.

import (
	"context"
	"fmt"
	"math/rand"
	"os"
	"path/filepath"
	"sort"
	"strconv"
	"strings"

	"git.defalsify.org/vise.git/lang"
	"git.defalsify.org/vise.git/resource"
	"verif/harness/internal/hx"
)

func init() { drivers["po"] = runPo }

var poLangPool = []string{"eng", "nor", "swa", "fra", "deu", "spa"}
var poSymPool = []string{"foo", "bar", "baz", "root", "inky", "a b", "q\"t", "nl\nx", "t\tb\\s", "%s %d", "ünï", "msgid", " lead ", "x"}
var poStrPool = []string{"Foo source", "bar", "Hello, world", "two\nlines", "with \"quotes\"", "tab\there", "ærø", "100%", "x", "foo", "\\back", "    ", "msgstr \"y\"", "root"}

const (
	poDomDefault = "default"
	poDomTpl     = "x-vise"
	poDomMenu    = "x-vise_menu"
)

type poEntry struct{ id, str string }

type poFile struct {
	lang    string
	dom     string
	header  string // "" = no header entry
	entries []poEntry
	lcdir   bool // <path>/<lang>/LC_MESSAGES/<dom>.po instead of <path>/<lang>/<dom>.po
}

type poReq struct {
	lang   string // "" = none in context
	hasLn  bool
	sym    string
	menu   bool
	obs    string // Coq term
	result string
}

type poCase struct {
	files []poFile
	dflt  string
	regs  []string
	reqs  []poReq
}

func poDomTerm(d string) string {
	switch d {
	case poDomTpl:
		return "DKeyTpl"
	case poDomMenu:
		return "DKeyMenu"
	}
	return "DDefault"
}

// the bytes of one quoted string, possibly split into chunks at arbitrary byte positions
func poQuoteChunks(r *rand.Rand, s string, multi bool) []string {
	if !multi {
		return []string{strconv.Quote(s)}
	}
	n := 1 + r.Intn(3)
	out := []string{`""`}
	b := []byte(s)
	for k := 0; k < n; k++ {
		var cut int
		if k == n-1 {
			cut = len(b)
		} else {
			cut = r.Intn(len(b) + 1)
		}
		out = append(out, strconv.Quote(string(b[:cut])))
		b = b[cut:]
	}
	return out
}

func poNoise(r *rand.Rand, sb *strings.Builder) {
	switch r.Intn(6) {
	case 0:
		sb.WriteString("# translator comment\n")
	case 1:
		sb.WriteString("#: vise/node.vis:12\n")
	case 2:
		sb.WriteString("\n")
	}
}

func (f poFile) render(r *rand.Rand) string {
	sb := &strings.Builder{}
	if f.header != "" {
		sb.WriteString("msgid \"\"\nmsgstr \"\"\n")
		for _, ln := range strings.SplitAfter(f.header, "\n") {
			if ln == "" {
				continue
			}
			sb.WriteString("\t" + strconv.Quote(ln) + "\n")
		}
		sb.WriteString("\n")
	}
	for _, e := range f.entries {
		poNoise(r, sb)
		indent := ""
		if r.Intn(5) == 0 {
			indent = "  "
		}
		idc := poQuoteChunks(r, e.id, r.Intn(3) == 0)
		sb.WriteString(indent + "msgid " + idc[0] + "\n")
		for _, c := range idc[1:] {
			sb.WriteString("\t" + c + "\n")
		}
		stc := poQuoteChunks(r, e.str, r.Intn(3) == 0)
		sb.WriteString(indent + "msgstr " + stc[0] + "\n")
		for _, c := range stc[1:] {
			sb.WriteString("\t" + c + " \n")
		}
		sb.WriteString("\n")
	}
	return sb.String()
}

func (f poFile) write(r *rand.Rand, dir string) error {
	d := filepath.Join(dir, f.lang)
	if f.lcdir {
		d = filepath.Join(d, "LC_MESSAGES")
	}
	if err := os.MkdirAll(d, 0755); err != nil {
		return err
	}
	return os.WriteFile(filepath.Join(d, f.dom+".po"), []byte(f.render(r)), 0644)
}

func (f poFile) term() string {
	var es []string
	if f.header != "" {
		es = append(es, fmt.Sprintf("([], %s)", hx.S(f.header)))
	}
	for _, e := range f.entries {
		es = append(es, fmt.Sprintf("(%s, %s)", hx.S(e.id), hx.S(e.str)))
	}
	return fmt.Sprintf("(%s, %s, %s)", hx.S(f.lang), poDomTerm(f.dom), hx.List(es))
}

// entries with distinct msgids, in a reproducible order
func poEntries(r *rand.Rand, ids []string, val func(id string) string, p int) []poEntry {
	seen := map[string]bool{}
	var out []poEntry
	for _, id := range ids {
		if id == "" || seen[id] || r.Intn(100) >= p {
			continue
		}
		seen[id] = true
		out = append(out, poEntry{id, val(id)})
	}
	r.Shuffle(len(out), func(i, j int) { out[i], out[j] = out[j], out[i] })
	return out
}

func genPoCase(r *rand.Rand) poCase {
	var c poCase
	langs := append([]string{}, poLangPool...)
	r.Shuffle(len(langs), func(i, j int) { langs[i], langs[j] = langs[j], langs[i] })
	c.dflt = langs[0]
	nreg := r.Intn(3)
	c.regs = append([]string{}, langs[1:1+nreg]...)
	if r.Intn(6) == 0 {
		c.regs = append(c.regs, c.dflt) // WithLanguage(default) once more
	}
	// languages with files: the default (mostly), a subset of the registered ones, and one that is not registered
	disk := []string{}
	if r.Intn(10) != 0 {
		disk = append(disk, c.dflt)
	}
	for _, l := range langs[1 : 1+nreg] {
		if r.Intn(5) != 0 {
			disk = append(disk, l)
		}
	}
	if r.Intn(2) == 0 {
		disk = append(disk, langs[1+nreg])
	}
	header := func(l string) string {
		if r.Intn(4) == 0 {
			return ""
		}
		return "Content-Type: text/plain; charset=UTF-8\nLanguage: " + l + "\n"
	}
	// the symbols of this case and their source strings
	syms := append([]string{}, poSymPool...)
	r.Shuffle(len(syms), func(i, j int) { syms[i], syms[j] = syms[j], syms[i] })
	syms = syms[:4+r.Intn(6)]
	srcOf := func(tag string) func(string) string {
		return func(id string) string {
			switch r.Intn(8) {
			case 0:
				return "" // untranslated entry
			case 1:
				return id // identity
			case 2:
				return id + " " + tag
			}
			return pick(r, poStrPool)
		}
	}
	var sources []string
	for _, l := range disk {
		lc := r.Intn(4) == 0
		for _, dom := range []string{poDomTpl, poDomMenu} {
			// key domains: the default language's are the ones that count; others are written to be ignored
			if r.Intn(8) == 0 {
				continue // file missing
			}
			f := poFile{lang: l, dom: dom, header: header(l), lcdir: lc}
			f.entries = poEntries(r, syms, srcOf(l+"-"+dom), 65)
			if l == c.dflt {
				for _, e := range f.entries {
					if e.str != "" {
						sources = append(sources, e.str)
					}
				}
			}
			c.files = append(c.files, f)
		}
	}
	// everything a "default" domain may be asked for: sources, symbols (no key entry), pool strings
	cand := append(append(append([]string{}, sources...), syms...), poStrPool...)
	for _, l := range disk {
		if r.Intn(8) == 0 {
			continue
		}
		lc := false
		for _, f := range c.files {
			if f.lang == l {
				lc = f.lcdir
			}
		}
		f := poFile{lang: l, dom: poDomDefault, header: header(l), lcdir: lc}
		tag := l
		f.entries = poEntries(r, cand, func(id string) string {
			switch r.Intn(7) {
			case 0:
				return ""
			case 1:
				return id
			case 2:
				return pick(r, poStrPool)
			}
			return id + " [" + tag + "]"
		}, 45)
		c.files = append(c.files, f)
	}
	// requests
	reqLangs := []string{"-", c.dflt}
	reqLangs = append(reqLangs, langs[1:1+nreg]...)
	reqLangs = append(reqLangs, langs[1+nreg]) // not registered (maybe with files)
	if 2+nreg < len(langs) {
		reqLangs = append(reqLangs, langs[2+nreg]) // not registered, no files
	}
	reqSyms := append([]string{}, syms...)
	reqSyms = append(reqSyms, pick(r, poSymPool), pick(r, poStrPool))
	if r.Intn(4) == 0 {
		reqSyms = append(reqSyms, "")
	}
	if len(reqSyms) > 8 {
		reqSyms = reqSyms[len(reqSyms)-8:]
	}
	for _, s := range reqSyms {
		for _, l := range reqLangs {
			for _, m := range []bool{false, true} {
				q := poReq{sym: s, menu: m}
				if l != "-" {
					q.lang, q.hasLn = l, true
				}
				c.reqs = append(c.reqs, q)
			}
		}
	}
	return c
}

// run the real code
func (c *poCase) run(r *rand.Rand, base string, idx int) error {
	dir, err := os.MkdirTemp(base, fmt.Sprintf("po%d_", idx))
	if err != nil {
		return err
	}
	defer os.RemoveAll(dir)
	for _, f := range c.files {
		if err := f.write(r, dir); err != nil {
			return err
		}
	}
	mk := func(code string) (lang.Language, error) { return lang.LanguageFromCode(code) }
	dl, err := mk(c.dflt)
	if err != nil {
		return err
	}
	rs := resource.NewPoResource(dl, dir)
	for _, l := range c.regs {
		ln, err := mk(l)
		if err != nil {
			return err
		}
		rs = rs.WithLanguage(ln)
	}
	for i := range c.reqs {
		q := &c.reqs[i]
		ctx := context.Background()
		if q.hasLn {
			ln, err := mk(q.lang)
			if err != nil {
				return err
			}
			ctx = context.WithValue(ctx, "Language", ln)
		}
		q.obs = "PPanic"
		hx.Recover(func() {
			var s string
			var e error
			if q.menu {
				s, e = rs.GetMenu(ctx, q.sym)
			} else {
				s, e = rs.GetTemplate(ctx, q.sym)
			}
			if e != nil {
				q.obs = "PErr"
			} else {
				q.obs = "(POk " + hx.S(s) + ")"
				q.result = s
			}
		})
	}
	return nil
}

func (c poCase) term() string {
	fs := make([]string, len(c.files))
	for i, f := range c.files {
		fs[i] = f.term()
	}
	qs := make([]string, len(c.reqs))
	for i, q := range c.reqs {
		l := "None"
		if q.hasLn {
			l = "(Some " + hx.S(q.lang) + ")"
		}
		qs[i] = fmt.Sprintf("(mkPoReq %s %s %s %s)", l, hx.S(q.sym), hx.Bool(q.menu), q.obs)
	}
	return fmt.Sprintf("(mkPoCase %s %s %s %s)", hx.List(fs), hx.S(c.dflt), hx.SList(c.regs), hx.List(qs))
}

// the repository's own test locale (testdata/testlocale), transcribed: eng default, nor registered
func poCorpusTestlocale() poCase {
	h := func(l string) string { return "Content-Type: text/plain; charset=UTF-8\nLanguage: " + l + "\n" }
	c := poCase{dflt: "eng", regs: []string{"nor"}}
	c.files = []poFile{
		{lang: "eng", dom: poDomDefault, header: h("eng"), entries: []poEntry{{"baz", "baz"}}},
		{lang: "eng", dom: poDomMenu, header: h("eng"), entries: []poEntry{{"inky", "pinky"}, {"foo", "foobar"}}},
		{lang: "eng", dom: poDomTpl, header: h("eng"), entries: []poEntry{{"bar", "baz"}}},
		{lang: "nor", dom: poDomDefault, header: h("nor"), entries: []poEntry{{"foobar", "fu"}}},
		{lang: "nor", dom: poDomTpl, header: h("eng"), entries: []poEntry{{"baz", "bass"}}},
	}
	for _, s := range []string{"foo", "bar", "inky", "baz", "nokey"} {
		for _, l := range []string{"-", "eng", "nor", "spa"} {
			for _, m := range []bool{false, true} {
				q := poReq{sym: s, menu: m}
				if l != "-" {
					q.lang, q.hasLn = l, true
				}
				c.reqs = append(c.reqs, q)
			}
		}
	}
	return c
}

// the default language's own "default" domain rewrites a source string: a default-language session
// and a session in a language without translation see different strings
func poCorpusDefaultDomain() poCase {
	c := poCase{dflt: "eng", regs: []string{"nor", "fra"}}
	c.files = []poFile{
		{lang: "eng", dom: poDomTpl, entries: []poEntry{{"foo", "Foo source"}, {"emp", ""}}},
		{lang: "eng", dom: poDomDefault, entries: []poEntry{{"Foo source", "Foo ENG"}, {"bar", "bar eng"}}},
		{lang: "nor", dom: poDomDefault, entries: []poEntry{{"emp", "tom"}, {"Foo source", ""}}},
		{lang: "swa", dom: poDomDefault, entries: []poEntry{{"Foo source", "Fu swa"}}},
	}
	for _, s := range []string{"foo", "emp", "bar", "nokey", ""} {
		for _, l := range []string{"-", "eng", "nor", "fra", "swa"} {
			for _, m := range []bool{false, true} {
				q := poReq{sym: s, menu: m}
				if l != "-" {
					q.lang, q.hasLn = l, true
				}
				c.reqs = append(c.reqs, q)
			}
		}
	}
	return c
}

func runPo(o opts) error {
	w := &hx.Writer{Dir: o.out, Prop: o.prop, Imports: "Bytes Errors PoModel CorrBase PoCorr",
		CaseType: "pocase", Mism: "po_mismatches", Viol: "po_violations_all", PerShard: 50}
	base, err := os.MkdirTemp("", "vh_po_")
	if err != nil {
		return err
	}
	defer os.RemoveAll(base)
	idx := 0
	add := func(kind string, c poCase, r *rand.Rand) error {
		if err := c.run(r, base, idx); err != nil {
			return err
		}
		idx++
		translated, viaSource, plain, header := 0, 0, 0, 0
		for _, q := range c.reqs {
			switch {
			case q.sym == "":
				header++
			case q.result == q.sym:
				plain++
			default:
				translated++
			}
			if q.hasLn && q.lang != c.dflt {
				viaSource++
			}
		}
		w.Count("requests")
		w.Stats["requests"] += len(c.reqs) - 1
		w.Stats["req:result-differs-from-symbol"] += translated
		w.Stats["req:result-is-symbol"] += plain
		w.Stats["req:empty-symbol"] += header
		w.Stats["req:non-default-language"] += viaSource
		w.Stats[fmt.Sprintf("files:%d", len(c.files))]++
		regs := append([]string{}, c.regs...)
		sort.Strings(regs)
		w.Add(hx.Case{Term: c.term(), Kind: kind, Trivial: translated == 0,
			Desc: map[string]interface{}{"default": c.dflt, "registered": regs, "files": len(c.files), "requests": len(c.reqs)}})
		return nil
	}
	if err := add("corpus:testlocale", poCorpusTestlocale(), hx.Rng(o.seed, "po-corpus", 0)); err != nil {
		return err
	}
	if err := add("corpus:default-domain", poCorpusDefaultDomain(), hx.Rng(o.seed, "po-corpus", 1)); err != nil {
		return err
	}
	for k := 0; k < o.n; k++ {
		r := hx.Rng(o.seed, "po", k)
		if err := add("generated", genPoCase(r), r); err != nil {
			return err
		}
	}
	return w.Flush()
}
