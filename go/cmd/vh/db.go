//go:build verif

package main

import (
	"bytes"
	"context"
	"encoding/base64"
	"fmt"
	"math/rand"
	"os"
	"path/filepath"
	"sort"
	"strings"

	"git.defalsify.org/vise.git/cache"
	"git.defalsify.org/vise.git/db"
	fsdb "git.defalsify.org/vise.git/db/fs"
	memdb "git.defalsify.org/vise.git/db/mem"
	"git.defalsify.org/vise.git/db/postgres"
	"git.defalsify.org/vise.git/lang"
	"git.defalsify.org/vise.git/persist"
	"git.defalsify.org/vise.git/state"
	"verif/harness/fakepg"
	"verif/harness/internal/hx"
)

func init() { drivers["db"] = runDb }

// ---- operations ---------------------------------------------------------------------------

type dop struct {
	kind    string // put get pfx sess lang lock dump paths | save load (persist.Persister on the shared handle)
	si      int    // save: which state the persister holds
	k, v    []byte
	p       uint8
	s       string
	ln      *string // nil = SetLanguage(nil)
	lk      bool
	viaPers bool // sess: through persist.Persister.WithSession on the shared handle
	// put/get: the language carried by the CALLER'S CONTEXT (only generated in histories whose handle never
	// has a language of its own). Model: the language applies to this one call and leaves the handle as it
	// was, i.e. SetLanguage(Some l); op; SetLanguage(None)
	cl *string
}

// opSep separates the two model operations a persister operation stands for
const opSep = "\x00"

// persistState builds the i-th session state (deterministic; empty cache so that the CBOR
// encoding is deterministic too). Different i give different records.
func persistState(i int) (*state.State, *cache.Cache) {
	st := state.NewState(uint32(i%3) * 8)
	st.Down(fmt.Sprintf("node%d", i))
	for j := 0; j < i%3; j++ {
		st.Down(fmt.Sprintf("sub%d", j))
	}
	if i%2 == 0 {
		st.SetCode([]byte{0, 7})
	}
	return st, cache.NewCache()
}

// persistRecord is what Persister.Serialize yields for the i-th state.
func persistRecord(i int) []byte {
	st, ca := persistState(i)
	b, err := persist.NewPersister(nil).WithContent(st, ca).Serialize()
	if err != nil {
		panic(err)
	}
	return b
}

// persister records are long (about 130 bytes) and recur in operations, results and final stores:
// they are printed by name (prec_<i>) and defined once per case file in the prelude.
const maxPersistRecords = 64

var (
	persistNames map[string]int
	persistUsed  = map[int]bool{}
)

func valTerm(v []byte) string {
	if persistNames == nil {
		persistNames = map[string]int{}
		for i := 0; i < maxPersistRecords; i++ {
			persistNames[string(persistRecord(i))] = i
		}
	}
	if i, ok := persistNames[string(v)]; ok && len(v) > 24 {
		persistUsed[i] = true
		return fmt.Sprintf("prec_%d", i)
	}
	return hx.B(v)
}

func persistPrelude() string {
	var is []int
	for i := range persistUsed {
		is = append(is, i)
	}
	sort.Ints(is)
	var sb strings.Builder
	for _, i := range is {
		fmt.Fprintf(&sb, "Definition prec_%d : list N := Eval vm_compute in %s.\n", i, hx.B(persistRecord(i)))
	}
	return sb.String()
}

func (o dop) term() string {
	switch o.kind {
	case "save": // Save(key) = SetPrefix(STATE); Put(key, record)
		return fmt.Sprintf("OSetPrefix %d%sOPut %s %s", db.DATATYPE_STATE, opSep, hx.B(o.k), valTerm(persistRecord(o.si)))
	case "load": // Load(key) = SetPrefix(STATE); Get(key), observed through what the persister then holds
		return fmt.Sprintf("OSetPrefix %d%sOGet %s", db.DATATYPE_STATE, opSep, hx.B(o.k))
	case "put":
		return o.ctxWrap(fmt.Sprintf("OPut %s %s", hx.B(o.k), valTerm(o.v)))
	case "get":
		return o.ctxWrap("OGet " + hx.B(o.k))
	case "reconnect": // Connect on a connected store "should be ignored": no model operation at all
		return ""
	case "pfx":
		return fmt.Sprintf("OSetPrefix %d", o.p)
	case "sess":
		return "OSetSession " + hx.S(o.s)
	case "lang":
		if o.ln == nil {
			return "OSetLanguage None"
		}
		return "OSetLanguage (Some " + hx.S(*o.ln) + ")"
	case "lock":
		return fmt.Sprintf("OSetLock %d %s", o.p, hx.Bool(o.lk))
	case "dump":
		return "ODump " + hx.B(o.k)
	case "decode":
		return "ODecode " + hx.B(o.k)
	}
	return "OPaths " + hx.B(o.k)
}

func (o dop) ctxWrap(t string) string {
	if o.cl == nil {
		return t
	}
	return "OSetLanguage (Some " + hx.S(*o.cl) + ")" + opSep + t + opSep + "OSetLanguage None"
}

func (o dop) short() string {
	if o.cl != nil {
		o2 := o
		o2.cl = nil
		return o2.short() + fmt.Sprintf("[ctx language %q]", *o.cl)
	}
	if o.kind == "reconnect" {
		return "connect-again"
	}
	switch o.kind {
	case "save":
		return fmt.Sprintf("persister.Save(%q,state#%d)", o.k, o.si)
	case "load":
		return fmt.Sprintf("persister.Load(%q)", o.k)
	case "put":
		return fmt.Sprintf("put(%q,%q)", o.k, o.v)
	case "get", "dump", "paths", "decode":
		return fmt.Sprintf("%s(%q)", o.kind, o.k)
	case "pfx":
		return fmt.Sprintf("pfx(%d)", o.p)
	case "sess":
		return fmt.Sprintf("sess(%q)", o.s)
	case "lang":
		if o.ln == nil {
			return "lang(nil)"
		}
		return fmt.Sprintf("lang(%q)", *o.ln)
	}
	return fmt.Sprintf("lock(%d,%v)", o.p, o.lk)
}

// ---- backends -----------------------------------------------------------------------------

type pather interface {
	VerifPaths(ctx context.Context, key []byte) ([4]string, error)
}

type backend struct {
	name string
	d    db.Db
	root string // fs: model root (temp dir); the store is root/p/q/s
	srv  *fakepg.Server
	pers *persist.Persister // shares the handle d
	conn string             // the connection string the store was opened with
}

var storeDir = []string{"p", "q", "s"}

func newBackends() ([]*backend, error) {
	ctx := context.Background()
	m := memdb.NewMemDb()
	if err := m.Connect(ctx, ""); err != nil {
		return nil, err
	}
	bs := []*backend{{name: "mem", d: m}}
	for _, bin := range []bool{false, true} {
		root, err := os.MkdirTemp("/tmp", "db-")
		if err != nil {
			return nil, err
		}
		f := fsdb.NewFsDb()
		if bin {
			f = f.WithBinary()
		}
		conn := filepath.Join(append([]string{root}, storeDir...)...)
		if err := f.Connect(ctx, conn); err != nil {
			return nil, err
		}
		n := "fst"
		if bin {
			n = "fsb"
		}
		bs = append(bs, &backend{name: n, d: f, root: root, conn: conn})
	}
	srv := fakepg.New()
	pg := postgres.NewPgDb().WithConnection(srv.Conn())
	if err := pg.Connect(ctx, ""); err != nil {
		return nil, err
	}
	bs = append(bs, &backend{name: "pg", d: pg, srv: srv})
	return bs, nil
}

func closeBackends(bs []*backend) {
	for _, b := range bs {
		if b.root != "" {
			os.RemoveAll(b.root)
		}
	}
}

func errTerm(err error) string {
	if db.IsNotFound(err) {
		return "DErr ENotFound"
	}
	if err.Error() == "unsafe put and safety set" {
		return "DRefused"
	}
	return "DErr EGen"
}

func relPath(root, p string) (string, bool) {
	if p == root {
		return "", true
	}
	if strings.HasPrefix(p, root+"/") {
		return p[len(root)+1:], true
	}
	return "", false
}

// safe reports whether every path the fs backend would touch for key lies strictly below root.
func (b *backend) safe(key []byte) bool {
	if b.root == "" {
		return true
	}
	ps, err := b.d.(pather).VerifPaths(context.Background(), key)
	if err != nil {
		return true
	}
	for _, p := range ps {
		if p == "" {
			continue
		}
		if r, ok := relPath(b.root, p); !ok || r == "" {
			return false
		}
	}
	return true
}

func kvTerm(k, v []byte) string { return "(" + hx.B(k) + ", " + valTerm(v) + ")" }

func (b *backend) apply(o dop) string {
	ctx := context.Background()
	if o.cl != nil {
		ctx = context.WithValue(ctx, "Language", lang.Language{Code: *o.cl, Name: "x"})
	}
	res := "DOk"
	pk, _ := hx.Recover(func() {
		switch o.kind {
		case "reconnect":
			// a second Connect with the connection string the store was opened with
			res = ""
			if err := b.d.Connect(ctx, b.conn); err != nil {
				res = "DPanic" // an observation without operation: reported as a mismatch
			}
		case "save":
			if b.pers == nil {
				b.pers = persist.NewPersister(b.d)
			}
			st, ca := persistState(o.si)
			b.pers.WithContent(st, ca)
			res = "DOk" + opSep + "DOk"
			if err := b.pers.Save(string(o.k)); err != nil {
				res = "DOk" + opSep + errTerm(err)
			}
		case "load":
			if b.pers == nil {
				st, ca := persistState(0)
				b.pers = persist.NewPersister(b.d).WithContent(st, ca)
			}
			if err := b.pers.Load(string(o.k)); err != nil {
				res = "DOk" + opSep + errTerm(err)
				return
			}
			// what Load consumed: the record the persister now holds
			rec, err := b.pers.Serialize()
			if err != nil {
				res = "DOk" + opSep + "DErr EGen"
				return
			}
			res = "DOk" + opSep + "DVal " + valTerm(rec)
		case "put":
			if err := b.d.Put(ctx, append([]byte{}, o.k...), append([]byte{}, o.v...)); err != nil {
				res = errTerm(err)
			}
		case "get":
			v, err := b.d.Get(ctx, append([]byte{}, o.k...))
			if err != nil {
				res = errTerm(err)
			} else {
				res = "DVal " + valTerm(v)
			}
		case "pfx":
			b.d.SetPrefix(o.p)
		case "sess":
			if o.viaPers {
				// the session chosen the way the engine does it: through a persister on this handle
				persist.NewPersister(b.d).WithSession(o.s)
			} else {
				b.d.SetSession(o.s)
			}
		case "lang":
			if o.ln == nil {
				b.d.SetLanguage(nil)
			} else {
				// the way an application gets its Language: from the ISO 639 table when the code resolves
				// (the code it asked for is the code it gets), a literal otherwise
				if l, err := lang.LanguageFromCode(*o.ln); err == nil && len(*o.ln) == 3 {
					b.d.SetLanguage(&l)
				} else {
					b.d.SetLanguage(&lang.Language{Code: *o.ln, Name: "x"})
				}
			}
		case "lock":
			if err := b.d.SetLock(o.p, o.lk); err != nil {
				res = errTerm(err)
			}
		case "decode":
			kk, err := b.d.DecodeKey(ctx, append([]byte{}, o.k...))
			if err != nil {
				res = "DErr EGen"
			} else {
				res = "DVal " + valTerm(kk)
			}
		case "dump":
			dm, err := b.d.Dump(ctx, append([]byte{}, o.k...))
			if err != nil {
				res = errTerm(err)
				return
			}
			var items []string
			for i := 0; i < 10000; i++ {
				k, v := dm.Next(ctx)
				if k == nil {
					break
				}
				items = append(items, kvTerm(k, v))
			}
			dm.Close()
			res = "DDump " + hx.List(items)
		case "paths":
			if b.root == "" {
				res = "DSkip"
				return
			}
			ps, err := b.d.(pather).VerifPaths(ctx, append([]byte{}, o.k...))
			if err != nil {
				res = errTerm(err)
				return
			}
			items := make([]string, 4)
			for i, p := range ps {
				if p == "" {
					items[i] = "None"
				} else if r, ok := relPath(b.root, p); ok {
					items[i] = "Some " + hx.S(r)
				} else {
					items[i] = "Some " + hx.S("<outside>")
				}
			}
			res = "DPaths " + hx.List(items)
		}
	})
	if pk {
		res = "DPanic"
		if o.kind == "save" || o.kind == "load" {
			res = "DOk" + opSep + "DPanic"
		}
	}
	if o.cl != nil {
		res = "DOk" + opSep + res + opSep + "DOk"
	}
	return res
}

func (b *backend) final() string {
	var items []string
	switch {
	case b.root != "":
		type ent struct{ p, v string }
		var es []ent
		filepath.Walk(b.root, func(p string, info os.FileInfo, err error) error {
			if err == nil && info.Mode().IsRegular() {
				c, _ := os.ReadFile(p)
				r, _ := relPath(b.root, p)
				es = append(es, ent{r, string(c)})
			}
			return nil
		})
		sort.Slice(es, func(i, j int) bool { return es[i].p < es[j].p })
		for _, e := range es {
			items = append(items, kvTerm([]byte(e.p), []byte(e.v)))
		}
	case b.srv != nil:
		m := b.srv.Committed()
		ks := make([]string, 0, len(m))
		for k := range m {
			ks = append(ks, k)
		}
		sort.Strings(ks)
		for _, k := range ks {
			items = append(items, kvTerm([]byte(k), m[k]))
		}
	}
	return hx.List(items)
}

// ---- running one history -------------------------------------------------------------------

type dbrunner struct {
	w *hx.Writer
}

func paren(items []string) []string {
	r := make([]string, len(items))
	for i, s := range items {
		if strings.ContainsAny(s, " ") {
			r[i] = "(" + s + ")"
		} else {
			r[i] = s
		}
	}
	return r
}

// run executes ops in lockstep on all four backends. Operations whose fs paths would leave the
// scratch root are dropped from the history (on every backend).
func (rn *dbrunner) run(kind string, ops []dop) error {
	bs, err := newBackends()
	if err != nil {
		return err
	}
	defer closeBackends(bs)
	var kept []dop
	obs := make([][]string, len(bs))
	var shorts []string
	for _, o := range ops {
		if o.kind == "put" || o.kind == "get" || o.kind == "paths" || o.kind == "save" || o.kind == "load" {
			ok := true
			for _, b := range bs {
				if !b.safe(o.k) {
					ok = false
				}
			}
			if !ok {
				rn.w.Count("dropped:escapes-root")
				continue
			}
		}
		kept = append(kept, o)
		line := o.short() + " =>"
		for i, b := range bs {
			r := b.apply(o)
			if r == "" { // (connect-again, ignored as it should be)
				continue
			}
			obs[i] = append(obs[i], strings.Split(r, opSep)...)
			if j := strings.LastIndex(r, opSep); j >= 0 {
				r = r[j+len(opSep):]
			}
			if len(r) > 28 {
				r = r[:28] + "..."
			}
			line += " " + b.name + ":" + r
			if strings.HasPrefix(r, "DErr") || r == "DRefused" {
				rn.w.Count("err:" + b.name + ":" + o.kind)
			}
		}
		shorts = append(shorts, line)
		rn.w.Count("op:" + o.kind)
	}
	var terms []string
	for _, o := range kept {
		if t := o.term(); t != "" {
			terms = append(terms, strings.Split(t, opSep)...)
		}
	}
	dir := hx.SList(storeDir)
	term := fmt.Sprintf("mkDbCase %s %s %s %s %s %s %s %s %s", dir, hx.List(paren(terms)),
		hx.List(paren(obs[0])), hx.List(paren(obs[1])), hx.List(paren(obs[2])), hx.List(paren(obs[3])),
		bs[1].final(), bs[2].final(), bs[3].final())
	rn.w.Add(hx.Case{Kind: kind, Trivial: len(kept) < 3, Term: term,
		Desc: map[string]interface{}{"ops": shorts}})
	return nil
}

// ---- generators ------------------------------------------------------------------------------

func sp(s string) *string { return &s }

var (
	docTypes   = []uint8{db.DATATYPE_BIN, db.DATATYPE_MENU, db.DATATYPE_TEMPLATE, db.DATATYPE_STATICLOAD, db.DATATYPE_STATE, db.DATATYPE_USERDATA}
	roTypes    = []uint8{db.DATATYPE_BIN, db.DATATYPE_MENU, db.DATATYPE_TEMPLATE, db.DATATYPE_STATICLOAD}
	validKeys  = []string{"foo", "bar", "foobar", "root", "a1", "foo_menu", "ab", "x1y2", "main_1", "fo", "Ps", "P1", "b4r", "Pin", "at_root", "tmp", "alice", "s1", "foo.tmp"}
	validSess  = []string{"", "alice", "bob", "s1", "+2547", "Pat", "s", "x"}
	validLangs = []*string{nil, nil, sp("eng"), sp("nor"), sp("swa"), sp("guz"), sp("luy")} // guz, luy: ISO 639-3 only
	// application-defined data types: sessioned above STATICLOAD whatever their bits, language-typed when they
	// carry one of the MENU/TEMPLATE/STATICLOAD bits
	oddTypes = []uint8{9, 12, 33, 48, 64, 128, 192, 66}
	advAlpha   = []byte{'a', 'b', '.', '_', '/', 'P', '@', 0xff}
)

func unlockAll() []dop {
	var ops []dop
	for _, t := range roTypes {
		ops = append(ops, dop{kind: "lock", p: t, lk: false})
	}
	return ops
}

type valGen struct {
	n         int
	usedEmpty bool
}

// unique short values, now and then binary, empty-ish or long (periodic)
func (g *valGen) next(r *rand.Rand) []byte {
	g.n++
	base := fmt.Sprintf("v%d", g.n)
	switch r.Intn(12) {
	case 0:
		return append([]byte{0, 0xff}, base...)
	case 1:
		return []byte(strings.Repeat(base+"\n", 40)[:100+g.n])
	case 2, 3:
		// the empty value, at most once per history (values identify their writer in the C11 monitor):
		// an entry that exists and is empty is not an absent entry
		if !g.usedEmpty {
			g.usedEmpty = true
			return []byte{}
		}
	}
	return []byte(base)
}

func genValid(r *rand.Rand, thorough, binKeys bool) []dop {
	vg := &valGen{}
	var ops []dop
	switch r.Intn(4) {
	case 0: // everything stays locked
	case 1:
		ops = append(ops, dop{kind: "lock", p: roTypes[r.Intn(4)], lk: false})
	default:
		ops = append(ops, unlockAll()...)
	}
	n := 8 + r.Intn(14)
	if thorough {
		n = 8 + r.Intn(40)
	}
	// per-case pools keep the hit rate up: a handful of keys, sessions and types per history
	var keyPool [][]byte
	for i := 0; i < 5; i++ {
		if binKeys {
			l := r.Intn(5)
			b := make([]byte, l)
			for i := range b {
				switch r.Intn(6) {
				case 0:
					b[i] = 0xff
				case 1:
					b[i] = []byte{0x63, 0xf0, 0x3c, 0x00, 0xa0, 0xfb}[r.Intn(6)]
				default:
					b[i] = byte(r.Intn(256))
				}
			}
			keyPool = append(keyPool, b)
		} else {
			keyPool = append(keyPool, []byte(validKeys[r.Intn(len(validKeys))]))
		}
	}
	sessPool := []string{validSess[r.Intn(len(validSess))], validSess[r.Intn(len(validSess))], validSess[r.Intn(len(validSess))]}
	typePool := []uint8{docTypes[r.Intn(6)], docTypes[r.Intn(6)], docTypes[r.Intn(6)], docTypes[4+r.Intn(2)]}
	if r.Intn(5) == 0 {
		typePool[r.Intn(3)] = oddTypes[r.Intn(len(oddTypes))]
		ops = append(ops, dop{kind: "lock", p: 0x0f, lk: false})
	}
	// a quarter of the histories never give the handle a language: the CALLER'S CONTEXT carries one instead
	ctxMode := r.Intn(4) == 0
	ctxLang := func() *string {
		if !ctxMode || r.Intn(3) == 0 {
			return nil
		}
		return validLangs[1+r.Intn(len(validLangs)-1)]
	}
	key := func() []byte { return keyPool[r.Intn(len(keyPool))] }
	prefixOf := func() []byte {
		k := key()
		return k[:r.Intn(len(k)+1)]
	}
	ops = append(ops, dop{kind: "pfx", p: typePool[r.Intn(len(typePool))]})
	for i := 0; i < n; i++ {
		switch x := r.Intn(100); {
		case x < 34:
			ops = append(ops, dop{kind: "put", k: key(), v: vg.next(r), cl: ctxLang()})
		case x < 66:
			ops = append(ops, dop{kind: "get", k: key(), cl: ctxLang()})
		case x < 76:
			ops = append(ops, dop{kind: "pfx", p: typePool[r.Intn(len(typePool))]})
		case x < 83:
			ops = append(ops, dop{kind: "sess", s: sessPool[r.Intn(len(sessPool))]})
		case x < 88:
			if ctxMode {
				ops = append(ops, dop{kind: "reconnect"})
			} else {
				ops = append(ops, dop{kind: "lang", ln: validLangs[r.Intn(len(validLangs))]})
			}
		case x < 91:
			switch r.Intn(5) {
			case 0:
				ops = append(ops, dop{kind: "lock", p: 0, lk: true})
			default:
				ops = append(ops, dop{kind: "lock", p: roTypes[r.Intn(4)], lk: r.Intn(2) == 0})
			}
		case x < 96:
			ops = append(ops, dop{kind: "dump", k: prefixOf()})
		case x < 98:
			ops = append(ops, dop{kind: "decode", k: storedKey(r, typePool[r.Intn(len(typePool))], sessPool[r.Intn(len(sessPool))], key(), binKeys)})
		default:
			ops = append(ops, dop{kind: "paths", k: key()})
		}
	}
	return ops
}

func advString(r *rand.Rand, max int) []byte {
	l := r.Intn(max + 1)
	b := make([]byte, l)
	for i := range b {
		b[i] = advAlpha[r.Intn(len(advAlpha))]
	}
	return b
}

type triple struct {
	t uint8
	s string
	k []byte
}

func (t triple) enter() []dop {
	return []dop{{kind: "pfx", p: t.t}, {kind: "sess", s: t.s}}
}

// readers that would collide with the writer if the encoding were not injective
func related(r *rand.Rand, w triple) triple {
	joined := append(append([]byte(w.s), '.'), w.k...)
	if w.s == "" {
		joined = w.k
	}
	other := w.t
	if r.Intn(3) == 0 {
		other = []uint8{db.DATATYPE_STATE, db.DATATYPE_USERDATA, db.DATATYPE_BIN}[r.Intn(3)]
	}
	name := append([]byte{w.t + 0x30}, joined...)
	switch r.Intn(6) {
	case 0: // the dot moved
		var dots []int
		for i, c := range joined {
			if c == '.' {
				dots = append(dots, i)
			}
		}
		if len(dots) > 0 {
			d := dots[r.Intn(len(dots))]
			return triple{other, string(joined[:d]), joined[d+1:]}
		}
		return triple{other, "", joined}
	case 1: // no session, whole storage key as key
		return triple{other, "", joined}
	case 2: // traversal to the writer's file
		return triple{other, string(advString(r, 2)), append([]byte("/../"), name...)}
	case 3: // legacy name: session (or key) = the writer's file name
		if w.s != "" {
			return triple{db.DATATYPE_STATE, string(name[:1+len(w.s)]), w.k}
		}
		return triple{db.DATATYPE_STATE, "", name}
	case 4: // same triple
		return w
	}
	return triple{other, string(advString(r, 3)), advString(r, 3)}
}

func genAdversarial(r *rand.Rand, thorough bool) []dop {
	vg := &valGen{}
	ops := unlockAll()
	sessTypes := []uint8{db.DATATYPE_STATE, db.DATATYPE_USERDATA}
	nw := 1 + r.Intn(3)
	var ws []triple
	for i := 0; i < nw; i++ {
		t := sessTypes[r.Intn(2)]
		if r.Intn(8) == 0 {
			t = docTypes[r.Intn(6)]
		}
		w := triple{t, string(advString(r, 3)), advString(r, 3)}
		ws = append(ws, w)
		ops = append(ops, w.enter()...)
		ops = append(ops, dop{kind: "put", k: w.k, v: vg.next(r)})
	}
	nr := 4 + r.Intn(6)
	if thorough {
		nr = 6 + r.Intn(14)
	}
	for i := 0; i < nr; i++ {
		rd := related(r, ws[r.Intn(len(ws))])
		ops = append(ops, rd.enter()...)
		switch r.Intn(8) {
		case 0:
			ops = append(ops, dop{kind: "put", k: rd.k, v: vg.next(r)})
			ws = append(ws, rd)
		case 1:
			ops = append(ops, dop{kind: "dump", k: rd.k[:r.Intn(len(rd.k)+1)]})
		case 2:
			ops = append(ops, dop{kind: "paths", k: rd.k})
		case 3:
			w := ws[r.Intn(len(ws))]
			ops = append(ops, dop{kind: "decode", k: storedKey(r, w.t, w.s, w.k, r.Intn(3) == 0)})
		default:
			ops = append(ops, dop{kind: "get", k: rd.k})
		}
	}
	// every writer reads its own entry back at the end
	for _, w := range ws {
		ops = append(ops, w.enter()...)
		ops = append(ops, dop{kind: "get", k: w.k})
	}
	return ops
}

// all strings over the adversarial alphabet with len(s)+len(k) <= total
func allPairs(total int) [][2][]byte {
	var strs [][]byte
	var rec func(cur []byte, n int)
	rec = func(cur []byte, n int) {
		strs = append(strs, append([]byte{}, cur...))
		if n == 0 {
			return
		}
		for _, c := range advAlpha {
			rec(append(cur, c), n-1)
		}
	}
	rec(nil, total)
	var out [][2][]byte
	for _, s := range strs {
		for _, k := range strs {
			if len(s)+len(k) <= total {
				out = append(out, [2][]byte{s, k})
			}
		}
	}
	return out
}

// exhaustive sweep: every writer (type, session, key) against every reader with
// len(session)+len(key) <= total on both sides, sessioned types; one writer per case
func (rn *dbrunner) sweep(total int) error {
	prs := allPairs(total)
	types := []uint8{db.DATATYPE_STATE, db.DATATYPE_USERDATA}
	for _, wt := range types {
		for wi, wp := range prs {
			ops := unlockAll()
			w := triple{wt, string(wp[0]), wp[1]}
			ops = append(ops, w.enter()...)
			ops = append(ops, dop{kind: "put", k: w.k, v: []byte(fmt.Sprintf("w%d", wi))})
			for _, rt := range types {
				ops = append(ops, dop{kind: "pfx", p: rt})
				last := "\x00none"
				for _, rp := range prs {
					if rt == wt && bytes.Equal(rp[0], wp[0]) && bytes.Equal(rp[1], wp[1]) {
						continue
					}
					if string(rp[0]) != last {
						ops = append(ops, dop{kind: "sess", s: string(rp[0])})
						last = string(rp[0])
					}
					ops = append(ops, dop{kind: "get", k: rp[1]})
				}
			}
			if err := rn.run("sweep", ops); err != nil {
				return err
			}
		}
	}
	return nil
}

func (rn *dbrunner) corpus() error {
	U, S, B, M := uint8(db.DATATYPE_USERDATA), uint8(db.DATATYPE_STATE), uint8(db.DATATYPE_BIN), uint8(db.DATATYPE_MENU)
	put := func(k, v string) dop { return dop{kind: "put", k: []byte(k), v: []byte(v)} }
	get := func(k string) dop { return dop{kind: "get", k: []byte(k)} }
	dump := func(k string) dop { return dop{kind: "dump", k: []byte(k)} }
	paths := func(k string) dop { return dop{kind: "paths", k: []byte(k)} }
	pfx := func(p uint8) dop { return dop{kind: "pfx", p: p} }
	sess := func(s string) dop { return dop{kind: "sess", s: s} }
	lng := func(s string) dop { return dop{kind: "lang", ln: sp(s)} }
	nolng := dop{kind: "lang"}
	un := unlockAll()
	cat := func(a []dop, b ...dop) []dop { return append(append([]dop{}, a...), b...) }
	cases := []struct {
		kind string
		ops  []dop
	}{
		// C10 findings
		{"corpus:C10-1-legacy-name", cat(un, pfx(U), sess("s"), put("bin", "secret"), pfx(B), get("Ps"), paths("Ps"))},
		{"corpus:C10-2-base64-slash", cat(un, pfx(U), put("\x63\xf0", "v1"), get("\x63\xf0"), put("\xff\xff\xff", "v2"), put("", "v3"), get("\xff\xff\xff"), paths("\x63\xf0"))},
		{"corpus:C10-3-binary-dump-stops", cat(un, pfx(U), put("ca", "v1"), put("b\xa0", "v2"), put("c", "v3"), put("c\x00", "v4"), dump("c"), dump(""))},
		{"corpus:C10-4-dump-translations", cat(un, pfx(M), put("foo", "default"), lng("nor"), put("foo", "norsk"), dump(""), nolng, dump("f"))},
		{"corpus:C10-4-dump-translation-only", cat(un, pfx(M), put("foo", "default"), lng("nor"), put("bar", "kun norsk"), nolng, get("bar"), dump(""), dump("f"))},
		{"corpus:C10-5-dump-unsessioned-type-with-session", cat(un, pfx(B), put("foo", "code"), dump(""), sess("s"), get("foo"), dump(""))},
		{"corpus:C10-6-name-too-long", cat(un, pfx(B), put(strings.Repeat("x", 255), "v1"), get(strings.Repeat("x", 255)), get(strings.Repeat("y", 252)), put(strings.Repeat("x", 150), "v2"), get(strings.Repeat("x", 150)))},
		{"corpus:C10-7-slash-in-session-id", cat(un, pfx(U), sess("a/b"), put("foo", "v1"), get("foo"), sess("ab"), put("foo", "v2"), get("foo"))},
		{"corpus:C10-8-dump-sessioned-type-without-session", cat(un, pfx(S), put("P1", "v1"), sess("x"), put("a1", "v2"), put("root", "v3"), dump(""), sess(""), get("a1"), dump(""), dump("x"))},
		{"corpus:pg-dump-cross-type-regression", cat(un, pfx(S), sess("s"), put("a", "state-a"), put("b", "state-b"), pfx(U), put("u", "user-u"), pfx(B), put("foo", "code"), pfx(S), dump(""), dump("zz"), pfx(U), dump(""), dump("v"), sess(""), pfx(B), dump(""), pfx(M), lng("nor"), put("m_menu", "Mnor"), dump(""), get("m_menu"))},
		{"corpus:session-id-prefix-of-another", cat(un, pfx(S), sess("2547"), put("k", "own"), sess("25471"), put("k", "other"), sess("2547"), dump(""), dump("k"),
			dop{kind: "decode", k: append([]byte{S}, "25471.k"...)}, dop{kind: "decode", k: append([]byte{S}, "2547.k"...)}, dop{kind: "decode", k: append([]byte{S}, "2547"...)},
			dop{kind: "decode", k: []byte{S}}, dop{kind: "decode", k: append([]byte{S}, "2547.az3u"...)}, sess(""), dop{kind: "decode", k: append([]byte{S}, "25471.k"...)},
			pfx(M), dop{kind: "decode", k: append([]byte{M}, "foo_menu_nor"...)}, dop{kind: "decode", k: append([]byte{M}, "ab_nor"...)}, sess("25471"), pfx(S), dump(""))},
		{"corpus:context-language", cat(un, pfx(M), put("foo", "default"), dop{kind: "put", k: []byte("foo"), v: []byte("norsk"), cl: sp("nor")}, dop{kind: "put", k: []byte("foo"), v: []byte("kiswahili"), cl: sp("swa")},
			dop{kind: "get", k: []byte("foo"), cl: sp("nor")}, dop{kind: "get", k: []byte("foo"), cl: sp("swa")}, get("foo"), put("foo", "default2"), dop{kind: "get", k: []byte("foo"), cl: sp("nor")}, get("foo"),
			pfx(dbTemplate()), dop{kind: "get", k: []byte("foo"), cl: sp("nor")}, dop{kind: "put", k: []byte("bar"), v: []byte("t-nor"), cl: sp("nor")}, get("bar"), dop{kind: "get", k: []byte("bar"), cl: sp("eng")})},
		{"corpus:iso639-3-only-language", cat(un, pfx(M), put("foo", "welcome"), lng("guz"), put("foo", "karibu-guz"), get("foo"), nolng, get("foo"), lng("mer"), get("foo"), put("foo", "mer"), nolng, get("foo"), lng("luy"), get("foo"), dump(""))},
		{"corpus:connect-again", cat(un, pfx(U), sess("a"), put("k", "v1"), dop{kind: "reconnect"}, get("k"), pfx(S), put("k", "st"), dop{kind: "reconnect"}, get("k"), dump(""))},
		{"corpus:staging-name", cat(un, pfx(U), sess("alice"), put("tmp", "alice's"), sess(""), put("alice", "nobody's"), sess("alice"), get("tmp"), dump(""), pfx(S), put("tmp", "st"), sess(""), put("alice", "x"), sess("alice"), get("tmp"),
			pfx(B), sess(""), put("foo.tmp", "code1"), put("foo", "code2"), get("foo.tmp"), get("foo"))},
		{"corpus:application-types", cat(un, dop{kind: "lock", p: 0x0f, lk: false}, pfx(64), sess("a"), put("k", "A64"), sess("b"), put("k", "B64"), get("k"), sess("a"), get("k"), dump(""), pfx(128), put("k", "A128"), sess("b"), get("k"), sess("a"), get("k"),
			pfx(9), put("k", "A9"), sess("b"), get("k"), put("k", "B9"), sess("a"), get("k"), lng("nor"), put("k", "A9nor"), get("k"), nolng, get("k"), pfx(192), sess("b"), put("q", "B192"), sess("a"), get("q"), sess(""), get("q"), get("b.q"), paths("q"))},
		// C11 findings
		{"corpus:C11-1-dot-in-session", cat(un, pfx(U), sess("a"), put("b.c", "A"), sess("a.b"), get("c"), put("c", "B"), sess("a"), get("b.c"), dump(""))},
		{"corpus:C11-2-empty-session", cat(un, pfx(U), sess("a"), put("k", "A"), sess(""), get("a.k"), dump(""), put("a.k", "B"), sess("a"), get("k"))},
		{"corpus:C11-3-fs-traversal", cat(un, pfx(U), sess("victim"), put("pin", "1234"), sess("evil"), get("/../Pvictim.pin"), put("/../Pvictim.pin", "0000"), sess("victim"), get("pin"), paths("/../Pvictim.pin"))},
		{"corpus:C11-4-legacy-cross-type", cat(un, pfx(U), sess("x"), put("k", "userdata"), pfx(S), sess("Px"), get("k"), sess(""), get("Px.k"))},
		// model coverage: odd prefixes, empty keys, NUL, locks and seal, empty language code, paths outside the store
		{"corpus:odd-prefix", cat(un, dop{kind: "lock", p: 0xf0, lk: false}, pfx(0xff), put("foo", "x"), get("foo"), paths("foo"), pfx(U), sess(""), put("k", "u"), pfx(0xff), get("Pk"), pfx(0xfe), put("", "y"), get(""), put("a", "z"), get("a"), pfx(0), put("foo", "x"), get("foo"), dump(""), pfx(3), put("q", "w"), get("q"), pfx(1), get("q"), pfx(18), sess("ss"), lng("eng"), put("k", "v"), get("k"), paths("k"))},
		{"corpus:empty-and-dir-names", cat(un, pfx(U), get(""), put("", "e"), get(""), put("/..", "x"), get("/.."), put("a/b", "x"), get("a/b"), put("k", "v"), get("k/x"), put("/../../zz", "out"), get("/../../zz"), paths("/../../zz"), get("a\x00b"), put("a\x00b", "x"), put(".", "d"), get("."), dump(""))},
		{"corpus:locks-and-seal", cat(nil, pfx(B), put("foo", "x"), get("foo"), dop{kind: "lock", p: B, lk: false}, put("foo", "y"), get("foo"), dop{kind: "lock", p: B, lk: true}, put("foo", "z"), get("foo"), dop{kind: "lock", p: B | M, lk: false}, pfx(M), put("m", "1"), dop{kind: "lock", p: 0, lk: true}, put("m", "2"), get("m"), dop{kind: "lock", p: M, lk: false}, put("m", "3"), get("m"), pfx(U), put("u", "4"), get("u"), pfx(0x21), put("u", "5"))},
		{"corpus:empty-translation", cat(un, pfx(M), put("foo", "d"), lng("nor"), put("foo", ""), get("foo"), lng("swa"), get("foo"), nolng, get("foo"), pfx(dbTemplate()), lng("nor"), put("bar", ""), get("bar"), nolng, get("bar"))},
		{"corpus:languages", cat(un, pfx(M), put("foo", "d"), lng(""), put("foo", "e"), get("foo"), paths("foo"), lng("eng"), get("foo"), put("foo", "f"), get("foo"), nolng, get("foo"), get("foo_eng"), put("goto_foo", "g"), dump("g"), lng("a/b"), put("k", "h"), pfx(U), lng("eng"), put("foo", "u"), get("foo"), paths("foo"), pfx(dbTemplate()), lng("en"), put("abc", "t"), nolng, get("abc_en"), dump(""))},
	}
	for _, c := range cases {
		if err := rn.run(c.kind, c.ops); err != nil {
			return err
		}
	}
	return nil
}

func dbTemplate() uint8 { return db.DATATYPE_TEMPLATE }

// storedKey builds what a backend stores for (type, session, key): type byte, "session." and the key
// (base64 of it when b64 is set, as the fs binary mode stores it), now and then with a language
// suffix, cut short, or without the separator -- the inputs of DecodeKey / FromSessionKey.
func storedKey(r *rand.Rand, t uint8, s string, k []byte, b64 bool) []byte {
	kk := k
	if b64 {
		kk = []byte(base64.StdEncoding.EncodeToString(k))
	}
	b := []byte{t}
	if s != "" {
		b = append(append(b, s...), '.')
	}
	b = append(b, kk...)
	switch r.Intn(8) {
	case 0:
		b = append(b, "_nor"...)
	case 1: // shorter than the session prefix
		b = b[:1+r.Intn(len(b))]
	case 2: // the separator is missing
		b = append(append([]byte{t}, s...), kk...)
	}
	return b
}

// sessions whose ids are proper prefixes of each other: entries of both, then listings and key
// decoding under the shorter and the longer id.
func genPrefixSessions(r *rand.Rand, thorough bool) []dop {
	vg := &valGen{}
	bases := []string{"2547", "a", "s1", "+25", "bob"}
	base := bases[r.Intn(len(bases))]
	longer := base + []string{"1", "12345678", "x", "0", "b"}[r.Intn(5)]
	sess := []string{base, longer, longer + "9", ""}
	types := []uint8{db.DATATYPE_USERDATA, db.DATATYPE_STATE}
	keys := [][]byte{[]byte("k"), []byte("key1"), []byte("m"), []byte("state"), []byte("ka")}
	var ops []dop
	if r.Intn(3) == 0 {
		ops = append(ops, unlockAll()...)
	}
	t := types[r.Intn(2)]
	ops = append(ops, dop{kind: "pfx", p: t})
	// entries in the shorter and in the longer session
	for _, s := range []string{base, longer, base, longer} {
		ops = append(ops, dop{kind: "sess", s: s})
		for i := 0; i < 1+r.Intn(2); i++ {
			ops = append(ops, dop{kind: "put", k: keys[r.Intn(len(keys))], v: vg.next(r)})
		}
	}
	n := 5 + r.Intn(8)
	if thorough {
		n = 5 + r.Intn(24)
	}
	for i := 0; i < n; i++ {
		k := keys[r.Intn(len(keys))]
		switch x := r.Intn(100); {
		case x < 30:
			ops = append(ops, dop{kind: "sess", s: sess[[]int{0, 0, 0, 1, 1, 2, 3}[r.Intn(7)]]}, dop{kind: "dump", k: k[:r.Intn(len(k)+1)]})
		case x < 55:
			ops = append(ops, dop{kind: "sess", s: sess[r.Intn(2)]},
				dop{kind: "decode", k: storedKey(r, t, sess[r.Intn(3)], k, r.Intn(3) == 0)})
		case x < 70:
			ops = append(ops, dop{kind: "sess", s: sess[r.Intn(3)]}, dop{kind: "put", k: k, v: vg.next(r)})
		case x < 85:
			ops = append(ops, dop{kind: "sess", s: sess[r.Intn(4)]}, dop{kind: "get", k: k})
		case x < 93:
			t = types[r.Intn(2)]
			ops = append(ops, dop{kind: "pfx", p: t})
		default:
			ops = append(ops, dop{kind: "pfx", p: docTypes[r.Intn(6)]}, dop{kind: "dump", k: nil}, dop{kind: "pfx", p: t})
		}
	}
	ops = append(ops, dop{kind: "pfx", p: t}, dop{kind: "sess", s: base}, dop{kind: "dump", k: nil})
	return ops
}

// persister histories: a persist.Persister and direct calls share one db handle. The direct calls
// switch the handle to USERDATA / STATE, other sessions, and store records under the persister's
// own key; every Load must still yield the record last saved for (STATE, session, key).
func persistCorpus() [][]dop {
	U, S := uint8(db.DATATYPE_USERDATA), uint8(db.DATATYPE_STATE)
	k := []byte("ussd")
	return [][]dop{
		{{kind: "sess", s: "alice"}, {kind: "save", k: k, si: 1}, {kind: "pfx", p: U}, {kind: "put", k: k, v: persistRecord(2)},
			{kind: "load", k: k}, {kind: "pfx", p: U}, {kind: "get", k: k}, {kind: "load", k: k}, {kind: "save", k: k, si: 3},
			{kind: "pfx", p: U}, {kind: "load", k: k}},
		{{kind: "sess", s: "alice", viaPers: true}, {kind: "save", k: k, si: 7}, {kind: "sess", s: "", viaPers: true}, {kind: "load", k: k},
			{kind: "save", k: k, si: 8}, {kind: "sess", s: "alice", viaPers: true}, {kind: "load", k: k}},
		{{kind: "sess", s: "alice"}, {kind: "pfx", p: U}, {kind: "put", k: k, v: persistRecord(4)}, {kind: "load", k: k},
			{kind: "save", k: k, si: 5}, {kind: "sess", s: "bob"}, {kind: "pfx", p: U}, {kind: "load", k: k},
			{kind: "pfx", p: S}, {kind: "put", k: k, v: persistRecord(6)}, {kind: "load", k: k},
			{kind: "sess", s: "alice"}, {kind: "pfx", p: U}, {kind: "load", k: k}},
	}
}

func genPersist(r *rand.Rand, thorough bool) []dop {
	U, S := uint8(db.DATATYPE_USERDATA), uint8(db.DATATYPE_STATE)
	sessPool := []string{"alice", "bob", "+2547", "s1", ""}
	sessPool = []string{sessPool[r.Intn(4)], sessPool[r.Intn(5)]}
	keyPool := [][]byte{[]byte("ussd"), []byte([]string{"k1", "state", "foo"}[r.Intn(3)])}
	si := 0
	next := func() int { si++; return si }
	small := 0
	ops := []dop{{kind: "sess", s: sessPool[0]}}
	if r.Intn(4) == 0 {
		ops = append(ops, unlockAll()...)
	}
	n := 6 + r.Intn(10)
	if thorough {
		n = 6 + r.Intn(30)
	}
	for i := 0; i < n; i++ {
		k := keyPool[r.Intn(2)]
		if r.Intn(3) > 0 {
			k = keyPool[0]
		}
		switch x := r.Intn(100); {
		case x < 22:
			ops = append(ops, dop{kind: "save", k: k, si: next()})
		case x < 50:
			ops = append(ops, dop{kind: "load", k: k})
		case x < 68: // the handle is left on USERDATA, a record of another state under the same key
			ops = append(ops, dop{kind: "pfx", p: U}, dop{kind: "put", k: k, v: persistRecord(next())})
		case x < 76:
			ops = append(ops, dop{kind: "pfx", p: []uint8{U, U, S, docTypes[r.Intn(6)]}[r.Intn(4)]})
		case x < 84:
			ops = append(ops, dop{kind: "sess", s: sessPool[r.Intn(2)], viaPers: r.Intn(2) == 0})
		case x < 92:
			ops = append(ops, dop{kind: "get", k: k})
		default: // anything stored under STATE must be a record, or Load has nothing to re-serialize
			small++
			ops = append(ops, dop{kind: "pfx", p: U}, dop{kind: "put", k: k, v: []byte(fmt.Sprintf("u%d", small))})
		}
	}
	ops = append(ops, dop{kind: "load", k: keyPool[0]})
	return ops
}

func runDb(o opts) error {
	viol := "db_violations_c10"
	if o.prop == "C11" {
		viol = "db_violations_c11"
	}
	imports := "Bytes Errors Consts DbKey DbModel CorrBase DbCorr"
	if o.prop == "C18" {
		// the store side of the translation-then-default lookup: language-scoped Gets against the reference map
		viol = "db_violations_c18"
		imports += " DbLangCorr"
	}
	w := &hx.Writer{Dir: o.out, Prop: o.prop, Imports: imports, CaseType: "dbcase",
		Mism: "db_mismatches", Viol: viol, PerShard: 40}
	rn := &dbrunner{w: w}
	if err := rn.corpus(); err != nil {
		return err
	}
	thorough := o.tier == "thorough"
	nValid, nAdv := o.n, o.n/4
	if o.prop == "C11" {
		nValid, nAdv = o.n/3, o.n
	}
	for c := 0; c < nValid; c++ {
		r := hx.Rng(o.seed, "db-valid", c)
		bin := c%10 >= 7
		kind := "valid"
		if bin {
			kind = "valid-binkeys"
		}
		if err := rn.run(kind, genValid(r, thorough, bin)); err != nil {
			return err
		}
	}
	for c := 0; c < nAdv; c++ {
		r := hx.Rng(o.seed, "db-adv", c)
		if err := rn.run("adversarial", genAdversarial(r, thorough)); err != nil {
			return err
		}
	}
	for _, ops := range persistCorpus() {
		if err := rn.run("corpus:persister-shared-handle", ops); err != nil {
			return err
		}
	}
	for c := 0; c < max(20, o.n/6); c++ {
		r := hx.Rng(o.seed, "db-prefix-sessions", c)
		if err := rn.run("prefix-sessions", genPrefixSessions(r, thorough)); err != nil {
			return err
		}
	}
	nPers := o.n / 6
	if nPers < 20 {
		nPers = 20
	}
	for c := 0; c < nPers; c++ {
		r := hx.Rng(o.seed, "db-persist", c)
		if err := rn.run("persister", genPersist(r, thorough)); err != nil {
			return err
		}
	}
	if o.prop == "C11" {
		total := 1
		if thorough {
			total = 2
		}
		if err := rn.sweep(total); err != nil {
			return err
		}
	}
	w.Prelude = persistPrelude()
	return w.Flush()
}
