//go:build verif

package main

import (
	"bytes"
	"fmt"
	"math/rand"
	"sort"
	"strings"

	"context"

	"git.defalsify.org/vise.git/cache"
	memdb "git.defalsify.org/vise.git/db/mem"
	"git.defalsify.org/vise.git/persist"
	"git.defalsify.org/vise.git/state"
	"verif/harness/internal/hx"
)

func init() { drivers["cache"] = runCache }

func sortedMap(m map[string]string) string {
	keys := make([]string, 0, len(m))
	for k := range m {
		keys = append(keys, k)
	}
	sort.Strings(keys)
	items := make([]string, len(keys))
	for i, k := range keys {
		items[i] = fmt.Sprintf("(%s, %s)", hx.S(k), hx.S(m[k]))
	}
	return hx.List(items)
}

func sortedSizes(m map[string]uint16) string {
	keys := make([]string, 0, len(m))
	for k := range m {
		keys = append(keys, k)
	}
	sort.Strings(keys)
	items := make([]string, len(keys))
	for i, k := range keys {
		items[i] = fmt.Sprintf("(%s, %d)", hx.S(k), m[k])
	}
	return hx.List(items)
}

func cacheObs(ca *cache.Cache, res string) string {
	frames := make([]string, len(ca.Cache))
	for i, f := range ca.Cache {
		frames[i] = sortedMap(f)
	}
	return fmt.Sprintf("(mkCobs %s %d %s %s %s)", res, ca.CacheUseSize, hx.List(frames), sortedSizes(ca.Sizes), hx.S(ca.LastValue))
}

func cacheErr(err error) string {
	if err == cache.ErrDup {
		return "(RErr EDup)"
	}
	return "(RErr EGen)"
}

type cop struct {
	kind  string
	k, v  string
	limit uint16
}

func (o cop) term() string {
	switch o.kind {
	case "add":
		return fmt.Sprintf("(OAdd %s %s %d)", hx.S(o.k), hx.S(o.v), o.limit)
	case "update":
		return fmt.Sprintf("(OUpdate %s %s)", hx.S(o.k), hx.S(o.v))
	case "get":
		return fmt.Sprintf("(OGet %s)", hx.S(o.k))
	case "push":
		return "OPush"
	case "pop":
		return "OPop"
	case "reset":
		return "OReset"
	}
	return "OLast"
}

func (o cop) short() string {
	switch o.kind {
	case "add":
		return fmt.Sprintf("add(%s,len=%d,limit=%d)", o.k, len(o.v), o.limit)
	case "update":
		return fmt.Sprintf("update(%s,len=%d)", o.k, len(o.v))
	case "get":
		return "get(" + o.k + ")"
	}
	return o.kind
}

func applyCop(ca *cache.Cache, o cop) string {
	res := "ROk"
	pk, _ := hx.Recover(func() {
		switch o.kind {
		case "add":
			if err := ca.Add(o.k, o.v, o.limit); err != nil {
				res = cacheErr(err)
			}
		case "update":
			if err := ca.Update(o.k, o.v); err != nil {
				res = cacheErr(err)
			}
		case "get":
			v, err := ca.Get(o.k)
			if err != nil {
				res = cacheErr(err)
			} else {
				res = "(RVal " + hx.S(v) + ")"
			}
		case "push":
			ca.Push()
		case "pop":
			if err := ca.Pop(); err != nil {
				res = cacheErr(err)
			}
		case "reset":
			ca.Reset()
		case "last":
			res = "(RVal " + hx.S(ca.Last()) + ")"
		}
	})
	if pk {
		res = "RPanic"
	}
	return res
}

func genValue(r *rand.Rand, limit int, big bool) string {
	var l int
	switch r.Intn(12) {
	case 0:
		l = 0
	case 1:
		l = 1
	case 2:
		l = 2
	case 3, 4:
		l = limit
	case 5:
		l = limit + 1
	case 6:
		if limit > 0 {
			l = limit - 1
		}
	case 7:
		if big {
			l = []int{65535, 65536, 65537, 65536 + limit, 65536 + limit + 1, 70000}[r.Intn(6)]
		} else {
			l = 5
		}
	default:
		l = r.Intn(12)
	}
	c := "abcxyz"[r.Intn(6)]
	// multi-byte text now and then: sizes are counted in bytes, not in characters
	if l >= 2 && l < 40 && r.Intn(5) == 0 {
		b := []byte(strings.Repeat("é", l/2))
		if l%2 == 1 {
			b = append(b, c)
		}
		return string(b)
	}
	// multi-line values now and then
	if l > 3 && l < 40 && r.Intn(4) == 0 {
		b := bytes.Repeat([]byte{c}, l)
		b[l/2] = '\n'
		return string(b)
	}
	return strings.Repeat(string(c), l)
}

func runCache(o opts) error {
	w := &hx.Writer{Dir: o.out, Prop: o.prop, Imports: "Bytes Errors CacheModel CorrBase CacheCorr", CaseType: "cachecase",
		Mism: "cache_mismatches", Viol: "cache_violations", PerShard: 40}
	keys := []string{"foo", "bar", "baz", "xyzzy", "a"}
	limits := []uint16{0, 0, 1, 3, 10, 10, 100, 65535}
	caps := []uint32{0, 0, 10, 25, 100, 70000, 200000}
	run := func(idx int, cap uint32, ops []cop, kind string) {
		ca := cache.NewCache()
		if cap > 0 {
			if idx%2 == 0 {
				ca = ca.WithCacheSize(cap)
			} else {
				ca.WithCacheSize(cap) // as a statement on an existing cache (persist's tests do this)
			}
		}
		obs := []string{}
		shorts := []string{}
		terms := []string{}
		emit := func(k string) {
			w.Add(hx.Case{Kind: k, Trivial: len(terms) < 2,
				Term: fmt.Sprintf("mkCacheCase %d %s %s", cap, hx.List(terms), hx.List(obs)),
				Desc: map[string]interface{}{"cap": cap, "ops": shorts}})
			obs, shorts, terms = []string{}, []string{}, []string{}
		}
		for _, op := range ops {
			if op.kind == "flushpop" {
				// the flush of a persister created WithFlush after a successful Save hands out a NEW, empty
				// cache of the same capacity: the history goes on with that object as a case of its own
				m := memdb.NewMemDb()
				m.Connect(context.Background(), "")
				pe := persist.NewPersister(m).WithFlush().WithContent(state.NewState(1), ca)
				pk, _ := hx.Recover(func() {
					if err := pe.Save("k"); err != nil {
						panic(err)
					}
				})
				w.Count("op:flush")
				if pk || pe.Memory == nil {
					break
				}
				emit(kind)
				kind = kind + "+after-flush"
				ca = pe.Memory
				continue
			}
			res := applyCop(ca, op)
			obs = append(obs, cacheObs(ca, res))
			shorts = append(shorts, op.short()+"=>"+res[:min(len(res), 24)])
			terms = append(terms, op.term())
			w.Count("op:" + op.kind)
			if strings.HasPrefix(res, "(RErr") {
				w.Count("rejected:" + op.kind)
			}
		}
		emit(kind)
	}
	// corpus: the 16-bit boundary and update-to-empty histories that used to fail
	big := strings.Repeat("x", 65539)
	run(-1, 0, []cop{{kind: "add", k: "foo", v: big, limit: 10}, {kind: "get", k: "foo"}}, "corpus:uint16-limit")
	run(-1, 0, []cop{{kind: "add", k: "foo", v: "abc", limit: 10}, {kind: "update", k: "foo", v: strings.Repeat("y", 65540)}, {kind: "get", k: "foo"}}, "corpus:uint16-limit-update")
	run(-1, 100, []cop{{kind: "add", k: "foo", v: "abc", limit: 0}, {kind: "update", k: "foo", v: ""}, {kind: "get", k: "foo"}}, "corpus:update-empty")
	run(-1, 0, []cop{{kind: "pop"}, {kind: "pop"}, {kind: "add", k: "a", v: "1", limit: 0}, {kind: "reset"}, {kind: "last"}, {kind: "last"}}, "corpus:pop-at-top")
	run(-2, 16, []cop{{kind: "add", k: "a", v: "12345678", limit: 0}, {kind: "push"}, {kind: "add", k: "b", v: "1234", limit: 0}, {kind: "reset"}, {kind: "flushpop"}, {kind: "add", k: "c", v: strings.Repeat("x", 17), limit: 0}, {kind: "add", k: "d", v: strings.Repeat("y", 16), limit: 0}, {kind: "add", k: "e", v: "z", limit: 0}}, "corpus:capacity-after-flush")
	run(-3, 8, []cop{{kind: "add", k: "a", v: "123456789", limit: 0}, {kind: "add", k: "a", v: "1234", limit: 0}, {kind: "update", k: "a", v: "123456789"}}, "corpus:capacity-set-by-statement")
	for c := 0; c < o.n; c++ {
		r := hx.Rng(o.seed, "cache", c)
		cap := caps[r.Intn(len(caps))]
		big := r.Intn(8) == 0
		nops := 2 + r.Intn(24)
		if o.tier == "thorough" {
			nops = 2 + r.Intn(40)
		}
		var ops []cop
		for k := 0; k < nops; k++ {
			key := keys[r.Intn(len(keys))]
			lim := limits[r.Intn(len(limits))]
			switch x := r.Intn(20); {
			case x < 7:
				ops = append(ops, cop{kind: "add", k: key, v: genValue(r, int(lim), big), limit: lim})
			case x < 11:
				ops = append(ops, cop{kind: "update", k: key, v: genValue(r, int(lim), big)})
			case x < 13:
				ops = append(ops, cop{kind: "get", k: key})
			case x < 16:
				ops = append(ops, cop{kind: "push"})
			case x < 18:
				ops = append(ops, cop{kind: "pop"})
			case x < 19:
				ops = append(ops, cop{kind: "reset"})
				if r.Intn(2) == 0 { // ... as part of a persister's flush after Save
					ops = append(ops, cop{kind: "flushpop"})
				}
			default:
				ops = append(ops, cop{kind: "last"})
			}
		}
		run(c, cap, ops, "history")
	}
	return w.Flush()
}
