//go:build verif

package main

// Engine-level driver: generated applications (node graphs with LOAD/RELOAD/MAP/CATCH/CROAK,
// menus, browse entries, templates with translations, scripted entry functions) are run on
// the REAL engine, long-lived and one-engine-per-request over a store, along generated
// input histories.  Every request's response, the session snapshot after it and the
// resource calls it made are printed as a correspondence case (coq/corr/EngineCorr.v).

import (
	"bytes"
	"context"
	"errors"
	"fmt"
	"math/rand"
	"os"
	"path"
	"sort"
	"strings"
	"time"

	"git.defalsify.org/vise.git/asm"
	"git.defalsify.org/vise.git/cache"
	"git.defalsify.org/vise.git/db"
	memdb "git.defalsify.org/vise.git/db/mem"
	"git.defalsify.org/vise.git/engine"
	"git.defalsify.org/vise.git/lang"
	"git.defalsify.org/vise.git/persist"
	"git.defalsify.org/vise.git/render"
	"git.defalsify.org/vise.git/resource"
	"git.defalsify.org/vise.git/state"
	"git.defalsify.org/vise.git/vm"
	"verif/harness/internal/hx"
)

// ---- application description ---------------------------------------------------------

type eFres struct {
	Content string   `json:"content"`
	Echo    bool     `json:"echo"`
	Status  int      `json:"status"`
	Set     []uint32 `json:"set"`
	Reset   []uint32 `json:"reset"`
	Fail    bool     `json:"fail"`
}

type kv struct{ K, V string }

type eApp struct {
	Code  []kv               `json:"code"` // node -> bytecode
	Tpl   []kv               `json:"tpl"`  // store key (sym or sym_lang) -> template
	Menu  []kv               `json:"menu"` // store key (title_menu or title_menu_lang) -> label
	Funcs []string           `json:"funcs"`
	Fn    map[string][]eFres `json:"fn"`
}

type eCfg struct {
	Out        uint32  `json:"out"`
	Root       string  `json:"root"`
	FlagCount  uint32  `json:"flagcount"`
	CacheSize  uint32  `json:"cachesize"`
	Lang       string  `json:"lang"`
	Sep        string  `json:"sep"`
	ResetEmpty bool    `json:"resetempty"`
	First      []eFres `json:"first"` // nil: no entry function
}

func fresTerm(f eFres) string {
	return fmt.Sprintf("(mkFres %s %s %d %s %s %s)", hx.S(f.Content), hx.Bool(f.Echo), f.Status, hx.NList(f.Set), hx.NList(f.Reset), hx.Bool(f.Fail))
}

func fresListTerm(fs []eFres) string {
	r := make([]string, len(fs))
	for i, f := range fs {
		r[i] = fresTerm(f)
	}
	return hx.List(r)
}

func ekvTerm(l []kv) string {
	r := make([]string, len(l))
	for i, e := range l {
		r[i] = fmt.Sprintf("(%s, %s)", hx.S(e.K), hx.S(e.V))
	}
	return hx.List(r)
}

func (a *eApp) term() string {
	fn := make([]string, len(a.Funcs))
	for i, s := range a.Funcs {
		fn[i] = fmt.Sprintf("(%s, %s)", hx.S(s), fresListTerm(a.Fn[s]))
	}
	return fmt.Sprintf("(mkApp %s %s %s %s)", ekvTerm(a.Code), ekvTerm(a.Tpl), ekvTerm(a.Menu), hx.List(fn))
}

func (c *eCfg) term() string {
	first := "None"
	if c.First != nil {
		first = "(Some " + fresListTerm(c.First) + ")"
	}
	return fmt.Sprintf("(mkCfg %d %s %d %d %s %s %s %s)", c.Out, hx.S(c.Root), c.FlagCount, c.CacheSize, hx.S(c.Lang), hx.S(c.Sep), hx.Bool(c.ResetEmpty), first)
}

// ---- the real resource, recording every call -------------------------------------------

type eCall struct {
	Kind  string // func, code, tpl, menu
	Sym   string
	Lang  string // "" = none
	Input []byte
	NoIn  bool
}

func (c eCall) term() string {
	l := "None"
	if c.Lang != "" {
		l = "(Some " + hx.S(c.Lang) + ")"
	}
	switch c.Kind {
	case "func":
		in := "None"
		if !c.NoIn {
			in = "(Some " + hx.B(c.Input) + ")"
		}
		return fmt.Sprintf("(OcFunc %s %s %s)", hx.S(c.Sym), l, in)
	case "code":
		return fmt.Sprintf("(OcCode %s)", hx.S(c.Sym))
	case "tpl":
		return fmt.Sprintf("(OcTpl %s %s)", hx.S(c.Sym), l)
	}
	return fmt.Sprintf("(OcMenu %s %s)", hx.S(c.Sym), l)
}

func ctxLang(ctx context.Context) string {
	v := ctx.Value("Language")
	if v == nil {
		return ""
	}
	if l, ok := v.(lang.Language); ok {
		return l.Code
	}
	return "?"
}

type recRs struct {
	*resource.DbResource
	calls  *[]eCall
	static map[string]bool
}

// FuncFor: symbols served from the store's STATICLOAD entries (DbFuncFor's fallback) have no scripted
// function that could record the call, so the call is recorded here
func (r *recRs) FuncFor(ctx context.Context, sym string) (resource.EntryFunc, error) {
	fn, err := r.DbResource.FuncFor(ctx, sym)
	if err != nil || !r.static[sym] {
		return fn, err
	}
	return func(ctx context.Context, nodeSym string, input []byte) (resource.Result, error) {
		*r.calls = append(*r.calls, eCall{Kind: "func", Sym: sym, Lang: ctxLang(ctx), Input: append([]byte{}, input...), NoIn: input == nil})
		return fn(ctx, nodeSym, input)
	}, nil
}

// staticEntry decides whether a scripted function is served as a STATICLOAD entry of the store
// instead (only a function that always returns the same plain content can be): by a hash of the
// symbol, so that both paths occur; key = the store key used ("sym" or the fallback "sym.txt")
func staticEntry(sym string, script []eFres) (bool, string) {
	if len(script) != 1 {
		return false, ""
	}
	f := script[0]
	if f.Fail || f.Echo || f.Status != 0 || len(f.Set) > 0 || len(f.Reset) > 0 {
		return false, ""
	}
	h := 0
	for _, c := range []byte(sym) {
		h += int(c)
	}
	if h%2 != 0 {
		return false, ""
	}
	if h%4 == 0 {
		return true, sym + ".txt"
	}
	return true, sym
}

func (r *recRs) GetCode(ctx context.Context, sym string) ([]byte, error) {
	*r.calls = append(*r.calls, eCall{Kind: "code", Sym: sym})
	return r.DbResource.GetCode(ctx, sym)
}
func (r *recRs) GetTemplate(ctx context.Context, sym string) (string, error) {
	*r.calls = append(*r.calls, eCall{Kind: "tpl", Sym: sym, Lang: ctxLang(ctx)})
	return r.DbResource.GetTemplate(ctx, sym)
}
func (r *recRs) GetMenu(ctx context.Context, sym string) (string, error) {
	*r.calls = append(*r.calls, eCall{Kind: "menu", Sym: sym, Lang: ctxLang(ctx)})
	return r.DbResource.GetMenu(ctx, sym)
}

// world: call counters of the scripted entry functions, shared by every engine of a session
type eWorld struct {
	counts map[string]int
	calls  []eCall
}

func scripted(w *eWorld, key string, script []eFres) resource.EntryFunc {
	return func(ctx context.Context, sym string, input []byte) (resource.Result, error) {
		n := w.counts[key]
		w.counts[key] = n + 1
		w.calls = append(w.calls, eCall{Kind: "func", Sym: key, Lang: ctxLang(ctx), Input: append([]byte{}, input...), NoIn: input == nil})
		f := script[n%len(script)]
		if f.Fail {
			return resource.Result{Status: f.Status}, errors.New("scripted failure")
		}
		content := f.Content
		if f.Echo {
			content += string(input)
		}
		return resource.Result{Content: content, Status: f.Status, FlagSet: f.Set, FlagReset: f.Reset}, nil
	}
}

func buildResource(a *eApp, w *eWorld) (*recRs, error) {
	ctx := context.Background()
	m := memdb.NewMemDb()
	m.Connect(ctx, "")
	for _, t := range []uint8{db.DATATYPE_BIN, db.DATATYPE_TEMPLATE, db.DATATYPE_MENU, db.DATATYPE_STATICLOAD} {
		m.SetLock(t, false)
	}
	put := func(typ uint8, l []kv) error {
		m.SetPrefix(typ)
		for _, e := range l {
			if err := m.Put(ctx, []byte(e.K), []byte(e.V)); err != nil {
				return err
			}
		}
		return nil
	}
	if err := put(db.DATATYPE_BIN, a.Code); err != nil {
		return nil, err
	}
	if err := put(db.DATATYPE_TEMPLATE, a.Tpl); err != nil {
		return nil, err
	}
	if err := put(db.DATATYPE_MENU, a.Menu); err != nil {
		return nil, err
	}
	static := map[string]bool{}
	m.SetPrefix(db.DATATYPE_STATICLOAD)
	for _, s := range a.Funcs {
		if ok, key := staticEntry(s, a.Fn[s]); ok {
			if err := m.Put(ctx, []byte(key), []byte(a.Fn[s][0].Content)); err != nil {
				return nil, err
			}
			static[s] = true
		}
	}
	m.SetLock(0, true)
	rs := resource.NewDbResource(m)
	if len(static) > 0 {
		rs = rs.With(db.DATATYPE_STATICLOAD)
	}
	for _, s := range a.Funcs {
		if len(a.Fn[s]) > 0 && !static[s] {
			rs.AddLocalFunc(s, scripted(w, s, a.Fn[s]))
		}
	}
	return &recRs{DbResource: rs, calls: &w.calls, static: static}, nil
}

// ---- observation -----------------------------------------------------------------------

func errClass(err error) string {
	if err == nil {
		return "OSOk"
	}
	var xe *vm.ExternalCodeError
	var be *render.BrowseError
	switch {
	case errors.As(err, &xe):
		return "(OSErr EExternal)"
	case errors.Is(err, state.IndexError):
		return "(OSErr EIndex)"
	case errors.As(err, &be):
		return "(OSErr EBrowse)"
	case err == engine.ErrFlushNoExec:
		return "(OSErr EFlushNoExec)"
	case db.IsNotFound(err):
		return "(OSErr ENotFound)"
	}
	return "(OSErr EGen)"
}

func snapTerm(st *state.State, ca *cache.Cache) string {
	if st == nil || ca == nil {
		return "None"
	}
	l := "None"
	if st.Language != nil {
		l = "(Some " + hx.S(st.Language.Code) + ")"
	}
	frames := make([]string, len(ca.Cache))
	for i, f := range ca.Cache {
		frames[i] = sortedMap(f)
	}
	return fmt.Sprintf("(Some (mkOsnap %s %s %d %s %s %d %d %s %s %s))", hx.B(st.Code), hx.SList(st.ExecPath), st.SizeIdx, hx.B(st.Flags), l,
		ca.CacheSize, ca.CacheUseSize, hx.List(frames), sortedSizes(ca.Sizes), hx.S(ca.LastValue))
}

type eStep struct {
	Input  []byte `json:"input"`
	Cont   bool   `json:"cont"`
	Exec   string `json:"exec"`
	Out    string `json:"out"`
	Flush  string `json:"flush"`
	Panic  string `json:"panic,omitempty"`
	Path   string `json:"path"`
	term   string
	nCalls int
}

func callsTerm(cs []eCall) string {
	r := make([]string, len(cs))
	for i, c := range cs {
		r[i] = c.term()
	}
	return hx.List(r)
}

func mkConfig(c *eCfg) engine.Config {
	return engine.Config{OutputSize: c.Out, SessionId: "sess", Root: c.Root, FlagCount: c.FlagCount, CacheSize: c.CacheSize,
		Language: c.Lang, MenuSeparator: c.Sep, ResetOnEmptyInput: c.ResetEmpty}
}

// one request on engine en; persisted => Finish afterwards
// callerLang: when set, every request is made with a context that already carries this language (a
// front end's default); the engine must override it with the session's own language.  Only set for
// sessions that always have a language (a configured, resolvable code and no function that changes it).
var callerLang string

func doRequest(en *engine.DefaultEngine, input []byte, finish bool) (cont bool, exec string, out []byte, flush string, pval interface{}) {
	ctx := context.Background()
	if callerLang != "" {
		ctx = context.WithValue(ctx, "Language", lang.Language{Code: callerLang, Name: "caller"})
	}
	exec, flush = "OSPanic", "OSPanic"
	panicked, v := hx.Recover(func() {
		c, err := en.Exec(ctx, input)
		cont = c
		exec = errClass(err)
		w := bytes.NewBuffer(nil)
		_, ferr := en.Flush(ctx, w)
		out = w.Bytes()
		flush = errClass(ferr)
		if finish {
			en.Finish(ctx)
		}
	})
	if panicked {
		pval = v
	}
	return
}

func runEngineCase(a *eApp, c *eCfg, persisted bool, inputs [][]byte) ([]eStep, error) {
	// watchdog: a generated application must not make the real engine loop
	done := make(chan struct{})
	defer close(done)
	go func() {
		select {
		case <-done:
		case <-time.After(30 * time.Second):
			fmt.Fprintf(os.Stderr, "harness: engine case did not finish in 30s: %s\n", a.term())
			os.Exit(4)
		}
	}()
	w := &eWorld{counts: map[string]int{}}
	rs, err := buildResource(a, w)
	if err != nil {
		return nil, err
	}
	callerLang = ""
	if (c.Lang == "nor" || c.Lang == "swa") && !appSetsLang(a, c) && len(a.Code)%2 == 1 {
		callerLang = "eng"
	}
	defer func() { callerLang = "" }()
	var steps []eStep
	cfg := mkConfig(c)
	mk := func() *engine.DefaultEngine {
		en := engine.NewEngine(cfg, rs)
		if c.First != nil {
			en = en.WithFirst(scripted(w, "_first", c.First))
		}
		return en
	}
	var st *state.State
	var ca *cache.Cache
	var en *engine.DefaultEngine
	var store db.Db
	if persisted {
		store = memdb.NewMemDb()
		store.Connect(context.Background(), "")
	} else {
		st = state.NewState(c.FlagCount)
		ca = cache.NewCache()
		if c.CacheSize > 0 {
			ca = ca.WithCacheSize(c.CacheSize)
		}
		en = mk().WithState(st).WithMemory(ca)
	}
	dead := false
	for _, in := range inputs {
		if dead {
			break
		}
		w.calls = nil
		var s eStep
		s.Input = in
		var pv interface{}
		var out []byte
		if persisted {
			if len(a.Code)%4 == 1 {
				// a front end that connects before every request: "consecutive calls should be ignored"
				store.Connect(context.Background(), "")
			}
			pe := persist.NewPersister(store)
			if len(a.Code)%3 == 0 {
				// the application keeps data of its own on the same handle, and touches it between creating
				// the persister and handing it to the engine
				store.SetPrefix(db.DATATYPE_USERDATA)
				store.Put(context.Background(), []byte("visits"), []byte{byte(len(steps))})
			}
			if len(a.Code)%2 == 0 {
				// the optional flush-after-save: the persister's own State/Memory are emptied by every Save
				pe = pe.WithFlush()
			}
			e := mk().WithPersister(pe)
			s.Cont, s.Exec, out, s.Flush, pv = doRequest(e, in, true)
			pe2 := persist.NewPersister(store).WithContent(state.NewState(c.FlagCount), cache.NewCache())
			if lerr := pe2.Load("sess"); lerr == nil {
				st, ca = pe2.State, pe2.Memory
			} else {
				st, ca = nil, nil
			}
		} else {
			s.Cont, s.Exec, out, s.Flush, pv = doRequest(en, in, false)
		}
		s.Out = string(out)
		snap := snapTerm(st, ca)
		if pv != nil {
			s.Panic = fmt.Sprint(pv)
			snap = "None"
			dead = true // a panicked long-lived engine is not reused; neither is the session
		}
		if st != nil {
			s.Path = strings.Join(st.ExecPath, "/")
		}
		s.nCalls = len(w.calls)
		if !persisted && !s.Cont && !refusedInput(in) {
			// "Calling Exec again has undefined effects" -- except after a REFUSED input (an over-long
			// input is answered with cont=false too), which must leave no trace
			dead = true
		}
		s.term = fmt.Sprintf("(%s, mkEobs %s %s %s %s %s %s)", hx.B(in), hx.Bool(s.Cont), s.Exec, hx.B(out), s.Flush, snap, callsTerm(w.calls))
		steps = append(steps, s)
	}
	return steps, nil
}

func appSetsLang(a *eApp, c *eCfg) bool {
	has := func(fs []eFres) bool {
		for _, f := range fs {
			for _, x := range f.Set {
				if x == state.FLAG_LANG {
					return true
				}
			}
		}
		return false
	}
	for _, fs := range a.Fn {
		if has(fs) {
			return true
		}
	}
	return has(c.First)
}

// refusedInput mirrors the engine's documented refusal: longer than the input limit, or
// non-empty and not matching the builtin input pattern (first byte alphanumeric after an optional
// '+', no line feed)
func refusedInput(in []byte) bool {
	if len(in) > 255 {
		return true
	}
	if len(in) == 0 {
		return false
	}
	b := in
	if b[0] == '+' {
		b = b[1:]
	}
	if len(b) == 0 {
		return true
	}
	c := b[0]
	if !(c >= '0' && c <= '9' || c >= 'a' && c <= 'z' || c >= 'A' && c <= 'Z') {
		return true
	}
	return bytes.IndexByte(b, 0x0a) >= 0
}

// ---- generators ------------------------------------------------------------------------

type egen struct {
	r         *rand.Rand
	nodes     []string
	syms      []string
	sels      []string
	flagCount int
}

// a flag index for CATCH/CROAK: mostly a client flag within range
func (g *egen) flag(builtin bool) uint32 {
	k := g.r.Intn(40)
	if k == 0 {
		return uint32(8 + g.flagCount) // out of range
	}
	if builtin && k < 4 {
		return uint32(pick(g.r, []int{3, 3, 6, 0}))
	}
	if g.flagCount == 0 {
		return 3
	}
	return uint32(8 + g.r.Intn(g.flagCount))
}

func pick[T any](r *rand.Rand, l []T) T { return l[r.Intn(len(l))] }

var eNodePool = []string{"foo", "bar", "baz", "quux", "n1", "end1"}
var eSymPool = []string{"aa", "bb", "cc", "dd"}
var eSelPool = []string{"0", "1", "2", "3", "9", "00", "a", "x1", "11", "22"}
var eLangCodes = []string{"nor", "no", "swa", "eng", "xx", "zzzz", "", "fra", "swh", "cmn", "swh", "english", "norsk", "swahili"}

func (g *egen) sel() string {
	if g.r.Intn(8) == 0 {
		return "*"
	}
	return pick(g.r, g.sels)
}

func (g *egen) dest(self string) string {
	k := g.r.Intn(100)
	switch {
	case k < 12:
		return "_"
	case k < 17:
		return "^"
	case k < 21:
		return "."
	case k < 27:
		return ">"
	case k < 33:
		return "<"
	case k < 34:
		return "nonode"
	}
	for i := 0; i < 4; i++ {
		d := pick(g.r, g.nodes)
		if d != self || g.r.Intn(30) == 0 {
			return d
		}
	}
	return "_"
}

func (g *egen) content(limit int) string {
	words := []string{"x", "ok", "hello", "lorem ipsum", "0123456789", "a\nbb\nccc", "one\ntwo\nthree\nfour\nfive", "", "blåbærsyltetøy", "ñandú\n日本語", "ééééééééééééééééééééééééé"}
	if limit > 0 && limit < 50 && g.r.Intn(60) == 0 {
		return strings.Repeat("q", 65536+g.r.Intn(limit+1)) // length mod 2^16 <= limit
	}
	switch g.r.Intn(12) {
	case 0:
		if limit > 0 {
			return strings.Repeat("y", limit)
		}
	case 1:
		if limit > 0 {
			return strings.Repeat("z", limit+1)
		}
	case 2:
		return ""
	}
	return pick(g.r, words)
}

func (g *egen) flagList() []uint32 {
	n := g.r.Intn(3)
	if g.r.Intn(3) > 0 {
		n = 0
	}
	var l []uint32
	for i := 0; i < n; i++ {
		if g.flagCount > 0 && g.r.Intn(4) > 0 {
			l = append(l, uint32(8+g.r.Intn(g.flagCount)))
		} else {
			l = append(l, uint32(pick(g.r, []int{0, 1, 2, 3, 4, 5, 6, 6, 8 + g.flagCount})))
		}
	}
	return l
}

func (g *egen) script(limit int, langy bool) []eFres {
	n := 1 + g.r.Intn(3)
	var s []eFres
	for i := 0; i < n; i++ {
		f := eFres{Content: g.content(limit), Set: g.flagList(), Reset: g.flagList()}
		if g.r.Intn(6) == 0 {
			f.Echo = true
		}
		if g.r.Intn(14) == 0 {
			f.Fail = true
			f.Status = g.r.Intn(3)
		}
		if langy {
			f.Content = pick(g.r, eLangCodes)
			f.Set = append(f.Set, state.FLAG_LANG)
			f.Echo = false
		}
		s = append(s, f)
	}
	return s
}

func line(op vm.Opcode, strs []string, ba []byte, na []uint8) []byte {
	return vm.NewLine(nil, uint16(op), strs, ba, na)
}

func minBE(n uint32) []byte {
	if n == 0 {
		return []byte{0}
	}
	var b []byte
	for n > 0 {
		b = append([]byte{byte(n)}, b...)
		n >>= 8
	}
	return b
}

type genOut struct {
	app  *eApp
	cfg  *eCfg
	sels []string
	desc []string
}

// one generated application
func genApp(r *rand.Rand) genOut {
	g := &egen{r: r, flagCount: pick(r, []int{4, 4, 4, 4, 1, 0, 9, 4, 4, 300})}
	nn := 2 + r.Intn(4)
	g.nodes = append([]string{"root"}, eNodePool[:nn]...)
	g.syms = eSymPool[:2+r.Intn(3)]
	ns := 3 + r.Intn(4)
	perm := r.Perm(len(eSelPool))
	for i := 0; i < ns; i++ {
		g.sels = append(g.sels, eSelPool[perm[i]])
	}
	a := &eApp{Fn: map[string][]eFres{}}
	limits := map[string]int{}
	sinkSym := ""
	if r.Intn(3) == 0 {
		sinkSym = "sink1"
	}
	for _, s := range g.syms {
		limits[s] = pick(r, []int{0, 5, 12, 40, 255})
		if limits[s] == 0 && (sinkSym != "" || r.Intn(2) == 0) {
			limits[s] = 20
		}
		a.Funcs = append(a.Funcs, s)
		a.Fn[s] = g.script(limits[s], false)
	}
	if sinkSym != "" {
		limits[sinkSym] = 0
		a.Funcs = append(a.Funcs, sinkSym)
		a.Fn[sinkSym] = []eFres{{Content: pick(r, []string{"a\nbb\nccc\ndddd\neeeee\nffffff", "one\ntwo\nthree\nfour\nfive\nsix\nseven", "r1\nr2\nr3\nr4\nr5\nr6\nr7\nr8\nr9", "xx", "aaaa\nbbbb\ncccc\n", "\nab\n\ncd"})}}
	}
	langy := r.Intn(4) == 0
	if langy {
		a.Funcs = append(a.Funcs, "lang1")
		a.Fn["lang1"] = g.script(0, true)
		limits["lang1"] = 0
	}
	var desc []string
	all := append(append([]string{}, g.nodes...), "_catch")
	for nodeIdx, n := range all {
		var code []byte
		var src []string
		add := func(s string, b []byte) { code = append(code, b...); src = append(src, s) }
		mapped := []string{}
		loaded := []string{}
		np := r.Intn(4)
		if n == "_catch" {
			np = r.Intn(2)
		}
		usedSink := false
		msink := false
		for i := 0; i < np; i++ {
			k := r.Intn(100)
			switch {
			case k < 30:
				s := pick(r, g.syms)
				if sinkSym != "" && !usedSink && r.Intn(2) == 0 {
					s = sinkSym
					usedSink = true
				}
				add(fmt.Sprintf("LOAD %s %d", s, limits[s]), line(vm.LOAD, []string{s}, minBE(uint32(limits[s])), nil))
				loaded = append(loaded, s)
				if r.Intn(4) > 0 {
					add("MAP "+s, line(vm.MAP, []string{s}, nil, nil))
					mapped = append(mapped, s)
					if r.Intn(5) == 0 { // MAP then RELOAD in the same run: the page must show the new value
						add("RELOAD "+s, line(vm.RELOAD, []string{s}, nil, nil))
					}
				}
			case k < 38:
				s := pick(r, g.syms)
				if len(loaded) > 0 && r.Intn(10) > 0 {
					s = pick(r, loaded)
				} else if r.Intn(10) > 0 {
					add(fmt.Sprintf("LOAD %s %d", s, limits[s]), line(vm.LOAD, []string{s}, minBE(uint32(limits[s])), nil))
					loaded = append(loaded, s)
				}
				add("RELOAD "+s, line(vm.RELOAD, []string{s}, nil, nil))
				if r.Intn(2) == 0 {
					mapped = append(mapped, s)
				}
			case k < 44:
				s := pick(r, g.syms)
				if len(loaded) > 0 && r.Intn(10) > 0 {
					s = pick(r, loaded)
				}
				add("MAP "+s, line(vm.MAP, []string{s}, nil, nil))
			case k < 54:
				fl := g.flag(true)
				mode := r.Intn(3) > 0
				mb := uint8(0)
				if mode {
					mb = 1
				}
				// CATCH runs before the first HALT: only forward targets, so that no cycle of
				// moves avoids a HALT (the engine would loop forever)
				var later []string
				for j, cand := range g.nodes {
					if j > nodeIdx {
						later = append(later, cand)
					}
				}
				if n == "_catch" || len(later) == 0 {
					continue
				}
				d := pick(r, later)
				add(fmt.Sprintf("CATCH %s %d %v", d, fl, mode), line(vm.CATCH, []string{d}, minBE(fl), []uint8{mb}))
			case k < 58:
				fl := g.flag(false)
				mode := r.Intn(4) > 0
				mb := uint8(0)
				if mode {
					mb = 1
				}
				add(fmt.Sprintf("CROAK %d %v", fl, mode), line(vm.CROAK, nil, minBE(fl), []uint8{mb}))
			case k < 80:
				lbl := pick(r, []string{"lbl1", "lbl2", "to_foo", "back"})
				s := pick(r, g.sels)
				add(fmt.Sprintf("MOUT %s %s", lbl, s), line(vm.MOUT, []string{lbl, s}, nil, nil))
			case k < 86:
				add("MNEXT nxt 11", line(vm.MNEXT, []string{"nxt", "11"}, nil, nil))
			case k < 92:
				add("MPREV prv 22", line(vm.MPREV, []string{"prv", "22"}, nil, nil))
			case k < 95:
				if !usedSink {
					add("MSINK", line(vm.MSINK, nil, nil, nil))
					msink = true
				}
			default:
				if langy {
					add("LOAD lang1 0", line(vm.LOAD, []string{"lang1"}, []byte{0}, nil))
				}
			}
		}
		_ = msink
		if usedSink && r.Intn(3) > 0 {
			// both entries in either order, or (1 in 5 each) only one of them
			switch r.Intn(10) {
			case 0, 1:
				add("MNEXT nxt 11", line(vm.MNEXT, []string{"nxt", "11"}, nil, nil))
			case 2, 3:
				add("MPREV prv 22", line(vm.MPREV, []string{"prv", "22"}, nil, nil))
			case 4, 5, 6:
				add("MPREV prv 22", line(vm.MPREV, []string{"prv", "22"}, nil, nil))
				add("MNEXT nxt 11", line(vm.MNEXT, []string{"nxt", "11"}, nil, nil))
			default:
				add("MNEXT nxt 11", line(vm.MNEXT, []string{"nxt", "11"}, nil, nil))
				add("MPREV prv 22", line(vm.MPREV, []string{"prv", "22"}, nil, nil))
			}
		}
		add("HALT", line(vm.HALT, nil, nil, nil))
		ni := r.Intn(5)
		if n == "_catch" {
			ni = 1
		}
		if usedSink {
			add("INCMP > 11", line(vm.INCMP, []string{">", "11"}, nil, nil))
			add("INCMP < 22", line(vm.INCMP, []string{"<", "22"}, nil, nil))
		}
		for i := 0; i < ni; i++ {
			d := g.dest(n)
			s := g.sel()
			if n == "_catch" {
				d = pick(r, []string{"_", "^", "_", "root"})
				s = pick(r, []string{"*", "0", "*"})
			}
			add(fmt.Sprintf("INCMP %s %s", d, s), line(vm.INCMP, []string{d, s}, nil, nil))
		}
		switch r.Intn(10) {
		case 0:
			d := g.dest(n)
			if d == n {
				d = "_"
			}
			add("MOVE "+d, line(vm.MOVE, []string{d}, nil, nil))
		case 1:
			add("HALT", line(vm.HALT, nil, nil, nil))
		}
		a.Code = append(a.Code, kv{n, string(code)})
		// template
		t := pick(r, []string{"this is " + n, n, "T", "a longer text for node " + n + " which takes space", "", "nœud " + n + " åäö üüüüüüüüüü"})
		for _, s := range mapped {
			if r.Intn(5) > 0 {
				t += pick(r, []string{" ", "\n", ": "}) + "{{." + s + "}}"
			}
		}
		if r.Intn(15) == 0 {
			t += " {{.missing}}"
		}
		a.Tpl = append(a.Tpl, kv{n, t})
		if r.Intn(4) == 0 {
			a.Tpl = append(a.Tpl, kv{n + "_" + pick(r, []string{"nor", "swa", "fra", "swh"}), "tr:" + t})
		}
		desc = append(desc, n+": "+strings.Join(src, "; "))
	}
	// menu labels
	for _, l := range []string{"lbl1", "to_foo", "nxt"} {
		if r.Intn(3) == 0 {
			a.Menu = append(a.Menu, kv{l + "_menu", pick(r, []string{strings.ToUpper(l), "étiquette " + l})})
		}
		if r.Intn(5) == 0 {
			a.Menu = append(a.Menu, kv{l + "_menu_" + pick(r, []string{"nor", "swa"}), "tr" + l})
		}
	}
	if r.Intn(8) == 0 { // a missing node
		i := 1 + r.Intn(len(a.Code)-1)
		a.Code = append(a.Code[:i], a.Code[i+1:]...)
	}
	sort.Slice(a.Tpl, func(i, j int) bool { return a.Tpl[i].K < a.Tpl[j].K })
	c := &eCfg{FlagCount: uint32(g.flagCount), Out: uint32(pick(r, []int{0, 0, 30, 40, 60, 100, 160}))}
	if r.Intn(5) == 0 {
		c.Out = uint32(1 + r.Intn(80))
	}
	c.CacheSize = uint32(pick(r, []int{0, 0, 0, 10, 50, 400}))
	if r.Intn(5) == 0 {
		c.Lang = pick(r, []string{"nor", "swa", "xx", "en"})
	}
	if r.Intn(6) == 0 {
		c.Sep = pick(r, []string{")", ". ", "-"})
	}
	c.ResetEmpty = r.Intn(10) == 0
	if r.Intn(7) == 0 {
		c.First = g.script(0, false)
		if r.Intn(2) == 0 {
			c.First[0].Set = append(c.First[0].Set, state.FLAG_TERMINATE)
			if r.Intn(2) == 0 { // an exit value of the entry function that may not fit the output size
				c.First[0].Content = strings.Repeat("exit value ", 1+r.Intn(8))
				c.First[0].Fail = false
			}
		}
	}
	return genOut{app: a, cfg: c, sels: g.sels, desc: desc}
}

func genHistory(r *rand.Rand, sels []string, n int) [][]byte {
	h := [][]byte{[]byte{}}
	switch r.Intn(20) {
	case 0, 1:
		h[0] = []byte(pick(r, sels))
	case 2: // a session that starts with a refused input
		h[0] = []byte(pick(r, []string{strings.Repeat("a", 300), "!bad", " "}))
	}
	for i := 0; i < n; i++ {
		k := r.Intn(100)
		var in string
		switch {
		case k < 55:
			in = pick(r, sels)
		case k < 70:
			in = pick(r, []string{"11", "22", "11", "11"})
		case k < 78:
			in = pick(r, eSelPool)
		case k < 82:
			in = ""
		case k < 83: // the longest inputs that are still accepted
			in = strings.Repeat("1", 254+r.Intn(2))
		case k < 90:
			in = pick(r, []string{"zz", "q", "+1", "7 7", "abc'def", "50%", "100%d", "7%%s"})
		case k < 97:
			in = pick(r, []string{"!bad", " 1", "-", "\x00", "\n1", "é", "1\n", "1\n2", "+254\n1", "a\nb", " ", "\t", "\n", "\r\n", "  "})
		default:
			in = strings.Repeat("1", 256+r.Intn(45))
			if r.Intn(3) == 0 { // over the limit in bytes, under it in characters
				in = "a" + strings.Repeat("é", 128+r.Intn(40))
			}
		}
		h = append(h, []byte(in))
	}
	return h
}

// ---- hand-written corpus ---------------------------------------------------------------

// mini assembler over vm.NewLine: one instruction per ';'-separated item
func asmLines(src string) []byte {
	var code []byte
	for _, l := range strings.Split(src, ";") {
		f := strings.Fields(l)
		if len(f) == 0 {
			continue
		}
		num := func(s string) uint32 {
			var n uint32
			fmt.Sscanf(s, "%d", &n)
			return n
		}
		mode := func(s string) []uint8 {
			if s == "1" || s == "true" {
				return []uint8{1}
			}
			return []uint8{0}
		}
		switch f[0] {
		case "LOAD":
			code = append(code, line(vm.LOAD, []string{f[1]}, minBE(num(f[2])), nil)...)
		case "RELOAD":
			code = append(code, line(vm.RELOAD, []string{f[1]}, nil, nil)...)
		case "MAP":
			code = append(code, line(vm.MAP, []string{f[1]}, nil, nil)...)
		case "MOVE":
			code = append(code, line(vm.MOVE, []string{f[1]}, nil, nil)...)
		case "HALT":
			code = append(code, line(vm.HALT, nil, nil, nil)...)
		case "INCMP":
			code = append(code, line(vm.INCMP, []string{f[1], f[2]}, nil, nil)...)
		case "MOUT":
			code = append(code, line(vm.MOUT, []string{f[1], f[2]}, nil, nil)...)
		case "MNEXT":
			code = append(code, line(vm.MNEXT, []string{f[1], f[2]}, nil, nil)...)
		case "MPREV":
			code = append(code, line(vm.MPREV, []string{f[1], f[2]}, nil, nil)...)
		case "MSINK":
			code = append(code, line(vm.MSINK, nil, nil, nil)...)
		case "CATCH":
			code = append(code, line(vm.CATCH, []string{f[1]}, minBE(num(f[2])), mode(f[3]))...)
		case "CROAK":
			code = append(code, line(vm.CROAK, nil, minBE(num(f[1])), mode(f[2]))...)
		default:
			panic("asmLines: " + l)
		}
	}
	return code
}

type corpusCase struct {
	name   string
	nodes  [][3]string // name, source, template
	tplx   []kv
	menu   []kv
	fn     map[string][]eFres
	cfg    eCfg
	inputs []string
	heavy  bool // minutes of vm_compute: thorough tier of C01 only
	only   string // the one property this case is run under ("" = all)
}

func st1(s string) []eFres { return []eFres{{Content: s}} }

var engineCorpus = []corpusCase{
	{name: "dupsel", nodes: [][3]string{{"root", "HALT; INCMP foo 1; INCMP bar 1; INCMP baz *", "root"}, {"foo", "HALT; INCMP _ 0", "foo"}, {"bar", "HALT; INCMP _ 0", "bar"}, {"baz", "HALT; INCMP _ 0", "baz"}, {"_catch", "HALT; INCMP _ *", "catch"}},
		cfg: eCfg{FlagCount: 1}, inputs: []string{"", "1", "0", "0", "0"}},
	{name: "exit-overflow", nodes: [][3]string{{"root", "HALT; INCMP end1 1", "root"}, {"end1", "LOAD bye 0; HALT", "bye"}, {"_catch", "HALT; INCMP _ *", "catch"}},
		fn: map[string][]eFres{"bye": st1(strings.Repeat("b", 50))}, cfg: eCfg{FlagCount: 1, Out: 30}, inputs: []string{"", "1", "", "1"}},
	{name: "error-prefix", nodes: [][3]string{{"root", "MOUT to_foo 1; HALT; INCMP foo 1", "root"}, {"foo", "HALT; INCMP _ 0", "foo"}, {"_catch", "MOUT back 0; HALT; INCMP _ 0", "catch"}},
		cfg: eCfg{FlagCount: 1}, inputs: []string{"", "x", "0", "1", "0", "zz", "0"}},
	{name: "sizer-sink-name", nodes: [][3]string{{"root", "LOAD aa 0; MAP aa; MNEXT nxt 11; MPREV prv 22; HALT; INCMP > 11; INCMP < 22; INCMP foo 1", "root {{.aa}}"}, {"foo", "LOAD bb 20; MAP bb; HALT; INCMP _ 0", "foo {{.bb}}"}, {"_catch", "HALT; INCMP _ *", "catch"}},
		fn: map[string][]eFres{"aa": st1("one\ntwo\nthree\nfour\nfive"), "bb": st1("x\ny")}, cfg: eCfg{FlagCount: 1, Out: 40}, inputs: []string{"", "11", "22", "1", "0", "11"}},
	{name: "deep-cycle", nodes: [][3]string{{"root", "HALT; INCMP foo *", "root"}, {"foo", "HALT; INCMP root *", "foo"}, {"_catch", "HALT; INCMP _ *", "catch"}},
		cfg: eCfg{FlagCount: 1}, inputs: append([]string{""}, strings.Split(strings.Repeat("1 ", 132), " ")[:132]...)},
	{name: "croak", nodes: [][3]string{{"root", "HALT; INCMP foo 1", "root"}, {"foo", "LOAD aa 10; HALT; INCMP bar 1", "foo"}, {"bar", "CROAK 8 1; HALT; INCMP _ 0", "bar"}, {"_catch", "HALT; INCMP _ *", "catch"}},
		fn: map[string][]eFres{"aa": []eFres{{Content: "v", Set: []uint32{8}}}}, cfg: eCfg{FlagCount: 2}, inputs: []string{"", "1", "1", "0", "1"}},
	{name: "lang-empty", nodes: [][3]string{{"root", "LOAD lang1 0; HALT; INCMP foo 1", "root"}, {"foo", "RELOAD lang1; HALT; INCMP _ 0", "foo"}, {"_catch", "HALT; INCMP _ *", "catch"}},
		tplx: []kv{{"root_nor", "rot"}, {"foo_nor", "fu"}}, fn: map[string][]eFres{"lang1": []eFres{{Content: "nor", Set: []uint32{7}}, {Content: "", Set: []uint32{7}}, {Content: "xx", Set: []uint32{7}}}}, cfg: eCfg{FlagCount: 1}, inputs: []string{"", "1", "0", "1", "0"}},
	{name: "lang-part3-only", nodes: [][3]string{{"root", "LOAD lang1 0; MOUT lbl1 1; HALT; INCMP foo 1", "hello"}, {"foo", "HALT; INCMP _ 0", "foo"}, {"_catch", "HALT; INCMP _ *", "catch"}},
		tplx: []kv{{"root_swh", "habari"}, {"foo_swh", "fuu"}}, menu: []kv{{"lbl1_menu_swh", "rudi"}}, fn: map[string][]eFres{"lang1": []eFres{{Content: "swh", Set: []uint32{7}}}}, cfg: eCfg{FlagCount: 1}, inputs: []string{"", "1", "0"}},
	{name: "browse-leak", nodes: [][3]string{{"root", "MNEXT nx 11; HALT; LOAD sk 0; MAP sk; HALT; INCMP _ 0", "root"}, {"_catch", "HALT; INCMP _ *", "catch"}},
		fn: map[string][]eFres{"sk": st1("one\ntwo\nthree\nfour\nfive\nsix")}, cfg: eCfg{FlagCount: 1, Out: 20}, inputs: []string{"", "x", "y"}},
	{name: "long-and-malformed", nodes: [][3]string{{"root", "HALT; INCMP foo 1", "root"}, {"foo", "HALT; INCMP _ 0", "foo"}, {"_catch", "HALT; INCMP _ *", "catch"}},
		cfg: eCfg{FlagCount: 1}, inputs: []string{"", strings.Repeat("!", 300), "1"}},
	{name: "map-then-reload", nodes: [][3]string{{"root", "LOAD aa 20; HALT; INCMP foo 1", "root"}, {"foo", "MAP aa; RELOAD aa; HALT; INCMP _ 0", "foo {{.aa}}"}, {"_catch", "HALT; INCMP _ *", "catch"}},
		fn: map[string][]eFres{"aa": []eFres{{Content: "call1"}, {Content: "call2"}, {Content: ""}}}, cfg: eCfg{FlagCount: 1}, inputs: []string{"", "1", "0", "1"}},
	{name: "reload-over-capacity", nodes: [][3]string{{"root", "LOAD aa 0; MAP aa; HALT; INCMP end1 1", "root {{.aa}}"}, {"end1", "RELOAD aa; HALT", "end {{.aa}}"}, {"_catch", "HALT; INCMP _ *", "catch"}},
		fn: map[string][]eFres{"aa": []eFres{{Content: "12345678"}, {Content: "this does not fit the cache"}, {Content: "z"}}}, cfg: eCfg{FlagCount: 1, CacheSize: 16}, inputs: []string{"", "1", "", "1", ""}},
	{name: "sink-name-reused", nodes: [][3]string{{"root", "HALT; INCMP foo 1; INCMP bar 2", "root"}, {"foo", "LOAD xx 0; MAP xx; HALT; INCMP _ 0", "foo {{.xx}}"}, {"bar", "LOAD xx 60; MAP xx; HALT; INCMP _ 0", "bar {{.xx}}"}, {"_catch", "HALT; INCMP _ *", "catch"}},
		fn: map[string][]eFres{"xx": st1("alpha\nbeta\ngamma")}, cfg: eCfg{FlagCount: 1, Out: 100}, inputs: []string{"", "1", "0", "2", "0"}},
	{name: "oversize-64k", nodes: [][3]string{{"root", "LOAD aa 10; MAP aa; HALT; INCMP foo 1", "root {{.aa}}"}, {"foo", "HALT; INCMP _ 0", "foo"}, {"_catch", "HALT; INCMP _ *", "catch"}},
		fn: map[string][]eFres{"aa": []eFres{{Content: strings.Repeat("q", 65546)}, {Content: "ok"}}}, cfg: eCfg{FlagCount: 1}, inputs: []string{"", "1"}},
	{name: "refused-first-request", nodes: [][3]string{{"root", "HALT; INCMP foo 1", "root"}, {"foo", "HALT; INCMP _ 0", "foo"}, {"_catch", "HALT; INCMP _ *", "catch"}},
		cfg: eCfg{FlagCount: 1}, inputs: []string{strings.Repeat("a", 300), "", "1", "0"}},
	{name: "reset-on-empty-blank", nodes: [][3]string{{"root", "HALT; INCMP foo 1", "root"}, {"foo", "LOAD aa 10; HALT; INCMP _ 0", "foo"}, {"_catch", "HALT; INCMP _ *", "catch"}},
		fn: map[string][]eFres{"aa": st1("v")}, cfg: eCfg{FlagCount: 1, ResetEmpty: true}, inputs: []string{"", "1", " ", "\t", "0", "1", "", "1"}},
	{name: "stale-readin", nodes: [][3]string{{"root", "HALT; INCMP foo 1", "root"}, {"foo", "HALT; INCMP _ 0", "foo"}, {"end1", "MOUT bye 0", "end"}, {"_catch", "HALT; MOVE end1", "catch"}},
		cfg: eCfg{FlagCount: 1}, inputs: []string{"", "x", "y", "z"}},
	{name: "first-terminate", nodes: [][3]string{{"root", "HALT; INCMP foo 1", "root"}, {"foo", "HALT; INCMP _ 0", "foo"}, {"_catch", "HALT; INCMP _ *", "catch"}},
		cfg: eCfg{FlagCount: 1, First: []eFres{{Content: "hello"}, {Content: "blocked", Set: []uint32{6}}, {Content: "again"}}}, inputs: []string{"", "1", "0", "!bad", "1"}},
	{name: "first-long-exit", nodes: [][3]string{{"root", "HALT; INCMP foo 1", "root"}, {"foo", "HALT; INCMP _ 0", "foo"}, {"_catch", "HALT; INCMP _ *", "catch"}},
		cfg: eCfg{FlagCount: 1, Out: 32, First: []eFres{{Content: strings.Repeat("x", 50), Set: []uint32{6}}, {Content: "short", Set: []uint32{6}}}}, inputs: []string{"", "1", "0"}},
	{name: "multibyte-size", nodes: [][3]string{{"root", "LOAD aa 0; MAP aa; MOUT étiq 1; HALT; INCMP foo 1", "blåbær {{.aa}}"}, {"foo", "HALT; INCMP _ 0", "fóó"}, {"_catch", "HALT; INCMP _ *", "catch"}},
		fn: map[string][]eFres{"aa": st1("ééééééééééééééééé")}, cfg: eCfg{FlagCount: 1, Out: 48}, inputs: []string{"", "1", "0"}},
	{name: "first-refused", nodes: [][3]string{{"root", "HALT; INCMP foo 1", "root"}, {"foo", "HALT; INCMP _ 0", "foo"}, {"_catch", "HALT; INCMP _ *", "catch"}},
		cfg: eCfg{FlagCount: 1, First: []eFres{{Content: "f", Echo: true}}}, inputs: []string{"", "!bad", "1", strings.Repeat("9", 300), "0"}},
	{name: "restart-after-error", nodes: [][3]string{{"root", "LOAD aa 5; MAP aa; HALT; INCMP foo 1", "root {{.aa}}"}, {"foo", "HALT; INCMP _ 0", "foo"}, {"_catch", "HALT; INCMP _ *", "catch"}},
		fn: map[string][]eFres{"aa": []eFres{{Content: "toolong"}, {Content: "ok"}}}, cfg: eCfg{FlagCount: 1}, inputs: []string{"", "1", "1"}},
	{name: "separator-after-halt", nodes: [][3]string{{"root", "MOUT one 1; HALT; MOUT two 2; HALT; INCMP foo 1", "root"}, {"foo", "HALT; INCMP _ 0", "foo"}, {"_catch", "HALT; INCMP _ *", "catch"}},
		cfg: eCfg{FlagCount: 1, Sep: ") "}, inputs: []string{"", "x", "1", "0"}},
	{name: "terminate-blocked", nodes: [][3]string{{"root", "HALT; INCMP foo 1", "root"}, {"foo", "LOAD aa 10; HALT; INCMP _ 0", "foo"}, {"_catch", "HALT; INCMP _ *", "catch"}},
		fn: map[string][]eFres{"aa": []eFres{{Content: "t", Set: []uint32{6, 9}}}}, cfg: eCfg{FlagCount: 2}, inputs: []string{"", "1", "0", "1", ""}},
	{name: "graceful-end", nodes: [][3]string{{"root", "HALT; INCMP foo 1", "root"}, {"foo", "LOAD aa 10; MAP aa; HALT; INCMP end1 1", "foo {{.aa}}"}, {"end1", "LOAD bb 0; HALT", "the end"}, {"_catch", "HALT; INCMP _ *", "catch"}},
		fn: map[string][]eFres{"aa": []eFres{{Content: "v", Set: []uint32{8}}}, "bb": st1(" bye")}, cfg: eCfg{FlagCount: 2, CacheSize: 100}, inputs: []string{"", "1", "1", "", "1", "1"}},
	{name: "anon-node", nodes: [][3]string{{"root", "HALT; INCMP _ 0; INCMP end1 1", "root"}, {"", "LOAD aa 0; HALT; INCMP root *", "anon"}, {"end1", "LOAD bb 0; HALT", "the end"}, {"_catch", "HALT; INCMP _ *", "catch"}},
		fn: map[string][]eFres{"aa": st1("v"), "bb": st1(" bye")}, cfg: eCfg{FlagCount: 1, CacheSize: 100}, inputs: []string{"", "0", "x", "1", "", "0"}},
	{name: "wide-flags", nodes: [][3]string{{"root", "LOAD aa 0; CATCH hi 264 1; HALT; INCMP lo 1", "root"}, {"hi", "HALT; INCMP _ 0", "hi"}, {"lo", "LOAD bb 0; CATCH hi 8 1; CATCH hi 300 1; HALT; INCMP _ 0", "lo"}, {"_catch", "HALT; INCMP _ *", "catch"}},
		fn: map[string][]eFres{"aa": []eFres{{Content: "v", Set: []uint32{264}}, {Content: "w", Reset: []uint32{264}}}, "bb": []eFres{{Content: "x", Set: []uint32{300}}}}, cfg: eCfg{FlagCount: 300}, inputs: []string{"", "0", "1", "0", "0"}},
	{name: "long-in-bytes-not-in-runes", nodes: [][3]string{{"root", "HALT; INCMP foo *", "root"}, {"foo", "LOAD aa 0; MAP aa; HALT; INCMP _ 0", "foo {{.aa}}"}, {"_catch", "HALT; INCMP _ *", "catch"}},
		fn: map[string][]eFres{"aa": []eFres{{Content: "got:", Echo: true}}}, cfg: eCfg{FlagCount: 1}, inputs: []string{"", "a" + strings.Repeat("é", 150), "1", "0"}},
	{name: "separator-sized-after-halt", nodes: [][3]string{{"root", "MOUT one 1; HALT; MOUT a_rather_long_label_two 2; MOUT a_rather_long_label_three 3; HALT; INCMP foo 1", "root"}, {"foo", "HALT; INCMP _ 0", "foo"}, {"_catch", "HALT; INCMP _ *", "catch"}},
		cfg: eCfg{FlagCount: 1, Sep: ") ", Out: 40}, inputs: []string{"", "x", "1", "0"}},
	{name: "browse-next-only", nodes: [][3]string{{"root", "LOAD aa 0; MAP aa; MNEXT nxt 11; HALT; INCMP > 11; INCMP < 22", "r {{.aa}}"}, {"_catch", "MOUT back 0; HALT; INCMP _ 0", "catch"}},
		fn: map[string][]eFres{"aa": st1("one\ntwo\nthree\nfour\nfive\nsix")}, cfg: eCfg{FlagCount: 1, Out: 24}, inputs: []string{"", "11", "11", "22", "11"}},
	{name: "browse-prev-first", nodes: [][3]string{{"root", "LOAD aa 0; MAP aa; MPREV prv 22; MNEXT nxt 11; HALT; INCMP > 11; INCMP < 22", "r {{.aa}}"}, {"_catch", "MOUT back 0; HALT; INCMP _ 0", "catch"}},
		fn: map[string][]eFres{"aa": st1("one\ntwo\nthree\nfour\nfive\nsix")}, cfg: eCfg{FlagCount: 1, Out: 30}, inputs: []string{"", "11", "11", "22", "22"}},
	{name: "reset-on-empty-at-entry-page", nodes: [][3]string{{"root", "LOAD aa 0; MAP aa; MNEXT nxt 11; MPREV prv 22; HALT; INCMP > 11; INCMP < 22; INCMP foo *", "r {{.aa}}"}, {"foo", "HALT; INCMP _ 0", "foo"}, {"_catch", "MOUT back 0; HALT; INCMP _ 0", "catch"}},
		fn: map[string][]eFres{"aa": st1("one\ntwo\nthree\nfour\nfive\nsix")}, cfg: eCfg{FlagCount: 1, Out: 30, ResetEmpty: true}, inputs: []string{"", "11", "11", "", "11", " ", "x"}},
	{name: "reserved-tamper", nodes: [][3]string{{"root", "LOAD aa 0; HALT; INCMP foo 1; INCMP bar 2", "root"}, {"foo", "LOAD bb 0; MAP bb; HALT; INCMP _ 0", "foo {{.bb}}"}, {"bar", "LOAD cc 0; HALT; INCMP _ 0", "bar"}, {"_catch", "HALT; INCMP _ *", "catch"}},
		fn:  map[string][]eFres{"aa": []eFres{{Content: "a", Set: []uint32{0, 1, 2, 3, 4, 5, 8}}}, "bb": []eFres{{Content: "b", Reset: []uint32{0, 1, 2, 3, 4, 5}}}, "cc": []eFres{{Content: "c", Set: []uint32{5, 3}, Reset: []uint32{4, 1, 8}}}},
		cfg: eCfg{FlagCount: 2}, inputs: []string{"", "1", "0", "2", "x", "0"}},
	{name: "percent-input", nodes: [][3]string{{"root", "HALT; INCMP foo 1", "root"}, {"foo", "HALT; INCMP _ 0", "foo"}, {"_catch", "MOUT back 0; HALT; INCMP _ 0", "catch"}},
		cfg: eCfg{FlagCount: 1}, inputs: []string{"", "50%", "0", "100%d", "0", "7%%"}},
	{name: "two-sinks", nodes: [][3]string{{"root", "HALT; INCMP foo 1; INCMP bar 2", "root"}, {"foo", "LOAD aa 0; MAP aa; MNEXT nxt 11; MPREV prv 22; HALT; INCMP > 11; INCMP < 22; INCMP _ 0", "foo {{.aa}}"}, {"bar", "LOAD bb 0; MAP bb; HALT; INCMP _ 0", "bar {{.bb}}"}, {"_catch", "HALT; INCMP _ *", "catch"}},
		fn: map[string][]eFres{"aa": st1("apple\npear\nplum\nfig\nlime"), "bb": st1("oak\nelm")}, cfg: eCfg{FlagCount: 1, Out: 32}, inputs: []string{"", "1", "11", "0", "2", "0", "1"}},
	{name: "croak-while-reading", nodes: [][3]string{{"root", "LOAD aa 0; HALT; INCMP one 1; CROAK 8 1; INCMP two 2", "root"}, {"one", "HALT; INCMP _ 0", "one"}, {"two", "HALT; INCMP _ 0", "two"}, {"_catch", "MOUT back 0; HALT; INCMP _ 0", "catch"}},
		fn: map[string][]eFres{"aa": []eFres{{Content: "v", Set: []uint32{8}}}}, cfg: eCfg{FlagCount: 2}, inputs: []string{"", "7", "0", "2"}},
	{name: "exit-exact-fit", nodes: [][3]string{{"root", "HALT; INCMP end1 1; INCMP end2 2; INCMP end3 3", "root"}, {"end1", "LOAD bye1 0; HALT", "bye"}, {"end2", "LOAD bye2 0; HALT", "bye"}, {"end3", "LOAD bye3 0; HALT", "bye"}, {"_catch", "HALT; INCMP _ *", "catch"}},
		fn: map[string][]eFres{"bye1": st1(strings.Repeat("b", 26)), "bye2": st1(strings.Repeat("b", 27)), "bye3": st1(strings.Repeat("b", 28))}, cfg: eCfg{FlagCount: 1, Out: 30}, inputs: []string{"", "2", "", "1", "", "3"}},
	{name: "output-size-65536", nodes: [][3]string{{"root", "HALT; INCMP foo 1; INCMP bar 2; INCMP baz 3", "root"}, {"foo", "HALT; INCMP _ 0", strings.Repeat("x", 65600)}, {"bar", "LOAD big 0; MAP big; HALT; INCMP _ 0", "b {{.big}}"}, {"baz", "HALT; INCMP _ 0", strings.Repeat("y", 65536)}, {"_catch", "HALT; INCMP _ *", "catch"}},
		fn: map[string][]eFres{"big": st1(strings.Repeat("z", 65600))}, cfg: eCfg{FlagCount: 1, Out: 65536}, inputs: []string{"", "1", "0", "2", "0", "3", "0"}, heavy: true},
	{name: "output-size-above-65536", nodes: [][3]string{{"root", "HALT; INCMP foo 1; INCMP bar 2", "root"}, {"foo", "HALT; INCMP _ 0", strings.Repeat("x", 60)}, {"bar", "LOAD big 0; MAP big; MNEXT nxt 11; MPREV prv 22; HALT; INCMP > 11; INCMP < 22; INCMP _ 0", "b {{.big}}"}, {"_catch", "HALT; INCMP _ *", "catch"}},
		fn: map[string][]eFres{"big": st1(strings.Repeat("one\ntwo\nthree\n", 8))}, cfg: eCfg{FlagCount: 1, Out: 65536 + 40}, inputs: []string{"", "1", "0", "2", "11", "0"}},
	// K-C07-utf8: a cache value that is not valid UTF-8 can be saved but not loaded again
	{name: "non-utf8-echo", nodes: [][3]string{{"root", "HALT; INCMP foo *", "root"}, {"foo", "LOAD aa 0; HALT; INCMP bar *", "foo"}, {"bar", "HALT; INCMP _ *", "bar"}, {"_catch", "HALT; INCMP _ *", "catch"}},
		fn: map[string][]eFres{"aa": []eFres{{Content: "got:", Echo: true}}}, cfg: eCfg{FlagCount: 1}, inputs: []string{"", "1\xff", "x", "y", "z"}, only: "C07"},
	{name: "non-utf8-content", nodes: [][3]string{{"root", "HALT; INCMP foo *", "root"}, {"foo", "LOAD aa 0; HALT; INCMP bar *", "foo"}, {"bar", "HALT; INCMP _ *", "bar"}, {"_catch", "HALT; INCMP _ *", "catch"}},
		fn: map[string][]eFres{"aa": st1("caf\xe9")}, cfg: eCfg{FlagCount: 1}, inputs: []string{"", "1", "x", "y"}, only: "C07"},
	{name: "utf8-boundaries", nodes: [][3]string{{"root", "HALT; INCMP foo *", "root"}, {"foo", "LOAD aa 0; HALT; INCMP bar *", "foo"}, {"bar", "HALT; INCMP _ *", "bar"}, {"_catch", "HALT; INCMP _ *", "catch"}},
		fn: map[string][]eFres{"aa": st1("\u00e9\u20ac\U0001F600\ud7ff\ue000\U0010FFFF")}, cfg: eCfg{FlagCount: 1}, inputs: []string{"", "1", "x", "y"}, only: "C07"},
	// a gracefully ended session, then the empty input of an engine configured with ResetOnEmptyInput (and a first
	// request that is empty, and an empty input at the entry node with symbols loaded there)
	{name: "reset-on-empty-after-end", nodes: [][3]string{{"root", "LOAD aa 10; MAP aa; HALT; INCMP foo 1; INCMP end1 2", "root {{.aa}}"}, {"foo", "LOAD bb 10; MAP bb; HALT; INCMP _ 0", "foo {{.bb}}"}, {"end1", "LOAD cc 0; HALT", "the end"}, {"_catch", "HALT; INCMP _ *", "catch"}},
		fn: map[string][]eFres{"aa": []eFres{{Content: "a1"}, {Content: "a2"}, {Content: "a3"}, {Content: "a4"}}, "bb": st1("b"), "cc": st1("bye")}, cfg: eCfg{FlagCount: 1, ResetEmpty: true}, inputs: []string{"", "", "1", "", "2", "", "", "1", "0", "2", "x", ""}},
	// a node with two MOUT..HALT sections, and one entered by CATCH after a HALT: the menu is filled again after a
	// Reset without a new page
	{name: "menu-refilled-after-halt", nodes: [][3]string{{"root", "MOUT first 1; HALT; LOAD flag8 0; MOUT second 2; MOUT back 0; HALT; CATCH denied 8 1; INCMP _ 0; INCMP foo 2", "root"}, {"denied", "MOUT back 0; HALT; INCMP _ 0", "denied"}, {"foo", "MOUT back 0; HALT; INCMP _ 0", "foo"}, {"_catch", "MOUT back 0; HALT; INCMP _ 0", "catch"}},
		menu: []kv{{"first_menu", "First"}, {"first_menu_nor", "Forste"}, {"second_menu", "Second"}, {"second_menu_nor", "Andre"}, {"back_menu", "Back"}, {"back_menu_nor", "Tilbake"}},
		fn: map[string][]eFres{"flag8": []eFres{{Content: "x"}, {Content: "x", Set: []uint32{8}}}}, cfg: eCfg{FlagCount: 1, Lang: "nor"}, inputs: []string{"", "1", "2", "0", "1", "7", "0", "0"}},
	// a session blocked by CROAK, then refused inputs, then an accepted one
	{name: "blocked-then-refused", nodes: [][3]string{{"root", "LOAD aa 0; HALT; CROAK 8 1; INCMP foo 1", "root"}, {"foo", "HALT; INCMP _ 0", "foo"}, {"_catch", "HALT; INCMP _ *", "catch"}},
		fn: map[string][]eFres{"aa": []eFres{{Content: "v", Set: []uint32{8}}}}, cfg: eCfg{FlagCount: 1}, inputs: []string{"", "1", "!bad", " ", "1", "!bad", "1"}},
	{name: "percent-in-menu", nodes: [][3]string{{"root", "MOUT sale 1; MOUT salt 2; MOUT plain 3; MSINK; MNEXT nxt 11; MPREV prv 22; HALT; INCMP > 11; INCMP < 22; INCMP foo *", "root"}, {"foo", "MOUT sale 0; HALT; INCMP _ 0", "foo"}, {"_catch", "HALT; INCMP _ *", "catch"}},
		menu: []kv{{"sale_menu", "20% sale"}, {"salt_menu", "salt %s and %d"}}, cfg: eCfg{FlagCount: 1, Out: 36}, inputs: []string{"", "11", "22", "x", "0"}},
	{name: "reload-after-next", nodes: [][3]string{{"root", "LOAD sk 0; MAP sk; LOAD cnt 10; RELOAD cnt; MAP cnt; MNEXT nxt 11; MPREV prv 22; HALT; INCMP > 11; INCMP < 22", "r {{.cnt}} {{.sk}}"}, {"_catch", "MOUT back 0; HALT; INCMP _ 0", "catch"}},
		fn: map[string][]eFres{"sk": st1("one\ntwo\nthree\nfour\nfive\nsix"), "cnt": []eFres{{Content: "c1"}, {Content: "c2"}, {Content: "c3"}, {Content: "c4"}, {Content: "c5"}}}, cfg: eCfg{FlagCount: 1, Out: 32}, inputs: []string{"", "11", "11", "22", "x"}},
	{name: "lang-long-code", nodes: [][3]string{{"root", "LOAD lang1 0; HALT; INCMP foo 1", "root"}, {"foo", "RELOAD lang1; HALT; INCMP _ 0", "foo"}, {"_catch", "HALT; INCMP _ *", "catch"}},
		tplx: []kv{{"root_nor", "rot"}, {"foo_nor", "fu"}, {"root_eng", "root-en"}, {"foo_eng", "foo-en"}}, fn: map[string][]eFres{"lang1": []eFres{{Content: "nor", Set: []uint32{7}}, {Content: "english", Set: []uint32{7}}, {Content: "norsk", Set: []uint32{7}}}}, cfg: eCfg{FlagCount: 1}, inputs: []string{"", "1", "0", "1", "0"}},
	{name: "selector-255", nodes: [][3]string{{"root", "LOAD sk 0; MAP sk; MNEXT nxt " + strings.Repeat("7", 255) + "; MPREV prv 22; HALT; INCMP > " + strings.Repeat("7", 255) + "; INCMP < 22", "r {{.sk}}"}, {"_catch", "MOUT back 0; HALT; INCMP _ 0", "catch"}},
		fn: map[string][]eFres{"sk": st1(strings.Repeat("row\n", 60) + "end")}, cfg: eCfg{FlagCount: 1, Out: 300}, inputs: []string{"", strings.Repeat("7", 255), "22", strings.Repeat("7", 254)}},
	{name: "caller-context-language", nodes: [][3]string{{"root", "MOUT lbl1 1; HALT; INCMP foo 1", "root"}, {"foo", "LOAD aa 0; MAP aa; HALT; INCMP _ 0", "foo {{.aa}}"}, {"end1", "HALT", "x"}, {"_catch", "HALT; INCMP _ *", "catch"}},
		tplx: []kv{{"root_nor", "rot"}, {"foo_nor", "fu {{.aa}}"}, {"root_eng", "root-en"}, {"foo_eng", "foo-en {{.aa}}"}}, menu: []kv{{"lbl1_menu_nor", "til fu"}, {"lbl1_menu_eng", "to foo"}},
		fn: map[string][]eFres{"aa": st1("v")}, cfg: eCfg{FlagCount: 1, Lang: "nor"}, inputs: []string{"", "1", "0"}},
	{name: "abnormal-end", nodes: [][3]string{{"root", "HALT; INCMP foo 1", "root"}, {"foo", "LOAD aa 10", "foo"}, {"_catch", "HALT; INCMP _ *", "catch"}},
		fn: map[string][]eFres{"aa": st1("v")}, cfg: eCfg{FlagCount: 2}, inputs: []string{"", "1", "", "1"}},
	{name: "browse-past-end", nodes: [][3]string{{"root", "LOAD aa 0; MAP aa; MNEXT nxt 11; MPREV prv 22; HALT; INCMP > 11; INCMP < 22", "r {{.aa}}"}, {"_catch", "MOUT back 0; HALT; INCMP _ 0", "catch"}},
		fn: map[string][]eFres{"aa": st1("one\ntwo\nthree\nfour")}, cfg: eCfg{FlagCount: 1, Out: 28}, inputs: []string{"", "22", "11", "11", "11", "11", "0"}},
	{name: "menu-sink", nodes: [][3]string{{"root", "MOUT aaa 1; MOUT bbb 2; MOUT ccc 3; MOUT ddd 4; MOUT eee 5; MSINK; MNEXT nxt 11; MPREV prv 22; HALT; INCMP > 11; INCMP < 22; INCMP foo *", "root"}, {"foo", "HALT; INCMP _ 0", "foo"}, {"_catch", "HALT; INCMP _ *", "catch"}},
		cfg: eCfg{FlagCount: 1, Out: 30}, inputs: []string{"", "11", "11", "22", "11", "11", "11"}},
}

func (cc corpusCase) build() (genOut, [][]byte) {
	a := &eApp{Fn: map[string][]eFres{}}
	var desc []string
	for _, n := range cc.nodes {
		a.Code = append(a.Code, kv{n[0], string(asmLines(n[1]))})
		a.Tpl = append(a.Tpl, kv{n[0], n[2]})
		desc = append(desc, n[0]+": "+n[1])
	}
	a.Tpl = append(a.Tpl, cc.tplx...)
	a.Menu = cc.menu
	names := []string{}
	for k := range cc.fn {
		names = append(names, k)
	}
	sort.Strings(names)
	for _, k := range names {
		fs := cc.fn[k]
		for i := range fs {
			fs[i].Content = strings.ReplaceAll(fs[i].Content, "\\n", "\n")
		}
		a.Funcs = append(a.Funcs, k)
		a.Fn[k] = fs
	}
	cfg := cc.cfg
	var in [][]byte
	for _, s := range cc.inputs {
		in = append(in, []byte(s))
	}
	return genOut{app: a, cfg: &cfg, desc: desc}, in
}

// ---- the repository's example applications ------------------------------------------------

func repoDir() string {
	if d := os.Getenv("VERIF_REPO"); d != "" {
		return d
	}
	return "/repo"
}

func disasm(code []byte) string {
	b := bytes.NewBuffer(nil)
	ph := vm.NewParseHandler().WithDefaultHandlers().WithWriter(b)
	ph.ParseAll(code)
	return b.String()
}

// exampleApps assembles every examples/<dir>/*.vis with the REAL assembler; templates, translations
// and menu labels are the files next to them; every LOAD/RELOAD symbol gets a scripted function
// (the examples' own Go functions are not run).
func exampleApps() []genOut {
	var res []genOut
	base := path.Join(repoDir(), "examples")
	dirs, _ := os.ReadDir(base)
	for _, d := range dirs {
		if !d.IsDir() {
			continue
		}
		files, _ := os.ReadDir(path.Join(base, d.Name()))
		a := &eApp{Fn: map[string][]eFres{}}
		var desc, sels []string
		ok := true
		seenSym := map[string]bool{}
		for _, f := range files {
			n := f.Name()
			if !strings.HasSuffix(n, ".vis") {
				continue
			}
			src, err := os.ReadFile(path.Join(base, d.Name(), n))
			if err != nil {
				ok = false
				break
			}
			w := bytes.NewBuffer(nil)
			var perr error
			panicked, _ := hx.Recover(func() { _, perr = asm.Parse(string(src), w) })
			if panicked || perr != nil {
				ok = false
				break
			}
			node := strings.TrimSuffix(n, ".vis")
			a.Code = append(a.Code, kv{node, w.String()})
			listing := disasm(w.Bytes())
			desc = append(desc, node+": "+strings.ReplaceAll(strings.TrimSpace(listing), "\n", "; "))
			for _, l := range strings.Split(listing, "\n") {
				fl := strings.Fields(l)
				if len(fl) >= 2 && (fl[0] == "LOAD" || fl[0] == "RELOAD") && !seenSym[fl[1]] {
					seenSym[fl[1]] = true
					a.Funcs = append(a.Funcs, fl[1])
					a.Fn[fl[1]] = []eFres{{Content: "v-" + fl[1]}, {Content: "w"}}
				}
				if len(fl) >= 3 && fl[0] == "INCMP" {
					sels = append(sels, fl[2])
				}
			}
		}
		if !ok || len(a.Code) == 0 {
			continue
		}
		for _, f := range files {
			n := f.Name()
			if strings.Contains(n, ".") || n == "Makefile" || f.IsDir() {
				continue
			}
			b, err := os.ReadFile(path.Join(base, d.Name(), n))
			if err != nil || bytes.Contains(b, []byte("{{")) && !bytes.Contains(b, []byte("{{.")) {
				continue
			}
			if strings.Contains(n, "_menu") {
				a.Menu = append(a.Menu, kv{n, strings.TrimRight(string(b), "\n")})
			} else {
				a.Tpl = append(a.Tpl, kv{n, string(b)})
			}
		}
		if len(sels) == 0 {
			sels = []string{"0", "1"}
		}
		res = append(res, genOut{app: a, cfg: &eCfg{FlagCount: 16, Out: 0}, sels: sels, desc: append([]string{"example " + d.Name()}, desc...)})
	}
	return res
}

// ---- driver ----------------------------------------------------------------------------

func init() { drivers["engine"] = runEngine }

func engineCase(idx int, kind string, g genOut, inputs [][]byte) (hx.Case, []eStep, error) {
	long, err := runEngineCase(g.app, g.cfg, false, inputs)
	if err != nil {
		return hx.Case{}, nil, err
	}
	pers, err := runEngineCase(g.app, g.cfg, true, inputs)
	if err != nil {
		return hx.Case{}, nil, err
	}
	tl := func(steps []eStep) string {
		st := make([]string, len(steps))
		for i, s := range steps {
			st[i] = s.term
		}
		return hx.List(st)
	}
	term := fmt.Sprintf("(mkEcase %s %s %s %s)", g.app.term(), g.cfg.term(), tl(long), tl(pers))
	return hx.Case{Term: term, Kind: kind, Trivial: len(pers) < 2,
		Desc: map[string]interface{}{"nodes": g.desc, "cfg": g.cfg, "app": g.app, "long": long, "persisted": pers}}, append(long, pers...), nil
}

// C17: every history is served a second time with the refused inputs removed
func c17Case(idx int, kind string, g genOut, inputs [][]byte) (hx.Case, []eStep, error) {
	c1, st1, err := engineCase(idx, kind, g, inputs)
	if err != nil {
		return c1, nil, err
	}
	var filtered [][]byte
	for _, in := range inputs {
		if !refusedInput(in) {
			filtered = append(filtered, in)
		}
	}
	c2, _, err := engineCase(idx, kind, g, filtered)
	if err != nil {
		return c1, nil, err
	}
	c1.Term = fmt.Sprintf("(mkE17 %s %s)", c1.Term, c2.Term)
	c1.Desc.(map[string]interface{})["filtered"] = c2.Desc
	return c1, st1, nil
}

// C06: every history is served a second time by the application whose functions do not ask for
// reserved flags (indices up to FLAG_RESERVED removed from every FlagSet / FlagReset)
func stripReserved(fs []eFres) []eFres {
	keep := func(l []uint32) []uint32 {
		var r []uint32
		for _, f := range l {
			if f > state.FLAG_RESERVED {
				r = append(r, f)
			}
		}
		return r
	}
	out := make([]eFres, len(fs))
	for i, f := range fs {
		f.Set, f.Reset = keep(f.Set), keep(f.Reset)
		out[i] = f
	}
	return out
}

func c06Case(idx int, kind string, g genOut, inputs [][]byte) (hx.Case, []eStep, error) {
	c1, st1, err := engineCase(idx, kind, g, inputs)
	if err != nil {
		return c1, nil, err
	}
	a2 := *g.app
	a2.Fn = map[string][]eFres{}
	for k, v := range g.app.Fn {
		a2.Fn[k] = stripReserved(v)
	}
	cfg2 := *g.cfg
	if cfg2.First != nil {
		cfg2.First = stripReserved(cfg2.First)
	}
	g2 := g
	g2.app, g2.cfg = &a2, &cfg2
	c2, _, err := engineCase(idx, kind, g2, inputs)
	if err != nil {
		return c1, nil, err
	}
	c1.Term = fmt.Sprintf("(mkE17 %s %s)", c1.Term, c2.Term)
	c1.Desc.(map[string]interface{})["without_reserved_requests"] = c2.Desc
	return c1, st1, nil
}

func runEngine(o opts) error {
	mkCase := engineCase
	w := &hx.Writer{Dir: o.out, Prop: o.prop, Imports: "Bytes Errors Consts Codec CacheModel StateModel NavModel RenderModel VmModel EngineModel CorrBase EngineCorr EngineMon",
		CaseType: "ecase", Mism: "engine_mismatches", Viol: "engine_violations_" + strings.ToLower(o.prop), PerShard: 20}
	if o.prop == "C17" {
		mkCase = c17Case
		w.CaseType, w.Mism, w.Viol, w.PerShard = "ecase17", "engine_mismatches17", "engine_violations_c17x", 12
	}
	if o.prop == "C06" {
		mkCase = c06Case
		w.CaseType, w.Mism, w.Viol, w.PerShard = "ecase17", "engine_mismatches17", "engine_violations_c06x", 12
	}
	for i, cc := range engineCorpus {
		if cc.only != "" && cc.only != o.prop {
			continue
		}
		if cc.heavy && !(o.prop == "C01" && (o.tier == "thorough" || os.Getenv("VERIF_WIDEN") == "1")) {
			continue
		}
		g, inputs := cc.build()
		c, _, err := mkCase(i, "corpus:"+cc.name, g, inputs)
		if err != nil {
			return err
		}
		w.Add(c)
	}
	for i, g := range exampleApps() {
		for k := 0; k < 2; k++ {
			r := hx.Rng(o.seed, "example", i*2+k)
			cfg := *g.cfg
			if k == 1 {
				cfg.Out = uint32(pick(r, []int{80, 160, 200}))
			}
			gg := g
			gg.cfg = &cfg
			c, _, err := mkCase(i, "example", gg, genHistory(r, g.sels, 4+r.Intn(5)))
			if err != nil {
				return err
			}
			w.Add(c)
		}
	}
	for i := 0; i < o.n; i++ {
		r := hx.Rng(o.seed, "engine", i)
		g := genApp(r)
		inputs := genHistory(r, g.sels, 3+r.Intn(6))
		if o.prop == "C07" && i%12 == 5 && len(inputs) > 2 {
			// a client byte string that is not valid UTF-8 (K-C07-utf8 when a function echoes it into the cache)
			k := 1 + r.Intn(len(inputs)-1)
			inputs[k] = append(append([]byte{}, inputs[k]...), [][]byte{{0xff}, {0xc3}, {0xe2, 0x82}, {0xc0, 0xaf}, {0xed, 0xa0, 0x80}, {0xf4, 0x90, 0x80, 0x80}}[r.Intn(6)]...)
			if len(inputs[k]) > 0 && !((inputs[k][0] >= '0' && inputs[k][0] <= '9') || (inputs[k][0] >= 'a' && inputs[k][0] <= 'z')) {
				inputs[k] = append([]byte("1"), inputs[k]...)
			}
		}
		c, steps, err := mkCase(i, "generated", g, inputs)
		if err != nil {
			return err
		}
		w.Add(c)
		for _, s := range steps {
			w.Count("exec:" + s.Exec)
			w.Count("flush:" + s.Flush)
			if s.Panic != "" {
				w.Count("panic")
			}
		}
	}
	return w.Flush()
}
