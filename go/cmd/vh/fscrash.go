//go:build verif

package main

// fscrash: C12 — saving session state to the filesystem store is crash-atomic.
//
//  (1) trace cases: the real fsDb.Put is run in a child process (driver "fscrash_put1" of this
//      same binary) under strace; the syscalls that touch the store directory are abstracted
//      into the model's fsop alphabet and emitted; Coq checks they are exactly put_ops.
//  (2) crash cases: for (previous,new) pairs of REAL persisted session records (produced by
//      running a small engine app with a persister over fsDb; one stream has previous and new
//      record of exactly equal length) the real Put of the new record onto the store is traced
//      the same way, and every crash state of the OBSERVED operation list (partial-write lengths
//      sampled, for in-place writes also around the first and last changed byte) is materialised
//      in a scratch directory; the real Persister.Load, the real Dump and a fresh engine's first
//      Exec+Flush+Finish are run on it.  Coq checks observed list = put_ops (mismatch otherwise)
//      and judges every observed crash state with the C12 monitor (violation).
//  (2b) the same pairs with the child really killed (SIGKILL injected on entry to a system call).
//  (3) self-test: the same for the OLD operation list (truncate, write, close); the monitor
//      must flag those.  They go into the prelude (selftest), not into cases.

import (
	"bufio"
	"bytes"
	"context"
	"fmt"
	"math/rand"
	"os"
	"os/exec"
	"path/filepath"
	"regexp"
	"sort"
	"strconv"
	"strings"

	"git.defalsify.org/vise.git/asm"
	"git.defalsify.org/vise.git/cache"
	"git.defalsify.org/vise.git/db"
	fsdb "git.defalsify.org/vise.git/db/fs"
	memdb "git.defalsify.org/vise.git/db/mem"
	"git.defalsify.org/vise.git/engine"
	"git.defalsify.org/vise.git/persist"
	"git.defalsify.org/vise.git/resource"
	"git.defalsify.org/vise.git/state"
	"verif/harness/internal/hx"
)

func init() {
	drivers["fscrash"] = runFsCrash
	drivers["fscrash_put1"] = runFsCrashPut1
}

const (
	fcMarkBegin = "/fscrash-marker-begin"
	fcMarkEnd   = "/fscrash-marker-end"
)

// ---- helper mode: exactly one Put, bracketed by two recognisable unlink calls -------------

func runFsCrashPut1(o opts) error {
	dir := os.Getenv("FSCRASH_DIR")
	typ, _ := strconv.Atoi(os.Getenv("FSCRASH_TYPE"))
	val, err := os.ReadFile(os.Getenv("FSCRASH_VALFILE"))
	if err != nil {
		return err
	}
	ctx := context.Background()
	store := fsdb.NewFsDb()
	if err := store.Connect(ctx, dir); err != nil {
		return err
	}
	store.SetPrefix(uint8(typ))
	store.SetSession(os.Getenv("FSCRASH_SESSION"))
	var perr error
	if os.Getenv("FSCRASH_OLDSTYLE") != "" {
		// negative control for the trace check: what Put did before commit 23e710e
		ps, err := store.VerifPaths(ctx, []byte(os.Getenv("FSCRASH_KEY")))
		if err != nil {
			return err
		}
		os.Remove(fcMarkBegin)
		perr = os.WriteFile(ps[2], val, 0600)
		os.Remove(fcMarkEnd)
	} else {
		os.Remove(fcMarkBegin)
		perr = store.Put(ctx, []byte(os.Getenv("FSCRASH_KEY")), val)
		os.Remove(fcMarkEnd)
	}
	if perr != nil {
		fmt.Println("PUTERR", perr)
	} else {
		fmt.Println("PUTOK")
	}
	return nil
}

// ---- strace abstraction --------------------------------------------------------------------

type fcEv struct {
	op   string // CreateTemp Write Chmod Close Rename Remove OpenTrunc | OpenWrite OpenCreate WriteAt
	a, b string // names relative to the store directory (absolute when outside)
	data []byte
	off  int64 // WriteAt only
	ok   bool
}

func (e fcEv) term() string {
	var t string
	switch e.op {
	case "Write":
		t = fmt.Sprintf("Write %s %s", hx.S(e.a), hx.B(e.data))
	case "WriteAt":
		t = fmt.Sprintf("WriteAt %s %d %s", hx.S(e.a), e.off, hx.B(e.data))
	case "Rename":
		t = fmt.Sprintf("Rename %s %s", hx.S(e.a), hx.S(e.b))
	default:
		t = fmt.Sprintf("%s %s", e.op, hx.S(e.a))
	}
	return fmt.Sprintf("(%s, %s)", t, hx.Bool(e.ok))
}

// eterm prints the event as an eop (payloads by reference into the case's blob table).
func (e fcEv) eterm(blobs [][]byte, newi int) string {
	var t string
	switch e.op {
	case "Write":
		t = fmt.Sprintf("EWrite %s (%s)", hx.S(e.a), fcCref(blobs, newi, e.data))
	case "WriteAt":
		t = fmt.Sprintf("EWriteAt %s %d (%s)", hx.S(e.a), e.off, fcCref(blobs, newi, e.data))
	case "Rename":
		t = fmt.Sprintf("EOp (Rename %s %s)", hx.S(e.a), hx.S(e.b))
	default:
		t = fmt.Sprintf("EOp (%s %s)", e.op, hx.S(e.a))
	}
	return fmt.Sprintf("(%s, %s)", t, hx.Bool(e.ok))
}

func (e fcEv) toOp() fcOp { return fcOp{kind: e.op, a: e.a, b: e.b, data: e.data, off: e.off} }

// fcOkOps returns the operations that took effect (failed system calls have none).
func fcOkOps(evs []fcEv) []fcOp {
	ops := []fcOp{}
	for _, e := range evs {
		if e.ok {
			ops = append(ops, e.toOp())
		}
	}
	return ops
}

var (
	fcLineRe    = regexp.MustCompile(`^(\d+)\s+(.*)$`)
	fcCallRe    = regexp.MustCompile(`^(\w+)\((.*)\)\s+=\s+(-?\d+|\?)`)
	fcResumedRe = regexp.MustCompile(`^<\.\.\. \w+ resumed>(.*)$`)
	fcStrRe     = regexp.MustCompile(`"((?:\\x[0-9a-f]{2})*)"`)
	fcPtrRe     = regexp.MustCompile(`@?0x[0-9a-f]{6,}`)
)

func fcUnhex(s string) []byte {
	out := make([]byte, 0, len(s)/4)
	for i := 0; i+3 < len(s); i += 4 {
		v, _ := strconv.ParseUint(s[i+2:i+4], 16, 8)
		out = append(out, byte(v))
	}
	return out
}

// rel returns the name of p relative to dir and whether p lies directly or deeper inside dir.
func fcRel(dir, p string) (string, bool) {
	if strings.HasPrefix(p, dir+"/") {
		return p[len(dir)+1:], true
	}
	return p, false
}

type fcFd struct {
	name   string
	append bool  // writes append: O_APPEND, or sequential writes to a file that was empty when opened
	off    int64 // next write offset otherwise
}

// fcAbstract turns a strace log into the events that touch files inside dir, between the markers.
// Opens are classified by their flags (O_CREAT|O_EXCL: CreateTemp; O_TRUNC: OpenTrunc; otherwise
// OpenCreate / OpenWrite); a write on a descriptor that neither appends nor started on an empty
// file becomes WriteAt with the offset tracked per descriptor.
func fcAbstract(logfile, dir string, allowNoEnd bool) ([]fcEv, error) {
	f, err := os.Open(logfile)
	if err != nil {
		return nil, err
	}
	defer f.Close()
	sc := bufio.NewScanner(f)
	sc.Buffer(make([]byte, 1<<20), 1<<26)
	pending := map[string]string{}
	fds := map[int]*fcFd{}  // files inside dir opened for writing
	rofds := map[int]bool{} // fds of files inside dir opened read-only
	var evs []fcEv
	active := false
	sawEnd := false
	for sc.Scan() {
		m := fcLineRe.FindStringSubmatch(sc.Text())
		if m == nil {
			continue
		}
		pid, rest := m[1], m[2]
		if strings.HasSuffix(rest, "<unfinished ...>") {
			pending[pid] = strings.TrimSuffix(rest, "<unfinished ...>")
			continue
		}
		if r := fcResumedRe.FindStringSubmatch(rest); r != nil {
			rest = pending[pid] + r[1]
			delete(pending, pid)
		}
		c := fcCallRe.FindStringSubmatch(rest)
		if c == nil {
			continue
		}
		name, args := c[1], c[2]
		ret, _ := strconv.Atoi(c[3])
		ok := ret >= 0 && c[3] != "?"
		strs := fcStrRe.FindAllStringSubmatch(args, -1)
		str := func(i int) string {
			if i < len(strs) {
				return string(fcUnhex(strs[i][1]))
			}
			return ""
		}
		firstInt := func() int {
			j := strings.IndexAny(args, ",)")
			if j < 0 {
				j = len(args)
			}
			v, err := strconv.Atoi(strings.TrimSpace(args[:j]))
			if err != nil {
				return -1
			}
			return v
		}
		if name == "unlinkat" || name == "unlink" {
			if str(0) == fcMarkBegin {
				active = true
				continue
			}
			if str(0) == fcMarkEnd {
				active = false
				sawEnd = true
				continue
			}
		}
		if !active {
			continue
		}
		switch name {
		case "openat", "open", "creat":
			p := str(0)
			rel, in := fcRel(dir, p)
			if !in {
				continue
			}
			flags := args
			wr := strings.Contains(flags, "O_WRONLY") || strings.Contains(flags, "O_RDWR") ||
				strings.Contains(flags, "O_TRUNC") || strings.Contains(flags, "O_CREAT") || name == "creat"
			if !wr {
				if ok {
					rofds[ret] = true
				}
				continue
			}
			app := strings.Contains(flags, "O_APPEND")
			op := "OpenWrite"
			switch {
			case strings.Contains(flags, "O_CREAT") && strings.Contains(flags, "O_EXCL"):
				op, app = "CreateTemp", true
			case strings.Contains(flags, "O_TRUNC") || name == "creat":
				op, app = "OpenTrunc", true
			case strings.Contains(flags, "O_CREAT"):
				op = "OpenCreate"
			}
			evs = append(evs, fcEv{op: op, a: rel, ok: ok})
			if ok {
				fds[ret] = &fcFd{name: rel, append: app}
			}
		case "write", "pwrite64":
			fd := firstInt()
			fi, in := fds[fd]
			if !in {
				continue
			}
			buf := []byte{}
			if len(strs) > 0 {
				buf = fcUnhex(strs[0][1])
			}
			if ok && ret <= len(buf) {
				buf = buf[:ret]
			} else if !ok {
				buf = nil
			}
			switch {
			case name == "pwrite64":
				off := int64(0)
				if j := strings.LastIndex(args, ","); j >= 0 {
					off, _ = strconv.ParseInt(strings.TrimSpace(args[j+1:]), 0, 64)
				}
				evs = append(evs, fcEv{op: "WriteAt", a: fi.name, data: buf, off: off, ok: ok})
			case fi.append:
				evs = append(evs, fcEv{op: "Write", a: fi.name, data: buf, ok: ok})
			default:
				evs = append(evs, fcEv{op: "WriteAt", a: fi.name, data: buf, off: fi.off, ok: ok})
				fi.off += int64(len(buf))
			}
		case "fchmod":
			if fi, in := fds[firstInt()]; in {
				evs = append(evs, fcEv{op: "Chmod", a: fi.name, ok: ok})
			}
		case "chmod", "fchmodat":
			if rel, in := fcRel(dir, str(0)); in {
				evs = append(evs, fcEv{op: "Chmod", a: rel, ok: ok})
			}
		case "ftruncate":
			if fi, in := fds[firstInt()]; in {
				evs = append(evs, fcEv{op: "OpenTrunc", a: fi.name, ok: ok})
			}
		case "truncate":
			if rel, in := fcRel(dir, str(0)); in {
				evs = append(evs, fcEv{op: "OpenTrunc", a: rel, ok: ok})
			}
		case "close":
			fd := firstInt()
			if fi, in := fds[fd]; in {
				evs = append(evs, fcEv{op: "Close", a: fi.name, ok: ok})
				delete(fds, fd)
			}
			delete(rofds, fd)
		case "rename", "renameat", "renameat2":
			a, ina := fcRel(dir, str(0))
			b, inb := fcRel(dir, str(1))
			if ina || inb {
				evs = append(evs, fcEv{op: "Rename", a: a, b: b, ok: ok})
			}
		case "unlink", "unlinkat":
			if rel, in := fcRel(dir, str(0)); in {
				evs = append(evs, fcEv{op: "Remove", a: rel, ok: ok})
			}
		}
	}
	if !sawEnd && !allowNoEnd {
		return nil, fmt.Errorf("strace log without end marker")
	}
	return evs, sc.Err()
}

type fcTraceSpec struct {
	kind    int // 0 = Put succeeds; 1 = the record name is a non-empty directory (rename fails); 2 = old-style write (negative control)
	typ     uint8
	session string
	key     string
	val     []byte
	prior   []byte // existing record content (nil = none)
}

// fcRecordName mirrors nothing of the code: it asks the real fsDb for its path.
func fcRecordName(dir string, typ uint8, session, key string) (string, error) {
	ctx := context.Background()
	store := fsdb.NewFsDb()
	if err := store.Connect(ctx, dir); err != nil {
		return "", err
	}
	store.SetPrefix(typ)
	store.SetSession(session)
	ps, err := store.VerifPaths(ctx, []byte(key))
	if err != nil {
		return "", err
	}
	rel, _ := fcRel(dir, ps[2])
	return rel, nil
}

// fcStracePut runs ONE real Put (child process fscrash_put1) on the store directory dir under
// strace and returns the abstracted events.  inject != "": SIGKILL is injected on entry to that
// system call; killed reports whether the child died (the fatal call is then the last event,
// failed).  base is a scratch directory outside the store.
func fcStracePut(self, base, dir string, typ uint8, session, key string, val []byte, inject string, oldstyle bool) ([]fcEv, bool, string, error) {
	valfile := filepath.Join(base, "val")
	os.WriteFile(valfile, val, 0600)
	logf := filepath.Join(base, "strace.log")
	args := []string{"-f", "-xx", "-s", "400000",
		"-e", "trace=openat,open,creat,write,pwrite64,rename,renameat,renameat2,unlink,unlinkat,fchmod,chmod,fchmodat,close,ftruncate,truncate"}
	if strings.Contains(inject, ":error=") {
		args = append(args, "-e", "inject="+inject) // a failing system call, not a kill
	} else if inject != "" {
		args = append(args, "-e", "inject="+inject+":signal=KILL")
	}
	args = append(args, "-o", logf, self, "fscrash_put1")
	cmd := exec.Command("strace", args...)
	cmd.Env = append(os.Environ(), "FSCRASH_DIR="+dir, fmt.Sprintf("FSCRASH_TYPE=%d", typ),
		"FSCRASH_SESSION="+session, "FSCRASH_KEY="+key, "FSCRASH_VALFILE="+valfile)
	if oldstyle {
		cmd.Env = append(cmd.Env, "FSCRASH_OLDSTYLE=1")
	}
	out, err := cmd.CombinedOutput()
	killed := false
	if err != nil {
		if inject == "" || strings.Contains(inject, ":error=") {
			return nil, false, "", fmt.Errorf("strace: %v: %s", err, out)
		}
		killed = true
	}
	evs, err := fcAbstract(logf, dir, killed)
	if err != nil {
		return nil, killed, "", err
	}
	return evs, killed, string(out), nil
}

func fcRunTrace(self string, spec fcTraceSpec) (string, []fcEv, string, error) {
	base, err := os.MkdirTemp("/tmp", "fscrash-tr-")
	if err != nil {
		return "", nil, "", err
	}
	defer os.RemoveAll(base)
	dir := filepath.Join(base, "store")
	if err := os.MkdirAll(dir, 0700); err != nil {
		return "", nil, "", err
	}
	pname, err := fcRecordName(dir, spec.typ, spec.session, spec.key)
	if err != nil {
		return "", nil, "", err
	}
	if spec.kind == 1 {
		os.MkdirAll(filepath.Join(dir, pname, "x"), 0700)
	} else if spec.prior != nil {
		os.WriteFile(filepath.Join(dir, pname), spec.prior, 0600)
	}
	evs, _, out, err := fcStracePut(self, base, dir, spec.typ, spec.session, spec.key, spec.val, "", spec.kind == 2)
	if err != nil {
		return "", nil, "", err
	}
	// what is in the directory afterwards (leftover temp files would show here)
	ents, _ := os.ReadDir(dir)
	names := []string{}
	for _, e := range ents {
		names = append(names, e.Name())
	}
	return pname, evs, strings.TrimSpace(string(out)) + " dir=" + strings.Join(names, ","), nil
}

// ---- the engine app ------------------------------------------------------------------------

var fcNodes = [][3]string{
	{"root", "LOAD echo 0\nMAP echo\nMOUT first 1\nMOUT second 2\nMOUT third 3\nHALT\nINCMP aa 1\nINCMP bb 2\nINCMP dd 3\nINCMP ee 4\n", "root {{.echo}}"},
	// ee loads eighteen symbols: a record whose cache maps have more entries than any "reasonable" decoder limit
	{"ee", fcManyLoads(18) + "MOUT back 0\nHALT\nINCMP _ 0\n", "ee"},
	// dd re-runs itself on any input but 0 and reloads a one-digit value: consecutive records of equal length
	{"dd", "LOAD digit 0\nRELOAD digit\nMAP digit\nMOUT back 0\nHALT\nINCMP _ 0\nINCMP . *\n", "dd {{.digit}}"},
	{"aa", "LOAD stamp 0\nMAP stamp\nMOUT back 0\nMOUT deeper 1\nHALT\nINCMP _ 0\nINCMP cc 1\n", "aa {{.stamp}}"},
	// bb loads a value that ends in a line feed: the session record (whose last CBOR item is the cache's
	// last value) then ends in byte 0x0a
	{"bb", "LOAD nl 0\nMAP nl\nMOUT back 0\nHALT\nINCMP _ 0\n", "bb {{.nl}}"},
	{"cc", "LOAD long 0\nMOUT back 0\nHALT\nINCMP _ 0\n", "cc"},
	{"_catch", "MOUT back 0\nHALT\nINCMP _ 0\n", "invalid input"},
}

func fcManyLoads(n int) string {
	var sb strings.Builder
	for i := 1; i <= n; i++ {
		fmt.Fprintf(&sb, "LOAD many%02d 0\n", i)
	}
	return sb.String()
}

func fcResource() *resource.DbResource {
	ctx := context.Background()
	m := memdb.NewMemDb()
	m.SetLock(db.DATATYPE_TEMPLATE, false)
	m.SetLock(db.DATATYPE_BIN, false)
	m.SetLock(db.DATATYPE_MENU, false)
	m.SetLock(db.DATATYPE_STATICLOAD, false)
	m.Connect(ctx, "")
	for _, n := range fcNodes {
		b := bytes.NewBuffer(nil)
		if _, err := asm.Parse(n[1], b); err != nil {
			panic(err)
		}
		m.SetPrefix(db.DATATYPE_BIN)
		m.Put(ctx, []byte(n[0]), b.Bytes())
		m.SetPrefix(db.DATATYPE_TEMPLATE)
		m.Put(ctx, []byte(n[0]), []byte(n[2]))
	}
	m.SetLock(0, true)
	rs := resource.NewDbResource(m)
	rs.With(db.DATATYPE_STATICLOAD)
	rs.AddLocalFunc("echo", func(ctx context.Context, sym string, input []byte) (resource.Result, error) {
		return resource.Result{Content: "e:" + string(input)}, nil
	})
	rs.AddLocalFunc("stamp", func(ctx context.Context, sym string, input []byte) (resource.Result, error) {
		return resource.Result{Content: "s:" + string(input), FlagSet: []uint32{8}}, nil
	})
	rs.AddLocalFunc("digit", func(ctx context.Context, sym string, input []byte) (resource.Result, error) {
		d := "x"
		if len(input) > 0 {
			d = string(input[len(input)-1:])
		}
		return resource.Result{Content: "d:" + d}, nil
	})
	rs.AddLocalFunc("nl", func(ctx context.Context, sym string, input []byte) (resource.Result, error) {
		return resource.Result{Content: "line:" + string(input) + "\n"}, nil
	})
	for i := 1; i <= 18; i++ {
		name := fmt.Sprintf("many%02d", i)
		rs.AddLocalFunc(name, func(ctx context.Context, sym string, input []byte) (resource.Result, error) {
			return resource.Result{Content: sym[4:]}, nil
		})
	}
	rs.AddLocalFunc("long", func(ctx context.Context, sym string, input []byte) (resource.Result, error) {
		return resource.Result{Content: strings.Repeat("xy", 20), FlagSet: []uint32{9}}, nil
	})
	return rs
}

func fcCfg(sid string) engine.Config {
	return engine.Config{SessionId: sid, Root: "root", FlagCount: 4}
}

// fcSnapshot loads the session record with the real Persister and renders it canonically
// (cbor map order is not deterministic, so records are compared decoded).
func fcSnapshot(dir, sid string) (string, bool) {
	ctx := context.Background()
	store := fsdb.NewFsDb()
	store.Connect(ctx, dir)
	pe := persist.NewPersister(store).WithContent(state.NewState(4), cache.NewCache())
	var err error
	pk, _ := hx.Recover(func() { err = pe.Load(sid) })
	if pk {
		return "load-panic", false
	}
	if err != nil {
		return "load-error", false
	}
	st, ca := pe.State, pe.Memory
	lang := "-"
	if st.Language != nil {
		lang = st.Language.Code
	}
	return fmt.Sprintf("code=%x path=%q bits=%d idx=%d flags=%x moves=%d lang=%s | csz=%d use=%d cache=%v sizes=%v last=%q",
		st.Code, st.ExecPath, st.BitSize, st.SizeIdx, st.Flags, st.Moves, lang,
		ca.CacheSize, ca.CacheUseSize, ca.Cache, ca.Sizes, ca.LastValue), true
}

// fcRequest runs one request of session sid against the store in dir with a fresh engine.
func fcRequest(dir, sid, in string) string {
	ctx := context.Background()
	var res string
	pk, pv := hx.Recover(func() {
		store := fsdb.NewFsDb()
		store.Connect(ctx, dir)
		pe := persist.NewPersister(store)
		en := engine.NewEngine(fcCfg(sid), fcResource()).WithPersister(pe)
		cont, err := en.Exec(ctx, []byte(in))
		w := bytes.NewBuffer(nil)
		_, ferr := en.Flush(ctx, w)
		fin := en.Finish(ctx)
		// error texts may embed pointer values ("state @0xc000...")
		res = fcPtrRe.ReplaceAllString(fmt.Sprintf("cont=%v err=%v out=%q ferr=%v fin=%v", cont, err, w.String(), ferr, fin), "@PTR")
	})
	if pk {
		res = fmt.Sprintf("PANIC %v", pv)
	}
	snap, _ := fcSnapshot(dir, sid)
	return res + " || " + snap
}

// fcRetry serves the history on a fresh store; during the Finish of the LAST request the store
// directory is away (so the save fails), then it is put back and the same engine's Finish is called
// again.  Returns whether the first Finish failed and the session the store holds afterwards.
func fcRetry(sid string, inputs []string, flush bool, inject bool) (failed bool, snap string, err error) {
	base, err := os.MkdirTemp("/tmp", "fscrash-retry-")
	if err != nil {
		return false, "", err
	}
	defer os.RemoveAll(base)
	dir := filepath.Join(base, "store")
	if err := os.Mkdir(dir, 0700); err != nil {
		return false, "", err
	}
	for _, in := range inputs[:len(inputs)-1] {
		fcRequest(dir, sid, in)
	}
	ctx := context.Background()
	pk, pv := hx.Recover(func() {
		store := fsdb.NewFsDb()
		store.Connect(ctx, dir)
		pe := persist.NewPersister(store)
		if flush {
			pe = pe.WithFlush()
		}
		en := engine.NewEngine(fcCfg(sid), fcResource()).WithPersister(pe)
		en.Exec(ctx, []byte(inputs[len(inputs)-1]))
		en.Flush(ctx, bytes.NewBuffer(nil))
		if inject {
			away := filepath.Join(base, "away")
			os.Rename(dir, away)
			failed = en.Finish(ctx) != nil
			os.Rename(away, dir)
		}
		en.Finish(ctx)
	})
	if pk {
		return failed, fmt.Sprintf("PANIC %v", pv), nil
	}
	snap, _ = fcSnapshot(dir, sid)
	return failed, snap, nil
}

// ---- materialising crash states ------------------------------------------------------------

type fcOp struct {
	kind string
	a, b string
	data []byte
	off  int64
}

func (o fcOp) isWrite() bool { return o.kind == "Write" || o.kind == "WriteAt" }

func (o fcOp) ev() fcEv { return fcEv{op: o.kind, a: o.a, b: o.b, data: o.data, off: o.off, ok: true} }

// fcSimApply is the in-memory twin of fcApply (used to find where an in-place write changes bytes).
func fcSimApply(fs map[string][]byte, o fcOp) {
	switch o.kind {
	case "CreateTemp", "OpenTrunc":
		fs[o.a] = []byte{}
	case "OpenCreate":
		if _, ok := fs[o.a]; !ok {
			fs[o.a] = []byte{}
		}
	case "Write":
		if c, ok := fs[o.a]; ok {
			fs[o.a] = append(append([]byte{}, c...), o.data...)
		}
	case "WriteAt":
		if c, ok := fs[o.a]; ok {
			n := append([]byte{}, c...)
			for int64(len(n)) < o.off+int64(len(o.data)) {
				n = append(n, 0)
			}
			copy(n[o.off:], o.data)
			fs[o.a] = n
		}
	case "Rename":
		if c, ok := fs[o.a]; ok {
			fs[o.b] = c
			delete(fs, o.a)
		}
	case "Remove":
		delete(fs, o.a)
	}
}

func fcPutOpsOld(p string, val []byte) []fcOp {
	return []fcOp{{kind: "OpenTrunc", a: p}, {kind: "Write", a: p, data: val}, {kind: "Close", a: p}}
}

func fcApply(dir string, o fcOp, k int) error {
	switch o.kind {
	case "CreateTemp":
		f, err := os.OpenFile(filepath.Join(dir, o.a), os.O_RDWR|os.O_CREATE|os.O_EXCL, 0600)
		if err != nil {
			return err
		}
		return f.Close()
	case "OpenTrunc":
		f, err := os.OpenFile(filepath.Join(dir, o.a), os.O_WRONLY|os.O_CREATE|os.O_TRUNC, 0600)
		if err != nil {
			return err
		}
		return f.Close()
	case "Write":
		f, err := os.OpenFile(filepath.Join(dir, o.a), os.O_WRONLY|os.O_APPEND, 0600)
		if err != nil {
			return nil // no such file: the model's Write is a no-op too
		}
		if k < 0 || k > len(o.data) {
			k = len(o.data)
		}
		_, err = f.Write(o.data[:k])
		f.Close()
		return err
	case "OpenCreate":
		f, err := os.OpenFile(filepath.Join(dir, o.a), os.O_WRONLY|os.O_CREATE, 0600)
		if err != nil {
			return err
		}
		return f.Close()
	case "WriteAt":
		f, err := os.OpenFile(filepath.Join(dir, o.a), os.O_WRONLY, 0600)
		if err != nil {
			return nil // no such file: no-op in the model too
		}
		if k < 0 || k > len(o.data) {
			k = len(o.data)
		}
		_, err = f.WriteAt(o.data[:k], o.off)
		f.Close()
		return err
	case "Rename":
		return os.Rename(filepath.Join(dir, o.a), filepath.Join(dir, o.b))
	case "Remove":
		return os.Remove(filepath.Join(dir, o.a))
	}
	return nil // OpenWrite, Chmod, Close: no effect on contents
}

type fcFile struct {
	name string
	blob int
}

func fcMaterialise(blobs [][]byte, fs0 []fcFile, ops []fcOp, i, k int) (string, error) {
	dir, err := os.MkdirTemp("/tmp", "fscrash-cs-")
	if err != nil {
		return "", err
	}
	for _, f := range fs0 {
		if err := os.WriteFile(filepath.Join(dir, f.name), blobs[f.blob], 0600); err != nil {
			return dir, err
		}
	}
	for j := 0; j < i && j < len(ops); j++ {
		if err := fcApply(dir, ops[j], -1); err != nil {
			return dir, err
		}
	}
	if i < len(ops) && ops[i].isWrite() {
		if err := fcApply(dir, ops[i], k); err != nil {
			return dir, err
		}
	}
	return dir, nil
}

func fcCref(blobs [][]byte, newi int, b []byte) string {
	for i, bl := range blobs {
		if bytes.Equal(bl, b) {
			return fmt.Sprintf("CRef %d", i)
		}
	}
	if bytes.HasPrefix(blobs[newi], b) {
		return fmt.Sprintf("CPre %d %d", newi, len(b))
	}
	for i, bl := range blobs {
		if bytes.HasPrefix(bl, b) {
			return fmt.Sprintf("CPre %d %d", i, len(b))
		}
	}
	return "CRaw " + hx.B(b)
}

func fcListing(dir string) (map[string][]byte, []string) {
	ents, _ := os.ReadDir(dir)
	m := map[string][]byte{}
	names := []string{}
	for _, e := range ents {
		b, _ := os.ReadFile(filepath.Join(dir, e.Name()))
		m[e.Name()] = b
		names = append(names, e.Name())
	}
	sort.Strings(names)
	return m, names
}

func fcDump(dir string) [][]byte {
	ctx := context.Background()
	keys := [][]byte{}
	hx.Recover(func() {
		store := fsdb.NewFsDb()
		store.Connect(ctx, dir)
		store.SetPrefix(db.DATATYPE_STATE)
		d, err := store.Dump(ctx, []byte{})
		if err != nil {
			return
		}
		for {
			k, _ := d.Next(ctx)
			if k == nil {
				break
			}
			keys = append(keys, append([]byte{}, k...))
		}
	})
	return keys
}

type fcPair struct {
	sid   string
	blobs [][]byte
	fs0   []fcFile
	oldi  int // -1: first save
	newi  int
	tmp   string
	input string // the request made after the crash
	hist  []string
	kind  string
}

func (p fcPair) pname() string { return "@" + p.sid }

// key identifies the content of a case for the distinctness count: session, previous record,
// new record and the request made after the crash.
func (p fcPair) key(kind string) string {
	old := []byte{}
	if p.oldi >= 0 {
		old = p.blobs[p.oldi]
	}
	return fmt.Sprintf("%s|%s|%x|%x|%q", kind, p.sid, old, p.blobs[p.newi], p.input)
}

func fcBuildDir(blobs [][]byte, files []fcFile) string {
	dir, _ := os.MkdirTemp("/tmp", "fscrash-ref-")
	for _, f := range files {
		os.WriteFile(filepath.Join(dir, f.name), blobs[f.blob], 0600)
	}
	return dir
}

type fcRefs struct{ prev, new, fresh string }

// fcRefsFor runs the post-crash request on undisturbed stores: the directory before the save,
// the directory with the complete new record, the directory without any record of the session.
func fcRefsFor(pr fcPair) fcRefs {
	p := pr.pname()
	run := func(files []fcFile) string {
		d := fcBuildDir(pr.blobs, files)
		defer os.RemoveAll(d)
		return fcRequest(d, pr.sid, pr.input)
	}
	withNew := []fcFile{}
	fresh := []fcFile{}
	for _, f := range pr.fs0 {
		if f.name != p {
			withNew = append(withNew, f)
			if f.name != pr.sid {
				fresh = append(fresh, f)
			}
		}
	}
	withNew = append(withNew, fcFile{p, pr.newi})
	return fcRefs{prev: run(pr.fs0), new: run(withNew), fresh: run(fresh)}
}

// fcObserve looks at one crashed store directory (and removes it): listing, real Load, real
// Dump, then the next request with a fresh engine.  Returns the crashobs term and whether the
// Go copy of the C12 monitor flags it (the copy only feeds the statistics).
func fcObserve(pr fcPair, refs fcRefs, dir string, i, k int) (string, bool) {
	p := pr.pname()
	newb := pr.blobs[pr.newi]
	content, names := fcListing(dir)
	files := make([]string, len(names))
	for j, n := range names {
		files[j] = fmt.Sprintf("(%s, %s)", hx.S(n), fcCref(pr.blobs, pr.newi, content[n]))
	}
	_, loadOk := fcSnapshot(dir, pr.sid)
	dump := fcDump(dir)
	got := fcRequest(dir, pr.sid, pr.input)
	os.RemoveAll(dir)
	eqPrev, eqNew, eqFresh := got == refs.prev, got == refs.new, got == refs.fresh
	term := fmt.Sprintf("mkCrashObs %d %d %s %s %s %s %s %s", i, k, hx.List(files),
		hx.Bool(loadOk), hx.Bool(eqPrev), hx.Bool(eqNew), hx.Bool(eqFresh), hx.BList(dump))
	rec, has := content[p]
	good := false
	if has && pr.oldi >= 0 && bytes.Equal(rec, pr.blobs[pr.oldi]) && eqPrev {
		good = true
	}
	if has && bytes.Equal(rec, newb) && eqNew {
		good = true
	}
	if !has && pr.oldi < 0 {
		good = true
	}
	for _, f := range pr.fs0 {
		if f.name != p && !bytes.Equal(content[f.name], pr.blobs[f.blob]) {
			good = false
		}
	}
	return term, !good
}

func fcCaseTerm(pr fcPair, oldlist bool, tmp string, evs []fcEv, killed bool, obs []string) string {
	fs0 := make([]string, len(pr.fs0))
	for j, f := range pr.fs0 {
		fs0[j] = fmt.Sprintf("(%s, %d)", hx.S(f.name), f.blob)
	}
	ets := make([]string, len(evs))
	for j, e := range evs {
		ets[j] = e.eterm(pr.blobs, pr.newi)
	}
	return fmt.Sprintf("FCrash %s %s %s %s %s %s %d\n      %s %s [\n      %s]", hx.Bool(oldlist), hx.BList(pr.blobs), hx.List(fs0),
		hx.S(pr.pname()), hx.S(pr.sid), hx.S(tmp), pr.newi, hx.List(ets), hx.Bool(killed), strings.Join(obs, ";\n      "))
}

// fcStoreFor writes the pair's store (fs0) into base/store.
func fcStoreFor(pr fcPair, base string) string {
	dir := filepath.Join(base, "store")
	os.MkdirAll(dir, 0700)
	for _, f := range pr.fs0 {
		os.WriteFile(filepath.Join(dir, f.name), pr.blobs[f.blob], 0600)
	}
	return dir
}

// fcTmpOf returns the name of the temp file the real code created (first CreateTemp event).
func fcTmpOf(evs []fcEv) string {
	for _, e := range evs {
		if e.op == "CreateTemp" {
			return e.a
		}
	}
	return ".tmp-none"
}

// fcCrashCase: the REAL Put of the pair's new record onto the pair's store is traced (strace);
// the crash states of the OBSERVED operation list — whatever it is — are materialised (partial
// lengths of every write sampled) and observed.  For the self-test (oldlist) the operation list is
// the pre-repair one instead.  Returns the Coq term, the number of crash states and how many of
// them the Go copy of the monitor flags.
func fcCrashCase(self string, pr fcPair, oldlist bool, thorough bool) (string, int, int, error) {
	p := pr.pname()
	newb := pr.blobs[pr.newi]
	var evs []fcEv
	tmp := pr.tmp
	if oldlist {
		for _, o := range fcPutOpsOld(p, newb) {
			evs = append(evs, o.ev())
		}
	} else {
		base, err := os.MkdirTemp("/tmp", "fscrash-tr-")
		if err != nil {
			return "", 0, 0, err
		}
		dir := fcStoreFor(pr, base)
		evs, _, _, err = fcStracePut(self, base, dir, db.DATATYPE_STATE, "", pr.sid, newb, "", false)
		os.RemoveAll(base)
		if err != nil {
			return "", 0, 0, err
		}
		tmp = fcTmpOf(evs)
	}
	ops := fcOkOps(evs)
	refs := fcRefsFor(pr)
	type point struct{ i, k int }
	pts := []point{}
	sim := map[string][]byte{}
	for _, f := range pr.fs0 {
		sim[f.name] = pr.blobs[f.blob]
	}
	for i := 0; i <= len(ops); i++ {
		if i < len(ops) && ops[i].isWrite() {
			n := len(ops[i].data)
			ks := []int{0, 1, n / 2, n - 1, n}
			if ops[i].kind == "WriteAt" {
				// an in-place write: also stop right after the first and right before the last
				// byte that it changes
				cur := sim[ops[i].a]
				d0, d1 := -1, -1
				for j := 0; j < n; j++ {
					at := int(ops[i].off) + j
					if at >= len(cur) || cur[at] != ops[i].data[j] {
						if d0 < 0 {
							d0 = j
						}
						d1 = j
					}
				}
				if d0 >= 0 {
					ks = append(ks, d0+1, d1, (d0+d1+1)/2)
				}
			}
			if thorough {
				if n <= 96 {
					for k := 0; k <= n; k++ {
						ks = append(ks, k)
					}
				} else {
					for j := 1; j < 16; j++ {
						ks = append(ks, j*n/16, j*n/16+1)
					}
				}
			}
			seen := map[int]bool{}
			sort.Ints(ks)
			for _, k := range ks {
				if k < 0 || k > n || seen[k] {
					continue
				}
				seen[k] = true
				pts = append(pts, point{i, k})
			}
		} else {
			pts = append(pts, point{i, 0})
		}
		if i < len(ops) {
			fcSimApply(sim, ops[i])
		}
	}
	obs := []string{}
	flagged := 0
	for _, pt := range pts {
		dir, err := fcMaterialise(pr.blobs, pr.fs0, ops, pt.i, pt.k)
		if err != nil {
			os.RemoveAll(dir)
			return "", 0, 0, err
		}
		t, bad := fcObserve(pr, refs, dir, pt.i, pt.k)
		obs = append(obs, t)
		if bad {
			flagged++
		}
	}
	return fcCaseTerm(pr, oldlist, tmp, evs, false, obs), len(pts), flagged, nil
}

// fcKillCase produces a crash state by REALLY killing the real Put: the child process
// (fscrash_put1) runs under strace with SIGKILL injected on entry to the given system call
// (write: before any byte is transferred; fchmod: after the write; renameat: just before the
// rename; "": not killed).  The case carries what the child did before dying; the directory it
// left behind is observed as the crash state "all of that done".  If the call never happens the
// child simply completes and the case says so (killed = false).
func fcKillCase(self string, pr fcPair, syscall string) (string, bool, error) {
	base, err := os.MkdirTemp("/tmp", "fscrash-kill-")
	if err != nil {
		return "", false, err
	}
	defer os.RemoveAll(base)
	dir := fcStoreFor(pr, base)
	evs, killed, _, err := fcStracePut(self, base, dir, db.DATATYPE_STATE, "", pr.sid, pr.blobs[pr.newi], syscall, false)
	if err != nil {
		return "", false, err
	}
	refs := fcRefsFor(pr)
	scratch, err := os.MkdirTemp("/tmp", "fscrash-cs-")
	if err != nil {
		return "", false, err
	}
	os.RemoveAll(scratch)
	if err := os.Rename(dir, scratch); err != nil {
		return "", false, err
	}
	t, bad := fcObserve(pr, refs, scratch, len(fcOkOps(evs)), 0)
	return fcCaseTerm(pr, false, fcTmpOf(evs), evs, killed, []string{t}), bad, nil
}

// ---- generation ----------------------------------------------------------------------------

var fcInputs = []string{"1", "2", "0", "1", "0", "9", "", "3", "4"}

// fcHistory runs a session for the given inputs in a scratch store and returns the record bytes
// after every request.
func fcHistory(sid string, inputs []string) ([][]byte, error) {
	dir, err := os.MkdirTemp("/tmp", "fscrash-gen-")
	if err != nil {
		return nil, err
	}
	defer os.RemoveAll(dir)
	recs := [][]byte{}
	for _, in := range inputs {
		fcRequest(dir, sid, in)
		b, err := os.ReadFile(filepath.Join(dir, "@"+sid))
		if err != nil {
			return nil, fmt.Errorf("no record after request %q of %s: %v", in, sid, err)
		}
		recs = append(recs, b)
	}
	return recs, nil
}

func fcGenInputs(r *rand.Rand, n int) []string {
	ins := []string{""}
	for len(ins) < n {
		ins = append(ins, fcInputs[r.Intn(len(fcInputs))])
	}
	return ins
}

func fcGenPair(r *rand.Rand, idx int, kind string) (fcPair, error) {
	sid := []string{"s0", "ab", "x.y", "sess"}[r.Intn(4)]
	if kind == "tmpsid" {
		// a session whose id looks like a temp file name: Get's legacy-name fallback reads a
		// leftover temp file of that name as this session's record
		sid = ".tmp-42"
	}
	h := 1 + r.Intn(5)
	var ins []string
	var recs [][]byte
	for try := 0; ; try++ {
		ins = fcGenInputs(r, h+1)
		if kind == "eqlen" {
			// previous and new record of EXACTLY equal length and different content: two
			// consecutive requests at node dd, which only replace one cached digit
			digits := []string{"1", "2", "4", "5", "7", "9"}
			ins = []string{""}
			if r.Intn(2) == 0 {
				ins = append(ins, "2", "0")
			}
			ins = append(ins, "3")
			for j := r.Intn(3); j >= 0; j-- {
				ins = append(ins, digits[r.Intn(len(digits))])
			}
			ins = append(ins, digits[r.Intn(len(digits))])
			h = len(ins) - 1
		}
		var err error
		recs, err = fcHistory(sid, ins)
		if err != nil {
			return fcPair{}, err
		}
		ok := !bytes.Equal(recs[h-1], recs[h])
		if kind == "eqlen" {
			ok = ok && len(recs[h-1]) == len(recs[h])
		}
		if ok {
			break
		}
		if try > 40 {
			if kind == "eqlen" {
				return fcPair{}, fmt.Errorf("no equal-length pair of records found for %v", ins)
			}
			break
		}
	}
	pr := fcPair{sid: sid, hist: ins, kind: kind}
	pr.tmp = fmt.Sprintf(".tmp-%d", 100000000+r.Intn(900000000))
	pr.input = fcInputs[r.Intn(len(fcInputs))]
	// other sessions and a userdata entry of this session
	o1, err := fcHistory("u1", fcGenInputs(r, 1+r.Intn(3)))
	if err != nil {
		return pr, err
	}
	o2, err := fcHistory("zz", fcGenInputs(r, 1+r.Intn(3)))
	if err != nil {
		return pr, err
	}
	switch kind {
	case "first", "tmpsid":
		pr.blobs = [][]byte{recs[h]}
		pr.oldi, pr.newi = -1, 0
	case "legacy":
		// no record under the current name, but one under the legacy (type-less) name
		pr.blobs = [][]byte{recs[h], recs[h-1]}
		pr.oldi, pr.newi = -1, 0
		pr.fs0 = append(pr.fs0, fcFile{sid, 1})
	default:
		pr.blobs = [][]byte{recs[h-1], recs[h]}
		pr.oldi, pr.newi = 0, 1
		pr.fs0 = append(pr.fs0, fcFile{"@" + sid, 0})
	}
	n := len(pr.blobs)
	pr.blobs = append(pr.blobs, o1[len(o1)-1], o2[len(o2)-1], []byte("note of "+sid))
	pr.fs0 = append(pr.fs0, fcFile{"@u1", n}, fcFile{"@zz", n + 1}, fcFile{"P" + sid + ".note", n + 2})
	if kind == "pair" && idx%3 == 0 {
		// next to the typed record a file under the session's bare (legacy) name that is no session record:
		// the typed record must win
		pr.fs0 = append(pr.fs0, fcFile{sid, n + 2})
	}
	if kind == "stale" || kind == "tmpsid" {
		// a temp file left behind by an earlier crashed save
		pr.fs0 = append(pr.fs0, fcFile{".tmp-42", n})
	}
	return pr, nil
}

func runFsCrash(o opts) error {
	prop := o.prop
	if prop == "" {
		prop = "C12"
	}
	self, err := os.Executable()
	if err != nil {
		return err
	}
	// the traced children are always the plain binary: a coverage-instrumented one (thorough tier) makes
	// write() calls of its own, and the injected faults count system calls
	if strings.HasSuffix(self, "vh_cov") {
		if plain := strings.TrimSuffix(self, "_cov"); fileExists(plain) {
			self = plain
		}
	}
	thorough := o.tier == "thorough"
	w := &hx.Writer{Dir: o.out, Prop: prop, Imports: "Bytes Errors Consts FsCrash CorrBase FsCrashCorr",
		CaseType: "fcase", Mism: "fscrash_mismatches_st selftest", Viol: "fscrash_violations", PerShard: 50, Stats: map[string]int{}}

	// (1) traces of the real Put
	long := bytes.Repeat([]byte("0123456789ab"), 6000) // 72000 bytes, periodic
	specs := []fcTraceSpec{
		{kind: 0, typ: db.DATATYPE_STATE, key: "s0", val: []byte("new-record"), prior: []byte("old-record")},
		{kind: 0, typ: db.DATATYPE_STATE, key: "s0", val: []byte("first")},
		{kind: 0, typ: db.DATATYPE_STATE, key: "s0", val: []byte{}, prior: []byte("old")},
		{kind: 0, typ: db.DATATYPE_STATE, key: "s0", val: long, prior: []byte("old")},
		{kind: 0, typ: db.DATATYPE_USERDATA, session: "s0", key: "note", val: []byte{0, 255, 10, 34, 92}, prior: []byte("x")},
		{kind: 1, typ: db.DATATYPE_STATE, key: "s0", val: []byte("never-lands")},
	}
	nrand := o.n / 5
	for i := 0; i < nrand; i++ {
		r := hx.Rng(o.seed, "fscrash-trace", i)
		v := make([]byte, r.Intn(300))
		r.Read(v)
		sp := fcTraceSpec{kind: 0, typ: db.DATATYPE_STATE, key: []string{"s0", "ab", "x.y"}[r.Intn(3)], val: v}
		switch r.Intn(3) {
		case 0:
			sp.prior = []byte("prior")
		case 1:
			// an existing record of exactly the same length
			sp.prior = make([]byte, len(v))
			r.Read(sp.prior)
		}
		if r.Intn(3) == 0 {
			sp.typ = db.DATATYPE_USERDATA
			sp.session = "se"
		}
		specs = append(specs, sp)
	}
	for i, sp := range specs {
		pname, evs, info, err := fcRunTrace(self, sp)
		if err != nil {
			return fmt.Errorf("trace %d: %v", i, err)
		}
		items := make([]string, len(evs))
		for j, e := range evs {
			items[j] = e.term()
		}
		kind := "trace"
		if sp.kind == 1 {
			kind = "trace-renamefail"
		}
		w.Add(hx.Case{Term: fmt.Sprintf("FTrace %d %s %s %s", sp.kind, hx.S(pname), hx.B(sp.val), hx.List(items)),
			Kind: kind, Key: fmt.Sprintf("trace-%d-%d-%q-%q-%x-%v", sp.kind, sp.typ, sp.session, sp.key, sp.val, sp.prior != nil),
			Desc: map[string]interface{}{"typ": sp.typ, "session": sp.session, "key": sp.key, "vallen": len(sp.val), "prior": sp.prior != nil, "child": info}})
	}

	// (2) crash states of the current operation list
	kinds := []string{"pair", "first", "legacy", "stale", "tmpsid", "eqlen"}
	total := len(kinds) + o.n
	for i := 0; i < total; i++ {
		kind := "pair"
		if i < len(kinds) {
			kind = kinds[i]
		} else if i%7 == 6 {
			kind = "first"
		} else if i%4 == 1 {
			kind = "eqlen"
		}
		r := hx.Rng(o.seed, "fscrash-pair", i)
		pr, err := fcGenPair(r, i, kind)
		if err != nil {
			return err
		}
		term, n, flagged, err := fcCrashCase(self, pr, false, thorough)
		if err != nil {
			return err
		}
		w.Stats["crash_states"] += n
		w.Stats["go_monitor_flagged"] += flagged
		w.Add(hx.Case{Term: term, Kind: "crash-" + kind, Key: pr.key("crash-" + kind),
			Desc: map[string]interface{}{"session": pr.sid, "history": pr.hist, "after_crash_input": pr.input, "kind": kind, "crash_states": n}})
	}

	// (2b) crash states produced by really killing the real Put at a system call
	nkill := 2 + o.n/10
	for i := 0; i < nkill; i++ {
		r := hx.Rng(o.seed, "fscrash-kill", i)
		kind := "pair"
		if i%4 == 3 {
			kind = "first"
		} else if i%4 == 1 {
			kind = "eqlen"
		}
		pr, err := fcGenPair(r, i, kind)
		if err != nil {
			return err
		}
		for _, kp := range []struct{ sc string }{{"write"}, {"fchmod"}, {"renameat"}, {""}} {
			term, bad, err := fcKillCase(self, pr, kp.sc)
			if err != nil {
				return err
			}
			w.Stats["crash_states"]++
			if bad {
				w.Stats["go_monitor_flagged"]++
			}
			name := kp.sc
			if name == "" {
				name = "none"
			}
			w.Add(hx.Case{Term: term, Kind: "killed-at-" + name, Key: pr.key("kill-" + name),
				Desc: map[string]interface{}{"session": pr.sid, "history": pr.hist, "after_crash_input": pr.input, "kind": kind, "killed_on_entry_to": name}})
		}
	}

	// (2c) a save that fails and is retried by the same engine (with and without the persister's flush)
	nretry := 4 + o.n/10
	for i := 0; i < nretry; i++ {
		r := hx.Rng(o.seed, "fscrash-retry", i)
		sid := []string{"s0", "ab", "x.y", "sess"}[r.Intn(4)]
		ins := fcGenInputs(r, 2+r.Intn(4))
		flush := i%2 == 0
		failed, got, err := fcRetry(sid, ins, flush, true)
		if err != nil {
			return err
		}
		_, want, err := fcRetry(sid, ins, flush, false)
		if err != nil {
			return err
		}
		w.Add(hx.Case{Term: fmt.Sprintf("FRetry %s %s %s", hx.Bool(failed), hx.S(got), hx.S(want)), Kind: "failed-save-retried",
			Key:  fmt.Sprintf("retry-%s-%v-%v", sid, ins, flush),
			Desc: map[string]interface{}{"session": sid, "history": ins, "with_flush": flush, "first_finish_failed": failed, "stored_after_retry": got, "stored_without_failure": want}})
	}

	// (2c') the same history on the filesystem store (handle shared with application data, touched between
	// creating the persister and the request; connected again now and then) and on a memory store
	nsame := 3 + o.n/10
	for i := 0; i < nsame; i++ {
		r := hx.Rng(o.seed, "fscrash-same", i)
		sid := []string{"s0", "ab", "sess"}[r.Intn(3)]
		ins := fcGenInputs(r, 3+r.Intn(5))
		base, err := os.MkdirTemp("/tmp", "fscrash-same-")
		if err != nil {
			return err
		}
		dir := filepath.Join(base, "store")
		os.Mkdir(dir, 0700)
		ctx := context.Background()
		mem := memdb.NewMemDb()
		mem.Connect(ctx, "")
		serve := func(mk func() db.Db, touch bool) string {
			var sb strings.Builder
			for k, in := range ins {
				hx.Recover(func() {
					store := mk()
					pe := persist.NewPersister(store)
					if touch {
						store.SetPrefix(db.DATATYPE_USERDATA)
						store.Put(ctx, []byte("visits"), []byte{byte(k)})
						if k%2 == 1 {
							store.Connect(ctx, dir)
						}
					}
					en := engine.NewEngine(fcCfg(sid), fcResource()).WithPersister(pe)
					cont, err := en.Exec(ctx, []byte(in))
					w := bytes.NewBuffer(nil)
					_, ferr := en.Flush(ctx, w)
					fin := en.Finish(ctx)
					sb.WriteString(fcPtrRe.ReplaceAllString(fmt.Sprintf("cont=%v err=%v out=%q ferr=%v fin=%v\n", cont, err, w.String(), ferr, fin), "@PTR"))
				})
			}
			pe := persist.NewPersister(mk()).WithContent(state.NewState(4), cache.NewCache())
			if err := pe.Load(sid); err != nil {
				return sb.String() + "load-error"
			}
			return sb.String() + fmt.Sprintf("code=%x path=%q bits=%d idx=%d flags=%x | use=%d cache=%v last=%q", pe.State.Code, pe.State.ExecPath, pe.State.BitSize, pe.State.SizeIdx, pe.State.Flags, pe.Memory.CacheUseSize, pe.Memory.Cache, pe.Memory.LastValue)
		}
		got := serve(func() db.Db { f := fsdb.NewFsDb(); f.Connect(ctx, dir); return f }, true)
		want := serve(func() db.Db { return mem }, false)
		os.RemoveAll(base)
		w.Add(hx.Case{Term: fmt.Sprintf("FSame %s %s", hx.S(got), hx.S(want)), Kind: "shared-handle-history",
			Key:  fmt.Sprintf("same-%s-%v", sid, ins),
			Desc: map[string]interface{}{"session": sid, "history": ins, "fs_with_shared_handle": got, "mem": want}})
	}

	// (2d) a save whose write FAILS (ENOSPC injected into the first write of the real Put): the error must be
	// reported and the previous record must still be the session's record
	nwf := 2 + o.n/20
	for i := 0; i < nwf; i++ {
		r := hx.Rng(o.seed, "fscrash-writefail", i)
		pr, err := fcGenPair(r, i, "pair")
		if err != nil {
			return err
		}
		base, err := os.MkdirTemp("/tmp", "fscrash-wf-")
		if err != nil {
			return err
		}
		dir := fcStoreFor(pr, base)
		want, _ := fcSnapshot(dir, pr.sid)
		_, _, out, err := fcStracePut(self, base, dir, db.DATATYPE_STATE, "", pr.sid, pr.blobs[pr.newi], "write:error=ENOSPC:when=1", false)
		if err != nil {
			os.RemoveAll(base)
			return err
		}
		got, _ := fcSnapshot(dir, pr.sid)
		os.RemoveAll(base)
		failed := strings.Contains(out, "PUTERR")
		w.Add(hx.Case{Term: fmt.Sprintf("FRetry %s %s %s", hx.Bool(failed), hx.S(got), hx.S(want)), Kind: "write-fails",
			Key:  pr.key("writefail"),
			Desc: map[string]interface{}{"session": pr.sid, "history": pr.hist, "put_reported_error": failed, "stored_after": got, "stored_before": want}})
	}

	// (3) self-test: the operation list before the repair must be flagged
	nself := 3
	if thorough {
		nself = 6
	}
	selfTerms := []string{}
	for i := 0; i < nself; i++ {
		r := hx.Rng(o.seed, "fscrash-self", i)
		pr, err := fcGenPair(r, i, "pair")
		if err != nil {
			return err
		}
		term, n, flagged, err := fcCrashCase(self, pr, true, false)
		if err != nil {
			return err
		}
		selfTerms = append(selfTerms, term)
		w.Stats["oldlist_states"] += n
		w.Stats["oldlist_flagged"] += flagged
		if flagged > 0 {
			w.Stats["oldlist_cases_flagged"]++
		}
	}
	w.Stats["oldlist_cases"] = nself
	{
		sp := fcTraceSpec{kind: 2, typ: db.DATATYPE_STATE, key: "s0", val: []byte("new-record"), prior: []byte("old-record")}
		pname, evs, _, err := fcRunTrace(self, sp)
		if err != nil {
			return fmt.Errorf("old-style trace: %v", err)
		}
		items := make([]string, len(evs))
		for j, e := range evs {
			items[j] = e.term()
			if e.op == "OpenTrunc" && e.a == pname {
				w.Stats["oldtrace_opentrunc_seen"]++
			}
		}
		selfTerms = append(selfTerms, fmt.Sprintf("FTrace 0 %s %s %s", hx.S(pname), hx.B(sp.val), hx.List(items)))
	}
	w.Prelude = "Definition selftest : list fcase := [\n  " + strings.Join(selfTerms, ";\n  ") + "].\n" +
		"Definition selftest_flagged := Eval vm_compute in List.length (fscrash_violations selftest).\nPrint selftest_flagged."
	return w.Flush()
}

func fileExists(p string) bool {
	_, err := os.Stat(p)
	return err == nil
}
