//go:build verif

package main

// Loop driver: the REAL engine.Loop (engine/loop.go, the interactive driver) is run on generated
// applications (genApp of engine.go) with a generated reader content: lines made of the
// application's selectors, wildcard and invalid inputs, empty lines, lines wrapped in white space
// (ASCII and Unicode), \r\n endings, an unterminated last line, an empty reader; with initial
// nil / empty / a selector / a refused value.  The engine is built exactly as the long-lived mode
// of engine.go builds it (WithState/WithMemory so that the session can be observed) and wrapped in
// a recorder that implements engine.Engine and notes every Exec / Flush / Finish call Loop makes.
// Recorded: the bytes written, the error class Loop returned, a panic, the calls (each with the
// session after it), the session after Loop.  Further streams: browse walks (an application whose
// first page offers "11:", walked with 11 / 22 on CR LF terminated or blank/tab padded lines; every
// case under -prop C02) and persister modes (Loop over persist.Persister on a memory or filesystem
// store, plain and WithFlush; the record left in the store is read back; every case under -prop C12).
// Cases are evaluated by coq/corr/LoopCorr.v.

import (
	"bytes"
	"context"
	"fmt"
	"io"
	"math/rand"
	"os"
	"strings"
	"time"

	"git.defalsify.org/vise.git/cache"
	"git.defalsify.org/vise.git/db"
	fsdb "git.defalsify.org/vise.git/db/fs"
	memdb "git.defalsify.org/vise.git/db/mem"
	"git.defalsify.org/vise.git/engine"
	"git.defalsify.org/vise.git/persist"
	"git.defalsify.org/vise.git/state"
	"verif/harness/internal/hx"
)

func init() { drivers["loop"] = runLoop }

// ---- the recorder ------------------------------------------------------------------------

type lCall struct {
	Input   []byte `json:"input"`
	Cont    bool   `json:"cont"`
	Exec    string `json:"exec"`
	Flushed bool   `json:"flushed"`
	Out     []byte `json:"out"`
	L       int    `json:"l"`
	Flush   string `json:"flush"`
	snap    string // the session after the request
}

func (c lCall) term() string {
	fl := "None"
	if c.Flushed {
		fl = fmt.Sprintf("(Some (%s, %d, %s))", hx.B(c.Out), c.L, c.Flush)
	}
	sn := c.snap
	if sn == "" {
		sn = "None"
	}
	return fmt.Sprintf("(mkLobs %s %s %s %s %s)", hx.B(c.Input), hx.Bool(c.Cont), c.Exec, fl, sn)
}

type recEngine struct {
	en       engine.Engine
	buf      *bytes.Buffer // the writer handed to Loop
	calls    []lCall
	finishes int
	stray    int // Flush before any Exec, or on another writer: never expected
	snapshot func() string
}

func (r *recEngine) Exec(ctx context.Context, input []byte) (bool, error) {
	r.calls = append(r.calls, lCall{Input: append([]byte{}, input...), Exec: "OSPanic"})
	i := len(r.calls) - 1
	cont, err := r.en.Exec(ctx, input)
	r.calls[i].Cont = cont
	r.calls[i].Exec = errClass(err)
	r.calls[i].snap = r.snapshot()
	return cont, err
}

func (r *recEngine) Flush(ctx context.Context, w io.Writer) (int, error) {
	if len(r.calls) == 0 || r.calls[len(r.calls)-1].Flushed || w != io.Writer(r.buf) {
		r.stray++
		return r.en.Flush(ctx, w)
	}
	i := len(r.calls) - 1
	r.calls[i].Flushed = true
	r.calls[i].Flush = "OSPanic"
	before := r.buf.Len()
	r.calls[i].snap = ""
	defer func() { r.calls[i].Out = append([]byte{}, r.buf.Bytes()[before:]...) }()
	l, err := r.en.Flush(ctx, w)
	r.calls[i].L = l
	r.calls[i].Flush = errClass(err)
	r.calls[i].snap = r.snapshot()
	return l, err
}

func (r *recEngine) Finish(ctx context.Context) error {
	r.finishes++
	return r.en.Finish(ctx)
}

// ---- one case ------------------------------------------------------------------------------

type loopObs struct {
	Written  []byte  `json:"written"`
	Stat     string  `json:"stat"`
	Panic    string  `json:"panic,omitempty"`
	Err      string  `json:"err,omitempty"`
	Calls    []lCall `json:"calls"`
	Finishes int     `json:"finishes"`
	Stray    int     `json:"stray"`
	Mode     int     `json:"mode"`
	Stored   string  `json:"stored,omitempty"`
	snap     string
}

// the error class Loop returned: "unexpected termination" wraps the cause with %v (its type is lost)
func loopStat(err error) string {
	if err == nil {
		return "OLOk"
	}
	if strings.HasPrefix(err.Error(), "unexpected termination: ") {
		return "OLTerm"
	}
	return strings.Replace(errClass(err), "OSErr", "OLErr", 1)
}

// mode: 0 = the long-lived engine of engine.go (WithState/WithMemory); 1 = over a persister on a memory
// store; 2 = the same created WithFlush; 3, 4 = the same two over a filesystem store.  In the
// persister modes the store has no record for the session, and the record it holds after Loop is read
// back with a new persister (as the persisted mode of engine.go does)
func runLoopCase(a *eApp, c *eCfg, initial []byte, reader []byte, mode int) (loopObs, error) {
	// watchdog: a generated application must not make the real engine loop
	done := make(chan struct{})
	defer close(done)
	go func() {
		select {
		case <-done:
		case <-time.After(30 * time.Second):
			fmt.Fprintf(os.Stderr, "harness: loop case did not finish in 30s: %s\n", a.term())
			os.Exit(4)
		}
	}()
	var o loopObs
	w := &eWorld{counts: map[string]int{}}
	rs, err := buildResource(a, w)
	if err != nil {
		return o, err
	}
	// the long-lived engine of engine.go
	en := engine.NewEngine(mkConfig(c), rs)
	if c.First != nil {
		en = en.WithFirst(scripted(w, "_first", c.First))
	}
	o.Mode = mode
	var st *state.State
	var ca *cache.Cache
	var store db.Db
	var pe *persist.Persister
	snapshot := func() string { return snapTerm(st, ca) }
	if mode == 0 {
		st = state.NewState(c.FlagCount)
		ca = cache.NewCache()
		if c.CacheSize > 0 {
			ca = ca.WithCacheSize(c.CacheSize)
		}
		en = en.WithState(st).WithMemory(ca)
	} else {
		if mode >= 3 {
			dir, derr := os.MkdirTemp("", "vh-loop-")
			if derr != nil {
				return o, derr
			}
			defer os.RemoveAll(dir)
			fs := fsdb.NewFsDb()
			if cerr := fs.Connect(context.Background(), dir); cerr != nil {
				return o, cerr
			}
			store = fs
		} else {
			store = memdb.NewMemDb()
			store.Connect(context.Background(), "")
		}
		pe = persist.NewPersister(store)
		if mode == 2 || mode == 4 {
			pe = pe.WithFlush()
		}
		en = en.WithPersister(pe)
		// the session the engine works on is the persister's content at the time of the call
		snapshot = func() string {
			pst := pe.GetState()
			pca, _ := pe.GetMemory().(*cache.Cache)
			return snapTerm(pst, pca)
		}
	}
	buf := bytes.NewBuffer(nil)
	rec := &recEngine{en: en, buf: buf}
	rec.snapshot = func() (s string) {
		s = "None"
		hx.Recover(func() { s = snapshot() })
		return
	}
	o.Stat = "OLPanic"
	panicked, v := hx.Recover(func() {
		err := engine.Loop(context.Background(), rec, bytes.NewReader(reader), buf, initial)
		o.Stat = loopStat(err)
		if err != nil {
			o.Err = err.Error()
		}
	})
	o.Written = append([]byte{}, buf.Bytes()...)
	o.Calls = rec.calls
	o.Finishes = rec.finishes
	o.Stray = rec.stray
	o.snap = snapTerm(st, ca) // "None" in the persister modes
	if panicked {
		o.Panic = fmt.Sprint(v)
		o.snap = "None"
	}
	if mode != 0 {
		pe2 := persist.NewPersister(store).WithContent(state.NewState(c.FlagCount), cache.NewCache())
		o.Stored = "(Some None)"
		var lerr error
		lp, _ := hx.Recover(func() { lerr = pe2.Load("sess") })
		if !lp && lerr == nil {
			o.Stored = "(Some " + snapTerm(pe2.State, pe2.Memory) + ")"
		}
	}
	return o, nil
}

func loopCase(kind string, g genOut, initial []byte, reader []byte, mode int) (hx.Case, loopObs, error) {
	o, err := runLoopCase(g.app, g.cfg, initial, reader, mode)
	if err != nil {
		return hx.Case{}, o, err
	}
	ini := "None"
	if initial != nil {
		ini = "(Some " + hx.B(initial) + ")"
	}
	calls := make([]string, len(o.Calls))
	for i, c := range o.Calls {
		calls[i] = c.term()
	}
	stored := "None"
	if o.Stored != "" {
		stored = o.Stored
	}
	term := fmt.Sprintf("(mkLcase %s %s %s %s %s %s %s %d %d %s %d %s)", g.app.term(), g.cfg.term(), ini, hx.B(reader),
		hx.B(o.Written), o.Stat, hx.List(calls), o.Finishes, o.Stray, o.snap, mode, stored)
	desc := map[string]interface{}{"nodes": g.desc, "cfg": g.cfg, "app": g.app, "initial_nil": initial == nil,
		"initial": string(initial), "reader": string(reader), "observed": o}
	return hx.Case{Term: term, Kind: kind, Trivial: len(o.Calls) < 2, Desc: desc}, o, nil
}

// ---- generators -----------------------------------------------------------------------------

// every code point with the Unicode White_Space property that is not ASCII (the model's list)
var lUniSpaces = []string{"\u0085", "\u00a0", "\u1680", "\u2000", "\u2001", "\u2002", "\u2003", "\u2004", "\u2005", "\u2006", "\u2007", "\u2008", "\u2009", "\u200a",
	"\u2028", "\u2029", "\u202f", "\u205f", "\u3000"}
var lAsciiSpaces = []string{" ", " ", "\t", "\r", "\v", "\f", "  "}

// byte sequences that LOOK like the above but are not white space for Go (malformed stream)
var lNotSpaces = []string{"\xc2", "\xa0", "\x85", "\xe2\x80", "\xe2", "\x80\xa8", "\xc0\xa0", "\xe0\x80\xa0", "\xe2\x80\x8b", "\xe2\x80\xa7",
	"\xe3\x80\x81", "\xc2\x84", "\xf0\xe2\x80", "\xe1\x9a", "\xff", "\xc2\xc2", "\x1c", "\x1f", "\x00", "\x08", "\x0e"}

func lPad(r *rand.Rand, malformed bool) string {
	var sb strings.Builder
	n := 0
	switch r.Intn(10) {
	case 0, 1, 2:
		n = 1
	case 3:
		n = 2 + r.Intn(3)
	}
	for i := 0; i < n; i++ {
		k := r.Intn(10)
		switch {
		case malformed && k < 4:
			sb.WriteString(pick(r, lNotSpaces))
		case k < 7:
			sb.WriteString(pick(r, lAsciiSpaces))
		default:
			sb.WriteString(pick(r, lUniSpaces))
		}
	}
	return sb.String()
}

func lToken(r *rand.Rand, sels []string) string {
	k := r.Intn(100)
	switch {
	case k < 64:
		return pick(r, sels)
	case k < 75:
		return pick(r, []string{"11", "22", "11", "11"})
	case k < 81:
		return pick(r, eSelPool)
	case k < 86:
		return ""
	case k < 92:
		return pick(r, []string{"zz", "q", "+1", "7 7", "abc'def", "1\t1", "1 1"})
	case k < 96:
		return pick(r, []string{"!bad", "-", "\x00", "é", "+", "*", "_", "\xc2", "+\u3000"})
	case k < 98:
		return strings.Repeat("1", 250+r.Intn(6)) // just within the input limit of 255
	}
	return strings.Repeat("1", 256+r.Intn(45))
}

// the reader content: the number of lines, whether the last one is terminated
func genReader(r *rand.Rand, sels []string, malformed bool) []byte {
	var b bytes.Buffer
	n := r.Intn(9)
	if r.Intn(12) == 0 {
		n = 0
	}
	for i := 0; i < n; i++ {
		b.WriteString(lPad(r, malformed))
		b.WriteString(lToken(r, sels))
		b.WriteString(lPad(r, malformed))
		switch r.Intn(8) {
		case 0:
			b.WriteString("\r\n")
		case 1:
			b.WriteString("\n\n") // an extra empty line
		default:
			b.WriteString("\n")
		}
	}
	if r.Intn(4) == 0 { // an unterminated last line: read together with io.EOF, dropped by Loop
		b.WriteString(lPad(r, malformed))
		b.WriteString(pick(r, append([]string{"", " ", "\r"}, sels...)))
	}
	return b.Bytes()
}

func genInitial(r *rand.Rand, sels []string) []byte {
	switch k := r.Intn(20); {
	case k < 8:
		return nil
	case k < 14:
		return []byte{}
	case k < 17:
		return []byte(pick(r, sels))
	case k < 18:
		return []byte(" " + pick(r, sels)) // initial is NOT trimmed: refused
	case k < 19:
		return []byte(pick(r, []string{"!bad", "\n", strings.Repeat("a", 300), "+", "1\n"}))
	}
	return []byte(pick(r, eSelPool))
}

// ---- hand-written corpus ---------------------------------------------------------------------

type loopCorpusCase struct {
	name    string
	app     string // name of a case of engineCorpus
	cfg     *eCfg  // nil: the corpus case's
	initial []byte
	nilInit bool
	reader  string
	mode    int // see runLoopCase
}

var loopCorpus = []loopCorpusCase{
	// the session ends gracefully at the third line: the last two are never read
	{name: "graceful-end-mid-input", app: "graceful-end", nilInit: true, reader: "1\n1\n\n1\n1\n"},
	// an entry function sets TERMINATE: the request reports stop, Loop returns nil, nothing after
	{name: "terminate", app: "terminate-blocked", initial: []byte{}, reader: "1\n0\n1\n\n"},
	{name: "abnormal-end", app: "abnormal-end", nilInit: true, reader: "1\n\n1\n"},
	// invalid characters: Exec refuses with cont = true and an error: "unexpected termination"
	{name: "refused-line", app: "long-and-malformed", nilInit: true, reader: "1\n!bad\n0\n"},
	{name: "refused-long-line", app: "long-and-malformed", nilInit: true, reader: "1\n" + strings.Repeat("1", 300) + "\n0\n"},
	// a line longer than bufio's 4096-byte buffer, all white space but one selector
	{name: "long-blank-line", app: "long-and-malformed", nilInit: true, reader: strings.Repeat(" ", 5000) + "1" + strings.Repeat("\t", 4200) + "\n0\n"},
	{name: "long-line", app: "long-and-malformed", nilInit: true, reader: strings.Repeat("1", 9000) + "\n0\n"},
	// Flush error: the exit value does not fit the output size
	{name: "flush-exit-overflow", app: "exit-overflow", nilInit: true, reader: "1\n\n1\n"},
	// Flush error while browsing past the last page
	{name: "flush-browse-error", app: "menu-sink", nilInit: true, reader: "11\n11\n22\n11\n11\n11\n11\n"},
	// the first request fails: the error is returned as it is, nothing is read
	{name: "first-refused", app: "refused-first-request", initial: []byte("!bad"), reader: "1\n0\n"},
	{name: "first-too-long", app: "refused-first-request", initial: []byte(strings.Repeat("a", 300)), reader: "1\n0\n"},
	{name: "first-selector", app: "dupsel", initial: []byte("1"), reader: "0\n0\n"},
	// EOF handling
	{name: "unterminated-tail", app: "error-prefix", nilInit: true, reader: "1\n0"},
	{name: "only-tail", app: "error-prefix", nilInit: true, reader: "1"},
	{name: "empty-reader", app: "error-prefix", initial: []byte{}, reader: ""},
	{name: "blank-lines", app: "reset-on-empty-blank", nilInit: true, reader: "1\n \n\t\r\n\n0\n"},
	// white space
	{name: "crlf-and-tabs", app: "error-prefix", nilInit: true, reader: "  1 \r\n\t0\t\n\v1\f\n"},
	{name: "unicode-spaces", app: "error-prefix", nilInit: true, reader: "\u00a01\u3000\n\u20280\u2029\n\u16801\u205f\u0085\n"},
	{name: "not-spaces", app: "error-prefix", nilInit: true, reader: "1\xc2\n0\xa0\n"},
	{name: "not-spaces-front", app: "error-prefix", nilInit: true, reader: "\xe2\x801\n"},
	{name: "inner-space-kept", app: "error-prefix", nilInit: true, reader: " 7 7 \n"},
	// entry function configured
	{name: "first-terminate", app: "first-terminate", nilInit: true, reader: "1\n0\n1\n"},
	{name: "first-long-exit", app: "first-long-exit", nilInit: true, reader: "1\n0\n"},
	{name: "deep-cycle", app: "deep-cycle", nilInit: true, reader: strings.Repeat("1\n", 131)},
	{name: "sizer-sink", app: "sizer-sink-name", nilInit: true, reader: "11\n22\n1\n0\n11\n"},
	{name: "anon-node", app: "anon-node", nilInit: true, reader: "0\nx\n1\n\n0\n"},
	// C02: paged sinks walked by a client whose lines end in CR LF or carry blanks and tabs around the
	// offered browse selectors (INCMP > 11, INCMP < 22)
	{name: "sink-walk-crlf", app: "sizer-sink-name", nilInit: true, reader: "11\r\n11\r\n22\r\n22\r\n1\r\n0\r\n"},
	{name: "sink-walk-blanks", app: "sizer-sink-name", nilInit: true, reader: " 11\n11 \n\t22\t\n  22  \r\n"},
	{name: "menu-walk-crlf", app: "menu-sink", nilInit: true, reader: "11\r\n11\r\n22\r\n11\r\n"},
	{name: "menu-walk-blanks", app: "menu-sink", nilInit: true, reader: "11 \n\t11\n 22\t\r\n11\v\n"},
	{name: "browse-walk-crlf", app: "browse-past-end", nilInit: true, reader: "22\r\n11\r\n 11\r\n11 \r\n"},
	{name: "sink-reused-crlf", app: "sink-name-reused", nilInit: true, reader: "1\r\n0\r\n2\r\n0\r\n"},
	// C12: Loop over a persister, plain and WithFlush, memory and filesystem store, on sessions the ENGINE
	// ends (graceful end, TERMINATE, abnormal end, stop on the first request) and on the other exits (EOF, error)
	{name: "persist-graceful-end", app: "graceful-end", nilInit: true, reader: "1\n1\n\n1\n", mode: 1},
	{name: "persist-flush-graceful-end", app: "graceful-end", nilInit: true, reader: "1\n1\n\n1\n", mode: 2},
	{name: "persist-fs-graceful-end", app: "graceful-end", nilInit: true, reader: "1\n1\n\n1\n", mode: 3},
	{name: "persist-fs-flush-graceful-end", app: "graceful-end", nilInit: true, reader: "1\n1\n\n1\n", mode: 4},
	{name: "persist-terminate", app: "terminate-blocked", initial: []byte{}, reader: "1\n0\n1\n", mode: 1},
	{name: "persist-flush-terminate", app: "terminate-blocked", initial: []byte{}, reader: "1\n0\n1\n", mode: 2},
	{name: "persist-fs-flush-terminate", app: "terminate-blocked", initial: []byte{}, reader: "1\n0\n1\n", mode: 4},
	{name: "persist-flush-abnormal-end", app: "abnormal-end", nilInit: true, reader: "1\n\n1\n", mode: 2},
	{name: "persist-flush-croak-flags", app: "croak", nilInit: true, reader: "1\n1\n0\n", mode: 2},
	{name: "persist-flush-eof", app: "graceful-end", nilInit: true, reader: "1\n", mode: 2},
	{name: "persist-flush-refused-line", app: "graceful-end", nilInit: true, reader: "1\n!bad\n", mode: 2},
	{name: "persist-flush-first-refused", app: "graceful-end", initial: []byte("!bad"), reader: "1\n", mode: 2},
	{name: "persist-flush-exit-overflow", app: "exit-overflow", nilInit: true, reader: "1\n\n1\n", mode: 2},
	{name: "persist-flush-first-stop", app: "first-long-exit", nilInit: true, reader: "1\n", mode: 2},
	{name: "persist-fs-eof", app: "graceful-end", nilInit: true, reader: "1\n", mode: 3},
}

// a reader for walking a paged sink: mostly the browse selectors, on lines ending in CR LF or padded
// with blanks and tabs
func genBrowseReader(r *rand.Rand, sels []string) []byte {
	var b bytes.Buffer
	n := 2 + r.Intn(7)
	pad := func() string {
		if r.Intn(5) < 2 {
			return ""
		}
		return pick(r, []string{" ", "\t", "  ", " \t", "\r", "\v", "\f", "\u00a0", "\u3000"})
	}
	for i := 0; i < n; i++ {
		tok := pick(r, []string{"11", "11", "11", "22", "22"})
		if r.Intn(6) == 0 {
			tok = pick(r, sels)
		}
		b.WriteString(pad())
		b.WriteString(tok)
		b.WriteString(pad())
		if r.Intn(2) == 0 {
			b.WriteString("\r\n")
		} else {
			b.WriteString("\n")
		}
	}
	return b.Bytes()
}

func findEngineCorpus(name string) (corpusCase, bool) {
	for _, cc := range engineCorpus {
		if cc.name == name {
			return cc, true
		}
	}
	return corpusCase{}, false
}

// ---- driver ------------------------------------------------------------------------------------

func runLoop(o opts) error {
	viol := "loop_violations"
	switch o.prop {
	case "C01":
		viol = "loop_violations_c01"
	case "C20", "C06", "C17":
		viol = "loop_violations_c20"
	case "C02":
		viol = "loop_violations_c02"
	case "C12", "C07":
		viol = "loop_violations_c12"
	}
	w := &hx.Writer{Dir: o.out, Prop: o.prop, Imports: "Bytes Errors Consts Codec CacheModel StateModel NavModel RenderModel VmModel EngineModel LoopModel CorrBase EngineCorr EngineMon LoopCorr",
		CaseType: "lcase", Mism: "loop_mismatches", Viol: viol, PerShard: 30}
	count := func(ob loopObs, reader []byte) {
		w.Count("stat:" + ob.Stat)
		w.Count(fmt.Sprintf("requests:%d", min(len(ob.Calls), 10)))
		lines := bytes.Count(reader, []byte{'\n'})
		if len(ob.Calls) > 0 && len(ob.Calls)-1 < lines {
			w.Count("stopped-before-end-of-input")
		}
		if len(reader) > 0 && reader[len(reader)-1] != '\n' {
			w.Count("unterminated-tail")
		}
		if ob.Panic != "" {
			w.Count("panic")
		}
		w.Count(fmt.Sprintf("mode:%d", ob.Mode))
		if ob.Mode != 0 && len(ob.Calls) > 0 && !ob.Calls[len(ob.Calls)-1].Cont && ob.Stat == "OLOk" {
			w.Count("persisted:engine-ended-session")
			if ob.Mode == 2 || ob.Mode == 4 {
				w.Count("persisted:engine-ended-session-withflush")
			}
		}
		for i, c := range ob.Calls {
			if i > 0 && (string(c.Input) == "11" || string(c.Input) == "22") && bytes.Contains(ob.Calls[i-1].Out, append([]byte("\n"), append(c.Input, ':')...)) {
				w.Count("browse-selector-offered-and-typed")
			}
		}
		// what the executed lines exercised of TrimSpace
		raw := bytes.Split(reader, []byte{'\n'})
		for i := 1; i < len(ob.Calls) && i-1 < len(raw)-1; i++ {
			l := string(raw[i-1]) + "\n"
			t := strings.TrimSpace(l)
			switch {
			case t != strings.Trim(l, " \t\r\n\v\f"):
				w.Count("executed-line:unicode-space-trimmed")
			case t != strings.TrimSuffix(l, "\n"):
				w.Count("executed-line:ascii-space-trimmed")
			}
			if len(t) > 0 && (t[0] >= 0x80 || t[len(t)-1] >= 0x80) {
				w.Count("executed-line:non-ascii-end-kept")
			}
		}
		for _, c := range ob.Calls {
			if c.Flushed && c.Flush != "OSOk" {
				w.Count("flush:" + c.Flush)
			}
		}
	}
	for _, lc := range loopCorpus {
		cc, ok := findEngineCorpus(lc.app)
		if !ok {
			return fmt.Errorf("loop corpus %s: no engine corpus case %s", lc.name, lc.app)
		}
		g, _ := cc.build()
		if lc.cfg != nil {
			g.cfg = lc.cfg
		}
		ini := lc.initial
		if lc.nilInit {
			ini = nil
		}
		c, ob, err := loopCase("corpus:"+lc.name, g, ini, []byte(lc.reader), lc.mode)
		if err != nil {
			return err
		}
		w.Add(c)
		count(ob, []byte(lc.reader))
	}
	for i, g := range exampleApps() {
		r := hx.Rng(o.seed, "loop-example", i)
		reader := genReader(r, g.sels, false)
		c, ob, err := loopCase("example", g, genInitial(r, g.sels), reader, 0)
		if err != nil {
			return err
		}
		w.Add(c)
		count(ob, reader)
	}
	for i := 0; i < o.n; i++ {
		r := hx.Rng(o.seed, "loop", i)
		g := genApp(r)
		malformed := r.Intn(8) == 0
		kind := "generated"
		if malformed {
			kind = "generated-malformed"
		}
		ini := genInitial(r, g.sels)
		// genApp favours applications that fail early; three cases out of four are regenerated (up to
		// 8 times, same PRNG) until the first request of the REAL engine goes on, so that Loop reads input
		if r.Intn(4) > 0 {
			for try := 0; try < 8; try++ {
				dry, err := runLoopCase(g.app, g.cfg, ini, nil, 0)
				if err != nil {
					return err
				}
				if len(dry.Calls) == 1 && dry.Calls[0].Cont && dry.Calls[0].Exec == "OSOk" && dry.Calls[0].Flush == "OSOk" {
					break
				}
				g = genApp(r)
				ini = genInitial(r, g.sels)
			}
		}
		reader := genReader(r, g.sels, malformed)
		// a second PRNG for the later additions, so that the cases above stay what they were
		r2 := hx.Rng(o.seed, "loop-extra", i)
		// browse walks (every case under -prop C02, one in five otherwise): an application whose first
		// page offers the 'next' entry "11:", walked with the browse selectors on CR LF / padded lines
		if o.prop == "C02" || r2.Intn(5) == 0 {
			for try := 0; try < 150; try++ {
				gb := genApp(r2)
				dry, err := runLoopCase(gb.app, gb.cfg, nil, nil, 0)
				if err != nil {
					return err
				}
				if len(dry.Calls) == 1 && dry.Calls[0].Cont && dry.Calls[0].Flush == "OSOk" && bytes.Contains(dry.Calls[0].Out, []byte("\n11:")) {
					g, ini, kind = gb, nil, "generated-browse-walk"
					reader = genBrowseReader(r2, gb.sels)
					break
				}
			}
		}
		// persister modes (every case under -prop C12 / C07, one in four otherwise)
		mode := 0
		if o.prop == "C12" || o.prop == "C07" || r2.Intn(4) == 0 {
			mode = 1 + r2.Intn(4)
			if r2.Intn(3) == 0 {
				mode = 2 // WithFlush on a memory store
			}
		}
		c, ob, err := loopCase(kind, g, ini, reader, mode)
		if err != nil {
			return err
		}
		w.Add(c)
		count(ob, reader)
	}
	return w.Flush()
}
