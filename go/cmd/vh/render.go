//go:build verif

package main

import (
	"context"
	"errors"
	"fmt"
	"math/rand"
	"sort"
	"strings"

	"git.defalsify.org/vise.git/cache"
	"git.defalsify.org/vise.git/db"
	memdb "git.defalsify.org/vise.git/db/mem"
	"git.defalsify.org/vise.git/render"
	"git.defalsify.org/vise.git/resource"
	"verif/harness/internal/hx"
)

func init() {
	drivers["sink"] = runSink
	drivers["render"] = runRender
}

const renderImports = "Bytes Errors CacheModel RenderModel CorrBase RenderCorr"

// ---------------------------------------------------------------------------------------
// shared printers

func rdErrClass(err error) string {
	var be *render.BrowseError
	if errors.As(err, &be) {
		return "(Err EBrowse)"
	}
	return "(Err EGen)"
}

func rdResBytes(s string, err error, panicked bool) string {
	if panicked {
		return hx.Panic()
	}
	if err != nil {
		return rdErrClass(err)
	}
	return hx.Ok(hx.S(s))
}

func sortedAlist(m map[string]string) string {
	keys := make([]string, 0, len(m))
	for k := range m {
		keys = append(keys, k)
	}
	sort.Strings(keys)
	items := make([]string, len(keys))
	for i, k := range keys {
		items[i] = fmt.Sprintf("(%s, %s)", hx.S(k), hx.S(m[k]))
	}
	return hx.List(items)
}

// ---------------------------------------------------------------------------------------
// driver "sink": the private joinSink + Sizer.GetAt

type sinkIn struct {
	rows []string
	rem  uint32
	ms   [4]uint32
}

func sinkCase(in sinkIn, kind string) hx.Case {
	ca := cache.NewCache()
	rs := resource.NewMenuResource()
	szr := render.NewSizer(0)
	pg := render.NewPage(ca, rs).WithSizer(szr)
	szr.AddCursor(0) // as Page.prepare does before the pre-render
	var r string
	var count uint16
	var err error
	pk, _ := hx.Recover(func() { r, count, err = pg.VerifJoinSink(in.rows, in.rem, in.ms) })
	join := ""
	switch {
	case pk:
		join = hx.Panic()
	case err != nil:
		join = rdErrClass(err)
	default:
		join = hx.Ok(fmt.Sprintf("(%s, %d)", hx.S(r), count))
	}
	crs := hx.NList(szr.VerifCursors())
	pages := []string{}
	outcome := "err"
	if !pk && err == nil {
		outcome = fmt.Sprintf("pages=%d", count)
		szr.VerifSetSink("s")
		for idx := 0; idx <= int(count)+1; idx++ {
			var m map[string]string
			var gerr error
			gp, _ := hx.Recover(func() {
				m, gerr = szr.GetAt(map[string]string{"o": "x", "s": r}, uint16(idx))
			})
			switch {
			case gp:
				pages = append(pages, hx.Panic())
			case gerr != nil:
				pages = append(pages, rdErrClass(gerr))
			default:
				pages = append(pages, hx.Ok(sortedAlist(m)))
			}
		}
	}
	term := fmt.Sprintf("mkSinkCase %s %d (%d, %d, %d, %d) %s %s %s", hx.SList(in.rows), in.rem,
		in.ms[0], in.ms[1], in.ms[2], in.ms[3], join, crs, hx.List(pages))
	lens := make([]int, len(in.rows))
	for i, v := range in.rows {
		lens[i] = len(v)
	}
	return hx.Case{Kind: kind, Trivial: len(in.rows) < 2, Term: term,
		Desc: map[string]interface{}{"rows": in.rows, "lens": lens, "remaining": in.rem, "menusizes": in.ms, "outcome": outcome}}
}

func genRow(r *rand.Rand, maxLen int) string {
	var l int
	switch r.Intn(10) {
	case 0:
		l = 0
	case 1:
		l = 1
	case 2:
		l = maxLen
	default:
		l = 1 + r.Intn(maxLen)
	}
	b := make([]byte, l)
	c := "abcdefgh"[r.Intn(8)]
	for i := range b {
		b[i] = c
	}
	if l > 1 && r.Intn(120) == 0 {
		b[r.Intn(l)] = 0 // NUL inside a row, rarely
	}
	return string(b)
}

func genRows(r *rand.Rand, maxRows, maxLen int) []string {
	n := r.Intn(maxRows + 1)
	rows := make([]string, 0, n)
	noEmpty := r.Intn(3) > 0 // two thirds of the row lists have no empty rows
	for i := 0; i < n; i++ {
		v := genRow(r, maxLen)
		if noEmpty && v == "" {
			v = "z"
		}
		rows = append(rows, v)
	}
	if n > 0 && !noEmpty && r.Intn(3) == 0 {
		rows[n-1] = "" // trailing empty row
	}
	return rows
}

var labelSizes = [][4]uint32{{0, 0, 0, 0}, {0, 7, 7, 14}, {0, 3, 9, 12}, {0, 9, 3, 12}, {0, 7, 11, 18}, {0, 1, 1, 2}}

func runSink(o opts) error {
	w := &hx.Writer{Dir: o.out, Prop: o.prop, Imports: renderImports, CaseType: "sinkcase",
		Mism: "sink_mismatches", Viol: "sink_violations", PerShard: 50}
	// corpus: one per finding / repaired defect
	w.Add(sinkCase(sinkIn{[]string{"", "aaaa"}, 38, [4]uint32{0, 7, 7, 14}}, "corpus:K-C02-emptyrow"))
	w.Add(sinkCase(sinkIn{[]string{"a", "cccc"}, 11, [4]uint32{0, 7, 7, 14}}, "corpus:K-C02-budget"))
	w.Add(sinkCase(sinkIn{[]string{"aaaa", "bbbb", "cccc", ""}, 18, [4]uint32{0, 7, 7, 14}}, "corpus:fixed-getat-bounds"))
	w.Add(sinkCase(sinkIn{[]string{"a\x00b", "cc"}, 30, [4]uint32{0, 7, 7, 14}}, "corpus:K-C02-nul"))
	w.Add(sinkCase(sinkIn{nil, 10, [4]uint32{0, 0, 0, 0}}, "corpus:no-sink"))
	w.Add(sinkCase(sinkIn{[]string{"aa", "bb"}, 0, [4]uint32{0, 7, 7, 14}}, "corpus:remaining-0-wraps"))
	maxRows, maxLen := 12, 20
	for c := 0; c < o.n; c++ {
		r := hx.Rng(o.seed, "sink", c)
		rows := genRows(r, maxRows, maxLen)
		ms := labelSizes[r.Intn(len(labelSizes))]
		// several values of `remaining` per row list: 0..80, biased towards the band where
		// page breaks move
		nrem := 3
		if o.tier == "thorough" {
			nrem = 8
		}
		for k := 0; k < nrem; k++ {
			var rem uint32
			switch r.Intn(4) {
			case 0:
				rem = uint32(r.Intn(81))
			case 1:
				rem = uint32(r.Intn(8))
			default:
				rem = ms[1] + ms[2] + uint32(r.Intn(maxLen+14))
			}
			w.Add(sinkCase(sinkIn{rows, rem, ms}, "generated"))
		}
	}
	if o.tier == "thorough" {
		// exhaustive: rows over {"", a, bb, cccc}^<=4, every remaining 0..40, default label sizes
		w.PerShard = 400
		alpha := []string{"", "a", "bb", "cccc"}
		var lists [][]string
		var rec func(cur []string, depth int)
		rec = func(cur []string, depth int) {
			lists = append(lists, append([]string{}, cur...))
			if depth == 4 {
				return
			}
			for _, a := range alpha {
				rec(append(cur, a), depth+1)
			}
		}
		rec(nil, 0)
		for _, rows := range lists {
			for rem := uint32(0); rem <= 40; rem++ {
				w.Add(sinkCase(sinkIn{rows, rem, [4]uint32{0, 7, 7, 14}}, "exhaustive"))
			}
		}
	}
	return w.Flush()
}

// ---------------------------------------------------------------------------------------
// driver "render": a real render.Page over a real cache.Cache and a resource

type tblEntry struct {
	val string
	err bool
}

type cacheEntry struct {
	k, v string
	lim  uint16
}

type menuCfg struct {
	sep    string
	items  [][2]string
	browse render.BrowseConfig
	msink  bool
}

type rcfg struct {
	size    int64 // -1 = no sizer
	late    bool
	cache   []cacheEntry
	maps    []string
	sym     string
	tpls    map[string]tblEntry
	labels  map[string]tblEntry
	menu    *menuCfg
	errText *string
	dbrs    bool // serve templates and labels from a DbResource over a mem db
}

type rop struct {
	kind string // render | reset | map | put
	idx  uint16
	a, b string
}

func (o rop) term() string {
	switch o.kind {
	case "render":
		return fmt.Sprintf("(RRender %d)", o.idx)
	case "reset":
		return "RReset"
	case "map":
		return fmt.Sprintf("(RMap %s)", hx.S(o.a))
	}
	return fmt.Sprintf("(RPut %s %s)", hx.S(o.a), hx.S(o.b))
}

func tblTerm(m map[string]tblEntry) string {
	keys := make([]string, 0, len(m))
	for k := range m {
		keys = append(keys, k)
	}
	sort.Strings(keys)
	items := make([]string, len(keys))
	for i, k := range keys {
		if m[k].err {
			items[i] = fmt.Sprintf("(%s, Err EGen)", hx.S(k))
		} else {
			items[i] = fmt.Sprintf("(%s, Ok %s)", hx.S(k), hx.S(m[k].val))
		}
	}
	return hx.List(items)
}

func browseTerm(b render.BrowseConfig) string {
	return fmt.Sprintf("(mkBrowse %s %s %s %s %s %s)", hx.Bool(b.NextAvailable), hx.S(b.NextSelector), hx.S(b.NextTitle),
		hx.Bool(b.PreviousAvailable), hx.S(b.PreviousSelector), hx.S(b.PreviousTitle))
}

func (c rcfg) term() string {
	size := "None"
	if c.size >= 0 {
		size = fmt.Sprintf("(Some %d)", c.size)
	}
	ces := make([]string, len(c.cache))
	for i, e := range c.cache {
		ces[i] = fmt.Sprintf("(%s, %s, %d)", hx.S(e.k), hx.S(e.v), e.lim)
	}
	menu := "None"
	if c.menu != nil {
		its := make([]string, len(c.menu.items))
		for i, it := range c.menu.items {
			its[i] = fmt.Sprintf("(%s, %s)", hx.S(it[0]), hx.S(it[1]))
		}
		menu = fmt.Sprintf("(Some (%s, %s, %s, %s))", hx.S(c.menu.sep), hx.List(its), browseTerm(c.menu.browse), hx.Bool(c.menu.msink))
	}
	et := "None"
	if c.errText != nil {
		et = "(Some " + hx.S(*c.errText) + ")"
	}
	return fmt.Sprintf("(mkRcfg %s %s %s %s %s %s %s %s %s)", size, hx.Bool(c.late), hx.List(ces), hx.SList(c.maps), hx.S(c.sym),
		tblTerm(c.tpls), tblTerm(c.labels), menu, et)
}

type textErr string

func (e textErr) Error() string { return string(e) }

func (c rcfg) resource() resource.Resource {
	if c.dbrs {
		ctx := context.Background()
		m := memdb.NewMemDb()
		m.SetLock(db.DATATYPE_TEMPLATE, false)
		m.SetLock(db.DATATYPE_MENU, false)
		m.Connect(ctx, "")
		for k, e := range c.tpls {
			m.SetPrefix(db.DATATYPE_TEMPLATE)
			m.Put(ctx, []byte(k), []byte(e.val))
		}
		for k, e := range c.labels {
			m.SetPrefix(db.DATATYPE_MENU)
			m.Put(ctx, []byte(k+"_menu"), []byte(e.val))
		}
		m.SetLock(0, true)
		return resource.NewDbResource(m)
	}
	rs := resource.NewMenuResource()
	rs.WithTemplateGetter(func(ctx context.Context, s string) (string, error) {
		e, ok := c.tpls[s]
		if !ok || e.err {
			return "", fmt.Errorf("no template for %s", s)
		}
		return e.val, nil
	})
	rs.WithMenuGetter(func(ctx context.Context, s string) (string, error) {
		e, ok := c.labels[s]
		if !ok {
			return s, nil
		}
		if e.err {
			return "", fmt.Errorf("label lookup failed for %s", s)
		}
		return e.val, nil
	})
	return rs
}

type liveRun struct {
	cfg    rcfg
	pg     *render.Page
	mn     *render.Menu
	szr    *render.Sizer
	mapres []bool
}

// build the page the way vm.Reset and the node's MAP/MOUT/MNEXT/MPREV/MSINK instructions do
func (c rcfg) build() *liveRun {
	ca := cache.NewCache()
	for _, e := range c.cache {
		if err := ca.Add(e.k, e.v, e.lim); err != nil {
			panic(fmt.Sprintf("harness: cache add %q: %v", e.k, err))
		}
	}
	lr := &liveRun{cfg: c}
	lr.pg = render.NewPage(ca, c.resource())
	lr.pg.Reset()
	if c.menu != nil {
		lr.mn = render.NewMenu()
		if c.menu.sep != ":" {
			lr.mn = lr.mn.WithSeparator(c.menu.sep)
		}
		lr.pg = lr.pg.WithMenu(lr.mn)
	}
	if c.size >= 0 {
		lr.szr = render.NewSizer(uint32(c.size))
		if !c.late {
			lr.pg = lr.pg.WithSizer(lr.szr)
		}
	}
	if c.menu != nil {
		lr.mn = lr.mn.WithBrowseConfig(c.menu.browse)
		for _, it := range c.menu.items {
			lr.mn.Put(it[0], it[1])
		}
		if c.menu.msink {
			mcfg := lr.mn.GetBrowseConfig()
			lr.mn = lr.mn.WithSink().WithBrowseConfig(mcfg).WithPages()
		}
	}
	for _, k := range c.maps {
		err := lr.pg.Map(k)
		lr.mapres = append(lr.mapres, err == nil)
	}
	if c.size >= 0 && c.late {
		lr.pg = lr.pg.WithSizer(lr.szr)
	}
	if c.errText != nil {
		lr.pg = lr.pg.WithError(textErr(*c.errText))
	}
	return lr
}

func (lr *liveRun) observe(out string) string {
	ctx := context.Background()
	crs, zsink := "[]", "[]"
	if lr.szr != nil {
		crs = hx.NList(lr.szr.VerifCursors())
		zsink = hx.S(lr.szr.VerifSink())
	}
	menu := "None"
	if lr.mn != nil {
		var pc uint16
		var sk, nx, pv bool
		n, err := fmt.Sscanf(lr.mn.String(), "pagecount: %v menusink: %v next: %v prev: %v", &pc, &sk, &nx, &pv)
		if err != nil || n != 4 {
			panic("harness: cannot parse Menu.String(): " + lr.mn.String())
		}
		menu = fmt.Sprintf("(Some (%d, %s, %s, %s))", pc, hx.Bool(sk), hx.Bool(nx), hx.Bool(pv))
	}
	keys := append([]string{"", "_menu"}, lr.cfg.maps...)
	vals := make([]string, len(keys))
	for i, k := range keys {
		v, err := lr.pg.Val(k)
		if err != nil {
			vals[i] = "None"
		} else {
			vals[i] = "(Some " + hx.S(v) + ")"
		}
	}
	usage := ""
	var u1, u2 uint32
	var uerr error
	upk, _ := hx.Recover(func() { u1, u2, uerr = lr.pg.Usage() })
	switch {
	case upk:
		usage = hx.Panic()
	case uerr != nil:
		usage = "(Err EGen)"
	default:
		usage = fmt.Sprintf("(Ok (%d, %d))", u1, u2)
	}
	var ps string
	var perr error
	ppk, _ := hx.Recover(func() {
		ps, perr = lr.pg.RenderTemplate(ctx, "zzprobe", map[string]string{"_menu": "<M>"}, 0)
	})
	return fmt.Sprintf("(mkRobs %s %s %s %s %s %s %s)", out, crs, zsink, menu, hx.List(vals), usage, rdResBytes(ps, perr, ppk))
}

type stepObs struct {
	op      rop
	out     string // Coq term
	ok      bool
	outText string
}

func (lr *liveRun) apply(op rop) stepObs {
	ctx := context.Background()
	so := stepObs{op: op}
	switch op.kind {
	case "render":
		var s string
		var err error
		pk, _ := hx.Recover(func() { s, err = lr.pg.Render(ctx, lr.cfg.sym, op.idx) })
		so.out = rdResBytes(s, err, pk)
		so.ok = !pk && err == nil
		so.outText = s
	case "reset":
		lr.pg.WithError(nil)
		lr.pg.Reset()
		if lr.mn != nil {
			lr.mn.Reset()
		}
		so.out = "(Ok [])"
	case "map":
		if err := lr.pg.Map(op.a); err != nil {
			so.out = "(Err EGen)"
		} else {
			so.out = "(Ok [])"
		}
	case "put":
		if lr.mn != nil {
			lr.mn.Put(op.a, op.b)
		}
		so.out = "(Ok [])"
	}
	return so
}

// one run = fresh page + operations; returns the Coq term, the outcomes of the renders
func doRun(c rcfg, ops []rop) (string, []stepObs) {
	lr := c.build()
	steps := []string{}
	obs := []stepObs{}
	for _, op := range ops {
		so := lr.apply(op)
		steps = append(steps, fmt.Sprintf("(%s, %s)", op.term(), lr.observe(so.out)))
		obs = append(obs, so)
	}
	end := "(Ok [])"
	if lr.mn != nil {
		var s string
		var err error
		pk, _ := hx.Recover(func() { s, err = lr.mn.Render(context.Background(), 0) })
		end = rdResBytes(s, err, pk)
	}
	mr := make([]string, len(lr.mapres))
	for i, b := range lr.mapres {
		mr[i] = hx.Bool(b)
	}
	return fmt.Sprintf("(mkRun %s %s %s)", hx.List(mr), hx.List(steps), end), obs
}

const maxWalk = 40

// walk: idx 0,1,2,... each on a fresh page (as the VM does after a HALT: Page.Reset + the
// node's MAPs again), until two consecutive renders fail
func walkCase(c rcfg, kind string) hx.Case {
	runs := []string{}
	fails := 0
	outs := []string{}
	npages := 0
	limit := maxWalk
	if c.menu == nil {
		limit = 5 // without a menu nothing ever refuses an index (see the integration note)
	}
	for idx := 0; idx < limit && fails < 2; idx++ {
		t, obs := doRun(c, []rop{{kind: "render", idx: uint16(idx)}})
		runs = append(runs, t)
		if obs[0].ok {
			fails = 0
			npages = idx + 1
			outs = append(outs, fmt.Sprintf("%q", obs[0].outText))
		} else {
			fails++
			outs = append(outs, obs[0].out)
		}
	}
	return hx.Case{Kind: kind, Trivial: npages == 0,
		Term: fmt.Sprintf("mkRcase %s %s", c.term(), hx.List(runs)),
		Desc: map[string]interface{}{"mode": "walk", "size": c.size, "pages": npages, "outs": outs, "cfg": c.desc()}}
}

func opsCase(c rcfg, ops []rop, kind string) hx.Case {
	t, obs := doRun(c, ops)
	outs := []string{}
	nok := 0
	for _, so := range obs {
		if so.op.kind == "render" {
			if so.ok {
				nok++
				outs = append(outs, fmt.Sprintf("%d:%q", so.op.idx, so.outText))
			} else {
				outs = append(outs, fmt.Sprintf("%d:%s", so.op.idx, so.out))
			}
		} else {
			outs = append(outs, so.op.kind)
		}
	}
	return hx.Case{Kind: kind, Trivial: nok == 0,
		Term: fmt.Sprintf("mkRcase %s %s", c.term(), hx.List([]string{t})),
		Desc: map[string]interface{}{"mode": "ops", "size": c.size, "outs": outs, "cfg": c.desc()}}
}

func (c rcfg) desc() map[string]interface{} {
	d := map[string]interface{}{"sym": c.sym, "maps": c.maps, "late": c.late, "dbresource": c.dbrs}
	if e, ok := c.tpls[c.sym]; ok {
		d["template"] = e.val
	}
	ce := []string{}
	for _, e := range c.cache {
		ce = append(ce, fmt.Sprintf("%s=%q/%d", e.k, e.v, e.lim))
	}
	d["cache"] = ce
	if c.menu != nil {
		d["menu"] = fmt.Sprintf("sep=%q items=%v msink=%v next=%v/%s/%s prev=%v/%s/%s", c.menu.sep, c.menu.items, c.menu.msink,
			c.menu.browse.NextAvailable, c.menu.browse.NextSelector, c.menu.browse.NextTitle,
			c.menu.browse.PreviousAvailable, c.menu.browse.PreviousSelector, c.menu.browse.PreviousTitle)
	}
	if c.errText != nil {
		d["error_prefix"] = *c.errText
	}
	return d
}

func stdBrowse(next, prev string) render.BrowseConfig {
	return render.BrowseConfig{NextAvailable: true, NextSelector: "11", NextTitle: next,
		PreviousAvailable: true, PreviousSelector: "22", PreviousTitle: prev}
}

func simpleCfg(size int64, tpl string, val string, next, prev string) rcfg {
	return rcfg{size: size, cache: []cacheEntry{{"foo", val, 0}}, maps: []string{"foo"}, sym: "node",
		tpls:   map[string]tblEntry{"node": {val: tpl}, "zzprobe": {val: "P"}},
		labels: map[string]tblEntry{},
		menu:   &menuCfg{sep: ":", browse: stdBrowse(next, prev)}}
}

var litPool = []string{"T", "hello", "Hd:", "\n", " ", "}}", "{", "x\ny", "total ", "-", "Menu\n"}
var symPool = []string{"foo", "bar", "baz"}
var titlePool = []string{"one", "two", "to_foo", "inky", "quit", "a b", "20% off", "salt %s", "100%d"}

func genText(r *rand.Rand, n int, alphabet string) string {
	b := make([]byte, n)
	for i := range b {
		b[i] = alphabet[r.Intn(len(alphabet))]
	}
	return string(b)
}

// generated configuration; adversarial = outside the monitors' domain on purpose (API misuse,
// failing lookups, sink mentioned twice or not at all, unmapped placeholders ...)
func genCfg(r *rand.Rand, adversarial bool) rcfg {
	c := rcfg{sym: "node", tpls: map[string]tblEntry{"zzprobe": {val: "P"}}, labels: map[string]tblEntry{}}
	nsym := r.Intn(4)
	withSink := r.Intn(3) > 0
	msink := false
	if !withSink && r.Intn(3) == 0 {
		msink = true
	}
	syms := append([]string{}, symPool...)
	r.Shuffle(len(syms), func(i, j int) { syms[i], syms[j] = syms[j], syms[i] })
	syms = syms[:min(nsym, len(syms))]
	if withSink && len(syms) == 0 {
		syms = []string{"foo"}
	}
	sinkSym := ""
	maxRow := 0
	sinkTotal := 0
	for i, k := range syms {
		if withSink && i == 0 {
			rows := genRows(r, 9, 12)
			if len(rows) < 5 && r.Intn(4) > 0 {
				// enough content for several pages
				for len(rows) < 5+r.Intn(3) {
					rows = append(rows, genRow(r, 9)+"klm"[:1+r.Intn(3)])
				}
			}
			if len(rows) == 0 {
				rows = []string{"z"}
			}
			sinkTotal = len(rows) - 1
			for _, v := range rows {
				sinkTotal += len(v)
				if len(v) > maxRow {
					maxRow = len(v)
				}
			}
			c.cache = append(c.cache, cacheEntry{k, strings.Join(rows, "\n"), 0})
			sinkSym = k
		} else {
			lim := uint16(3 + r.Intn(18))
			l := r.Intn(int(lim) + 1)
			v := genText(r, l, "uvwxyz")
			if l > 4 && r.Intn(5) == 0 {
				v = v[:l/2] + "\n" + v[l/2+1:]
			}
			c.cache = append(c.cache, cacheEntry{k, v, lim})
		}
		c.maps = append(c.maps, k)
	}
	r.Shuffle(len(c.maps), func(i, j int) { c.maps[i], c.maps[j] = c.maps[j], c.maps[i] })
	// template: literals interleaved with one placeholder per mapped symbol
	tpl := ""
	order := append([]string{}, c.maps...)
	r.Shuffle(len(order), func(i, j int) { order[i], order[j] = order[j], order[i] })
	if r.Intn(8) > 0 {
		tpl += litPool[r.Intn(len(litPool))]
	}
	for _, k := range order {
		if k != sinkSym && r.Intn(6) == 0 {
			continue // a mapped symbol the template does not show
		}
		tpl += "{{." + k + "}}"
		if r.Intn(3) > 0 {
			tpl += litPool[r.Intn(len(litPool))]
		}
	}
	// menu
	m := &menuCfg{sep: ":", msink: msink}
	if r.Intn(8) == 0 {
		m.sep = []string{" - ", ".", ") "}[r.Intn(3)]
	}
	nitems := r.Intn(5)
	for i := 0; i < nitems; i++ {
		m.items = append(m.items, [2]string{fmt.Sprintf("%d", i+1), titlePool[r.Intn(len(titlePool))]})
	}
	nextT := []string{"next", "fwd", "more"}[r.Intn(3)]
	prevT := []string{"back", "previous", "prev"}[r.Intn(3)]
	m.browse = stdBrowse(nextT, prevT)
	if r.Intn(6) == 0 {
		// only 'next' configured (MNEXT without MPREV): pages after the first offer no way back
		m.browse.PreviousAvailable = false
	}
	if r.Intn(6) == 0 {
		c.labels["to_foo"] = tblEntry{val: "go to foo"}
	}
	if r.Intn(30) == 0 {
		c.labels[nextT] = tblEntry{val: "neste side"} // resolved label longer than what Menu.Sizes measures
	}
	if r.Intn(30) == 0 {
		c.labels[prevT] = tblEntry{val: "forrige side"}
	}
	c.menu = m
	if r.Intn(7) == 0 {
		e := []string{"some error", "E", "fail: x y"}[r.Intn(3)]
		c.errText = &e
	}
	// size: biased to the band template + menu + browse entries + 1..3 rows
	base := len(tpl)
	for _, e := range c.cache {
		base -= len("{{."+e.k+"}}") * strings.Count(tpl, "{{."+e.k+"}}")
		if e.lim > 0 {
			base += len(e.v) * strings.Count(tpl, "{{."+e.k+"}}")
		}
	}
	resolved := func(t string) string {
		if e, ok := c.labels[t]; ok {
			return e.val
		}
		return t
	}
	if !msink {
		for _, it := range m.items {
			base += 1 + len(it[0]) + len(m.sep) + len(resolved(it[1]))
		}
	} else {
		base += 1
		sinkTotal = len(m.items) - 1
		for _, it := range m.items {
			l := len(it[0]) + len(m.sep) + len(resolved(it[1]))
			sinkTotal += l
			if l > maxRow {
				maxRow = l
			}
		}
	}
	if c.errText != nil {
		base += len(*c.errText) + 1
	}
	nav := len(m.browse.NextSelector) + len(m.browse.PreviousSelector) + 2*len(m.sep) + len(resolved(nextT)) + len(resolved(prevT)) + 2
	switch x := r.Intn(20); {
	case x == 0:
		c.size = -1
	case x == 1:
		c.size = int64(1 + r.Intn(300))
	case x == 2:
		c.size = int64(1 + r.Intn(20))
	case x == 3:
		// exactly the size of the page without any sink content, and one byte either side: nothing is left
		// for the sink, which must be an error and never a page that silently drops it
		c.size = int64(base + r.Intn(3) - 1)
		if c.size < 1 {
			c.size = 1
		}
	case x < 6:
		c.size = int64(base + r.Intn(nav+maxRow+6)) // tight: around the point where rendering starts to work
	case x < 17:
		// aim at k pages
		k := 2 + r.Intn(5)
		per := sinkTotal/k - 6
		if per < maxRow {
			per = maxRow
		}
		c.size = int64(base + nav + 2 + per + r.Intn(4))
	default:
		c.size = int64(base + sinkTotal + r.Intn(nav+8))
	}
	if c.size == 0 {
		c.size = 1
	}
	c.tpls["node"] = tblEntry{val: tpl}
	if len(c.labels) > 0 || r.Intn(4) == 0 {
		c.dbrs = r.Intn(2) == 0
	}
	if !adversarial {
		return c
	}
	c.dbrs = false
	switch r.Intn(11) {
	case 0:
		c.menu = nil
	case 1:
		c.late = true
	case 2:
		c.size = 0 // NewSizer(0)
	case 3:
		c.tpls["node"] = tblEntry{err: true}
	case 4:
		c.tpls["node"] = tblEntry{val: tpl + "{{.nope}}"}
	case 5:
		if sinkSym != "" {
			c.tpls["node"] = tblEntry{val: tpl + "\n{{." + sinkSym + "}}"}
		} else {
			c.tpls["node"] = tblEntry{val: "{{.foo"}
		}
	case 6:
		c.labels["one"] = tblEntry{err: true}
		c.menu.items = append(c.menu.items, [2]string{"9", "one"})
	case 7:
		// second zero-size symbol: Map refuses it
		c.cache = append(c.cache, cacheEntry{"qux", "q1\nq2", 0})
		c.maps = append(c.maps, "qux")
	case 8:
		c.menu.browse.NextAvailable = r.Intn(2) == 0
		c.menu.browse.PreviousAvailable = r.Intn(2) == 0
	case 9:
		c.menu.msink = true // possibly together with a symbol sink
	case 10:
		c.maps = append(c.maps, "unknown")
	}
	return c
}

func genOps(r *rand.Rand, c rcfg) []rop {
	idx := func() uint16 { return uint16(r.Intn(4)) }
	switch r.Intn(5) {
	case 0:
		return []rop{{kind: "render", idx: idx()}, {kind: "render", idx: idx()}}
	case 1:
		return []rop{{kind: "render", idx: uint16(5 + r.Intn(3))}, {kind: "render", idx: 0}}
	case 2:
		ops := []rop{{kind: "render", idx: idx()}, {kind: "reset"}}
		for _, k := range c.maps {
			ops = append(ops, rop{kind: "map", a: k})
		}
		ops = append(ops, rop{kind: "put", a: "7", b: "again"}, rop{kind: "render", idx: idx()})
		return ops
	case 3:
		return []rop{{kind: "render", idx: 0}, {kind: "render", idx: 1}, {kind: "render", idx: 0}}
	}
	return []rop{{kind: "render", idx: idx()}, {kind: "reset"}, {kind: "render", idx: 0}}
}

func runRender(o opts) error {
	viol := "render_violations_c02"
	if o.prop == "C01" {
		viol = "render_violations_c01"
	}
	w := &hx.Writer{Dir: o.out, Prop: o.prop, Imports: renderImports, CaseType: "rcase",
		Mism: "render_mismatches", Viol: viol, PerShard: 40}
	// corpus
	w.Add(walkCase(simpleCfg(40, "T\n{{.foo}}", "\naaaa", "next", "back"), "corpus:K-C02-emptyrow"))
	w.Add(walkCase(simpleCfg(13, "T\n{{.foo}}", "a\ncccc", "next", "back"), "corpus:K-C02-budget"))
	w.Add(walkCase(simpleCfg(20, "T\n{{.foo}}", "aaaa\nbbbb\ncccc\n", "next", "back"), "corpus:fixed-getat-bounds"))
	w.Add(walkCase(simpleCfg(24, "T\n{{.foo}}", "a\x00a\nbbbb\ncccc", "next", "back"), "corpus:K-C02-nul"))
	{
		c := simpleCfg(28, "T\n{{.foo}}", "aaaa\nbbbb\ncccc\ndddd", "next", "back")
		c.labels["back"] = tblEntry{val: "tilbake til forrige side"}
		w.Add(walkCase(c, "corpus:K-C02-labelsize"))
	}
	{
		c := simpleCfg(22, "T\n{{.foo}}", "aaaa\nbbbb\ncccc\ndddd", "next", "back")
		c.menu.sep = " - "
		w.Add(walkCase(c, "corpus:K-C02-labelsize-separator"))
	}
	w.Add(walkCase(simpleCfg(26, "T\n{{.foo}}", "aaaa\nbbbb\ncccc\ndddd\neeee\nffff", "next", "back"), "corpus:four-pages"))
	{
		c := simpleCfg(34, "list", "", "next", "back")
		c.cache = nil
		c.maps = nil
		c.menu.msink = true
		c.menu.items = [][2]string{{"1", "one"}, {"2", "two"}, {"3", "inky"}, {"4", "quit"}, {"5", "a b"}}
		w.Add(walkCase(c, "corpus:menu-sink"))
	}
	w.Add(opsCase(simpleCfg(28, "T\n{{.foo}}", "aaaa\nbbbb\ncccc\ndddd", "next", "back"),
		[]rop{{kind: "render", idx: 0}, {kind: "render", idx: 1}, {kind: "render", idx: 5}}, "corpus:render-twice"))
	{
		c := simpleCfg(60, "T {{.bar}}", "", "next", "back")
		c.cache = []cacheEntry{{"bar", "xy", 5}}
		c.maps = []string{"bar"}
		w.Add(opsCase(c, []rop{{kind: "render", idx: 0}, {kind: "render", idx: 0}}, "corpus:render-twice-no-sink"))
	}
	for i := 0; i < o.n; i++ {
		r := hx.Rng(o.seed, "render", i)
		adversarial := i%5 == 4
		c := genCfg(r, adversarial)
		kind := "walk"
		if adversarial {
			kind = "adversarial"
		}
		if r.Intn(10) < 7 {
			w.Add(walkCase(c, kind))
		} else {
			w.Add(opsCase(c, genOps(r, c), kind+"-ops"))
		}
	}
	return w.Flush()
}
