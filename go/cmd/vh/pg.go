//go:build verif

package main

import (
	"context"
	"errors"
	"fmt"
	"sort"
	"strings"

	"git.defalsify.org/vise.git/db"
	"git.defalsify.org/vise.git/db/postgres"
	"git.defalsify.org/vise.git/lang"
	"verif/harness/fakepg"
	"verif/harness/internal/hx"
)

func init() { drivers["pg"] = runPg }

// pgCfg is the fixed key context of one history (what SetPrefix/SetSession/SetLanguage/SetLock set).
type pgCfg struct {
	pfx    uint8
	unlock uint8 // types unlocked with SetLock(t, false)
	sid    string
	lang   string      // language code
	hasLn  bool        // SetLanguage called
	init   [][2]string // rows committed before the history starts (storage key, value)
}

func (c pgCfg) lock() uint8 { return db.VerifSafeLock &^ c.unlock }

func (c pgCfg) term() string {
	ln := "None"
	if c.hasLn {
		ln = "(Some " + hx.S(c.lang) + ")"
	}
	return fmt.Sprintf("(mkCfg %d %d %s %s)", c.pfx, c.lock(), hx.S(c.sid), ln)
}

func (c pgCfg) short() string {
	return fmt.Sprintf("pfx=%d lock=%d sid=%q lang=%q/%v init=%q", c.pfx, c.lock(), c.sid, c.lang, c.hasLn, c.init)
}

func (c pgCfg) initTerm() string {
	m := map[string][]byte{}
	for _, kv := range c.init {
		m[kv[0]] = []byte(kv[1])
	}
	return pgComm(m)
}

func (c pgCfg) with(init ...[2]string) pgCfg {
	c.init = init
	return c
}

type pop struct {
	kind string // put get start stop abort close
	k, v string
}

func (o pop) term() string {
	switch o.kind {
	case "put":
		return fmt.Sprintf("(PPut %s %s)", hx.S(o.k), hx.S(o.v))
	case "get":
		return fmt.Sprintf("(PGet %s)", hx.S(o.k))
	case "start":
		return "PStart"
	case "stop":
		return "PStop"
	case "abort":
		return "PAbort"
	case "dump":
		return fmt.Sprintf("(PDump %s)", hx.S(o.k))
	case "connect":
		return "PConnect"
	}
	return "PClose"
}

func (o pop) short() string {
	switch o.kind {
	case "put":
		return "put(" + o.k + "," + o.v + ")"
	case "get":
		return "get(" + o.k + ")"
	case "dump":
		return "dump(" + o.k + ")"
	}
	return o.kind
}

func pgErr(err error) string {
	switch {
	case errors.Is(err, fakepg.ErrFault):
		return "(PErr EFault)"
	case err == db.ErrTxExist:
		return "(PErr ETxExist)"
	case err == db.ErrNoTx:
		return "(PErr ENoTx)"
	case err == db.ErrSingleTx:
		return "(PErr ESingleTx)"
	case db.IsNotFound(err):
		return "(PErr ENotFound)"
	}
	return "(PErr EGen)"
}

var pgKinds = map[string]string{"begin": "KBegin", "exec": "KExec", "query": "KQuery", "next": "KNext", "scan": "KScan",
	"commit": "KCommit", "rollback": "KRollback", "close": "KClose"}
var pgFlags = map[string]int{"": 0, "fault": 1, "closed": 2, "done": 3}

// pgEv turns a fake log entry "kind#id[!flag]" into a Coq event term.
func pgEv(e string) string {
	flag := ""
	if i := strings.IndexByte(e, '!'); i >= 0 {
		flag = e[i+1:]
		e = e[:i]
	}
	i := strings.IndexByte(e, '#')
	return fmt.Sprintf("ev %s %s %d", pgKinds[e[:i]], e[i+1:], pgFlags[flag])
}

func pgComm(m map[string][]byte) string {
	keys := make([]string, 0, len(m))
	for k := range m {
		keys = append(keys, k)
	}
	sort.Strings(keys)
	items := make([]string, len(keys))
	for i, k := range keys {
		items[i] = fmt.Sprintf("(%s, %s)", hx.S(k), hx.B(m[k]))
	}
	return hx.List(items)
}

type pgRun struct {
	obs    []string
	shorts []string
	calls  int
	fired  int
	panics int
}

// pgExec runs one history on a fresh pgDb over a fresh fake server.
func pgExec(cfg pgCfg, ops []pop, faults []bool) pgRun { return pgExecR(cfg, ops, faults, true) }

// pgCalls only counts the primitive driver calls a history makes under a fault script.
func pgCalls(cfg pgCfg, ops []pop, faults []bool) int { return pgExecR(cfg, ops, faults, false).calls }

func pgExecR(cfg pgCfg, ops []pop, faults []bool, record bool) pgRun {
	ctx := context.Background()
	srv := fakepg.New()
	for _, kv := range cfg.init {
		srv.Seed([]byte(kv[0]), []byte(kv[1]))
	}
	store := postgres.NewPgDb().WithConnection(srv.Conn()).WithSchema("vvise")
	for t := uint8(1); t != 0; t <<= 1 {
		if cfg.unlock&t != 0 {
			store.SetLock(t, false)
		}
	}
	store.SetPrefix(cfg.pfx)
	store.SetSession(cfg.sid)
	if cfg.hasLn {
		store.SetLanguage(&lang.Language{Code: cfg.lang})
	}
	srv.Script(faults)
	var r pgRun
	seen := 0
	for _, op := range ops {
		res := "POk"
		pk, _ := hx.Recover(func() {
			switch op.kind {
			case "put":
				if err := store.Put(ctx, []byte(op.k), []byte(op.v)); err != nil {
					res = pgErr(err)
				}
			case "get":
				v, err := store.Get(ctx, []byte(op.k))
				if err != nil {
					res = pgErr(err)
				} else {
					res = "(PVal " + hx.B(v) + ")"
				}
			case "start":
				if err := store.Start(ctx); err != nil {
					res = pgErr(err)
				}
			case "stop":
				if err := store.Stop(ctx); err != nil {
					res = pgErr(err)
				}
			case "abort":
				store.Abort(ctx)
			case "connect":
				// Connect on the already connected store: "If called more than once, consecutive calls
				// should be ignored" (db.Db)
				if err := store.Connect(ctx, ""); err != nil {
					res = pgErr(err)
				}
			case "dump":
				// Dump, Dumper.Next until it yields nil, Dumper.Close
				d, err := store.Dump(ctx, []byte(op.k))
				if err != nil {
					res = pgErr(err)
				} else {
					var rows []string
					for n := 0; n < 1000; n++ {
						k, v := d.Next(ctx)
						if k == nil {
							break
						}
						rows = append(rows, fmt.Sprintf("(%s, %s)", hx.B(k), hx.B(v)))
					}
					d.Close()
					res = "(PRows " + hx.List(rows) + ")"
				}
			case "close":
				if err := store.Close(ctx); err != nil {
					res = pgErr(err)
				}
			}
		})
		if pk {
			res = "PPanic"
			r.panics++
		}
		if !record {
			continue
		}
		log := srv.Log()
		evs := make([]string, 0, len(log)-seen)
		for _, e := range log[seen:] {
			evs = append(evs, pgEv(e))
			if strings.HasSuffix(e, "!fault") {
				r.fired++
			}
		}
		seen = len(log)
		r.obs = append(r.obs, fmt.Sprintf("(mkPobs %s %d %s %s)", res, srv.OpenTx(), pgComm(srv.Committed()), hx.List(evs)))
		r.shorts = append(r.shorts, op.short()+"=>"+res)
	}
	r.calls = srv.Calls()
	return r
}

func faultScript(pos ...int) []bool {
	n := 0
	for _, p := range pos {
		if p+1 > n {
			n = p + 1
		}
	}
	f := make([]bool, n)
	for _, p := range pos {
		f[p] = true
	}
	return f
}

func boolList(f []bool) string {
	it := make([]string, len(f))
	for i, b := range f {
		it[i] = hx.Bool(b)
	}
	return hx.List(it)
}

func runPg(o opts) error {
	w := &hx.Writer{Dir: o.out, Prop: o.prop, Imports: "Bytes Errors PgTx CorrBase PgCorr", CaseType: "pgcase",
		Mism: "pg_mismatches", Viol: "pg_violations", PerShard: 50}

	user := pgCfg{pfx: db.DATATYPE_USERDATA, sid: "s"}
	trans := pgCfg{pfx: db.DATATYPE_TEMPLATE, unlock: db.DATATYPE_TEMPLATE, sid: "s", lang: "nor", hasLn: true}
	// the usual situation for translated types: a default-language row exists already
	transD := trans.with([2]string{"\x04a", "D"})

	add := func(cfg pgCfg, ops []pop, faults []bool, kind string) pgRun {
		r := pgExec(cfg, ops, faults)
		terms := make([]string, len(ops))
		for i, op := range ops {
			terms[i] = op.term()
		}
		w.Add(hx.Case{Kind: kind, Trivial: len(ops) < 2,
			Term: fmt.Sprintf("mkPgCase %s %s %s %s %s", cfg.term(), cfg.initTerm(), hx.List(terms), boolList(faults), hx.List(r.obs)),
			Desc: map[string]interface{}{"cfg": cfg.short(), "ops": r.shorts, "faults": faults}})
		for _, op := range ops {
			w.Count("op:" + op.kind)
		}
		w.Stats["faults_fired"] += r.fired
		w.Stats["panics"] += r.panics
		return r
	}

	P := func(k, v string) pop { return pop{kind: "put", k: k, v: v} }
	G := func(k string) pop { return pop{kind: "get", k: k} }
	start, stop, abort, cls := pop{kind: "start"}, pop{kind: "stop"}, pop{kind: "abort"}, pop{kind: "close"}
	D := func(k string) pop { return pop{kind: "dump", k: k} }
	conn := pop{kind: "connect"}

	// ---- corpus: one witness per known finding / repaired defect --------------------------
	// K-C13-stickymulti: after a completed Start..Stop an acknowledged Put sits in an open,
	// never committed transaction and a not-found Get rolls it back
	add(user, []pop{start, stop, P("a", "1"), G("b"), G("a")}, nil, "corpus:stickymulti")
	add(user, []pop{start, P("a", "1"), stop, P("a", "2"), G("a"), G("b"), G("a")}, nil, "corpus:stickymulti-2")
	add(user, []pop{start, abort, P("a", "1"), start, stop, G("a")}, nil, "corpus:stickymulti-abort")
	// repaired (226e8ad): failed Exec in Put left the transaction open and reused
	add(user, []pop{P("a", "1"), P("a", "2"), G("a"), P("b", "1"), G("b")}, faultScript(1), "corpus:put-exec-fault")
	// repaired (226e8ad): Abort with no transaction dereferenced nil
	add(user, []pop{abort, P("a", "1"), abort, G("a")}, nil, "corpus:abort-no-tx")
	// commit fault: not acknowledged and not visible
	add(user, []pop{P("a", "1"), P("a", "2"), G("a")}, faultScript(5), "corpus:put-commit-fault")
	// row fetch fault is reported as not-found (rs.Err() is never consulted)
	add(user, []pop{P("a", "1"), G("a"), G("a")}, faultScript(5), "corpus:next-fault-notfound")
	// explicit transactions: visible at Stop, nothing after Abort
	add(user, []pop{start, P("a", "1"), P("b", "1"), G("a"), stop}, nil, "corpus:multi-commit")
	add(user, []pop{P("a", "1"), start, P("a", "2"), P("b", "1"), G("a"), abort}, nil, "corpus:multi-abort")
	// an error inside an explicit transaction silently ends it; Stop then commits the rest
	add(user, []pop{start, P("a", "1"), P("b", "1"), P("a", "2"), stop}, faultScript(2), "corpus:multi-fault-partial")
	// translation path, Close, locked type, unknown prefix
	add(trans, []pop{G("a"), P("a", "1"), G("a"), G("b")}, nil, "corpus:translation")
	add(trans, []pop{P("a", "1"), G("a"), G("a"), G("a")}, faultScript(5, 10), "corpus:translation-faults")
	add(user, []pop{P("a", "1"), cls, G("a"), P("a", "2"), start, stop}, nil, "corpus:close")
	add(user, []pop{start, P("a", "1"), cls, G("a")}, nil, "corpus:close-in-tx")
	// repaired (8748493, was K-C13-trfetch): the row fetch on the translated key fails; Get used to fall
	// through to the default-language row and return it without an error, now it reports the fault
	add(transD, []pop{P("a", "T"), G("a"), G("a")}, faultScript(5), "corpus:trfetch")
	add(transD, []pop{G("a")}, faultScript(2), "corpus:trfetch-1")
	// Dump: a transaction of its own, ended exactly once on every path but one; pdb.tx untouched
	add(user, []pop{P("a", "1"), P("b", "2"), P("ab", "3"), D("a"), D("b"), D("c"), D("")}, nil, "corpus:dump")
	add(user, []pop{start, P("a", "1"), D("a"), P("b", "1"), stop, D("a")}, nil, "corpus:dump-in-tx")
	// the Dump query fails inside an explicit transaction: Dump rolls its OWN transaction back,
	// the explicit one survives and commits both writes at Stop (seeded change C13-m3 breaks this)
	add(user, []pop{start, P("a", "1"), D("a"), P("b", "1"), stop, D("")}, faultScript(3), "corpus:dump-query-fault-in-tx")
	add(user, []pop{P("a", "1"), D("a"), G("a")}, faultScript(4), "corpus:dump-query-fault")
	add(user, []pop{P("a", "1"), D("a"), D("a"), D("a"), D("a")}, faultScript(3, 9, 16, 23), "corpus:dump-begin-rollback-next-scan-faults")
	// repaired (f3dc6ab, was K-C13-dumpleak): prefix UNKNOWN, Dump returned the ToKey error with its
	// transaction open; now it rolls it back
	add(pgCfg{pfx: 0, sid: "s"}, []pop{D("a"), D("a"), start, stop}, nil, "corpus:dumpleak-regression")
	// K-C13-dumpswallow: the deferred Commit fails / the fetch of the second row fails / its Scan fails:
	// Dump reports success, the last two silently deliver a truncated dump
	add(user, []pop{P("a", "1"), P("ab", "2"), D("a")}, faultScript(10), "corpus:dumpswallow-commit")
	add(user, []pop{P("a", "1"), P("ab", "2"), D("a")}, faultScript(11), "corpus:dumpswallow-next")
	add(user, []pop{P("a", "1"), P("ab", "2"), D("a")}, faultScript(12), "corpus:dumpswallow-scan")
	// Dump resets the language of the store (pdb.SetLanguage(nil)): the translated row is out of reach afterwards
	add(pgCfg{pfx: db.DATATYPE_TEMPLATE, unlock: db.DATATYPE_TEMPLATE, lang: "nor", hasLn: true}, []pop{P("a", "T"), G("a"), D("a"), G("a"), P("a", "U"), G("a")}, nil, "corpus:dump-resets-language")
	// a session id on an unsessioned type: DecodeKey refuses every row (after the deferred Commit)
	add(transD, []pop{D("a"), G("a")}, nil, "corpus:dump-decode-error")
	// connect-again is ignored: no driver call, no effect, inside and outside an explicit transaction, with
	// faults pending on the calls it must not make (seeded change C13-m13 runs ensureTable there)
	add(user, []pop{conn, P("a", "1"), conn, G("a")}, nil, "corpus:connect-again")
	add(user, []pop{conn, P("a", "1"), G("a")}, faultScript(0), "corpus:connect-again-begin-fault")
	add(user, []pop{P("a", "1"), conn, G("a")}, faultScript(5), "corpus:connect-again-commit-fault")
	add(user, []pop{start, P("a", "1"), conn, P("b", "1"), stop, conn, D("")}, faultScript(2), "corpus:connect-again-in-tx")
	add(user, []pop{start, P("a", "1"), conn, stop}, faultScript(4), "corpus:connect-again-in-tx-commit-fault")
	add(pgCfg{pfx: db.DATATYPE_TEMPLATE, sid: "s"}, []pop{P("a", "1"), G("a")}, nil, "corpus:locked")
	add(pgCfg{pfx: 0, sid: "s"}, []pop{P("a", "1"), G("a"), start, stop}, nil, "corpus:prefix-unknown")
	add(pgCfg{pfx: db.DATATYPE_MENU, unlock: db.DATATYPE_MENU, lang: "", hasLn: true}, []pop{P("a", "1"), G("a")}, nil, "corpus:empty-lang-code")

	// ---- exhaustive universe: histories x {no fault, every single, every pair of fault positions} ----
	alphabet := []pop{P("a", "1"), P("a", "2"), P("b", "1"), G("a"), G("b"), start, stop, abort, D("a"), conn}
	maxLen := 4
	if o.tier == "thorough" {
		maxLen = 5
	}
	// one element of the universe = (key context, history, fault positions). The positions are
	// enumerated adaptively: i ranges over the driver calls of the fault-free run, j > i over the
	// calls of the run with fault i (positions beyond the calls actually made change nothing).
	type hist struct {
		cfg    pgCfg
		ops    []pop
		calls0 int
		callsI []int
	}
	var hists []hist
	for _, cfg := range []pgCfg{user, trans, transD} {
		var rec func(ops []pop)
		rec = func(ops []pop) {
			if len(ops) > 0 {
				h := hist{cfg: cfg, ops: append([]pop{}, ops...)}
				h.calls0 = pgCalls(cfg, h.ops, nil)
				for i := 0; i < h.calls0; i++ {
					h.callsI = append(h.callsI, pgCalls(cfg, h.ops, faultScript(i)))
				}
				hists = append(hists, h)
			}
			if len(ops) == maxLen {
				return
			}
			for _, a := range alphabet {
				rec(append(ops, a))
			}
		}
		rec(nil)
	}
	universe := 0
	for _, h := range hists {
		universe += 1 + h.calls0
		for i, ci := range h.callsI {
			universe += ci - i - 1
		}
	}
	budget := o.n
	if budget <= 0 {
		budget = 1
	}
	advBudget := budget / 8
	p := float64(budget-advBudget) / float64(universe)
	// every fault-free history of length <= 2 and every element selected by the seeded PRNG
	idx := 0
	selected := 0
	sel := hx.Rng(o.seed, "pg-select", 0)
	visit := func(h hist, faults []bool, nf int) {
		// one PRNG per block of 4096 universe indices (seeding a PRNG per element dominates the run time)
		if idx%4096 == 0 {
			sel = hx.Rng(o.seed, "pg-select", idx/4096)
		}
		idx++
		draw := sel.Float64()
		keep := (nf == 0 && len(h.ops) <= 2) || draw < p
		if !keep {
			return
		}
		selected++
		add(h.cfg, h.ops, faults, fmt.Sprintf("enum:len%d:faults%d", len(h.ops), nf))
	}
	for _, h := range hists {
		visit(h, nil, 0)
		for i := 0; i < h.calls0; i++ {
			visit(h, faultScript(i), 1)
			for j := i + 1; j < h.callsI[i]; j++ {
				visit(h, faultScript(i, j), 2)
			}
		}
	}
	w.Stats["universe_size"] = universe
	w.Stats["universe_selected"] = selected
	w.Stats["universe_covered_permille"] = int(1000 * float64(selected) / float64(universe))
	w.Stats["universe_max_len"] = maxLen

	// ---- adversarial stream: longer histories, dense fault scripts, Close, odd key contexts ----
	cfgs := []pgCfg{user, user, user, trans, trans,
		{pfx: db.DATATYPE_USERDATA, sid: ""},
		{pfx: db.DATATYPE_STATICLOAD, unlock: db.DATATYPE_STATICLOAD, sid: "s", lang: "nor", hasLn: true},
		{pfx: db.DATATYPE_MENU, unlock: db.DATATYPE_MENU, sid: "s"},
		{pfx: db.DATATYPE_BIN, sid: "s", lang: "nor", hasLn: true},
		{pfx: 0, sid: "s"},
		// application-defined data types: sessioned above STATICLOAD whatever their bits
		{pfx: 64, sid: "s"}, {pfx: 192, sid: "t"}, {pfx: 9, unlock: 9, sid: "s", lang: "nor", hasLn: true}}
	// keys chosen so that a translated key of one collides with the default key of another
	advKeys := []string{"a", "b", "a_nor", "c", "ab"}
	for c := 0; c < advBudget; c++ {
		r := hx.Rng(o.seed, "pg-adv", c)
		cfg := cfgs[r.Intn(len(cfgs))]
		// seed some rows: storage keys of this key context, default and translated
		for _, k := range advKeys {
			if r.Intn(3) == 0 {
				sk := string([]byte{cfg.pfx}) + k
				if cfg.pfx > db.VerifSessionedThreshold && cfg.sid != "" {
					sk = string([]byte{cfg.pfx}) + cfg.sid + "." + k
				}
				cfg.init = append(append([][2]string{}, cfg.init...), [2]string{sk, "D" + k})
			}
		}
		n := 3 + r.Intn(10)
		var ops []pop
		for k := 0; k < n; k++ {
			switch x := r.Intn(20); {
			case x < 6:
				ops = append(ops, P(advKeys[r.Intn(len(advKeys))], []string{"1", "2", "", "33"}[r.Intn(4)]))
			case x < 12:
				ops = append(ops, G(advKeys[r.Intn(len(advKeys))]))
			case x == 12 && r.Intn(2) == 0:
				ops = append(ops, conn)
			case x < 13:
				ops = append(ops, D([]string{"", "a", "b", "zz"}[r.Intn(4)]))
			case x < 15:
				ops = append(ops, start)
			case x < 17:
				ops = append(ops, stop)
			case x < 19:
				ops = append(ops, abort)
			default:
				ops = append(ops, cls)
			}
		}
		density := []int{0, 5, 10, 20, 40}[r.Intn(5)]
		faults := make([]bool, 6*n)
		for i := range faults {
			faults[i] = r.Intn(100) < density
		}
		add(cfg, ops, faults, "adversarial")
	}
	return w.Flush()
}
