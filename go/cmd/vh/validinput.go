//go:build verif

package main

import (
	"bytes"
	"context"
	"fmt"
	"strings"

	"git.defalsify.org/vise.git/cache"
	"git.defalsify.org/vise.git/db"
	memdb "git.defalsify.org/vise.git/db/mem"
	"git.defalsify.org/vise.git/engine"
	"git.defalsify.org/vise.git/persist"
	"git.defalsify.org/vise.git/resource"
	"git.defalsify.org/vise.git/state"
	"git.defalsify.org/vise.git/vm"
	"verif/harness/internal/hx"
)

// validinput: client input formats registered by the application (engine.AddValidInput).  The registry is a
// package-level map of the vm package: this driver is the only one that registers anything, in its own process.
func init() { drivers["validinput"] = runValidInput }

func viSnapshot(store db.Db, sid string) string {
	pe := persist.NewPersister(store).WithContent(state.NewState(1), cache.NewCache())
	if err := pe.Load(sid); err != nil {
		return "none"
	}
	return fmt.Sprintf("code=%x path=%q idx=%d flags=%x moves=%d | use=%d cache=%v last=%q", pe.State.Code, pe.State.ExecPath, pe.State.SizeIdx, pe.State.Flags, pe.State.Moves, pe.Memory.CacheUseSize, pe.Memory.Cache, pe.Memory.LastValue)
}

func runValidInput(o opts) error {
	w := &hx.Writer{Dir: o.out, Prop: o.prop, Imports: "Bytes Errors NavModel CorrBase ValidInputCorr", CaseType: "vicase",
		Mism: "vi_mismatches", Viol: "vi_violations", PerShard: 200}
	ctx := context.Background()
	// the application's resource and an engine that registers the two formats
	rsStore := memdb.NewMemDb()
	rsStore.Connect(ctx, "")
	rsStore.SetLock(db.DATATYPE_TEMPLATE|db.DATATYPE_BIN, false)
	put := func(t uint8, k string, v []byte) { rsStore.SetPrefix(t); rsStore.Put(ctx, []byte(k), v) }
	b := vm.NewLine(nil, vm.HALT, nil, nil, nil)
	b = vm.NewLine(b, vm.INCMP, []string{"foo", "*"}, nil, nil)
	put(db.DATATYPE_BIN, "root", b)
	put(db.DATATYPE_TEMPLATE, "root", []byte("root"))
	b = vm.NewLine(nil, vm.LOAD, []string{"echo"}, []byte{0}, nil)
	b = vm.NewLine(b, vm.HALT, nil, nil, nil)
	b = vm.NewLine(b, vm.INCMP, []string{"_", "*"}, nil, nil)
	put(db.DATATYPE_BIN, "foo", b)
	put(db.DATATYPE_TEMPLATE, "foo", []byte("foo"))
	rsStore.SetLock(db.DATATYPE_TEMPLATE|db.DATATYPE_BIN, true)
	rs := resource.NewDbResource(rsStore)
	rs.AddLocalFunc("echo", func(ctx context.Context, sym string, input []byte) (resource.Result, error) {
		return resource.Result{Content: "got:" + string(input)}, nil
	})
	cfg := engine.Config{SessionId: "s", Root: "root", FlagCount: 1}
	reg := engine.NewEngine(cfg, rs)
	if err := reg.AddValidInput(`^\*[0-9*]+#$`); err != nil {
		return err
	}
	if err := reg.AddValidInput(`^#[0-9]{1,4}$`); err != nil {
		return err
	}
	request := func(store db.Db, in []byte) (refused bool) {
		hx.Recover(func() {
			en := engine.NewEngine(cfg, rs).WithPersister(persist.NewPersister(store))
			_, err := en.Exec(ctx, in)
			refused = err != nil
			en.Flush(ctx, bytes.NewBuffer(nil))
			en.Finish(ctx)
		})
		return
	}
	cores := []string{"*123#", "*1*2#", "*#", "*12", "**#", "*1#2#", "#1", "#1234", "#12345", "#", "#a1", "1", "abc", "+254", "+", "*", "", "x y", "1#", "*123#x", "é", "0", "*0#"}
	pre := []string{"", "", "", " ", "\n", "\t", "x"}
	post := []string{"", "", "", "\n", "\r\n", "\r", " ", "\n\n", "#", "\x00"}
	var inputs [][]byte
	for _, c := range cores {
		for _, a := range []string{"", " ", "\n"} {
			for _, z := range post {
				inputs = append(inputs, []byte(a+c+z))
			}
		}
	}
	for i := 0; i < o.n; i++ {
		r := hx.Rng(o.seed, "validinput", i)
		c := cores[r.Intn(len(cores))]
		if r.Intn(4) == 0 {
			c = "*" + strings.Repeat(string("0123456789*"[r.Intn(11)]), 1+r.Intn(6)) + "#"
		}
		if r.Intn(30) == 0 {
			c = "*" + strings.Repeat("7", 250+r.Intn(8)) + "#"
		}
		inputs = append(inputs, []byte(pre[r.Intn(len(pre))]+c+post[r.Intn(len(post))]))
	}
	for _, in := range inputs {
		idx, _ := vm.ValidInput(in)
		enc := 0
		switch {
		case idx == -1:
			enc = 1
		case idx >= 0:
			enc = 2 + idx
		}
		w.Add(hx.Case{Kind: "valid-input", Term: fmt.Sprintf("CVIn %s %d", hx.B(in), enc), Desc: map[string]interface{}{"input": fmt.Sprintf("%q", in), "format": idx}})
		w.Count(fmt.Sprintf("format:%d", idx))
		// the same input as the second request of a stored session halted before `INCMP foo *`
		store := memdb.NewMemDb()
		store.Connect(ctx, "")
		request(store, []byte(""))
		before := viSnapshot(store, "s")
		refused := request(store, in)
		after := viSnapshot(store, "s")
		w.Add(hx.Case{Kind: "engine-request", Term: fmt.Sprintf("CVEng %s %s %s", hx.B(in), hx.Bool(refused), hx.Bool(before != after)),
			Desc: map[string]interface{}{"input": fmt.Sprintf("%q", in), "refused": refused, "stored_before": before, "stored_after": after}})
	}
	return w.Flush()
}
