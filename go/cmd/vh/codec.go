//go:build verif

package main

import (
	"bytes"
	"encoding/binary"
	"fmt"
	"math/rand"
	"os"
	"os/exec"
	"path/filepath"

	"git.defalsify.org/vise.git/asm"
	"git.defalsify.org/vise.git/vm"
	"verif/harness/internal/hx"
)

func init() { drivers["codec"] = runCodec }

type Instr struct {
	Op int
	S1 []byte
	S2 []byte
	N  uint32
	M  bool
}

func (i Instr) Term() string {
	switch i.Op {
	case vm.NOOP:
		return "INoop"
	case vm.CATCH:
		return fmt.Sprintf("(ICatch %s %d %s)", hx.B(i.S1), i.N, hx.Bool(i.M))
	case vm.CROAK:
		return fmt.Sprintf("(ICroak %d %s)", i.N, hx.Bool(i.M))
	case vm.LOAD:
		return fmt.Sprintf("(ILoad %s %d)", hx.B(i.S1), i.N)
	case vm.RELOAD:
		return fmt.Sprintf("(IReload %s)", hx.B(i.S1))
	case vm.MAP:
		return fmt.Sprintf("(IMap %s)", hx.B(i.S1))
	case vm.MOVE:
		return fmt.Sprintf("(IMove %s)", hx.B(i.S1))
	case vm.HALT:
		return "IHalt"
	case vm.INCMP:
		return fmt.Sprintf("(IInCmp %s %s)", hx.B(i.S1), hx.B(i.S2))
	case vm.MSINK:
		return "IMSink"
	case vm.MOUT:
		return fmt.Sprintf("(IMOut %s %s)", hx.B(i.S1), hx.B(i.S2))
	case vm.MNEXT:
		return fmt.Sprintf("(IMNext %s %s)", hx.B(i.S1), hx.B(i.S2))
	case vm.MPREV:
		return fmt.Sprintf("(IMPrev %s %s)", hx.B(i.S1), hx.B(i.S2))
	}
	return "INoop"
}

func instrsTerm(p []Instr) string {
	r := make([]string, len(p))
	for i, x := range p {
		r[i] = x.Term()
	}
	return hx.List(r)
}

func minBe(n uint32) []byte {
	if n == 0 {
		return []byte{0}
	}
	b := make([]byte, 4)
	binary.BigEndian.PutUint32(b, n)
	for len(b) > 1 && b[0] == 0 {
		b = b[1:]
	}
	return b
}

func modeByte(m bool) []byte {
	if m {
		return []byte{1}
	}
	return []byte{0}
}

// encode through vm.NewLine
func encNewLine(l []byte, i Instr) []byte {
	switch i.Op {
	case vm.CATCH:
		return vm.NewLine(l, vm.CATCH, []string{string(i.S1)}, minBe(i.N), modeByte(i.M))
	case vm.CROAK:
		return vm.NewLine(l, vm.CROAK, nil, minBe(i.N), modeByte(i.M))
	case vm.LOAD:
		return vm.NewLine(l, vm.LOAD, []string{string(i.S1)}, minBe(i.N), nil)
	case vm.RELOAD, vm.MAP, vm.MOVE:
		return vm.NewLine(l, uint16(i.Op), []string{string(i.S1)}, nil, nil)
	case vm.INCMP, vm.MOUT, vm.MNEXT, vm.MPREV:
		return vm.NewLine(l, uint16(i.Op), []string{string(i.S1), string(i.S2)}, nil, nil)
	}
	return vm.NewLine(l, uint16(i.Op), nil, nil, nil)
}

// encode through the assembler's writers, in the layout asm.parseOne uses
func encAsm(i Instr) (r []byte, err error) {
	op := []byte{byte(i.Op >> 8), byte(i.Op)}
	r = append(r, op...)
	ws := func(s []byte) {
		if err != nil {
			return
		}
		var b []byte
		b, err = asm.VerifWriteSym(string(s))
		r = append(r, b...)
	}
	wn := func(n uint32) {
		if err != nil {
			return
		}
		var b []byte
		b, err = asm.VerifWriteSize(n)
		r = append(r, b...)
	}
	switch i.Op {
	case vm.CATCH:
		ws(i.S1)
		wn(i.N)
		r = append(r, modeByte(i.M)...)
	case vm.CROAK:
		wn(i.N)
		r = append(r, modeByte(i.M)...)
	case vm.LOAD:
		ws(i.S1)
		wn(i.N)
	case vm.RELOAD, vm.MAP, vm.MOVE:
		ws(i.S1)
	case vm.INCMP, vm.MOUT, vm.MNEXT, vm.MPREV:
		ws(i.S1)
		ws(i.S2)
	}
	if err != nil {
		return nil, err
	}
	return r, nil
}

func resBytes(b []byte, err error, panicked bool) string {
	if panicked {
		return hx.Panic()
	}
	if err != nil {
		return hx.Err("EGen")
	}
	return hx.Ok(hx.B(b))
}

// decode the way the VM does: ParseOp, then the opcode's Parse function
func decodeOneVm(b []byte) (ins Instr, rest []byte, err error) {
	op, b, err := vm.ParseOp(b)
	if err != nil {
		return ins, b, err
	}
	ins.Op = int(op)
	switch op {
	case vm.CATCH:
		var s string
		s, ins.N, ins.M, b, err = vm.ParseCatch(b)
		ins.S1 = []byte(s)
	case vm.CROAK:
		ins.N, ins.M, b, err = vm.ParseCroak(b)
	case vm.LOAD:
		var s string
		s, ins.N, b, err = vm.ParseLoad(b)
		ins.S1 = []byte(s)
	case vm.RELOAD:
		var s string
		s, b, err = vm.ParseReload(b)
		ins.S1 = []byte(s)
	case vm.MAP:
		var s string
		s, b, err = vm.ParseMap(b)
		ins.S1 = []byte(s)
	case vm.MOVE:
		var s string
		s, b, err = vm.ParseMove(b)
		ins.S1 = []byte(s)
	case vm.HALT:
		b, err = vm.ParseHalt(b)
	case vm.INCMP:
		var s, t string
		s, t, b, err = vm.ParseInCmp(b)
		ins.S1, ins.S2 = []byte(s), []byte(t)
	case vm.MSINK:
		b, err = vm.ParseMSink(b)
	case vm.MOUT:
		var s, t string
		s, t, b, err = vm.ParseMOut(b)
		ins.S1, ins.S2 = []byte(s), []byte(t)
	case vm.MNEXT:
		var s, t string
		s, t, b, err = vm.ParseMNext(b)
		ins.S1, ins.S2 = []byte(s), []byte(t)
	case vm.MPREV:
		var s, t string
		s, t, b, err = vm.ParseMPrev(b)
		ins.S1, ins.S2 = []byte(s), []byte(t)
	}
	return ins, b, err
}

// ParseAll with collecting handlers
func parseAllCollect(b []byte) (p []Instr, err error) {
	ph := vm.NewParseHandler()
	ph.Catch = func(s string, n uint32, m bool) error {
		p = append(p, Instr{Op: vm.CATCH, S1: []byte(s), N: n, M: m})
		return nil
	}
	ph.Croak = func(n uint32, m bool) error { p = append(p, Instr{Op: vm.CROAK, N: n, M: m}); return nil }
	ph.Load = func(s string, n uint32) error { p = append(p, Instr{Op: vm.LOAD, S1: []byte(s), N: n}); return nil }
	ph.Reload = func(s string) error { p = append(p, Instr{Op: vm.RELOAD, S1: []byte(s)}); return nil }
	ph.Map = func(s string) error { p = append(p, Instr{Op: vm.MAP, S1: []byte(s)}); return nil }
	ph.Move = func(s string) error { p = append(p, Instr{Op: vm.MOVE, S1: []byte(s)}); return nil }
	ph.Halt = func() error { p = append(p, Instr{Op: vm.HALT}); return nil }
	ph.InCmp = func(s, t string) error { p = append(p, Instr{Op: vm.INCMP, S1: []byte(s), S2: []byte(t)}); return nil }
	ph.MOut = func(s, t string) error { p = append(p, Instr{Op: vm.MOUT, S1: []byte(s), S2: []byte(t)}); return nil }
	ph.MSink = func() error { p = append(p, Instr{Op: vm.MSINK}); return nil }
	ph.MNext = func(s, t string) error { p = append(p, Instr{Op: vm.MNEXT, S1: []byte(s), S2: []byte(t)}); return nil }
	ph.MPrev = func(s, t string) error { p = append(p, Instr{Op: vm.MPREV, S1: []byte(s), S2: []byte(t)}); return nil }
	// NOOP has no handler: ParseAll accepts it silently. To see it we count opcodes ourselves.
	_, err = ph.ParseAll(b)
	return p, err
}

// parseAllObserved additionally reinserts NOOPs (which have no handler) by re-walking the
// accepted input with the VM-path decoder.
func parseAllObserved(b []byte) string {
	var p []Instr
	var err error
	panicked, _ := hx.Recover(func() { p, err = parseAllCollect(b) })
	if panicked {
		return hx.Panic()
	}
	if err != nil {
		return hx.Err("EGen")
	}
	// walk to find NOOP positions
	var full []Instr
	rest := b
	idx := 0
	ok := true
	for len(rest) > 0 || len(full) == 0 {
		var ins Instr
		var e error
		pk, _ := hx.Recover(func() { ins, rest, e = decodeOneVm(rest) })
		if pk || e != nil {
			ok = false
			break
		}
		if ins.Op == vm.NOOP {
			full = append(full, ins)
		} else {
			if idx >= len(p) {
				ok = false
				break
			}
			full = append(full, p[idx])
			idx++
		}
		if len(rest) == 0 {
			break
		}
	}
	if !ok || idx != len(p) {
		// the VM-path decoder disagrees with ParseAll about this input: report what the
		// handlers saw; the model comparison will flag it
		return hx.Ok(instrsTerm(p))
	}
	return hx.Ok(instrsTerm(full))
}

// One long-lived ParseHandler serves every ToString call of the run.  Before each call it is
// given bytecode that lists one instruction and then fails to decode (HALT, then a MOVE whose
// symbol is cut short), so every listing reported in a case is produced by a handler whose
// previous call failed midway.  The result of THIS handler is what the case records (and what
// the correspondence and the C14/C15 monitors judge); a fresh per-call handler is run as well
// and a difference between the two is counted.
var sharedToString *vm.ParseHandler
var sharedToStringDiffers int

var toStringPoison = []byte{0x00, 0x07, 0x00, 0x06, 0x03, 0x66}

func toStringObserved(b []byte) string {
	var s string
	var err error
	panicked, _ := hx.Recover(func() { s, err = vm.NewParseHandler().WithDefaultHandlers().ToString(b) })
	fresh := resBytes([]byte(s), err, panicked)

	if sharedToString == nil {
		sharedToString = vm.NewParseHandler().WithDefaultHandlers()
	}
	hx.Recover(func() { sharedToString.ToString(toStringPoison) })
	var s2 string
	var err2 error
	panicked2, _ := hx.Recover(func() { s2, err2 = sharedToString.ToString(b) })
	if panicked2 {
		sharedToString = nil
	}
	shared := resBytes([]byte(s2), err2, panicked2)
	if shared != fresh {
		sharedToStringDiffers++
	}
	return shared
}

var numBoundaries = []uint32{0, 1, 2, 42, 127, 128, 255, 256, 257, 65535, 65536, 65537, 1<<24 - 1, 1 << 24, 1<<24 + 1, 1<<31 - 1, 1 << 31, 1<<32 - 2, 1<<32 - 1}
var symLensShort = []int{1, 1, 2, 2, 3, 3, 4, 5, 8, 12}
var symLensLong = []int{16, 64, 127, 128, 200, 254, 255}

func genSym(r *rand.Rand) []byte {
	l := symLensShort[r.Intn(len(symLensShort))]
	if r.Intn(12) == 0 {
		l = symLensLong[r.Intn(len(symLensLong))]
	}
	b := make([]byte, l)
	mode := r.Intn(10)
	// long symbols are periodic (seed of 1..8 bytes) so that case files stay small
	period := l
	if l > 16 {
		period = 1 + r.Intn(8)
	}
	for i := range b {
		if i >= period {
			b[i] = b[i-period]
			continue
		}
		switch {
		case mode < 6:
			b[i] = "abcdefghijklmnopqrstuvwxyz0123456789_"[r.Intn(37)]
		case mode < 8:
			b[i] = byte(32 + r.Intn(95))
		default:
			b[i] = byte(r.Intn(256))
		}
	}
	return b
}

func genNum(r *rand.Rand) uint32 {
	if r.Intn(3) == 0 {
		return r.Uint32()
	}
	if r.Intn(4) == 0 {
		return uint32(r.Intn(70000))
	}
	return numBoundaries[r.Intn(len(numBoundaries))]
}

func genInstr(r *rand.Rand) Instr {
	op := 1 + r.Intn(12)
	i := Instr{Op: op}
	switch op {
	case vm.CATCH:
		i.S1, i.N, i.M = genSym(r), genNum(r), r.Intn(2) == 0
	case vm.CROAK:
		i.N, i.M = genNum(r), r.Intn(2) == 0
	case vm.LOAD:
		i.S1, i.N = genSym(r), genNum(r)
	case vm.RELOAD, vm.MAP, vm.MOVE:
		i.S1 = genSym(r)
	case vm.INCMP, vm.MOUT, vm.MNEXT, vm.MPREV:
		i.S1, i.S2 = genSym(r), genSym(r)
	}
	return i
}

func runCodec(o opts) error {
	w := &hx.Writer{Dir: o.out, Prop: o.prop, Imports: "Bytes Errors Consts Codec CorrBase CodecCorr", CaseType: "ccase",
		Mism: "mismatches", Viol: "violations14", PerShard: 150}
	if o.prop == "C15" {
		w.Viol = "violations15"
	}
	addParseAll := func(b []byte, kind string, trivial bool) {
		w.Add(hx.Case{Kind: kind, Trivial: trivial,
			Term: fmt.Sprintf("CParseAll %s %s %s", hx.B(b), parseAllObserved(b), toStringObserved(b)),
			Desc: map[string]interface{}{"bytes": fmt.Sprintf("%x", b)}})
	}
	addDecodeOne := func(b []byte, kind string) {
		var ins Instr
		var rest []byte
		var err error
		pk, _ := hx.Recover(func() { ins, rest, err = decodeOneVm(b) })
		obs := ""
		switch {
		case pk:
			obs = hx.Panic()
		case err != nil:
			obs = hx.Err("EGen")
		default:
			obs = hx.Ok(fmt.Sprintf("(%s, %s)", ins.Term(), hx.B(rest)))
		}
		w.Add(hx.Case{Kind: kind, Term: fmt.Sprintf("CDecodeOne %s %s", hx.B(b), obs),
			Desc: map[string]interface{}{"bytes": fmt.Sprintf("%x", b)}})
	}
	addIntSplit := func(b []byte) {
		var n uint32
		var rest []byte
		var err error
		pk, _ := hx.Recover(func() { n, rest, err = vm.VerifIntSplit(b) })
		obs := ""
		switch {
		case pk:
			obs = hx.Panic()
		case err != nil:
			obs = hx.Err("EGen")
		default:
			obs = hx.Ok(fmt.Sprintf("(%d, %s)", n, hx.B(rest)))
		}
		w.Add(hx.Case{Kind: "intsplit", Term: fmt.Sprintf("CIntSplit %s %s", hx.B(b), obs),
			Desc: map[string]interface{}{"bytes": fmt.Sprintf("%x", b)}})
	}
	addSymSplit := func(b []byte) {
		var s string
		var rest []byte
		var err error
		pk, _ := hx.Recover(func() { s, rest, err = vm.VerifInstructionSplit(b) })
		obs := ""
		switch {
		case pk:
			obs = hx.Panic()
		case err != nil:
			obs = hx.Err("EGen")
		default:
			obs = hx.Ok(fmt.Sprintf("(%s, %s)", hx.S(s), hx.B(rest)))
		}
		w.Add(hx.Case{Kind: "symsplit", Term: fmt.Sprintf("CSymSplit %s %s", hx.B(b), obs),
			Desc: map[string]interface{}{"bytes": fmt.Sprintf("%x", b)}})
	}

	// vm.NewLine with the integer argument in every form the decoder accepts: minimal big-endian, the
	// zero-length form of 0 (an empty, non-nil slice), padded to four bytes
	addNewLineForms := func(ins Instr) {
		optB := func(b []byte) string {
			if b == nil {
				return "None"
			}
			return "(Some " + hx.B(b) + ")"
		}
		var strs []string
		var mode []byte
		switch ins.Op {
		case vm.CATCH:
			strs, mode = []string{string(ins.S1)}, modeByte(ins.M)
		case vm.CROAK:
			mode = modeByte(ins.M)
		case vm.LOAD:
			strs = []string{string(ins.S1)}
		default:
			return
		}
		forms := [][]byte{minBe(ins.N), {byte(ins.N >> 24), byte(ins.N >> 16), byte(ins.N >> 8), byte(ins.N)}}
		if ins.N == 0 {
			forms = append(forms, []byte{})
		}
		for _, ba := range forms {
			var got []byte
			pk, _ := hx.Recover(func() { got = vm.NewLine(nil, uint16(ins.Op), strs, ba, mode) })
			if pk {
				got = []byte("PANIC")
			}
			ss := make([]string, len(strs))
			for i, x := range strs {
				ss[i] = hx.S(x)
			}
			// ... and what the VM's own decoder makes of those bytes
			var di Instr
			var drest []byte
			var derr error
			dpk, _ := hx.Recover(func() { di, drest, derr = decodeOneVm(got) })
			dobs := ""
			switch {
			case dpk:
				dobs = hx.Panic()
			case derr != nil:
				dobs = hx.Err("EGen")
			default:
				dobs = hx.Ok(fmt.Sprintf("(%s, %s)", di.Term(), hx.B(drest)))
			}
			w.Add(hx.Case{Kind: "newline-forms", Key: fmt.Sprintf("nlf-%d-%x-%x-%x", ins.Op, strs, ba, mode),
				Term: fmt.Sprintf("CNewLine %d %s %s %s %s %s", ins.Op, hx.List(ss), optB(ba), optB(mode), hx.B(got), dobs),
				Desc: map[string]interface{}{"instr": ins.Term(), "byteargs": fmt.Sprintf("%x", ba)}})
		}
	}
	// the assembler on the source line of a numeric instruction (decimal literal of any width)
	addAsmLine := func(ins Instr) {
		var line string
		switch ins.Op {
		case vm.LOAD:
			line = fmt.Sprintf("LOAD %s %d\n", ins.S1, ins.N)
		case vm.CATCH:
			line = fmt.Sprintf("CATCH %s %d %d\n", ins.S1, ins.N, modeByte(ins.M)[0])
		case vm.CROAK:
			line = fmt.Sprintf("CROAK %d %d\n", ins.N, modeByte(ins.M)[0])
		default:
			return
		}
		for _, c := range ins.S1 { // the assembler's symbol alphabet only
			if !(c == '_' || c >= 'a' && c <= 'z' || c >= '0' && c <= '9') {
				return
			}
		}
		if len(ins.S1) > 0 && ins.S1[0] >= '0' && ins.S1[0] <= '9' {
			return
		}
		buf := bytes.NewBuffer(nil)
		var err error
		pk, _ := hx.Recover(func() { _, err = asm.Parse(line, buf) })
		w.Add(hx.Case{Kind: "asm-line", Key: "asmline-" + line,
			Term: fmt.Sprintf("CAsmLine %s %s", ins.Term(), resBytes(buf.Bytes(), err, pk)),
			Desc: map[string]interface{}{"line": line}})
	}
	if o.prop == "C14" {
		for _, n := range numBoundaries {
			addAsmLine(Instr{Op: vm.LOAD, S1: []byte("foo"), N: n})
			addAsmLine(Instr{Op: vm.CROAK, N: n, M: n%2 == 0})
			addNewLineForms(Instr{Op: vm.LOAD, S1: []byte("foo"), N: n})
		}
		for _, n := range []uint32{999999999, 1000000000, 1000000001, 4294967295, 2147483648, 1234567890} {
			addAsmLine(Instr{Op: vm.LOAD, S1: []byte("foo"), N: n})
			addAsmLine(Instr{Op: vm.CATCH, S1: []byte("bar"), N: n, M: true})
		}
		for _, z := range []Instr{{Op: vm.LOAD, S1: []byte("foo")}, {Op: vm.CATCH, S1: []byte("foo"), M: true}, {Op: vm.CROAK}, {Op: vm.CROAK, M: true}, {Op: vm.LOAD, S1: []byte("x"), N: 37}} {
			addNewLineForms(z)
		}
		// primitives: integer encoder over boundaries, symbol encoder over lengths
		for _, n := range numBoundaries {
			var b []byte
			var err error
			pk, _ := hx.Recover(func() { b, err = asm.VerifWriteSize(n) })
			w.Add(hx.Case{Kind: "writesize", Term: fmt.Sprintf("CWriteSize %d %s", n, resBytes(b, err, pk)), Desc: n})
			if !pk && err == nil {
				addIntSplit(append(append([]byte{}, b...), 7, 7))
			}
		}
		for _, l := range []int{0, 1, 2, 127, 254, 255, 256, 300} {
			s := bytes.Repeat([]byte("x"), l)
			var b []byte
			var err error
			pk, _ := hx.Recover(func() { b, err = asm.VerifWriteSym(string(s)) })
			w.Add(hx.Case{Kind: "writesym", Term: fmt.Sprintf("CWriteSym %s %s", hx.B(s), resBytes(b, err, pk)), Desc: l})
			if !pk && err == nil && l > 0 {
				addSymSplit(append(append([]byte{}, b...), 9))
				addSymSplit(b)
			}
		}
		// generated programs
		for c := 0; c < o.n; c++ {
			r := hx.Rng(o.seed, "codec-valid", c)
			np := 1 + r.Intn(6)
			var p []Instr
			var enc []byte
			for k := 0; k < np; k++ {
				ins := genInstr(r)
				p = append(p, ins)
				one := encNewLine(nil, ins)
				enc = append(enc, one...)
				if c%3 == 1 {
					addNewLineForms(ins)
					addAsmLine(ins)
				}
				if c%3 == 0 {
					var ab []byte
					var aerr error
					pk, _ := hx.Recover(func() { ab, aerr = encAsm(ins) })
					w.Add(hx.Case{Kind: "encode", Key: fmt.Sprintf("enc-%d-%d-%d-%d", ins.Op, len(ins.S1), len(ins.S2), ins.N),
						Term: fmt.Sprintf("CEncode %s %s %s", ins.Term(), hx.B(one), resBytes(ab, aerr, pk)),
						Desc: map[string]interface{}{"instr": ins.Term()}})
				}
			}
			// VM-path decode of the whole program
			var dec []Instr
			var derr error
			pk, _ := hx.Recover(func() {
				rest := enc
				for {
					var ins Instr
					ins, rest, derr = decodeOneVm(rest)
					if derr != nil {
						return
					}
					dec = append(dec, ins)
					if len(rest) == 0 {
						return
					}
				}
			})
			dobs := ""
			switch {
			case pk:
				dobs = hx.Panic()
			case derr != nil:
				dobs = hx.Err("EGen")
			default:
				dobs = hx.Ok(instrsTerm(dec))
			}
			w.Add(hx.Case{Kind: "roundtrip", Key: fmt.Sprintf("rt-%x", enc),
				Term: fmt.Sprintf("CRoundTrip %s %s %s", instrsTerm(p), dobs, toStringObserved(enc)),
				Desc: map[string]interface{}{"prog": instrsTerm(p), "bytes": fmt.Sprintf("%x", enc)}})
			if c%4 == 0 {
				addParseAll(enc, "parseall-valid", false)
			}
		}
		w.Count("tostring_calls_on_shared_handler_after_failed_call")
		w.Stats["tostring_shared_handler_differs_from_fresh"] = sharedToStringDiffers
		return w.Flush()
	}

	// C15: malformed stream
	// (a) exhaustive short strings over a small alphabet
	alpha := []byte{0, 1, 2, 3, 4, 5, 6, 7, 8, 9, 10, 11, 12, 13, 255}
	maxLen := 3
	if o.tier == "thorough" {
		maxLen = 4
	}
	var rec func(prefix []byte)
	rec = func(prefix []byte) {
		addParseAll(append([]byte{}, prefix...), "short-exhaustive", len(prefix) < 2)
		if len(prefix) == maxLen {
			return
		}
		for _, a := range alpha {
			rec(append(prefix, a))
		}
	}
	rec(nil)
	// (b) integer / symbol primitives on short and hostile inputs
	for l := 0; l <= 6; l++ {
		for have := 0; have <= 6; have++ {
			b := []byte{byte(l)}
			for k := 0; k < have; k++ {
				b = append(b, byte(0x10+k))
			}
			addIntSplit(b)
			addSymSplit(b)
		}
	}
	addIntSplit(nil)
	addSymSplit(nil)
	for _, l := range []int{200, 254, 255} {
		for _, have := range []int{l - 1, l, l + 1} {
			b := append([]byte{byte(l)}, bytes.Repeat([]byte("y"), have)...)
			addSymSplit(b)
			addIntSplit(b)
		}
	}
	// the disassembler command itself (dev/disasm, built from /repo by bin/check next to this binary):
	// exit status and standard output on a file holding the bytes
	exe, _ := os.Executable()
	disasmBin := filepath.Join(filepath.Dir(exe), "disasm")
	if _, err := os.Stat(disasmBin); err != nil {
		return fmt.Errorf("disasm command not built: %v", err)
	}
	nDisasm := 0
	runDisasm := func(b []byte) (int, []byte, string) {
		fp := filepath.Join(o.out, "disasm_input.bin")
		if err := os.WriteFile(fp, b, 0600); err != nil {
			panic(err)
		}
		cmd := exec.Command(disasmBin, fp)
		var so, se bytes.Buffer
		cmd.Stdout, cmd.Stderr = &so, &se
		err := cmd.Run()
		code := 0
		if err != nil {
			if ee, ok := err.(*exec.ExitError); ok {
				code = ee.ExitCode()
			} else {
				panic(err)
			}
		}
		os.Remove(fp)
		return code, so.Bytes(), se.String()
	}
	addDisasm := func(b []byte, kind string) {
		nDisasm++
		code, sob, ses := runDisasm(b)
		hexs := fmt.Sprintf("%x", b)
		if len(hexs) > 600 {
			hexs = fmt.Sprintf("%s... (%d bytes) ...%s", hexs[:64], len(b), hexs[len(hexs)-64:])
		}
		w.Add(hx.Case{Kind: kind, Term: fmt.Sprintf("CDisasm %s %d %s", hx.BLong(b), code, hx.BLong(sob)),
			Desc: map[string]interface{}{"bytes": hexs, "exit": code, "stderr": ses}})
	}
	disasmEvery := 4
	if o.tier == "thorough" {
		disasmEvery = 2
	}
	tails := [][]byte{{0x0a}, {0x0d}, {0x0d, 0x0a}, {0x0a, 0x0a}, {0x00}, {0x20}, {0xff}, {0x00, 0x00}, {0x00, 0x07}, {0x09}, {0x1a}}
	// (c) truncations and single-byte corruptions of valid programs
	for c := 0; c < o.n; c++ {
		r := hx.Rng(o.seed, "codec-malformed", c)
		np := 1 + r.Intn(4)
		var enc []byte
		for k := 0; k < np; k++ {
			ins := genInstr(r)
			if len(ins.S1) > 8 {
				ins.S1 = ins.S1[:1+r.Intn(8)]
			}
			if len(ins.S2) > 8 {
				ins.S2 = ins.S2[:1+r.Intn(8)]
			}
			enc = encNewLine(enc, ins)
		}
		// a complete program followed by stray bytes (line terminators, padding, end-of-file marks)
		for k, t := range tails {
			if (c+k)%len(tails) < 3 {
				m := append(append([]byte{}, enc...), t...)
				addParseAll(m, "trailing-bytes", false)
				if c%disasmEvery == 0 {
					addDisasm(m, "disasm-trailing-bytes")
				}
			}
		}
		if c%disasmEvery == 0 {
			addDisasm(enc, "disasm-valid")
			addDisasm(enc[:r.Intn(len(enc)+1)], "disasm-truncation")
		}
		if c%5 == 0 {
			for cut := 0; cut <= len(enc); cut++ {
				addParseAll(enc[:cut], "truncation", false)
				if cut%3 == 0 {
					addDecodeOne(enc[:cut], "truncation-vm")
				}
			}
		} else {
			cut := r.Intn(len(enc) + 1)
			addParseAll(enc[:cut], "truncation", false)
			addDecodeOne(enc[:cut], "truncation-vm")
		}
		for k := 0; k < 3; k++ {
			m := append([]byte{}, enc...)
			pos := r.Intn(len(m))
			switch r.Intn(4) {
			case 0:
				m[pos] = byte(r.Intn(256))
			case 1:
				m[pos]++
			case 2:
				m[pos]--
			default:
				m[pos] = []byte{0, 4, 5, 255, 128}[r.Intn(5)]
			}
			addParseAll(m, "corruption", false)
			addDecodeOne(m, "corruption-vm")
			if c%disasmEvery == 0 && k == 0 {
				addDisasm(m, "disasm-corruption")
			}
		}
	}
	// large files: the whole file is the program. The model's decoder re-measures the rest of the input at
	// every instruction (as the Go code does with len()), so its evaluation is quadratic: 8 KiB in the quick
	// tier, one file beyond 64 KiB (about four minutes of vm_compute) in the thorough tier only
	{
		unit := encNewLine(encNewLine(nil, Instr{Op: vm.MOVE, S1: []byte("foo")}), Instr{Op: vm.HALT})
		sizes := []int{8192 / len(unit)}
		if o.tier == "thorough" || os.Getenv("VERIF_WIDEN") == "1" {
			sizes = append(sizes, 65536/len(unit))
		}
		for _, n := range sizes {
			big := bytes.Repeat(unit, n)
			if n < 8192 {
				addDisasm(big, "disasm-large")
			}
			addDisasm(append(append([]byte{}, big...), 0xff, 0xff), "disasm-large-malformed-tail")
		}
	}
	// files beyond 64 KiB that hold the encoding of a KNOWN program: judged through the round-trip theorem
	// (CDisasmEnc, proofs/CodecCorrProofs.v), which costs no decoder evaluation
	{
		i1, i2 := Instr{Op: vm.MOVE, S1: []byte("foo")}, Instr{Op: vm.HALT}
		unit := encNewLine(encNewLine(nil, i1), i2)
		for _, n := range []int{65536 / len(unit), 65536/len(unit) + 1, 2*65536/len(unit) + 3} {
			big := bytes.Repeat(unit, n)
			code, so, se := runDisasm(big)
			w.Add(hx.Case{Kind: "disasm-large-encoded", Term: fmt.Sprintf("CDisasmEnc (List.concat (repeat [%s; %s] (N.to_nat %d))) %s %d %s", i1.Term(), i2.Term(), n, hx.BLong(big), code, hx.BLong(so)),
				Desc: map[string]interface{}{"program": fmt.Sprintf("%d x (MOVE foo; HALT), %d bytes", n, len(big)), "exit": code, "stderr": se, "stdout_bytes": len(so)}})
		}
	}
	addDisasm(nil, "disasm-empty")
	for _, t := range tails {
		addDisasm(t, "disasm-short")
	}
	// every listing above came from the shared handler after a call that failed midway
	if w.Stats == nil {
		w.Stats = map[string]int{}
	}
	w.Stats["tostring_shared_handler_differs_from_fresh"] = sharedToStringDiffers
	return w.Flush()
}
