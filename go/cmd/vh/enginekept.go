//go:build verif

package main

// Driver "enginekept" (C18): the session's State and Cache objects stay in memory and are handed to
// a NEW engine object for every request (NewEngine(cfg, rs).WithState(st).WithMemory(ca), no
// persister) — the third way of serving a session next to the long-lived engine and the persisted
// one.  Same applications, histories and observations as the engine driver.

import (
	"fmt"
	"os"
	"strings"
	"time"

	"git.defalsify.org/vise.git/cache"
	"git.defalsify.org/vise.git/engine"
	"git.defalsify.org/vise.git/state"
	"verif/harness/internal/hx"
)

func init() { drivers["enginekept"] = runEngineKept }

func runKeptCase(a *eApp, c *eCfg, inputs [][]byte) ([]eStep, error) {
	done := make(chan struct{})
	defer close(done)
	go func() {
		select {
		case <-done:
		case <-time.After(30 * time.Second):
			fmt.Fprintf(os.Stderr, "harness: kept-state case did not finish in 30s: %s\n", a.term())
			os.Exit(4)
		}
	}()
	w := &eWorld{counts: map[string]int{}}
	rs, err := buildResource(a, w)
	if err != nil {
		return nil, err
	}
	cfg := mkConfig(c)
	st := state.NewState(c.FlagCount)
	ca := cache.NewCache()
	if c.CacheSize > 0 {
		ca = ca.WithCacheSize(c.CacheSize)
	}
	var steps []eStep
	for _, in := range inputs {
		w.calls = nil
		en := engine.NewEngine(cfg, rs)
		if c.First != nil {
			en = en.WithFirst(scripted(w, "_first", c.First))
		}
		en = en.WithState(st).WithMemory(ca)
		var s eStep
		s.Input = in
		var pv interface{}
		var out []byte
		s.Cont, s.Exec, out, s.Flush, pv = doRequest(en, in, false)
		s.Out = string(out)
		snap := snapTerm(st, ca)
		if pv != nil {
			s.Panic = fmt.Sprint(pv)
			snap = "None"
		}
		s.Path = strings.Join(st.ExecPath, "/")
		s.nCalls = len(w.calls)
		s.term = fmt.Sprintf("(%s, mkEobs %s %s %s %s %s %s)", hx.B(in), hx.Bool(s.Cont), s.Exec, hx.B(out), s.Flush, snap, callsTerm(w.calls))
		steps = append(steps, s)
		if pv != nil {
			break // the objects a panicked engine left behind are not served again
		}
	}
	return steps, nil
}

func keptCase(kind string, g genOut, inputs [][]byte) (hx.Case, error) {
	kept, err := runKeptCase(g.app, g.cfg, inputs)
	if err != nil {
		return hx.Case{}, err
	}
	st := make([]string, len(kept))
	for i, s := range kept {
		st[i] = s.term
	}
	term := fmt.Sprintf("(mkEcase %s %s [] %s)", g.app.term(), g.cfg.term(), hx.List(st))
	return hx.Case{Term: term, Kind: kind, Trivial: len(kept) < 2,
		Desc: map[string]interface{}{"nodes": g.desc, "cfg": g.cfg, "app": g.app, "kept": kept}}, nil
}

// a configured language and a function that switches to another one: what a new engine must not undo
var keptCorpus = []corpusCase{
	{name: "kept-language-switch", nodes: [][3]string{{"root", "LOAD lang1 0; HALT; INCMP foo 1", "root"}, {"foo", "MOUT lbl1 0; HALT; INCMP _ 0", "foo"}, {"_catch", "HALT; INCMP _ *", "catch"}},
		tplx: []kv{{"root_nor", "rot"}, {"foo_nor", "fu"}, {"root_swh", "mzizi"}, {"foo_swh", "fuu"}}, menu: []kv{{"lbl1_menu_swh", "rudi"}, {"lbl1_menu_nor", "tilbake"}},
		fn: map[string][]eFres{"lang1": []eFres{{Content: "swh", Set: []uint32{7}}}}, cfg: eCfg{FlagCount: 1, Lang: "nor"}, inputs: []string{"", "1", "0", "1", "x"}},
	{name: "kept-language-config-only", nodes: [][3]string{{"root", "HALT; INCMP foo 1", "root"}, {"foo", "HALT; INCMP _ 0", "foo"}, {"_catch", "HALT; INCMP _ *", "catch"}},
		tplx: []kv{{"root_nor", "rot"}, {"foo_nor", "fu"}}, cfg: eCfg{FlagCount: 1, Lang: "nor"}, inputs: []string{"", "1", "0"}},
	{name: "kept-language-config-unknown", nodes: [][3]string{{"root", "LOAD lang1 0; HALT; INCMP foo 1", "root"}, {"foo", "HALT; INCMP _ 0", "foo"}, {"_catch", "HALT; INCMP _ *", "catch"}},
		tplx: []kv{{"root_nor", "rot"}, {"foo_nor", "fu"}}, fn: map[string][]eFres{"lang1": []eFres{{Content: "nor", Set: []uint32{7}}}}, cfg: eCfg{FlagCount: 1, Lang: "xx"}, inputs: []string{"", "1", "0", "1"}},
}

func runEngineKept(o opts) error {
	w := &hx.Writer{Dir: o.out, Prop: o.prop, Imports: "Bytes Errors Consts Codec CacheModel StateModel NavModel RenderModel VmModel EngineModel CorrBase EngineCorr EngineMon EngineKeptCorr",
		CaseType: "ecase", Mism: "engine_mismatches_kept", Viol: "engine_violations_kept_" + strings.ToLower(o.prop), PerShard: 20}
	for _, cc := range append(append([]corpusCase{}, keptCorpus...), engineCorpus...) {
		if cc.heavy {
			continue
		}
		g, inputs := cc.build()
		c, err := keptCase("corpus:"+cc.name, g, inputs)
		if err != nil {
			return err
		}
		w.Add(c)
	}
	for i := 0; i < o.n; i++ {
		r := hx.Rng(o.seed, "enginekept", i)
		g := genApp(r)
		inputs := genHistory(r, g.sels, 3+r.Intn(6))
		c, err := keptCase("generated", g, inputs)
		if err != nil {
			return err
		}
		w.Add(c)
	}
	return w.Flush()
}
