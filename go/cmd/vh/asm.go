//go:build verif

package main

import (
	"bytes"
	"encoding/csv"
	"fmt"
	"math/rand"
	"os"
	"os/exec"
	"path/filepath"
	"sort"
	"strings"

	"git.defalsify.org/vise.git/asm"
	"verif/harness/internal/hx"
)

// Driver "asm" (property C16): generates token-level assembly sources, prints them as text
// with its own choice of asmBlanks, trailing comments and empty lines, runs the real asm.Parse
// and records what it wrote and how it ended.  The Coq side (corr/AsmCorr.v) compares with
// the model (asm_mismatches) and runs the C16 monitor on the observed bytes (asm_violations).

func init() { drivers["asm"] = runAsm }

type asmLine struct {
	Op   string   `json:"op"`
	Args []string `json:"args"`
}

func (l asmLine) term() string {
	return fmt.Sprintf("(L %s %s)", hx.S(l.Op), hx.SList(l.Args))
}

func asmSrcTerm(src []asmLine) string {
	r := make([]string, len(src))
	for i, l := range src {
		r[i] = l.term()
	}
	return hx.List(r)
}

func asmLn(op string, args ...string) asmLine { return asmLine{Op: op, Args: args} }

// canonical text: one blank between words, LF after every line
func asmPlainText(src []asmLine) string {
	sb := strings.Builder{}
	for _, l := range src {
		sb.WriteString(l.Op)
		for _, a := range l.Args {
			sb.WriteString(" ")
			sb.WriteString(a)
		}
		sb.WriteString("\n")
	}
	return sb.String()
}

func asmBlanks(r *rand.Rand, min int) string {
	n := min + r.Intn(3)
	b := make([]byte, n)
	for i := range b {
		if r.Intn(4) == 0 {
			b[i] = '\t'
		} else {
			b[i] = ' '
		}
	}
	return string(b)
}

var asmCommentBodies = []string{"", " c", " HALT", " INCMP foo 1a", "#", " \"q\" 'q'", " 00 1a -", "\tx  ", " MOVE A\r"}

// print_src: the same token-level source with generator-chosen layout the assembler accepts:
// asmBlanks before the opcode word, one or more asmBlanks/tabs between words, asmBlanks before the end
// of the line, a trailing comment, LF or CRLF, and empty lines (newline characters only) after
// a line.  (A leading empty line, a missing final newline, a comment-only line and a
// blank-only line are rejected by the real parser; those are exercised in layoutProbes.)
func asmPrintSrc(r *rand.Rand, src []asmLine) string {
	sb := strings.Builder{}
	for _, l := range src {
		if r.Intn(5) == 0 {
			sb.WriteString(asmBlanks(r, 1))
		}
		sb.WriteString(l.Op)
		for _, a := range l.Args {
			sb.WriteString(asmBlanks(r, 1))
			sb.WriteString(a)
		}
		if r.Intn(4) == 0 {
			sb.WriteString(asmBlanks(r, 1))
		}
		if r.Intn(3) == 0 {
			c := asmCommentBodies[r.Intn(len(asmCommentBodies))]
			c = strings.ReplaceAll(c, "\r", "")
			sb.WriteString("#" + c)
		}
		nlc := "\n"
		if r.Intn(6) == 0 {
			nlc = "\r\n"
		}
		sb.WriteString(nlc)
		for k := r.Intn(6); k > 3; k-- {
			sb.WriteString(nlc)
		}
	}
	return sb.String()
}

func observeAsm(text string) (written []byte, outcome string, kind string) {
	buf := bytes.NewBuffer(nil)
	var err error
	pk, _ := hx.Recover(func() { _, err = asm.Parse(text, buf) })
	written = append([]byte{}, buf.Bytes()...)
	switch {
	case pk:
		return written, hx.Panic(), "panic"
	case err != nil:
		return written, hx.Err("EGen"), "rejected"
	}
	return written, hx.Ok("tt"), "accepted"
}

// ---- token generators ------------------------------------------------------------------

const asmLower = "abcdefghijklmnopqrstuvwxyz"
const asmUpper = "ABCDEFGHIJKLMNOPQRSTUVWXYZ"
const asmDigits = "0123456789"
const asmWordch = asmLower + asmUpper + asmDigits + "_"

func asmPick(r *rand.Rand, l []string) string { return l[r.Intn(len(l))] }

func asmRandOver(r *rand.Rand, alphabet string, n int) string {
	b := make([]byte, n)
	for i := range b {
		b[i] = alphabet[r.Intn(len(alphabet))]
	}
	return string(b)
}

// symbol / label / regular node: [a-zA-Z][a-zA-Z0-9_]*
func asmGenSym(r *rand.Rand) string {
	switch r.Intn(80) {
	case 0:
		return strings.Repeat("a", 255)
	case 1:
		return strings.Repeat("ab", 128) // 256 bytes
	case 2:
		return strings.Repeat("x", 254)
	case 3:
		return strings.Repeat("q_1", 100) // 300 bytes
	case 4:
		return string(asmUpper[r.Intn(26)]) + asmRandOver(r, asmWordch, r.Intn(5)) // documented, rejected by the lexer
	case 5, 6, 7, 8:
		return string(asmLower[r.Intn(26)])
	}
	first := asmLower
	return string(first[r.Intn(len(first))]) + asmRandOver(r, asmWordch, 1+r.Intn(8))
}

func asmGenNode(r *rand.Rand) string {
	if r.Intn(5) == 0 {
		return asmPick(r, []string{".", "_", ">", "<", "^"})
	}
	return asmGenSym(r)
}

var asmSelDigits = []string{"0", "1", "2", "9", "10", "11", "22", "99", "100", "255", "256", "65535", "65536", "4294967295", "4294967296", "99999999999999999999"}
var asmSelLeadZero = []string{"00", "01", "07", "08", "09", "000", "007", "010", "017", "0123", "0999", "00000000001", "037777777777", "040000000000"}
var asmSelDigitPrefix = []string{"1a", "0a", "00a", "12ab", "1a2", "1a2b", "9z", "1A", "10x", "007x", "1aB", "08a"}

func asmGenSelector(r *rand.Rand) string {
	switch r.Intn(24) {
	case 0, 1, 2, 3, 4:
		return asmPick(r, asmSelDigits[:12])
	case 5:
		return asmPick(r, asmSelDigits)
	case 6, 7:
		return fmt.Sprintf("%d", r.Uint32())
	case 8:
		return asmPick(r, asmSelLeadZero)
	case 9:
		return asmPick(r, asmSelDigitPrefix)
	case 10, 11, 12:
		return "*"
	case 13, 14, 15:
		return string(asmLower[r.Intn(26)])
	case 16, 17, 18, 19:
		return string(asmLower[r.Intn(26)]) + asmRandOver(r, asmLower+asmUpper+asmDigits, 1+r.Intn(4)) // letter first, mixed
	case 20:
		return asmRandOver(r, asmDigits, 1+r.Intn(3)) + asmRandOver(r, asmLower, 1+r.Intn(2)) + asmRandOver(r, asmDigits+asmLower, r.Intn(3))
	case 21:
		if r.Intn(3) == 0 {
			return string(asmUpper[r.Intn(26)]) + asmRandOver(r, asmLower+asmDigits, r.Intn(3)) // documented, rejected
		}
	}
	return asmRandOver(r, asmLower, 1+r.Intn(5))
}

var asmSizeBoundary = []string{"0", "1", "7", "8", "255", "256", "65535", "65536", "16777215", "16777216", "2147483648", "4294967295", "4294967296", "18446744073709551616"}
var asmSizeLeadZero = []string{"00", "01", "007", "010", "0377", "08", "0100", "037777777777", "040000000000", "0000"}

func asmGenSize(r *rand.Rand) string {
	switch r.Intn(20) {
	case 0, 1, 2, 3, 4, 5, 6, 7:
		return asmPick(r, asmSizeBoundary[:12])
	case 8:
		return asmPick(r, asmSizeBoundary)
	case 9:
		return asmPick(r, asmSizeLeadZero)
	case 10, 11:
		return fmt.Sprintf("%d", r.Uint32())
	}
	return fmt.Sprintf("%d", r.Intn(300))
}

func asmGenMode(r *rand.Rand) string {
	switch r.Intn(25) {
	case 0:
		return asmPick(r, []string{"2", "255", "256", "01", "00", "010"})
	}
	return asmPick(r, []string{"0", "1"})
}

var asmPlainOps = []string{"CATCH", "CROAK", "HALT", "INCMP", "LOAD", "MAP", "MNEXT", "MOUT", "MOVE", "MPREV", "MSINK", "RELOAD"}
var asmBatchOps = []string{"DOWN", "UP", "NEXT", "PREVIOUS"}

// a line following the documented form of its opcode word
func asmGenDocLine(r *rand.Rand, op string) asmLine {
	switch op {
	case "CATCH":
		return asmLn(op, asmGenNode(r), asmGenSize(r), asmGenMode(r))
	case "CROAK":
		return asmLn(op, asmGenSize(r), asmGenMode(r))
	case "HALT", "MSINK", "NOOP":
		return asmLn(op)
	case "INCMP":
		return asmLn(op, asmGenNode(r), asmGenSelector(r))
	case "LOAD":
		return asmLn(op, asmGenSym(r), asmGenSize(r))
	case "MAP", "RELOAD":
		return asmLn(op, asmGenSym(r))
	case "MOVE":
		return asmLn(op, asmGenNode(r))
	case "MNEXT", "MOUT", "MPREV":
		return asmLn(op, asmGenSym(r), asmGenSelector(r))
	case "DOWN":
		return asmLn(op, asmGenSym(r), asmGenSelector(r), asmGenSym(r))
	}
	// UP NEXT PREVIOUS
	return asmLn(op, asmGenSelector(r), asmGenSym(r))
}

// mostly-valid stream: plain lines followed by a block of batch lines, documented forms
func asmGenDocSource(r *rand.Rand, idx int) []asmLine {
	src := []asmLine{}
	np := r.Intn(5)
	nb := r.Intn(4)
	if np+nb == 0 {
		np = 1
	}
	for i := 0; i < np; i++ {
		// idx rotates through the opcode words so that every word is covered early
		op := asmPlainOps[(idx+i*5)%len(asmPlainOps)]
		if r.Intn(3) == 0 {
			op = asmPick(r, asmPlainOps)
		}
		src = append(src, asmGenDocLine(r, op))
	}
	for i := 0; i < nb; i++ {
		op := asmBatchOps[(idx+i)%len(asmBatchOps)]
		if r.Intn(3) == 0 {
			op = asmPick(r, asmBatchOps)
		}
		src = append(src, asmGenDocLine(r, op))
	}
	return src
}

// a documented-form source in which one symbol (from a pool of three) is the subject of two or
// three LOAD lines: same or different sizes, adjacent or separated by other lines; sometimes one
// more LOAD of it follows the menu block (then the source is not of the documented form)
func asmGenDupLoadSource(r *rand.Rand, idx int) []asmLine {
	base := asmGenDocSource(r, idx)
	k := 0
	for k < len(base) && !(base[k].Op == "DOWN" || base[k].Op == "UP" || base[k].Op == "NEXT" || base[k].Op == "PREVIOUS") {
		k++
	}
	plain := append([]asmLine{}, base[:k]...)
	batch := base[k:]
	sym := asmPick(r, []string{"foo", "bar", "do_it"})
	sizes := []string{"0", "1", "10", "20", "255", "256", "65536"}
	n := 2 + r.Intn(2)
	first := asmPick(r, sizes)
	for i := 0; i < n; i++ {
		sz := first
		if r.Intn(2) == 0 {
			sz = asmPick(r, sizes)
		}
		l := asmLn("LOAD", sym, sz)
		pos := len(plain)
		if i > 0 && r.Intn(3) > 0 {
			pos = r.Intn(len(plain) + 1)
		}
		plain = append(plain[:pos:pos], append([]asmLine{l}, plain[pos:]...)...)
	}
	out := append(plain, batch...)
	if len(batch) > 0 && r.Intn(4) == 0 {
		out = append(out, asmLn("LOAD", sym, asmPick(r, sizes)))
	}
	return out
}

var asmJunkArgs = []string{"*", ".", "_", "^", "<", ">", "a.b", "a*b", "foo-bar", "\"foo\"", "'", "_x", "*x", "1_a", "x1", "A", "aB", "1A", "0x10", "é", "a!", "-1", "1.5", "foo", "bar", "1", "0", "00", "256", "1a"}

// adversarial stream: any word (also NOOP and unknown words), any number of arguments of any
// class, batch blocks anywhere and repeated
func asmGenAdvSource(r *rand.Rand) []asmLine {
	words := append(append([]string{"NOOP", "FOO", "DOWNX", "X"}, asmPlainOps...), asmBatchOps...)
	n := 1 + r.Intn(5)
	src := []asmLine{}
	for i := 0; i < n; i++ {
		op := asmPick(r, words)
		switch r.Intn(4) {
		case 0:
			// documented form, any position (batch blocks in the middle, several blocks)
			src = append(src, asmGenDocLine(r, op))
			continue
		case 1:
			// documented form with one argument dropped, doubled or replaced
			l := asmGenDocLine(r, op)
			if len(l.Args) > 0 {
				k := r.Intn(len(l.Args))
				switch r.Intn(3) {
				case 0:
					l.Args = append(l.Args[:k:k], l.Args[k+1:]...)
				case 1:
					l.Args = append(l.Args, l.Args[k])
				default:
					l.Args[k] = asmPick(r, asmJunkArgs)
				}
			} else {
				l.Args = []string{asmPick(r, asmJunkArgs)}
			}
			src = append(src, l)
			continue
		}
		na := r.Intn(6)
		args := make([]string, na)
		for k := range args {
			switch r.Intn(5) {
			case 0:
				args[k] = asmGenSym(r)
			case 1:
				args[k] = asmGenSize(r)
			case 2:
				args[k] = asmGenSelector(r)
			default:
				args[k] = asmPick(r, asmJunkArgs)
			}
		}
		src = append(src, asmLine{Op: op, Args: args})
	}
	return src
}

// ---- independent reading of a source text (for the example files) -----------------------

// asmTokenise returns the token-level source of a text in the layout the model covers; ok is false
// when the text has a line the printer would never produce (blank-only or comment-only line,
// leading empty line, missing final newline) or a character outside the argument alphabet.
func asmTokenise(text string) (src []asmLine, ok bool) {
	if text == "" {
		return []asmLine{}, true
	}
	if !strings.HasSuffix(text, "\n") || strings.HasPrefix(text, "\n") || strings.HasPrefix(text, "\r") {
		return nil, false
	}
	for _, raw := range strings.Split(strings.TrimSuffix(text, "\n"), "\n") {
		raw = strings.TrimRight(raw, "\r")
		if raw == "" {
			continue
		}
		if i := strings.IndexByte(raw, '#'); i >= 0 {
			raw = raw[:i]
		}
		f := strings.Fields(raw)
		if len(f) == 0 {
			return nil, false
		}
		src = append(src, asmLine{Op: f[0], Args: f[1:]})
	}
	return src, true
}

// ---- flag preprocessor (asm -f table.csv file) ---------------------------------------------

// a flag table as its CSV records; fields are generated without quotes, commas, line breaks or
// leading blanks, so that encoding/csv returns exactly these records (the CSV syntax itself is
// outside the model)
type asmRows [][]string

func (t asmRows) term() string {
	r := make([]string, len(t))
	for i, row := range t {
		r[i] = hx.SList(row)
	}
	return hx.List(r)
}

func (t asmRows) csv() string {
	sb := strings.Builder{}
	for _, row := range t {
		sb.WriteString(strings.Join(row, ","))
		sb.WriteString("\n")
	}
	return sb.String()
}

var asmFlagDescs = []string{"and this is the description of the flag 'bar'", "x", "set when done", "8", "flag"}

func asmGenFlagName(r *rand.Rand) string {
	switch r.Intn(8) {
	case 0:
		return asmPick(r, []string{"foo", "bar", "baz", "flag_foo", "identified"})
	case 1:
		return string(asmLower[r.Intn(26)])
	}
	return string(asmLower[r.Intn(26)]) + asmRandOver(r, asmWordch, 1+r.Intn(7))
}

// documented table: 2-5 distinct names over the symbol alphabet, numbers 8..40, sometimes a description
func asmGenTable(r *rand.Rand) (asmRows, []string) {
	n := 2 + r.Intn(4)
	rows := asmRows{}
	names := []string{}
	seen := map[string]bool{}
	for len(rows) < n {
		nm := asmGenFlagName(r)
		if seen[nm] {
			continue
		}
		seen[nm] = true
		names = append(names, nm)
		row := []string{"flag", nm, fmt.Sprintf("%d", 8+r.Intn(33))}
		if r.Intn(3) == 0 {
			row = append(row, asmPick(r, asmFlagDescs))
		}
		rows = append(rows, row)
	}
	return rows, names
}

// one malformed or unusual row added to (or replacing one of) a documented table
func asmSpoilTable(r *rand.Rand, rows asmRows, names []string) asmRows {
	nm := names[r.Intn(len(names))]
	var row []string
	switch r.Intn(14) {
	case 0:
		row = []string{"flag", asmGenFlagName(r), asmPick(r, []string{"7", "0", "3"})} // below FLAG_USERSTART: load error
	case 1:
		row = []string{"flag", asmGenFlagName(r), asmPick(r, []string{"x", "", "1a", "8 ", "99999999999999999999"})} // not numeric: load error
	case 2:
		row = asmPick2(r, [][]string{{"flag", "zz"}, {"flag"}}) // too few fields: load error
	case 3:
		row = []string{"flag", nm, fmt.Sprintf("%d", 8+r.Intn(33))} // the name defined twice: the later row wins
	case 4:
		row = asmPick2(r, [][]string{{"note", nm, "3"}, {"Flag", nm, "9"}, {"x"}, {"", "flag", nm, "9"}}) // not a flag row: ignored
	case 5:
		row = []string{"flag", nm, asmPick(r, []string{"010", "08", "0012"})} // leading zero: passes Atoi, read as octal (or refused) by the assembler
	case 6:
		row = []string{"flag", nm, asmPick(r, []string{"+12", "-9", "-0"})} // signs pass Atoi
	case 7:
		row = []string{"flag", nm, asmPick(r, []string{"255", "256", "300", "65536", "4294967295", "4294967296"})}
	case 8:
		row = []string{"flag", asmPick(r, []string{"Foo", "1a", "8", "12", "a.b", "*", "_x", "99999999999999999999"}), "9"} // names that are not symbols
	case 9:
		row = []string{"flag", nm, "11", "desc", "more", "fields"}
	case 10:
		return asmRows{} // empty table
	default:
		return rows
	}
	if r.Intn(2) == 0 {
		return append(append(asmRows{}, rows...), row)
	}
	return append(asmRows{row}, rows...)
}

func asmPick2(r *rand.Rand, l [][]string) []string { return l[r.Intn(len(l))] }

// the flag argument of CATCH/CROAK lines is replaced by a name of the table (mostly), a name
// the table does not define, or left a number; at least one such line is present
func asmUseFlags(r *rand.Rand, src []asmLine, names []string) []asmLine {
	flagArg := func() string {
		switch r.Intn(10) {
		case 0:
			return asmPick(r, []string{"nope", "undefined_flag", "x9"})
		case 1, 2:
			return fmt.Sprintf("%d", 8+r.Intn(60))
		case 3:
			if r.Intn(3) == 0 {
				return asmPick(r, []string{"010", "00", "1a", "*", "99999999999999999999", "Foo", "4294967296"})
			}
		}
		return names[r.Intn(len(names))]
	}
	has := false
	out := []asmLine{}
	for _, l := range src {
		l = asmLine{Op: l.Op, Args: append([]string{}, l.Args...)}
		if l.Op == "CATCH" && len(l.Args) == 3 {
			l.Args[1] = flagArg()
			has = true
		}
		if l.Op == "CROAK" && len(l.Args) == 2 {
			l.Args[0] = flagArg()
			has = true
		}
		out = append(out, l)
	}
	if !has {
		var l asmLine
		if r.Intn(2) == 0 {
			l = asmLn("CATCH", asmGenNode(r), flagArg(), asmGenMode(r))
		} else {
			l = asmLn("CROAK", flagArg(), asmGenMode(r))
		}
		k := 0
		for k < len(out) && !(out[k].Op == "DOWN" || out[k].Op == "UP" || out[k].Op == "NEXT" || out[k].Op == "PREVIOUS") {
			k++
		}
		k = r.Intn(k + 1)
		out = append(out[:k:k], append([]asmLine{l}, out[k:]...)...)
	}
	return out
}

// the records encoding/csv returns for a file (as FlagParser.Load reads it)
func asmReadRows(fp string) (asmRows, error) {
	f, err := os.Open(fp)
	if err != nil {
		return nil, err
	}
	defer f.Close()
	rd := csv.NewReader(f)
	rd.FieldsPerRecord = -1
	recs, err := rd.ReadAll()
	return asmRows(recs), err
}

// ---- driver --------------------------------------------------------------------------

func runAsm(o opts) error {
	w := &hx.Writer{Dir: o.out, Prop: o.prop, Imports: "Bytes Errors Consts Codec CorrBase CodecCorr AsmModel AsmPreModel AsmCorr",
		CaseType: "acase", Mism: "asm_mismatches", Viol: "asm_violations", PerShard: 150}

	// the shipped assembler command (dev/asm, built from /repo by bin/check next to this binary)
	exe, _ := os.Executable()
	asmBin := filepath.Join(filepath.Dir(exe), "asmcmd")
	if _, err := os.Stat(asmBin); err != nil {
		return fmt.Errorf("dev/asm command not built: %v", err)
	}
	nAdded := 0
	addCmd := func(src []asmLine, text string, kind string) {
		fp := filepath.Join(o.out, "asm_input.vis")
		if err := os.WriteFile(fp, []byte(text), 0600); err != nil {
			panic(err)
		}
		cmd := exec.Command(asmBin, fp)
		var so, se bytes.Buffer
		cmd.Stdout, cmd.Stderr = &so, &se
		err := cmd.Run()
		code := 0
		if err != nil {
			if ee, ok := err.(*exec.ExitError); ok {
				code = ee.ExitCode()
			} else {
				panic(err)
			}
		}
		os.Remove(fp)
		w.Add(hx.Case{Kind: "cmd:" + kind, Trivial: len(src) == 0,
			Term: fmt.Sprintf("ACmd %s %s %d", asmSrcTerm(src), hx.B(so.Bytes()), code),
			Key:  "cmd:" + asmSrcTerm(src),
			Desc: map[string]interface{}{"src": src, "text": text, "stdout": fmt.Sprintf("%x", so.Bytes()), "exit": code}})
	}
	addPre := func(rows asmRows, csvText string, src []asmLine, text string, kind string) {
		fp := filepath.Join(o.out, "asm_input.vis")
		cp := filepath.Join(o.out, "asm_flags.csv")
		if err := os.WriteFile(fp, []byte(text), 0600); err != nil {
			panic(err)
		}
		if err := os.WriteFile(cp, []byte(csvText), 0600); err != nil {
			panic(err)
		}
		cmd := exec.Command(asmBin, "-f", cp, fp)
		var so, se bytes.Buffer
		cmd.Stdout, cmd.Stderr = &so, &se
		err := cmd.Run()
		code := 0
		if err != nil {
			if ee, ok := err.(*exec.ExitError); ok {
				code = ee.ExitCode()
			} else {
				panic(err)
			}
		}
		os.Remove(fp)
		os.Remove(cp)
		w.Count(fmt.Sprintf("pre:%s/exit%d", kind, code))
		w.Add(hx.Case{Kind: "pre:" + kind, Trivial: len(src) == 0,
			Term: fmt.Sprintf("APre %s %s %s %d", rows.term(), asmSrcTerm(src), hx.B(so.Bytes()), code),
			Key:  "pre:" + rows.term() + asmSrcTerm(src),
			Desc: map[string]interface{}{"table": rows, "csv": csvText, "src": src, "text": text, "stdout": fmt.Sprintf("%x", so.Bytes()), "exit": code}})
	}
	add := func(src []asmLine, text string, kind string) {
		nAdded++
		if kind == "corpus" || kind == "example" || nAdded%7 == 0 {
			addCmd(src, text, kind)
		}
		written, outcome, how := observeAsm(text)
		w.Count(how)
		w.Count(kind + "/" + how)
		w.Add(hx.Case{Kind: kind, Trivial: len(src) == 0,
			Term: fmt.Sprintf("ACase %s %s %s", asmSrcTerm(src), hx.B(written), outcome),
			Key:  asmSrcTerm(src),
			Desc: map[string]interface{}{"src": src, "text": text, "written": fmt.Sprintf("%x", written), "outcome": how}})
	}

	// asm.MenuProcessor used directly (asm/menu.go): Add + ToLines with selectors of every shape —
	// nothing the caller wrote may be altered on this path (asm.Parse normalises numbers BEFORE it calls Add)
	addMenu := func(kind string, adds [][4]string) {
		var out []byte
		var err error
		pk, _ := hx.Recover(func() {
			mp := asm.NewMenuProcessor()
			for _, a := range adds {
				if err = mp.Add(a[0], a[1], a[2], a[3]); err != nil {
					return
				}
			}
			out = mp.ToLines()
		})
		res := ""
		switch {
		case pk:
			res = hx.Panic()
		case err != nil:
			res = hx.Err("EGen")
		default:
			res = hx.Ok(hx.B(out))
		}
		items := make([]string, len(adds))
		for i, a := range adds {
			items[i] = fmt.Sprintf("(%s, %s, %s, %s)", hx.S(a[0]), hx.S(a[1]), hx.S(a[2]), hx.S(a[3]))
		}
		w.Add(hx.Case{Kind: kind, Term: fmt.Sprintf("AMenu %s %s", hx.List(items), res), Key: "menu:" + strings.Join(items, ";"),
			Desc: map[string]interface{}{"adds": adds, "bytes": fmt.Sprintf("%x", out)}})
	}
	menuSels := []string{"0", "1", "00", "01", "007", "010", "0000", "42", "4294967296", "a", "b2", "1a", "*", "x_1", "99999999999"}
	menuCases := func(n int, seedTag string) {
		addMenu("menu-corpus", [][4]string{{"DOWN", "00", "to_foo", "foo"}, {"UP", "01", "back", ""}, {"NEXT", "007", "fwd", ""}, {"PREVIOUS", "010", "prev", ""}})
		addMenu("menu-corpus", [][4]string{{"UP", "0", "back", ""}})
		addMenu("menu-corpus", [][4]string{{"UP", "0", "back", "foo"}})
		addMenu("menu-corpus", [][4]string{{"SIDEWAYS", "0", "back", ""}})
		addMenu("menu-corpus", [][4]string{})
		for c := 0; c < n; c++ {
			r := hx.Rng(o.seed, seedTag, c)
			var adds [][4]string
			for k := 1 + r.Intn(4); k > 0; k-- {
				code := []string{"DOWN", "UP", "NEXT", "PREVIOUS"}[r.Intn(4)]
				tgt := ""
				if code == "DOWN" {
					tgt = []string{"foo", "bar", "_", "^"}[r.Intn(4)]
				}
				adds = append(adds, [4]string{code, menuSels[r.Intn(len(menuSels))], []string{"back", "to_foo", "fwd", "lbl1"}[r.Intn(4)], tgt})
			}
			addMenu("menu", adds)
		}
	}
	if o.prop == "C14" {
		w.Viol = "asm_violations_c14"
		menuCases(o.n/2, "asm-menu")
	} else {
		menuCases(o.n/10, "asm-menu")
	}

	// corpus: one per finding class, then the examples of instructions.texi
	long256 := strings.Repeat("a", 256)
	corpus := [][]asmLine{
		{asmLn("INCMP", "foo", "00")},           // K-C16-numnorm: emitted INCMP foo 0
		{asmLn("INCMP", "foo", "1a")},           // K-C16-digitprefix: emitted INCMP foo 1
		{asmLn("MOVE", long256), asmLn("HALT")}, // K-C16-longsym: emitted 0006 without the symbol
		{asmLn("LOAD", "foo", "010")},           // K-C16-octal: emitted LOAD foo 8
		{asmLn("DOWN", "foo", "1a", "to_foo")},  // digitprefix in a batch line: selector a
		{asmLn("MOUT", "foo", "1a")},            // digitprefix, MOUT keeps the tail: a
		{asmLn("INCMP", "foo", "010")},          // numnorm through octal: 8
		{asmLn("UP", "01", "back")},             // numnorm in a batch line
		{asmLn("UP", "1", long256)},             // longsym in a batch line (length byte wraps to 0)
		{asmLn("CATCH", "foo", "010", "1")},     // octal signal
		{asmLn("UP", "1a", "back")},             // digitprefix: nil dereference in MenuAdd (panic)
		{asmLn("INCMP", "^", "00")},             // asm_test.go TestParseMenuZeroPrefix
		{asmLn("CATCH", "foo", "8", "1")}, {asmLn("CATCH", "foo", "8", "0")},
		{asmLn("CROAK", "8", "1")}, {asmLn("HALT")}, {asmLn("INCMP", "foo", "0")}, {asmLn("INCMP", "foo", "*")},
		{asmLn("LOAD", "foo", "42")}, {asmLn("MAP", "foo")}, {asmLn("MNEXT", "fwd", "2")}, {asmLn("MOUT", "to_foo", "0")},
		{asmLn("MOVE", "foo")}, {asmLn("MOVE", "_")}, {asmLn("MPREV", "back", "3")}, {asmLn("MSINK")}, {asmLn("RELOAD", "foo")},
		{asmLn("DOWN", "foo", "0", "to_foo")},
		{asmLn("UP", "1", "back")},
		{asmLn("NEXT", "2", "fwd")},
		{asmLn("PREVIOUS", "3", "back")},
		{asmLn("DOWN", "foo", "0", "to_foo"), asmLn("UP", "1", "back")},
		{asmLn("LOAD", "foo", "1"), asmLn("MAP", "foo"), asmLn("DOWN", "foo", "a", "to_foo"), asmLn("UP", "b2", "back"), asmLn("NEXT", "11", "fwd"), asmLn("PREVIOUS", "22", "back")},
		// the batcher is never reset: a second block repeats the first (not a documented source)
		{asmLn("UP", "1", "a"), asmLn("HALT"), asmLn("UP", "2", "b")},
		{asmLn("NOOP")},
		{},
		// the same symbol loaded more than once in one source: every LOAD line is an instruction
		{asmLn("LOAD", "foo", "10"), asmLn("HALT"), asmLn("LOAD", "foo", "20")},
		{asmLn("LOAD", "foo", "10"), asmLn("LOAD", "foo", "10")},
		{asmLn("LOAD", "foo", "0"), asmLn("LOAD", "bar", "1"), asmLn("LOAD", "foo", "0"), asmLn("MAP", "foo"), asmLn("LOAD", "foo", "300"), asmLn("DOWN", "foo", "0", "to_foo")},
		{asmLn("LOAD", "foo", "1"), asmLn("UP", "1", "back"), asmLn("LOAD", "foo", "1")}, // across a menu block (not a documented source)
		// a batch block followed by ordinary instructions; the three-symbol DOWN form with a symbolic selector
		{asmLn("DOWN", "foo", "1", "to_foo"), asmLn("UP", "0", "back"), asmLn("INCMP", ".", "*")},
		{asmLn("DOWN", "foo", "k", "baz"), asmLn("MOVE", "bar")},
		{asmLn("LOAD", "aa", "0"), asmLn("NEXT", "n", "fwd"), asmLn("PREVIOUS", "p", "prev"), asmLn("HALT"), asmLn("INCMP", "_", "0")},
		// bytes that mean something to a formatter: 0x25 as a size, inside a size, as a length prefix
		{asmLn("LOAD", "foo", "37")}, {asmLn("LOAD", "foo", "9472")}, {asmLn("CROAK", "37", "0")},
		{asmLn("MOVE", strings.Repeat("n", 37)), asmLn("HALT")}, {asmLn("DOWN", strings.Repeat("n", 37), "1", "to_foo")},
	}
	for _, src := range corpus {
		add(src, asmPlainText(src), "corpus")
	}

	// example sources of the repository (flag names need the CSV preprocessor of dev/asm:
	// such files are rejected by asm.Parse itself and are counted, not modelled)
	files, _ := filepath.Glob("/repo/examples/*/*.vis")
	sort.Strings(files)
	for _, f := range files {
		d, err := os.ReadFile(f)
		if err != nil {
			continue
		}
		src, ok := asmTokenise(string(d))
		if !ok {
			w.Count("example_layout_outside_model")
			continue
		}
		if strings.Contains(f, "/preprocessor/root.vis") {
			w.Count("example_needs_flag_preprocessor")
		}
		add(src, string(d), "example")
	}

	// layout the real parser rejects (counted only; the model starts from tokens)
	for _, t := range []string{"\nHALT\n", "HALT", "# c\nHALT\n", "HALT\n# c\n", "HALT\n \nMSINK\n", "HALT\n\t# c\nMSINK\n"} {
		_, _, how := observeAsm(t)
		w.Count("layout_probe/" + how)
	}

	// finite sweep of the selector position: every string up to length 2 (thorough: 3) over a
	// small alphabet with one member of each lexer class, in the four kinds of selector position
	alpha := []string{"0", "1", "8", "a", "B", "_", "*"}
	sweep := []string{}
	level := []string{""}
	maxLen := 2
	if o.tier == "thorough" {
		maxLen = 3
	}
	for k := 0; k < maxLen; k++ {
		next := []string{}
		for _, p := range level {
			for _, c := range alpha {
				next = append(next, p+c)
			}
		}
		sweep = append(sweep, next...)
		level = next
	}
	for _, sel := range sweep {
		for _, src := range [][]asmLine{
			{asmLn("INCMP", "foo", sel)}, {asmLn("MOUT", "foo", sel)},
			{asmLn("DOWN", "foo", sel, "bar")}, {asmLn("UP", sel, "bar")}} {
			add(src, asmPlainText(src), "sweep")
		}
	}

	ndoc := o.n * 2 / 3
	for i := 0; i < ndoc; i++ {
		r := hx.Rng(o.seed, "asm-doc", i)
		src := asmGenDocSource(r, i)
		add(src, asmPrintSrc(r, src), "doc")
	}
	for i := 0; i < o.n/10; i++ {
		r := hx.Rng(o.seed, "asm-dup", i)
		src := asmGenDupLoadSource(r, i)
		add(src, asmPrintSrc(r, src), "dupload")
	}
	for i := 0; i < o.n-ndoc; i++ {
		r := hx.Rng(o.seed, "asm-adv", i)
		src := asmGenAdvSource(r)
		add(src, asmPrintSrc(r, src), "adv")
	}
	// ---- the command with its flag preprocessor ----
	repo := "/repo"
	if d := os.Getenv("VERIF_REPO"); d != "" {
		repo = d
	}
	// the repository's example: examples/preprocessor/*.vis with pp.csv
	ppDir := filepath.Join(repo, "examples", "preprocessor")
	if rows, err := asmReadRows(filepath.Join(ppDir, "pp.csv")); err == nil {
		csvBytes, _ := os.ReadFile(filepath.Join(ppDir, "pp.csv"))
		ppFiles, _ := filepath.Glob(filepath.Join(ppDir, "*.vis"))
		sort.Strings(ppFiles)
		for _, f := range ppFiles {
			d, err := os.ReadFile(f)
			if err != nil {
				continue
			}
			if src, ok := asmTokenise(string(d)); ok {
				addPre(rows, string(csvBytes), src, string(d), "example")
			}
		}
	}
	tbl := asmRows{{"flag", "foo", "8"}, {"flag", "bar", "10", "and this is the description of the flag 'bar'"}, {"flag", "baz", "12"}}
	preCorpus := []struct {
		rows asmRows
		src  []asmLine
	}{
		{tbl, []asmLine{asmLn("CATCH", "last", "bar", "1"), asmLn("CROAK", "baz", "1"), asmLn("HALT")}},
		{tbl, []asmLine{asmLn("CATCH", "last", "10", "1"), asmLn("CROAK", "12", "0")}}, // numbers pass
		{tbl, []asmLine{asmLn("CATCH", "last", "nope", "1")}},                          // unknown name: exit 1
		{tbl, []asmLine{asmLn("MOVE", "foo"), asmLn("CROAK", "nope", "0")}},            // unknown name after a good line: nothing written
		{tbl, []asmLine{asmLn("CATCH", "last", "8")}},                                  // nil dereference in processFlag: exit 2
		{tbl, []asmLine{asmLn("CATCH", "last", "nope")}},                               // lookup error comes before the dereference: exit 1
		{tbl, []asmLine{asmLn("CATCH", "last")}}, {tbl, []asmLine{asmLn("CROAK", "baz")}}, {tbl, []asmLine{asmLn("CATCH")}},
		{tbl, []asmLine{asmLn("CROAK", "baz", "1", "x")}},   // third token dropped by the preprocessor
		{tbl, []asmLine{asmLn("CATCH", "foo", "010", "1")}}, // numeral with leading zero passes Atoi; octal in the assembler
		{tbl, []asmLine{asmLn("CATCH", "foo", "00", "1")}}, {tbl, []asmLine{asmLn("CATCH", "foo", "1a", "1")}},
		{tbl, []asmLine{asmLn("CATCH", "foo", "*", "1")}}, {tbl, []asmLine{asmLn("CATCH", "foo", "99999999999999999999", "1")}},
		{tbl, []asmLine{asmLn("INCMP", "foo", "1a")}}, {tbl, []asmLine{asmLn("INCMP", "foo", "00")}}, {tbl, []asmLine{asmLn("INCMP", "Foo", "a")}},
		{tbl, []asmLine{asmLn("INCMP", "foo", "1", "2", "3")}}, {tbl, []asmLine{asmLn("MOVE", "a.b", "c", "d")}},
		{tbl, []asmLine{asmLn("LOAD", "foo", "37"), asmLn("CATCH", "x", "foo", "0"), asmLn("DOWN", "foo", "0", "to_foo"), asmLn("UP", "b2", "back"), asmLn("NEXT", "11", "fwd"), asmLn("PREVIOUS", "22", "back")}},
		{tbl, []asmLine{}},
		{asmRows{{"flag", "bar", "010"}}, []asmLine{asmLn("CATCH", "foo", "bar", "1")}},               // octal through the table: signal 8
		{asmRows{{"flag", "bar", "9"}, {"flag", "bar", "11"}}, []asmLine{asmLn("CROAK", "bar", "1")}}, // later row wins
		{asmRows{{"flag", "bar", "7"}}, []asmLine{asmLn("HALT")}},                                     // load error
		{asmRows{{"flag", "bar", "x"}}, []asmLine{asmLn("HALT")}}, {asmRows{{"flag", "bar"}}, []asmLine{asmLn("HALT")}},
		{asmRows{{"note", "bar", "3"}, {"flag", "bar", "37"}}, []asmLine{asmLn("CATCH", "foo", "bar", "0")}},
		{asmRows{{"flag", "bar", "+12"}}, []asmLine{asmLn("CROAK", "bar", "0")}}, {asmRows{{"flag", "bar", "-9"}}, []asmLine{asmLn("HALT")}},
		{asmRows{{"flag", "8", "12"}}, []asmLine{asmLn("CATCH", "foo", "8", "1")}},                                       // a numeral as name is never looked up
		{asmRows{{"flag", "99999999999999999999", "12"}}, []asmLine{asmLn("CATCH", "foo", "99999999999999999999", "1")}}, // ... unless Atoi refuses it
		{asmRows{}, []asmLine{asmLn("CROAK", "bar", "0")}},
	}
	for _, c := range preCorpus {
		addPre(c.rows, c.rows.csv(), c.src, asmPlainText(c.src), "corpus")
	}
	npre := o.n / 3
	for i := 0; i < npre; i++ {
		r := hx.Rng(o.seed, "asm-pre", i)
		rows, names := asmGenTable(r)
		var src []asmLine
		kind := "doc"
		if i%5 == 4 {
			kind = "adv"
			src = asmUseFlags(r, asmGenAdvSource(r), names)
			if r.Intn(2) == 0 {
				rows = asmSpoilTable(r, rows, names)
			}
		} else {
			src = asmUseFlags(r, asmGenDocSource(r, i), names)
			if i%7 == 6 {
				kind = "doc-spoilt"
				rows = asmSpoilTable(r, rows, names)
			}
		}
		addPre(rows, rows.csv(), src, asmPrintSrc(r, src), kind)
	}
	return w.Flush()
}
