//go:build verif

package main

// Driver "flags" (C06): the real state.State flag field under sequences of SetFlag / ResetFlag /
// GetFlag / MatchFlag, for small and large flag counts (indices that need two bytes in the
// bytecode included) and indices outside the field.  Observed: every returned bool or panic and
// the flag bytes at the end.

import (
	"fmt"
	"math/rand"

	"git.defalsify.org/vise.git/state"
	"verif/harness/internal/hx"
)

func init() { drivers["flags"] = runFlags }

type flOp struct {
	kind int // 0 set 1 reset 2 get 3 match
	i    uint32
	mode bool
}

func (o flOp) term() string {
	switch o.kind {
	case 0:
		return fmt.Sprintf("FSet %d", o.i)
	case 1:
		return fmt.Sprintf("FReset %d", o.i)
	case 2:
		return fmt.Sprintf("FGet %d", o.i)
	}
	return fmt.Sprintf("FMatch %d %s", o.i, hx.Bool(o.mode))
}

func flRun(count uint32, ops []flOp) (string, []string) {
	st := state.NewState(count)
	items := make([]string, len(ops))
	short := make([]string, len(ops))
	for k, o := range ops {
		var b bool
		pk, _ := hx.Recover(func() {
			switch o.kind {
			case 0:
				b = st.SetFlag(o.i)
			case 1:
				b = st.ResetFlag(o.i)
			case 2:
				b = st.GetFlag(o.i)
			default:
				b = st.MatchFlag(o.i, o.mode)
			}
		})
		obs := "FB " + hx.Bool(b)
		if pk {
			obs = "FPanic"
		}
		items[k] = fmt.Sprintf("(%s, %s)", o.term(), obs)
		short[k] = o.term() + " -> " + obs
	}
	return fmt.Sprintf("(mkFl %d %s %s)", count, hx.List(items), hx.B(st.Flags)), short
}

var flCounts = []uint32{0, 1, 4, 4, 8, 9, 56, 120, 248, 249, 300, 300, 600, 1000, 2032}

func genFlOps(r *rand.Rand, count uint32, n int) []flOp {
	bits := count + 8
	// a small pool of indices so that operations meet: low, around 256, aliases mod 256, the last
	// flag, the first index outside
	pool := []uint32{8, uint32(r.Intn(8)), bits - 1, bits, bits + uint32(r.Intn(9))}
	for k := 0; k < 4; k++ {
		pool = append(pool, uint32(r.Intn(int(bits))))
	}
	if bits > 256 {
		hi := 256 + uint32(r.Intn(int(bits-256)))
		pool = append(pool, hi, hi%256, hi, 256, 255, 264, 8)
	}
	if bits > 512 {
		hi := 512 + uint32(r.Intn(int(bits-512)))
		pool = append(pool, hi, hi%256, hi-256)
	}
	ops := make([]flOp, n)
	for k := range ops {
		ops[k] = flOp{kind: r.Intn(4), i: pool[r.Intn(len(pool))], mode: r.Intn(2) == 0}
		if r.Intn(40) == 0 {
			ops[k].i = r.Uint32()
		}
	}
	return ops
}

func runFlags(o opts) error {
	w := &hx.Writer{Dir: o.out, Prop: o.prop, Imports: "Bytes Errors Consts StateModel CorrBase FlagCorr", CaseType: "flcase",
		Mism: "flag_mismatches", Viol: "flag_violations", PerShard: 100}
	add := func(kind string, count uint32, ops []flOp) {
		term, short := flRun(count, ops)
		w.Add(hx.Case{Kind: kind, Term: term, Trivial: len(ops) < 3,
			Desc: map[string]interface{}{"flag_count": count, "ops": short}})
	}
	// corpus: the CATCH/CROAK test on an index that needs two bytes, with its alias mod 256 set / clear
	add("corpus:two-byte-index", 300, []flOp{{0, 264, false}, {2, 264, false}, {2, 8, false}, {3, 264, true}, {3, 8, true}, {0, 8, false}, {1, 264, false}, {2, 8, false}, {2, 264, false}})
	add("corpus:alias-set-first", 300, []flOp{{0, 8, false}, {0, 264, false}, {2, 264, false}, {3, 264, true}, {1, 8, false}, {2, 264, false}})
	add("corpus:last-flag", 2032, []flOp{{0, 2039, false}, {2, 2039, false}, {2, 2040, false}, {0, 2040, false}, {2, 247, false}})
	add("corpus:out-of-range", 1, []flOp{{0, 8, false}, {0, 9, false}, {2, 15, false}, {1, 4294967295, false}, {2, 8, false}})
	add("corpus:byte-size-wrap", 2041, []flOp{{0, 8, false}, {0, 2047, false}, {2, 2047, false}, {0, 2048, false}})
	for c := 0; c < o.n; c++ {
		r := hx.Rng(o.seed, "flags", c)
		count := flCounts[r.Intn(len(flCounts))]
		if r.Intn(25) == 0 {
			count = uint32(2033 + r.Intn(3000))
		}
		n := 4 + r.Intn(16)
		if o.tier == "thorough" {
			n = 4 + r.Intn(40)
		}
		add("generated", count, genFlOps(r, count, n))
	}
	return w.Flush()
}
