//go:build verif

package main

// Driver "staticload" (C18): resource.DbResource with DATATYPE_STATICLOAD enabled over a memory
// store; ONE resource object is asked for the same static symbols repeatedly under different
// context languages (FuncFor, then the returned function is called).  Observed: content or error.

import (
	"context"
	"fmt"
	"math/rand"

	"git.defalsify.org/vise.git/db"
	memdb "git.defalsify.org/vise.git/db/mem"
	"git.defalsify.org/vise.git/lang"
	"git.defalsify.org/vise.git/resource"
	"verif/harness/internal/hx"
)

func init() { drivers["staticload"] = runStatic }

type stQuery struct {
	lang string // "" = no language in the context
	sym  string
}

func stRun(entries [][2]string, qs []stQuery) (string, []string) {
	ctx := context.Background()
	m := memdb.NewMemDb()
	m.Connect(ctx, "")
	for _, t := range []uint8{db.DATATYPE_BIN, db.DATATYPE_TEMPLATE, db.DATATYPE_MENU, db.DATATYPE_STATICLOAD} {
		m.SetLock(t, false)
	}
	m.SetPrefix(db.DATATYPE_STATICLOAD)
	ents := make([]string, len(entries))
	for i, e := range entries {
		if err := m.Put(ctx, []byte(e[0]), []byte(e[1])); err != nil {
			panic(err)
		}
		ents[i] = fmt.Sprintf("(%s, %s)", hx.S(e[0]), hx.S(e[1]))
	}
	m.SetLock(0, true)
	rs := resource.NewDbResource(m).With(db.DATATYPE_STATICLOAD)
	items := make([]string, len(qs))
	short := make([]string, len(qs))
	for i, q := range qs {
		c := ctx
		l := "None"
		if q.lang != "" {
			c = context.WithValue(ctx, "Language", lang.Language{Code: q.lang, Name: "x"})
			l = "(Some " + hx.S(q.lang) + ")"
		}
		obs := ""
		pk, _ := hx.Recover(func() {
			fn, err := rs.FuncFor(c, q.sym)
			if err != nil {
				obs = errTermRes(err)
				return
			}
			if i%2 == 1 {
				// the handle is used for other data types between resolving the symbol and calling the function
				rs.GetCode(c, q.sym)
				rs.GetTemplate(c, q.sym)
			}
			r, err := fn(c, q.sym, nil)
			if err != nil {
				obs = errTermRes(err)
				return
			}
			obs = hx.Ok(hx.S(r.Content))
		})
		if pk {
			obs = hx.Panic()
		}
		items[i] = fmt.Sprintf("(mkSq %s %s %s)", l, hx.S(q.sym), obs)
		short[i] = fmt.Sprintf("%s/%s -> %s", q.lang, q.sym, obs)
	}
	return fmt.Sprintf("(mkSt %s %s)", hx.List(ents), hx.List(items)), short
}

func errTermRes(err error) string {
	if db.IsNotFound(err) {
		return hx.Err("ENotFound")
	}
	return hx.Err("EGen")
}

func runStatic(o opts) error {
	w := &hx.Writer{Dir: o.out, Prop: o.prop, Imports: "Bytes Errors Consts DbKey DbModel CorrBase ResModel StaticCorr", CaseType: "stcase",
		Mism: "static_mismatches", Viol: "static_violations", PerShard: 60}
	add := func(kind string, entries [][2]string, qs []stQuery) {
		term, short := stRun(entries, qs)
		w.Add(hx.Case{Kind: kind, Term: term, Trivial: len(qs) < 2, Desc: map[string]interface{}{"entries": entries, "lookups": short}})
	}
	// corpus: the same symbol first in one language, then in another, then without, on one resource
	add("corpus:switch-language", [][2]string{{"greet", "hello"}, {"greet_nor", "hei"}, {"greet_swa", "habari"}, {"bye.txt", "bye"}, {"bye.txt_nor", "ha det"}},
		[]stQuery{{"", "greet"}, {"nor", "greet"}, {"swa", "greet"}, {"", "greet"}, {"fra", "greet"}, {"nor", "bye"}, {"", "bye"}, {"swa", "bye"}, {"nor", "none"}})
	add("corpus:translation-only", [][2]string{{"only_nor", "bare norsk"}}, []stQuery{{"", "only"}, {"nor", "only"}, {"", "only"}, {"swa", "only"}, {"nor", "only"}})
	add("corpus:overwritten", [][2]string{{"k", "one"}, {"k_nor", "en"}, {"k", "two"}}, []stQuery{{"nor", "k"}, {"", "k"}})
	syms := []string{"greet", "bye", "info", "x", "long_symbol_name", "t2"}
	langs := []string{"", "", "nor", "swa", "fra", "eng"}
	for c := 0; c < o.n; c++ {
		r := hx.Rng(o.seed, "staticload", c)
		var entries [][2]string
		for _, s := range syms {
			if r.Intn(3) == 0 {
				continue
			}
			key := s
			if r.Intn(3) == 0 {
				key = s + ".txt"
			}
			if r.Intn(5) > 0 {
				entries = append(entries, [2]string{key, "d:" + s})
			}
			for _, l := range []string{"nor", "swa", "fra"} {
				if r.Intn(3) == 0 {
					entries = append(entries, [2]string{key + "_" + l, l + ":" + s})
				}
			}
			if r.Intn(8) == 0 { // both forms present: the plain key wins
				entries = append(entries, [2]string{s + ".txt", "txt:" + s})
			}
		}
		r.Shuffle(len(entries), func(i, j int) { entries[i], entries[j] = entries[j], entries[i] })
		nq := 3 + r.Intn(10)
		qs := make([]stQuery, nq)
		for i := range qs {
			qs[i] = stQuery{lang: langs[r.Intn(len(langs))], sym: syms[r.Intn(len(syms))]}
			if i > 0 && r.Intn(2) == 0 { // the same symbol again, usually in another language
				qs[i].sym = qs[i-1].sym
			}
		}
		add("generated", entries, qs)
	}
	return w.Flush()
}

var _ = rand.Int
