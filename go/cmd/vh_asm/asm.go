//go:build verif

package main

import (
	"bytes"
	"fmt"
	"math/rand"
	"os"
	"path/filepath"
	"sort"
	"strings"

	"git.defalsify.org/vise.git/asm"
	"verif/harness/internal/hx"
)

// Driver "asm" (property C16): generates token-level assembly sources, prints them as text
// with its own choice of blanks, trailing comments and empty lines, runs the real asm.Parse
// and records what it wrote and how it ended.  The Coq side (corr/AsmCorr.v) compares with
// the model (asm_mismatches) and runs the C16 monitor on the observed bytes (asm_violations).

func init() { drivers["asm"] = runAsm }

type aline struct {
	Op   string   `json:"op"`
	Args []string `json:"args"`
}

func (l aline) term() string {
	return fmt.Sprintf("(L %s %s)", hx.S(l.Op), hx.SList(l.Args))
}

func srcTerm(src []aline) string {
	r := make([]string, len(src))
	for i, l := range src {
		r[i] = l.term()
	}
	return hx.List(r)
}

func ln(op string, args ...string) aline { return aline{Op: op, Args: args} }

// canonical text: one blank between words, LF after every line
func plainText(src []aline) string {
	sb := strings.Builder{}
	for _, l := range src {
		sb.WriteString(l.Op)
		for _, a := range l.Args {
			sb.WriteString(" ")
			sb.WriteString(a)
		}
		sb.WriteString("\n")
	}
	return sb.String()
}

func blanks(r *rand.Rand, min int) string {
	n := min + r.Intn(3)
	b := make([]byte, n)
	for i := range b {
		if r.Intn(4) == 0 {
			b[i] = '\t'
		} else {
			b[i] = ' '
		}
	}
	return string(b)
}

var commentBodies = []string{"", " c", " HALT", " INCMP foo 1a", "#", " \"q\" 'q'", " 00 1a -", "\tx  ", " MOVE A\r"}

// print_src: the same token-level source with generator-chosen layout the assembler accepts:
// blanks before the opcode word, one or more blanks/tabs between words, blanks before the end
// of the line, a trailing comment, LF or CRLF, and empty lines (newline characters only) after
// a line.  (A leading empty line, a missing final newline, a comment-only line and a
// blank-only line are rejected by the real parser; those are exercised in layoutProbes.)
func printSrc(r *rand.Rand, src []aline) string {
	sb := strings.Builder{}
	for _, l := range src {
		if r.Intn(5) == 0 {
			sb.WriteString(blanks(r, 1))
		}
		sb.WriteString(l.Op)
		for _, a := range l.Args {
			sb.WriteString(blanks(r, 1))
			sb.WriteString(a)
		}
		if r.Intn(4) == 0 {
			sb.WriteString(blanks(r, 1))
		}
		if r.Intn(3) == 0 {
			c := commentBodies[r.Intn(len(commentBodies))]
			c = strings.ReplaceAll(c, "\r", "")
			sb.WriteString("#" + c)
		}
		nlc := "\n"
		if r.Intn(6) == 0 {
			nlc = "\r\n"
		}
		sb.WriteString(nlc)
		for k := r.Intn(6); k > 3; k-- {
			sb.WriteString(nlc)
		}
	}
	return sb.String()
}

func observeAsm(text string) (written []byte, outcome string, kind string) {
	buf := bytes.NewBuffer(nil)
	var err error
	pk, _ := hx.Recover(func() { _, err = asm.Parse(text, buf) })
	written = append([]byte{}, buf.Bytes()...)
	switch {
	case pk:
		return written, hx.Panic(), "panic"
	case err != nil:
		return written, hx.Err("EGen"), "rejected"
	}
	return written, hx.Ok("tt"), "accepted"
}

// ---- token generators ------------------------------------------------------------------

const lower = "abcdefghijklmnopqrstuvwxyz"
const upper = "ABCDEFGHIJKLMNOPQRSTUVWXYZ"
const digits = "0123456789"
const wordch = lower + upper + digits + "_"

func pick(r *rand.Rand, l []string) string { return l[r.Intn(len(l))] }

func randOver(r *rand.Rand, alphabet string, n int) string {
	b := make([]byte, n)
	for i := range b {
		b[i] = alphabet[r.Intn(len(alphabet))]
	}
	return string(b)
}

// symbol / label / regular node: [a-zA-Z][a-zA-Z0-9_]*
func genSym(r *rand.Rand) string {
	switch r.Intn(40) {
	case 0:
		return strings.Repeat("a", 255)
	case 1:
		return strings.Repeat("ab", 128) // 256 bytes
	case 2:
		return strings.Repeat("x", 254)
	case 3:
		return strings.Repeat("q_1", 100) // 300 bytes
	case 4, 5:
		return string(upper[r.Intn(26)]) + randOver(r, wordch, r.Intn(5)) // documented, rejected by the lexer
	case 6:
		return string(lower[r.Intn(26)])
	}
	first := lower
	return string(first[r.Intn(len(first))]) + randOver(r, wordch, 1+r.Intn(8))
}

func genNode(r *rand.Rand) string {
	if r.Intn(5) == 0 {
		return pick(r, []string{".", "_", ">", "<", "^"})
	}
	return genSym(r)
}

var selDigits = []string{"0", "1", "2", "9", "10", "11", "22", "99", "100", "255", "256", "65535", "65536", "4294967295", "4294967296", "99999999999999999999"}
var selLeadZero = []string{"00", "01", "07", "08", "09", "000", "007", "010", "017", "0123", "0999", "00000000001", "037777777777", "040000000000"}
var selDigitPrefix = []string{"1a", "0a", "00a", "12ab", "1a2", "1a2b", "9z", "1A", "10x", "007x", "1aB", "08a"}

func genSelector(r *rand.Rand) string {
	switch r.Intn(12) {
	case 0, 1, 2:
		return pick(r, selDigits)
	case 3:
		return fmt.Sprintf("%d", r.Uint32())
	case 4:
		return pick(r, selLeadZero)
	case 5:
		return pick(r, selDigitPrefix)
	case 6:
		return "*"
	case 7:
		return string(lower[r.Intn(26)])
	case 8:
		return string(lower[r.Intn(26)]) + randOver(r, lower+upper+digits, 1+r.Intn(4)) // letter first, mixed
	case 9:
		return randOver(r, digits, 1+r.Intn(3)) + randOver(r, lower, 1+r.Intn(2)) + randOver(r, digits+lower, r.Intn(3))
	case 10:
		return string(upper[r.Intn(26)]) + randOver(r, lower+digits, r.Intn(3)) // documented, rejected
	}
	return randOver(r, lower, 1+r.Intn(5))
}

var sizeBoundary = []string{"0", "1", "7", "8", "255", "256", "65535", "65536", "16777215", "16777216", "2147483648", "4294967295", "4294967296", "18446744073709551616"}
var sizeLeadZero = []string{"00", "01", "007", "010", "0377", "08", "0100", "037777777777", "040000000000", "0000"}

func genSize(r *rand.Rand) string {
	switch r.Intn(10) {
	case 0, 1, 2, 3:
		return pick(r, sizeBoundary)
	case 4:
		return pick(r, sizeLeadZero)
	case 5:
		return fmt.Sprintf("%d", r.Uint32())
	}
	return fmt.Sprintf("%d", r.Intn(300))
}

func genMode(r *rand.Rand) string {
	switch r.Intn(12) {
	case 0:
		return pick(r, []string{"2", "255", "256", "01", "00", "010"})
	}
	return pick(r, []string{"0", "1"})
}

var plainOps = []string{"CATCH", "CROAK", "HALT", "INCMP", "LOAD", "MAP", "MNEXT", "MOUT", "MOVE", "MPREV", "MSINK", "RELOAD"}
var batchOps = []string{"DOWN", "UP", "NEXT", "PREVIOUS"}

// a line following the documented form of its opcode word
func genDocLine(r *rand.Rand, op string) aline {
	switch op {
	case "CATCH":
		return ln(op, genNode(r), genSize(r), genMode(r))
	case "CROAK":
		return ln(op, genSize(r), genMode(r))
	case "HALT", "MSINK", "NOOP":
		return ln(op)
	case "INCMP":
		return ln(op, genNode(r), genSelector(r))
	case "LOAD":
		return ln(op, genSym(r), genSize(r))
	case "MAP", "RELOAD":
		return ln(op, genSym(r))
	case "MOVE":
		return ln(op, genNode(r))
	case "MNEXT", "MOUT", "MPREV":
		return ln(op, genSym(r), genSelector(r))
	case "DOWN":
		return ln(op, genSym(r), genSelector(r), genSym(r))
	}
	// UP NEXT PREVIOUS
	return ln(op, genSelector(r), genSym(r))
}

// mostly-valid stream: plain lines followed by a block of batch lines, documented forms
func genDocSource(r *rand.Rand, idx int) []aline {
	src := []aline{}
	np := r.Intn(5)
	nb := r.Intn(4)
	if np+nb == 0 {
		np = 1
	}
	for i := 0; i < np; i++ {
		// idx rotates through the opcode words so that every word is covered early
		op := plainOps[(idx+i*5)%len(plainOps)]
		if r.Intn(3) == 0 {
			op = pick(r, plainOps)
		}
		src = append(src, genDocLine(r, op))
	}
	for i := 0; i < nb; i++ {
		op := batchOps[(idx+i)%len(batchOps)]
		if r.Intn(3) == 0 {
			op = pick(r, batchOps)
		}
		src = append(src, genDocLine(r, op))
	}
	return src
}

var junkArgs = []string{"*", ".", "_", "^", "<", ">", "a.b", "a*b", "foo-bar", "\"foo\"", "'", "_x", "*x", "1_a", "x1", "A", "aB", "1A", "0x10", "é", "a!", "-1", "1.5", "foo", "bar", "1", "0", "00", "256", "1a"}

// adversarial stream: any word (also NOOP and unknown words), any number of arguments of any
// class, batch blocks anywhere and repeated
func genAdvSource(r *rand.Rand) []aline {
	words := append(append([]string{"NOOP", "FOO", "DOWNX", "X"}, plainOps...), batchOps...)
	n := 1 + r.Intn(5)
	src := []aline{}
	for i := 0; i < n; i++ {
		op := pick(r, words)
		switch r.Intn(4) {
		case 0:
			// documented form, any position (batch blocks in the middle, several blocks)
			src = append(src, genDocLine(r, op))
			continue
		case 1:
			// documented form with one argument dropped, doubled or replaced
			l := genDocLine(r, op)
			if len(l.Args) > 0 {
				k := r.Intn(len(l.Args))
				switch r.Intn(3) {
				case 0:
					l.Args = append(l.Args[:k:k], l.Args[k+1:]...)
				case 1:
					l.Args = append(l.Args, l.Args[k])
				default:
					l.Args[k] = pick(r, junkArgs)
				}
			} else {
				l.Args = []string{pick(r, junkArgs)}
			}
			src = append(src, l)
			continue
		}
		na := r.Intn(6)
		args := make([]string, na)
		for k := range args {
			switch r.Intn(5) {
			case 0:
				args[k] = genSym(r)
			case 1:
				args[k] = genSize(r)
			case 2:
				args[k] = genSelector(r)
			default:
				args[k] = pick(r, junkArgs)
			}
		}
		src = append(src, aline{Op: op, Args: args})
	}
	return src
}

// ---- independent reading of a source text (for the example files) -----------------------

// tokenise returns the token-level source of a text in the layout the model covers; ok is false
// when the text has a line the printer would never produce (blank-only or comment-only line,
// leading empty line, missing final newline) or a character outside the argument alphabet.
func tokenise(text string) (src []aline, ok bool) {
	if text == "" {
		return []aline{}, true
	}
	if !strings.HasSuffix(text, "\n") || strings.HasPrefix(text, "\n") || strings.HasPrefix(text, "\r") {
		return nil, false
	}
	for _, raw := range strings.Split(strings.TrimSuffix(text, "\n"), "\n") {
		raw = strings.TrimRight(raw, "\r")
		if raw == "" {
			continue
		}
		if i := strings.IndexByte(raw, '#'); i >= 0 {
			raw = raw[:i]
		}
		f := strings.Fields(raw)
		if len(f) == 0 {
			return nil, false
		}
		src = append(src, aline{Op: f[0], Args: f[1:]})
	}
	return src, true
}

// ---- driver --------------------------------------------------------------------------

func runAsm(o opts) error {
	w := &hx.Writer{Dir: o.out, Prop: o.prop, Imports: "Bytes Errors Consts Codec CorrBase CodecCorr AsmModel AsmCorr",
		CaseType: "acase", Mism: "asm_mismatches", Viol: "asm_violations", PerShard: 150}

	add := func(src []aline, text string, kind string) {
		written, outcome, how := observeAsm(text)
		w.Count(how)
		w.Count(kind + "/" + how)
		w.Add(hx.Case{Kind: kind, Trivial: len(src) == 0,
			Term: fmt.Sprintf("ACase %s %s %s", srcTerm(src), hx.B(written), outcome),
			Key:  srcTerm(src),
			Desc: map[string]interface{}{"src": src, "text": text, "written": fmt.Sprintf("%x", written), "outcome": how}})
	}

	// corpus: one per finding class, then the examples of instructions.texi
	long256 := strings.Repeat("a", 256)
	corpus := [][]aline{
		{ln("INCMP", "foo", "00")},                                  // K-C16-numnorm: emitted INCMP foo 0
		{ln("INCMP", "foo", "1a")},                                  // K-C16-digitprefix: emitted INCMP foo 1
		{ln("MOVE", long256), ln("HALT")},                           // K-C16-longsym: emitted 0006 without the symbol
		{ln("LOAD", "foo", "010")},                                  // K-C16-octal: emitted LOAD foo 8
		{ln("DOWN", "foo", "1a", "to_foo")},                         // digitprefix in a batch line: selector a
		{ln("MOUT", "foo", "1a")},                                   // digitprefix, MOUT keeps the tail: a
		{ln("INCMP", "foo", "010")},                                 // numnorm through octal: 8
		{ln("UP", "01", "back")},                                    // numnorm in a batch line
		{ln("UP", "1", long256)},                                    // longsym in a batch line (length byte wraps to 0)
		{ln("CATCH", "foo", "010", "1")},                            // octal signal
		{ln("UP", "1a", "back")},                                    // digitprefix: nil dereference in MenuAdd (panic)
		{ln("INCMP", "^", "00")},                                    // asm_test.go TestParseMenuZeroPrefix
		{ln("CATCH", "foo", "8", "1")}, {ln("CATCH", "foo", "8", "0")},
		{ln("CROAK", "8", "1")}, {ln("HALT")}, {ln("INCMP", "foo", "0")}, {ln("INCMP", "foo", "*")},
		{ln("LOAD", "foo", "42")}, {ln("MAP", "foo")}, {ln("MNEXT", "fwd", "2")}, {ln("MOUT", "to_foo", "0")},
		{ln("MOVE", "foo")}, {ln("MOVE", "_")}, {ln("MPREV", "back", "3")}, {ln("MSINK")}, {ln("RELOAD", "foo")},
		{ln("DOWN", "foo", "0", "to_foo")},
		{ln("UP", "1", "back")},
		{ln("NEXT", "2", "fwd")},
		{ln("PREVIOUS", "3", "back")},
		{ln("DOWN", "foo", "0", "to_foo"), ln("UP", "1", "back")},
		{ln("LOAD", "foo", "1"), ln("MAP", "foo"), ln("DOWN", "foo", "a", "to_foo"), ln("UP", "b2", "back"), ln("NEXT", "11", "fwd"), ln("PREVIOUS", "22", "back")},
		// the batcher is never reset: a second block repeats the first (not a documented source)
		{ln("UP", "1", "a"), ln("HALT"), ln("UP", "2", "b")},
		{ln("NOOP")},
		{},
	}
	for _, src := range corpus {
		add(src, plainText(src), "corpus")
	}

	// example sources of the repository (flag names need the CSV preprocessor of dev/asm:
	// such files are rejected by asm.Parse itself and are counted, not modelled)
	files, _ := filepath.Glob("/repo/examples/*/*.vis")
	sort.Strings(files)
	for _, f := range files {
		d, err := os.ReadFile(f)
		if err != nil {
			continue
		}
		src, ok := tokenise(string(d))
		if !ok {
			w.Count("example_layout_outside_model")
			continue
		}
		if strings.Contains(f, "/preprocessor/root.vis") {
			w.Count("example_needs_flag_preprocessor")
		}
		add(src, string(d), "example")
	}

	// layout the real parser rejects (counted only; the model starts from tokens)
	for _, t := range []string{"\nHALT\n", "HALT", "# c\nHALT\n", "HALT\n# c\n", "HALT\n \nMSINK\n", "HALT\n\t# c\nMSINK\n"} {
		_, _, how := observeAsm(t)
		w.Count("layout_probe/" + how)
	}

	ndoc := o.n * 2 / 3
	for i := 0; i < ndoc; i++ {
		r := hx.Rng(o.seed, "asm-doc", i)
		src := genDocSource(r, i)
		add(src, printSrc(r, src), "doc")
	}
	for i := 0; i < o.n-ndoc; i++ {
		r := hx.Rng(o.seed, "asm-adv", i)
		src := genAdvSource(r)
		add(src, printSrc(r, src), "adv")
	}
	return w.Flush()
}
