//go:build verif

// vh is the verification harness: it runs the real go-vise code on generated inputs and
// writes correspondence case files (Coq) plus a JSON sidecar.
package main

import (
	"flag"
	"fmt"
	"os"

	"verif/harness/internal/hx"
)

type opts struct {
	seed   int64
	n      int
	out    string
	tier   string
	prop   string
	replay string
}

var drivers = map[string]func(o opts) error{}

func main() {
	if len(os.Args) < 2 {
		fmt.Fprintln(os.Stderr, "usage: vh <driver> [flags]")
		os.Exit(2)
	}
	name := os.Args[1]
	fs := flag.NewFlagSet(name, flag.ExitOnError)
	var o opts
	fs.Int64Var(&o.seed, "seed", 1, "PRNG seed")
	fs.IntVar(&o.n, "n", 300, "number of generated cases")
	fs.StringVar(&o.out, "out", ".", "output directory")
	fs.StringVar(&o.tier, "tier", "quick", "quick|thorough")
	fs.StringVar(&o.prop, "prop", "", "property id")
	fs.StringVar(&o.replay, "replay", "", "replay file")
	fs.Parse(os.Args[2:])
	hx.Silence()
	d, ok := drivers[name]
	if !ok {
		fmt.Fprintln(os.Stderr, "unknown driver", name)
		os.Exit(2)
	}
	if err := d(o); err != nil {
		fmt.Fprintln(os.Stderr, "harness error:", err)
		os.Exit(3)
	}
}
