//go:build verif

package main

// Drivers for property C19 (independent sessions do not interfere).
//
//   alias  deterministic, one goroutine: (1) CPrim cases — schedules of the buffer operations the VM
//          performs (b = b[n:], append(b, code...), append([]byte{}, bh...), b = bh, SetCode/GetCode, decode)
//          executed on real Go slices for 2-4 sessions over shared arrays with spare capacity;
//          (2) CApp cases — generated applications served by the real engine for 2-4 sessions that share
//          nothing but the application's byte slices (make([]byte, n, n+64), capacity filled with 0xEE),
//          requests interleaved along a generated schedule, compared with each session's solo run.
//   race   the same sharing set-up served concurrently, one goroutine per session (2..16); meant to be run
//          from a binary built with `go build -race`; a data race makes the process exit with status 66.
//
// Every identifier is prefixed cc: the file can be dropped into go/cmd/vh unchanged.

import (
	"bytes"
	"context"
	"errors"
	"fmt"
	"io"
	"math/rand"
	"os"
	"path/filepath"
	"runtime"
	"runtime/debug"
	"sort"
	"strconv"
	"strings"
	"sync"
	"time"
	"unsafe"

	"git.defalsify.org/vise.git/cache"
	"git.defalsify.org/vise.git/db"
	fsdb "git.defalsify.org/vise.git/db/fs"
	memdb "git.defalsify.org/vise.git/db/mem"
	"git.defalsify.org/vise.git/engine"
	"git.defalsify.org/vise.git/lang"
	"git.defalsify.org/vise.git/logging"
	"git.defalsify.org/vise.git/persist"
	"git.defalsify.org/vise.git/render"
	"git.defalsify.org/vise.git/resource"
	"git.defalsify.org/vise.git/state"
	"git.defalsify.org/vise.git/vm"
	"verif/harness/internal/hx"
)

const ccSpare = 64
const ccSentinel = 0xEE

// ---- application description (same Coq terms as the engine driver) -------------------------

type ccFres struct {
	Content string   `json:"content"`
	Echo    bool     `json:"echo"`
	Status  int      `json:"status"`
	Set     []uint32 `json:"set"`
	Reset   []uint32 `json:"reset"`
	Fail    bool     `json:"fail"`
}

type ccKV struct{ K, V string }

type ccApp struct {
	Code  []ccKV              `json:"code"`
	Tpl   []ccKV              `json:"tpl"`
	Menu  []ccKV              `json:"menu"`
	Funcs []string            `json:"funcs"`
	Fn    map[string][]ccFres `json:"fn"`
}

type ccCfg struct {
	Out        uint32 `json:"out"`
	Root       string `json:"root"`
	FlagCount  uint32 `json:"flagcount"`
	CacheSize  uint32 `json:"cachesize"`
	Lang       string `json:"lang"`
	Sep        string `json:"sep"`
	ResetEmpty bool   `json:"resetempty"`
}

func ccFresList(fs []ccFres) string {
	r := make([]string, len(fs))
	for i, f := range fs {
		r[i] = fmt.Sprintf("(mkFres %s %s %d %s %s %s)", hx.S(f.Content), hx.Bool(f.Echo), f.Status, hx.NList(f.Set), hx.NList(f.Reset), hx.Bool(f.Fail))
	}
	return hx.List(r)
}

func ccKVTerm(l []ccKV) string {
	r := make([]string, len(l))
	for i, e := range l {
		r[i] = fmt.Sprintf("(%s, %s)", hx.S(e.K), hx.S(e.V))
	}
	return hx.List(r)
}

func (a *ccApp) term() string {
	fn := make([]string, len(a.Funcs))
	for i, s := range a.Funcs {
		fn[i] = fmt.Sprintf("(%s, %s)", hx.S(s), ccFresList(a.Fn[s]))
	}
	return fmt.Sprintf("(mkApp %s %s %s %s)", ccKVTerm(a.Code), ccKVTerm(a.Tpl), ccKVTerm(a.Menu), hx.List(fn))
}

func (c *ccCfg) term() string {
	return fmt.Sprintf("(mkCfg %d %s %d %d %s %s %s None)", c.Out, hx.S(c.Root), c.FlagCount, c.CacheSize, hx.S(c.Lang), hx.S(c.Sep), hx.Bool(c.ResetEmpty))
}

// ---- shared immutable data -------------------------------------------------------------------

// one byte slice with spare capacity behind it; init is a private copy of the whole array
type ccArr struct {
	name string
	s    []byte
	init []byte
}

func ccMkArr(name, v string) ccArr {
	s := make([]byte, len(v), len(v)+ccSpare)
	copy(s, v)
	full := s[:cap(s)]
	for i := len(v); i < len(full); i++ {
		full[i] = ccSentinel
	}
	return ccArr{name: name, s: s, init: append([]byte{}, full...)}
}

func (a ccArr) full() []byte { return a.s[:cap(a.s)] }
func (a ccArr) intact() bool { return bytes.Equal(a.full(), a.init) }

type ccShared struct {
	code, tpl, menu []ccArr
}

func ccMakeShared(a *ccApp) *ccShared {
	sh := &ccShared{}
	for _, e := range a.Code {
		sh.code = append(sh.code, ccMkArr(e.K, e.V))
	}
	for _, e := range a.Tpl {
		sh.tpl = append(sh.tpl, ccMkArr(e.K, e.V))
	}
	for _, e := range a.Menu {
		sh.menu = append(sh.menu, ccMkArr(e.K, e.V))
	}
	return sh
}

func ccOverlap(a, b []byte) bool {
	if cap(a) == 0 || cap(b) == 0 {
		return false
	}
	pa := uintptr(unsafe.Pointer(unsafe.SliceData(a)))
	pb := uintptr(unsafe.Pointer(unsafe.SliceData(b)))
	return pa < pb+uintptr(cap(b)) && pb < pa+uintptr(cap(a))
}

// does b's backing array overlap an array of the shared application data?
func (sh *ccShared) overlaps(b []byte) bool {
	for _, l := range [][]ccArr{sh.code, sh.tpl, sh.menu} {
		for _, a := range l {
			if ccOverlap(a.full(), b) {
				return true
			}
		}
	}
	return false
}

func (sh *ccShared) otherIntact() bool {
	for _, l := range [][]ccArr{sh.tpl, sh.menu} {
		for _, a := range l {
			if !a.intact() {
				return false
			}
		}
	}
	return true
}

func (sh *ccShared) codeArrays() [][]byte {
	r := make([][]byte, len(sh.code))
	for i, a := range sh.code {
		r[i] = append([]byte{}, a.full()...)
	}
	return r
}

// ---- the real resource of one session, recording its calls -------------------------------------

type ccCall struct {
	Kind  string
	Sym   string
	Lang  string
	Input []byte
	NoIn  bool
}

func (c ccCall) term() string {
	l := "None"
	if c.Lang != "" {
		l = "(Some " + hx.S(c.Lang) + ")"
	}
	switch c.Kind {
	case "func":
		in := "None"
		if !c.NoIn {
			in = "(Some " + hx.B(c.Input) + ")"
		}
		return fmt.Sprintf("(OcFunc %s %s %s)", hx.S(c.Sym), l, in)
	case "code":
		return fmt.Sprintf("(OcCode %s)", hx.S(c.Sym))
	case "tpl":
		return fmt.Sprintf("(OcTpl %s %s)", hx.S(c.Sym), l)
	}
	return fmt.Sprintf("(OcMenu %s %s)", hx.S(c.Sym), l)
}

func ccCtxLang(ctx context.Context) string {
	v := ctx.Value("Language")
	if v == nil {
		return ""
	}
	if l, ok := v.(lang.Language); ok {
		return l.Code
	}
	return "?"
}

type ccWorld struct {
	counts map[string]int
	calls  []ccCall
}

type ccRecRs struct {
	*resource.DbResource
	w *ccWorld
}

func (r *ccRecRs) GetCode(ctx context.Context, sym string) ([]byte, error) {
	r.w.calls = append(r.w.calls, ccCall{Kind: "code", Sym: sym})
	return r.DbResource.GetCode(ctx, sym)
}
func (r *ccRecRs) GetTemplate(ctx context.Context, sym string) (string, error) {
	r.w.calls = append(r.w.calls, ccCall{Kind: "tpl", Sym: sym, Lang: ccCtxLang(ctx)})
	return r.DbResource.GetTemplate(ctx, sym)
}
func (r *ccRecRs) GetMenu(ctx context.Context, sym string) (string, error) {
	r.w.calls = append(r.w.calls, ccCall{Kind: "menu", Sym: sym, Lang: ccCtxLang(ctx)})
	return r.DbResource.GetMenu(ctx, sym)
}

func ccScripted(w *ccWorld, key string, script []ccFres) resource.EntryFunc {
	return func(ctx context.Context, sym string, input []byte) (resource.Result, error) {
		n := w.counts[key]
		w.counts[key] = n + 1
		w.calls = append(w.calls, ccCall{Kind: "func", Sym: key, Lang: ccCtxLang(ctx), Input: append([]byte{}, input...), NoIn: input == nil})
		f := script[n%len(script)]
		if f.Fail {
			return resource.Result{Status: f.Status}, errors.New("scripted failure")
		}
		content := f.Content
		if f.Echo {
			content += string(input)
		}
		return resource.Result{Content: content, Status: f.Status, FlagSet: f.Set, FlagReset: f.Reset}, nil
	}
}

// a db/mem instance of its own whose values ARE the shared slices (memDb.Put keeps the slice it is
// given; checked here: Get hands back the very same array with the same capacity)
func ccBuildResource(a *ccApp, sh *ccShared, w *ccWorld) (*ccRecRs, error) {
	ctx := context.Background()
	m := memdb.NewMemDb()
	m.Connect(ctx, "")
	for _, t := range []uint8{db.DATATYPE_BIN, db.DATATYPE_TEMPLATE, db.DATATYPE_MENU, db.DATATYPE_STATICLOAD} {
		m.SetLock(t, false)
	}
	put := func(typ uint8, l []ccArr) error {
		m.SetPrefix(typ)
		for _, e := range l {
			if err := m.Put(ctx, []byte(e.name), e.s); err != nil {
				return err
			}
			got, err := m.Get(ctx, []byte(e.name))
			if err != nil {
				return err
			}
			if len(got) != len(e.s) || cap(got) != cap(e.s) || (cap(got) > 0 && unsafe.SliceData(got) != unsafe.SliceData(e.s)) {
				return fmt.Errorf("db/mem copied the value of %q: the sharing set-up of C19 does not hold any more", e.name)
			}
		}
		return nil
	}
	if err := put(db.DATATYPE_BIN, sh.code); err != nil {
		return nil, err
	}
	if err := put(db.DATATYPE_TEMPLATE, sh.tpl); err != nil {
		return nil, err
	}
	if err := put(db.DATATYPE_MENU, sh.menu); err != nil {
		return nil, err
	}
	m.SetLock(0, true)
	rs := resource.NewDbResource(m)
	for _, s := range a.Funcs {
		if len(a.Fn[s]) > 0 {
			rs.AddLocalFunc(s, ccScripted(w, s, a.Fn[s]))
		}
	}
	return &ccRecRs{DbResource: rs, w: w}, nil
}

// ---- one session ------------------------------------------------------------------------------------

func ccErrClass(err error) string {
	if err == nil {
		return "OSOk"
	}
	var xe *vm.ExternalCodeError
	var be *render.BrowseError
	switch {
	case errors.As(err, &xe):
		return "(OSErr EExternal)"
	case errors.Is(err, state.IndexError):
		return "(OSErr EIndex)"
	case errors.As(err, &be):
		return "(OSErr EBrowse)"
	case err == engine.ErrFlushNoExec:
		return "(OSErr EFlushNoExec)"
	case db.IsNotFound(err):
		return "(OSErr ENotFound)"
	}
	return "(OSErr EGen)"
}

func ccSortedMap(m map[string]string) string {
	keys := make([]string, 0, len(m))
	for k := range m {
		keys = append(keys, k)
	}
	sort.Strings(keys)
	items := make([]string, len(keys))
	for i, k := range keys {
		items[i] = fmt.Sprintf("(%s, %s)", hx.S(k), hx.S(m[k]))
	}
	return hx.List(items)
}

func ccSortedSizes(m map[string]uint16) string {
	keys := make([]string, 0, len(m))
	for k := range m {
		keys = append(keys, k)
	}
	sort.Strings(keys)
	items := make([]string, len(keys))
	for i, k := range keys {
		items[i] = fmt.Sprintf("(%s, %d)", hx.S(k), m[k])
	}
	return hx.List(items)
}

func ccSnapTerm(st *state.State, ca *cache.Cache) string {
	if st == nil || ca == nil {
		return "None"
	}
	l := "None"
	if st.Language != nil {
		l = "(Some " + hx.S(st.Language.Code) + ")"
	}
	frames := make([]string, len(ca.Cache))
	for i, f := range ca.Cache {
		frames[i] = ccSortedMap(f)
	}
	return fmt.Sprintf("(Some (mkOsnap %s %s %d %s %s %d %d %s %s %s))", hx.B(st.Code), hx.SList(st.ExecPath), st.SizeIdx, hx.B(st.Flags), l,
		ca.CacheSize, ca.CacheUseSize, hx.List(frames), ccSortedSizes(ca.Sizes), hx.S(ca.LastValue))
}

type ccStep struct {
	Input   []byte `json:"input"`
	Cont    bool   `json:"cont"`
	Exec    string `json:"exec"`
	Out     string `json:"out"`
	Flush   string `json:"flush"`
	Panic   string `json:"panic,omitempty"`
	Aliased bool   `json:"aliased,omitempty"`
	Fin     string `json:"fin,omitempty"` // error of Finish or of loading the stored session afterwards ("" = none)
	term    string
	snap    string
}

func (s ccStep) sresp() string {
	return fmt.Sprintf("(mkSresp %s %s %s %s %s)", hx.Bool(s.Cont), s.Exec, hx.S(s.Out), s.Flush, hx.Bool(s.Fin == ""))
}

type ccSession struct {
	id        int
	persisted bool
	c         *ccCfg
	cfg       engine.Config
	sh        *ccShared
	w         *ccWorld
	rs        *ccRecRs
	st        *state.State
	ca        *cache.Cache
	en        *engine.DefaultEngine
	store     db.Db
	dead      bool
	steps     []ccStep
	first     []ccFres           // script of this session's entry function (engine.WithFirst); nil: none
	debug     int                // 0: no; 1: state-debug mode (Config.StateDebug / State.UseDebug); 2: also Config.EngineDebug and an engine debugger
	res       resource.Resource  // what its engines are given: its own recording DbResource, or a recording view of a PoResource shared by all sessions
	live      []byte             // the pending-code slice that outlives its last request (st.Code of the long-lived state / of the last engine's state); kept referenced, so its array is never reused
	lang      *string            // its own Config.Language (nil: the case's)
	sharedPe  *persist.Persister // long-lived server shape: THE persister (WithFlush) every request of every session goes through
	applog    bool               // the application logs through the library's logging API (one logger for all sessions)
	fsdir     string             // persisted sessions: "" = a db/mem store of its own, else a db/fs directory (shared with other sessions), a new handle per request
}

// deployment shape of one run (nil = the plain one)
type ccExtra struct {
	debug  []int                                            // per session
	fs     []bool                                           // per session: persisted over the filesystem directory fsdir
	fsdir  string                                           // concurrent/interleaved run: THE directory; solo runs: every session gets a sub-directory of its own
	langs  []string                                         // per session: its Config.Language
	shared bool                                             // ONE persister created WithFlush (over one db/mem store) reused for every request of every session
	applog bool                                             // sessions log through the application's logger
	poMk   func(sh *ccShared) (*resource.PoResource, error) // gettext shape: builds a PoResource over the case's locale directory
	po     *resource.PoResource                             // the instance shared by the sessions of the current concurrent run
}

// a session's recording view of a (possibly shared) PoResource
type ccRecPo struct {
	*resource.PoResource
	w *ccWorld
}

func (r *ccRecPo) GetCode(ctx context.Context, sym string) ([]byte, error) {
	r.w.calls = append(r.w.calls, ccCall{Kind: "code", Sym: sym})
	return r.PoResource.GetCode(ctx, sym)
}
func (r *ccRecPo) GetTemplate(ctx context.Context, sym string) (string, error) {
	r.w.calls = append(r.w.calls, ccCall{Kind: "tpl", Sym: sym, Lang: ccCtxLang(ctx)})
	return r.PoResource.GetTemplate(ctx, sym)
}
func (r *ccRecPo) GetMenu(ctx context.Context, sym string) (string, error) {
	r.w.calls = append(r.w.calls, ccCall{Kind: "menu", Sym: sym, Lang: ccCtxLang(ctx)})
	return r.PoResource.GetMenu(ctx, sym)
}

const ccPoDefault, ccPoRegistered, ccPoOnDisk = "eng", "nor", "fra" // default language; registered with WithLanguage; .po file present but NEVER registered

// write a gettext locale directory for the application (node templates under the key domain x-vise, menu labels under
// x-vise_menu of the default language; translations of the resulting texts in <lang>/default.po) and return the
// application whose plain tables say the same as the PoResource over that directory with ONLY ccPoRegistered registered:
// translated where nor/default.po has the text, the source text for every other language (default, unregistered, none)
func ccWritePo(r *rand.Rand, dir string, a *ccApp) (*ccApp, error) {
	q := strconv.Quote
	b := &ccApp{Code: a.Code, Funcs: a.Funcs, Fn: a.Fn}
	var keyTpl, keyMenu, nor, fra strings.Builder
	seen := map[string]bool{}
	tr := func(text string) bool { // one translation per text
		if seen[text] {
			return strings.Contains(nor.String(), "msgid "+q(text)+"\n")
		}
		seen[text] = true
		fmt.Fprintf(&fra, "msgid %s\nmsgstr %s\n\n", q(text), q(ccPoOnDisk+":"+text))
		if r.Intn(3) > 0 {
			fmt.Fprintf(&nor, "msgid %s\nmsgstr %s\n\n", q(text), q(ccPoRegistered+":"+text))
			return true
		}
		return false
	}
	for _, t := range a.Tpl {
		if strings.Contains(t.K, "_") && t.K != "_catch" {
			continue // only the plain node entries
		}
		fmt.Fprintf(&keyTpl, "msgid %s\nmsgstr %s\n\n", q(t.K), q(t.V))
		b.Tpl = append(b.Tpl, ccKV{t.K, t.V})
		if tr(t.V) {
			b.Tpl = append(b.Tpl, ccKV{t.K + "_" + ccPoRegistered, ccPoRegistered + ":" + t.V})
		}
	}
	for _, l := range []string{"lbl1", "lbl2", "back"} {
		m := "M-" + l
		fmt.Fprintf(&keyMenu, "msgid %s\nmsgstr %s\n\n", q(l), q(m))
		b.Menu = append(b.Menu, ccKV{l + "_menu", m})
		if tr(m) {
			b.Menu = append(b.Menu, ccKV{l + "_menu_" + ccPoRegistered, ccPoRegistered + ":" + m})
		}
	}
	sort.Slice(b.Tpl, func(i, j int) bool { return b.Tpl[i].K < b.Tpl[j].K })
	for _, f := range []struct{ p, v string }{
		{filepath.Join(ccPoDefault, "x-vise.po"), keyTpl.String()},
		{filepath.Join(ccPoDefault, "x-vise_menu.po"), keyMenu.String()},
		{filepath.Join(ccPoRegistered, "default.po"), nor.String()},
		{filepath.Join(ccPoOnDisk, "default.po"), fra.String()},
	} {
		fp := filepath.Join(dir, f.p)
		if err := os.MkdirAll(filepath.Dir(fp), 0700); err != nil {
			return nil, err
		}
		if err := os.WriteFile(fp, []byte(f.v), 0600); err != nil {
			return nil, err
		}
	}
	return b, nil
}

// a PoResource over dir: default language, ONE registered language, code from the run's shared arrays
func ccMkPo(dir string) func(sh *ccShared) (*resource.PoResource, error) {
	return func(sh *ccShared) (*resource.PoResource, error) {
		dl, err := lang.LanguageFromCode(ccPoDefault)
		if err != nil {
			return nil, err
		}
		rl, err := lang.LanguageFromCode(ccPoRegistered)
		if err != nil {
			return nil, err
		}
		p := resource.NewPoResource(dl, dir).WithLanguage(rl)
		codes := map[string][]byte{}
		for _, c := range sh.code {
			codes[c.name] = c.s
		}
		p.WithCodeGetter(func(ctx context.Context, sym string) ([]byte, error) {
			if c, ok := codes[sym]; ok {
				return c, nil
			}
			return nil, db.NewErrNotFound([]byte(sym))
		})
		return p, nil
	}
}

// the application's logger: a value of the library's logger type at a level that emits, shared (by value)
// by everything the application does for any session; lines go to logging.LogWriter (io.Discard)
var ccAppLog = logging.NewVanilla().WithDomain("ccapp").WithLevel(logging.LVL_TRACE)

func (x *ccExtra) apply(s *ccSession, i int, solo bool) error {
	if x == nil {
		return nil
	}
	if x.poMk != nil {
		// templates and labels through gettext: ONE PoResource for all sessions of a concurrent run, one of its own when alone
		p := x.po
		if solo || p == nil {
			var err error
			p, err = x.poMk(s.sh)
			if err != nil {
				return err
			}
			if !solo {
				x.po = p
			}
		}
		s.res = &ccRecPo{PoResource: p, w: s.w}
		if !s.persisted {
			s.en = engine.NewEngine(s.cfg, s.res).WithState(s.st).WithMemory(s.ca)
		}
	}
	if x.langs != nil {
		l := x.langs[i]
		s.lang = &l
		s.cfg.Language = l
		if !s.persisted {
			// the long-lived engine is built from the configuration: build it again (before setDebug / withFirst)
			s.en = engine.NewEngine(s.cfg, s.res).WithState(s.st).WithMemory(s.ca)
		}
	}
	if x.debug != nil {
		s.setDebug(x.debug[i])
	}
	s.applog = x.applog
	if x.fs != nil && x.fs[i] && s.persisted {
		d := x.fsdir
		if solo {
			d = filepath.Join(x.fsdir, fmt.Sprintf("solo%d", i))
		}
		if err := os.MkdirAll(d, 0700); err != nil {
			return err
		}
		s.fsdir = d
	}
	return nil
}

// debug mode: the state renders its flags through the package-level state.FlagDebugger
// (State.String is an eagerly evaluated log argument in engine.exec; SimpleDebug.Break lists the flags)
func (s *ccSession) setDebug(mode int) {
	s.debug = mode
	if mode == 0 {
		return
	}
	s.cfg.StateDebug = true
	if mode == 2 {
		s.cfg.EngineDebug = true
	}
	if !s.persisted {
		s.st.UseDebug() // Config.StateDebug reaches the state only through a persister
		en := engine.NewEngine(s.cfg, s.res).WithState(s.st).WithMemory(s.ca)
		if mode == 2 {
			en = en.WithDebug(engine.NewSimpleDebug(io.Discard))
		}
		s.en = en
	}
}

func (x *ccExtra) desc() map[string]interface{} {
	if x == nil {
		return nil
	}
	return map[string]interface{}{"debug": x.debug, "fs": x.fs, "langs": x.langs, "shared_flush_persister": x.shared, "applog": x.applog}
}

// user flags were given names (state.FlagDebugger.Register) by this process
var ccRegistered bool

// the store handle of one request
func (s *ccSession) openStore() (db.Db, error) {
	if s.fsdir == "" {
		return s.store, nil
	}
	d := fsdb.NewFsDb()
	if err := d.Connect(context.Background(), s.fsdir); err != nil {
		return nil, err
	}
	return d, nil
}

// give the session ITS entry function (before the first request).  The function follows the script
// conventions of the engine driver: call n answers with script[n mod len], counted under "_first" in the
// session's own world; a mix-up between sessions shows in the calls, the flags, the cache's last value and,
// when the script sets TERMINATE, in the output
func (s *ccSession) withFirst(script []ccFres) *ccSession {
	if len(script) == 0 {
		return s
	}
	s.first = script
	if !s.persisted {
		s.en = s.en.WithFirst(ccScripted(s.w, "_first", script))
	}
	return s
}

func ccNewSession(a *ccApp, c *ccCfg, sh *ccShared, id int, persisted bool) (*ccSession, error) {
	s := &ccSession{id: id, persisted: persisted, c: c, sh: sh, w: &ccWorld{counts: map[string]int{}}}
	rs, err := ccBuildResource(a, sh, s.w)
	if err != nil {
		return nil, err
	}
	s.rs = rs
	s.res = rs
	s.cfg = engine.Config{OutputSize: c.Out, SessionId: fmt.Sprintf("sess%d", id), Root: c.Root, FlagCount: c.FlagCount, CacheSize: c.CacheSize,
		Language: c.Lang, MenuSeparator: c.Sep, ResetOnEmptyInput: c.ResetEmpty}
	if persisted {
		m := memdb.NewMemDb()
		m.Connect(context.Background(), "")
		s.store = m
	} else {
		s.st = state.NewState(c.FlagCount)
		s.ca = cache.NewCache()
		if c.CacheSize > 0 {
			s.ca = s.ca.WithCacheSize(c.CacheSize)
		}
		s.en = engine.NewEngine(s.cfg, s.res).WithState(s.st).WithMemory(s.ca)
	}
	return s, nil
}

// one request; returns false when the session accepts no more requests
func (s *ccSession) request(in []byte) bool {
	if s.dead {
		return false
	}
	ctx := context.Background()
	s.w.calls = nil
	var step ccStep
	step.Input = in
	step.Exec, step.Flush = "OSPanic", "OSPanic"
	var out []byte
	en := s.en
	var pe *persist.Persister
	if s.persisted {
		store, err := s.openStore()
		if err != nil {
			step.Fin = "open store: " + err.Error()
			step.Exec, step.Flush = "(OSErr EGen)", "(OSErr EGen)"
			step.snap = "None"
			step.term = fmt.Sprintf("(%s, mkEobs false (OSErr EGen) [] (OSErr EGen) None [])", hx.B(in))
			s.steps = append(s.steps, step)
			return true
		}
		pe = persist.NewPersister(store)
		if s.sharedPe != nil {
			pe = s.sharedPe
		}
		en = engine.NewEngine(s.cfg, s.res).WithPersister(pe)
		if s.debug == 2 {
			en = en.WithDebug(engine.NewSimpleDebug(io.Discard))
		}
		if s.first != nil {
			en = en.WithFirst(ccScripted(s.w, "_first", s.first))
		}
	}
	if s.applog {
		ccAppLog.DebugCtxf(ctx, "request", "session", s.cfg.SessionId, "input", in)
	}
	panicked, pv := hx.Recover(func() {
		c, err := en.Exec(ctx, in)
		step.Cont = c
		step.Exec = ccErrClass(err)
		if s.applog {
			ccAppLog.Infof("executed", "session", s.cfg.SessionId, "continue", c, "err", err)
		}
		w := bytes.NewBuffer(nil)
		_, ferr := en.Flush(ctx, w)
		out = w.Bytes()
		step.Flush = ccErrClass(ferr)
		if s.persisted {
			// Finish closes the resource; db/mem's Close is a no-op
			if err := en.Finish(ctx); err != nil {
				step.Fin = "finish: " + err.Error()
			}
		}
	})
	st, ca := s.st, s.ca
	if s.persisted {
		st, ca = nil, nil
		store2, oerr := s.openStore()
		if oerr == nil {
			pe2 := persist.NewPersister(store2).WithContent(state.NewState(s.c.FlagCount), cache.NewCache())
			lerr := pe2.Load(s.cfg.SessionId)
			if lerr == nil {
				st, ca = pe2.State, pe2.Memory
			} else if step.Fin == "" && !panicked {
				step.Fin = "load: " + lerr.Error()
			}
		} else if step.Fin == "" {
			step.Fin = "open store: " + oerr.Error()
		}
		if pe != nil && pe.State != nil && s.sh.overlaps(pe.State.Code) {
			step.Aliased = true
		}
		if pe != nil && pe.State != nil {
			s.live = pe.State.Code
		}
	} else {
		s.live = s.st.Code
	}
	if st != nil && s.sh.overlaps(st.Code) {
		step.Aliased = true
	}
	step.Out = string(out)
	snap := ccSnapTerm(st, ca)
	if panicked {
		step.Panic = fmt.Sprint(pv)
		snap = "None"
		s.dead = true
	}
	if !s.persisted && !step.Cont {
		s.dead = true // "Calling Exec again has undefined effects"
	}
	calls := make([]string, len(s.w.calls))
	for i, c := range s.w.calls {
		calls[i] = c.term()
	}
	step.snap = snap
	step.term = fmt.Sprintf("(%s, mkEobs %s %s %s %s %s %s)", hx.B(in), hx.Bool(step.Cont), step.Exec, hx.B(out), step.Flush, snap, hx.List(calls))
	s.steps = append(s.steps, step)
	return true
}

func (s *ccSession) obsTerm() string {
	st := make([]string, len(s.steps))
	for i, x := range s.steps {
		st[i] = x.term
	}
	first := "None"
	if s.first != nil {
		first = "(Some " + ccFresList(s.first) + ")"
	}
	lg := "None"
	if s.lang != nil {
		lg = "(Some " + hx.S(*s.lang) + ")"
	}
	return fmt.Sprintf("(mkSessObs %s %s %s %s)", hx.Bool(s.persisted), first, lg, hx.List(st))
}

func (s *ccSession) soloTerm() string {
	st := make([]string, len(s.steps))
	for i, x := range s.steps {
		st[i] = x.sresp()
	}
	return hx.List(st)
}

func (s *ccSession) finTerm() string {
	st := make([]string, len(s.steps))
	for i, x := range s.steps {
		st[i] = hx.Bool(x.Fin == "")
	}
	return hx.List(st)
}

func (s *ccSession) finalSnap() string {
	if len(s.steps) == 0 {
		return "None"
	}
	return s.steps[len(s.steps)-1].snap
}

// a session's pending code must live in memory of its own: its backing array (whole capacity) may overlap neither the
// application's shared arrays (checked per request above) nor the backing array of ANY other session's pending code
// (e.g. both inside one array owned by the library).  Marks the last request of both sessions.
func ccPairwiseAlias(sessions []*ccSession, only int) bool {
	found := false
	for i, a := range sessions {
		for j, b := range sessions {
			if j <= i || (only >= 0 && i != only && j != only) {
				continue
			}
			if ccOverlap(a.live[:cap(a.live)], b.live[:cap(b.live)]) {
				found = true
				for _, s := range []*ccSession{a, b} {
					if n := len(s.steps); n > 0 {
						s.steps[n-1].Aliased = true
					}
				}
			}
		}
	}
	return found
}

func (s *ccSession) aliased() bool {
	for _, x := range s.steps {
		if x.Aliased {
			return true
		}
	}
	return false
}

// ---- generators -----------------------------------------------------------------------------------------

func ccPick[T any](r *rand.Rand, l []T) T { return l[r.Intn(len(l))] }

func ccLine(op vm.Opcode, strs []string, ba []byte, na []uint8) []byte {
	return vm.NewLine(nil, uint16(op), strs, ba, na)
}

func ccMinBE(n uint32) []byte {
	if n == 0 {
		return []byte{0}
	}
	var b []byte
	for n > 0 {
		b = append([]byte{byte(n)}, b...)
		n >>= 8
	}
	return b
}

type ccGen struct {
	app  *ccApp
	cfg  *ccCfg
	sels []string
	desc []string
}

var ccNodePool = []string{"foo", "bar", "baz", "quux", "n1"}
var ccSelPool = []string{"0", "1", "2", "3", "9", "a", "x1"}

// applications made of CATCH / MOVE / INCMP chains: before its first HALT a node moves only forward
// (so that no cycle avoids a HALT), INCMP may lead anywhere
func ccGenApp(r *rand.Rand) ccGen { return ccGenAppOpt(r, false, false) }

// noload: no LOAD / RELOAD anywhere (nothing ever enters the cache)
// nopanic: no CATCH on a flag outside the configured range (the flag test would panic)
func ccGenAppOpt(r *rand.Rand, noload, nopanic bool) ccGen {
	flagCount := ccPick(r, []int{4, 4, 2, 8})
	nn := 2 + r.Intn(4)
	nodes := append([]string{"root"}, ccNodePool[:nn]...)
	ns := 3 + r.Intn(3)
	perm := r.Perm(len(ccSelPool))
	var sels []string
	for i := 0; i < ns; i++ {
		sels = append(sels, ccSelPool[perm[i]])
	}
	a := &ccApp{Fn: map[string][]ccFres{}}
	syms := []string{"aa", "bb", "cc"}[:2+r.Intn(2)]
	for _, s := range syms {
		n := 1 + r.Intn(3)
		var sc []ccFres
		for i := 0; i < n; i++ {
			f := ccFres{Content: ccPick(r, []string{"x", "ok", "hello", "v1\nv2", ""})}
			if r.Intn(2) == 0 {
				f.Set = []uint32{uint32(8 + r.Intn(flagCount))}
			}
			if r.Intn(3) == 0 {
				f.Reset = []uint32{uint32(8 + r.Intn(flagCount))}
			}
			if r.Intn(8) == 0 {
				f.Echo = true
			}
			if r.Intn(16) == 0 {
				f.Fail = true
			}
			sc = append(sc, f)
		}
		a.Funcs = append(a.Funcs, s)
		a.Fn[s] = sc
	}
	var desc []string
	all := append(append([]string{}, nodes...), "_catch")
	for idx, n := range all {
		var code []byte
		var src []string
		add := func(s string, b []byte) { code = append(code, b...); src = append(src, s) }
		var later []string
		for j, cand := range nodes {
			if j > idx {
				later = append(later, cand)
			}
		}
		if n == "_catch" && r.Intn(3) == 0 {
			// a SHORT catch node (at most 7 bytes): it fits into the spare capacity of whatever buffer the VM's own
			// MOVE _catch line lives in
			// (always with a HALT: a bare "MOVE _" can bounce for ever between a node whose LOAD keeps failing and _catch)
			switch r.Intn(5) {
			case 0, 1:
				add("HALT", ccLine(vm.HALT, nil, nil, nil))
				add("MOVE ^", ccLine(vm.MOVE, []string{"^"}, nil, nil))
			default:
				add("HALT", ccLine(vm.HALT, nil, nil, nil))
				add("MOVE _", ccLine(vm.MOVE, []string{"_"}, nil, nil))
			}
		} else if n == "_catch" {
			add("MOUT back 0", ccLine(vm.MOUT, []string{"back", "0"}, nil, nil))
			add("HALT", ccLine(vm.HALT, nil, nil, nil))
			d := ccPick(r, []string{"_", "^", "root"})
			add("INCMP "+d+" *", ccLine(vm.INCMP, []string{d, "*"}, nil, nil))
		} else {
			np := r.Intn(5)
			var mapped []string
			for i := 0; i < np; i++ {
				k := r.Intn(100)
				if noload && k < 40 {
					k = 40 + r.Intn(60)
				}
				switch {
				case k < 30:
					s := ccPick(r, syms)
					lim := ccPick(r, []int{0, 12, 40})
					add(fmt.Sprintf("LOAD %s %d", s, lim), ccLine(vm.LOAD, []string{s}, ccMinBE(uint32(lim)), nil))
					if r.Intn(3) > 0 {
						add("MAP "+s, ccLine(vm.MAP, []string{s}, nil, nil))
						mapped = append(mapped, s)
					}
				case k < 40:
					s := ccPick(r, syms)
					add("RELOAD "+s, ccLine(vm.RELOAD, []string{s}, nil, nil))
				case k < 70:
					if len(later) == 0 {
						continue
					}
					fl := uint32(8 + r.Intn(flagCount))
					if r.Intn(10) == 0 {
						fl = uint32(ccPick(r, []int{3, 6, 8 + flagCount}))
						if nopanic && int(fl) >= 8+flagCount {
							fl = 3
						}
					}
					mode := r.Intn(3) > 0
					mb := uint8(0)
					if mode {
						mb = 1
					}
					d := ccPick(r, later)
					add(fmt.Sprintf("CATCH %s %d %v", d, fl, mode), ccLine(vm.CATCH, []string{d}, ccMinBE(fl), []uint8{mb}))
				case k < 80:
					if len(later) == 0 {
						continue
					}
					d := ccPick(r, later)
					add("MOVE "+d, ccLine(vm.MOVE, []string{d}, nil, nil))
				default:
					lbl := ccPick(r, []string{"lbl1", "lbl2", "back"})
					sel := ccPick(r, sels)
					add(fmt.Sprintf("MOUT %s %s", lbl, sel), ccLine(vm.MOUT, []string{lbl, sel}, nil, nil))
				}
			}
			add("HALT", ccLine(vm.HALT, nil, nil, nil))
			ni := 1 + r.Intn(4)
			for i := 0; i < ni; i++ {
				var d string
				k := r.Intn(100)
				switch {
				case k < 12:
					d = "_"
				case k < 16:
					d = "^"
				case k < 19:
					d = "."
				case k < 21:
					d = "nonode"
				default:
					d = ccPick(r, nodes)
					if d == n {
						d = "_"
					}
				}
				s := ccPick(r, sels)
				if r.Intn(8) == 0 {
					s = "*"
				}
				add(fmt.Sprintf("INCMP %s %s", d, s), ccLine(vm.INCMP, []string{d, s}, nil, nil))
			}
			if r.Intn(8) == 0 {
				add("HALT", ccLine(vm.HALT, nil, nil, nil))
			}
			t := ccPick(r, []string{"this is " + n, n, "T"})
			for _, s := range mapped {
				t += ccPick(r, []string{" ", "\n", ": "}) + "{{." + s + "}}"
			}
			a.Tpl = append(a.Tpl, ccKV{n, t})
		}
		if n == "_catch" {
			a.Tpl = append(a.Tpl, ccKV{n, "catch"})
		}
		a.Code = append(a.Code, ccKV{n, string(code)})
		desc = append(desc, n+": "+strings.Join(src, "; "))
	}
	if r.Intn(3) == 0 {
		a.Menu = append(a.Menu, ccKV{"lbl1_menu", "LBL1"})
	}
	sort.Slice(a.Tpl, func(i, j int) bool { return a.Tpl[i].K < a.Tpl[j].K })
	c := &ccCfg{FlagCount: uint32(flagCount), Out: uint32(ccPick(r, []int{0, 0, 0, 60, 160}))}
	c.CacheSize = uint32(ccPick(r, []int{0, 0, 100, 400}))
	if r.Intn(8) == 0 {
		c.Sep = ")"
	}
	return ccGen{app: a, cfg: c, sels: sels, desc: desc}
}

var ccLangs = []string{"nor", "swa", "fra", "eng"}

// an application with a language-switching function (lang1: answers a language code and sets FLAG_LANG, as in the
// engine driver) loaded by one or two nodes, and translated templates for some nodes and languages
func ccGenLangApp(r *rand.Rand, withFunc, nopanic bool) ccGen {
	g := ccGenAppOpt(r, !withFunc, nopanic)
	a := g.app
	if !withFunc {
		ccTranslate(r, a)
		return g
	}
	n := 1 + r.Intn(3)
	var sc []ccFres
	for i := 0; i < n; i++ {
		sc = append(sc, ccFres{Content: ccPick(r, []string{"nor", "swa", "fra", "eng", "nor", "swa", "xx", ""}), Set: []uint32{state.FLAG_LANG}})
	}
	a.Funcs = append(a.Funcs, "lang1")
	a.Fn["lang1"] = sc
	load := string(ccLine(vm.LOAD, []string{"lang1"}, []byte{0}, nil))
	for k := 0; k < 1+r.Intn(2); k++ {
		i := r.Intn(len(a.Code) - 1) // not _catch (the last one)
		if !strings.HasPrefix(a.Code[i].V, load) {
			a.Code[i].V = load + a.Code[i].V
			g.desc[i] = strings.Replace(g.desc[i], ": ", ": LOAD lang1 0; ", 1)
		}
	}
	ccTranslate(r, a)
	return g
}

// translated templates for about half of the (node, language) pairs
func ccTranslate(r *rand.Rand, a *ccApp) {
	var tr []ccKV
	for _, t := range a.Tpl {
		for _, l := range ccLangs {
			if r.Intn(2) == 0 {
				tr = append(tr, ccKV{t.K + "_" + l, l + ":" + t.V})
			}
		}
	}
	a.Tpl = append(a.Tpl, tr...)
	sort.Slice(a.Tpl, func(i, j int) bool { return a.Tpl[i].K < a.Tpl[j].K })
}

func ccGenHistory(r *rand.Rand, sels []string, n int) [][]byte {
	h := [][]byte{{}}
	for i := 0; i < n; i++ {
		k := r.Intn(100)
		var in string
		switch {
		case k < 70:
			in = ccPick(r, sels)
		case k < 80:
			in = ccPick(r, ccSelPool)
		case k < 85:
			in = ""
		case k < 93:
			in = ccPick(r, []string{"zz", "q", "7 7"})
		default:
			in = ccPick(r, []string{"!bad", " 1", "-"})
		}
		h = append(h, []byte(in))
	}
	return h
}

// the entry function of session id: its content names the session, so that no two sessions have the same
func ccGenFirst(r *rand.Rand, id int, flagCount uint32) []ccFres {
	n := 1 + r.Intn(2)
	var sc []ccFres
	for j := 0; j < n; j++ {
		f := ccFres{Content: fmt.Sprintf("first-s%d-%d", id, j)}
		if flagCount > 0 && r.Intn(2) == 0 {
			f.Set = []uint32{8 + uint32((id+j)%int(flagCount))}
		}
		if flagCount > 0 && r.Intn(4) == 0 {
			f.Reset = []uint32{8 + uint32((id+j+1)%int(flagCount))}
		}
		if r.Intn(12) == 0 {
			f.Set = append(f.Set, state.FLAG_TERMINATE)
		}
		if r.Intn(10) == 0 {
			f.Echo = true
		}
		if r.Intn(30) == 0 {
			f.Fail = true
			f.Status = 1
		}
		sc = append(sc, f)
	}
	return sc
}

// share of the sessions that get an entry function: percent
func ccGenFirsts(r *rand.Rand, k int, flagCount uint32, percent int) [][]ccFres {
	firsts := make([][]ccFres, k)
	for j := 0; j < k; j++ {
		if r.Intn(100) < percent {
			firsts[j] = ccGenFirst(r, j, flagCount)
		}
	}
	return firsts
}

// ---- application cases -----------------------------------------------------------------------------

type ccRun struct {
	sessions []*ccSession
	sched    []int
	final    [][]byte
	other    bool
}

// serve the histories alone, one session after the other, on a private copy of the application data
func ccSolo(g ccGen, pers []bool, firsts [][]ccFres, hist [][][]byte, x *ccExtra) ([]*ccSession, error) {
	var out []*ccSession
	for i := range hist {
		sh := ccMakeShared(g.app)
		s, err := ccNewSession(g.app, g.cfg, sh, i, pers[i])
		if err != nil {
			return nil, err
		}
		if err := x.apply(s, i, true); err != nil {
			return nil, err
		}
		if x != nil && x.shared && s.persisted {
			s.sharedPe = persist.NewPersister(s.store).WithFlush() // alone: a flush persister of its own, reused for its requests
		}
		if firsts != nil {
			s.withFirst(firsts[i])
		}
		for _, in := range hist[i] {
			if !s.request(in) {
				break
			}
		}
		out = append(out, s)
	}
	return out, nil
}

// a random interleaving on one goroutine
func ccInterleaved(r *rand.Rand, g ccGen, pers []bool, firsts [][]ccFres, hist [][][]byte, x *ccExtra) (*ccRun, error) {
	sh := ccMakeShared(g.app)
	run := &ccRun{}
	pos := make([]int, len(hist))
	var sharedStore db.Db
	var sharedPe *persist.Persister
	if x != nil && x.shared {
		m := memdb.NewMemDb()
		m.Connect(context.Background(), "")
		sharedStore = m
		sharedPe = persist.NewPersister(m).WithFlush()
	}
	for i := range hist {
		s, err := ccNewSession(g.app, g.cfg, sh, i, pers[i])
		if err != nil {
			return nil, err
		}
		if err := x.apply(s, i, false); err != nil {
			return nil, err
		}
		if sharedPe != nil && s.persisted {
			s.store = sharedStore
			s.sharedPe = sharedPe
		}
		if firsts != nil {
			s.withFirst(firsts[i])
		}
		run.sessions = append(run.sessions, s)
	}
	for {
		var live []int
		for i, s := range run.sessions {
			if !s.dead && pos[i] < len(hist[i]) {
				live = append(live, i)
			}
		}
		if len(live) == 0 {
			break
		}
		i := ccPick(r, live)
		run.sessions[i].request(hist[i][pos[i]])
		ccPairwiseAlias(run.sessions, i)
		pos[i]++
		run.sched = append(run.sched, i)
	}
	run.final = sh.codeArrays()
	run.other = sh.otherIntact()
	return run, nil
}

// one goroutine per session, started together
func ccConcurrent(g ccGen, pers []bool, firsts [][]ccFres, hist [][][]byte, x *ccExtra) (*ccRun, error) {
	sh := ccMakeShared(g.app)
	run := &ccRun{}
	for i := range hist {
		s, err := ccNewSession(g.app, g.cfg, sh, i, pers[i])
		if err != nil {
			return nil, err
		}
		if err := x.apply(s, i, false); err != nil {
			return nil, err
		}
		if firsts != nil {
			s.withFirst(firsts[i])
		}
		run.sessions = append(run.sessions, s)
	}
	var wg sync.WaitGroup
	start := make(chan struct{})
	for i, s := range run.sessions {
		wg.Add(1)
		go func(s *ccSession, h [][]byte) {
			defer wg.Done()
			<-start
			for _, in := range h {
				if !s.request(in) {
					break
				}
				runtime.Gosched()
			}
		}(s, hist[i])
	}
	close(start)
	wg.Wait()
	ccPairwiseAlias(run.sessions, -1)
	run.final = sh.codeArrays()
	run.other = sh.otherIntact()
	return run, nil
}

func ccWatchdog(what string) func() {
	done := make(chan struct{})
	go func() {
		select {
		case <-done:
		case <-time.After(60 * time.Second):
			fmt.Fprintf(os.Stderr, "harness: %s did not finish in 60s\n", what)
			os.Exit(4)
		}
	}()
	return func() { close(done) }
}

func ccAppCase(kind string, g ccGen, run *ccRun, solo []*ccSession, extra map[string]interface{}) hx.Case {
	ss := make([]string, len(run.sessions))
	so := make([]string, len(solo))
	aliased := false
	nreq := 0
	for i, s := range run.sessions {
		ss[i] = s.obsTerm()
		aliased = aliased || s.aliased()
		nreq += len(s.steps)
	}
	for i, s := range solo {
		so[i] = s.soloTerm()
	}
	sched := make([]string, len(run.sched))
	for i, x := range run.sched {
		sched[i] = fmt.Sprint(x)
	}
	fins := make([]string, len(run.sessions))
	sofin := make([]string, len(solo))
	for i, s := range run.sessions {
		fins[i] = s.finTerm()
	}
	for i, s := range solo {
		sofin[i] = s.finalSnap()
	}
	term := fmt.Sprintf("(CApp (mkAcase %s %s (rep %d %d) %s %s %s %s %s %s %s %s))", g.app.term(), g.cfg.term(), ccSentinel, ccSpare,
		hx.List(ss), hx.List(sched), hx.List(so), hx.BList(run.final), hx.Bool(aliased), hx.Bool(run.other), hx.List(fins), hx.List(sofin))
	steps := map[string]interface{}{}
	for i, s := range run.sessions {
		steps[fmt.Sprintf("session%d", i)] = s.steps
		steps[fmt.Sprintf("solo%d", i)] = solo[i].steps
	}
	d := map[string]interface{}{"nodes": g.desc, "cfg": g.cfg, "app": g.app, "schedule": run.sched, "steps": steps}
	for k, v := range extra {
		d[k] = v
	}
	return hx.Case{Term: term, Kind: kind, Trivial: nreq < 2*len(run.sessions), Desc: d}
}

// Go's copy of the monitor, for the statistics only
func ccGoMonitor(run *ccRun, solo []*ccSession) bool {
	if !run.other {
		return false
	}
	for i, s := range run.sessions {
		if s.aliased() || len(s.steps) != len(solo[i].steps) {
			return false
		}
		for j := range s.steps {
			a, b := s.steps[j], solo[i].steps[j]
			if a.Cont != b.Cont || a.Exec != b.Exec || a.Out != b.Out || a.Flush != b.Flush || (a.Fin == "") != (b.Fin == "") {
				return false
			}
		}
		if s.finalSnap() != solo[i].finalSnap() {
			return false
		}
	}
	for i, a := range ccMakeSharedInit(run, solo) {
		if !bytes.Equal(a, run.final[i]) {
			return false
		}
	}
	return true
}

// initial content of the code arrays (every ccShared of the same application starts the same)
func ccMakeSharedInit(run *ccRun, solo []*ccSession) [][]byte {
	var r [][]byte
	for _, a := range solo[0].sh.code {
		r = append(r, a.init)
	}
	return r
}

// ---- primitive cases: the buffer operations on real slices ----------------------------------------------

type ccOp struct {
	Kind string `json:"kind"` // consume append replace adopt fresh store take decode
	N    int    `json:"n"`
	Data []byte `json:"data,omitempty"`
}

func (o ccOp) term() string {
	switch o.Kind {
	case "consume":
		return fmt.Sprintf("(OpConsume %d)", o.N)
	case "append":
		return fmt.Sprintf("(OpAppendFromResource %d)", o.N)
	case "replace":
		return fmt.Sprintf("(OpReplaceFromResource %d)", o.N)
	case "adopt":
		return fmt.Sprintf("(OpAdopt %d)", o.N)
	case "fresh":
		return fmt.Sprintf("(OpReplaceFresh %s)", hx.B(o.Data))
	case "store":
		return "OpStore"
	case "take":
		return "OpTake"
	}
	return "OpDecodeFresh"
}

type ccBuf struct {
	b, code []byte
	allocs  int
}

type ccCapRec struct{ sid, k, cap int }

// the Go statements of vm/runner.go, engine/db.go and state/state.go, verbatim
func (s *ccBuf) step(sid int, res [][]byte, o ccOp, caps *[]ccCapRec) {
	app := func(dst []byte, data []byte) []byte {
		nb := append(dst, data...)
		moved := false
		if len(data) > 0 {
			if cap(dst) == 0 {
				moved = true
			} else {
				moved = &nb[:1][0] != &dst[:1][0]
			}
		}
		if moved {
			*caps = append(*caps, ccCapRec{sid, s.allocs, cap(nb)})
			s.allocs++
		}
		return nb
	}
	switch o.Kind {
	case "consume": // b = b[n:] (the decoder has checked n <= len(b))
		n := o.N
		if n > len(s.b) {
			n = len(s.b)
		}
		s.b = s.b[n:]
	case "append": // runMove, runInCmp: b = append(b, code...)
		if o.N < len(res) {
			s.b = app(s.b, res[o.N])
		}
	case "replace": // runCatch: b = append([]byte{}, bh...)
		if o.N < len(res) {
			s.b = app([]byte{}, res[o.N])
		}
	case "adopt": // runCatch before 800b081: b = bh
		if o.N < len(res) {
			s.b = res[o.N]
		}
	case "fresh": // NewLine(nil, ...): append([]byte{}, b...)
		s.b = app([]byte{}, o.Data)
	case "store": // st.SetCode(b); the local b dies
		s.code = s.b
		s.b = []byte{}
	case "take": // b = st.GetCode()
		s.b = s.code
		s.code = []byte{}
	case "decode": // a new State decoded from the stored record
		s.code = app([]byte{}, s.code)
		s.b = []byte{}
	}
}

func ccObsTerm(b, code []byte) string { return fmt.Sprintf("(%s, %s)", hx.B(b), hx.B(code)) }

type ccPrim struct {
	Codes  [][]byte `json:"codes"`
	Spares []int    `json:"spares"`
	Sched  []struct {
		Sid int  `json:"sid"`
		Op  ccOp `json:"op"`
	} `json:"sched"`
}

func ccPrimArrays(p *ccPrim) ([][]byte, [][]byte) {
	var res, init [][]byte
	for i, c := range p.Codes {
		s := make([]byte, len(c), len(c)+p.Spares[i])
		copy(s, c)
		full := s[:cap(s)]
		for j := len(c); j < len(full); j++ {
			full[j] = ccSentinel
		}
		res = append(res, s)
		init = append(init, append([]byte{}, full...))
	}
	return res, init
}

func ccRunPrim(p *ccPrim, only int) (obs []string, raw [][2][]byte, caps []ccCapRec, final [][]byte, intact bool) {
	res, init := ccPrimArrays(p)
	sess := map[int]*ccBuf{}
	for _, e := range p.Sched {
		if only >= 0 && e.Sid != only {
			continue
		}
		s := sess[e.Sid]
		if s == nil {
			s = &ccBuf{b: []byte{}, code: []byte{}}
			sess[e.Sid] = s
		}
		s.step(e.Sid, res, e.Op, &caps)
		obs = append(obs, ccObsTerm(s.b, s.code))
		raw = append(raw, [2][]byte{append([]byte{}, s.b...), append([]byte{}, s.code...)})
	}
	intact = true
	for i, r := range res {
		f := append([]byte{}, r[:cap(r)]...)
		final = append(final, f)
		if !bytes.Equal(f, init[i]) {
			intact = false
		}
	}
	return
}

func ccPrimCase(kind string, p *ccPrim) (hx.Case, bool) {
	obs, raw, caps, final, intact := ccRunPrim(p, -1)
	sids := map[int]bool{}
	var order []int
	for _, e := range p.Sched {
		if !sids[e.Sid] {
			sids[e.Sid] = true
			order = append(order, e.Sid)
		}
	}
	same := intact
	var solos []string
	for _, sid := range order {
		so, sraw, scaps, _, _ := ccRunPrim(p, sid)
		solos = append(solos, fmt.Sprintf("(%d, %s)", sid, hx.List(so)))
		// the solo run allocates the same arrays in the same order: its capacities join the oracle
		caps = append(caps, scaps...)
		k := 0
		for i, e := range p.Sched {
			if e.Sid != sid {
				continue
			}
			if !bytes.Equal(raw[i][0], sraw[k][0]) || !bytes.Equal(raw[i][1], sraw[k][1]) {
				same = false
			}
			k++
		}
	}
	tbl := make([]string, len(p.Codes))
	for i, c := range p.Codes {
		tbl[i] = fmt.Sprintf("(%s, rep %d %d)", hx.B(c), ccSentinel, p.Spares[i])
	}
	sched := make([]string, len(p.Sched))
	for i, e := range p.Sched {
		sched[i] = fmt.Sprintf("(%d, %s)", e.Sid, e.Op.term())
	}
	seen := map[[2]int]int{}
	var capt []string
	consistent := true
	for _, c := range caps {
		k := [2]int{c.sid, c.k}
		if old, ok := seen[k]; ok {
			if old != c.cap {
				consistent = false
			}
			continue
		}
		seen[k] = c.cap
		capt = append(capt, fmt.Sprintf("(%d, %d, %d)", c.sid, c.k, c.cap))
	}
	_ = consistent
	term := fmt.Sprintf("(CPrim (mkPcase %s %s %s %s %s %s))", hx.List(tbl), hx.List(sched), hx.List(capt), hx.List(obs), hx.BList(final), hx.List(solos))
	return hx.Case{Term: term, Kind: kind, Trivial: len(p.Sched) < 3, Desc: p}, same
}

func ccGenPrim(r *rand.Rand, adopt bool) *ccPrim {
	p := &ccPrim{}
	nn := 2 + r.Intn(4)
	for i := 0; i < nn; i++ {
		n := 1 + r.Intn(9)
		c := make([]byte, n)
		for j := range c {
			c[j] = byte(1 + i*16 + j)
		}
		p.Codes = append(p.Codes, c)
		p.Spares = append(p.Spares, ccPick(r, []int{0, 0, 1, 3, 8, 8, 24, 64}))
	}
	ns := 2 + r.Intn(3)
	n := 6 + r.Intn(30)
	for i := 0; i < n; i++ {
		var o ccOp
		k := r.Intn(100)
		switch {
		case k < 30:
			o = ccOp{Kind: "consume", N: r.Intn(7)}
		case k < 55:
			o = ccOp{Kind: "append", N: r.Intn(nn + 1)}
		case k < 68:
			if adopt {
				o = ccOp{Kind: "adopt", N: r.Intn(nn)}
			} else {
				o = ccOp{Kind: "replace", N: r.Intn(nn + 1)}
			}
		case k < 74:
			o = ccOp{Kind: "replace", N: r.Intn(nn + 1)}
		case k < 80:
			d := make([]byte, r.Intn(5))
			for j := range d {
				d[j] = byte(200 + j)
			}
			o = ccOp{Kind: "fresh", Data: d}
		case k < 88:
			o = ccOp{Kind: "store"}
		case k < 96:
			o = ccOp{Kind: "take"}
		default:
			o = ccOp{Kind: "decode"}
		}
		p.Sched = append(p.Sched, struct {
			Sid int  `json:"sid"`
			Op  ccOp `json:"op"`
		}{r.Intn(ns), o})
	}
	return p
}

// the pre-repair defect as a fixed schedule: both sessions CATCH to node 0 (adopt), each MOVEs on, 1 decodes
func ccAdoptCorpus() *ccPrim {
	p := &ccPrim{Codes: [][]byte{{9, 9, 9}, {1, 1}, {2, 2}}, Spares: []int{8, 0, 0}}
	add := func(sid int, o ccOp) {
		p.Sched = append(p.Sched, struct {
			Sid int  `json:"sid"`
			Op  ccOp `json:"op"`
		}{sid, o})
	}
	add(1, ccOp{Kind: "adopt", N: 0})
	add(2, ccOp{Kind: "adopt", N: 0})
	add(1, ccOp{Kind: "append", N: 1})
	add(2, ccOp{Kind: "append", N: 2})
	add(1, ccOp{Kind: "consume", N: 3})
	return p
}

// ---- self-test at application level: the harness seeds st.Code with the resource's own slice --------------
// (what the pre-repair CATCH did inside the VM); two long-lived sessions, interleaved

func ccSeededRun(g ccGen, hist [][][]byte, sched []int, seed bool) (*ccRun, error) {
	sh := ccMakeShared(g.app)
	run := &ccRun{}
	for i := range hist {
		s, err := ccNewSession(g.app, g.cfg, sh, i, false)
		if err != nil {
			return nil, err
		}
		if seed {
			s.st.SetCode(sh.code[0].s) // root's code slice itself
		}
		run.sessions = append(run.sessions, s)
	}
	pos := make([]int, len(hist))
	for _, i := range sched {
		if pos[i] < len(hist[i]) {
			run.sessions[i].request(hist[i][pos[i]])
			pos[i]++
			run.sched = append(run.sched, i)
		}
	}
	run.final = sh.codeArrays()
	run.other = sh.otherIntact()
	return run, nil
}

func ccSeedApp() ccGen {
	a := &ccApp{Fn: map[string][]ccFres{}}
	mk := func(parts ...[]byte) string { return string(bytes.Join(parts, nil)) }
	a.Code = []ccKV{
		{"root", mk(ccLine(vm.HALT, nil, nil, nil), ccLine(vm.INCMP, []string{"foo", "1"}, nil, nil), ccLine(vm.INCMP, []string{"bar", "2"}, nil, nil))},
		{"foo", mk(ccLine(vm.HALT, nil, nil, nil), ccLine(vm.INCMP, []string{"_", "0"}, nil, nil))},
		{"bar", mk(ccLine(vm.HALT, nil, nil, nil), ccLine(vm.INCMP, []string{"_", "0"}, nil, nil))},
		{"_catch", mk(ccLine(vm.HALT, nil, nil, nil), ccLine(vm.INCMP, []string{"_", "*"}, nil, nil))},
	}
	a.Tpl = []ccKV{{"_catch", "catch"}, {"bar", "this is bar"}, {"foo", "this is foo"}, {"root", "this is root"}}
	return ccGen{app: a, cfg: &ccCfg{FlagCount: 1}, desc: []string{"root: HALT; INCMP foo 1; INCMP bar 2", "foo: HALT; INCMP _ 0", "bar: HALT; INCMP _ 0"}}
}

func ccSelftest() (string, map[string]int, error) {
	var terms []string
	stats := map[string]int{}
	// CPrim with OpAdopt
	for i, p := range []*ccPrim{ccAdoptCorpus()} {
		c, same := ccPrimCase(fmt.Sprintf("selftest-adopt-%d", i), p)
		terms = append(terms, c.Term)
		stats["selftest_prim"]++
		if !same {
			stats["selftest_prim_flagged_go"]++
		}
	}
	// CApp with a seeded buffer: session 0 goes root -> foo, session 1 root -> bar, then both go back
	g := ccSeedApp()
	hist := [][][]byte{{[]byte(""), []byte("1"), []byte("0")}, {[]byte(""), []byte("2"), []byte("0")}}
	sched := []int{0, 1, 0, 1, 0, 1}
	run, err := ccSeededRun(g, hist, sched, true)
	if err != nil {
		return "", nil, err
	}
	solo0, err := ccSeededRun(g, [][][]byte{hist[0], nil}, []int{0, 0, 0}, true)
	if err != nil {
		return "", nil, err
	}
	solo1, err := ccSeededRun(g, [][][]byte{nil, hist[1]}, []int{1, 1, 1}, true)
	if err != nil {
		return "", nil, err
	}
	solo := []*ccSession{solo0.sessions[0], solo1.sessions[1]}
	c := ccAppCase("selftest-seeded", g, run, solo, nil)
	terms = append(terms, c.Term)
	stats["selftest_app"]++
	if !ccGoMonitor(run, solo) {
		stats["selftest_app_flagged_go"]++
	}
	// control: the same without seeding must pass
	runc, err := ccSeededRun(g, hist, sched, false)
	if err != nil {
		return "", nil, err
	}
	soloc, err := ccSolo(g, []bool{false, false}, nil, hist, nil)
	if err != nil {
		return "", nil, err
	}
	if ccGoMonitor(runc, soloc) {
		stats["selftest_control_ok"]++
	}
	return "Definition selftest : list ccase := " + hx.List(terms) + ".\nDefinition selftest_n := Eval vm_compute in selftest_flagged selftest.\nPrint selftest_n.", stats, nil
}

// ---- drivers ------------------------------------------------------------------------------------------------

// was this binary built with -race?
func ccRaceEnabled() bool {
	bi, ok := debug.ReadBuildInfo()
	if !ok {
		return false
	}
	for _, s := range bi.Settings {
		if s.Key == "-race" && s.Value == "true" {
			return true
		}
	}
	return false
}

const ccImports = "Bytes Errors Consts Codec CacheModel StateModel NavModel RenderModel VmModel EngineModel CorrBase EngineCorr SliceHeap SliceCorr"

func init() {
	drivers["alias"] = ccRunAlias
	drivers["race"] = ccRunRace
}

// probe (not part of the check): the long-lived-server shape with applications that DO load symbols into the
// cache (and a language function).  On the unchanged library a reused WithFlush persister leaks between
// sessions: Save's flush (Memory.Reset + Pop) leaves Sizes entries of deeper frames and LastValue behind, the next
// session's record is decoded INTO those leftover objects, and a request that ends without a saving Finish (entry
// function sets TERMINATE: engine not initialised) leaves the whole state of that session for the next one.
// Prints the first difference of every case against the solo runs.
func ccProbeFlushReuse(o opts) error {
	diffs, n := 0, 30
	for i := 0; i < n; i++ {
		r := hx.Rng(o.seed, "probe-flushreuse", i)
		g := ccGenLangApp(r, true, false)
		k := 2 + r.Intn(3)
		pers := make([]bool, k)
		hist := make([][][]byte, k)
		x := &ccExtra{shared: true, langs: make([]string, k)}
		for j := 0; j < k; j++ {
			pers[j] = true
			hist[j] = ccGenHistory(r, g.sels, 2+r.Intn(5))
			x.langs[j] = ccLangs[(i+j)%len(ccLangs)]
		}
		run, err := ccInterleaved(r, g, pers, nil, hist, x)
		if err != nil {
			return err
		}
		solo, err := ccSolo(g, pers, nil, hist, x)
		if err != nil {
			return err
		}
		if ccGoMonitor(run, solo) {
			continue
		}
		diffs++
	found:
		for si, s := range run.sessions {
			for j := range s.steps {
				a, b := s.steps[j], solo[si].steps[j]
				if a.Cont != b.Cont || a.Exec != b.Exec || a.Out != b.Out || a.Flush != b.Flush || a.snap != b.snap {
					fmt.Printf("case %d session %d request %d input %q: shared persister: cont=%v exec=%s out=%q\n   stored %s\n  alone: cont=%v exec=%s out=%q\n   stored %s\n  nodes %q schedule %v\n",
						i, si, j, a.Input, a.Cont, a.Exec, a.Out, a.snap, b.Cont, b.Exec, b.Out, b.snap, g.desc, run.sched)
					break found
				}
			}
		}
	}
	fmt.Printf("probe: %d of %d cases differ from the solo runs on this library\n", diffs, n)
	return nil
}

func ccRunAlias(o opts) error {
	if o.replay == "probe:flushreuse" {
		return ccProbeFlushReuse(o)
	}
	pre, stats, err := ccSelftest()
	if err != nil {
		return err
	}
	w := &hx.Writer{Dir: o.out, Prop: o.prop, Imports: ccImports, CaseType: "ccase", Mism: "slice_mismatches_st selftest", Viol: "slice_violations",
		Prelude: pre, PerShard: 25}
	for k, v := range stats {
		for i := 0; i < v; i++ {
			w.Count(k)
		}
	}
	// primitive cases: n/2 repaired schedules (judged by the monitor) ...
	// -replay only:shared-persister: nothing but application cases in the long-lived-server shape (registration under C18)
	onlyShared := o.replay == "only:shared-persister"
	np := o.n / 2
	if onlyShared {
		np = 0
	}
	for i := 0; i < np; i++ {
		r := hx.Rng(o.seed, "alias-prim", i)
		c, same := ccPrimCase("prim", ccGenPrim(r, false))
		w.Add(c)
		if !same {
			w.Count("go_monitor_flagged")
		}
	}
	// ... and n/10 schedules containing the pre-repair OpAdopt: the monitor does not judge them, the model
	// must reproduce what Go did, interference included
	nad := o.n / 10
	if onlyShared {
		nad = 0
	}
	for i := 0; i < nad; i++ {
		r := hx.Rng(o.seed, "alias-adopt", i)
		c, same := ccPrimCase("prim-adopt", ccGenPrim(r, true))
		w.Add(c)
		if !same {
			w.Count("adopt_interference_observed")
		}
	}
	np += nad
	// application cases
	na := o.n - np
	for i := 0; i < na; i++ {
		r := hx.Rng(o.seed, "alias-app", i)
		stop := ccWatchdog(fmt.Sprintf("alias application case %d (seed %d)", i, o.seed))
		shared := i%3 == 2 || onlyShared
		var g ccGen
		if shared {
			// LOAD/RELOAD and the lang1 function: possible since a037abb repaired the persister's flush; no panicking flag test
			// (a request that panics is never saved, and what it leaves in the persister is the next session's: K-C11-6, remaining part)
			g = ccGenLangApp(r, true, true)
		} else {
			g = ccGenApp(r)
		}
		k := 2 + r.Intn(3)
		pers := make([]bool, k)
		hist := make([][][]byte, k)
		for j := 0; j < k; j++ {
			pers[j] = r.Intn(2) == 0
			hn := 2 + r.Intn(5)
			if o.tier == "thorough" {
				hn = 2 + r.Intn(9)
			}
			hist[j] = ccGenHistory(r, g.sels, hn)
		}
		// 40 % of the sessions get an entry function of their own (per-request engines run it on every request)
		firsts := ccGenFirsts(hx.Rng(o.seed, "alias-first", i), k, g.cfg.FlagCount, 40)
		// every third application case in the shape of a long-lived server: ONE persister created WithFlush, reused for
		// every request of every session (one goroutine), every session with a Config.Language of its own
		kind := "app-interleaved"
		var x *ccExtra
		if shared {
			kind = "app-shared-persister"
			rx := hx.Rng(o.seed, "alias-shape", i)
			x = &ccExtra{shared: true, langs: make([]string, k)}
			perm := rx.Perm(len(ccLangs))
			firsts = nil
			for j := 0; j < k; j++ {
				pers[j] = true
				x.langs[j] = ccLangs[perm[j%len(ccLangs)]]
				if rx.Intn(5) == 0 {
					x.langs[j] = ""
				}
			}
		}
		run, err := ccInterleaved(r, g, pers, firsts, hist, x)
		if err != nil {
			return err
		}
		solo, err := ccSolo(g, pers, firsts, hist, x)
		if err != nil {
			return err
		}
		stop()
		w.Add(ccAppCase(kind, g, run, solo, map[string]interface{}{"shape": x.desc()}))
		if !ccGoMonitor(run, solo) {
			w.Count("go_monitor_flagged")
		}
		for _, s := range run.sessions {
			w.Count(fmt.Sprintf("sessions_persisted_%v", s.persisted))
			for _, st := range s.steps {
				w.Count("exec:" + st.Exec)
				if st.Panic != "" {
					w.Count("panic")
				}
			}
		}
	}
	return w.Flush()
}

// negative control for the race detector: the set-up the property EXCLUDES — two goroutines serving two
// sessions through ONE DbResource (it sets its db's key prefix on every call).  Under -race this must end
// the process with "WARNING: DATA RACE" (exit status 66 with GORACE=exitcode=66); without -race it returns
// an error, so that the caller never mistakes it for a pass.
func ccRaceNegativeControl() error {
	g := ccSeedApp()
	sh := ccMakeShared(g.app)
	s0, err := ccNewSession(g.app, g.cfg, sh, 0, false)
	if err != nil {
		return err
	}
	var wg sync.WaitGroup
	for i := 0; i < 2; i++ {
		cfg := s0.cfg
		cfg.SessionId = fmt.Sprintf("neg%d", i)
		en := engine.NewEngine(cfg, s0.rs.DbResource) // the same resource object for both
		wg.Add(1)
		go func(en *engine.DefaultEngine) {
			defer wg.Done()
			ctx := context.Background()
			for _, in := range []string{"", "1", "0", "2", "0", "1", "0"} {
				hx.Recover(func() {
					en.Exec(ctx, []byte(in))
					en.Flush(ctx, bytes.NewBuffer(nil))
				})
			}
		}(en)
	}
	wg.Wait()
	return errors.New("negative control: the race detector did not stop the process (binary built without -race?)")
}

// probe (not part of the check): the process-wide validator table vm.preInputRegexStr.  Sequentially: the
// second engine's AddValidInput fails ("already registered": every engine counts its keys from 0) while
// the first engine's pattern is applied by EVERY engine of the process.  Concurrently: one goroutine builds
// per-request engines and calls AddValidInput, the other serves inputs that reach the custom validators —
// under -race this ends with DATA RACE.  The property's set-up (and the drivers) call it before serving only.
func ccProbeAddValidInput() error {
	g := ccSeedApp()
	sh := ccMakeShared(g.app)
	s0, err := ccNewSession(g.app, g.cfg, sh, 0, false)
	if err != nil {
		return err
	}
	s1, err := ccNewSession(g.app, g.cfg, sh, 1, false)
	if err != nil {
		return err
	}
	ctx := context.Background()
	_, e0 := s1.en.Exec(ctx, []byte("%x"))
	fmt.Printf("probe: before any AddValidInput, engine 1 Exec(%%x) error: %v\n", e0)
	s1b, _ := ccNewSession(g.app, g.cfg, sh, 1, false)
	err0 := s0.en.AddValidInput("^%.*")
	err1 := s1b.en.AddValidInput("^#.*")
	_, e1 := s1b.en.Exec(ctx, []byte("%x"))
	_, e2 := s1b.en.Exec(ctx, []byte("#x"))
	fmt.Printf("probe: engine 0 AddValidInput(^%%.*) = %v; engine 1 AddValidInput(^#.*) = %v\n", err0, err1)
	fmt.Printf("probe: engine 1 Exec(%%x) error: %v (engine 0's pattern applies to engine 1)\n", e1)
	fmt.Printf("probe: engine 1 Exec(#x) error: %v (engine 1's own pattern was dropped)\n", e2)
	var wg sync.WaitGroup
	wg.Add(2)
	go func() {
		defer wg.Done()
		for i := 0; i < 200; i++ {
			s, _ := ccNewSession(g.app, g.cfg, sh, 2, false)
			for j := 0; j <= i+1; j++ { // the (i+2)th call of an engine uses a key nobody has registered yet
				s.en.AddValidInput("^%.*")
			}
		}
	}()
	go func() {
		defer wg.Done()
		for i := 0; i < 200; i++ {
			s, _ := ccNewSession(g.app, g.cfg, sh, 3, false)
			hx.Recover(func() {
				s.en.Exec(ctx, []byte(""))
				s.en.Exec(ctx, []byte("%1"))
			})
		}
	}()
	wg.Wait()
	fmt.Println("probe: concurrent AddValidInput / Exec finished without a race report")
	return nil
}

func ccRunRace(o opts) error {
	if runtime.GOMAXPROCS(0) < 4 {
		runtime.GOMAXPROCS(4)
	}
	pre, stats, err := ccSelftest()
	if err != nil {
		return err
	}
	w := &hx.Writer{Dir: o.out, Prop: o.prop, Imports: ccImports, CaseType: "ccase", Mism: "slice_mismatches_st selftest", Viol: "slice_violations",
		Prelude: pre, PerShard: 4}
	for k, v := range stats {
		for i := 0; i < v; i++ {
			w.Count(k)
		}
	}
	w.Count(fmt.Sprintf("race_detector_enabled_%v", ccRaceEnabled()))
	if o.replay == "selftest:shared-resource" {
		return ccRaceNegativeControl()
	}
	if o.replay == "probe:addvalidinput" {
		return ccProbeAddValidInput()
	}
	reps := 5
	if o.tier == "thorough" {
		reps = 10
	}
	lastDebug := -1
	for i := 0; i < o.n; i++ {
		if i%3 == 1 && i%10 != 7 {
			lastDebug = i
		}
	}
	for i := 0; i < o.n; i++ {
		r := hx.Rng(o.seed, "race", i)
		stop := ccWatchdog(fmt.Sprintf("race case %d (seed %d)", i, o.seed))
		var g ccGen
		poRun := i%10 == 7
		if poRun {
			g = ccGenAppOpt(r, true, false) // nothing is loaded: a shared resource would mean shared entry functions
		} else if i%3 == 0 {
			// language runs: a lang1 function (answers language codes, sets FLAG_LANG) loaded by some nodes, translated templates
			g = ccGenLangApp(r, true, false)
		} else {
			g = ccGenApp(r)
		}
		k := 2 + r.Intn(15)
		pers := make([]bool, k)
		hist := make([][][]byte, k)
		for j := 0; j < k; j++ {
			pers[j] = r.Intn(2) == 0
			hn := 2 + r.Intn(5)
			if o.tier == "thorough" {
				hn = 2 + r.Intn(9)
			}
			hist[j] = ccGenHistory(r, g.sels, hn)
		}
		// 70 % of the sessions get an entry function of their own: long-lived engines run it in their first
		// Exec only, and the goroutines are released together, so the first Execs coincide
		firsts := ccGenFirsts(hx.Rng(o.seed, "race-first", i), k, g.cfg.FlagCount, 70)
		nf := 0
		for _, f := range firsts {
			if f != nil {
				nf++
			}
		}
		w.Count(fmt.Sprintf("sessions_with_first_%v", nf > 0))
		// deployment shape: every third run in debug mode (all sessions), every third run with the persisted
		// sessions on ONE filesystem directory (separate handles), the rest plain
		kind := "app-concurrent"
		var x *ccExtra
		rx := hx.Rng(o.seed, "race-shape", i)
		shape := i % 3
		podir := ""
		if poRun {
			// gettext runs: the sessions' engines share ONE resource.PoResource (templates and labels from .po files; only the default
			// language and nor registered), sessions in the default language, in the registered one, in valid codes nobody registered
			// (fra: a .po file exists; swa: none), or without a language
			shape = -1
			kind = "app-concurrent-po"
			podir = filepath.Join(o.out, fmt.Sprintf("porun-%d", i))
			eq, err := ccWritePo(rx, podir, g.app)
			if err != nil {
				return err
			}
			g.app = eq
			x = &ccExtra{poMk: ccMkPo(podir), langs: make([]string, k)}
			for j := range x.langs {
				x.langs[j] = []string{ccPoDefault, ccPoRegistered, ccPoOnDisk, "swa", ""}[(j+rx.Intn(2))%5]
			}
		}
		switch shape {
		case 0:
			// every session with a Config.Language of its own (resolved when its engine is prepared; the lang1 function
			// resolves more codes during requests): sessions resolve DIFFERENT codes at overlapping moments
			kind = "app-concurrent-lang"
			x = &ccExtra{langs: make([]string, k)}
			for j := range x.langs {
				x.langs[j] = ccPick(rx, []string{"nor", "swa", "fra", "eng", ""})
			}
			if i%2 == 0 {
				// ... and the application logs every request through ONE library logger (a value type, copied freely) that emits
				kind = "app-concurrent-lang-log"
				x.applog = true
			}
		case 1:
			kind = "app-concurrent-debug"
			x = &ccExtra{debug: make([]int, k)}
			for j := range x.debug {
				x.debug[j] = 1
				if rx.Intn(3) == 0 {
					x.debug[j] = 2
				}
			}
			if i == lastDebug && !ccRegistered {
				// legitimate set-up: names for SOME user flags, registered before any goroutine starts; from here
				// on the sessions' lookups of these flags hit, all others still miss
				state.FlagDebugger.Register(8, "CC_USERFLAG_8")
				state.FlagDebugger.Register(9, "CC_USERFLAG_9")
				ccRegistered = true
				w.Count("debug_run_with_registered_flags")
			}
		case 2:
			kind = "app-concurrent-fs"
			x = &ccExtra{fs: make([]bool, k)}
			nfs := 0
			for j := range x.fs {
				pers[j] = rx.Intn(5) > 0
				x.fs[j] = pers[j] && rx.Intn(7) > 0
				if x.fs[j] {
					nfs++
				}
			}
			w.Count(fmt.Sprintf("fs_sessions_%02d", nfs))
		}
		if x != nil && x.fs != nil {
			x.fsdir = filepath.Join(o.out, fmt.Sprintf("fsrun-%d-solo", i))
		}
		// the solo runs are served WITHOUT debug mode (it changes no output): they run first, on this goroutine, and
		// must not be the ones that look the flags up in state.FlagDebugger for the first time
		xs := x
		if x != nil && x.debug != nil {
			xs = nil
		}
		solo, err := ccSolo(g, pers, firsts, hist, xs)
		if x != nil && x.fs != nil {
			os.RemoveAll(x.fsdir)
		}
		if err != nil {
			return err
		}
		// the same sessions served concurrently several times (the scheduler picks another interleaving
		// each time); the case printed is the first run the Go copy of the monitor objects to, else the first
		var run *ccRun
		for rep := 0; rep < reps; rep++ {
			if x != nil && x.fs != nil {
				x.fsdir = filepath.Join(o.out, fmt.Sprintf("fsrun-%d-%d", i, rep))
				if err := os.MkdirAll(x.fsdir, 0700); err != nil {
					return err
				}
			}
			if x != nil {
				x.po = nil // a freshly created shared resource for every concurrent run
			}
			rr, err := ccConcurrent(g, pers, firsts, hist, x)
			if x != nil && x.fs != nil {
				os.RemoveAll(x.fsdir)
			}
			if err != nil {
				return err
			}
			w.Count("concurrent_runs")
			ok := ccGoMonitor(rr, solo)
			if run == nil || !ok {
				run = rr
			}
			if !ok {
				break
			}
		}
		if podir != "" {
			os.RemoveAll(podir)
		}
		stop()
		w.Add(ccAppCase(kind, g, run, solo, map[string]interface{}{"goroutines": k, "repetitions": reps, "persisted": pers, "shape": x.desc()}))
		w.Count(fmt.Sprintf("goroutines_%02d", k))
		if !ccGoMonitor(run, solo) {
			w.Count("go_monitor_flagged")
		}
	}
	return w.Flush()
}
