//go:build verif

package main

func init() { drivers["alias"] = func(o opts) error { return nil } }
