// Package hx holds what every harness driver shares: the seeded PRNG, the Coq term
// printer, the case-file writer and the error classifier.
package hx

import (
	"bufio"
	"encoding/json"
	"fmt"
	"hash/fnv"
	"io"
	"log"
	"math/rand"
	"os"
	"path/filepath"
	"strings"

	"git.defalsify.org/vise.git/logging"
)

func Silence() {
	logging.LogWriter = io.Discard
	log.SetOutput(io.Discard)
}

// Rng derives an independent PRNG for (seed, stream, index) so that any single case can
// be regenerated exactly for replay.
func Rng(seed int64, stream string, idx int) *rand.Rand {
	h := fnv.New64a()
	fmt.Fprintf(h, "%d/%s/%d", seed, stream, idx)
	return rand.New(rand.NewSource(int64(h.Sum64())))
}

// ---- Coq term printing -------------------------------------------------------------

// B prints a byte string as a Coq term of type bytes.
func B(b []byte) string {
	if len(b) == 0 {
		return "[]"
	}
	if len(b) > 24 {
		// periodic values are printed as (cyc seed n): literals cost ~0.1 ms per byte in coqc
		for period := 1; period <= 12; period++ {
			ok := true
			for i := period; i < len(b); i++ {
				if b[i] != b[i-period] {
					ok = false
					break
				}
			}
			if ok {
				return fmt.Sprintf("(cyc %s %d)", B(b[:period]), len(b))
			}
		}
	}
	printable := true
	for _, c := range b {
		if c < 32 || c > 126 {
			printable = false
			break
		}
	}
	if printable {
		return "(s2b \"" + strings.ReplaceAll(string(b), "\"", "\"\"") + "\")"
	}
	if len(b) <= 6 {
		sb := strings.Builder{}
		sb.WriteString("[")
		for i, c := range b {
			if i > 0 {
				sb.WriteString(";")
			}
			fmt.Fprintf(&sb, "%d", c)
		}
		sb.WriteString("]")
		return sb.String()
	}
	return fmt.Sprintf("(h2b \"%x\")", b)
}

// BLong prints a long value whose head is periodic (period up to 32) as (cyc unit n ++ rest): a literal of
// tens of thousands of bytes costs seconds in coqc.
func BLong(b []byte) string {
	if len(b) < 2000 {
		return B(b)
	}
	bestP, bestL := 0, 0
	for period := 1; period <= 32; period++ {
		l := period
		for l < len(b) && b[l] == b[l-period] {
			l++
		}
		if l > bestL {
			bestP, bestL = period, l
		}
	}
	if bestL < 1000 {
		return B(b)
	}
	return fmt.Sprintf("(cyc %s %d ++ %s)", B(b[:bestP]), bestL, B(b[bestL:]))
}

func S(s string) string { return B([]byte(s)) }

func Bool(b bool) string {
	if b {
		return "true"
	}
	return "false"
}

func List(items []string) string {
	if len(items) == 0 {
		return "[]"
	}
	return "[" + strings.Join(items, "; ") + "]"
}

func BList(items [][]byte) string {
	r := make([]string, len(items))
	for i, it := range items {
		r[i] = B(it)
	}
	return List(r)
}

func SList(items []string) string {
	r := make([]string, len(items))
	for i, it := range items {
		r[i] = S(it)
	}
	return List(r)
}

func NList(items []uint32) string {
	r := make([]string, len(items))
	for i, it := range items {
		r[i] = fmt.Sprintf("%d", it)
	}
	return List(r)
}

// Outcome prints an outcome term: Ok v | Err e | Panic 0.
func Ok(v string) string   { return "(Ok " + v + ")" }
func Err(e string) string  { return "(Err " + e + ")" }
func Panic() string        { return "(Panic 0)" }

// ---- case files --------------------------------------------------------------------

// Case is one correspondence case: the Coq term plus a JSON-able description for replays.
type Case struct {
	Term    string      `json:"term"`
	Kind    string      `json:"kind"`
	Trivial bool        `json:"trivial"`
	Key     string      `json:"key"` // distinctness key
	Desc    interface{} `json:"desc"`
}

// Writer collects cases and writes sharded .v files plus a JSON sidecar.
type Writer struct {
	Dir      string
	Prop     string
	Imports  string // e.g. "Bytes Errors Consts Codec CodecCorr"
	CaseType string // e.g. "ccase"
	Mism     string // function : list CaseType -> list N (model vs observed)
	Viol     string // function : list CaseType -> list N (monitor on observed)
	Prelude  string // extra vernacular placed before the cases
	PerShard int
	Cases    []Case
	Stats    map[string]int
}

func (w *Writer) Add(c Case) {
	w.Cases = append(w.Cases, c)
	if w.Stats == nil {
		w.Stats = map[string]int{}
	}
	w.Stats[c.Kind]++
}

func (w *Writer) Count(k string) {
	if w.Stats == nil {
		w.Stats = map[string]int{}
	}
	w.Stats[k]++
}

// Flush writes cases_<prop>_<shard>.v files and cases_<prop>.json.
func (w *Writer) Flush() error {
	per := w.PerShard
	if per <= 0 {
		per = 200
	}
	nsh := (len(w.Cases) + per - 1) / per
	if nsh == 0 {
		nsh = 1
	}
	for sh := 0; sh < nsh; sh++ {
		lo := sh * per
		hi := lo + per
		if hi > len(w.Cases) {
			hi = len(w.Cases)
		}
		fn := filepath.Join(w.Dir, fmt.Sprintf("cases_%s_%d.v", w.Prop, sh))
		f, err := os.Create(fn)
		if err != nil {
			return err
		}
		bw := bufio.NewWriter(f)
		fmt.Fprintf(bw, "From Vise Require Import %s.\nLocal Open Scope N_scope.\n", w.Imports)
		if w.Prelude != "" {
			fmt.Fprintln(bw, w.Prelude)
		}
		const chunk = 50
		nch := 0
		for i := lo; i < hi; i += chunk {
			j := i + chunk
			if j > hi {
				j = hi
			}
			fmt.Fprintf(bw, "Definition cs_%d : list %s := [\n", nch, w.CaseType)
			for k := i; k < j; k++ {
				sep := ";"
				if k == j-1 {
					sep = ""
				}
				fmt.Fprintf(bw, "  (* %d *) %s%s\n", k, w.Cases[k].Term, sep)
			}
			fmt.Fprintf(bw, "].\n")
			nch++
		}
		fmt.Fprintf(bw, "Definition cases : list %s := ", w.CaseType)
		if nch == 0 {
			fmt.Fprintf(bw, "[]")
		}
		for c := 0; c < nch; c++ {
			if c > 0 {
				fmt.Fprintf(bw, " ++ ")
			}
			fmt.Fprintf(bw, "cs_%d", c)
		}
		fmt.Fprintf(bw, ".\n")
		fmt.Fprintf(bw, "Definition base : N := %d.\n", lo)
		fmt.Fprintf(bw, "Definition mism := Eval vm_compute in List.map (N.add base) (%s cases).\n", w.Mism)
		fmt.Fprintf(bw, "Definition viol := Eval vm_compute in List.map (fun p => (base + fst p, snd p)) (%s cases).\n", w.Viol)
		fmt.Fprintf(bw, "Print mism.\nPrint viol.\n")
		if err := bw.Flush(); err != nil {
			return err
		}
		f.Close()
	}
	// sidecar
	distinct := map[string]bool{}
	nontrivial := 0
	for _, c := range w.Cases {
		if c.Trivial {
			continue
		}
		k := c.Key
		if k == "" {
			k = c.Term
		}
		if !distinct[k] {
			distinct[k] = true
			nontrivial++
		}
	}
	side := map[string]interface{}{
		"prop":                w.Prop,
		"shards":              nsh,
		"evaluations":         len(w.Cases),
		"distinct_nontrivial": nontrivial,
		"stats":               w.Stats,
		"cases":               w.Cases,
	}
	jf, err := os.Create(filepath.Join(w.Dir, fmt.Sprintf("cases_%s.json", w.Prop)))
	if err != nil {
		return err
	}
	defer jf.Close()
	enc := json.NewEncoder(jf)
	return enc.Encode(side)
}

// Recover runs f and reports whether it panicked.
func Recover(f func()) (panicked bool, val interface{}) {
	defer func() {
		if r := recover(); r != nil {
			panicked = true
			val = r
		}
	}()
	f()
	return
}
