(* SliceHeapProofs.v — lemmas about model/SliceHeap.v (property C19).
   1. list/slice arithmetic; 2. the ownership invariant and the one-step soundness lemma;
   3. schedules: refinement to value semantics, non-interference, no write to shared arrays;
   4. request-level interleaving (generic) and its instances for EngineModel;
   5. the handlers of VmModel only ever do to the code what the trace language can express. *)
From Coq Require Import Lia ZArith.
From Coq Require Import ZifyN ZifyNat ZifyBool.
From Vise Require Import Bytes BytesProofs Errors Consts EngConsts Codec CodecProofs CacheModel StateModel NavModel RenderModel VmModel EngineModel SliceHeap.
Local Open Scope N_scope.

(* ---- 1. arithmetic ------------------------------------------------------------------------------ *)
Lemma owner_eqb_eq a b : owner_eqb a b = true <-> a = b.
Proof.
  destruct a as [|s|], b as [|t|]; cbn [owner_eqb]; split; intros H; try discriminate; try reflexivity.
  - apply N.eqb_eq in H. now subst.
  - inversion H. apply N.eqb_refl.
Qed.

Lemma aid_eqb_eq (a b : owner * N) : aid_eqb a b = true <-> a = b.
Proof.
  destruct a as [oa ka], b as [ob kb]. unfold aid_eqb. cbn [fst snd]. rewrite andb_true_iff, owner_eqb_eq, N.eqb_eq.
  split; [intros [-> ->]; reflexivity | intros H; inversion H; auto].
Qed.

Lemma aid_eqb_refl (a : owner * N) : aid_eqb a a = true.
Proof. apply aid_eqb_eq. reflexivity. Qed.

Lemma aid_eqb_neq (a b : owner * N) : a <> b -> aid_eqb a b = false.
Proof. intros H. destruct (aid_eqb a b) eqn:E; [|reflexivity]. apply aid_eqb_eq in E. contradiction. Qed.

Lemma h_set_same (h : owner * N -> list N) a v : h_set h a v a = v.
Proof. unfold h_set. now rewrite aid_eqb_refl. Qed.

Lemma h_set_other (h : owner * N -> list N) a v b : b <> a -> h_set h a v b = h b.
Proof. intros H. unfold h_set. now rewrite aid_eqb_neq. Qed.

Lemma take_0 {A} (l : list A) : take 0 l = [].
Proof. reflexivity. Qed.

Lemma len_rep b n : len (rep b n) = n.
Proof.
  unfold len, rep. assert (H : forall k, List.length (repeat_b b k) = k) by (induction k; cbn; congruence).
  rewrite H. lia.
Qed.

Lemma len_write_at pos data arr : pos + len data <= len arr -> len (write_at pos data arr) = len arr.
Proof.
  intros H. unfold write_at. rewrite !len_app, len_take by lia. rewrite len_drop. lia.
Qed.

(* reading back a region that was just extended in place *)
Lemma read_after_write_nat (o l : nat) (data arr : list N) :
  (o + l + List.length data <= List.length arr)%nat ->
  firstn (l + List.length data) (skipn o (firstn (o + l) arr ++ data ++ skipn (o + l + List.length data) arr))
  = firstn l (skipn o arr) ++ data.
Proof.
  intros Hl. set (d := List.length data) in *.
  rewrite skipn_app. rewrite firstn_length_le by lia.
  replace (o - (o + l))%nat with 0%nat by lia. rewrite skipn_O.
  rewrite skipn_firstn_comm. replace (o + l - o)%nat with l by lia.
  rewrite firstn_app. rewrite firstn_length_le by (rewrite skipn_length; lia).
  rewrite firstn_firstn. replace (Nat.min (l + d) l) with l by lia.
  replace (l + d - l)%nat with d by lia.
  rewrite firstn_app. replace (d - List.length data)%nat with 0%nat by (subst d; lia).
  cbn [firstn]. rewrite app_nil_r. unfold d. rewrite firstn_all. reflexivity.
Qed.

Lemma read_after_write off ln data arr :
  off + ln + len data <= len arr ->
  take (ln + len data) (drop off (write_at (off + ln) data arr)) = take ln (drop off arr) ++ data.
Proof.
  intros H. unfold write_at, take, drop, len in *.
  replace (N.to_nat (off + ln)) with (N.to_nat off + N.to_nat ln)%nat by lia.
  replace (N.to_nat (ln + N.of_nat (List.length data))) with (N.to_nat ln + List.length data)%nat by lia.
  replace (N.to_nat (off + ln + N.of_nat (List.length data))) with (N.to_nat off + N.to_nat ln + List.length data)%nat by lia.
  apply read_after_write_nat. lia.
Qed.

(* a region of the same array that ends before the write is untouched *)
Lemma read_before_write_nat (o l p : nat) (data arr : list N) :
  (o + l <= p)%nat -> (p <= List.length arr)%nat ->
  firstn l (skipn o (firstn p arr ++ data ++ skipn (p + List.length data) arr)) = firstn l (skipn o arr).
Proof.
  intros Hp Hq.
  rewrite skipn_app. rewrite firstn_length_le by lia.
  replace (o - p)%nat with 0%nat by lia. rewrite skipn_O.
  rewrite firstn_app. rewrite skipn_length, firstn_length_le by lia.
  replace (l - (p - o))%nat with 0%nat by lia. rewrite firstn_O, app_nil_r.
  rewrite skipn_firstn_comm, firstn_firstn. replace (Nat.min l (p - o)) with l by lia. reflexivity.
Qed.

Lemma read_before_write off ln pos data arr :
  off + ln <= pos -> pos <= len arr ->
  take ln (drop off (write_at pos data arr)) = take ln (drop off arr).
Proof.
  intros H1 H2. unfold write_at, take, drop, len in *.
  replace (N.to_nat (pos + N.of_nat (List.length data))) with (N.to_nat pos + List.length data)%nat by lia.
  apply read_before_write_nat; lia.
Qed.

Lemma read_fresh (pre data pad : list N) :
  take (len pre + len data) (drop 0 (pre ++ data ++ pad)) = pre ++ data.
Proof.
  rewrite drop_0, app_assoc. apply take_app_exact. now rewrite len_app.
Qed.

Lemma sl_read_len (h : owner * N -> list N) sl : len (sl_read h sl) <= sl_len sl.
Proof. unfold sl_read, take, len. rewrite firstn_length. lia. Qed.

Lemma sl_read_len_exact (h : owner * N -> list N) sl :
  sl_off sl + sl_len sl <= len (h (sl_arr sl)) -> len (sl_read h sl) = sl_len sl.
Proof. intros H. unfold sl_read. rewrite len_take; [reflexivity|]. rewrite len_drop. lia. Qed.

Lemma sl_read_nil (h : owner * N -> list N) : sl_read h sl_nil = [].
Proof. reflexivity. Qed.

Lemma sl_read_len0 (h : owner * N -> list N) sl : sl_len sl = 0 -> sl_read h sl = [].
Proof. intros H. unfold sl_read. now rewrite H. Qed.

Lemma skipn_add {A} (k o : nat) : forall a : list A, skipn (k + o) a = skipn k (skipn o a).
Proof.
  induction o as [|o IH]; intros a.
  - now rewrite Nat.add_0_r.
  - destruct a as [|x a]; [now rewrite !skipn_nil|].
    replace (k + S o)%nat with (S (k + o)) by lia. cbn [skipn]. apply IH.
Qed.

Lemma sl_read_reslice (h : owner * N -> list N) n sl : sl_read h (sl_reslice n sl) = drop n (sl_read h sl).
Proof.
  unfold sl_read, sl_reslice, take, drop. cbn [sl_arr sl_off sl_len].
  destruct (N.le_gt_cases n (sl_len sl)) as [Hle|Hgt].
  - rewrite N.min_l by lia.
    replace (N.to_nat (sl_off sl + n)) with (N.to_nat n + N.to_nat (sl_off sl))%nat by lia.
    replace (N.to_nat (sl_len sl - n)) with (N.to_nat (sl_len sl) - N.to_nat n)%nat by lia.
    rewrite skipn_firstn_comm. f_equal. apply skipn_add.
  - rewrite N.min_r by lia. replace (sl_len sl - sl_len sl) with 0 by lia.
    cbn [N.to_nat firstn]. rewrite skipn_all2; [reflexivity|]. rewrite firstn_length. lia.
Qed.

(* ---- 2. the ownership invariant ------------------------------------------------------------------ *)
(* a slice of session s: empty with no capacity, or inside an array the session allocated itself *)
Definition slice_own (s next : N) (h : owner * N -> list N) (sl : slice) : Prop :=
  (sl_cap sl = 0 /\ sl_len sl = 0) \/
  (exists k, sl_arr sl = (OOwned s, k) /\ k < next /\
             sl_off sl + sl_cap sl <= len (h (sl_arr sl)) /\ sl_len sl <= sl_cap sl).

Definition sess_inv (s : N) (h : owner * N -> list N) (ss : sess) : Prop :=
  slice_own s (ss_next ss) h (ss_buf ss) /\ slice_own s (ss_next ss) h (ss_code ss) /\
  (sl_arr (ss_buf ss) <> sl_arr (ss_code ss) \/ sl_cap (ss_buf ss) = 0 \/ sl_cap (ss_code ss) = 0).

Definition shared_intact (tbl : list (list N * list N)) (h : owner * N -> list N) : Prop :=
  forall k, h (OShared, k) = res_heap tbl (OShared, k).

Definition winv (tbl : list (list N * list N)) (w : world) : Prop :=
  shared_intact tbl (w_heap w) /\ forall s, sess_inv s (w_heap w) (w_sess w s).

(* only arrays owned by s differ between h and h' *)
Definition frame_for (s : N) (h h' : owner * N -> list N) : Prop :=
  forall a, (forall k, a <> (OOwned s, k)) -> h' a = h a.

Lemma slice_own_nil s next h : slice_own s next h sl_nil.
Proof. left. split; reflexivity. Qed.

Lemma slice_own_next s n n' h sl : n <= n' -> slice_own s n h sl -> slice_own s n' h sl.
Proof.
  intros Hn [H|(k & Ha & Hk & Hb & Hl)]; [left; exact H|].
  right. exists k. repeat split; try assumption. lia.
Qed.

Lemma slice_own_frame s t n h h' sl :
  t <> s -> frame_for s h h' -> slice_own t n h sl ->
  slice_own t n h' sl /\ sl_read h' sl = sl_read h sl.
Proof.
  intros Hts Hf [[Hc Hl]|(k & Ha & Hk & Hb & Hl)].
  - split; [left; split; assumption|]. now rewrite !sl_read_len0.
  - assert (E : h' (sl_arr sl) = h (sl_arr sl)).
    { apply Hf. intros k' Hk'. rewrite Ha in Hk'. inversion Hk'. contradiction. }
    split; [|unfold sl_read; now rewrite E].
    right. exists k. rewrite E. repeat split; assumption.
Qed.

Lemma res_read tbl h k rsl :
  shared_intact tbl h -> res_slice tbl k = Some rsl ->
  exists code, res_code tbl k = Some code /\ sl_read h rsl = code.
Proof.
  intros Hs Hr. unfold res_slice, res_code in *.
  destruct (res_entry tbl k) as [[code spare]|] eqn:E; [|discriminate].
  inversion Hr; subst rsl. exists code. split; [reflexivity|].
  unfold sl_read. cbn [sl_arr sl_off sl_len]. rewrite Hs. unfold res_heap. cbn [fst snd]. rewrite E.
  rewrite drop_0. now apply take_app_exact.
Qed.

Lemma res_none tbl k : res_slice tbl k = None -> res_code tbl k = None.
Proof. unfold res_slice, res_code. destruct (res_entry tbl k) as [[c s]|]; [discriminate|reflexivity]. Qed.

(* append on a slice the session owns, next to another slice it owns *)
Lemma append_sound s next (h : owner * N -> list N) sl ot data grow h' sl' wr used :
  slice_own s next h sl -> slice_own s next h ot ->
  (sl_arr sl <> sl_arr ot \/ sl_cap sl = 0 \/ sl_cap ot = 0) ->
  sl_append grow (OOwned s, next) h sl data = (h', sl', wr, used) ->
  slice_own s (if used then next + 1 else next) h' sl' /\
  slice_own s (if used then next + 1 else next) h' ot /\
  (sl_arr sl' <> sl_arr ot \/ sl_cap sl' = 0 \/ sl_cap ot = 0) /\
  sl_read h' sl' = sl_read h sl ++ data /\
  sl_read h' ot = sl_read h ot /\
  (forall a, In a wr -> exists k, a = (OOwned s, k)) /\
  frame_for s h h'.
Proof.
  intros Hsl Hot Hd Happ. unfold sl_append in Happ.
  destruct data as [|x data'] eqn:Edata.
  { inversion Happ; subst. rewrite app_nil_r.
    split; [assumption|]. split; [assumption|]. split; [assumption|].
    split; [reflexivity|]. split; [reflexivity|]. split; [intros a []|]. intros a _. reflexivity. }
  rewrite <- Edata in *. assert (Hdl : 0 < len data) by (rewrite Edata, len_cons; lia).
  clear Edata x data'.
  destruct (sl_len sl + len data <=? sl_cap sl) eqn:Ecap.
  - (* in place *)
    apply N.leb_le in Ecap. inversion Happ; subst h' sl' wr used. clear Happ.
    destruct Hsl as [[Hc Hl]|(k & Ha & Hk & Hb & Hl)]; [lia|].
    assert (Hw : len (write_at (sl_off sl + sl_len sl) data (h (sl_arr sl))) = len (h (sl_arr sl)))
      by (apply len_write_at; lia).
    set (h1 := h_set h (sl_arr sl) (write_at (sl_off sl + sl_len sl) data (h (sl_arr sl)))).
    assert (Hot' : slice_own s next h1 ot /\ sl_read h1 ot = sl_read h ot).
    { destruct Hot as [[Hc' Hl']|(k' & Ha' & Hk' & Hb' & Hl')].
      - split; [left; split; assumption|]. now rewrite !sl_read_len0.
      - destruct (N.eq_dec (sl_cap ot) 0) as [Hz|Hnz].
        + split; [left; split; lia|]. rewrite !sl_read_len0 by lia. reflexivity.
        + assert (Hne : sl_arr ot <> sl_arr sl) by (destruct Hd as [Hd|[Hd|Hd]]; [congruence|lia|lia]).
          split.
          * right. exists k'. unfold h1. rewrite h_set_other by assumption. repeat split; assumption.
          * unfold sl_read, h1. now rewrite h_set_other by assumption. }
    destruct Hot' as [Hot1 Hot2].
    repeat split.
    + right. exists k. cbn [sl_arr sl_off sl_len sl_cap]. unfold h1. rewrite h_set_same.
      repeat split; try assumption; lia.
    + exact Hot1.
    + cbn [sl_arr sl_cap]. destruct Hd as [Hd|[Hd|Hd]]; auto.
    + unfold sl_read at 1. cbn [sl_arr sl_off sl_len]. unfold h1. rewrite h_set_same.
      unfold sl_read. apply read_after_write. lia.
    + exact Hot2.
    + intros a [<-|[]]. exists k. exact Ha.
    + intros a Hna. unfold h1. apply h_set_other. rewrite Ha. apply Hna.
  - (* new array *)
    apply N.leb_gt in Ecap. inversion Happ; subst h' sl' wr used. clear Happ.
    set (need := sl_len sl + len data) in *.
    set (ncap := N.max need (grow (sl_cap sl) need)).
    set (h1 := h_set h (OOwned s, next) (sl_read h sl ++ data ++ rep 0 (ncap - need))).
    assert (Hrl : len (sl_read h sl) = sl_len sl).
    { destruct Hsl as [[Hc Hl]|(k & Ha & Hk & Hb & Hl)].
      - rewrite sl_read_len0 by assumption. rewrite Hl. reflexivity.
      - apply sl_read_len_exact. lia. }
    assert (Hot' : slice_own s (next + 1) h1 ot /\ sl_read h1 ot = sl_read h ot).
    { destruct Hot as [[Hc' Hl']|(k' & Ha' & Hk' & Hb' & Hl')].
      - split; [left; split; assumption|]. now rewrite !sl_read_len0.
      - assert (Hne : sl_arr ot <> (OOwned s, next)) by (rewrite Ha'; intros E; inversion E; lia).
        split.
        + right. exists k'. unfold h1. rewrite h_set_other by assumption. repeat split; try assumption. lia.
        + unfold sl_read, h1. now rewrite h_set_other by assumption. }
    destruct Hot' as [Hot1 Hot2].
    repeat split.
    + right. exists next. cbn [sl_arr sl_off sl_len sl_cap]. unfold h1. rewrite h_set_same.
      repeat split; try lia. rewrite !len_app, len_rep, Hrl. unfold need, ncap. lia.
    + exact Hot1.
    + cbn [sl_arr sl_cap].
      destruct Hot as [[Hc' Hl']|(k' & Ha' & Hk' & Hb' & Hl')]; [right; right; assumption|].
      left. rewrite Ha'. intros E. inversion E. lia.
    + unfold sl_read at 1. cbn [sl_arr sl_off sl_len]. unfold h1. rewrite h_set_same.
      unfold need. rewrite <- Hrl. apply read_fresh.
    + exact Hot2.
    + intros a [<-|[]]. exists next. reflexivity.
    + intros a Hna. unfold h1. apply h_set_other. apply Hna.
Qed.

Lemma frame_refl s (h : owner * N -> list N) : frame_for s h h.
Proof. intros a _. reflexivity. Qed.

(* one step of session s with a repaired operation *)
Lemma session_step_sound c s (h : owner * N -> list N) ss o h' ss' wr :
  op_repaired o = true ->
  shared_intact (sc_res c) h -> sess_inv s h ss ->
  session_step c s h ss o = (h', ss', wr) ->
  sess_inv s h' ss' /\
  sess_obs h' ss' = pure_step (sc_res c) (sess_obs h ss) o /\
  (forall a, In a wr -> exists k, a = (OOwned s, k)) /\
  frame_for s h h'.
Proof.
  intros Hrep Hsh (Hb & Hc & Hd) Hstep.
  destruct ss as [buf code next]. cbn [ss_buf ss_code ss_next] in *.
  unfold sess_obs. cbn [ss_buf ss_code].
  destruct o as [n|k|k|k|data| | |]; cbn [session_step ss_buf ss_code ss_next] in Hstep; try discriminate Hrep.
  - (* consume *)
    inversion Hstep; subst h' ss' wr. clear Hstep. unfold sess_inv; cbn [ss_buf ss_code ss_next pure_step].
    split; [|split; [|split; [intros a []|apply frame_refl]]].
    + split; [|split; [exact Hc|]].
      * destruct Hb as [[H1 H2]|(k & Ha & Hk & Hbd & Hl)].
        -- left. unfold sl_reslice. cbn [sl_cap sl_len]. lia.
        -- right. exists k. unfold sl_reslice. cbn [sl_arr sl_off sl_len sl_cap].
           repeat split; try assumption; lia.
      * unfold sl_reslice. cbn [sl_arr sl_cap]. destruct Hd as [Hd|[Hd|Hd]]; auto. right. left. lia.
    + now rewrite sl_read_reslice.
  - (* append from resource *)
    destruct (res_slice (sc_res c) k) as [rsl|] eqn:Er.
    + destruct (res_read _ _ _ _ Hsh Er) as (cd & Hcd & Hrd). rewrite Hrd in Hstep.
      destruct (sl_append (sc_grow c s next) (OOwned s, next) h buf cd) as [[[h1 b1] wr1] used] eqn:Ea.
      inversion Hstep; subst h' ss' wr. clear Hstep.
      destruct (append_sound _ _ _ _ _ _ _ _ _ _ _ Hb Hc Hd Ea) as (A1 & A2 & A3 & A4 & A5 & A6 & A7).
      unfold sess_inv; cbn [ss_buf ss_code ss_next pure_step]. rewrite Hcd.
      split; [split; [exact A1|split; [exact A2|exact A3]]|].
      split; [now rewrite A4, A5|]. split; assumption.
    + inversion Hstep; subst h' ss' wr. cbn [pure_step]. rewrite (res_none _ _ Er).
      split; [split; [exact Hb|split; [exact Hc|exact Hd]]|].
      split; [reflexivity|]. split; [intros a []|apply frame_refl].
  - (* replace from resource: copy *)
    destruct (res_slice (sc_res c) k) as [rsl|] eqn:Er.
    + destruct (res_read _ _ _ _ Hsh Er) as (cd & Hcd & Hrd). rewrite Hrd in Hstep. unfold sl_copy_fresh in Hstep.
      destruct (sl_append (sc_grow c s next) (OOwned s, next) h sl_nil cd) as [[[h1 b1] wr1] used] eqn:Ea.
      inversion Hstep; subst h' ss' wr. clear Hstep.
      assert (Hd0 : sl_arr sl_nil <> sl_arr code \/ sl_cap sl_nil = 0 \/ sl_cap code = 0) by (right; left; reflexivity).
      destruct (append_sound _ _ _ _ _ _ _ _ _ _ _ (slice_own_nil s next h) Hc Hd0 Ea) as (A1 & A2 & A3 & A4 & A5 & A6 & A7).
      unfold sess_inv; cbn [ss_buf ss_code ss_next pure_step]. rewrite Hcd.
      split; [split; [exact A1|split; [exact A2|exact A3]]|].
      split; [now rewrite A4, A5|]. split; assumption.
    + inversion Hstep; subst h' ss' wr. cbn [pure_step]. rewrite (res_none _ _ Er).
      split; [split; [exact Hb|split; [exact Hc|exact Hd]]|].
      split; [reflexivity|]. split; [intros a []|apply frame_refl].
  - (* replace by a freshly built line *)
    unfold sl_copy_fresh in Hstep.
    destruct (sl_append (sc_grow c s next) (OOwned s, next) h sl_nil data) as [[[h1 b1] wr1] used] eqn:Ea.
    inversion Hstep; subst h' ss' wr. clear Hstep.
    assert (Hd0 : sl_arr sl_nil <> sl_arr code \/ sl_cap sl_nil = 0 \/ sl_cap code = 0) by (right; left; reflexivity).
    destruct (append_sound _ _ _ _ _ _ _ _ _ _ _ (slice_own_nil s next h) Hc Hd0 Ea) as (A1 & A2 & A3 & A4 & A5 & A6 & A7).
    unfold sess_inv; cbn [ss_buf ss_code ss_next pure_step].
    split; [split; [exact A1|split; [exact A2|exact A3]]|].
    split; [now rewrite A4, A5|]. split; assumption.
  - (* store *)
    inversion Hstep; subst h' ss' wr. unfold sess_inv; cbn [ss_buf ss_code ss_next pure_step].
    split; [split; [apply slice_own_nil|split; [exact Hb|right; left; reflexivity]]|].
    split; [reflexivity|]. split; [intros a []|apply frame_refl].
  - (* take *)
    inversion Hstep; subst h' ss' wr. unfold sess_inv; cbn [ss_buf ss_code ss_next pure_step].
    split; [split; [exact Hc|split; [apply slice_own_nil|right; right; reflexivity]]|].
    split; [reflexivity|]. split; [intros a []|apply frame_refl].
  - (* decode *)
    unfold sl_copy_fresh in Hstep.
    destruct (sl_append (sc_grow c s next) (OOwned s, next) h sl_nil (sl_read h code)) as [[[h1 c1] wr1] used] eqn:Ea.
    inversion Hstep; subst h' ss' wr. clear Hstep.
    assert (Hd0 : sl_arr sl_nil <> sl_arr sl_nil \/ sl_cap sl_nil = 0 \/ sl_cap sl_nil = 0) by (right; left; reflexivity).
    destruct (append_sound _ _ _ _ _ _ _ _ _ _ _ (slice_own_nil s next h) (slice_own_nil s next h) Hd0 Ea)
      as (A1 & A2 & A3 & A4 & A5 & A6 & A7).
    unfold sess_inv; cbn [ss_buf ss_code ss_next pure_step].
    split; [split; [apply slice_own_nil|split; [exact A1|right; left; reflexivity]]|].
    split; [now rewrite A4|]. split; assumption.
Qed.

(* ---- 3. schedules ------------------------------------------------------------------------------------ *)
Definition wobs (w : world) (s : N) : list N * list N := sess_obs (w_heap w) (w_sess w s).

Definition pure_exec (tbl : list (list N * list N)) (p : list N * list N) (ops : list op) : list N * list N :=
  fold_left (pure_step tbl) ops p.

Definition writes_owned (e : tev) : Prop :=
  forall a, In a (te_writes e) -> exists k, a = (OOwned (te_sid e), k).

Lemma world_step_sound c w sid o w' e :
  op_repaired o = true -> winv (sc_res c) w -> world_step c w sid o = (w', e) ->
  winv (sc_res c) w' /\ te_sid e = sid /\
  te_obs e = pure_step (sc_res c) (wobs w sid) o /\ wobs w' sid = te_obs e /\
  (forall t, t <> sid -> wobs w' t = wobs w t) /\ writes_owned e.
Proof.
  intros Hrep [Hsh Hss] Hstep. unfold world_step in Hstep.
  destruct (session_step c sid (w_heap w) (w_sess w sid) o) as [[h' ss'] wr] eqn:Es.
  inversion Hstep; subst w' e. clear Hstep.
  destruct (session_step_sound _ _ _ _ _ _ _ _ Hrep Hsh (Hss sid) Es) as (I1 & I2 & I3 & I4).
  unfold wobs, writes_owned. cbn [w_heap w_sess te_sid te_obs te_writes].
  split; [split|].
  - intros k. rewrite I4; [apply Hsh|]. intros k' Hk'. discriminate Hk'.
  - intros t. cbn [w_heap w_sess]. unfold sess_set. destruct (t =? sid) eqn:Et.
    + apply N.eqb_eq in Et. subst t. exact I1.
    + apply N.eqb_neq in Et. destruct (Hss t) as (Hb & Hc & Hd).
      destruct (slice_own_frame _ _ _ _ _ _ Et I4 Hb) as [Hb' _].
      destruct (slice_own_frame _ _ _ _ _ _ Et I4 Hc) as [Hc' _].
      split; [exact Hb'|split; [exact Hc'|exact Hd]].
  - split; [reflexivity|]. split; [exact I2|]. split.
    + unfold sess_set. now rewrite N.eqb_refl.
    + split; [|exact I3]. intros t Ht. unfold sess_set.
      replace (t =? sid) with false by (symmetry; now apply N.eqb_neq).
      destruct (Hss t) as (Hb & Hc & _). unfold sess_obs.
      destruct (slice_own_frame _ _ _ _ _ _ Ht I4 Hb) as [_ ->].
      destruct (slice_own_frame _ _ _ _ _ _ Ht I4 Hc) as [_ ->]. reflexivity.
Qed.

(* any interleaving, any number of sessions: the trace of every session is the value-semantics
   trace of its own operations; the invariant is kept; every write goes to an array of the writer *)
Lemma run_refines c : forall sched w w' tr,
  sched_repaired sched = true -> winv (sc_res c) w -> run_sched c w sched = (w', tr) ->
  winv (sc_res c) w' /\
  (forall s, obs_of s tr = pure_run (sc_res c) (wobs w s) (map snd (sched_of s sched))) /\
  (forall s, wobs w' s = pure_exec (sc_res c) (wobs w s) (map snd (sched_of s sched))) /\
  Forall writes_owned tr.
Proof.
  induction sched as [|[sid o] r IH]; intros w w' tr Hrep Hinv Hrun.
  - inversion Hrun; subst. split; [exact Hinv|]. split; [reflexivity|]. split; [reflexivity|constructor].
  - cbn [run_sched] in Hrun. cbn [sched_repaired forallb snd] in Hrep. apply andb_true_iff in Hrep as [Ho Hr].
    destruct (world_step c w sid o) as [w1 e] eqn:E1.
    destruct (run_sched c w1 r) as [w2 es] eqn:E2.
    inversion Hrun; subst w' tr. clear Hrun.
    destruct (world_step_sound _ _ _ _ _ _ Ho Hinv E1) as (J1 & J2 & J3 & J4 & J5 & J6).
    destruct (IH _ _ _ Hr J1 E2) as (K1 & K2 & K2' & K3).
    split; [exact K1|]. split; [|split; [|constructor; assumption]].
    + intros s. unfold obs_of, sched_of. cbn [filter fst]. rewrite J2.
      destruct (sid =? s) eqn:Es.
      * apply N.eqb_eq in Es. subst s. cbn [map snd pure_run te_obs].
        rewrite <- J3. f_equal. fold (obs_of sid es). rewrite K2. now rewrite J4.
      * apply N.eqb_neq in Es. fold (obs_of s es). rewrite K2. rewrite J5 by congruence. reflexivity.
    + intros s. rewrite K2'. unfold sched_of. cbn [filter fst].
      destruct (sid =? s) eqn:Es.
      * apply N.eqb_eq in Es. subst s. cbn [map snd]. unfold pure_exec. cbn [fold_left].
        now rewrite J4, J3.
      * apply N.eqb_neq in Es. rewrite J5 by congruence. reflexivity.
Qed.

Lemma winv_init tbl : winv tbl (world_init tbl).
Proof.
  split; [intros k; reflexivity|]. intros s. cbn [world_init w_sess w_heap sess_init].
  split; [apply slice_own_nil|split; [apply slice_own_nil|right; left; reflexivity]].
Qed.

Lemma sched_of_idem s sched : sched_of s (sched_of s sched) = sched_of s sched.
Proof.
  unfold sched_of. induction sched as [|p r IH]; [reflexivity|]. cbn [filter].
  destruct (fst p =? s) eqn:E; [cbn [filter]; rewrite E; now f_equal|exact IH].
Qed.

Lemma sched_of_repaired s sched : sched_repaired sched = true -> sched_repaired (sched_of s sched) = true.
Proof.
  unfold sched_repaired, sched_of. rewrite !forallb_forall. intros H p Hp. apply filter_In in Hp as [Hp _]. auto.
Qed.

(* the two runs may even use different growth functions *)
Lemma noninterference c c' w sched s :
  sc_res c' = sc_res c -> winv (sc_res c) w -> sched_repaired sched = true ->
  obs_of s (snd (run_sched c w sched)) = obs_of s (snd (run_sched c' w (sched_of s sched))).
Proof.
  intros Hres Hinv Hrep.
  destruct (run_sched c w sched) as [w1 t1] eqn:E1.
  destruct (run_sched c' w (sched_of s sched)) as [w2 t2] eqn:E2. cbn [snd].
  destruct (run_refines c _ _ _ _ Hrep Hinv E1) as (_ & R1 & _ & _).
  rewrite <- Hres in Hinv.
  destruct (run_refines c' _ _ _ _ (sched_of_repaired s _ Hrep) Hinv E2) as (_ & R2 & _ & _).
  rewrite R1, R2, sched_of_idem, Hres. reflexivity.
Qed.

Lemma no_write_to_shared c w sched :
  winv (sc_res c) w -> sched_repaired sched = true ->
  Forall writes_owned (snd (run_sched c w sched)) /\
  shared_intact (sc_res c) (w_heap (fst (run_sched c w sched))).
Proof.
  intros Hinv Hrep. destruct (run_sched c w sched) as [w1 t1] eqn:E1.
  destruct (run_refines c _ _ _ _ Hrep Hinv E1) as ([R0 _] & _ & _ & R2). cbn [fst snd]. split; assumption.
Qed.

(* ---- 4. request-level interleaving -------------------------------------------------------------------- *)
Lemma of_sid_cons {A : Type} sid t (x : A) l :
  of_sid sid ((t, x) :: l) = if t =? sid then x :: of_sid sid l else of_sid sid l.
Proof. unfold of_sid. cbn [filter fst]. destruct (t =? sid); reflexivity. Qed.

Lemma serve_noninterference {S I O : Type} (f : S -> I -> S * O) : forall sched (w : N -> S) sid,
  of_sid sid (snd (serve f w sched)) = snd (serve_solo f (w sid) (of_sid sid sched)) /\
  fst (serve f w sched) sid = fst (serve_solo f (w sid) (of_sid sid sched)).
Proof.
  induction sched as [|[t i] r IH]; intros w sid; [split; reflexivity|].
  cbn [serve]. rewrite of_sid_cons.
  destruct (f (w t) i) as [s' o] eqn:Ef.
  destruct (serve f (fun u => if u =? t then s' else w u) r) as [w2 os] eqn:Es.
  specialize (IH (fun u => if u =? t then s' else w u) sid). rewrite Es in IH. cbn [fst snd] in IH.
  cbn [fst snd]. rewrite of_sid_cons.
  destruct (t =? sid) eqn:Et.
  - apply N.eqb_eq in Et. subst t. rewrite N.eqb_refl in IH.
    cbn [serve_solo]. rewrite Ef.
    destruct (serve_solo f s' (of_sid sid r)) as [s2 os2] eqn:E2. cbn [fst snd] in *.
    destruct IH as [IH1 IH2]. split; [now rewrite IH1|exact IH2].
  - replace (sid =? t) with false in IH by (symmetry; apply N.eqb_neq; apply N.eqb_neq in Et; congruence).
    exact IH.
Qed.

(* ---- 5. VmModel's handlers and the trace language ------------------------------------------------------- *)
Definition suffix (r b : list N) : Prop := exists pre, b = pre ++ r.

Lemma suffix_refl b : suffix b b.
Proof. exists []. reflexivity. Qed.
Lemma suffix_cons x r b : suffix r b -> suffix r (x :: b).
Proof. intros [p ->]. exists (x :: p). reflexivity. Qed.
Lemma suffix_trans a b c : suffix a b -> suffix b c -> suffix a c.
Proof. intros [p ->] [q ->]. exists (q ++ p). now rewrite app_assoc. Qed.
Lemma suffix_drop r b : suffix r b -> exists n, r = drop n b /\ n <= len b.
Proof. intros [p ->]. exists (len p). split; [now rewrite drop_app_exact|rewrite len_app; lia]. Qed.
Lemma suffix_of_drop n (b : list N) : suffix (drop n b) b.
Proof. exists (take n b). unfold take, drop. now rewrite firstn_skipn. Qed.

Lemma strict_sym_suffix b s r : strict_sym b = Some (s, r) -> suffix r b.
Proof.
  destruct b as [|sz r0]; cbn [strict_sym]; [discriminate|].
  destruct ((sz =? 0) || (len r0 <? sz)); [discriminate|]. intros H. inversion H; subst.
  apply suffix_cons, suffix_of_drop.
Qed.
Lemma strict_int_suffix b n r : strict_int b = Some (n, r) -> suffix r b.
Proof.
  destruct b as [|l r0]; cbn [strict_int]; [discriminate|].
  destruct ((4 <? l) || (len r0 <? l)); [discriminate|]. intros H. inversion H; subst.
  apply suffix_cons, suffix_of_drop.
Qed.
Lemma strict_mode_suffix b m r : strict_mode b = Some (m, r) -> suffix r b.
Proof. destruct b as [|x r0]; cbn [strict_mode]; [discriminate|]. intros H. inversion H; subst. apply suffix_cons, suffix_refl. Qed.

Lemma strict_one_suffix b i r : strict_one b = Some (i, r) -> suffix r b.
Proof.
  destruct b as [|h [|l r0]]; cbn [strict_one]; try discriminate. cbv zeta.
  intros H. apply suffix_cons, suffix_cons.
  repeat match type of H with
  | context [if ?c then _ else _] => destruct c
  end;
  repeat match type of H with
  | context [match strict_sym ?x with _ => _ end] =>
    let E := fresh "E" in destruct (strict_sym x) as [[? ?]|] eqn:E; [apply strict_sym_suffix in E|discriminate H]
  | context [match strict_int ?x with _ => _ end] =>
    let E := fresh "E" in destruct (strict_int x) as [[? ?]|] eqn:E; [apply strict_int_suffix in E|discriminate H]
  | context [match strict_mode ?x with _ => _ end] =>
    let E := fresh "E" in destruct (strict_mode x) as [[? ?]|] eqn:E; [apply strict_mode_suffix in E|discriminate H]
  end; try discriminate H; inversion H; subst;
  eauto using suffix_refl, suffix_trans.
Qed.

(* OpConsume: decoding one instruction hands on a suffix of the code *)
Lemma decode_consumes b op b1 i b2 :
  op_split b = Ok (op, b1) -> parse_args op b1 = Ok (i, b2) -> exists n, b2 = drop n b /\ n <= len b.
Proof.
  intros H1 H2. apply suffix_drop. apply (strict_one_suffix b i). apply decode_one_strict.
  unfold decode_one. rewrite H1. cbn [obind]. exact H2.
Qed.

(* what one handler can do to the code it is handed (value semantics), in the trace language *)
Inductive buf_effect (rs : rsrc) (b b' : list N) : Prop :=
| BeKeep : b' = b -> buf_effect rs b b'                                   (* no operation *)
| BeEmpty : b' = [] -> buf_effect rs b b'                                 (* OpReplaceFresh [] (CROAK) *)
| BeAppend sym c : rs_code rs sym = Ok c -> b' = b ++ c -> buf_effect rs b b'   (* OpAppendFromResource *)
| BeReplace sym c : rs_code rs sym = Ok c -> b' = c -> buf_effect rs b b'.      (* OpReplaceFromResource *)

Ltac dm H :=
  repeat match type of H with
  | context [match ?x with _ => _ end] => destruct x eqn:?
  | context [if ?x then _ else _] => destruct x eqn:?
  end.

Lemma fetch_code_snd rs sym v : snd (fetch_code rs sym v) = rs_code rs sym.
Proof. reflexivity. Qed.

Lemma run_catch_buf rs sym sig mode b v v' b' s :
  run_catch rs sym sig mode b v = (v', b', s) ->
  b' = b \/ exists nsym c, rs_code rs nsym = Ok c /\ b' = c.
Proof.
  unfold run_catch. intros H.
  destruct (match_flag (v_st v) sig mode) as [[|]|e|n]; try (inversion H; subst; now left).
  destruct (apply_target sym (v_st v) (v_ca v)) as [[[st' ca'] nsym] s0].
  destruct s0; try (inversion H; subst; now left).
  match type of H with context [fetch_code ?r ?n ?x] =>
    pose proof (fetch_code_snd r n x) as Hf; destruct (fetch_code r n x) as [v2 c0] end.
  cbn [snd] in Hf. subst c0.
  destruct (rs_code rs nsym) as [code|e|n] eqn:Ec; inversion H; subst; [right; eauto|now left|now left].
Qed.

Lemma run_move_buf rs sep sym b v v' b' s :
  run_move rs sep sym b v = (v', b', s) ->
  b' = b \/ exists nsym c, rs_code rs nsym = Ok c /\ b' = b ++ c.
Proof.
  unfold run_move. intros H.
  destruct (apply_target sym (v_st v) (v_ca v)) as [[[st' ca'] nsym] s0].
  destruct s0; try (inversion H; subst; now left).
  match type of H with context [fetch_code ?r ?n ?x] =>
    pose proof (fetch_code_snd r n x) as Hf; destruct (fetch_code r n x) as [v2 c0] end.
  cbn [snd] in Hf. subst c0.
  destruct (rs_code rs nsym) as [code|e|n] eqn:Ec; inversion H; subst; [right; eauto|now left|now left].
Qed.

Lemma run_incmp_buf rs sep dest sel b v v' b' s :
  run_incmp rs sep dest sel b v = (v', b', s) ->
  b' = b \/ exists nsym c, rs_code rs nsym = Ok c /\ b' = b ++ c.
Proof.
  unfold run_incmp. intros H.
  destruct (getf (v_st v) FLAG_INMATCH && getf (v_st v) FLAG_READIN); [inversion H; subst; now left|].
  cbv zeta in H.
  match type of H with context [s_input ?x] => destruct (s_input x) as [input|] end;
    [|inversion H; subst; now left].
  match type of H with context [if ?c then _ else _] => destruct c end; [|inversion H; subst; now left].
  match type of H with context [apply_target ?a ?b ?c] => destruct (apply_target a b c) as [[[st' ca'] nsym] s0] end.
  destruct s0 as [|e msg|n|]; try (inversion H; subst; now left).
  - match type of H with context [fetch_code ?r ?n ?x] =>
      pose proof (fetch_code_snd r n x) as Hf; destruct (fetch_code r n x) as [v3 c0] end.
    cbn [snd] in Hf. subst c0.
    destruct (rs_code rs nsym) as [code|e|n] eqn:Ec; inversion H; subst; [right; eauto|now left|now left].
  - destruct e; inversion H; subst; now left.
Qed.

Lemma exec_instr_buf rs sep lang i b v v' b' s :
  exec_instr rs sep lang i b v = (v', b', s) -> buf_effect rs b b'.
Proof.
  destruct i; cbn [exec_instr]; intros H.
  - inversion H; subst. now apply BeKeep.
  - apply run_catch_buf in H. destruct H as [->|(n & c & Hc & ->)]; [now apply BeKeep|eapply BeReplace; eauto].
  - unfold run_croak in H. dm H; inversion H; subst; first [now apply BeKeep|now apply BeEmpty].
  - unfold run_load in H. destruct (cache_get (v_ca v) sym); try (inversion H; subst; now apply BeKeep).
    destruct (refresh rs lang sym v) as [[v1 content] s1].
    destruct s1; try (inversion H; subst; now apply BeKeep).
    dm H; inversion H; subst; now apply BeKeep.
  - unfold run_reload in H. destruct (refresh rs lang sym v) as [[v1 content] s1].
    destruct s1; try (inversion H; subst; now apply BeKeep).
    destruct (cache_update_raw (v_ca v1) sym content) as [ca' x].
    dm H; inversion H; subst; now apply BeKeep.
  - unfold run_map in H. dm H; inversion H; subst; now apply BeKeep.
  - apply run_move_buf in H. destruct H as [->|(n & c & Hc & ->)]; [now apply BeKeep|eapply BeAppend; eauto].
  - inversion H; subst. now apply BeKeep.
  - apply run_incmp_buf in H. destruct H as [->|(n & c & Hc & ->)]; [now apply BeKeep|eapply BeAppend; eauto].
  - inversion H; subst. now apply BeKeep.
  - inversion H; subst. now apply BeKeep.
  - inversion H; subst. now apply BeKeep.
  - inversion H; subst. now apply BeKeep.
Qed.

(* closure: everything the trace language can do to a buffer, in value semantics *)
Inductive buf_reach (rs : rsrc) : list N -> list N -> Prop :=
| BrRefl b : buf_reach rs b b
| BrConsume b n b' : buf_reach rs (drop n b) b' -> buf_reach rs b b'
| BrAppend b sym c b' : rs_code rs sym = Ok c -> buf_reach rs (b ++ c) b' -> buf_reach rs b b'
| BrReplace b sym c b' : rs_code rs sym = Ok c -> buf_reach rs c b' -> buf_reach rs b b'
| BrFresh b d b' : d = [] \/ d = move_catch_code -> buf_reach rs d b' -> buf_reach rs b b'.

Lemma buf_reach_effect rs b b1 b' : buf_effect rs b b1 -> buf_reach rs b1 b' -> buf_reach rs b b'.
Proof.
  intros [->| -> |sym c Hc ->|sym c Hc ->] Hr.
  - exact Hr.
  - eapply BrFresh; [left; reflexivity|exact Hr].
  - eapply BrAppend; eauto.
  - eapply BrReplace; eauto.
Qed.

Lemma dead_check_buf v v3 b4 s3 : dead_check v = (v3, b4, s3) -> b4 = [] \/ b4 = move_catch_code.
Proof. unfold dead_check. intros H. dm H; inversion H; subst; auto. Qed.

Lemma op_split_suffix b op b1 : op_split b = Ok (op, b1) -> exists n, b1 = drop n b.
Proof.
  intros H. apply op_split_shape in H. destruct H as (h & l & -> & _ & _). exists 2. reflexivity.
Qed.

(* Run, whatever the program and the state: the code it returns is obtained from the code it was
   given by operations of the trace language only *)
Lemma run_buf_reach rs sep : forall fuel lang b v v' b' s,
  run fuel rs sep lang b v = (v', b', s) -> buf_reach rs b b'.
Proof.
  induction fuel as [|fuel IH]; intros lang b v v' b' s H; cbn [run] in H.
  { inversion H; subst. apply BrRefl. }
  destruct (getf (v_st v) FLAG_TERMINATE).
  { inversion H; subst. eapply BrFresh; [left; reflexivity|apply BrRefl]. }
  cbv zeta in H.
  destruct (op_split b) as [[op b1]|e|n] eqn:Eop; try (inversion H; subst; apply BrRefl).
  destruct (op_split_suffix _ _ _ Eop) as [n1 Hb1].
  assert (Hstep : forall v1 b2 s1 vv,
    buf_reach rs b b2 ->
    (if op =? op_HALT then (v1, b2, s1) else
       let '(v2, b3, s2) :=
         match s1 with
         | SErr e msg =>
           let v2 := set_page_err v1 msg in
           if getf (v_st v2) FLAG_LOADFAIL && negb (bytes_eqb (where_sym (v_st v2)) catch_sym)
           then (v2, move_catch_code, SOk) else (v2, b2, s1)
         | _ => (v1, b2, s1)
         end in
       match s2 with
       | SOk =>
         match b3 with
         | [] =>
           let '(v3, b4, s3) := dead_check v2 in
           match s3 with
           | SOk => match b4 with [] => (v3, [], SOk) | _ => run fuel rs sep vv b4 v3 end
           | _ => (v3, b4, s3)
           end
         | _ => run fuel rs sep vv b3 v2
         end
       | _ => (v2, b3, s2)
       end) = (v', b', s) -> buf_reach rs b b').
  { intros v1 b2 s1 vv Hr Hx.
    assert (Htr : forall x y, buf_reach rs b x -> buf_reach rs x y -> buf_reach rs b y).
    { clear. intros x y H1. induction H1; intros H2; [exact H2|..].
      - eapply BrConsume; eauto.
      - eapply BrAppend; eauto.
      - eapply BrReplace; eauto.
      - eapply BrFresh; eauto. }
    destruct (op =? op_HALT); [inversion Hx; subst; exact Hr|].
    assert (Hmid : forall v2 b3 s2,
      buf_reach rs b b3 ->
      match s2 with
      | SOk =>
        match b3 with
        | [] =>
          let '(v3, b4, s3) := dead_check v2 in
          match s3 with
          | SOk => match b4 with [] => (v3, [], SOk) | _ => run fuel rs sep vv b4 v3 end
          | _ => (v3, b4, s3)
          end
        | _ => run fuel rs sep vv b3 v2
        end
      | _ => (v2, b3, s2)
      end = (v', b', s) -> buf_reach rs b b').
    { intros v2 b3 s2 Hr3 Hy.
      destruct s2; try (inversion Hy; subst; exact Hr3).
      destruct b3 as [|x b3'].
      - destruct (dead_check v2) as [[v3 b4] s3] eqn:Ed.
        apply dead_check_buf in Ed.
        assert (Hr4 : buf_reach rs b b4).
        { apply (Htr [] b4 Hr3). eapply BrFresh; [exact Ed|apply BrRefl]. }
        destruct s3; try (inversion Hy; subst; exact Hr4).
        destruct b4 as [|y b4']; [inversion Hy; subst; exact Hr4|].
        apply IH in Hy. exact (Htr _ _ Hr4 Hy).
      - apply IH in Hy. exact (Htr _ _ Hr3 Hy). }
    destruct s1 as [|e msg|n|].
    - exact (Hmid v1 b2 SOk Hr Hx).
    - cbv zeta in Hx.
      destruct (getf (v_st (set_page_err v1 msg)) FLAG_LOADFAIL && negb (bytes_eqb (where_sym (v_st (set_page_err v1 msg))) catch_sym)).
      + exact (Hmid (set_page_err v1 msg) move_catch_code SOk (Htr _ _ Hr (BrFresh rs b2 move_catch_code _ (or_intror eq_refl) (BrRefl rs _))) Hx).
      + exact (Hmid (set_page_err v1 msg) b2 (SErr e msg) Hr Hx).
    - exact (Hmid v1 b2 (SPanic n) Hr Hx).
    - exact (Hmid v1 b2 SFuel Hr Hx). }
  destruct (parse_args op b1) as [[i b2]|e|n] eqn:Epa.
  - destruct (exec_instr rs sep (if getf (v_st v) FLAG_LANG then match s_lang (resetf (v_st v) FLAG_LANG) with Some l => Some l | None => lang end else lang) i b2) as [[v1 b2'] s1] eqn:Eex in H.
    apply exec_instr_buf in Eex.
    destruct (decode_consumes _ _ _ _ _ Eop Epa) as (n2 & Hb2 & _).
    refine (Hstep v1 b2' s1 _ _ H).
    apply (BrConsume rs b n2). rewrite <- Hb2. exact (buf_reach_effect _ _ _ _ Eex (BrRefl rs _)).
  - refine (Hstep _ b1 (SErr EGen None) _ _ H).
    apply (BrConsume rs b n1). rewrite <- Hb1. apply BrRefl.
  - inversion H as [[Hv Hb Hs]]. rewrite <- Hb. apply (BrConsume rs b n1). rewrite <- Hb1. apply BrRefl.
Qed.

(* ... and therefore a run of repaired operations of model/SliceHeap.v, for every resource table that
   holds the application's code (whatever the spare capacities) *)

Definition covers (rs : rsrc) (tbl : list (list N * list N)) : Prop :=
  forall sym c, rs_code rs sym = Ok c -> exists k, res_code tbl k = Some c.

Lemma run_is_op_trace rs tbl code : covers rs tbl -> forall b b',
  buf_reach rs b b' ->
  exists ops, forallb op_repaired ops = true /\ pure_exec tbl (b, code) ops = (b', code).
Proof.
  intros Hcov b b' H. induction H as [b|b n b' _ IH|b sym c b' Hc _ IH|b sym c b' Hc _ IH|b d b' Hd _ IH].
  - exists []. split; reflexivity.
  - destruct IH as (ops & H1 & H2). exists (OpConsume n :: ops). split; [exact H1|exact H2].
  - destruct IH as (ops & H1 & H2). destruct (Hcov _ _ Hc) as [k Hk].
    exists (OpAppendFromResource k :: ops). split; [exact H1|].
    unfold pure_exec. cbn [fold_left pure_step]. rewrite Hk. exact H2.
  - destruct IH as (ops & H1 & H2). destruct (Hcov _ _ Hc) as [k Hk].
    exists (OpReplaceFromResource k :: ops). split; [exact H1|].
    unfold pure_exec. cbn [fold_left pure_step]. rewrite Hk. exact H2.
  - destruct IH as (ops & H1 & H2). exists (OpReplaceFresh d :: ops). split; [exact H1|exact H2].
Qed.

(* the table of an application: node k = k-th entry of a_code, any spare capacity per node *)
Definition tbl_of (a : app) (sp : list N -> list N) : list (list N * list N) :=
  map (fun kv => (snd kv, sp (fst kv))) (a_code a).

Lemma tbl_of_covers a sp : covers (app_rsrc a) (tbl_of a sp).
Proof.
  unfold covers, tbl_of, app_rsrc. cbn [rs_code]. intros sym c.
  induction (a_code a) as [|[k v] l IH]; cbn [alookup]; [discriminate|].
  destruct (bytes_eqb sym k).
  - intros H. inversion H; subst. exists 0. reflexivity.
  - intros H. destruct (IH H) as [i Hi]. exists (i + 1).
    unfold res_code, res_entry in *. replace (N.to_nat (i + 1)) with (S (N.to_nat i)) by lia. exact Hi.
Qed.

(* composition: a Run of the VmModel on value-semantics code b, replayed on the slice heap by session s
   while any other sessions do anything repaired in between, leaves s with exactly the code the
   VmModel computed *)
Lemma vm_run_on_heap a sp c fuel sep lang b code v v' b' st :
  sc_res c = tbl_of a sp ->
  run fuel (app_rsrc a) sep lang b v = (v', b', st) ->
  exists ops, forallb op_repaired ops = true /\
    forall w s sched w' tr,
      winv (sc_res c) w -> wobs w s = (b, code) ->
      sched_repaired sched = true -> map snd (sched_of s sched) = ops ->
      run_sched c w sched = (w', tr) -> wobs w' s = (b', code).
Proof.
  intros Hres Hrun. apply run_buf_reach in Hrun.
  destruct (run_is_op_trace _ _ code (tbl_of_covers a sp) _ _ Hrun) as (ops & H1 & H2).
  exists ops. split; [exact H1|].
  intros w s sched w' tr Hinv Hobs Hrep Hops Hsched.
  destruct (run_refines c _ _ _ _ Hrep Hinv Hsched) as (_ & _ & R & _).
  rewrite R, Hops, Hobs, Hres. exact H2.
Qed.

(* the request functions of EngineModel see one session's engine / store and the immutable resource:
   serving any interleaving of requests gives every session the responses and the final state it gets alone *)
Lemma requests_long_noninterfering fuel rs cf sched (w : N -> engine) sid :
  of_sid sid (snd (serve (request_long fuel rs cf) w sched))
  = snd (serve_solo (request_long fuel rs cf) (w sid) (of_sid sid sched)) /\
  fst (serve (request_long fuel rs cf) w sched) sid
  = fst (serve_solo (request_long fuel rs cf) (w sid) (of_sid sid sched)).
Proof. apply serve_noninterference. Qed.

Lemma requests_persisted_noninterfering fuel rs cf sched (w : N -> pworld) sid :
  of_sid sid (snd (serve (request_persisted fuel rs cf) w sched))
  = snd (serve_solo (request_persisted fuel rs cf) (w sid) (of_sid sid sched)) /\
  fst (serve (request_persisted fuel rs cf) w sched) sid
  = fst (serve_solo (request_persisted fuel rs cf) (w sid) (of_sid sid sched)).
Proof. apply serve_noninterference. Qed.

(* ---- 6. the pre-repair CATCH (OpAdopt): two sessions, one goroutine ------------------------------------ *)
(* node 0: three bytes of code and eight bytes of spare capacity (0xEE); nodes 1 and 2: two bytes each *)
Definition adopt_tbl : list (list N * list N) := [([9; 9; 9], rep 238 8); ([1; 1], []); ([2; 2], [])].
Definition adopt_cfg : scfg := mkScfg (fun _ _ _ need => 2 * need) adopt_tbl.
(* both sessions CATCH to node 0, then each MOVEs on (1 to node 1, 2 to node 2), then 1 decodes on *)
Definition adopt_sched : list (N * op) :=
  [(1, OpAdopt 0); (2, OpAdopt 0); (1, OpAppendFromResource 1); (2, OpAppendFromResource 2); (1, OpConsume 3)].

Lemma adopt_refuted :
  exists c w sched s,
    winv (sc_res c) w /\ sched_repaired sched = false /\
    (* session s reads other bytes than when it runs alone *)
    obs_of s (snd (run_sched c w sched)) <> obs_of s (snd (run_sched c w (sched_of s sched))) /\
    last (obs_of s (snd (run_sched c w sched))) ([], []) = ([2; 2], []) /\
    last (obs_of s (snd (run_sched c w (sched_of s sched)))) ([], []) = ([1; 1], []) /\
    (* and a write has landed in a shared array *)
    w_heap (fst (run_sched c w sched)) (OShared, 0) <> res_heap (sc_res c) (OShared, 0).
Proof.
  exists adopt_cfg, (world_init adopt_tbl), adopt_sched, 1.
  split; [apply winv_init|]. split; [reflexivity|].
  split; [intros H; vm_compute in H; discriminate H|].
  split; [vm_compute; reflexivity|]. split; [vm_compute; reflexivity|].
  intros H; vm_compute in H; discriminate H.
Qed.

(* the same schedule with the repaired CATCH *)
Definition repaired_sched : list (N * op) :=
  [(1, OpReplaceFromResource 0); (2, OpReplaceFromResource 0); (1, OpAppendFromResource 1);
   (2, OpAppendFromResource 2); (1, OpConsume 3); (3, OpReplaceFresh [7; 7]); (1, OpStore); (2, OpConsume 4);
   (3, OpAppendFromResource 0); (1, OpTake); (1, OpAppendFromResource 2); (1, OpDecodeFresh)].

Lemma repaired_example :
  sched_repaired repaired_sched = true /\
  obs_of 1 (snd (run_sched adopt_cfg (world_init adopt_tbl) repaired_sched))
  = [([9; 9; 9], []); ([9; 9; 9; 1; 1], []); ([1; 1], []); ([], [1; 1]); ([1; 1], []); ([1; 1; 2; 2], []); ([], [])] /\
  obs_of 2 (snd (run_sched adopt_cfg (world_init adopt_tbl) repaired_sched))
  = [([9; 9; 9], []); ([9; 9; 9; 2; 2], []); ([2], [])] /\
  (* steps 3 and 4: the appends of sessions 1 and 2 are IN PLACE (the copy made by CATCH had room), each in
     its own array; step 11 does not fit any more and moves session 1 to its second array *)
  map te_writes (snd (run_sched adopt_cfg (world_init adopt_tbl) repaired_sched))
  = [[(OOwned 1, 0)]; [(OOwned 2, 0)]; [(OOwned 1, 0)]; [(OOwned 2, 0)]; []; [(OOwned 3, 0)]; []; [];
     [(OOwned 3, 1)]; []; [(OOwned 1, 1)]; []] /\
  w_heap (fst (run_sched adopt_cfg (world_init adopt_tbl) repaired_sched)) (OShared, 0) = [9; 9; 9] ++ rep 238 8.
Proof. vm_compute. repeat split; reflexivity. Qed.
