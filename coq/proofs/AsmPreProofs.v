(* AsmPreProofs.v — lemmas for the flag preprocessor of the assembler command (C16):
   preprocessing a source of documented form yields the source with the flag names replaced by
   the numbers of the table, or is refused; composition with AsmProofs. *)
From Coq Require Import Lia ZArith.
From Coq Require Import ZifyN ZifyNat ZifyBool.
From Vise Require Import Bytes Errors Consts Codec BytesProofs CodecProofs AsmModel AsmProofs AsmPreModel.
Local Open Scope N_scope.

(* ---- the preprocessor's lexer: a documented argument is one token, its own text ---------- *)

Lemma pp_lex_fuel_nil f : pp_lex_fuel f [] = Some [].
Proof. destruct f; reflexivity. Qed.

Lemma pp_lex_upper c r : is_upper c = true -> pp_lex (c :: r) = None.
Proof. intros H. unfold pp_lex. cbn [List.length pp_lex_fuel]. rewrite H. reflexivity. Qed.

Lemma pp_lex_sym_word c r :
  is_upper c = false -> is_digit c = false -> is_sym_start c = true -> forallb is_word r = true ->
  pp_lex (c :: r) = Some [c :: r].
Proof.
  intros Hu Hd Hs Hr. unfold pp_lex. cbn [List.length pp_lex_fuel]. rewrite Hu, Hd, Hs.
  rewrite span_all by exact Hr. rewrite pp_lex_fuel_nil. reflexivity.
Qed.

Lemma pp_lex_numfirst c r :
  is_digit c = true -> forallb is_alnum r = true -> pp_lex (c :: r) = Some [c :: r].
Proof.
  intros Hd Hr. unfold pp_lex. cbn [List.length pp_lex_fuel].
  assert (Hu : is_upper c = false) by (unfold is_upper, is_digit in *; lia).
  rewrite Hu, Hd. rewrite span_all by exact Hr. rewrite pp_lex_fuel_nil. reflexivity.
Qed.

Definition arg_single (a : list N) : Prop := pp_lex a = None \/ pp_lex a = Some [a].

Lemma single_sym a : is_sym_text a = true -> arg_single a.
Proof.
  destruct a as [|c r]; cbn [is_sym_text]; [discriminate|].
  intros H. apply andb_true_iff in H as [Hc Hr].
  destruct (is_upper c) eqn:Hu; [left; apply pp_lex_upper; exact Hu|right].
  apply pp_lex_sym_word; [exact Hu| | |exact Hr].
  - unfold is_alpha, is_upper, is_lower, is_digit in *. lia.
  - unfold is_sym_start. rewrite Hc. reflexivity.
Qed.

Lemma single_node a : is_node_text a = true -> arg_single a.
Proof.
  unfold is_node_text. intros H. apply orb_true_iff in H as [H|H]; [apply single_sym; exact H|].
  destruct a as [|c [|d r]]; cbn [is_special_node] in H; try discriminate.
  right. apply pp_lex_sym_word; [| | |reflexivity];
    unfold is_upper, is_digit, is_sym_start, is_alpha, is_lower in *; lia.
Qed.

Lemma digit_alnum x : is_digit x = true -> is_alnum x = true.
Proof. unfold is_alnum. intros ->. apply orb_true_r. Qed.

Lemma single_num a : is_num_text a = true -> pp_lex a = Some [a].
Proof.
  intros H. destruct (num_text_cons a H) as [c [r [-> [Hc Hr]]]].
  apply pp_lex_numfirst; [exact Hc|]. eapply forallb_impl; [exact digit_alnum|exact Hr].
Qed.

(* no guard: NumFirst takes a selector such as 1a or 00 whole *)
Lemma single_sel a : is_selector_text a = true -> arg_single a.
Proof.
  unfold is_selector_text. intros H. apply orb_true_iff in H as [H|H].
  - apply bytes_eqb_eq in H. subst a. right. reflexivity.
  - apply andb_true_iff in H as [Hne Hal]. destruct a as [|c r]; [discriminate Hne|].
    cbn [forallb] in Hal. apply andb_true_iff in Hal as [Hc Hr].
    destruct (is_upper c) eqn:Hu; [left; apply pp_lex_upper; exact Hu|right].
    destruct (is_digit c) eqn:Hd; [apply pp_lex_numfirst; assumption|].
    apply pp_lex_sym_word; [exact Hu|exact Hd| |].
    + unfold is_sym_start. unfold is_alnum in Hc. rewrite Hd, orb_false_r in Hc. rewrite Hc. reflexivity.
    + eapply forallb_impl; [exact alnum_word|exact Hr].
Qed.

Lemma single_mode a : is_mode_text a = true -> arg_single a.
Proof. unfold is_mode_text. intros H. apply andb_true_iff in H as [H _]. right. apply single_num, H. Qed.

Lemma pp_lex_args_single args t :
  Forall arg_single args -> pp_lex_args args = Some t -> t = args.
Proof.
  intros H. revert t. induction H as [|a r Ha Hr IH]; intros t Ht; cbn [pp_lex_args] in Ht.
  - inversion Ht. reflexivity.
  - destruct Ha as [E|E]; rewrite E in Ht; [discriminate|].
    destruct (pp_lex_args r) as [t'|]; [|discriminate]. inversion Ht. rewrite (IH t' eq_refl). reflexivity.
Qed.

Lemma pp_front_line_single op args x :
  Forall arg_single args -> pp_front_line (L op args) = Some x -> x = (op, args).
Proof.
  intros H. unfold pp_front_line. cbn [l_op l_args]. destruct (opword_ok op); [|discriminate].
  destruct (pp_lex_args args) as [t|] eqn:E; [|discriminate].
  rewrite (pp_lex_args_single args t H E). destruct (3 <? len args); [discriminate|].
  intros Hx. inversion Hx. reflexivity.
Qed.

(* ---- the arguments of a documented line -------------------------------------------------- *)

Definition line_valid (l : line) : Prop :=
  (exists i, plain_instr l = Some i) \/ (exists pq, batch_instrs l = Some pq).

Ltac bool_hyps :=
  repeat match goal with
  | H : (_ && _) = true |- _ => apply andb_true_iff in H; destruct H
  end.

Ltac solve_single :=
  first [apply single_node; assumption | apply single_node, sym_is_node; assumption
        | apply single_sel; assumption | apply single_mode; assumption
        | right; apply single_num; assumption | apply single_sym; assumption].
Ltac all_single := repeat (apply Forall_cons; [solve_single|]); apply Forall_nil.

Lemma plain_args_single l i : plain_instr l = Some i -> Forall arg_single (l_args l).
Proof.
  destruct l as [op args]. unfold plain_instr. cbn [l_op l_args].
  destruct args as [|a [|b [|c [|d args]]]]; intros H; [constructor| | | |discriminate];
    repeat match type of H with
      | (if ?c then _ else _) = _ => let E := fresh "E" in destruct c eqn:E
      end; try discriminate; bool_hyps; all_single.
Qed.

Lemma batch_args_single l pq : batch_instrs l = Some pq -> Forall arg_single (l_args l).
Proof.
  destruct l as [op args]. unfold batch_instrs. cbn [l_op l_args].
  destruct args as [|a [|b [|c [|d args]]]]; intros H; try discriminate.
  - destruct (is_selector_text a && is_sym_text b) eqn:E; [|discriminate]. bool_hyps. all_single.
  - destruct (opis "DOWN" op && is_sym_text a && is_selector_text b && is_sym_text c) eqn:E; [|discriminate].
    bool_hyps. all_single.
Qed.

Lemma valid_args_single l : line_valid l -> Forall arg_single (l_args l).
Proof. intros [[i H]|[pq H]]; [eapply plain_args_single|eapply batch_args_single]; exact H. Qed.

Lemma batch_all_valid ls pq : batch_all ls = Some pq -> Forall line_valid ls.
Proof.
  revert pq. induction ls as [|l r IH]; intros pq H; [constructor|].
  cbn [batch_all] in H. destruct (batch_instrs l) as [[p q]|] eqn:El; [|discriminate].
  destruct (batch_all r) as [[ps qs]|] eqn:Er; [|discriminate].
  constructor; [right; eexists; exact El|eapply IH; reflexivity].
Qed.

Lemma valid_lines src p : expand_opt src = Some p -> Forall line_valid src.
Proof.
  revert p. induction src as [|l r IH]; intros p H; [constructor|].
  cbn [expand_opt] in H. destruct (plain_instr l) as [i|] eqn:Ep.
  - destruct (expand_opt r) as [p'|] eqn:Er; [|discriminate].
    constructor; [left; eexists; exact Ep|eapply IH; reflexivity].
  - destruct (batch_all (l :: r)) as [pq|] eqn:Eb; [|discriminate]. eapply batch_all_valid; exact Eb.
Qed.

(* ---- Atoi on the documented argument classes ----------------------------------------------- *)

Lemma atoi_sym b : is_sym_text b = true -> atoi b = None.
Proof.
  destruct b as [|c r]; [discriminate|]. cbn [is_sym_text]. intros H. apply andb_true_iff in H as [Hc _].
  unfold atoi. destruct (N.eqb_spec c 43) as [->|_]; [discriminate Hc|].
  destruct (N.eqb_spec c 45) as [->|_]; [discriminate Hc|].
  assert (Hd : is_digit c = false) by (unfold is_alpha, is_upper, is_lower, is_digit in *; lia).
  cbn [forallb]. rewrite Hd. rewrite andb_false_r. reflexivity.
Qed.

Lemma num_not_sym b : is_num_text b = true -> is_sym_text b = false.
Proof.
  intros H. destruct (num_text_cons b H) as [c [r [-> [Hc _]]]]. cbn [is_sym_text].
  assert (Ha : is_alpha c = false) by (unfold is_alpha, is_upper, is_lower, is_digit in *; lia).
  rewrite Ha. reflexivity.
Qed.

Lemma atoi_num b : is_num_text b = true -> dec_value b < 2 ^ 63 -> atoi b = Some (false, dec_value b).
Proof.
  intros H Hlt. pose proof H as Hn. destruct (num_text_cons b H) as [c [r [-> [Hc Hr]]]].
  unfold atoi.
  destruct (N.eqb_spec c 43) as [->|_]; [discriminate Hc|].
  destruct (N.eqb_spec c 45) as [->|_]; [discriminate Hc|].
  unfold is_num_text in Hn. rewrite Hn. unfold dec_value in *.
  rewrite N.add_0_r. destruct (N.ltb_spec (digs_val 10 (c :: r)) (2 ^ 63)); [reflexivity|lia].
Qed.

(* ---- the table ------------------------------------------------------------------------------ *)

Lemma bytes_eqb_sym a b : bytes_eqb a b = bytes_eqb b a.
Proof.
  destruct (bytes_eqb a b) eqn:E.
  - apply bytes_eqb_eq in E. subst. symmetry. apply bytes_eqb_refl.
  - destruct (bytes_eqb b a) eqn:E'; [|reflexivity]. apply bytes_eqb_eq in E'. subst.
    rewrite bytes_eqb_refl in E. discriminate.
Qed.

Lemma load_rows_valid rows : forall acc,
  valid_rows rows = true -> names_are_symbols acc ->
  exists tbl, load_rows rows acc = Ok tbl /\ names_are_symbols tbl
    /\ forall k, alookup k tbl = match spec_lookup rows k with Some v => Some v | None => alookup k acc end.
Proof.
  induction rows as [|r rest IH]; intros acc Hv Hacc.
  - exists acc. cbn. auto.
  - cbn [valid_rows forallb] in Hv. apply andb_true_iff in Hv as [Hr Hrest].
    assert (Hrow : exists f n v tl, r = f :: n :: v :: tl /\ bytes_eqb f flag_word = true /\ is_sym_text n = true
              /\ is_num_text v = true /\ FLAG_USERSTART <= dec_value v /\ dec_value v < 2 ^ 32).
    { unfold valid_row in Hr. destruct r as [|f [|n [|v [|d [|e tl]]]]]; try discriminate; bool_hyps;
        (exists f, n, v; eexists; split; [reflexivity|]);
        repeat split; auto; try (apply N.leb_le; assumption); apply N.ltb_lt; assumption. }
    destruct Hrow as [f [n [v [tl [-> [Hf [Hn [Hnum [Hge Hlt]]]]]]]]].
    cbn [load_rows]. rewrite Hf.
    rewrite (atoi_num v Hnum) by (change (2 ^ 32) with 4294967296 in Hlt; change (2 ^ 63) with 9223372036854775808; lia).
    cbn [orb]. destruct (N.ltb_spec (dec_value v) FLAG_USERSTART) as [Hc|_]; [lia|].
    assert (Hacc' : names_are_symbols ((n, v) :: acc)).
    { intros k w Hk. cbn [alookup] in Hk. destruct (bytes_eqb k n) eqn:E.
      - apply bytes_eqb_eq in E. subst k. exact Hn.
      - eapply Hacc. exact Hk. }
    destruct (IH ((n, v) :: acc) Hrest Hacc') as [tbl [Hl [Hs Hk]]].
    exists tbl. split; [exact Hl|]. split; [exact Hs|]. intros k. rewrite Hk.
    cbn [spec_lookup]. destruct (spec_lookup rest k); [reflexivity|].
    rewrite Hf. cbn [andb alookup]. rewrite (bytes_eqb_sym n k). destruct (bytes_eqb k n); reflexivity.
Qed.

Lemma load_table_valid rows :
  valid_rows rows = true ->
  exists tbl, load_table rows = Ok tbl /\ names_are_symbols tbl
    /\ forall k, alookup k tbl = spec_lookup rows k.
Proof.
  intros Hv. destruct (load_rows_valid rows [] Hv) as [tbl [Hl [Hs Hk]]]; [intros k v H; discriminate H|].
  exists tbl. split; [exact Hl|]. split; [exact Hs|]. intros k. rewrite Hk. destruct (spec_lookup rows k); reflexivity.
Qed.

(* ---- the two instructions with a flag argument ---------------------------------------------- *)

Lemma catch_shape args :
  line_valid (L (s2b "CATCH") args) ->
  exists a b c, args = [a; b; c] /\ is_node_text a = true /\ is_num_text b = true /\ is_mode_text c = true.
Proof.
  intros [[i H]|[pq H]].
  - unfold plain_instr in H. cbn [l_op l_args] in H.
    destruct args as [|a [|b [|c [|d args]]]]; try discriminate H.
    change (opis "CATCH" (s2b "CATCH")) with true in H. cbv iota in H.
    destruct (is_node_text a) eqn:Ha; [|discriminate]. destruct (is_num_text b) eqn:Hb; [|discriminate].
    destruct (is_mode_text c) eqn:Hc; [|discriminate]. exists a, b, c. auto.
  - unfold batch_instrs in H. cbn [l_op l_args] in H.
    destruct args as [|a [|b [|c [|d args]]]]; try discriminate H.
    destruct (is_selector_text a && is_sym_text b); discriminate H.
Qed.

Lemma croak_shape args :
  line_valid (L (s2b "CROAK") args) ->
  exists b c, args = [b; c] /\ is_num_text b = true /\ is_mode_text c = true.
Proof.
  intros [[i H]|[pq H]].
  - unfold plain_instr in H. cbn [l_op l_args] in H.
    destruct args as [|a [|b [|c [|d args]]]]; try discriminate H.
    change (opis "CROAK" (s2b "CROAK")) with true in H. cbv iota in H.
    destruct (is_num_text a) eqn:Ha; [|discriminate]. destruct (is_mode_text b) eqn:Hb; [|discriminate].
    exists a, b. auto.
  - unfold batch_instrs in H. cbn [l_op l_args] in H.
    destruct args as [|a [|b [|c [|d args]]]]; try discriminate H.
    destruct (is_selector_text a && is_sym_text b); discriminate H.
Qed.

Definition tlook (tbl : list (list N * list N)) : list N -> option (list N) := fun k => alookup k tbl.

(* the flag argument: Err, or the text the specification puts in its place *)
Lemma process_flag_spec tbl b c s :
  names_are_symbols tbl ->
  is_num_text b = true \/ is_sym_text b = true ->
  (exists e, process_flag tbl (Some b) (Some c) s = Err e)
  \/ (is_num_text b = true /\ process_flag tbl (Some b) (Some c) s = Ok (s ++ [b; c])%list)
  \/ (exists v, is_num_text b = false /\ alookup b tbl = Some v
        /\ process_flag tbl (Some b) (Some c) s = Ok (s ++ [v; c])%list).
Proof.
  intros Hn [Hb|Hb]; unfold process_flag; cbn [deref].
  - destruct (atoi b); [right; left; auto|].
    destruct (alookup b tbl) as [v|] eqn:E; [|left; eexists; reflexivity].
    pose proof (Hn b v E) as Hs. rewrite (num_not_sym b Hb) in Hs. discriminate.
  - rewrite (atoi_sym b Hb).
    assert (Hnum : is_num_text b = false).
    { destruct (is_num_text b) eqn:E; [|reflexivity]. rewrite (num_not_sym b E) in Hb. discriminate. }
    destruct (alookup b tbl) as [v|] eqn:E; [|left; eexists; reflexivity].
    right; right. exists v. auto.
Qed.

Lemma pp_line_spec tbl l ld x :
  names_are_symbols tbl ->
  resolve_line (with_default (tlook tbl)) l = Some ld -> line_valid ld ->
  pp_front_line l = Some x ->
  (exists e, pp_line tbl x = Err e)
  \/ (exists l2, pp_line tbl x = Ok l2 /\ resolve_line (tlook tbl) l = Some l2).
Proof.
  intros Hn Hres Hv Hf. destruct l as [op args]. unfold resolve_line in *.
  destruct (flag_pos (L op args)) as [[b mk]|] eqn:Efp.
  - unfold flag_pos in Efp. cbn [l_op l_args] in Efp.
    destruct args as [|a0 [|a1 [|a2 [|a3 args]]]]; try discriminate Efp.
    + (* CROAK flag mode *)
      destruct (opis "CROAK" op) eqn:Eop; [|discriminate]. inversion Efp; subst b mk. opname Eop.
      assert (Hcls : (is_num_text a0 = true \/ is_sym_text a0 = true) /\ exists v, ld = L (s2b "CROAK") [v; a1]).
      { destruct (is_num_text a0) eqn:Enum.
        - inversion Hres. split; [left; reflexivity|]. exists a0. reflexivity.
        - unfold with_default, tlook in Hres. destruct (alookup a0 tbl) as [v|] eqn:E.
          + inversion Hres. split; [right; eapply Hn; exact E|]. exists v. reflexivity.
          + destruct (is_sym_text a0) eqn:Es; [|discriminate]. inversion Hres.
            split; [right; reflexivity|]. eexists. reflexivity. }
      destruct Hcls as [Hcl [v ->]].
      destruct (croak_shape _ Hv) as [b' [c' [Heq [_ Hmode]]]]. inversion Heq; subst b' c'.
      assert (Hsing : Forall arg_single [a0; a1]).
      { apply Forall_cons; [destruct Hcl as [H|H]; [right; apply single_num|apply single_sym]; exact H|].
        apply Forall_cons; [apply single_mode; exact Hmode|apply Forall_nil]. }
      rewrite (pp_front_line_single _ _ _ Hsing Hf).
      unfold pp_line. change (bytes_eqb (s2b "CROAK") (s2b "CATCH")) with false.
      change (bytes_eqb (s2b "CROAK") (s2b "CROAK")) with true. cbv iota. cbn [nth_error].
      destruct (process_flag_spec tbl a0 a1 [] Hn Hcl) as [[e He]|[[Hnum He]|[w [Hnum [Hl He]]]]]; rewrite He; cbn [obind app].
      * left. eexists. reflexivity.
      * right. eexists. split; [reflexivity|]. rewrite Hnum. reflexivity.
      * right. eexists. split; [reflexivity|]. rewrite Hnum. unfold tlook. rewrite Hl. reflexivity.
    + (* CATCH node flag mode *)
      destruct (opis "CATCH" op) eqn:Eop; [|discriminate]. inversion Efp; subst b mk. opname Eop.
      assert (Hcls : (is_num_text a1 = true \/ is_sym_text a1 = true) /\ exists v, ld = L (s2b "CATCH") [a0; v; a2]).
      { destruct (is_num_text a1) eqn:Enum.
        - inversion Hres. split; [left; reflexivity|]. exists a1. reflexivity.
        - unfold with_default, tlook in Hres. destruct (alookup a1 tbl) as [v|] eqn:E.
          + inversion Hres. split; [right; eapply Hn; exact E|]. exists v. reflexivity.
          + destruct (is_sym_text a1) eqn:Es; [|discriminate]. inversion Hres.
            split; [right; reflexivity|]. eexists. reflexivity. }
      destruct Hcls as [Hcl [v ->]].
      destruct (catch_shape _ Hv) as [a' [b' [c' [Heq [Hnode [_ Hmode]]]]]]. inversion Heq; subst a' b' c'.
      assert (Hsing : Forall arg_single [a0; a1; a2]).
      { apply Forall_cons; [apply single_node; exact Hnode|].
        apply Forall_cons; [destruct Hcl as [H|H]; [right; apply single_num|apply single_sym]; exact H|].
        apply Forall_cons; [apply single_mode; exact Hmode|apply Forall_nil]. }
      rewrite (pp_front_line_single _ _ _ Hsing Hf).
      unfold pp_line. change (bytes_eqb (s2b "CATCH") (s2b "CATCH")) with true. cbv iota. cbn [nth_error].
      destruct (process_flag_spec tbl a1 a2 [a0] Hn Hcl) as [[e He]|[[Hnum He]|[w [Hnum [Hl He]]]]]; rewrite He; cbn [obind app].
      * left. eexists. reflexivity.
      * right. eexists. split; [reflexivity|]. rewrite Hnum. reflexivity.
      * right. eexists. split; [reflexivity|]. rewrite Hnum. unfold tlook. rewrite Hl. reflexivity.
  - (* no flag argument: the line passes *)
    inversion Hres; subst ld. right.
    rewrite (pp_front_line_single _ _ _ (valid_args_single _ Hv) Hf).
    unfold pp_line. destruct args as [|one rest]; [eexists; split; reflexivity|].
    destruct (bytes_eqb op (s2b "CATCH")) eqn:E1.
    { apply bytes_eqb_eq in E1. subst op. destruct (catch_shape _ Hv) as [a [b [c [Heq _]]]].
      rewrite Heq in Efp. discriminate Efp. }
    destruct (bytes_eqb op (s2b "CROAK")) eqn:E2.
    { apply bytes_eqb_eq in E2. subst op. destruct (croak_shape _ Hv) as [b [c [Heq _]]].
      rewrite Heq in Efp. discriminate Efp. }
    eexists. split; reflexivity.
Qed.

(* ---- whole sources ---------------------------------------------------------------------------- *)

Lemma pp_lines_spec tbl : forall src srcd xs,
  names_are_symbols tbl ->
  resolve (with_default (tlook tbl)) src = Some srcd -> Forall line_valid srcd ->
  pp_front src = Some xs ->
  (exists e, pp_lines tbl xs = Err e)
  \/ (exists s2, pp_lines tbl xs = Ok s2 /\ resolve (tlook tbl) src = Some s2).
Proof.
  induction src as [|l r IH]; intros srcd xs Hn Hres Hv Hf.
  - cbn in Hf. inversion Hf. right. exists []. split; reflexivity.
  - cbn [resolve] in Hres. destruct (resolve_line (with_default (tlook tbl)) l) as [ld|] eqn:El; [|discriminate].
    destruct (resolve (with_default (tlook tbl)) r) as [rd|] eqn:Er; [|discriminate].
    inversion Hres; subst srcd. inversion Hv as [|? ? Hvl Hvr]; subst.
    cbn [pp_front] in Hf. destruct (pp_front_line l) as [x|] eqn:Ex; [|discriminate].
    destruct (pp_front r) as [xr|] eqn:Exr; [|discriminate]. inversion Hf; subst xs.
    cbn [pp_lines resolve].
    destruct (pp_line_spec tbl l ld x Hn El Hvl Ex) as [[e He]|[l2 [He Hl2]]]; rewrite He; cbn [obind].
    + left. eexists. reflexivity.
    + destruct (IH rd xr Hn eq_refl Hvr eq_refl) as [[e Hr]|[s2 [Hr Hs2]]]; rewrite Hr; cbn [obind].
      * left. eexists. reflexivity.
      * right. exists (l2 :: s2). rewrite Hl2, Hs2. split; reflexivity.
Qed.

Lemma resolve_line_default look l l1 :
  resolve_line look l = Some l1 -> resolve_line (with_default look) l = Some l1.
Proof.
  unfold resolve_line, with_default. destruct (flag_pos l) as [[b mk]|]; [|auto].
  destruct (is_num_text b); [auto|]. destruct (look b); [auto|discriminate].
Qed.

Lemma resolve_default look : forall src s1,
  resolve look src = Some s1 -> resolve (with_default look) src = Some s1.
Proof.
  induction src as [|l r IH]; intros s1 H; [exact H|].
  cbn [resolve] in *. destruct (resolve_line look l) as [l1|] eqn:El; [|discriminate].
  destruct (resolve look r) as [r1|] eqn:Er; [|discriminate].
  rewrite (resolve_line_default _ _ _ El), (IH r1 eq_refl). exact H.
Qed.

Lemma resolve_ext look1 look2 : (forall k, look1 k = look2 k) -> forall src, resolve look1 src = resolve look2 src.
Proof.
  intros He. induction src as [|l r IH]; [reflexivity|]. cbn [resolve]. rewrite IH.
  assert (Hl : resolve_line look1 l = resolve_line look2 l).
  { unfold resolve_line. destruct (flag_pos l) as [[b mk]|]; [|reflexivity]. rewrite He. reflexivity. }
  rewrite Hl. reflexivity.
Qed.

Lemma with_default_ext look1 look2 : (forall k, look1 k = look2 k) -> forall k, with_default look1 k = with_default look2 k.
Proof. intros He k. unfold with_default. rewrite He. reflexivity. Qed.

Lemma valid_src_lines src : valid_src src -> Forall line_valid src.
Proof.
  unfold valid_src, valid_srcb. destruct src as [|l r]; [discriminate|].
  destruct (expand_opt (l :: r)) as [p|] eqn:E; [|discriminate]. intros _. eapply valid_lines. exact E.
Qed.

(* preprocessing a source that has the documented form once its names are replaced yields exactly
   that source *)
Theorem pp_run_fidelity_lemma tbl src src1 src2 :
  names_are_symbols tbl ->
  resolve (tlook tbl) src = Some src1 -> valid_src src1 ->
  pp_run tbl src = Ok src2 -> src2 = src1.
Proof.
  intros Hn Hres Hv Hrun. unfold pp_run in Hrun. destruct (pp_front src) as [xs|] eqn:Ef; [|discriminate].
  destruct (pp_lines_spec tbl src src1 xs Hn (resolve_default _ _ _ Hres) (valid_src_lines _ Hv) Ef)
    as [[e He]|[s2 [He Hs2]]]; rewrite He in Hrun; [discriminate|].
  inversion Hrun; subst s2. rewrite Hres in Hs2. inversion Hs2. reflexivity.
Qed.

(* a source of documented form that uses a name the table does not define is refused: an error,
   never a panic, never a translated source *)
Theorem pp_unknown_refused_lemma tbl src srcd :
  names_are_symbols tbl ->
  resolve (tlook tbl) src = None ->
  resolve (with_default (tlook tbl)) src = Some srcd -> valid_src srcd ->
  exists e, pp_run tbl src = Err e.
Proof.
  intros Hn Hnone Hd Hv. unfold pp_run. destruct (pp_front src) as [xs|] eqn:Ef; [|eexists; reflexivity].
  destruct (pp_lines_spec tbl src srcd xs Hn Hd (valid_src_lines _ Hv) Ef) as [[e He]|[s2 [He Hs2]]].
  - exists e. exact He.
  - rewrite Hnone in Hs2. discriminate.
Qed.

(* ---- the command: table file, source file, standard output, exit status ------------------------ *)

Lemma cmd_plain_ok src out : cmd_plain src = (out, 0) -> asm src = Ok out.
Proof.
  unfold cmd_plain, asm. destruct (asm_run src) as [w [u|e|s]]; cbn [exit_code]; intros H; inversion H; reflexivity.
Qed.

Theorem cmd_pre_fidelity_lemma rows src src1 out :
  valid_rows rows = true ->
  resolve (spec_lookup rows) src = Some src1 -> valid_src src1 ->
  lossless_selectors src1 = true -> short_syms src1 = true -> decimal_sizes src1 = true ->
  cmd_pre rows src = (out, 0) ->
  parse_all out = Ok (expand src1).
Proof.
  intros Hrows Hres Hv H1 H2 H3 Hcmd.
  destruct (load_table_valid rows Hrows) as [tbl [Hl [Hn Hk]]].
  unfold cmd_pre in Hcmd. rewrite Hl in Hcmd.
  assert (Hres' : resolve (tlook tbl) src = Some src1).
  { rewrite (resolve_ext (tlook tbl) (spec_lookup rows)); [exact Hres|exact Hk]. }
  destruct (pp_run tbl src) as [src2|e|s] eqn:Erun; [|inversion Hcmd|inversion Hcmd].
  rewrite (pp_run_fidelity_lemma tbl src src1 src2 Hn Hres' Hv Erun) in Hcmd.
  apply cmd_plain_ok in Hcmd. apply asm_fidelity_partial_lemma; assumption.
Qed.

Theorem cmd_pre_unknown_refused_lemma rows src srcd :
  valid_rows rows = true ->
  resolve (spec_lookup rows) src = None ->
  resolve (with_default (spec_lookup rows)) src = Some srcd -> valid_src srcd ->
  cmd_pre rows src = ([], 1).
Proof.
  intros Hrows Hnone Hd Hv.
  destruct (load_table_valid rows Hrows) as [tbl [Hl [Hn Hk]]].
  unfold cmd_pre. rewrite Hl.
  assert (Hnone' : resolve (tlook tbl) src = None).
  { rewrite (resolve_ext (tlook tbl) (spec_lookup rows)); [exact Hnone|exact Hk]. }
  assert (Hd' : resolve (with_default (tlook tbl)) src = Some srcd).
  { rewrite (resolve_ext (with_default (tlook tbl)) (with_default (spec_lookup rows))); [exact Hd|].
    apply with_default_ext. exact Hk. }
  destruct (pp_unknown_refused_lemma tbl src srcd Hn Hnone' Hd' Hv) as [e He]. rewrite He. reflexivity.
Qed.

(* the repository's example: examples/preprocessor/pp.csv and root.vis *)
Local Open Scope string_scope.
Definition pp_csv : list (list (list N)) :=
  [map s2b ["flag"; "foo"; "8"];
   map s2b ["flag"; "bar"; "10"; "and this is the description of the flag 'bar'"];
   map s2b ["flag"; "baz"; "12"]].
Definition root_vis : list line :=
  [LS "CROAK" ["baz"; "1"]; LS "CATCH" ["last"; "bar"; "1"]; LS "CATCH" ["first"; "foo"; "0"];
   LS "LOAD" ["flag_schmag"; "0"]; LS "MOVE" ["mid"]].

Lemma pre_example :
  valid_rows pp_csv = true
  /\ resolve (spec_lookup pp_csv) root_vis
     = Some [LS "CROAK" ["12"; "1"]; LS "CATCH" ["last"; "10"; "1"]; LS "CATCH" ["first"; "8"; "0"];
             LS "LOAD" ["flag_schmag"; "0"]; LS "MOVE" ["mid"]]
  /\ (exists out, cmd_pre pp_csv root_vis = (out, 0%N)
        /\ parse_all out = Ok [ICroak 12 true; ICatch (s2b "last") 10 true; ICatch (s2b "first") 8 false;
                                ILoad (s2b "flag_schmag") 0; IMove (s2b "mid")])
  /\ cmd_pre pp_csv [LS "CATCH" ["last"; "nope"; "1"]] = ([], 1%N)
  /\ cmd_plain root_vis = ([], 1%N).
Proof. vm_compute. repeat split. eexists. split; reflexivity. Qed.
