(* ContinueProofs.v — C08, last clause: "... and the session can still be saved, loaded and
   CONTINUED" (agent safety, follow-up).  Persisted operation, no entry function: a stored session
   without pending code and with TERMINATE clear — whatever else it contains — is restarted at
   the entry node by the next accepted request: init unwinds the position, injects MOVE <root>,
   the move succeeds on the empty stack and the first code fetched is the root's.

   Part 1  the event log only grows (every handler, run, render, flush)
   Part 2  what init leaves: empty stack, TERMINATE clear, pending code = MOVE <root>
   Part 3  the first step of run on MOVE <root> over an empty stack
   Part 4  the request; histories *)
From Coq Require Import Lia ZifyN ZifyNat ZifyBool.
From Vise Require Import Bytes Errors Consts EngConsts Codec CacheModel StateModel NavModel NavSpec RenderModel
  VmModel EngineModel BytesProofs CodecProofs NavProofs VmProofs EngineProofs CorrBase EngineCorr EngineMon SafetyProofs.
Local Open Scope N_scope.

(* ================================================================================== *)
(* Part 1 — the log only grows                                                         *)
(* ================================================================================== *)
Definition lg (v v' : vmst) : Prop := exists l, v_log v' = l ++ v_log v.
Lemma lg_refl v : lg v v. Proof. exists []. reflexivity. Qed.
Lemma lg_trans a b c : lg a b -> lg b c -> lg a c.
Proof. intros [l1 H1] [l2 H2]. exists (l2 ++ l1). rewrite H2, H1, app_assoc. reflexivity. Qed.
Lemma lg0 a b c : lg a b -> v_log c = v_log b -> lg a c.
Proof. intros [l H] E. exists l. congruence. Qed.
Lemma lg1 a b c e : lg a b -> v_log c = e :: v_log b -> lg a c.
Proof. intros [l H] E. exists (e :: l). rewrite E, H. reflexivity. Qed.
Lemma lg2 a b c e1 e2 : lg a b -> v_log c = e1 :: e2 :: v_log b -> lg a c.
Proof. intros [l H] E. exists (e1 :: e2 :: l). rewrite E, H. reflexivity. Qed.
Lemma lg3 a b c e1 e2 e3 : lg a b -> v_log c = e1 :: e2 :: e3 :: v_log b -> lg a c.
Proof. intros [l H] E. exists (e1 :: e2 :: e3 :: l). rewrite E, H. reflexivity. Qed.

Ltac lgs :=
  cbn [fst snd];
  solve [ eapply lg0; [first [eassumption|apply lg_refl]|reflexivity]
        | eapply lg1; [first [eassumption|apply lg_refl]|reflexivity]
        | eapply lg2; [first [eassumption|apply lg_refl]|reflexivity]
        | eapply lg3; [first [eassumption|apply lg_refl]|reflexivity] ].

Lemma refresh_lg rs lang key v : lg v (fst (fst (refresh rs lang key v))).
Proof.
  unfold refresh. destruct (rs_func rs key); [|lgs]. destruct (nth_fres _ _); [|lgs]. cbv zeta.
  destruct (fr_fail _); [lgs|].
  destruct (apply_flags false _ _); [|lgs|lgs]. destruct (apply_flags true _ _); lgs.
Qed.

Lemma fetch_lg rs sym v : lg v (fst (fetch_code rs sym v)).
Proof. unfold fetch_code. destruct (rs_observed rs); lgs. Qed.

Lemma run_catch_lg rs sym sig mode b v : lg v (fst (fst (run_catch rs sym sig mode b v))).
Proof.
  unfold run_catch. destruct (match_flag _ _ _) as [[|]|e|n]; try lgs.
  destruct (apply_target _ _ _) as [[[st' ca'] nsym] s]. destruct s; try lgs.
  match goal with |- context [fetch_code rs nsym ?vv] =>
    pose proof (fetch_lg rs nsym vv) as F; destruct (fetch_code rs nsym vv) as [v2 c] end.
  cbn [fst] in F. assert (F' : lg v v2) by (eapply lg_trans; [|exact F]; lgs).
  destruct c; lgs.
Qed.

Lemma run_croak_lg sep sig mode b v : lg v (fst (fst (run_croak sep sig mode b v))).
Proof. unfold run_croak. destruct (match_flag _ _ _) as [[|]|e|n]; lgs. Qed.

Lemma run_load_lg rs lang sym sz b v : lg v (fst (fst (run_load rs lang sym sz b v))).
Proof.
  unfold run_load. destruct (cache_get _ _); try lgs.
  pose proof (refresh_lg rs lang sym v) as R. destruct (refresh rs lang sym v) as [[v1 content] s]. cbn [fst] in R.
  destruct s; try lgs. destruct (cache_add _ _ _ _) as [ca'|e'|n]; try lgs. destruct e'; lgs.
Qed.

Lemma run_reload_lg rs lang sym b v : lg v (fst (fst (run_reload rs lang sym b v))).
Proof.
  unfold run_reload.
  pose proof (refresh_lg rs lang sym v) as R. destruct (refresh rs lang sym v) as [[v1 content] s]. cbn [fst] in R.
  destruct s; try lgs. destruct (cache_update_raw _ _ _) as [ca' oe]. cbv zeta. destruct (page_map _ _ _); lgs.
Qed.

Lemma run_map_lg sym b v : lg v (fst (fst (run_map sym b v))).
Proof. unfold run_map. destruct (page_map _ _ _); lgs. Qed.

Lemma run_move_lg rs sep sym b v : lg v (fst (fst (run_move rs sep sym b v))).
Proof.
  unfold run_move. destruct (apply_target _ _ _) as [[[st' ca'] nsym] s]. destruct s; try lgs.
  match goal with |- context [fetch_code rs nsym ?vv] =>
    pose proof (fetch_lg rs nsym vv) as F; destruct (fetch_code rs nsym vv) as [v2 c] end.
  cbn [fst] in F. assert (F' : lg v v2) by (eapply lg_trans; [|exact F]; lgs).
  destruct c; lgs.
Qed.

Lemma run_incmp_lg rs sep dest sel b v : lg v (fst (fst (run_incmp rs sep dest sel b v))).
Proof.
  unfold run_incmp. cbv zeta. destruct (_ && _); [lgs|].
  destruct (s_input _); [|lgs]. destruct (_ || _); [|lgs].
  destruct (apply_target _ _ _) as [[[st' ca'] nsym] s]. destruct s as [|e m| |]; try lgs.
  - match goal with |- context [fetch_code rs nsym ?vv] =>
      pose proof (fetch_lg rs nsym vv) as F; destruct (fetch_code rs nsym vv) as [v3 c] end.
    cbn [fst] in F. assert (F' : lg v v3) by (eapply lg_trans; [|exact F]; lgs).
    destruct c; lgs.
  - destruct e; lgs.
Qed.

Lemma dead_check_lg v : lg v (fst (fst (dead_check v))).
Proof.
  unfold dead_check. cbv zeta. destruct (negb _); [lgs|]. destruct (getf _ FLAG_TERMINATE); [lgs|].
  destruct (where_sym _); [lgs|]. destruct (bytes_eqb _ _); lgs.
Qed.

Lemma exec_instr_lg rs sep lang i b v : lg v (fst (fst (exec_instr rs sep lang i b v))).
Proof.
  destruct i; cbn [exec_instr]; try lgs.
  - apply run_catch_lg. - apply run_croak_lg. - apply run_load_lg. - apply run_reload_lg.
  - apply run_map_lg. - apply run_move_lg. - apply run_incmp_lg.
Qed.

Lemma run_lg rs sep : forall fuel lang b v, lg v (fst (fst (run fuel rs sep lang b v))).
Proof.
  induction fuel as [|fuel IH]; intros lang b v; [lgs|]. cbn [run].
  destruct (getf (v_st v) FLAG_TERMINATE); [lgs|].
  match goal with |- context [vset_pg (vset_st v ?s) ?p] => set (v0 := vset_pg (vset_st v s) p) end.
  assert (H0 : lg v v0) by (unfold v0; lgs). clearbody v0.
  match goal with |- context [if ?c then match s_lang ?x with _ => _ end else lang] =>
    set (lang1 := if c then match s_lang x with Some l => Some l | None => lang end else lang) end.
  destruct (op_split b) as [[op b1]|e|n]; try lgs.
  destruct (parse_args op b1) as [[i b2]|e|n]; try lgs.
  - pose proof (exec_instr_lg rs sep lang1 i b2 (vlog v0 (EvInstr op))) as X.
    destruct (exec_instr rs sep lang1 i b2 (vlog v0 (EvInstr op))) as [[v1 b3] s]. cbn [fst] in X.
    assert (H1 : lg v v1) by (eapply lg_trans; [|exact X]; lgs). clear X H0.
    destruct (op =? op_HALT); [lgs|].
    assert (Hchk : forall s2 b4, lg v (fst (fst (match s2 with
        | SOk => match b4 with
                 | [] => let '(v3, b5, s3) := dead_check v1 in
                         match s3 with
                         | SOk => match b5 with [] => (v3, [], SOk) | _ => run fuel rs sep lang1 b5 v3 end
                         | _ => (v3, b5, s3)
                         end
                 | _ => run fuel rs sep lang1 b4 v1
                 end
        | _ => (v1, b4, s2)
        end)))).
    { intros s2 b4. destruct s2; try lgs. destruct b4.
      - pose proof (dead_check_lg v1) as D. destruct (dead_check v1) as [[v3 b5] s3]. cbn [fst] in D.
        assert (H3 : lg v v3) by (eapply lg_trans; eassumption).
        destruct s3; try lgs. destruct b5; [lgs|]. eapply lg_trans; [exact H3|apply IH].
      - eapply lg_trans; [exact H1|apply IH]. }
    destruct s as [|e msg|n|]; [exact (Hchk SOk b3)| |exact (Hchk (SPanic n) b3)|exact (Hchk SFuel b3)].
    (* an error: the page gets it; LOADFAIL sends the machine to _catch *)
    assert (He : lg v (set_page_err v1 msg)) by (destruct msg; lgs).
    set (ve := set_page_err v1 msg) in *. clearbody ve.
    assert (Hchk' : forall s2 b4, lg v (fst (fst (match s2 with
        | SOk => match b4 with
                 | [] => let '(v3, b5, s3) := dead_check ve in
                         match s3 with
                         | SOk => match b5 with [] => (v3, [], SOk) | _ => run fuel rs sep lang1 b5 v3 end
                         | _ => (v3, b5, s3)
                         end
                 | _ => run fuel rs sep lang1 b4 ve
                 end
        | _ => (ve, b4, s2)
        end)))).
    { intros s2 b4. destruct s2; try lgs. destruct b4.
      - pose proof (dead_check_lg ve) as D. destruct (dead_check ve) as [[v3 b5] s3]. cbn [fst] in D.
        assert (H3 : lg v v3) by (eapply lg_trans; eassumption).
        destruct s3; try lgs. destruct b5; [lgs|]. eapply lg_trans; [exact H3|apply IH].
      - eapply lg_trans; [exact He|apply IH]. }
    destruct (_ && _); [exact (Hchk' SOk move_catch_code)|exact (Hchk' (SErr e msg) b3)].
  - (* parse error *)
    destruct (op =? op_HALT); [lgs|].
    set (ve := set_page_err v0 None).
    assert (He : lg v ve) by (unfold ve; lgs). clearbody ve.
    destruct (_ && _).
    + cbv iota beta. change move_catch_code with (encode (IMove catch_sym)).
      destruct (encode (IMove catch_sym)) eqn:Ee; [exfalso; eapply encode_nonempty; exact Ee|].
      eapply lg_trans; [exact He|apply IH].
    + lgs.
Qed.

Lemma vm_render_lg fuel rs sep lang v : lg v (fst (vm_render fuel rs sep lang v)).
Proof.
  unfold vm_render. cbv zeta. destruct (negb _); [lgs|].
  destruct (where_sym _); [lgs|].
  destruct (page_render _ _ _ _ _ _) as [r pg']. destruct r as [out|e|pn]; try lgs.
  destruct e; try lgs.
  match goal with |- context [run fuel rs sep lang move_catch_code ?vv] =>
    pose proof (run_lg rs sep fuel lang move_catch_code vv) as R;
    assert (R0 : lg v vv) by lgs;
    destruct (run fuel rs sep lang move_catch_code vv) as [[v1 b1] s] end.
  cbn [fst] in R. assert (R1 : lg v v1) by (eapply lg_trans; eassumption).
  destruct s; try lgs; destruct (page_render _ _ _ _ _ _) as [r1 pg1]; lgs.
Qed.

Lemma eng_reset_inner_log v : v_log (fst (eng_reset_inner v)) = v_log v.
Proof.
  unfold eng_reset_inner. destruct (unwind _ _ _) as [[st ca] s]. destruct s; reflexivity.
Qed.

Definition elg (e e' : engine) : Prop := lg (e_v e) (e_v e').

Lemma eng_flush_lg fuel rs c e : elg e (fst (fst (eng_flush fuel rs c e))).
Proof.
  unfold elg, eng_flush. destruct (negb (e_execd e)); [lgs|].
  pose proof (vm_render_lg fuel rs (c_sep c) (s_lang (v_st (e_v e))) (e_v e)) as R.
  destruct (vm_render fuel rs (c_sep c) (s_lang (v_st (e_v e))) (e_v e)) as [v r]. cbn [fst] in R. cbv zeta.
  pose proof (eng_reset_inner_log (e_v (eset_v e v))) as Q.
  destruct (eng_reset_inner (e_v (eset_v e v))) as [v' s']. cbn [fst e_v eset_v] in Q.
  assert (R' : lg (e_v e) v') by (eapply lg0; [exact R|exact Q]).
  destruct r; repeat match goal with
    | |- context [if ?cc then _ else _] => destruct cc
    | |- context [match e_exit ?x with _ => _ end] => destruct (e_exit x)
    | |- context [match ?x with SOk => _ | SErr _ _ => _ | SPanic _ => _ | SFuel => _ end] => destruct x
    end; cbn [fst snd e_v eset_v]; first [exact R|exact R'].
Qed.

(* ================================================================================== *)
(* Part 2 — what init leaves of a stored session without pending code                  *)
(* ================================================================================== *)
Lemma unwind_path fuel : forall st ca,
  (List.length (s_path st) <= fuel)%nat -> snd (unwind fuel st ca) = SOk ->
  s_path (fst (fst (unwind fuel st ca))) = [].
Proof.
  induction fuel as [|f IH]; intros st ca Hl; cbn [unwind].
  - intros _. cbn [fst]. destruct (s_path st); [reflexivity|cbn in Hl; lia].
  - unfold st_top, st_up. destruct (s_path st) as [|a [|b r]] eqn:Ep.
    + cbn [snd]. discriminate.
    + intros _. reflexivity.
    + apply IH. cbn [set_path_idx s_path]. rewrite <- Ep.
      pose proof (length_removelast (s_path st) ltac:(rewrite Ep; discriminate)). rewrite Ep in *. cbn [List.length] in *. lia.
Qed.

Lemma nth_set_false : forall l n, nth n (set_nth_bit n false l) false = false.
Proof. induction l as [|x l IH]; intros [|n]; cbn [set_nth_bit nth]; auto. Qed.
Lemma getf_resetf_same s i : getf (resetf s i) i = false.
Proof. unfold getf, resetf. cbn [s_flags set_flags]. apply nth_set_false. Qed.

Lemma reset_sc_restart s ca :
  s_path s <> [] ->
  s_path (fst (fst (reset_sc s ca))) = [] /\ getf (fst (fst (reset_sc s ca))) FLAG_TERMINATE = false.
Proof.
  intros Hp. unfold reset_sc.
  pose proof (unwind_ok (S (List.length (s_path s))) s ca Hp) as Hok.
  pose proof (unwind_path (S (List.length (s_path s))) s ca ltac:(lia)) as Hpath.
  destruct (unwind (S (List.length (s_path s))) s ca) as [[st ca'] r]. cbn [fst snd] in *. subst r.
  specialize (Hpath eq_refl). unfold st_restart. rewrite Hpath. cbn [fst]. split; [exact Hpath|].
  rewrite getf_resetf_other by discriminate. apply getf_resetf_same.
Qed.

(* the state the next engine starts from: nowhere, not terminated, MOVE <root> pending *)
Lemma init_sc_restart c s ca :
  s_code s = [] -> getf s FLAG_TERMINATE = false ->
  let s' := fst (init_sc c s ca) in
  s_path s' = [] /\ getf s' FLAG_TERMINATE = false /\ s_code s' = encode (IMove (cfg_root c)).
Proof.
  intros Hc Ht. unfold init_sc. rewrite Hc. unfold stale. rewrite Hc, Ht.
  destruct (s_path s) as [|a p] eqn:Ep; cbn [negb].
  - cbn [fst]. repeat split; assumption.
  - destruct (reset_sc_restart s ca ltac:(rewrite Ep; discriminate)) as [R1 R2].
    destruct (reset_sc s ca) as [[st ca'] r]. cbn [fst] in *. repeat split; assumption.
Qed.

(* ================================================================================== *)
(* Part 3 — the first step: MOVE <root> over an empty stack                            *)
(* ================================================================================== *)
Lemma op_split_move s : op_split (encode (IMove s)) = Ok (op_MOVE, w8 (len s) :: s).
Proof.
  unfold encode, new_line. cbn [map List.concat List.app]. rewrite !app_nil_r. cbn [List.app].
  apply (op_split_bytes op_MOVE). unfold op_MOVE, max_opcode. lia.
Qed.
Lemma parse_args_move s : wf_sym s -> parse_args op_MOVE (w8 (len s) :: s) = Ok (IMove s, []).
Proof.
  intros Hw. pose proof (instr_roundtrip_lemma (IMove s) [] Hw) as H. rewrite app_nil_r in H.
  unfold decode_one in H. rewrite op_split_move in H. exact H.
Qed.

Lemma apply_root_empty root st ca :
  valid_sym_b root = true -> s_path st = [] ->
  apply_target root st ca = (set_path_idx st [root] 0, cache_push ca, root, SOk).
Proof.
  intros Hv Hp. rewrite (apply_named _ _ _ Hv). unfold do_named, where_sym, st_down. rewrite Hp.
  change (len (@nil bytes)) with 0. change (MaxLevel + 1 <=? 0) with false. change (MaxLevel <? 0) with false.
  cbv iota. cbn [last].
  pose proof (valid_sym_len _ Hv) as Hl. destruct root as [|x r]; [rewrite len_nil in Hl; lia|]. reflexivity.
Qed.

Lemma s_path_flags st f : s_path (set_flags st f) = s_path st. Proof. reflexivity. Qed.

Lemma run_move_root a sep lang f root v :
  wf_sym root -> valid_sym_b root = true -> ahas root (a_code a) = true ->
  s_path (v_st v) = [] -> getf (v_st v) FLAG_TERMINATE = false ->
  exists l, v_log (fst (fst (run (S f) (app_rsrc a) sep lang (encode (IMove root)) v)))
            = l ++ EvCode root :: EvMove 0 root root :: EvInstr op_MOVE :: v_log v.
Proof.
  intros Hw Hv Hn Hp Ht. cbn [run]. rewrite Ht.
  rewrite op_split_move. rewrite (parse_args_move _ Hw).
  change (op_MOVE =? op_HALT) with false. cbv iota.
  match goal with |- context [vlog (vset_pg (vset_st v ?s) ?p) (EvInstr op_MOVE)] =>
    set (st0 := s); set (pg0 := p) end.
  assert (Hp0 : s_path st0 = []).
  { unfold st0. destruct (getf (resetf (v_st v) FLAG_LANG) FLAG_WAIT); exact Hp. }
  cbn [exec_instr]. unfold run_move. cbn [v_st v_ca vlog vset_pg vset_st].
  rewrite (apply_root_empty root st0 (v_ca v) Hv Hp0).
  unfold fetch_code. cbn [app_rsrc rs_observed rs_code].
  unfold ahas in Hn. destruct (alookup root (a_code a)) as [code|]; [|discriminate].
  cbn [List.app].
  match goal with |- context [vset_pg ?vv (vm_reset sep _)] =>
    set (v2 := vset_pg vv (vm_reset sep (v_pg vv))) end.
  assert (H2 : v_log v2 = EvCode root :: EvMove 0 root root :: EvInstr op_MOVE :: v_log v) by reflexivity.
  clearbody v2.
  assert (Hfin : forall x, lg v2 x -> exists l, v_log x = l ++ EvCode root :: EvMove 0 root root :: EvInstr op_MOVE :: v_log v).
  { intros x [l Hx]. exists l. rewrite Hx, H2. reflexivity. }
  apply Hfin. destruct code as [|c0 code'].
  - pose proof (dead_check_lg v2) as D. destruct (dead_check v2) as [[v3 b4] s3]. cbn [fst] in D.
    destruct s3; try lgs. destruct b4; [lgs|]. eapply lg_trans; [exact D|apply run_lg].
  - apply run_lg.
Qed.

(* ================================================================================== *)
(* Part 4 — the request                                                                *)
(* ================================================================================== *)
Lemma pers_finish_log fuel rs c p store0 e1 cont s :
  exists l, pw_log (fst (pers_finish fuel rs c p store0 (e1, cont, s))) = l ++ v_log (e_v e1).
Proof.
  unfold pers_finish.
  pose proof (eng_flush_lg fuel rs c e1) as F. unfold elg in F.
  destruct (eng_flush fuel rs c e1) as [[e2 out] fs]. cbn [fst] in F.
  destruct s; try (destruct fs; cbn [fst pw_log]; exact F); cbn [fst pw_log]; exists []; reflexivity.
Qed.

Lemma set_code_eng_log e b : v_log (e_v (fst (set_code_eng e b))) = v_log (e_v e).
Proof.
  unfold set_code_eng. cbv zeta. destruct b; [|reflexivity].
  destruct (getf _ FLAG_DIRTY); [destruct (cache_last (v_ca (e_v e)))|]; reflexivity.
Qed.

Definition restart_events (c : config) : list ev :=
  [EvCode (cfg_root c); EvMove 0 (cfg_root c) (cfg_root c); EvInstr op_MOVE].

(* decidable guard: the entry node's name is a node name of the VM (symRegex); a control token or a
   one-letter name as Root makes the injected MOVE fail or go elsewhere *)
Definition root_ok (c : config) : bool := valid_sym_b (cfg_root c).

Lemma refused_b_false i : refused_b i = false ->
  (INPUT_LIMIT <? len i) = false /\ ((0 <? len i) && negb (valid_input_b i)) = false.
Proof. unfold refused_b. intros H. apply orb_false_iff in H. exact H. Qed.

Lemma continuable_exec a c f st ca pg w lg0 t i :
  c_first c = None -> cfg_okb c = true -> root_ok c = true -> has_node a (cfg_root c) = true ->
  s_code st = [] -> getf st FLAG_TERMINATE = false -> refused_b i = false ->
  exists l, v_log (e_v (fst (fst (eng_exec (S f) (app_rsrc a) c (mkEng (mkVm st ca pg w lg0 t) false [] false false) i))))
            = l ++ restart_events c ++ lg0.
Proof.
  intros Hf Hc Hr Hn Hcode Ht Hi. apply cfg_okb_sound in Hc. destruct Hc as (Hw & _ & _).
  destruct (refused_b_false i Hi) as [Hlim Hval].
  rewrite eng_exec_fresh by exact Hf. rewrite Hlim.
  pose proof (init_sc_restart c st ca Hcode Ht) as (I1 & I2 & I3). cbv zeta in I1, I2, I3.
  destruct (init_sc c st ca) as [s' ca']. cbn [fst] in I1, I2, I3.
  unfold exec_tail.
  set (E1 := mkEng (mkVm s' ca' pg w lg0 t) true [] false false).
  assert (Hrf : (if c_reset_empty c && (len i =? 0) then eng_reset_force c E1 else (E1, SOk)) = (E1, SOk)).
  { destruct (c_reset_empty c && (len i =? 0)); [|reflexivity].
    unfold eng_reset_force, E1. cbn [e_v v_st]. rewrite I1. reflexivity. }
  rewrite Hrf. rewrite Hval. unfold set_input. rewrite Hlim.
  unfold eng_exec_inner, E1. cbn [e_v eset_v vset_st v_st s_code set_input_raw]. rewrite I3.
  destruct (encode (IMove (cfg_root c))) as [|x0 r0] eqn:Ee; [exfalso; eapply encode_nonempty; exact Ee|].
  rewrite <- Ee.
  match goal with |- context [run (S f) (app_rsrc a) ?sep ?lang _ ?vv] =>
    destruct (run_move_root a sep lang f (cfg_root c) vv Hw Hr Hn I1 I2) as [l Hl];
    destruct (run (S f) (app_rsrc a) sep lang (encode (IMove (cfg_root c))) vv) as [[v1 b] s] end.
  cbn [fst v_log] in Hl.
  assert (Hgoal : forall e', v_log (e_v e') = v_log v1 -> exists l0, v_log (e_v e') = l0 ++ restart_events c ++ lg0).
  { intros e' E. exists l. rewrite E, Hl. reflexivity. }
  destruct s; try (cbn [fst]; apply Hgoal; reflexivity).
  destruct (getf (v_st v1) FLAG_TERMINATE); [cbn [fst]; apply Hgoal; reflexivity|].
  match goal with |- context [set_code_eng ?ee b] =>
    pose proof (set_code_eng_log ee b) as Hs; destruct (set_code_eng ee b) as [e2 cont2] end.
  cbn [fst] in *. apply Hgoal. exact Hs.
Qed.

Lemma continuable_request a c f p st ca i :
  c_first c = None -> cfg_okb c = true -> root_ok c = true -> has_node a (cfg_root c) = true ->
  pw_store p = Some (st, ca) -> s_code st = [] -> getf st FLAG_TERMINATE = false -> refused_b i = false ->
  exists l, pw_log (fst (request_persisted (S f) (app_rsrc a) c p i)) = l ++ restart_events c ++ pw_log p.
Proof.
  intros Hf Hc Hr Hn Hst Hcode Ht Hi.
  rewrite request_persisted_finish, new_engine_sess. rewrite Hst. cbn [sess fst snd].
  destruct (continuable_exec a c f st ca (new_vm_page (c_out c) (c_sep c)) (pw_w p) (pw_log p) false i
              Hf Hc Hr Hn Hcode Ht Hi) as [l Hl].
  destruct (eng_exec (S f) (app_rsrc a) c _ i) as [[e1 cont] s]. cbn [fst] in Hl.
  destruct (pers_finish_log (S f) (app_rsrc a) c p (store0_of c (Some (st, ca))) e1 cont s) as [l2 H2].
  exists (l2 ++ l). rewrite H2, Hl, app_assoc. reflexivity.
Qed.

(* with no fuel at all the request answers SFuel (not an error of the session) *)
Lemma continuable_no_fuel a c p st ca i :
  c_first c = None -> pw_store p = Some (st, ca) -> s_code st = [] -> refused_b i = false ->
  r_exec (snd (request_persisted O (app_rsrc a) c p i)) = SFuel.
Proof.
  intros Hf Hst Hcode Hi. destruct (refused_b_false i Hi) as [Hlim Hval].
  rewrite request_persisted_finish, new_engine_sess. rewrite Hst. cbn [sess fst snd].
  rewrite eng_exec_fresh by exact Hf. rewrite Hlim.
  pose proof (init_sc_code c st ca) as Hne.
  unfold init_sc in *. rewrite Hcode in *.
  set (sc1 := if stale st then let '(st0, ca', _) := reset_sc st ca in (st0, ca') else (st, ca)) in *.
  destruct sc1 as [s1 ca1]. cbn [fst] in Hne. unfold exec_tail.
  set (E1 := mkEng _ true [] false false).
  destruct (c_reset_empty c && (len i =? 0)) eqn:Ere.
  - unfold eng_reset_force. destruct (s_path (v_st (e_v E1))) eqn:Ep.
    + rewrite Hval. unfold set_input. rewrite Hlim. unfold eng_exec_inner, E1.
      cbn [e_v eset_v vset_st v_st s_code set_input_raw set_code].
      destruct (encode (IMove (cfg_root c))) eqn:Ee; [exfalso; eapply encode_nonempty; exact Ee|]. reflexivity.
    + cbv zeta.
      match goal with |- context [eng_reset_inner ?vv] => rewrite (eng_reset_inner_sc vv) end.
      cbn [v_st v_ca e_v E1 vset_st]. 
      match goal with |- context [reset_sc ?ss ?cc] =>
        pose proof (reset_sc_code ss cc) as Hrc; pose proof (reset_sc_ok ss cc) as Hok;
        destruct (reset_sc ss cc) as [[st2 ca2] r2] end.
      cbn [fst snd] in Hrc, Hok. rewrite Hok by (unfold E1 in Ep; cbn [e_v v_st] in Ep; cbn [s_path set_code]; rewrite Ep; discriminate).
      cbn [eset_v e_v vset_ca vset_st]. rewrite Hval. unfold set_input. rewrite Hlim.
      unfold eng_exec_inner. cbn [e_v eset_v vset_st vset_ca v_st s_code set_input_raw]. rewrite Hrc.
      cbn [s_code set_code].
      destruct (encode (IMove (cfg_root c))) eqn:Ee; [exfalso; eapply encode_nonempty; exact Ee|]. reflexivity.
  - rewrite Hval. unfold set_input. rewrite Hlim. unfold eng_exec_inner, E1.
    cbn [e_v eset_v vset_st v_st s_code set_input_raw set_code].
    destruct (encode (IMove (cfg_root c))) eqn:Ee; [exfalso; eapply encode_nonempty; exact Ee|]. reflexivity.
Qed.

(* ---- histories --------------------------------------------------------------------------------- *)
Lemma wf_app_root a c : wf_app_b a c = true -> has_node a (cfg_root c) = true.
Proof.
  intros H. unfold wf_app_b in H. cbv zeta in H.
  repeat (apply andb_true_iff in H; destruct H as [H _]). exact H.
Qed.

(* after ANY history of a new session: if the stored session has no pending code and is not
   terminated, the next accepted request (with fuel) restarts at the entry node — its first events
   are the injected MOVE <root>, the successful move, the fetch of the root's code — and does not
   panic; without fuel it answers SFuel *)
Lemma session_continuable a c h f i st ca :
  wf_app_b a c = true -> cfg_okb c = true -> c_first c = None -> root_ok c = true ->
  pw_store (fst (hist_pers (app_rsrc a) c (mkPw None [] [] false) h)) = Some (st, ca) ->
  s_code st = [] -> getf st FLAG_TERMINATE = false -> refused_b i = false ->
  (exists l, pw_log (fst (request_persisted (S f) (app_rsrc a) c (fst (hist_pers (app_rsrc a) c (mkPw None [] [] false) h)) i))
             = l ++ restart_events c ++ pw_log (fst (hist_pers (app_rsrc a) c (mkPw None [] [] false) h)))
  /\ resp_no_panic (snd (request_persisted (S f) (app_rsrc a) c (fst (hist_pers (app_rsrc a) c (mkPw None [] [] false) h)) i))
  /\ r_exec (snd (request_persisted O (app_rsrc a) c (fst (hist_pers (app_rsrc a) c (mkPw None [] [] false) h)) i)) = SFuel.
Proof.
  intros Hwf Hc Hf Hr Hst Hcode Ht Hi. split; [|split].
  - eapply continuable_request; try eassumption. apply wf_app_root. exact Hwf.
  - pose proof (cfg_okb_sound c Hc) as Hc'.
    destruct (hist_pers_safe false (app_rsrc a) c (wf_app_rs_wf a c Hwf) Hc' Hf h (mkPw None [] [] false) I) as [_ HP].
    apply (request_no_panic_pers a c false (S f) _ i Hwf Hc); [discriminate|exact HP|apply FirstOk_none; exact Hf].
  - eapply continuable_no_fuel; eassumption.
Qed.

(* ---- non-vacuity: corpus application "restart-after-error" (go/cmd/vh/engine.go) --------------- *)
Definition rae_app : app :=
  mkApp [(s2b "root", encode_prog [ILoad (s2b "aa") 5; IMap (s2b "aa"); IHalt; IInCmp (s2b "foo") (s2b "1")]);
         (s2b "foo", encode_prog [IHalt; IInCmp (s2b "_") (s2b "0")]);
         (catch_sym, encode_prog [IHalt; IInCmp (s2b "_") (s2b "*")])]
        [(s2b "root", s2b "root {{.aa}}"); (s2b "foo", s2b "foo"); (catch_sym, s2b "catch")] []
        [(s2b "aa", [mkFres (s2b "toolong") false 0 [] [] false; mkFres (s2b "ok") false 0 [] [] false])].
Definition rae_cfg : config := mkCfg 0 [] 1 0 [] [] false None.
Definition rae_after1 : pworld := fst (hist_pers (app_rsrc rae_app) rae_cfg (mkPw None [] [] false) [(100%nat, [])]).

(* request 1 fails AT the entry node (the value is longer than LOAD's limit): stored at [root], no
   pending code, TERMINATE clear — the premises of the theorem; request 2 restarts (its events begin
   with the injected MOVE root, the move, the fetch of root) and shows "root ok"; request 3 moves on *)
Lemma rae_runs :
  wf_app_b rae_app rae_cfg = true /\ cfg_okb rae_cfg = true /\ c_first rae_cfg = None /\ root_ok rae_cfg = true
  /\ match pw_store rae_after1 with
     | Some (st, ca) => s_code st = [] /\ s_path st = [s2b "root"] /\ getf st FLAG_TERMINATE = false
     | None => False
     end
  /\ refused_b (s2b "1") = false
  /\ map resp_view (snd (hist_pers (app_rsrc rae_app) rae_cfg (mkPw None [] [] false)
                           [(100%nat, []); (100%nat, s2b "1"); (100%nat, s2b "1")]))
     = [(false, SErr EGen None, [], FErr EFlushNoExec); (true, SOk, s2b "root ok", FOk); (true, SOk, s2b "foo", FOk)]
  /\ pw_log (fst (request_persisted 100 (app_rsrc rae_app) rae_cfg rae_after1 (s2b "1")))
     = [EvRender (s2b "root") 0 None; EvInstr op_HALT; EvInstr op_MAP; EvFunc (s2b "aa") None (Some (s2b "1")); EvInstr op_LOAD]
       ++ restart_events rae_cfg ++ pw_log rae_after1.
Proof. vm_compute. repeat split. Qed.

(* the guard root_ok is needed: a one-letter Root passes wf_app_b and cfg_okb, but MOVE r is not a
   valid target (symRegex wants two characters), so no request ever fetches code *)
Definition badroot_app : app := mkApp [([114], encode IHalt); (catch_sym, encode IHalt)] [] [] [].
Definition badroot_cfg : config := mkCfg 0 [114] 0 0 [] [] false None.
Lemma continuable_needs_root_ok :
  wf_app_b badroot_app badroot_cfg = true /\ cfg_okb badroot_cfg = true /\ root_ok badroot_cfg = false
  /\ pw_log (fst (hist_pers (app_rsrc badroot_app) badroot_cfg (mkPw None [] [] false) [(100%nat, []); (100%nat, [])]))
     = [EvInstr op_MOVE; EvInstr op_MOVE].
Proof. vm_compute. repeat split. Qed.
