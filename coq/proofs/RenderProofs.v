(* RenderProofs.v — lemmas about model/RenderModel.v (paginator, menu, page render). *)
From Coq Require Import Lia ZArith.
From Coq Require Import ZifyN ZifyNat ZifyBool.
From Vise Require Import Bytes Errors CacheModel RenderModel BytesProofs.
Local Open Scope N_scope.

(* ================================================================ generic lists ===== *)
Lemma join_with_cons2 sep (x y : bytes) l :
  join_with sep (x :: y :: l) = x ++ sep ++ join_with sep (y :: l).
Proof. reflexivity. Qed.

Lemma join_with_snoc sep (l : list bytes) v :
  l <> [] -> join_with sep (l ++ [v]) = join_with sep l ++ sep ++ v.
Proof.
  induction l as [|x l IH]; intros Hne; [congruence|].
  destruct l as [|y l].
  - reflexivity.
  - change ((x :: y :: l) ++ [v]) with (x :: y :: (l ++ [v])).
    rewrite join_with_cons2. change (y :: l ++ [v]) with ((y :: l) ++ [v]).
    rewrite IH by discriminate. rewrite join_with_cons2. rewrite <- !app_assoc. reflexivity.
Qed.

Lemma index_of_notin b (a : bytes) : ~ In b a -> index_of b a = None.
Proof.
  induction a as [|x a IH]; intros Hn; cbn [index_of]; [reflexivity|].
  destruct (x =? b) eqn:E.
  - apply N.eqb_eq in E. subst. exfalso. apply Hn. left. reflexivity.
  - rewrite IH; [reflexivity|]. intros H. apply Hn. right. exact H.
Qed.

Lemma index_of_app b (a rest : bytes) : ~ In b a -> index_of b (a ++ b :: rest) = Some (len a).
Proof.
  induction a as [|x a IH]; intros Hn.
  - cbn [app index_of]. rewrite N.eqb_refl. reflexivity.
  - cbn [app index_of]. destruct (x =? b) eqn:E.
    + apply N.eqb_eq in E. subst. exfalso. apply Hn. left. reflexivity.
    + rewrite IH by (intros H; apply Hn; right; exact H). rewrite len_cons. f_equal. lia.
Qed.

Lemma In_join_with x sep (l : list bytes) :
  In x (join_with sep l) -> In x sep \/ exists v, In v l /\ In x v.
Proof.
  induction l as [|a l IH]; [intros []|].
  destruct l as [|b l].
  - cbn [join_with]. intros H. right. exists a. split; [left; reflexivity|exact H].
  - rewrite join_with_cons2. intros H. apply in_app_or in H as [H|H].
    + right. exists a. split; [left; reflexivity|exact H].
    + apply in_app_or in H as [H|H]; [left; exact H|].
      destruct (IH H) as [H1|[v [Hv Hx]]]; [left; exact H1|].
      right. exists v. split; [right; exact Hv|exact Hx].
Qed.

(* ===================================================================== rows ===== *)
(* a row as the C02 partition theorem needs it: not empty (finding K-C02-emptyrow), no NUL
   byte (the in-page separator; finding K-C02-nul) and no LF (the page separator; rows that
   come from strings.Split(v, "\n") never contain one) *)
Definition row_ok (v : bytes) : bool :=
  (0 <? len v) && negb (existsb (fun x => x =? 0) v) && negb (existsb (fun x => x =? nl) v).
Definition rows_ok (vs : list bytes) : bool := forallb row_ok vs.

Lemma existsb_eqb_In b (v : bytes) : existsb (fun x => x =? b) v = false -> ~ In b v.
Proof.
  intros H Hin. assert (existsb (fun x => x =? b) v = true); [|congruence].
  apply existsb_exists. exists b. split; [exact Hin|apply N.eqb_refl].
Qed.

Lemma row_ok_spec v : row_ok v = true -> v <> [] /\ ~ In 0 v /\ ~ In nl v.
Proof.
  unfold row_ok. intros H. apply andb_true_iff in H as [H H3]. apply andb_true_iff in H as [H1 H2].
  apply negb_true_iff in H2, H3. split; [|split].
  - intros ->. cbn in H1. discriminate.
  - apply existsb_eqb_In. exact H2.
  - apply existsb_eqb_In. exact H3.
Qed.

Lemma rows_ok_Forall vs : rows_ok vs = true -> Forall (fun v => row_ok v = true) vs.
Proof. unfold rows_ok. intros H. apply Forall_forall. apply forallb_forall. exact H. Qed.

Lemma rows_ok_app a b : rows_ok (a ++ b) = rows_ok a && rows_ok b.
Proof. unfold rows_ok. apply forallb_app. Qed.

Definition pjoin (p : list bytes) : bytes := join_with [0] p.

Lemma pjoin_nonempty p : p <> [] -> rows_ok p = true -> pjoin p <> [].
Proof.
  destruct p as [|x p]; [congruence|]. intros _ H. cbn [rows_ok forallb] in H.
  apply andb_true_iff in H as [Hx _]. apply row_ok_spec in Hx as [Hx _].
  unfold pjoin. destruct p as [|y p].
  - cbn. exact Hx.
  - rewrite join_with_cons2. destruct x; [congruence|discriminate].
Qed.

Lemma pjoin_no_lf p : rows_ok p = true -> ~ In nl (pjoin p).
Proof.
  intros H Hin. apply In_join_with in Hin as [Hin|[v [Hv Hx]]].
  - cbn in Hin. destruct Hin as [E|[]]. discriminate.
  - apply rows_ok_Forall in H. rewrite Forall_forall in H. apply H in Hv.
    apply row_ok_spec in Hv as [_ [_ Hn]]. contradiction.
Qed.

Lemma pjoin_last_not_lf p : p <> [] -> rows_ok p = true -> exists b x, pjoin p = b ++ [x] /\ x <> nl.
Proof.
  intros Hne Hok. destruct (exists_last (pjoin_nonempty p Hne Hok)) as [b [x E]].
  exists b, x. split; [exact E|]. intros ->.
  apply (pjoin_no_lf p Hok). rewrite E. apply in_or_app. right. left. reflexivity.
Qed.

Lemma nul_to_lf_app a b : nul_to_lf (a ++ b) = nul_to_lf a ++ nul_to_lf b.
Proof. unfold nul_to_lf. apply map_app. Qed.

Lemma nul_to_lf_id v : ~ In 0 v -> nul_to_lf v = v.
Proof.
  induction v as [|x v IH]; intros H; [reflexivity|].
  unfold nul_to_lf in *. cbn [map]. destruct (x =? 0) eqn:E.
  - apply N.eqb_eq in E. subst. exfalso. apply H. left. reflexivity.
  - f_equal. apply IH. intros Hin. apply H. right. exact Hin.
Qed.

Lemma nul_to_lf_pjoin p : rows_ok p = true -> nul_to_lf (pjoin p) = join_with [nl] p.
Proof.
  induction p as [|x p IH]; intros H; [reflexivity|].
  cbn [rows_ok forallb] in H. apply andb_true_iff in H as [Hx Hp].
  apply row_ok_spec in Hx as [_ [Hx0 _]].
  unfold pjoin in *. destruct p as [|y p].
  - cbn [join_with]. apply nul_to_lf_id. exact Hx0.
  - rewrite !join_with_cons2, !nul_to_lf_app. rewrite (nul_to_lf_id x Hx0).
    rewrite IH by exact Hp. reflexivity.
Qed.

Lemma split_on_app_sep sep (a rest : bytes) :
  ~ In sep a -> split_on sep (a ++ sep :: rest) = a :: split_on sep rest.
Proof.
  induction a as [|x a IH]; intros H.
  - cbn [app split_on]. rewrite N.eqb_refl. reflexivity.
  - cbn [app split_on]. destruct (x =? sep) eqn:E.
    + apply N.eqb_eq in E. subst. exfalso. apply H. left. reflexivity.
    + rewrite IH by (intros Hin; apply H; right; exact Hin). reflexivity.
Qed.

Lemma split_on_no_sep sep (a : bytes) : ~ In sep a -> split_on sep a = [a].
Proof.
  induction a as [|x a IH]; intros H; [reflexivity|].
  cbn [split_on]. destruct (x =? sep) eqn:E.
  - apply N.eqb_eq in E. subst. exfalso. apply H. left. reflexivity.
  - rewrite IH by (intros Hin; apply H; right; exact Hin). reflexivity.
Qed.

(* what a page displays, split back into rows, is the page's rows *)
Lemma split_on_join p : p <> [] -> rows_ok p = true -> split_on nl (join_with [nl] p) = p.
Proof.
  induction p as [|x p IH]; intros Hne H; [congruence|].
  cbn [rows_ok forallb] in H. apply andb_true_iff in H as [Hx Hp].
  apply row_ok_spec in Hx as [_ [_ Hxn]].
  destruct p as [|y p].
  - cbn [join_with]. apply split_on_no_sep. exact Hxn.
  - rewrite join_with_cons2. cbn [app]. rewrite split_on_app_sep by exact Hxn.
    rewrite IH by (try discriminate; exact Hp). reflexivity.
Qed.

(* ============================================================= TrimRight ===== *)
Lemma trim_right_lf_id b x : x <> nl -> trim_right_lf (b ++ [x]) = b ++ [x].
Proof.
  intros Hx. unfold trim_right_lf. rewrite rev_app_distr. cbn [rev app trim_lf_rev].
  destruct (x =? nl) eqn:E; [apply N.eqb_eq in E; contradiction|].
  change (x :: rev b) with ([x] ++ rev b). rewrite rev_app_distr, rev_involutive. reflexivity.
Qed.

(* ============================================================ the paginator ===== *)
(* closed pages, flattened as joinSink writes them *)
Definition flat (closed : list (list bytes)) : bytes :=
  List.concat (map (fun p => pjoin p ++ [nl]) closed).

Lemma flat_app a b : flat (a ++ b) = flat a ++ flat b.
Proof. unfold flat. rewrite map_app, concat_app. reflexivity. Qed.

Lemma flat_snoc a p : flat (a ++ [p]) = flat a ++ pjoin p ++ [nl].
Proof. rewrite flat_app. unfold flat at 2. cbn [map List.concat]. rewrite app_nil_r. reflexivity. Qed.

(* cursor k = (uint32 of the) length of the first k flattened pages *)
Definition cursor_at (closed : list (list bytes)) (k : nat) : N := w32 (len (flat (firstn k closed))).

Record JInv (crs0 : list N) (closed : list (list bytes)) (cur : list bytes) (s : jstate) : Prop := {
  ji_rb : j_rb s = flat closed;
  ji_tb : j_tb s = pjoin cur;
  ji_crs : j_crs s = crs0 ++ map (cursor_at closed) (seq 1 (List.length closed));
  ji_count : j_count s = w16 (N.of_nat (List.length closed));
  ji_cur : closed <> [] -> cur <> [];
  ji_pages : Forall (fun p => p <> []) closed
}.

Lemma firstn_snoc_le {A} (l : list A) x k : (k <= List.length l)%nat -> firstn k (l ++ [x]) = firstn k l.
Proof. intros H. rewrite firstn_app. replace (k - List.length l)%nat with 0%nat by lia. cbn. apply app_nil_r. Qed.

Lemma cursor_at_snoc closed p k : (k <= List.length closed)%nat -> cursor_at (closed ++ [p]) k = cursor_at closed k.
Proof. intros H. unfold cursor_at. rewrite firstn_snoc_le by exact H. reflexivity. Qed.

Lemma map_cursor_snoc closed p :
  map (cursor_at (closed ++ [p])) (seq 1 (List.length closed)) = map (cursor_at closed) (seq 1 (List.length closed)).
Proof.
  apply map_ext_in. intros k Hk. apply in_seq in Hk. apply cursor_at_snoc. lia.
Qed.

Lemma js_step_inv prevsz crs0 closed cur s v s' :
  JInv crs0 closed cur s -> rows_ok cur = true -> row_ok v = true ->
  js_step prevsz s v = Some s' ->
  ((sub32 (j_net s) 1 <? w32 (j_l s + len v)) = false /\ JInv crs0 closed (cur ++ [v]) s')
  \/ ((sub32 (j_net s) 1 <? w32 (j_l s + len v)) = true /\ cur <> [] /\ JInv crs0 (closed ++ [cur]) [v] s').
Proof.
  intros [Hrb Htb Hcrs Hcnt Hcur Hpg] Hokc Hokv. unfold js_step.
  destruct (sub32 (j_net s) 1 <? w32 (j_l s + len v)) eqn:Ebreak.
  - destruct (len (j_tb s) =? 0) eqn:Etb; [discriminate|].
    intros E. inversion E; subst s'; clear E. right. split; [reflexivity|].
    assert (Hne : cur <> []).
    { intros ->. rewrite Htb in Etb. cbn in Etb. discriminate. }
    split; [exact Hne|].
    constructor; cbn [j_rb j_tb j_crs j_count].
    + rewrite flat_snoc, Hrb, Htb. reflexivity.
    + reflexivity.
    + rewrite Hcrs, app_length. cbn [List.length]. rewrite Nat.add_1_r.
      rewrite seq_S, map_app, map_cursor_snoc. cbn [map]. rewrite <- app_assoc. f_equal. f_equal.
      unfold cursor_at. f_equal.
      replace (1 + List.length closed)%nat with (List.length (closed ++ [cur])) by (rewrite app_length; cbn; lia).
      rewrite firstn_all. rewrite flat_snoc, Hrb, Htb. reflexivity.
    + rewrite Hcnt, app_length. cbn [List.length]. unfold w16.
      rewrite Nat2N.inj_add. change (N.of_nat 1) with 1.
      rewrite N.add_mod_idemp_l by lia. reflexivity.
    + intros _. discriminate.
    + apply Forall_app. split; [exact Hpg|]. constructor; [exact Hne|constructor].
  - destruct (0 <? len (j_tb s)) eqn:Etb; intros E; inversion E; subst s'; clear E; left; (split; [reflexivity|]).
    + assert (Hne : cur <> []).
      { intros ->. rewrite Htb in Etb. cbn in Etb. discriminate. }
      constructor; cbn [j_rb j_tb j_crs j_count]; try assumption.
      * unfold pjoin. rewrite join_with_snoc by exact Hne. rewrite Htb. reflexivity.
      * intros _. destruct cur; discriminate.
    + assert (He : cur = []).
      { destruct cur as [|x cur]; [reflexivity|]. exfalso.
        assert (Hn : pjoin (x :: cur) <> []) by (apply pjoin_nonempty; [discriminate|exact Hokc]).
        rewrite Htb in Etb. destruct (pjoin (x :: cur)); [congruence|]. rewrite len_cons in Etb. lia. }
      subst cur. constructor; cbn [j_rb j_tb j_crs j_count]; try assumption.
      * rewrite Htb. reflexivity.
      * intros _. discriminate.
Qed.

(* the loop keeps the invariant and consumes the rows in order *)
Lemma js_loop_inv prevsz crs0 vs : forall closed cur s s',
  JInv crs0 closed cur s -> rows_ok cur = true -> rows_ok vs = true ->
  js_loop prevsz s vs = (true, s') ->
  exists closed' cur', JInv crs0 closed' cur' s' /\ rows_ok cur' = true
    /\ List.concat closed' ++ cur' = List.concat closed ++ cur ++ vs
    /\ (Forall (fun p => rows_ok p = true) closed -> Forall (fun p => rows_ok p = true) closed').
Proof.
  induction vs as [|v vs IH]; intros closed cur s s' HJ Hokc Hokvs Hloop.
  - cbn [js_loop] in Hloop. inversion Hloop; subst s'. exists closed, cur.
    rewrite app_nil_r. split; [exact HJ|]. split; [exact Hokc|]. split; [reflexivity|]. auto.
  - cbn [js_loop] in Hloop. cbn [rows_ok forallb] in Hokvs. apply andb_true_iff in Hokvs as [Hokv Hokvs].
    destruct (js_step prevsz s v) as [s1|] eqn:Estep; [|discriminate].
    destruct (js_step_inv prevsz crs0 closed cur s v s1 HJ Hokc Hokv Estep) as [[_ HJ1]|[_ [Hne HJ1]]].
    + assert (Hok1 : rows_ok (cur ++ [v]) = true).
      { rewrite rows_ok_app, Hokc. cbn [rows_ok forallb]. rewrite Hokv. reflexivity. }
      destruct (IH closed (cur ++ [v]) s1 s' HJ1 Hok1 Hokvs Hloop) as [c' [u' [H1 [H2 [H3 H5]]]]].
      exists c', u'. split; [exact H1|]. split; [exact H2|]. split; [|exact H5].
      rewrite H3, <- app_assoc. reflexivity.
    + assert (Hok1 : rows_ok [v] = true) by (cbn [rows_ok forallb]; rewrite Hokv; reflexivity).
      destruct (IH (closed ++ [cur]) [v] s1 s' HJ1 Hok1 Hokvs Hloop) as [c' [u' [H1 [H2 [H3 H5]]]]].
      exists c', u'. split; [exact H1|]. split; [exact H2|]. split.
      * rewrite H3, concat_app. cbn [List.concat]. rewrite app_nil_r, <- !app_assoc. reflexivity.
      * intros Hc. apply H5. apply Forall_app. split; [exact Hc|]. constructor; [exact Hokc|constructor].
Qed.

(* ---- reading the pages back with GetAt ------------------------------------------- *)
Lemma nth_error_split {A} (l : list A) i p :
  nth_error l i = Some p -> l = firstn i l ++ p :: skipn (S i) l.
Proof.
  revert i. induction l as [|x l IH]; intros [|i] H; cbn in H; try discriminate.
  - inversion H. reflexivity.
  - cbn [firstn skipn app]. f_equal. apply IH. exact H.
Qed.

Lemma nth_error_snoc_cases {A} (l : list A) x i p :
  nth_error (l ++ [x]) i = Some p ->
  ((i < List.length l)%nat /\ nth_error l i = Some p) \/ (i = List.length l /\ p = x).
Proof.
  intros H. destruct (Nat.lt_ge_cases i (List.length l)) as [Hlt|Hge].
  - left. split; [exact Hlt|]. rewrite nth_error_app1 in H by exact Hlt. exact H.
  - right. rewrite nth_error_app2 in H by exact Hge.
    destruct (i - List.length l)%nat as [|k] eqn:E.
    + cbn in H. inversion H. split; [lia|reflexivity].
    + cbn in H. destruct k; discriminate.
Qed.

Lemma nth_error_map_seq {B} (f : nat -> B) k n i : (i < n)%nat -> nth_error (map f (seq k n)) i = Some (f (k + i)%nat).
Proof.
  intros H. rewrite nth_error_map. rewrite nth_error_nth' with (d := 0%nat) by (rewrite seq_length; exact H).
  rewrite seq_nth by exact H. reflexivity.
Qed.

Lemma len_flat_firstn_le closed k : len (flat (firstn k closed)) <= len (flat closed).
Proof.
  rewrite <- (firstn_skipn k closed) at 2. rewrite flat_app, len_app. lia.
Qed.

Lemma w32_small x : x < 4294967296 -> w32 x = x.
Proof. intros H. unfold w32. apply N.mod_small. exact H. Qed.
Lemma w16_small x : x < 65536 -> w16 x = x.
Proof. intros H. unfold w16. apply N.mod_small. exact H. Qed.

Lemma sink_page_of_pages closed cur i p :
  let pages := closed ++ [cur] in
  let r := flat closed ++ pjoin cur in
  let cs := map (cursor_at closed) (seq 0 (S (List.length closed))) in
  Forall (fun q => rows_ok q = true) pages -> Forall (fun q => q <> []) pages ->
  len r < 4294967296 -> N.of_nat (S (List.length closed)) < 65536 ->
  nth_error pages i = Some p ->
  sink_page r cs (N.of_nat i) = Ok (join_with [nl] p).
Proof.
  intros pages r cs Hok Hne Hr Hn Hnth.
  assert (Hi : (i < S (List.length closed))%nat).
  { assert (H : nth_error pages i <> None) by congruence. apply nth_error_Some in H.
    unfold pages in H. rewrite app_length in H. cbn in H. lia. }
  assert (Hlen : len cs = N.of_nat (S (List.length closed))).
  { unfold cs, len. rewrite map_length, seq_length. reflexivity. }
  unfold sink_page. rewrite Hlen, (w16_small _ Hn).
  destruct (N.of_nat (S (List.length closed)) <=? N.of_nat i) eqn:E; [lia|]. clear E.
  rewrite Nat2N.id. unfold cs. rewrite nth_error_map_seq by exact Hi. cbn [Nat.add].
  assert (Hpok : rows_ok p = true).
  { rewrite Forall_forall in Hok. apply Hok. eapply nth_error_In. exact Hnth. }
  assert (Hpne : p <> []).
  { rewrite Forall_forall in Hne. apply Hne. eapply nth_error_In. exact Hnth. }
  assert (Hcle : len (flat (firstn i closed)) <= len r).
  { unfold r. rewrite len_app. pose proof (len_flat_firstn_le closed i). lia. }
  rewrite (w32_small (len r)) by exact Hr. unfold cursor_at.
  rewrite (w32_small (len (flat (firstn i closed)))) by lia.
  destruct (len r <? len (flat (firstn i closed))) eqn:E; [lia|]. clear E.
  destruct (nth_error_snoc_cases closed cur i p Hnth) as [[Hlt Hnc]|[-> ->]].
  - pose proof (nth_error_split closed i p Hnc) as Hsplit.
    assert (Hr2 : r = flat (firstn i closed) ++ pjoin p ++ nl :: (flat (skipn (S i) closed) ++ pjoin cur)).
    { unfold r. rewrite Hsplit at 1. rewrite flat_app.
      change (p :: skipn (S i) closed) with ([p] ++ skipn (S i) closed). rewrite flat_app.
      unfold flat at 2. cbn [map List.concat]. rewrite app_nil_r. rewrite <- !app_assoc. reflexivity. }
    rewrite Hr2. rewrite drop_app_exact by reflexivity.
    rewrite index_of_app by (apply pjoin_no_lf; exact Hpok).
    assert (Hpl : 0 < len (pjoin p)).
    { pose proof (pjoin_nonempty p Hpne Hpok) as Hq. destruct (pjoin p); [congruence|]. rewrite len_cons. lia. }
    destruct (0 <? len (pjoin p)) eqn:E; [|lia]. clear E.
    rewrite take_app_exact by reflexivity. rewrite nul_to_lf_pjoin by exact Hpok. reflexivity.
  - rewrite firstn_all. unfold r. rewrite drop_app_exact by reflexivity.
    rewrite index_of_notin by (apply pjoin_no_lf; exact Hpok).
    rewrite nul_to_lf_pjoin by exact Hpok. reflexivity.
Qed.

(* total size of the rows with their separators: len (flattened sink) + 1 *)
Definition rows_size (vs : list bytes) : N := fold_right (fun v a => len v + 1 + a) 0 vs.

Lemma rows_size_cons x l : rows_size (x :: l) = len x + 1 + rows_size l.
Proof. reflexivity. Qed.

Lemma rows_size_app a b : rows_size (a ++ b) = rows_size a + rows_size b.
Proof.
  induction a as [|x a IH]; [reflexivity|].
  change ((x :: a) ++ b) with (x :: (a ++ b)). rewrite !rows_size_cons, IH. lia.
Qed.

Lemma len_pjoin p : p <> [] -> len (pjoin p) + 1 = rows_size p.
Proof.
  induction p as [|x p IH]; intros H; [congruence|]. unfold pjoin in *.
  destruct p as [|y p].
  - cbn [join_with]. rewrite rows_size_cons. change (rows_size []) with 0. lia.
  - rewrite join_with_cons2, !len_app. rewrite (rows_size_cons x).
    rewrite <- IH by discriminate. change (len [0]) with 1. lia.
Qed.

Lemma len_flat closed : Forall (fun q => q <> []) closed -> len (flat closed) = rows_size (List.concat closed).
Proof.
  induction closed as [|p closed IH]; intros H; [reflexivity|].
  inversion H as [|? ? Hp Hc]; subst.
  change (p :: closed) with ([p] ++ closed). rewrite flat_app. unfold flat at 1. cbn [map List.concat].
  rewrite app_nil_r, !len_app. cbn [app List.concat]. rewrite rows_size_app, <- IH by exact Hc.
  rewrite <- len_pjoin by exact Hp. change (len [nl]) with 1. lia.
Qed.

Lemma map_seq_nth {A} (f : nat -> A) (l : list A) k :
  (forall i p, nth_error l i = Some p -> f (k + i)%nat = p) -> map f (seq k (List.length l)) = l.
Proof.
  revert k. induction l as [|x l IH]; intros k H; [reflexivity|].
  cbn [List.length seq map]. f_equal.
  - specialize (H 0%nat x eq_refl). rewrite Nat.add_0_r in H. exact H.
  - apply IH. intros i p Hi. specialize (H (S i) p Hi). rewrite <- H. f_equal. lia.
Qed.

Definition pages_of (r : bytes) (cs : list N) (n : N) : list (res bytes) :=
  map (fun i => sink_page r cs (N.of_nat i)) (seq 0 (N.to_nat n)).

(* The partition theorem, in terms of an explicit list of pages. *)
Lemma join_sink_pages vs remaining ms r n cs :
  vs <> [] -> rows_ok vs = true -> rows_size vs < 4294967296 -> len vs < 65536 ->
  join_sink vs remaining ms [0] = (Ok (r, n), cs) ->
  exists pages : list (list bytes),
    List.concat pages = vs
    /\ Forall (fun q => q <> []) pages
    /\ len pages = n /\ len cs = n
    /\ (forall i p, nth_error pages i = Some p -> sink_page r cs (N.of_nat i) = Ok (join_with [nl] p))
    /\ (forall i, n <= i -> sink_page r cs i = Err EGen).
Proof.
  intros Hvs Hok Hsz Hlen. unfold join_sink.
  destruct (js_loop (ms_prev ms) (js_init vs remaining ms [0]) vs) as [[|] s] eqn:Eloop; [|discriminate].
  assert (HJ0 : JInv [0] [] [] (js_init vs remaining ms [0])).
  { constructor; cbn; try reflexivity; try congruence. constructor. }
  destruct (js_loop_inv _ [0] vs [] [] _ s HJ0 eq_refl Hok Eloop) as [closed [cur [HJ [Hokc [Hcat Hokcl]]]]].
  cbn [List.concat app] in Hcat. specialize (Hokcl (Forall_nil _)).
  destruct HJ as [Hrb Htb Hcrs Hcnt Hcur Hpg].
  assert (Hcne : cur <> []).
  { destruct closed as [|q closed]; [|apply Hcur; discriminate]. cbn in Hcat. congruence. }
  assert (Htbne : pjoin cur <> []) by (apply pjoin_nonempty; assumption).
  assert (Htl : 0 < len (j_tb s)).
  { rewrite Htb. destruct (pjoin cur); [congruence|]. rewrite len_cons. lia. }
  destruct (0 <? len (j_tb s)) eqn:E; [|lia]. clear E.
  intros Hres. injection Hres as Hr Hn Hcs.
  destruct (pjoin_last_not_lf cur Hcne Hokc) as [b [x [Eb Hx]]].
  assert (Hreq : r = flat closed ++ pjoin cur).
  { rewrite <- Hr, Hrb, Htb, Eb, app_assoc. rewrite trim_right_lf_id by exact Hx. reflexivity. }
  set (pages := closed ++ [cur]).
  assert (Hpne : Forall (fun q => q <> []) pages).
  { apply Forall_app. split; [exact Hpg|]. constructor; [exact Hcne|constructor]. }
  assert (Hpok : Forall (fun q => rows_ok q = true) pages).
  { apply Forall_app. split; [exact Hokcl|]. constructor; [exact Hokc|constructor]. }
  assert (Hcatp : List.concat pages = vs).
  { unfold pages. rewrite concat_app. cbn [List.concat]. rewrite app_nil_r. exact Hcat. }
  assert (Hnpages : (List.length pages <= List.length vs)%nat).
  { rewrite <- Hcatp. clear - Hpne. induction pages as [|q pages IH]; [cbn; lia|].
    inversion Hpne as [|? ? Hq Hr]; subst. cbn [List.concat List.length]. rewrite app_length.
    specialize (IH Hr). destruct q; [congruence|]. cbn [List.length]. lia. }
  assert (Hnlt : N.of_nat (S (List.length closed)) < 65536).
  { unfold pages in Hnpages. rewrite app_length in Hnpages. cbn [List.length] in Hnpages. unfold len in Hlen. lia. }
  assert (Hrlen : len r < 4294967296).
  { rewrite Hreq, len_app, len_flat by exact Hpg.
    pose proof (len_pjoin cur Hcne). rewrite <- Hcat, rows_size_app in Hsz. lia. }
  assert (Hcs2 : cs = map (cursor_at closed) (seq 0 (S (List.length closed)))).
  { rewrite <- Hcs, Hcrs. cbn [seq map app]. f_equal. }
  assert (Hn2 : n = N.of_nat (S (List.length closed))).
  { rewrite <- Hn, Hcnt. unfold w16. rewrite N.add_mod_idemp_l by lia.
    rewrite N.mod_small by lia. lia. }
  exists pages. split; [exact Hcatp|]. split; [exact Hpne|]. split; [|split; [|split]].
  - unfold pages, len. rewrite app_length. cbn [List.length]. lia.
  - rewrite Hcs2. unfold len. rewrite map_length, seq_length. lia.
  - intros i p Hnth. rewrite Hcs2. rewrite Hreq in Hrlen |- *.
    apply sink_page_of_pages; [exact Hpok|exact Hpne|exact Hrlen|exact Hnlt|exact Hnth].
  - intros i Hi. unfold sink_page.
    assert (Hl : len cs = n) by (rewrite Hcs2; unfold len; rewrite map_length, seq_length; lia).
    rewrite Hl, w16_small by lia. destruct (n <=? i) eqn:E; [reflexivity|lia].
Qed.

(* ---- budget: every page, with the browse entries it carries, fits `remaining` -------- *)
Lemma sub32_small a b : b <= a -> a < 4294967296 -> sub32 a b = a - b.
Proof.
  intros Hb Ha. unfold sub32. rewrite (N.mod_small b) by lia.
  replace (a + 4294967296 - b) with ((a - b) + 1 * 4294967296) by lia.
  rewrite N.mod_add by lia. apply N.mod_small. lia.
Qed.

Definition maxlen (vs : list bytes) : N := fold_right (fun v m => N.max (len v) m) 0 vs.

Lemma maxlen_cons v vs : maxlen (v :: vs) = N.max (len v) (maxlen vs).
Proof. reflexivity. Qed.

Lemma maxlen_In v vs : In v vs -> len v <= maxlen vs.
Proof.
  induction vs as [|x vs IH]; [intros []|]. rewrite maxlen_cons. intros [->|H]; [lia|].
  specialize (IH H). lia.
Qed.

(* budget_ok: one row, both browse entries and the separators fit in what is left *)
Definition budget_ok (vs : list bytes) (remaining : N) (ms : N * N * N * N) : bool :=
  (ms_next ms + ms_prev ms + 4 + maxlen vs <=? remaining) && (remaining <? 2147483648).

(* netRemaining while page k is being filled *)
Definition net0 (R nx : N) (multi : bool) : N := R - 1 - (if multi then nx + 1 else 0).
Definition page_bound (R nx pv : N) (multi : bool) (k : nat) : N :=
  match k with O => net0 R nx multi | S _ => net0 R nx multi - (pv + 1) end.

Record LInv (R nx pv : N) (multi : bool) (closed : list (list bytes)) (cur : list bytes) (s : jstate)
  (rest : list bytes) : Prop := {
  li_l : j_l s = len (j_tb s);
  li_net : j_net s = page_bound R nx pv multi (List.length closed);
  li_cur : len (pjoin cur) <= page_bound R nx pv multi (List.length closed);
  li_closed : forall k p, nth_error closed k = Some p -> len (pjoin p) <= page_bound R nx pv multi k;
  li_cnt : N.of_nat (List.length closed) + N.of_nat (List.length rest) < 65536
}.

Lemma page_bound_S R nx pv multi k : page_bound R nx pv multi (S k) = net0 R nx multi - (pv + 1).
Proof. reflexivity. Qed.

Lemma js_step_linv R nx pv multi crs0 closed cur s v rest :
  JInv crs0 closed cur s -> LInv R nx pv multi closed cur s (v :: rest) ->
  rows_ok cur = true -> row_ok v = true ->
  R < 2147483648 -> nx + pv + 4 + len v <= R ->
  exists s', js_step pv s v = Some s'
    /\ ((JInv crs0 closed (cur ++ [v]) s' /\ LInv R nx pv multi closed (cur ++ [v]) s' rest)
        \/ (cur <> [] /\ JInv crs0 (closed ++ [cur]) [v] s' /\ LInv R nx pv multi (closed ++ [cur]) [v] s' rest)).
Proof.
  intros HJ HL Hokc Hokv HR Hb.
  pose proof HJ as [Hrb Htb Hcrs Hcnt Hcur Hpg].
  destruct HL as [Hl Hnet Hcb Hclb Hc].
  cbn [List.length] in Hc.
  assert (Hn0 : net0 R nx multi >= pv + 2 + len v) by (unfold net0; destruct multi; lia).
  assert (Hnetge : j_net s >= 1 + len v).
  { rewrite Hnet. destruct (List.length closed); [cbn [page_bound]; lia|rewrite page_bound_S; lia]. }
  assert (Hnetlt : j_net s < 2147483648).
  { rewrite Hnet. destruct (List.length closed); [cbn [page_bound]|rewrite page_bound_S]; unfold net0; lia. }
  assert (Htbl : len (j_tb s) <= j_net s) by (rewrite Htb, Hnet; exact Hcb).
  assert (Hs1 : sub32 (j_net s) 1 = j_net s - 1) by (apply sub32_small; lia).
  assert (Hw : w32 (j_l s + len v) = j_l s + len v) by (apply w32_small; rewrite Hl; lia).
  destruct (js_step pv s v) as [s'|] eqn:Estep.
  - exists s'. split; [reflexivity|].
    destruct (js_step_inv pv crs0 closed cur s v s' HJ Hokc Hokv Estep) as [[Ebr HJ1]|[Ebr [Hne HJ1]]].
    + left. split; [exact HJ1|].
      unfold js_step in Estep. rewrite Ebr in Estep. rewrite Hs1, Hw in Ebr.
      destruct (0 <? len (j_tb s)) eqn:Etb; inversion Estep; subst s'; clear Estep;
        constructor; cbn [j_l j_tb j_net]; try assumption; try lia.
      * rewrite len_app, len_cons. lia.
      * destruct HJ1 as [_ Htb1 _ _ _ _]. cbn [j_tb] in Htb1. rewrite <- Htb1, <- Hnet.
        rewrite len_app, len_cons. lia.
      * rewrite len_app. lia.
      * destruct HJ1 as [_ Htb1 _ _ _ _]. cbn [j_tb] in Htb1. rewrite <- Htb1, <- Hnet.
        rewrite len_app. lia.
    + right. split; [exact Hne|]. split; [exact HJ1|].
      unfold js_step in Estep. rewrite Ebr in Estep.
      destruct (len (j_tb s) =? 0) eqn:Etb; [discriminate|]. inversion Estep; subst s'; clear Estep.
      assert (Hcl : N.of_nat (List.length closed) < 65536) by lia.
      assert (Hcnt0 : (j_count s =? 0) = match List.length closed with O => true | S _ => false end).
      { rewrite Hcnt, w16_small by exact Hcl. destruct (List.length closed); [reflexivity|].
        apply N.eqb_neq. lia. }
      constructor; cbn [j_l j_tb j_net].
      * reflexivity.
      * rewrite app_length. cbn [List.length]. rewrite Nat.add_1_r, page_bound_S. rewrite Hcnt0.
        destruct (List.length closed) eqn:El.
        -- rewrite Hnet. cbn [page_bound]. rewrite w32_small by lia. apply sub32_small; [lia|].
           unfold net0. lia.
        -- rewrite Hnet, page_bound_S. reflexivity.
      * rewrite app_length. cbn [List.length]. rewrite Nat.add_1_r, page_bound_S.
        unfold pjoin. cbn [join_with]. lia.
      * intros k p Hk. destruct (nth_error_snoc_cases closed cur k p Hk) as [[_ Hk1]|[-> ->]].
        -- apply Hclb. exact Hk1.
        -- exact Hcb.
      * rewrite app_length. cbn [List.length]. lia.
  - exfalso. unfold js_step in Estep.
    destruct (sub32 (j_net s) 1 <? w32 (j_l s + len v)) eqn:Ebr.
    + destruct (len (j_tb s) =? 0) eqn:Etb; [|discriminate].
      rewrite Hs1, Hw, Hl in Ebr.
      assert (Hcur0 : cur = []).
      { destruct cur as [|x cur]; [reflexivity|]. exfalso.
        assert (Hn : pjoin (x :: cur) <> []) by (apply pjoin_nonempty; [discriminate|exact Hokc]).
        rewrite Htb in Etb. destruct (pjoin (x :: cur)); [congruence|]. rewrite len_cons in Etb. lia. }
      assert (Hcl0 : closed = []).
      { destruct closed as [|q closed]; [reflexivity|]. exfalso. apply Hcur; [discriminate|exact Hcur0]. }
      subst closed. cbn [List.length page_bound] in Hnet. lia.
    + destruct (0 <? len (j_tb s)); discriminate.
Qed.

Lemma js_loop_linv R nx pv multi crs0 vs : forall closed cur s,
  JInv crs0 closed cur s -> LInv R nx pv multi closed cur s vs ->
  rows_ok cur = true -> rows_ok vs = true ->
  R < 2147483648 -> Forall (fun v => nx + pv + 4 + len v <= R) vs ->
  Forall (fun p => rows_ok p = true) closed ->
  exists s' closed' cur', js_loop pv s vs = (true, s')
    /\ JInv crs0 closed' cur' s' /\ LInv R nx pv multi closed' cur' s' []
    /\ rows_ok cur' = true /\ Forall (fun p => rows_ok p = true) closed'
    /\ List.concat closed' ++ cur' = List.concat closed ++ cur ++ vs.
Proof.
  induction vs as [|v vs IH]; intros closed cur s HJ HL Hokc Hokvs HR Hb Hokcl.
  - exists s, closed, cur. cbn [js_loop]. rewrite app_nil_r. repeat (split; [assumption || reflexivity|]). reflexivity.
  - cbn [rows_ok forallb] in Hokvs. apply andb_true_iff in Hokvs as [Hokv Hokvs].
    inversion Hb as [|? ? Hbv Hbvs]; subst.
    destruct (js_step_linv R nx pv multi crs0 closed cur s v vs HJ HL Hokc Hokv HR Hbv)
      as [s1 [Estep [[HJ1 HL1]|[Hne [HJ1 HL1]]]]].
    + assert (Hok1 : rows_ok (cur ++ [v]) = true).
      { rewrite rows_ok_app, Hokc. cbn [rows_ok forallb]. rewrite Hokv. reflexivity. }
      destruct (IH closed (cur ++ [v]) s1 HJ1 HL1 Hok1 Hokvs HR Hbvs Hokcl)
        as [s' [c' [u' [E [H1 [H2 [H3 [H4 H5]]]]]]]].
      exists s', c', u'. cbn [js_loop]. rewrite Estep. split; [exact E|].
      repeat (split; [assumption|]). rewrite H5, <- app_assoc. reflexivity.
    + assert (Hok1 : rows_ok [v] = true) by (cbn [rows_ok forallb]; rewrite Hokv; reflexivity).
      assert (Hokcl1 : Forall (fun p => rows_ok p = true) (closed ++ [cur])).
      { apply Forall_app. split; [exact Hokcl|]. constructor; [exact Hokc|constructor]. }
      destruct (IH (closed ++ [cur]) [v] s1 HJ1 HL1 Hok1 Hokvs HR Hbvs Hokcl1)
        as [s' [c' [u' [E [H1 [H2 [H3 [H4 H5]]]]]]]].
      exists s', c', u'. cbn [js_loop]. rewrite Estep. split; [exact E|].
      repeat (split; [assumption|]).
      rewrite H5, concat_app. cbn [List.concat]. rewrite app_nil_r, <- !app_assoc. reflexivity.
Qed.

Lemma len_join_with_sep (s1 s2 : bytes) (l : list bytes) :
  len s1 = len s2 -> len (join_with s1 l) = len (join_with s2 l).
Proof.
  intros Hs. induction l as [|x l IH]; [reflexivity|]. destruct l as [|y l]; [reflexivity|].
  rewrite !join_with_cons2, !len_app, IH, Hs. reflexivity.
Qed.

Lemma join_sink_of_inv vs R ms closed cur s :
  js_loop (ms_prev ms) (js_init vs R ms [0]) vs = (true, s) ->
  JInv [0] closed cur s -> cur <> [] -> rows_ok cur = true ->
  N.of_nat (S (List.length closed)) < 65536 ->
  join_sink vs R ms [0]
  = (Ok (flat closed ++ pjoin cur, N.of_nat (S (List.length closed))),
     map (cursor_at closed) (seq 0 (S (List.length closed)))).
Proof.
  intros Eloop [Hrb Htb Hcrs Hcnt Hcur Hpg] Hcne Hokc Hn.
  unfold join_sink. rewrite Eloop.
  assert (Htbne : pjoin cur <> []) by (apply pjoin_nonempty; assumption).
  assert (Htl : 0 < len (j_tb s)).
  { rewrite Htb. destruct (pjoin cur); [congruence|]. rewrite len_cons. lia. }
  destruct (0 <? len (j_tb s)) eqn:E; [|lia]. clear E.
  destruct (pjoin_last_not_lf cur Hcne Hokc) as [b [x [Eb Hx]]].
  f_equal; [f_equal; f_equal|].
  - rewrite Hrb, Htb, Eb, app_assoc. apply trim_right_lf_id. exact Hx.
  - rewrite Hcnt. unfold w16. rewrite N.add_mod_idemp_l by lia. rewrite N.mod_small by lia. lia.
  - rewrite Hcrs. cbn [seq map app]. f_equal.
Qed.

(* bytes taken by the browse entries on page i of n: Menu.Sizes' numbers plus one LF each *)
Definition nav (ms : N * N * N * N) (i n : N) : N :=
  (if i + 1 <? n then ms_next ms + 1 else 0) + (if 0 <? i then ms_prev ms + 1 else 0).

Lemma join_sink_budget vs R ms :
  vs <> [] -> rows_ok vs = true -> rows_size vs < 4294967296 -> len vs < 65536 ->
  budget_ok vs R ms = true ->
  exists r n cs (pages : list (list bytes)),
    join_sink vs R ms [0] = (Ok (r, n), cs)
    /\ List.concat pages = vs /\ len pages = n
    /\ (forall i p, nth_error pages i = Some p ->
          sink_page r cs (N.of_nat i) = Ok (join_with [nl] p)
          /\ len (join_with [nl] p) + nav ms (N.of_nat i) n <= R).
Proof.
  intros Hvs Hok Hsz Hlen Hb. unfold budget_ok in Hb. apply andb_true_iff in Hb as [Hb HR].
  set (nx := ms_next ms) in *. set (pv := ms_prev ms) in *.
  set (multi := 1 <? len vs).
  assert (HJ0 : JInv [0] [] [] (js_init vs R ms [0])).
  { constructor; cbn; try reflexivity; try congruence. constructor. }
  assert (Hs32 : forall a b, b <= a -> a < 4294967296 -> sub32 a b = a - b) by (intros; apply sub32_small; assumption).
  assert (HL0 : LInv R nx pv multi [] [] (js_init vs R ms [0]) vs).
  { constructor; cbn [List.length page_bound js_init j_l j_tb j_net pjoin join_with]; try reflexivity.
    - unfold net0, multi. rewrite (Hs32 R 1) by lia. destruct (1 <? len vs); [|lia].
      fold nx. rewrite w32_small by lia. apply Hs32; lia.
    - change (len []) with 0. lia.
    - intros k p Hk. destruct k; discriminate.
    - unfold len in Hlen. lia. }
  assert (Hbs : Forall (fun v => nx + pv + 4 + len v <= R) vs).
  { apply Forall_forall. intros v Hv. pose proof (maxlen_In v vs Hv). lia. }
  destruct (js_loop_linv R nx pv multi [0] vs [] [] _ HJ0 HL0 eq_refl Hok ltac:(lia) Hbs (Forall_nil _))
    as [s [closed [cur [Eloop [HJ [HL [Hokc [Hokcl Hcat]]]]]]]].
  cbn [List.concat app] in Hcat.
  pose proof HJ as [_ _ _ _ Hcur Hpg].
  assert (Hcne : cur <> []).
  { destruct closed as [|q closed]; [|apply Hcur; discriminate]. cbn in Hcat. congruence. }
  destruct HL as [_ _ Hcb Hclb Hc]. cbn [List.length] in Hc.
  set (pages := closed ++ [cur]).
  assert (Hpne : Forall (fun q => q <> []) pages).
  { apply Forall_app. split; [exact Hpg|]. constructor; [exact Hcne|constructor]. }
  assert (Hpok : Forall (fun q => rows_ok q = true) pages).
  { apply Forall_app. split; [exact Hokcl|]. constructor; [exact Hokc|constructor]. }
  assert (Hcatp : List.concat pages = vs).
  { unfold pages. rewrite concat_app. cbn [List.concat]. rewrite app_nil_r. exact Hcat. }
  assert (Hnpages : (List.length pages <= List.length vs)%nat).
  { rewrite <- Hcatp. clear - Hpne. induction pages as [|q pages IH]; [cbn; lia|].
    inversion Hpne as [|? ? Hq Hr]; subst. cbn [List.concat List.length]. rewrite app_length.
    specialize (IH Hr). destruct q; [congruence|]. cbn [List.length]. lia. }
  assert (Hn : N.of_nat (S (List.length closed)) < 65536).
  { unfold pages in Hnpages. rewrite app_length in Hnpages. cbn [List.length] in Hnpages. unfold len in Hlen. lia. }
  assert (Hrlen : len (flat closed ++ pjoin cur) < 4294967296).
  { rewrite len_app, len_flat by exact Hpg.
    pose proof (len_pjoin cur Hcne). rewrite <- Hcat, rows_size_app in Hsz. lia. }
  exists (flat closed ++ pjoin cur), (N.of_nat (S (List.length closed))),
         (map (cursor_at closed) (seq 0 (S (List.length closed)))), pages.
  split; [apply (join_sink_of_inv vs R ms closed cur s); assumption|].
  split; [exact Hcatp|].
  split; [unfold pages, len; rewrite app_length; cbn [List.length]; lia|].
  intros i p Hnth. split; [apply sink_page_of_pages; assumption|].
  rewrite (len_join_with_sep [nl] [0]) by reflexivity. fold (pjoin p).
  (* a closed page exists only if there are at least two rows *)
  assert (Hmulti : closed <> [] -> multi = true).
  { intros Hc0. unfold multi. apply N.ltb_lt. rewrite <- Hcat. unfold len. rewrite app_length.
    destruct closed as [|q closed]; [congruence|]. inversion Hpg as [|? ? Hq _]; subst.
    cbn [List.concat]. rewrite app_length. destruct q; [congruence|]. destruct cur; [congruence|].
    cbn [List.length]. lia. }
  unfold nav. fold nx pv.
  destruct (nth_error_snoc_cases closed cur i p Hnth) as [[Hlt Hk]|[-> ->]].
  - specialize (Hclb i p Hk). assert (Hm : multi = true) by (apply Hmulti; destruct closed; [cbn in Hlt; lia|discriminate]).
    destruct (N.of_nat i + 1 <? N.of_nat (S (List.length closed))) eqn:E1; [|lia].
    destruct i as [|i].
    + cbn [page_bound] in Hclb. unfold net0 in Hclb. rewrite Hm in Hclb. cbn [N.of_nat]. cbn [N.ltb N.compare]. lia.
    + rewrite page_bound_S in Hclb. unfold net0 in Hclb. rewrite Hm in Hclb.
      destruct (0 <? N.of_nat (S i)) eqn:E2; lia.
  - destruct (N.of_nat (List.length closed) + 1 <? N.of_nat (S (List.length closed))) eqn:E1; [lia|].
    destruct (List.length closed) as [|k] eqn:El.
    + cbn [page_bound] in Hcb. unfold net0 in Hcb. cbn [N.of_nat N.ltb N.compare]. destruct multi; lia.
    + rewrite page_bound_S in Hcb. unfold net0 in Hcb.
      assert (Hm : multi = true) by (apply Hmulti; intros ->; discriminate). rewrite Hm in Hcb.
      destruct (0 <? N.of_nat (S k)) eqn:E2; lia.
Qed.

(* ================================================================== the menu ===== *)
Lemma menu_apply_page_browse m i m' :
  b_next_avail (m_browse m) = true -> b_prev_avail (m_browse m) = true ->
  0 < m_page_count m -> menu_apply_page m i = Ok m' ->
  i < m_page_count m
  /\ m_can_next m' = (i + 1 <? m_page_count m)
  /\ m_can_prev m' = (0 <? i)
  /\ m_items m' = m_items m
       ++ (if i + 1 <? m_page_count m then [(b_next_sel (m_browse m), b_next_title (m_browse m))] else [])
       ++ (if 0 <? i then [(b_prev_sel (m_browse m), b_prev_title (m_browse m))] else [])
  /\ m_page_count m' = m_page_count m /\ m_browse m' = m_browse m /\ m_sep m' = m_sep m
  /\ m_keep m' = m_keep m /\ m_has_rs m' = m_has_rs m /\ m_sink m' = m_sink m.
Proof.
  intros Hn Hp Hpc. unfold menu_apply_page.
  destruct (m_page_count m =? 0) eqn:E0; [lia|].
  destruct (m_page_count m <=? i) eqn:E1; [discriminate|].
  intros E. inversion E; subst m'; clear E.
  unfold menu_reset_flags, set_can, set_items. cbn [m_items m_browse m_page_count m_can_next m_can_prev m_sink m_keep m_sep m_has_rs].
  rewrite Hn, Hp.
  assert (Ha : (i =? m_page_count m - 1) = negb (i + 1 <? m_page_count m)) by lia.
  assert (Hb : (i =? 0) = negb (0 <? i)) by lia.
  rewrite Ha, Hb.
  destruct (i + 1 <? m_page_count m), (0 <? i); cbn [negb]; repeat split; try reflexivity; lia.
Qed.

(* past the last page the menu refuses: BrowseError, or the plain error of a non-paged menu *)
Lemma menu_render_past_end gm m i :
  m_page_count m <= i -> 0 < i ->
  fst (menu_render_st gm m i) = Err EBrowse \/ fst (menu_render_st gm m i) = Err EGen.
Proof.
  intros H1 H2. unfold menu_render_st, menu_apply_page.
  destruct (m_page_count m =? 0) eqn:E0.
  - destruct (0 <? i) eqn:E; [|lia]. right. reflexivity.
  - destruct (m_page_count m <=? i) eqn:E1; [|lia]. left. reflexivity.
Qed.

(* ================================================================= the sizer ===== *)
Lemma sink_page_no_panic v crs idx : is_panic (sink_page v crs idx) = false.
Proof.
  unfold sink_page. destruct (w16 (len crs) <=? idx) eqn:E; [reflexivity|].
  destruct (nth_error crs (N.to_nat idx)) as [c|] eqn:En.
  - destruct (w32 (len v) <? c); reflexivity.
  - exfalso. apply nth_error_None in En.
    assert (w16 (len crs) <= len crs) by (unfold w16; apply N.mod_le; lia).
    unfold len in *. lia.
Qed.

Lemma sizer_check_fits z s r : 0 < z_out z -> len s < 4294967296 -> sizer_check z s = (r, true) -> len s <= z_out z.
Proof.
  intros Hz Hs. unfold sizer_check. rewrite w32_small by exact Hs.
  destruct (0 <? z_out z) eqn:E; [|lia].
  destruct (z_out z <? len s) eqn:E2; intros H; inversion H. lia.
Qed.

(* ================================================================== the page ===== *)
Definition page_out (pg : page) : option N := option_map z_out (p_sizer pg).

Lemma inner_sizer gt gm pg sym vals idx :
  p_sizer (snd (page_render_inner gt gm pg sym vals idx)) = p_sizer pg.
Proof.
  unfold page_render_inner. destruct (render_template gt pg sym vals idx); try reflexivity.
  destruct (p_menu pg) as [m|].
  - destruct (menu_render_st gm m idx) as [[ms|e|p] m']; try reflexivity.
    change (p_sizer (page_set_menu pg (Some m'))) with (p_sizer pg).
    destruct (p_sizer pg) as [z|] eqn:Ez; [|cbn; exact Ez].
    destruct (snd (sizer_check z (a ++ (if 0 <? len ms then nl :: ms else [])))); cbn; exact Ez.
  - destruct (p_sizer pg) as [z|] eqn:Ez; [|cbn; exact Ez].
    destruct (snd (sizer_check z a)); cbn; exact Ez.
Qed.

(* the obligation of C01: nothing is appended after the final Sizer.Check *)
Lemma inner_fits gt gm pg sym vals idx out pg' z :
  p_sizer pg = Some z -> 0 < z_out z -> len out < 4294967296 ->
  page_render_inner gt gm pg sym vals idx = (Ok out, pg') -> len out <= z_out z.
Proof.
  intros Hz Hout Hlen. unfold page_render_inner.
  destruct (render_template gt pg sym vals idx) as [s|e|p]; try discriminate.
  destruct (p_menu pg) as [m|].
  - destruct (menu_render_st gm m idx) as [[ms|e|p] m']; try discriminate.
    cbn [p_sizer page_set_menu]. rewrite Hz.
    destruct (sizer_check z (s ++ (if 0 <? len ms then nl :: ms else []))) as [r ok] eqn:Ec.
    cbn [snd]. destruct ok; [|discriminate]. intros E. inversion E; subst.
    eapply sizer_check_fits; eassumption.
  - rewrite Hz. destruct (sizer_check z s) as [r ok] eqn:Ec. cbn [snd].
    destruct ok; [|discriminate]. intros E. inversion E; subst.
    eapply sizer_check_fits; eassumption.
Qed.

Lemma prep_write_out aliased pg vals k v : page_out (snd (prep_write aliased pg vals k v)) = page_out pg.
Proof. unfold prep_write. destruct aliased; reflexivity. Qed.

Lemma page_out_set_sizer pg (f : sizer -> sizer) :
  (forall z, z_out (f z) = z_out z) -> page_out (page_set_sizer pg (option_map f (p_sizer pg))) = page_out pg.
Proof. intros H. unfold page_out. cbn [p_sizer page_set_sizer]. destruct (p_sizer pg); cbn; [rewrite H|]; reflexivity. Qed.

Lemma inner_out gt gm pg sym vals idx : page_out (snd (page_render_inner gt gm pg sym vals idx)) = page_out pg.
Proof. unfold page_out. rewrite inner_sizer. reflexivity. Qed.

(* prepare never changes the output size of the sizer *)
Lemma prepare_out c gt gm pg sym idx : page_out (snd (page_prepare c gt gm pg sym idx)) = page_out pg.
Proof.
  unfold page_prepare.
  destruct (p_sizer pg) as [z0|] eqn:Ez0; [|reflexivity].
  destruct (page_split c (p_map pg)) as [[[nsv0 sink0] svs0]|e|p]; try reflexivity.
  set (aliased := match sink0 with [] => true | _ => false end).
  match goal with |- page_out (snd (match ?S with _ => _ end)) = _ => set (step1 := S) end.
  assert (Hs1 : page_out (snd step1) = page_out pg).
  { unfold step1. destruct (p_menu pg) as [m|]; [|reflexivity].
    destruct (m_sink m); [|reflexivity].
    destruct (negb aliased); [reflexivity|].
    destruct (menu_render_st gm (menu_with_pages (menu_with_dispose m)) 0) as [[s|e|p] m2]; try reflexivity.
    match goal with |- page_out (snd (let '(a, b) := ?P in _)) = _ => destruct P as [nsv1 pg3] eqn:Ew end.
    cbn [snd]. replace pg3 with (snd (prep_write aliased
      (page_set_sizer (page_set_extra (page_set_menu pg (Some m2)) menu_sink_extra)
        (option_map (fun z => sizer_set_sink z menu_sink_key)
           (p_sizer (page_set_extra (page_set_menu pg (Some m2)) menu_sink_extra)))) nsv0 menu_sink_key []))
      by (rewrite Ew; reflexivity).
    rewrite prep_write_out. rewrite page_out_set_sizer by reflexivity. reflexivity. }
  destruct step1 as [[[[nsv sink] svs]|e|p] pg1]; cbn [snd] in Hs1; try exact Hs1.
  set (pg2 := page_set_sizer pg1 (option_map (fun z => sizer_add_cursor z 0) (p_sizer pg1))).
  assert (Hp2 : page_out pg2 = page_out pg).
  { unfold pg2. rewrite page_out_set_sizer by reflexivity. exact Hs1. }
  destruct (page_render_inner gt gm pg2 sym nsv 0) as [[s|e|p] pg3] eqn:Ei;
    pose proof (inner_out gt gm pg2 sym nsv 0) as Hi; rewrite Ei in Hi; cbn [snd] in Hi;
    try (cbn [snd]; rewrite Hi; exact Hp2).
  destruct (p_sizer pg3) as [z|] eqn:Ez3; [|cbn [snd]; rewrite Hi; exact Hp2].
  destruct (sizer_check z s) as [remaining ok].
  destruct (negb ok); [cbn [snd]; rewrite Hi; exact Hp2|].
  destruct (match p_menu pg3 with Some m => menu_sizes m | None => Ok ms_zero end) as [ms|e|p];
    try (cbn [snd]; rewrite Hi; exact Hp2).
  destruct (join_sink svs remaining ms (z_crsrs z)) as [jr crs'].
  assert (Hp4 : page_out (page_set_sizer pg3 (Some (sizer_set_crsrs z crs'))) = page_out pg).
  { rewrite <- Hp2, <- Hi. unfold page_out. cbn [p_sizer page_set_sizer option_map]. rewrite Ez3. reflexivity. }
  destruct jr as [[sink_string count]|e|p]; try (cbn [snd]; exact Hp4).
  match goal with |- page_out (snd (let '(a, b) := ?P in _)) = _ => destruct P as [nsv' pg5] eqn:Ew end.
  cbn [snd]. unfold page_out. cbn [p_sizer page_set_menu]. fold (page_out pg5).
  replace pg5 with (snd (prep_write aliased (page_set_sizer pg3 (Some (sizer_set_crsrs z crs'))) nsv sink sink_string))
    by (rewrite Ew; reflexivity).
  rewrite prep_write_out. exact Hp4.
Qed.

Lemma page_render_fits c gt gm pg sym idx out pg' z :
  p_sizer pg = Some z -> 0 < z_out z -> len out < 4294967296 ->
  page_render c gt gm pg sym idx = (Ok out, pg') -> len out <= z_out z.
Proof.
  intros Hz Hout Hlen. unfold page_render.
  destruct (page_prepare c gt gm pg sym idx) as [[vals|e|p] pg1] eqn:Ep; try discriminate.
  pose proof (prepare_out c gt gm pg sym idx) as Ho. rewrite Ep in Ho. cbn [snd] in Ho.
  unfold page_out in Ho. rewrite Hz in Ho. cbn [option_map] in Ho.
  destruct (p_sizer pg1) as [z1|] eqn:Ez1; [|discriminate]. cbn [option_map] in Ho. injection Ho as Hzz.
  intros Hr. assert (len out <= z_out z1); [|lia]. eapply inner_fits; [exact Ez1|lia|exact Hlen|exact Hr].
Qed.

(* ---- what an Ok page is made of ---------------------------------------------------- *)
Definition opt_menu (mtext : bytes) : bytes := if 0 <? len mtext then nl :: mtext else [].

Lemma inner_shape gt gm pg sym vals idx out pg' :
  page_render_inner gt gm pg sym vals idx = (Ok out, pg') ->
  exists src items vals' body mtext,
    gt sym = Ok src
    /\ tpl_parse (tpl_source (p_err pg) (p_extra pg) src) = Some items
    /\ match p_sizer pg with
       | Some z => sizer_get_at z vals idx
       | None => if 0 <? idx then Err EGen else Ok vals
       end = Ok vals'
    /\ tpl_exec items vals' = Ok body
    /\ out = body ++ opt_menu mtext
    /\ match p_menu pg with
       | Some m => fst (menu_render_st gm m idx) = Ok mtext
       | None => mtext = []
       end.
Proof.
  unfold page_render_inner.
  destruct (render_template gt pg sym vals idx) as [s|e|p] eqn:Et; try discriminate.
  unfold render_template in Et.
  destruct (gt sym) as [src|e|p] eqn:Eg; cbn [obind] in Et; try discriminate.
  match type of Et with obind ?G _ = _ => destruct G as [vals'|e|p] eqn:Ev end; cbn [obind] in Et; try discriminate.
  destruct (tpl_parse (tpl_source (p_err pg) (p_extra pg) src)) as [items|] eqn:Ep; [|discriminate].
  intros H. exists src, items, vals', s.
  destruct (p_menu pg) as [m|].
  - destruct (menu_render_st gm m idx) as [[ms|e|p] m'] eqn:Em; try discriminate.
    exists ms. cbn [fst].
    change (p_sizer (page_set_menu pg (Some m'))) with (p_sizer pg) in H.
    assert (Ho : out = s ++ opt_menu ms).
    { unfold opt_menu. destruct (p_sizer pg) as [z|].
      - destruct (snd (sizer_check z (s ++ (if 0 <? len ms then nl :: ms else [])))); inversion H; reflexivity.
      - inversion H; reflexivity. }
    repeat (split; [assumption || reflexivity|]). reflexivity.
  - exists []. assert (Ho : out = s).
    { destruct (p_sizer pg) as [z|].
      - destruct (snd (sizer_check z s)); inversion H; reflexivity.
      - inversion H; reflexivity. }
    unfold opt_menu. cbn. rewrite app_nil_r.
    repeat (split; [assumption || reflexivity|]). reflexivity.
Qed.

(* ---- alist facts ------------------------------------------------------------------- *)
Lemma alookup_aset_same {V} k (v : V) l : alookup k (aset k v l) = Some v.
Proof.
  induction l as [|[k' v'] l IH]; cbn [aset alookup].
  - rewrite bytes_eqb_refl. reflexivity.
  - destruct (bytes_eqb k k') eqn:E; cbn [alookup].
    + rewrite bytes_eqb_refl. reflexivity.
    + rewrite E. exact IH.
Qed.

Lemma alookup_aset_other {V} k k2 (v : V) l : k2 <> k -> alookup k2 (aset k v l) = alookup k2 l.
Proof.
  intros Hne. induction l as [|[k' v'] l IH]; cbn [aset alookup].
  - destruct (bytes_eqb k2 k) eqn:E; [apply bytes_eqb_eq in E; contradiction|reflexivity].
  - destruct (bytes_eqb k k') eqn:E; cbn [alookup].
    + apply bytes_eqb_eq in E. subst k'.
      destruct (bytes_eqb k2 k) eqn:E2; [apply bytes_eqb_eq in E2; contradiction|reflexivity].
    + destruct (bytes_eqb k2 k'); [reflexivity|exact IH].
Qed.

Lemma alookup_app_none {V} k (a b : list (bytes * V)) : alookup k a = None -> alookup k (a ++ b) = alookup k b.
Proof.
  induction a as [|[k' v'] a IH]; [reflexivity|]. cbn [alookup app].
  destruct (bytes_eqb k k'); [discriminate|exact IH].
Qed.

Lemma alookup_app_some {V} k (a b : list (bytes * V)) v : alookup k a = Some v -> alookup k (a ++ b) = Some v.
Proof.
  induction a as [|[k' v'] a IH]; [discriminate|]. cbn [alookup app].
  destruct (bytes_eqb k k'); [auto|exact IH].
Qed.

(* GetAt leaves every symbol but the sink alone *)
Lemma get_at_loop_other sink crs idx vals vals' k :
  get_at_loop sink crs idx vals = Ok vals' -> k <> sink -> alookup k vals' = alookup k vals.
Proof.
  revert vals'. induction vals as [|[k' v'] vals IH]; intros vals' H Hne.
  - cbn in H. inversion H. reflexivity.
  - cbn [get_at_loop] in H. destruct (bytes_eqb sink k') eqn:E.
    + apply bytes_eqb_eq in E. subst k'.
      destruct (sink_page v' crs idx); cbn [obind] in H; try discriminate.
      destruct (get_at_loop sink crs idx vals) as [r'|e|p]; cbn [obind] in H; try discriminate.
      inversion H; subst vals'. cbn [alookup].
      destruct (bytes_eqb k sink) eqn:E2; [apply bytes_eqb_eq in E2; contradiction|].
      apply IH; [reflexivity|exact Hne].
    + destruct (get_at_loop sink crs idx vals) as [r'|e|p]; cbn [obind] in H; try discriminate.
      inversion H; subst vals'. cbn [alookup]. destruct (bytes_eqb k k'); [reflexivity|].
      apply IH; [reflexivity|exact Hne].
Qed.

Lemma sizer_get_at_other z vals idx vals' k :
  sizer_get_at z vals idx = Ok vals' -> k <> z_sink z -> alookup k vals' = alookup k vals.
Proof.
  unfold sizer_get_at. destruct (z_sink z) eqn:Es.
  - intros H _. inversion H. reflexivity.
  - intros H Hne. eapply get_at_loop_other; eassumption.
Qed.

(* split blanks exactly the zero-size symbols; its sink is one of them (or none) *)
Lemma split_loop_spec c vals : forall acc sink svs acc' sink' svs',
  page_split_loop c vals acc sink svs = Ok (acc', sink', svs') ->
  (sink' = sink \/ cache_reserved c sink' = Ok 0)
  /\ (forall k, cache_reserved c k <> Ok 0 ->
        alookup k acc' = match alookup k acc with Some v => Some v | None => alookup k vals end).
Proof.
  induction vals as [|[k0 v0] vals IH]; intros acc sink svs acc' sink' svs' H.
  - cbn in H. inversion H; subst. split; [left; reflexivity|]. intros k _. destruct (alookup k acc'); reflexivity.
  - cbn [page_split_loop] in H. destruct (cache_reserved c k0) as [sz|e|p] eqn:Er; try discriminate.
    destruct (sz =? 0) eqn:Ez.
    + apply N.eqb_eq in Ez. subst sz.
      destruct (IH _ _ _ _ _ _ H) as [Hs Hl]. split.
      * destruct Hs as [->|Hs]; [right; exact Er|right; exact Hs].
      * intros k Hk. rewrite Hl by exact Hk. cbn [alookup].
        destruct (bytes_eqb k k0) eqn:E.
        -- apply bytes_eqb_eq in E. subst k0. contradiction.
        -- destruct (alookup k acc) eqn:Ea.
           ++ rewrite (alookup_app_some k acc _ _ Ea). reflexivity.
           ++ rewrite alookup_app_none by exact Ea. cbn [alookup]. rewrite E. reflexivity.
    + destruct (IH _ _ _ _ _ _ H) as [Hs Hl]. split; [exact Hs|].
      intros k Hk. rewrite Hl by exact Hk. cbn [alookup].
      destruct (alookup k acc) eqn:Ea.
      * rewrite (alookup_app_some k acc _ _ Ea). reflexivity.
      * rewrite alookup_app_none by exact Ea. cbn [alookup].
        destruct (bytes_eqb k k0); reflexivity.
Qed.

Lemma page_split_spec c vals nsv sink svs :
  page_split c vals = Ok (nsv, sink, svs) ->
  (sink = [] \/ cache_reserved c sink = Ok 0)
  /\ (forall k, cache_reserved c k <> Ok 0 -> alookup k nsv = alookup k vals).
Proof.
  unfold page_split. destruct (page_split_loop c vals [] [] []) as [[[a s] v]|e|p] eqn:E; try discriminate.
  destruct (split_loop_spec c vals _ _ _ _ _ _ E) as [Hs Hl].
  destruct s as [|x s].
  - intros H. inversion H; subst. split; [left; reflexivity|]. reflexivity.
  - intros H. inversion H; subst. split.
    + destruct Hs as [Hs|Hs]; [discriminate|right; exact Hs].
    + intros k Hk. rewrite Hl by exact Hk. reflexivity.
Qed.

(* everything Menu.Render leaves alone; with keep = true the items are restored as well *)
Definition menu_static_eq (m m' : menu) : Prop :=
  m_browse m' = m_browse m /\ m_sep m' = m_sep m /\ m_keep m' = m_keep m
  /\ m_has_rs m' = m_has_rs m /\ m_sink m' = m_sink m /\ m_page_count m' = m_page_count m.

Lemma menu_apply_page_static m idx m1 : menu_apply_page m idx = Ok m1 -> menu_static_eq m m1.
Proof.
  unfold menu_apply_page. destruct (m_page_count m =? 0).
  - destruct (0 <? idx); [discriminate|]. intros H. inversion H; subst. repeat split.
  - destruct (m_page_count m <=? idx); [discriminate|]. intros H. inversion H; subst. repeat split.
Qed.

Lemma menu_render_st_static gm m idx txt m' :
  menu_render_st gm m idx = (Ok txt, m') ->
  menu_static_eq m m' /\ (m_keep m = true -> m_items m' = m_items m).
Proof.
  unfold menu_render_st. destruct (menu_apply_page m idx) as [m1|e|p] eqn:Ea; try discriminate.
  pose proof (menu_apply_page_static m idx m1 Ea) as [H1 [H2 [H3 [H4 [H5 H6]]]]].
  destruct (menu_loop (if m_has_rs m1 then gm else fun t => Ok t) (m_sep m1) (m_items m1) []) as [[r|e|p] rest];
    try discriminate.
  intros H. inversion H; subst. split.
  - repeat split; cbn [set_items m_browse m_sep m_keep m_has_rs m_sink m_page_count]; assumption.
  - intros Hk. cbn [set_items m_items]. rewrite H3, Hk. reflexivity.
Qed.

Lemma inner_err_extra gt gm pg sym vals idx :
  let pg' := snd (page_render_inner gt gm pg sym vals idx) in
  p_err pg' = p_err pg /\ p_extra pg' = p_extra pg /\ p_map pg' = p_map pg /\ p_sizer pg' = p_sizer pg.
Proof.
  cbn zeta. split; [|split; [|split; [|apply inner_sizer]]];
  unfold page_render_inner; destruct (render_template gt pg sym vals idx); try reflexivity;
  (destruct (p_menu pg) as [m|];
   [ destruct (menu_render_st gm m idx) as [[ms|e|p] m']; try reflexivity;
     change (p_sizer (page_set_menu pg (Some m'))) with (p_sizer pg);
     destruct (p_sizer pg) as [z|]; [|reflexivity];
     destruct (snd (sizer_check z (a ++ (if 0 <? len ms then nl :: ms else [])))); reflexivity
   | destruct (p_sizer pg) as [z|]; [|reflexivity];
     destruct (snd (sizer_check z a)); reflexivity ]).
Qed.

(* What a successful prepare hands to the final render. *)
Lemma prepare_spec c gt gm pg sym idx vals pg' z0 :
  p_sizer pg = Some z0 ->
  page_prepare c gt gm pg sym idx = (Ok vals, pg') ->
  (* every symbol that is not a sink keeps its full mapped value *)
  (forall k, k <> [] -> k <> menu_sink_key -> cache_reserved c k <> Ok 0 ->
     alookup k vals = alookup k (p_map pg))
  /\ p_err pg' = p_err pg
  /\ (p_extra pg' = p_extra pg \/ p_extra pg' = menu_sink_extra)
  (* the sink rows were paginated by joinSink and the result is what the value map holds *)
  /\ exists sink svs remaining ms crs r n crs' z',
       join_sink svs remaining ms crs = (Ok (r, n), crs')
       /\ alookup sink vals = Some r
       /\ p_sizer pg' = Some z' /\ z_crsrs z' = crs' /\ z_out z' = z_out z0
       /\ (forall m', p_menu pg' = Some m' -> m_page_count m' = n)
       /\ (p_menu pg = None <-> p_menu pg' = None).
Proof.
  intros Hz0. unfold page_prepare. rewrite Hz0.
  destruct (page_split c (p_map pg)) as [[[nsv0 sink0] svs0]|e|p] eqn:Esplit; try discriminate.
  destruct (page_split_spec c _ _ _ _ Esplit) as [Hsink0 Hnsv0].
  set (aliased := match sink0 with [] => true | _ => false end).
  match goal with |- (match ?S with _ => _ end) = _ -> _ => set (step1 := S) end.
  assert (Hs1 : match step1 with
                | (Ok (nsv, sink, svs), pg1) =>
                  (forall k, k <> [] -> k <> menu_sink_key -> cache_reserved c k <> Ok 0 ->
                     alookup k nsv = alookup k (p_map pg))
                  /\ p_err pg1 = p_err pg
                  /\ (p_extra pg1 = p_extra pg \/ p_extra pg1 = menu_sink_extra)
                  /\ page_out pg1 = page_out pg
                  /\ (p_menu pg = None <-> p_menu pg1 = None)
                  /\ (sink = [] \/ sink = menu_sink_key \/ cache_reserved c sink = Ok 0)
                | _ => True
                end).
  { unfold step1. destruct (p_menu pg) as [m|] eqn:Em.
    - destruct (m_sink m).
      + destruct (negb aliased); [exact I|].
        destruct (menu_render_st gm (menu_with_pages (menu_with_dispose m)) 0) as [[s|e|p] m2]; try exact I.
        unfold prep_write. destruct aliased; cbn [p_err p_extra page_set_map page_set_sizer page_set_extra page_set_menu p_menu].
        * split; [|split; [reflexivity|split; [right; reflexivity|split; [|split; [split; intros; discriminate|right; left; reflexivity]]]]].
          -- intros k H1 H2 H3. rewrite alookup_aset_other by exact H2. apply Hnsv0. exact H3.
          -- unfold page_out. cbn [p_sizer page_set_map page_set_sizer page_set_extra page_set_menu]. rewrite Hz0. reflexivity.
        * split; [|split; [reflexivity|split; [right; reflexivity|split; [|split; [split; intros; discriminate|right; left; reflexivity]]]]].
          -- intros k H1 H2 H3. rewrite alookup_aset_other by exact H2. apply Hnsv0. exact H3.
          -- unfold page_out. cbn [p_sizer page_set_map page_set_sizer page_set_extra page_set_menu]. rewrite Hz0. reflexivity.
      + split; [|split; [reflexivity|split; [left; reflexivity|split; [reflexivity|split; [rewrite Em; tauto|]]]]].
        * intros k _ _ H3. apply Hnsv0. exact H3.
        * destruct Hsink0 as [->|H0]; [left; reflexivity|right; right; exact H0].
    - split; [|split; [reflexivity|split; [left; reflexivity|split; [reflexivity|split; [rewrite Em; tauto|]]]]].
      + intros k _ _ H3. apply Hnsv0. exact H3.
      + destruct Hsink0 as [->|H0]; [left; reflexivity|right; right; exact H0]. }
  destruct step1 as [[[[nsv sink] svs]|e|p] pg1]; try discriminate.
  destruct Hs1 as [Hnsv [Herr1 [Hex1 [Hout1 [Hmn1 Hsk]]]]].
  set (pg2 := page_set_sizer pg1 (option_map (fun z => sizer_add_cursor z 0) (p_sizer pg1))).
  destruct (page_render_inner gt gm pg2 sym nsv 0) as [[s|e|p] pg3] eqn:Ei; try discriminate.
  pose proof (inner_err_extra gt gm pg2 sym nsv 0) as Hi. rewrite Ei in Hi. cbn [snd] in Hi.
  destruct Hi as [Hie [Hix [Him His]]].
  destruct (p_sizer pg3) as [z|] eqn:Ez3; [|discriminate].
  destruct (sizer_check z s) as [remaining ok].
  destruct (negb ok); [discriminate|].
  destruct (match p_menu pg3 with Some m => menu_sizes m | None => Ok ms_zero end) as [ms|e|p]; try discriminate.
  destruct (join_sink svs remaining ms (z_crsrs z)) as [jr crs'] eqn:Ej.
  destruct jr as [[r n]|e|p]; try discriminate.
  assert (Hz : z_out z = z_out z0).
  { assert (H : page_out pg3 = page_out pg).
    { rewrite <- Hout1. unfold page_out. rewrite Ez3, His. unfold pg2. cbn [p_sizer page_set_sizer].
      destruct (p_sizer pg1); reflexivity. }
    unfold page_out in H. rewrite Ez3, Hz0 in H. cbn in H. congruence. }
  assert (Hm3 : p_menu pg1 = None <-> p_menu pg3 = None).
  { clear - Ei. unfold page_render_inner in Ei.
    destruct (render_template gt pg2 sym nsv 0); try discriminate.
    change (p_menu pg2) with (p_menu pg1) in Ei.
    destruct (p_menu pg1) as [m|] eqn:Em1.
    - destruct (menu_render_st gm m 0) as [[ms|e|p] m']; try discriminate.
      change (p_sizer (page_set_menu pg2 (Some m'))) with (p_sizer pg2) in Ei.
      destruct (p_sizer pg2) as [z|].
      + destruct (snd (sizer_check z (a ++ (if 0 <? len ms then nl :: ms else [])))); inversion Ei; subst;
          cbn; split; intros; discriminate.
      + inversion Ei; subst; cbn; split; intros; discriminate.
    - assert (Hp2 : p_menu pg2 = None) by exact Em1.
      destruct (p_sizer pg2) as [z|].
      + destruct (snd (sizer_check z a)); inversion Ei; subst; rewrite Hp2; tauto.
      + inversion Ei; subst; rewrite Hp2; tauto. }
  unfold prep_write.
  intros H. inversion H; subst vals pg'; clear H.
  split; [|split; [|split]].
  - intros k H1 H2 H3. destruct aliased.
    + rewrite alookup_aset_other; [apply Hnsv; assumption|].
      intros ->. destruct Hsk as [Hk|[Hk|Hk]]; contradiction.
    + rewrite alookup_aset_other; [apply Hnsv; assumption|].
      intros ->. destruct Hsk as [Hk|[Hk|Hk]]; contradiction.
  - destruct aliased; cbn [p_err page_set_menu page_set_map page_set_sizer]; rewrite Hie; unfold pg2; cbn; exact Herr1.
  - destruct aliased; cbn [p_extra page_set_menu page_set_map page_set_sizer]; rewrite Hix; unfold pg2; cbn [p_extra page_set_sizer]; exact Hex1.
  - exists sink, svs, remaining, ms, (z_crsrs z), r, n, crs', (sizer_set_crsrs z crs').
    split; [exact Ej|]. split; [apply alookup_aset_same|].
    split; [destruct aliased; reflexivity|]. split; [reflexivity|]. split; [exact Hz|].
    split.
    + intros m' Hm'. destruct aliased; cbn [p_menu page_set_menu page_set_map page_set_sizer] in Hm';
        destruct (p_menu pg3); cbn [option_map] in Hm'; inversion Hm'; reflexivity.
    + destruct aliased; cbn [p_menu page_set_menu page_set_map page_set_sizer];
        destruct (p_menu pg3); cbn [option_map]; split; intros Hx; try discriminate;
        try (apply Hmn1 in Hx; apply Hm3 in Hx; discriminate);
        try reflexivity; try (apply Hmn1; apply Hm3; reflexivity).
Qed.

Lemma inner_menu gt gm pg sym vals idx out pg' m :
  page_render_inner gt gm pg sym vals idx = (Ok out, pg') -> p_menu pg = Some m ->
  exists txt m', menu_render_st gm m idx = (Ok txt, m') /\ p_menu pg' = Some m'.
Proof.
  unfold page_render_inner. intros H Hm. rewrite Hm in H.
  destruct (render_template gt pg sym vals idx); try discriminate.
  destruct (menu_render_st gm m idx) as [[ms|e|p] m'] eqn:Em; try discriminate.
  exists ms, m'. split; [reflexivity|].
  change (p_sizer (page_set_menu pg (Some m'))) with (p_sizer pg) in H.
  destruct (p_sizer pg) as [z|].
  - destruct (snd (sizer_check z (a ++ (if 0 <? len ms then nl :: ms else [])))); inversion H; reflexivity.
  - inversion H; reflexivity.
Qed.

(* an ordinary (non-sink) menu survives prepare: same items, labels, separator; only the page
   count is new *)
Lemma prepare_menu c gt gm pg sym idx vals pg' z0 m :
  p_sizer pg = Some z0 -> p_menu pg = Some m -> m_sink m = false ->
  page_prepare c gt gm pg sym idx = (Ok vals, pg') ->
  p_extra pg' = p_extra pg
  /\ exists m', p_menu pg' = Some m' /\ (m_keep m = true -> m_items m' = m_items m)
       /\ m_browse m' = m_browse m /\ m_sep m' = m_sep m /\ m_keep m' = m_keep m
       /\ m_has_rs m' = m_has_rs m /\ m_sink m' = false.
Proof.
  intros Hz0 Hm Hsink. unfold page_prepare. rewrite Hz0.
  destruct (page_split c (p_map pg)) as [[[nsv0 sink0] svs0]|e|p]; try discriminate.
  rewrite Hm, Hsink.
  set (aliased := match sink0 with [] => true | _ => false end).
  set (pg2 := page_set_sizer pg (option_map (fun z => sizer_add_cursor z 0) (p_sizer pg))).
  destruct (page_render_inner gt gm pg2 sym nsv0 0) as [[s|e|p] pg3] eqn:Ei; try discriminate.
  pose proof (inner_err_extra gt gm pg2 sym nsv0 0) as Hi. rewrite Ei in Hi. cbn [snd] in Hi.
  destruct Hi as [_ [Hix _]].
  destruct (inner_menu gt gm pg2 sym nsv0 0 s pg3 m Ei Hm) as [txt [m3 [Er Hm3]]].
  destruct (menu_render_st_static gm m 0 txt m3 Er) as [[H1 [H2 [H3 [H4 [H5 H6]]]]] Hitems].
  destruct (p_sizer pg3) as [z|]; [|discriminate].
  destruct (sizer_check z s) as [remaining ok].
  destruct (negb ok); [discriminate|].
  rewrite Hm3.
  destruct (menu_sizes m3) as [ms|e|p]; try discriminate.
  destruct (join_sink svs0 remaining ms (z_crsrs z)) as [jr crs'].
  destruct jr as [[r n]|e|p]; try discriminate.
  unfold prep_write. intros H. inversion H; subst vals pg'; clear H.
  split.
  - destruct aliased; cbn [p_extra page_set_menu page_set_map page_set_sizer]; rewrite Hix; reflexivity.
  - exists (menu_with_page_count m3 n).
    split; [destruct aliased; cbn [p_menu page_set_menu page_set_map page_set_sizer]; rewrite Hm3; reflexivity|].
    cbn [menu_with_page_count m_items m_browse m_sep m_keep m_has_rs m_sink].
    repeat split; try assumption. congruence.
Qed.

(* ---- the menu as text ----------------------------------------------------------------- *)
Fixpoint menu_lines (tf : bytes -> res bytes) (sep : bytes) (items : list (bytes * bytes)) : option (list bytes) :=
  match items with
  | [] => Some []
  | (sel, t) :: r =>
    match tf t with
    | Ok x => option_map (cons (sel ++ sep ++ x)) (menu_lines tf sep r)
    | _ => None
    end
  end.

Definition ltail (lines : list bytes) : bytes := List.concat (map (fun l => nl :: l) lines).

Lemma join_cons_tail x l : join_with [nl] (x :: l) = x ++ ltail l.
Proof.
  revert x. induction l as [|y l IH]; intros x.
  - cbn. rewrite app_nil_r. reflexivity.
  - rewrite join_with_cons2, IH. unfold ltail. cbn [map List.concat app]. reflexivity.
Qed.

Lemma menu_loop_lines tf sep : sep <> [] -> forall items acc r rest,
  menu_loop tf sep items acc = (Ok r, rest) ->
  exists lines, menu_lines tf sep items = Some lines
    /\ r = match acc with [] => join_with [nl] lines | _ => acc ++ ltail lines end.
Proof.
  intros Hsep. induction items as [|[sel t] items IH]; intros acc r rest H.
  - cbn in H. inversion H; subst. exists []. split; [reflexivity|].
    destruct r; [reflexivity|]. cbn. rewrite app_nil_r. reflexivity.
  - cbn [menu_loop] in H. destruct (tf t) as [x|e|p] eqn:Et; try (inversion H; fail).
    destruct (IH _ _ _ H) as [lines [Hl Hr]].
    exists ((sel ++ sep ++ x) :: lines). split.
    + cbn [menu_lines]. rewrite Et, Hl. reflexivity.
    + destruct acc as [|a acc].
      * cbn [len List.length N.of_nat N.ltb N.compare app] in Hr.
        change (0 <? len (@nil N)) with false in Hr. cbn [app] in Hr.
        rewrite join_cons_tail. destruct (sel ++ sep ++ x) eqn:E; [|exact Hr].
        exfalso. apply app_eq_nil in E as [_ E]. apply app_eq_nil in E as [E _]. contradiction.
      * assert (Hlt : (0 <? len (a :: acc)) = true) by (rewrite len_cons; lia).
        rewrite Hlt in Hr. cbn [app] in Hr. rewrite Hr. unfold ltail. cbn [map List.concat app].
        rewrite <- !app_assoc. cbn [app]. rewrite <- !app_assoc. reflexivity.
Qed.

Lemma menu_lines_app tf sep a b la lb :
  menu_lines tf sep a = Some la -> menu_lines tf sep b = Some lb -> menu_lines tf sep (a ++ b) = Some (la ++ lb).
Proof.
  revert la. induction a as [|[sel t] a IH]; intros la Ha Hb.
  - inversion Ha. exact Hb.
  - cbn [menu_lines app] in *. destruct (tf t); try discriminate.
    destruct (menu_lines tf sep a) as [l|]; [|discriminate]. inversion Ha; subst.
    rewrite (IH l eq_refl Hb). reflexivity.
Qed.

Lemma menu_lines_app_inv tf sep a b l :
  menu_lines tf sep (a ++ b) = Some l ->
  exists la lb, menu_lines tf sep a = Some la /\ menu_lines tf sep b = Some lb /\ l = la ++ lb.
Proof.
  revert l. induction a as [|[sel t] a IH]; intros l H.
  - exists [], l. repeat split. exact H.
  - cbn [menu_lines app] in *. destruct (tf t); try discriminate.
    destruct (menu_lines tf sep (a ++ b)) as [l'|] eqn:E; [|discriminate]. inversion H; subst.
    destruct (IH l' eq_refl) as [la [lb [Ha [Hb ->]]]].
    exists ((sel ++ sep ++ a0) :: la), lb. rewrite Ha. repeat split. exact Hb.
Qed.

Definition browse_items (b : browse) (nx pv : bool) : list (bytes * bytes) :=
  (if nx then [(b_next_sel b, b_next_title b)] else []) ++ (if pv then [(b_prev_sel b, b_prev_title b)] else []).

Definition title_for (gm : bytes -> res bytes) (m : menu) : bytes -> res bytes :=
  if m_has_rs m then gm else fun t => Ok t.

(* the text of a paged menu: the ordinary lines, then "next" iff a page follows, then
   "previous" iff a page precedes *)
Lemma menu_render_text gm m i txt m' :
  b_next_avail (m_browse m) = true -> b_prev_avail (m_browse m) = true ->
  0 < m_page_count m -> m_sep m <> [] ->
  menu_render_st gm m i = (Ok txt, m') ->
  i < m_page_count m
  /\ exists lines blines,
       menu_lines (title_for gm m) (m_sep m) (m_items m) = Some lines
       /\ menu_lines (title_for gm m) (m_sep m)
            (browse_items (m_browse m) (i + 1 <? m_page_count m) (0 <? i)) = Some blines
       /\ txt = join_with [nl] (lines ++ blines).
Proof.
  intros Hn Hp Hpc Hsep. unfold menu_render_st.
  destruct (menu_apply_page m i) as [m1|e|p] eqn:Ea; try discriminate.
  destruct (menu_apply_page_browse m i m1 Hn Hp Hpc Ea) as [Hi [_ [_ [Hitems [_ [_ [Hs [_ [Hrs _]]]]]]]]].
  destruct (menu_loop (if m_has_rs m1 then gm else fun t => Ok t) (m_sep m1) (m_items m1) []) as [[r|e|p] rest] eqn:El;
    try discriminate.
  intros H. inversion H; subst txt m'; clear H. split; [exact Hi|].
  rewrite Hs, Hrs in El. fold (title_for gm m) in El.
  destruct (menu_loop_lines (title_for gm m) (m_sep m) Hsep _ _ _ _ El) as [l [Hl Hr]].
  rewrite Hitems in Hl. unfold browse_items.
  destruct (menu_lines_app_inv _ _ _ _ _ Hl) as [la [lb [Ha [Hb ->]]]].
  exists la, lb. split; [exact Ha|]. split; [exact Hb|exact Hr].
Qed.

Lemma menu_render_text0 gm m i txt m' :
  m_page_count m = 0 -> m_sep m <> [] ->
  menu_render_st gm m i = (Ok txt, m') ->
  i = 0 /\ exists lines, menu_lines (title_for gm m) (m_sep m) (m_items m) = Some lines
                         /\ txt = join_with [nl] lines.
Proof.
  intros Hpc Hsep. unfold menu_render_st, menu_apply_page. rewrite Hpc. cbn [N.eqb].
  destruct (0 <? i) eqn:Ei; [discriminate|].
  destruct (menu_loop (if m_has_rs m then gm else fun t => Ok t) (m_sep m) (m_items m) []) as [[r|e|p] rest] eqn:El;
    try discriminate.
  intros H. inversion H; subst txt m'; clear H. split; [lia|].
  fold (title_for gm m) in El.
  destruct (menu_loop_lines (title_for gm m) (m_sep m) Hsep _ _ _ _ El) as [l [Hl Hr]].
  exists l. split; [exact Hl|exact Hr].
Qed.

(* ---- no panic in the template step ---------------------------------------------------- *)
Lemma get_at_loop_no_panic sink crs idx vals : is_panic (get_at_loop sink crs idx vals) = false.
Proof.
  induction vals as [|[k v] vals IH]; [reflexivity|]. cbn [get_at_loop].
  destruct (bytes_eqb sink k).
  - pose proof (sink_page_no_panic v crs idx) as Hs.
    destruct (sink_page v crs idx); cbn [obind]; try reflexivity; [|discriminate].
    destruct (get_at_loop sink crs idx vals); cbn [obind] in *; try reflexivity. discriminate.
  - destruct (get_at_loop sink crs idx vals); cbn [obind] in *; try reflexivity. discriminate.
Qed.

Lemma tpl_exec_no_panic items vals : is_panic (tpl_exec items vals) = false.
Proof.
  induction items as [|[b|n] items IH]; [reflexivity| |]; cbn [tpl_exec].
  - destruct (tpl_exec items vals); cbn [obind] in *; try reflexivity. discriminate.
  - destruct (alookup n vals); [|reflexivity].
    destruct (tpl_exec items vals); cbn [obind] in *; try reflexivity. discriminate.
Qed.

Lemma render_template_no_panic gt pg sym vals idx :
  (forall k, is_panic (gt k) = false) -> is_panic (render_template gt pg sym vals idx) = false.
Proof.
  intros Hgt. unfold render_template. specialize (Hgt sym).
  destruct (gt sym) as [src|e|p]; cbn [obind]; try reflexivity; [|discriminate].
  assert (Hv : is_panic (match p_sizer pg with
                         | Some z => sizer_get_at z vals idx
                         | None => if 0 <? idx then Err EGen else Ok vals end) = false).
  { destruct (p_sizer pg) as [z|].
    - unfold sizer_get_at. destruct (z_sink z); [reflexivity|apply get_at_loop_no_panic].
    - destruct (0 <? idx); reflexivity. }
  destruct (match p_sizer pg with Some z => sizer_get_at z vals idx | None => if 0 <? idx then Err EGen else Ok vals end);
    cbn [obind]; try reflexivity; [|discriminate].
  destruct (tpl_parse (tpl_source (p_err pg) (p_extra pg) src)); [apply tpl_exec_no_panic|reflexivity].
Qed.

(* past the end: with a menu attached (the VM always attaches one) the render is an error *)
Lemma page_render_past_end c gt gm pg sym i vals pg1 m1 :
  (forall k, is_panic (gt k) = false) ->
  page_prepare c gt gm pg sym i = (Ok vals, pg1) -> p_menu pg1 = Some m1 ->
  m_page_count m1 <= i -> 0 < i ->
  exists e, fst (page_render c gt gm pg sym i) = Err e.
Proof.
  intros Hgt Hp Hm Hpc Hi. unfold page_render. rewrite Hp. unfold page_render_inner.
  pose proof (render_template_no_panic gt pg1 sym vals i Hgt) as Hnp.
  destruct (render_template gt pg1 sym vals i) as [s|e|p]; [|exists e; reflexivity|discriminate].
  rewrite Hm.
  destruct (menu_render_past_end gm m1 i Hpc Hi) as [H|H];
    destruct (menu_render_st gm m1 i) as [[ms|e|p] m'] eqn:Er; cbn [fst] in H; try discriminate;
    exists e; reflexivity.
Qed.

(* ---- an Ok page is the whole instantiated template followed by the whole menu ---------- *)
Lemma page_render_shape c gt gm pg sym idx out pg' :
  page_render c gt gm pg sym idx = (Ok out, pg') ->
  exists src items vals' body mtext vals pg1,
    gt sym = Ok src
    /\ tpl_parse (tpl_source (p_err pg) (p_extra pg') src) = Some items
    /\ tpl_exec items vals' = Ok body
    /\ out = body ++ opt_menu mtext
    /\ (forall k, k <> [] -> k <> menu_sink_key -> cache_reserved c k <> Ok 0 ->
          (forall z', p_sizer pg' = Some z' -> k <> z_sink z') ->
          alookup k vals' = alookup k (p_map pg))
    /\ page_prepare c gt gm pg sym idx = (Ok vals, pg1)
    /\ match p_menu pg1 with
       | Some m1 => fst (menu_render_st gm m1 idx) = Ok mtext
       | None => mtext = []
       end.
Proof.
  unfold page_render.
  destruct (page_prepare c gt gm pg sym idx) as [[vals|e|p] pg1] eqn:Ep; try discriminate.
  intros Hr.
  destruct (inner_shape gt gm pg1 sym vals idx out pg' Hr) as [src [items [vals' [body [mtext [Hg [Hp [Hv [He [Ho Hm]]]]]]]]]].
  pose proof (inner_err_extra gt gm pg1 sym vals idx) as Hi. rewrite Hr in Hi. cbn [snd] in Hi.
  destruct Hi as [_ [Hix [_ His]]].
  exists src, items, vals', body, mtext, vals, pg1.
  destruct (p_sizer pg) as [z0|] eqn:Ez0.
  - destruct (prepare_spec c gt gm pg sym idx vals pg1 z0 Ez0 Ep) as [Hvals [Herr [_ [sink [svs [rem [ms [crs [r [n [crs' [z' [_ [_ [Hz' _]]]]]]]]]]]]]]].
    split; [exact Hg|]. split; [rewrite Hix, <- Herr; exact Hp|]. split; [exact He|]. split; [exact Ho|].
    split; [|split; [reflexivity|exact Hm]].
    intros k H1 H2 H3 H4. rewrite Hz' in Hv.
    rewrite (sizer_get_at_other z' vals idx vals' k Hv); [apply Hvals; assumption|].
    apply H4. rewrite His. exact Hz'.
  - unfold page_prepare in Ep. rewrite Ez0 in Ep. inversion Ep; subst vals pg1; clear Ep.
    rewrite Ez0 in Hv.
    split; [exact Hg|]. split; [rewrite Hix; exact Hp|]. split; [exact He|]. split; [exact Ho|].
    split; [|split; [reflexivity|exact Hm]].
    intros k _ _ _ _. destruct (0 <? idx); [discriminate|]. inversion Hv. reflexivity.
Qed.

(* ---- static parts and browse entries of a VM-shaped page -------------------------------- *)
Lemma page_render_static c gt gm pg sym i out pg' z0 m :
  p_sizer pg = Some z0 -> p_menu pg = Some m ->
  m_sink m = false -> m_keep m = true -> m_sep m <> [] ->
  b_next_avail (m_browse m) = true -> b_prev_avail (m_browse m) = true ->
  page_render c gt gm pg sym i = (Ok out, pg') ->
  exists src items vals' body lines blines n,
    gt sym = Ok src
    /\ tpl_parse (tpl_source (p_err pg) (p_extra pg) src) = Some items
    /\ tpl_exec items vals' = Ok body
    /\ (forall k, k <> [] -> k <> menu_sink_key -> cache_reserved c k <> Ok 0 ->
          (forall z', p_sizer pg' = Some z' -> k <> z_sink z') ->
          alookup k vals' = alookup k (p_map pg))
    /\ menu_lines (title_for gm m) (m_sep m) (m_items m) = Some lines
    /\ (n = 0 -> i = 0 /\ blines = [])
    /\ (0 < n -> i < n /\
          menu_lines (title_for gm m) (m_sep m) (browse_items (m_browse m) (i + 1 <? n) (0 <? i)) = Some blines)
    /\ out = body ++ opt_menu (join_with [nl] (lines ++ blines)).
Proof.
  intros Hz0 Hm Hsink Hkeep Hsep Hn Hp Hr.
  destruct (page_render_shape c gt gm pg sym i out pg' Hr)
    as [src [items [vals' [body [mtext [vals [pg1 [Hg [Hparse [He [Ho [Hvals [Hprep Hmt]]]]]]]]]]]]].
  destruct (prepare_menu c gt gm pg sym i vals pg1 z0 m Hz0 Hm Hsink Hprep)
    as [Hex [m1 [Hm1 [Hitems [Hb [Hs [Hk [Hrs Hsk]]]]]]]].
  assert (Hex' : p_extra pg' = p_extra pg).
  { unfold page_render in Hr. rewrite Hprep in Hr.
    pose proof (inner_err_extra gt gm pg1 sym vals i) as Hi. rewrite Hr in Hi. cbn [snd] in Hi.
    destruct Hi as [_ [Hix _]]. rewrite Hix. exact Hex. }
  rewrite Hex' in Hparse. rewrite Hm1 in Hmt.
  destruct (menu_render_st gm m1 i) as [r m2] eqn:Er. cbn [fst] in Hmt. subst r.
  assert (Htf : title_for gm m1 = title_for gm m) by (unfold title_for; rewrite Hrs; reflexivity).
  specialize (Hitems Hkeep).
  destruct (N.eq_dec (m_page_count m1) 0) as [Hpc|Hpc].
  - destruct (menu_render_text0 gm m1 i mtext m2 Hpc ltac:(rewrite Hs; exact Hsep) Er) as [Hi0 [lines [Hl Ht]]].
    rewrite Htf, Hs, Hitems in Hl.
    exists src, items, vals', body, lines, [], 0.
    repeat (split; [assumption|]). split; [intros _; split; [exact Hi0|reflexivity]|].
    split; [intros H; lia|]. rewrite app_nil_r, <- Ht. exact Ho.
  - destruct (menu_render_text gm m1 i mtext m2 ltac:(rewrite Hb; exact Hn) ltac:(rewrite Hb; exact Hp)
                ltac:(lia) ltac:(rewrite Hs; exact Hsep) Er) as [Hi [lines [blines [Hl [Hbl Ht]]]]].
    rewrite Htf, Hs, Hitems in Hl. rewrite Htf, Hs, Hb in Hbl.
    exists src, items, vals', body, lines, blines, (m_page_count m1).
    repeat (split; [assumption|]). split; [intros H; lia|].
    split; [intros _; split; [exact Hi|exact Hbl]|]. rewrite <- Ht. exact Ho.
Qed.

(* ---- no Go panic site is reachable in Page.Render ------------------------------------------ *)
Lemma menu_loop_no_panic tf sep items acc :
  (forall k, is_panic (tf k) = false) -> is_panic (fst (menu_loop tf sep items acc)) = false.
Proof.
  intros Htf. revert acc. induction items as [|[sel t] items IH]; intros acc; [reflexivity|].
  cbn [menu_loop]. specialize (Htf t). destruct (tf t); [apply IH|reflexivity|discriminate].
Qed.

Lemma menu_render_st_no_panic gm m idx :
  (forall k, is_panic (gm k) = false) -> is_panic (fst (menu_render_st gm m idx)) = false.
Proof.
  intros Hgm. unfold menu_render_st.
  destruct (menu_apply_page m idx) as [m1|e|p] eqn:Ea; try reflexivity.
  - assert (Htf : forall k, is_panic ((if m_has_rs m1 then gm else fun t => Ok t) k) = false).
    { intros k. destruct (m_has_rs m1); [apply Hgm|reflexivity]. }
    pose proof (menu_loop_no_panic _ (m_sep m1) (m_items m1) [] Htf) as Hl.
    destruct (menu_loop (if m_has_rs m1 then gm else fun t => Ok t) (m_sep m1) (m_items m1) []) as [[r|e|p] rest];
      cbn [fst] in *; try reflexivity. discriminate.
  - exfalso. unfold menu_apply_page in Ea.
    destruct (m_page_count m =? 0); [destruct (0 <? idx); discriminate|].
    destruct (m_page_count m <=? idx); discriminate.
Qed.

Lemma menu_sizes_no_panic m : is_panic (menu_sizes m) = false.
Proof.
  unfold menu_sizes.
  assert (Hid : forall k : bytes, is_panic ((fun t : bytes => @Ok err bytes t) k) = false) by reflexivity.
  match goal with |- context [menu_render_st ?g ?t0 0] =>
    pose proof (menu_render_st_no_panic g t0 0 Hid) as H0; destruct (menu_render_st g t0 0) as [[v0|e|p] t1] end;
    cbn [fst] in H0; try reflexivity; [|discriminate].
  match goal with |- context [menu_render_st ?g ?t2 0] =>
    pose proof (menu_render_st_no_panic g t2 0 Hid) as H1; destruct (menu_render_st g t2 0) as [[v1|e|p] t3] end;
    cbn [fst] in H1; try reflexivity; [|discriminate].
  match goal with |- context [menu_render_st ?g ?t4 1] =>
    pose proof (menu_render_st_no_panic g t4 1 Hid) as H2; destruct (menu_render_st g t4 1) as [[v2|e|p] t5] end;
    cbn [fst] in H2; try reflexivity. discriminate.
Qed.

Lemma cache_reserved_no_panic c k : is_panic (cache_reserved c k) = false.
Proof. unfold cache_reserved. destruct (alookup k (c_sizes c)); reflexivity. Qed.

Lemma page_split_no_panic c vals : is_panic (page_split c vals) = false.
Proof.
  unfold page_split.
  assert (H : forall acc sink svs, is_panic (page_split_loop c vals acc sink svs) = false).
  { induction vals as [|[k v] vals IH]; intros acc sink svs; [reflexivity|]. cbn [page_split_loop].
    pose proof (cache_reserved_no_panic c k) as Hr.
    destruct (cache_reserved c k) as [sz|e|p]; [|reflexivity|discriminate].
    destruct (sz =? 0); apply IH. }
  specialize (H [] [] []).
  destruct (page_split_loop c vals [] [] []) as [[[a s] v]|e|p]; [|reflexivity|discriminate].
  destruct s; reflexivity.
Qed.

Lemma inner_no_panic gt gm pg sym vals idx :
  (forall k, is_panic (gt k) = false) -> (forall k, is_panic (gm k) = false) ->
  is_panic (fst (page_render_inner gt gm pg sym vals idx)) = false.
Proof.
  intros Hgt Hgm. unfold page_render_inner.
  pose proof (render_template_no_panic gt pg sym vals idx Hgt) as Ht.
  destruct (render_template gt pg sym vals idx) as [s|e|p]; [|reflexivity|discriminate].
  destruct (p_menu pg) as [m|].
  - pose proof (menu_render_st_no_panic gm m idx Hgm) as Hm.
    destruct (menu_render_st gm m idx) as [[ms|e|p] m']; cbn [fst] in Hm; [|reflexivity|discriminate].
    change (p_sizer (page_set_menu pg (Some m'))) with (p_sizer pg).
    destruct (p_sizer pg) as [z|]; [|reflexivity].
    destruct (snd (sizer_check z (s ++ (if 0 <? len ms then nl :: ms else [])))); reflexivity.
  - destruct (p_sizer pg) as [z|]; [|reflexivity]. destruct (snd (sizer_check z s)); reflexivity.
Qed.

Lemma join_sink_no_panic vs R ms crs : is_panic (fst (join_sink vs R ms crs)) = false.
Proof. unfold join_sink. destruct (js_loop (ms_prev ms) (js_init vs R ms crs) vs) as [[|] s]; reflexivity. Qed.

Lemma prepare_no_panic c gt gm pg sym idx :
  (forall k, is_panic (gt k) = false) -> (forall k, is_panic (gm k) = false) ->
  is_panic (fst (page_prepare c gt gm pg sym idx)) = false.
Proof.
  intros Hgt Hgm. unfold page_prepare.
  destruct (p_sizer pg) as [z0|] eqn:Ez0; [|reflexivity].
  pose proof (page_split_no_panic c (p_map pg)) as Hsp.
  destruct (page_split c (p_map pg)) as [[[nsv0 sink0] svs0]|e|p]; [|reflexivity|discriminate].
  set (aliased := match sink0 with [] => true | _ => false end).
  match goal with |- is_panic (fst (match ?S with _ => _ end)) = _ => set (step1 := S) end.
  assert (Hs1 : is_panic (fst step1) = false /\ (p_sizer (snd step1) <> None)).
  { unfold step1. destruct (p_menu pg) as [m|]; [|split; [reflexivity|cbn; congruence]].
    destruct (m_sink m); [|split; [reflexivity|cbn; congruence]].
    destruct (negb aliased); [split; [reflexivity|cbn; congruence]|].
    pose proof (menu_render_st_no_panic gm (menu_with_pages (menu_with_dispose m)) 0 Hgm) as Hm.
    destruct (menu_render_st gm (menu_with_pages (menu_with_dispose m)) 0) as [[s|e|p] m2]; cbn [fst] in Hm;
      [|split; [reflexivity|cbn; congruence]|discriminate].
    unfold prep_write. destruct aliased; split; try reflexivity;
      cbn [snd p_sizer page_set_map page_set_sizer page_set_extra page_set_menu]; rewrite Ez0; discriminate. }
  destruct step1 as [[[[nsv sink] svs]|e|p] pg1]; cbn [fst snd] in Hs1; destruct Hs1 as [Hp1 Hz1];
    [|reflexivity|discriminate].
  set (pg2 := page_set_sizer pg1 (option_map (fun z => sizer_add_cursor z 0) (p_sizer pg1))).
  pose proof (inner_no_panic gt gm pg2 sym nsv 0 Hgt Hgm) as Hin.
  pose proof (inner_sizer gt gm pg2 sym nsv 0) as His.
  destruct (page_render_inner gt gm pg2 sym nsv 0) as [[s|e|p] pg3]; cbn [fst snd] in *; [|reflexivity|discriminate].
  destruct (p_sizer pg3) as [z|] eqn:Ez3.
  - destruct (sizer_check z s) as [remaining ok]. destruct (negb ok); [reflexivity|].
    assert (Hms : is_panic (match p_menu pg3 with Some m => menu_sizes m | None => Ok ms_zero end) = false).
    { destruct (p_menu pg3); [apply menu_sizes_no_panic|reflexivity]. }
    destruct (match p_menu pg3 with Some m => menu_sizes m | None => Ok ms_zero end) as [ms|e|p];
      [|reflexivity|discriminate].
    pose proof (join_sink_no_panic svs remaining ms (z_crsrs z)) as Hj.
    destruct (join_sink svs remaining ms (z_crsrs z)) as [[[r n]|e|p] crs']; cbn [fst] in Hj;
      [|reflexivity|discriminate].
    unfold prep_write. destruct aliased; reflexivity.
  - exfalso. unfold pg2 in His. cbn [p_sizer page_set_sizer] in His.
    destruct (p_sizer pg1); [discriminate|congruence].
Qed.

Lemma page_render_no_panic c gt gm pg sym idx :
  (forall k, is_panic (gt k) = false) -> (forall k, is_panic (gm k) = false) ->
  is_panic (fst (page_render c gt gm pg sym idx)) = false.
Proof.
  intros Hgt Hgm. unfold page_render.
  pose proof (prepare_no_panic c gt gm pg sym idx Hgt Hgm) as Hp.
  destruct (page_prepare c gt gm pg sym idx) as [[vals|e|p] pg1]; cbn [fst] in Hp; [|reflexivity|discriminate].
  apply inner_no_panic; assumption.
Qed.

(* ---- final forms used by props/C02.v ---------------------------------------------------- *)
Definition shown_rows (r : bytes) (cs : list N) (i : N) : list bytes :=
  match sink_page r cs i with Ok p => split_on nl p | _ => [] end.

Lemma rows_ok_concat pages : rows_ok (List.concat pages) = true -> Forall (fun p => rows_ok p = true) pages.
Proof.
  induction pages as [|p pages IH]; intros H; [constructor|].
  cbn [List.concat] in H. rewrite rows_ok_app in H. apply andb_true_iff in H as [H1 H2].
  constructor; [exact H1|apply IH; exact H2].
Qed.

Lemma join_sink_partition vs remaining ms r n cs :
  vs <> [] -> rows_ok vs = true -> rows_size vs < 4294967296 -> len vs < 65536 ->
  join_sink vs remaining ms [0] = (Ok (r, n), cs) ->
  (forall i, i < n -> is_ok (sink_page r cs i) = true)
  /\ List.concat (map (fun i => shown_rows r cs (N.of_nat i)) (seq 0 (N.to_nat n))) = vs
  /\ len cs = n
  /\ (exists pages : list (list bytes),
        List.concat pages = vs /\ len pages = n /\ Forall (fun p => p <> []) pages
        /\ forall i p, nth_error pages i = Some p -> shown_rows r cs (N.of_nat i) = p)
  /\ (forall i, n <= i -> sink_page r cs i = Err EGen).
Proof.
  intros Hvs Hok Hsz Hlen Hj.
  destruct (join_sink_pages vs remaining ms r n cs Hvs Hok Hsz Hlen Hj)
    as [pages [Hcat [Hne [Hlp [Hlc [Hpg Hpast]]]]]].
  assert (Hpok : Forall (fun p => rows_ok p = true) pages) by (apply rows_ok_concat; rewrite Hcat; exact Hok).
  assert (Hshown : forall i p, nth_error pages i = Some p -> shown_rows r cs (N.of_nat i) = p).
  { intros i p Hnth. unfold shown_rows. rewrite (Hpg i p Hnth). apply split_on_join.
    - rewrite Forall_forall in Hne. apply Hne. eapply nth_error_In. exact Hnth.
    - rewrite Forall_forall in Hpok. apply Hpok. eapply nth_error_In. exact Hnth. }
  assert (Hn : N.to_nat n = List.length pages) by (unfold len in Hlp; lia).
  split; [|split; [|split; [exact Hlc|split; [|exact Hpast]]]].
  - intros i Hi. destruct (nth_error pages (N.to_nat i)) as [p|] eqn:En.
    + specialize (Hpg _ _ En). rewrite N2Nat.id in Hpg. rewrite Hpg. reflexivity.
    + apply nth_error_None in En. lia.
  - rewrite Hn. rewrite (map_seq_nth (fun i => shown_rows r cs (N.of_nat i)) pages 0); [exact Hcat|].
    intros i p Hnth. cbn [Nat.add]. apply Hshown. exact Hnth.
  - exists pages. repeat split; assumption.
Qed.

Fixpoint seqN (n : nat) (start : N) : list N :=
  match n with O => [] | S k => start :: seqN k (start + 1) end.

Definition rows_eqb (a b : list bytes) : bool :=
  (List.length a =? List.length b)%nat && forallb (fun p => bytes_eqb (fst p) (snd p)) (combine a b).

(* the partition statement as an executable monitor on the model *)
Definition partition_ok (vs : list bytes) (remaining : N) (ms : N * N * N * N) : bool :=
  match join_sink vs remaining ms [0] with
  | (Ok (r, n), cs) =>
    forallb (fun i => is_ok (sink_page r cs i)) (seqN (N.to_nat n) 0)
    && rows_eqb (flat_map (shown_rows r cs) (seqN (N.to_nat n) 0)) vs
    && (len cs =? n)
    && is_err (sink_page r cs n)
  | (Err _, _) => true
  | (Panic _, _) => false
  end.

(* every page together with the browse entries it must carry fits `remaining` *)
Definition pages_fit (vs : list bytes) (remaining : N) (ms : N * N * N * N) : bool :=
  match join_sink vs remaining ms [0] with
  | (Ok (r, n), cs) =>
    forallb (fun i => match sink_page r cs i with
                      | Ok p => len p + nav ms i n <=? remaining
                      | _ => false end) (seqN (N.to_nat n) 0)
  | _ => false
  end.

Lemma seqN_spec n : forall start i, In i (seqN n start) -> start <= i /\ i < start + N.of_nat n.
Proof.
  induction n as [|n IH]; intros start i H; [destruct H|].
  cbn [seqN] in H. destruct H as [<-|H]; [lia|]. apply IH in H. lia.
Qed.

Lemma join_sink_pages_fit vs R ms :
  vs <> [] -> rows_ok vs = true -> rows_size vs < 4294967296 -> len vs < 65536 ->
  budget_ok vs R ms = true -> pages_fit vs R ms = true.
Proof.
  intros Hvs Hok Hsz Hlen Hb.
  destruct (join_sink_budget vs R ms Hvs Hok Hsz Hlen Hb) as [r [n [cs [pages [Hj [Hcat [Hlp Hpg]]]]]]].
  unfold pages_fit. rewrite Hj. apply forallb_forall. intros i Hi.
  apply seqN_spec in Hi. rewrite N2Nat.id in Hi.
  destruct (nth_error pages (N.to_nat i)) as [p|] eqn:En.
  - destruct (Hpg _ _ En) as [H1 H2]. rewrite N2Nat.id in H1, H2. rewrite H1. apply N.leb_le. exact H2.
  - apply nth_error_None in En. unfold len in Hlp. lia.
Qed.

(* ---- witness of K-C02-budget through Page.Render (replayed on the real code) ---------------- *)
Definition wit_budget_cache : cache :=
  match cache_add (new_cache 0) (s2b "foo") (s2b "a" ++ [nl] ++ s2b "cccc") 0 with Ok c => c | _ => new_cache 0 end.
Definition wit_budget_tpl (k : bytes) : res bytes :=
  if bytes_eqb k (s2b "node") then Ok (s2b "T" ++ [nl] ++ s2b "{{.foo}}") else Err EGen.
Definition wit_budget_page_at (size : N) : page :=
  match page_map wit_budget_cache
          (page_with_sizer (page_with_menu (page_reset new_page)
             (menu_with_browse (new_menu default_sep)
                (mkBrowse true (s2b "11") (s2b "next") true (s2b "22") (s2b "back")))) (new_sizer size))
          (s2b "foo") with
  | Ok p => p | _ => new_page end.
Definition wit_budget_page : page := wit_budget_page_at 13.

(* ====================== lift of offered_page_renders to Page.Render ====================== *)
(* ---- templates: a placeholder mentioned once splits the instantiation ------------------ *)
Definition tmentions (k : bytes) (items : list tpl_item) : bool :=
  existsb (fun it => match it with TVar n => bytes_eqb n k | TLit _ => false end) items.

Lemma tpl_exec_agree items v1 v2 :
  (forall n, tmentions n items = true -> alookup n v1 = alookup n v2) -> tpl_exec items v1 = tpl_exec items v2.
Proof.
  induction items as [|[b|n] items IH]; intros H; [reflexivity| |].
  - cbn [tpl_exec]. rewrite IH; [reflexivity|]. intros n Hn. apply H. cbn [tmentions existsb]. exact Hn.
  - cbn [tpl_exec]. rewrite (H n) by (cbn [tmentions existsb]; rewrite bytes_eqb_refl; reflexivity).
    rewrite IH; [reflexivity|]. intros n' Hn. apply H. unfold tmentions in *. cbn [existsb]. rewrite Hn. apply orb_true_r.
Qed.

Lemma tpl_exec_app_ok a b vals body :
  tpl_exec (a ++ b) vals = Ok body <->
  exists x y, tpl_exec a vals = Ok x /\ tpl_exec b vals = Ok y /\ body = x ++ y.
Proof.
  revert body. induction a as [|[l|n] a IH]; intros body.
  - cbn [app tpl_exec]. split.
    + intros H. exists [], body. repeat split. exact H.
    + intros [x [y [Hx [Hy ->]]]]. inversion Hx; subst. exact Hy.
  - cbn [app tpl_exec]. split.
    + intros H. destruct (tpl_exec (a ++ b) vals) as [s|e|p] eqn:E; cbn [obind] in H; try discriminate.
      inversion H; subst body. destruct (proj1 (IH s) eq_refl) as [x [y [Hx [Hy ->]]]].
      exists (l ++ x), y. rewrite Hx. cbn [obind]. repeat split; [exact Hy|]. rewrite app_assoc. reflexivity.
    + intros [x [y [Hx [Hy ->]]]]. destruct (tpl_exec a vals) as [s|e|p] eqn:E; cbn [obind] in Hx; try discriminate.
      inversion Hx; subst x. rewrite (proj2 (IH (s ++ y))) by (exists s, y; repeat split; exact Hy).
      cbn [obind]. rewrite app_assoc. reflexivity.
  - cbn [app tpl_exec]. destruct (alookup n vals) as [v|]; [|split; [discriminate|intros [x [y [Hx _]]]; discriminate]].
    split.
    + intros H. destruct (tpl_exec (a ++ b) vals) as [s|e|p] eqn:E; cbn [obind] in H; try discriminate.
      inversion H; subst body. destruct (proj1 (IH s) eq_refl) as [x [y [Hx [Hy ->]]]].
      exists (v ++ x), y. rewrite Hx. cbn [obind]. repeat split; [exact Hy|]. rewrite app_assoc. reflexivity.
    + intros [x [y [Hx [Hy ->]]]]. destruct (tpl_exec a vals) as [s|e|p] eqn:E; cbn [obind] in Hx; try discriminate.
      inversion Hx; subst x. rewrite (proj2 (IH (s ++ y))) by (exists s, y; repeat split; exact Hy).
      cbn [obind]. rewrite app_assoc. reflexivity.
Qed.

(* the template-length lemma: with the sink mentioned exactly once, the instantiation is
   (text before) ++ (sink value) ++ (text after), the two texts not depending on the sink *)
Lemma tpl_exec_single a k b vals body :
  tpl_exec (a ++ TVar k :: b) vals = Ok body <->
  exists xa x xb, tpl_exec a vals = Ok xa /\ alookup k vals = Some x /\ tpl_exec b vals = Ok xb
                  /\ body = xa ++ x ++ xb.
Proof.
  rewrite tpl_exec_app_ok. cbn [tpl_exec]. split.
  - intros [xa [y [Ha [Hy ->]]]]. destruct (alookup k vals) as [x|]; [|discriminate].
    destruct (tpl_exec b vals) as [xb|e|p]; cbn [obind] in Hy; try discriminate. inversion Hy; subst y.
    exists xa, x, xb. repeat split. exact Ha.
  - intros [xa [x [xb [Ha [Hk [Hb ->]]]]]]. exists xa, (x ++ xb). rewrite Hk, Hb. cbn [obind]. repeat split. exact Ha.
Qed.

(* ---- GetAt on a map with unique keys ------------------------------------------------------ *)
Lemma get_at_loop_absent sink crs idx vals :
  ~ In sink (map fst vals) -> get_at_loop sink crs idx vals = Ok vals.
Proof.
  induction vals as [|[k v] vals IH]; intros H; [reflexivity|]. cbn [get_at_loop].
  destruct (bytes_eqb sink k) eqn:E.
  - apply bytes_eqb_eq in E. subst k. exfalso. apply H. left. reflexivity.
  - rewrite IH by (intros Hin; apply H; right; exact Hin). reflexivity.
Qed.

Lemma alookup_In {V} k (l : list (bytes * V)) v : alookup k l = Some v -> In k (map fst l).
Proof.
  induction l as [|[k' v'] l IH]; [discriminate|]. cbn [alookup map fst].
  destruct (bytes_eqb k k') eqn:E; [apply bytes_eqb_eq in E; left; congruence|]. intros H. right. auto.
Qed.

Lemma get_at_loop_ok sink crs idx vals v p :
  NoDup (map fst vals) -> alookup sink vals = Some v -> sink_page v crs idx = Ok p ->
  exists vals', get_at_loop sink crs idx vals = Ok vals'
    /\ alookup sink vals' = Some p
    /\ (forall k, k <> sink -> alookup k vals' = alookup k vals).
Proof.
  induction vals as [|[k0 v0] vals IH]; intros Hnd Hl Hp; [discriminate|].
  cbn [map fst] in Hnd. inversion Hnd as [|? ? Hnin Hnd']; subst.
  cbn [get_at_loop alookup] in *. destruct (bytes_eqb sink k0) eqn:E.
  - apply bytes_eqb_eq in E. subst k0. inversion Hl; subst v0. rewrite Hp. cbn [obind].
    rewrite get_at_loop_absent by exact Hnin. cbn [obind].
    exists ((sink, p) :: vals). split; [reflexivity|]. split.
    + cbn [alookup]. rewrite bytes_eqb_refl. reflexivity.
    + intros k Hk. cbn [alookup]. destruct (bytes_eqb k sink) eqn:E2; [apply bytes_eqb_eq in E2; contradiction|reflexivity].
  - destruct (IH Hnd' Hl Hp) as [vals' [Hg [Hs Ho]]]. rewrite Hg. cbn [obind].
    exists ((k0, v0) :: vals'). split; [reflexivity|]. split.
    + cbn [alookup]. rewrite E. exact Hs.
    + intros k Hk. cbn [alookup]. destruct (bytes_eqb k k0); [reflexivity|apply Ho; exact Hk].
Qed.

Lemma aset_keys_present {V} k (v v0 : V) l : alookup k l = Some v0 -> map fst (aset k v l) = map fst l.
Proof.
  induction l as [|[k' v'] l IH]; [discriminate|]. cbn [alookup aset].
  destruct (bytes_eqb k k') eqn:E.
  - intros _. apply bytes_eqb_eq in E. subst. reflexivity.
  - intros H. cbn [map fst]. rewrite IH by exact H. reflexivity.
Qed.

(* ---- split on a map with exactly one zero-size symbol --------------------------------------- *)
Definition blank (k : bytes) (vals : alist) : alist :=
  map (fun kv => if bytes_eqb (fst kv) k then (fst kv, []) else kv) vals.

(* the decidable guard: unique keys, k is the one symbol with reserved size 0 *)
Definition single_sink (c : cache) (k : bytes) (vals : alist) : Prop :=
  NoDup (map fst vals)
  /\ (forall k', In k' (map fst vals) ->
        if bytes_eqb k' k then cache_reserved c k' = Ok 0
        else exists sz, cache_reserved c k' = Ok sz /\ sz <> 0).

Lemma blank_keys k vals : map fst (blank k vals) = map fst vals.
Proof.
  unfold blank. rewrite map_map. apply map_ext. intros [k' v']. cbn [fst].
  destruct (bytes_eqb k' k); reflexivity.
Qed.

Lemma alookup_blank_sink k vals v : alookup k vals = Some v -> alookup k (blank k vals) = Some [].
Proof.
  induction vals as [|[k' v'] vals IH]; [discriminate|]. cbn [alookup blank map fst].
  destruct (bytes_eqb k k') eqn:E.
  - intros _. apply bytes_eqb_eq in E. subst k'. rewrite bytes_eqb_refl. cbn [alookup]. rewrite bytes_eqb_refl. reflexivity.
  - intros H. destruct (bytes_eqb k' k) eqn:E2.
    + apply bytes_eqb_eq in E2. subst. rewrite bytes_eqb_refl in E. discriminate.
    + cbn [alookup]. rewrite E. apply IH. exact H.
Qed.

Lemma alookup_blank_other k vals k' : k' <> k -> alookup k' (blank k vals) = alookup k' vals.
Proof.
  intros Hne. induction vals as [|[k0 v0] vals IH]; [reflexivity|]. cbn [alookup blank map fst].
  destruct (bytes_eqb k0 k) eqn:E.
  - apply bytes_eqb_eq in E. subst k0. cbn [alookup].
    destruct (bytes_eqb k' k) eqn:E2; [apply bytes_eqb_eq in E2; contradiction|exact IH].
  - cbn [alookup]. destruct (bytes_eqb k' k0); [reflexivity|exact IH].
Qed.

Lemma split_loop_single c k vals : forall acc sink svs,
  single_sink c k vals ->
  page_split_loop c vals acc sink svs
  = Ok (acc ++ blank k vals,
        match alookup k vals with Some _ => k | None => sink end,
        match alookup k vals with Some v => split_on nl v | None => svs end).
Proof.
  induction vals as [|[k0 v0] vals IH]; intros acc sink svs [Hnd Hres].
  - cbn. rewrite app_nil_r. reflexivity.
  - cbn [map fst] in Hnd. inversion Hnd as [|? ? Hnin Hnd']; subst.
    assert (Hs' : single_sink c k vals).
    { split; [exact Hnd'|]. intros k' Hin. apply Hres. right. exact Hin. }
    pose proof (Hres k0 (or_introl eq_refl)) as H0.
    cbn [page_split_loop alookup blank map fst].
    destruct (bytes_eqb k0 k) eqn:E.
    + apply bytes_eqb_eq in E. subst k0. rewrite H0, bytes_eqb_refl. cbn [N.eqb].
      rewrite IH by exact Hs'.
      assert (Hn : alookup k vals = None).
      { destruct (alookup k vals) eqn:El; [|reflexivity]. exfalso. apply Hnin. eapply alookup_In. exact El. }
      rewrite Hn. rewrite <- app_assoc. reflexivity.
    + destruct H0 as [sz [Hr Hsz]]. rewrite Hr.
      destruct (sz =? 0) eqn:Ez; [apply N.eqb_eq in Ez; contradiction|].
      assert (E2 : bytes_eqb k k0 = false).
      { destruct (bytes_eqb k k0) eqn:E2; [|reflexivity]. apply bytes_eqb_eq in E2. subst. rewrite bytes_eqb_refl in E. discriminate. }
      rewrite E2. rewrite IH by exact Hs'. rewrite <- app_assoc. reflexivity.
Qed.

Lemma page_split_single c k vals v :
  k <> [] -> single_sink c k vals -> alookup k vals = Some v ->
  page_split c vals = Ok (blank k vals, k, split_on nl v).
Proof.
  intros Hk Hs Hl. unfold page_split. rewrite (split_loop_single c k vals [] [] [] Hs). rewrite Hl.
  cbn [app]. destruct k; [congruence|reflexivity].
Qed.
Lemma menu_sizes_closed m :
  b_next_avail (m_browse m) = true -> b_prev_avail (m_browse m) = true ->
  len (b_next_sel (m_browse m)) + 1 + len (b_next_title (m_browse m)) < 4294967296 ->
  len (b_prev_sel (m_browse m)) + 1 + len (b_prev_title (m_browse m)) < 4294967296 ->
  menu_sizes m = Ok (0,
                     len (b_next_sel (m_browse m)) + 1 + len (b_next_title (m_browse m)),
                     len (b_prev_sel (m_browse m)) + 1 + len (b_prev_title (m_browse m)),
                     w32 (len (b_next_sel (m_browse m)) + 1 + len (b_next_title (m_browse m))
                          + (len (b_prev_sel (m_browse m)) + 1 + len (b_prev_title (m_browse m))))).
Proof.
  destruct m as [items b pc cn cp sk kp sp rs]. destruct b as [na ns nt pa ps pt].
  cbn [m_browse b_next_avail b_prev_avail b_next_sel b_next_title b_prev_sel b_prev_title].
  intros -> -> Hn Hp.
  unfold menu_sizes. cbn -[w32 sub32 len].
  change (len (@nil N)) with 0. change (0 <? 0) with false. cbn [app].
  rewrite !len_app, !len_cons. change (w32 0) with 0.
  rewrite (w32_small (len ns + (1 + len nt))) by lia. rewrite (w32_small (len ps + (1 + len pt))) by lia.
  rewrite !sub32_small by lia. rewrite !N.sub_0_r.
  replace (len ns + (1 + len nt)) with (len ns + 1 + len nt) by lia.
  replace (len ps + (1 + len pt)) with (len ps + 1 + len pt) by lia. reflexivity.
Qed.

Lemma menu_sizes_browse m1 m2 : m_browse m1 = m_browse m2 -> menu_sizes m1 = menu_sizes m2.
Proof. intros H. unfold menu_sizes. rewrite H. reflexivity. Qed.

(* ---- the menu text: success from resolvable titles, and its length --------------------------- *)
Lemma menu_lines_nonempty tf sep items lines :
  sep <> [] -> menu_lines tf sep items = Some lines -> Forall (fun l => l <> []) lines.
Proof.
  intros Hsep. revert lines. induction items as [|[sel t] items IH]; intros lines H.
  - inversion H. constructor.
  - cbn [menu_lines] in H. destruct (tf t) as [x|e|p]; try discriminate.
    destruct (menu_lines tf sep items) as [l|]; [|discriminate]. inversion H; subst.
    constructor; [|apply IH; reflexivity].
    intros E. apply app_eq_nil in E as [_ E]. apply app_eq_nil in E as [E _]. contradiction.
Qed.

Lemma menu_loop_of_lines tf sep : sep <> [] -> forall items lines acc,
  menu_lines tf sep items = Some lines ->
  menu_loop tf sep items acc
  = (Ok (match acc with [] => join_with [nl] lines | _ => acc ++ ltail lines end), []).
Proof.
  intros Hsep. induction items as [|[sel t] items IH]; intros lines acc H.
  - inversion H; subst. cbn [menu_loop]. destruct acc; [reflexivity|]. unfold ltail. cbn. rewrite app_nil_r. reflexivity.
  - cbn [menu_lines] in H. destruct (tf t) as [x|e|p] eqn:Et; try discriminate.
    destruct (menu_lines tf sep items) as [l|] eqn:El; [|discriminate]. inversion H; subst lines; clear H.
    cbn [menu_loop]. rewrite Et. rewrite (IH l _ eq_refl).
    destruct acc as [|a acc].
    + change (0 <? len (@nil N)) with false. cbn [app]. rewrite join_cons_tail.
      destruct (sel ++ sep ++ x) eqn:E; [|reflexivity].
      exfalso. apply app_eq_nil in E as [_ E]. apply app_eq_nil in E as [E _]. contradiction.
    + assert (Hlt : (0 <? len (a :: acc)) = true) by (rewrite len_cons; lia).
      rewrite Hlt. cbn [app]. unfold ltail. cbn [map List.concat app].
      rewrite <- !app_assoc. cbn [app]. rewrite <- !app_assoc. reflexivity.
Qed.

Lemma len_join_nl p : p <> [] -> len (join_with [nl] p) + 1 = rows_size p.
Proof. intros H. rewrite (len_join_with_sep [nl] [0]) by reflexivity. apply len_pjoin. exact H. Qed.

Lemma len_opt_menu_join ls :
  Forall (fun l => l <> []) ls -> len (opt_menu (join_with [nl] ls)) = rows_size ls.
Proof.
  intros H. destruct ls as [|x l]; [reflexivity|].
  inversion H as [|? ? Hx _]; subst.
  pose proof (len_join_nl (x :: l) ltac:(discriminate)) as Hl.
  assert (Hpos : 0 < len (join_with [nl] (x :: l))).
  { rewrite join_cons_tail, len_app. destruct x; [congruence|]. rewrite len_cons. lia. }
  unfold opt_menu. destruct (0 <? len (join_with [nl] (x :: l))) eqn:E; [|lia].
  rewrite len_cons. lia.
Qed.

(* ---- prepare, step by step, on a page with one symbol sink ----------------------------------- *)
Lemma prepare_single c gt gm pg sym idx z0 m k nsv svs s pg3 z3 R m3 ms r n cs :
  p_sizer pg = Some z0 -> p_menu pg = Some m -> m_sink m = false -> k <> [] ->
  page_split c (p_map pg) = Ok (nsv, k, svs) ->
  page_render_inner gt gm (page_set_sizer pg (Some (sizer_add_cursor z0 0))) sym nsv 0 = (Ok s, pg3) ->
  p_sizer pg3 = Some z3 -> sizer_check z3 s = (R, true) ->
  p_menu pg3 = Some m3 -> menu_sizes m3 = Ok ms ->
  join_sink svs R ms (z_crsrs z3) = (Ok (r, n), cs) ->
  page_prepare c gt gm pg sym idx
  = (Ok (aset k r nsv),
     page_set_menu (page_set_sizer pg3 (Some (sizer_set_crsrs z3 cs))) (Some (menu_with_page_count m3 n))).
Proof.
  intros Hz0 Hm Hsink Hk Hsplit Hpre Hz3 Hchk Hm3 Hms Hj.
  unfold page_prepare. rewrite Hz0, Hsplit. cbv zeta. rewrite Hm, Hsink.
  rewrite Hz0. cbn [option_map]. rewrite Hpre, Hz3, Hchk. cbn [negb]. rewrite Hm3, Hms, Hj.
  assert (Hal : match k with [] => true | _ :: _ => false end = false) by (destruct k; congruence).
  rewrite Hal. unfold prep_write.
  change (p_menu (page_set_sizer pg3 (Some (sizer_set_crsrs z3 cs)))) with (p_menu pg3).
  rewrite Hm3. reflexivity.
Qed.

Definition browse_lines (b : browse) (sep : bytes) (nx pv : bool) : list bytes :=
  (if nx then [b_next_sel b ++ sep ++ b_next_title b] else [])
  ++ (if pv then [b_prev_sel b ++ sep ++ b_prev_title b] else []).

(* a paged menu whose titles resolve renders, for every index below the page count *)
Lemma menu_render_paged_ok gm m i lines :
  b_next_avail (m_browse m) = true -> b_prev_avail (m_browse m) = true ->
  0 < m_page_count m -> i < m_page_count m -> m_sep m <> [] ->
  menu_lines (title_for gm m) (m_sep m) (m_items m) = Some lines ->
  title_for gm m (b_next_title (m_browse m)) = Ok (b_next_title (m_browse m)) ->
  title_for gm m (b_prev_title (m_browse m)) = Ok (b_prev_title (m_browse m)) ->
  exists m', menu_render_st gm m i
    = (Ok (join_with [nl] (lines ++ browse_lines (m_browse m) (m_sep m) (i + 1 <? m_page_count m) (0 <? i))), m').
Proof.
  intros Hn Hp Hpc Hi Hsep Hl Hnt Hpt. unfold menu_render_st.
  destruct (menu_apply_page m i) as [m1|e|p] eqn:Ea.
  - destruct (menu_apply_page_browse m i m1 Hn Hp Hpc Ea) as [_ [_ [_ [Hitems [_ [_ [Hs [_ [Hrs _]]]]]]]]].
    rewrite Hs, Hrs. fold (title_for gm m). rewrite Hitems.
    assert (Hbl : menu_lines (title_for gm m) (m_sep m)
              ((if i + 1 <? m_page_count m then [(b_next_sel (m_browse m), b_next_title (m_browse m))] else [])
               ++ (if 0 <? i then [(b_prev_sel (m_browse m), b_prev_title (m_browse m))] else []))
            = Some (browse_lines (m_browse m) (m_sep m) (i + 1 <? m_page_count m) (0 <? i))).
    { unfold browse_lines. apply menu_lines_app.
      - destruct (i + 1 <? m_page_count m); [|reflexivity]. cbn [menu_lines]. rewrite Hnt. reflexivity.
      - destruct (0 <? i); [|reflexivity]. cbn [menu_lines]. rewrite Hpt. reflexivity. }
    rewrite (menu_loop_of_lines (title_for gm m) (m_sep m) Hsep _ _ [] (menu_lines_app _ _ _ _ _ _ Hl Hbl)).
    eexists. reflexivity.
  - exfalso. unfold menu_apply_page in Ea. destruct (m_page_count m =? 0) eqn:E0; [lia|].
    destruct (m_page_count m <=? i) eqn:E1; [lia|discriminate].
  - exfalso. unfold menu_apply_page in Ea. destruct (m_page_count m =? 0); [destruct (0 <? i); discriminate|].
    destruct (m_page_count m <=? i); discriminate.
Qed.

Lemma rows_size_browse_lines b nx pv :
  rows_size (browse_lines b default_sep nx pv)
  = (if nx then len (b_next_sel b) + 1 + len (b_next_title b) + 1 else 0)
    + (if pv then len (b_prev_sel b) + 1 + len (b_prev_title b) + 1 else 0).
Proof.
  unfold browse_lines. rewrite rows_size_app.
  destruct nx, pv; cbn [rows_size fold_right]; rewrite ?len_app; change (len default_sep) with 1; lia.
Qed.

Lemma sizer_get_at_sink z vals idx :
  z_sink z <> [] -> sizer_get_at z vals idx = get_at_loop (z_sink z) (z_crsrs z) idx vals.
Proof. intros H. unfold sizer_get_at. destruct (z_sink z); [congruence|reflexivity]. Qed.

Lemma split_on_nonempty sep l : split_on sep l <> [].
Proof.
  induction l as [|x l IH]; [discriminate|]. cbn [split_on]. destruct (x =? sep); [discriminate|].
  destruct (split_on sep l); [congruence|discriminate].
Qed.

(* what Menu.Sizes computes for a browse configuration with both entries (closed form) *)
(* lia on a goal that already holds every fact it needs: the context of the next proof is large
   and zify is very slow on it *)
Ltac clia := repeat match goal with H : _ |- _ => clear H end; lia.

Definition browse_sizes (b : browse) : N * N * N * N :=
  (0, len (b_next_sel b) + 1 + len (b_next_title b), len (b_prev_sel b) + 1 + len (b_prev_title b),
   w32 (len (b_next_sel b) + 1 + len (b_next_title b) + (len (b_prev_sel b) + 1 + len (b_prev_title b)))).

(* the final render of page i, given what prepare produced: it succeeds as soon as the pieces
   add up to at most outputSize *)
Lemma final_render_ok gt gm pg6 sym vals i z6 m6 k r X src a b xa xb lines :
  p_sizer pg6 = Some z6 -> z_sink z6 = k -> k <> [] -> 0 < z_out z6 -> z_out z6 < 4294967296 ->
  p_menu pg6 = Some m6 ->
  b_next_avail (m_browse m6) = true -> b_prev_avail (m_browse m6) = true -> m_sep m6 = default_sep ->
  title_for gm m6 (b_next_title (m_browse m6)) = Ok (b_next_title (m_browse m6)) ->
  title_for gm m6 (b_prev_title (m_browse m6)) = Ok (b_prev_title (m_browse m6)) ->
  0 < m_page_count m6 -> i < m_page_count m6 ->
  menu_lines (title_for gm m6) (m_sep m6) (m_items m6) = Some lines ->
  NoDup (map fst vals) -> alookup k vals = Some r -> sink_page r (z_crsrs z6) i = Ok X ->
  gt sym = Ok src -> tpl_parse (tpl_source (p_err pg6) (p_extra pg6) src) = Some (a ++ TVar k :: b) ->
  (forall w, (forall nm, nm <> k -> alookup nm w = alookup nm vals) -> tpl_exec a w = Ok xa /\ tpl_exec b w = Ok xb) ->
  len xa + len X + len xb + rows_size lines
    + rows_size (browse_lines (m_browse m6) default_sep (i + 1 <? m_page_count m6) (0 <? i)) <= z_out z6 ->
  exists m7,
    menu_render_st gm m6 i
      = (Ok (join_with [nl] (lines ++ browse_lines (m_browse m6) default_sep (i + 1 <? m_page_count m6) (0 <? i))), m7)
    /\ page_render_inner gt gm pg6 sym vals i
      = (Ok ((xa ++ X ++ xb)
             ++ opt_menu (join_with [nl] (lines ++ browse_lines (m_browse m6) default_sep (i + 1 <? m_page_count m6) (0 <? i)))),
         page_set_menu pg6 (Some m7)).
Proof.
  intros Hsz6 Hzs Hk Hout Hout32 Hmn6 Hna Hpa Hsep Hnt Hpt Hpc Hi Hlines Hndv Hlk Hsp Hgt Hparse Hexab Hfit.
  assert (Hsepne : m_sep m6 <> []) by (rewrite Hsep; discriminate).
  pose proof (menu_lines_nonempty _ _ _ _ Hsepne Hlines) as Hlne.
  destruct (get_at_loop_ok k (z_crsrs z6) i vals r X Hndv Hlk Hsp) as [valsi [Hgi [Hki Hoi]]].
  destruct (Hexab valsi Hoi) as [Hxa Hxb].
  assert (Hexec : tpl_exec (a ++ TVar k :: b) valsi = Ok (xa ++ X ++ xb)).
  { apply (proj2 (tpl_exec_single a k b valsi (xa ++ X ++ xb))). exists xa, X, xb. repeat split; assumption. }
  destruct (menu_render_paged_ok gm m6 i lines Hna Hpa Hpc Hi Hsepne Hlines Hnt Hpt) as [m7 Hr7].
  rewrite Hsep in Hr7.
  set (bl := browse_lines (m_browse m6) default_sep (i + 1 <? m_page_count m6) (0 <? i)) in *.
  exists m7. split; [exact Hr7|].
  unfold page_render_inner, render_template.
  rewrite Hgt. cbn [obind]. rewrite Hparse, Hsz6.
  rewrite sizer_get_at_sink by (rewrite Hzs; exact Hk).
  rewrite Hzs, Hgi. cbn [obind]. rewrite Hexec.
  rewrite Hmn6, Hr7.
  change (p_sizer (page_set_menu pg6 (Some m7))) with (p_sizer pg6). rewrite Hsz6.
  fold (opt_menu (join_with [nl] (lines ++ bl))).
  set (out := (xa ++ X ++ xb) ++ opt_menu (join_with [nl] (lines ++ bl))).
  assert (Hbne : Forall (fun l => l <> []) (lines ++ bl)).
  { apply Forall_app. split; [exact Hlne|]. unfold bl, browse_lines.
    apply Forall_app. split; [destruct (i + 1 <? m_page_count m6)|destruct (0 <? i)]; constructor; try constructor;
      intros E; apply app_eq_nil in E as [_ E]; discriminate. }
  assert (Hlo : len out = len xa + len X + len xb + rows_size lines + rows_size bl).
  { unfold out. rewrite !len_app, len_opt_menu_join by exact Hbne. rewrite rows_size_app. clia. }
  assert (Hle : len out <= z_out z6) by (revert Hlo Hfit; clia).
  assert (Hck : snd (sizer_check z6 out) = true).
  { unfold sizer_check. rewrite w32_small by (revert Hle Hout32; clia).
    destruct (0 <? z_out z6) eqn:E1; [|revert E1; generalize Hout; clia].
    destruct (z_out z6 <? len out) eqn:E2; [revert E2; generalize Hle; clia|reflexivity]. }
  rewrite Hck. reflexivity.
Qed.

Lemma page_render_exact c gt gm pg sym z0 m k v src a b s pg3 :
  (* the page as the VM builds it: sizer attached before the Map, fresh cursors, ordinary menu *)
  p_sizer pg = Some z0 -> z_crsrs z0 = [] -> z_sink z0 = k -> 0 < z_out z0 -> z_out z0 < 4294967296 ->
  p_menu pg = Some m -> m_sink m = false -> m_keep m = true -> m_page_count m = 0 ->
  b_next_avail (m_browse m) = true -> b_prev_avail (m_browse m) = true ->
  (* guard excluding K-C02-labelsize: default separator, browse labels resolve to themselves *)
  m_sep m = default_sep ->
  title_for gm m (b_next_title (m_browse m)) = Ok (b_next_title (m_browse m)) ->
  title_for gm m (b_prev_title (m_browse m)) = Ok (b_prev_title (m_browse m)) ->
  (* exactly one sink symbol *)
  k <> [] -> single_sink c k (p_map pg) -> alookup k (p_map pg) = Some v ->
  (* a template of the fragment that mentions the sink exactly once *)
  (forall x, is_panic (gt x) = false) ->
  gt sym = Ok src -> tpl_parse (tpl_source (p_err pg) (p_extra pg) src) = Some (a ++ TVar k :: b) ->
  tmentions k a = false -> tmentions k b = false ->
  (* the pre-render without the sink, from which the budget is computed *)
  page_render_inner gt gm (page_set_sizer pg (Some (sizer_add_cursor z0 0))) sym (blank k (p_map pg)) 0 = (Ok s, pg3) ->
  len s < 4294967296 ->
  rows_ok (split_on nl v) = true -> rows_size (split_on nl v) < 4294967296 -> len (split_on nl v) < 65536 ->
  budget_ok (split_on nl v) (z_out z0 - len s) (browse_sizes (m_browse m)) = true ->
  exists n r cs (pages : list (list bytes)) xa xb lines,
    join_sink (split_on nl v) (z_out z0 - len s) (browse_sizes (m_browse m)) [0] = (Ok (r, n), cs)
    /\ List.concat pages = split_on nl v /\ len pages = n /\ 0 < n
    (* xa, xb: the template text around the sink, instantiated with the FULL mapped values *)
    /\ (forall w, (forall nm, nm <> k -> alookup nm w = alookup nm (p_map pg)) ->
          tpl_exec a w = Ok xa /\ tpl_exec b w = Ok xb)
    /\ menu_lines (title_for gm m) (m_sep m) (m_items m) = Some lines
    (* page i is exactly: text, the WHOLE rows of block i, text, the complete menu with its browse lines *)
    /\ (forall i p, nth_error pages i = Some p ->
          exists pg', page_render c gt gm pg sym (N.of_nat i)
            = (Ok ((xa ++ join_with [nl] p ++ xb)
                   ++ opt_menu (join_with [nl] (lines ++ browse_lines (m_browse m) default_sep
                                                           (N.of_nat i + 1 <? n) (0 <? N.of_nat i)))), pg'))
    /\ (forall i, n <= i -> exists e, fst (page_render c gt gm pg sym i) = Err e).
Proof.
  intros Hz0 Hcrs Hzs Hout Hout32 Hm Hsink Hkeep Hpc Hna Hpa Hsep Hnt Hpt Hk Hsingle Hlk Hgtp Hgt Hparse Hma Hmb
         Hpre Hslen Hrok Hrsz Hrlen Hbud.
  set (nsv := blank k (p_map pg)) in *. set (vs := split_on nl v) in *.
  set (z2 := sizer_add_cursor z0 0) in *.
  assert (Hsepne : m_sep m <> []) by (rewrite Hsep; discriminate).
  pose proof (page_split_single c k (p_map pg) v Hk Hsingle Hlk) as Hsplit. fold nsv vs in Hsplit.
  (* facts about the pre-render *)
  destruct (inner_shape _ _ _ _ _ _ _ _ Hpre) as [src' [items [vals0 [body0 [mtext0 [Hg [Hparse0 [Hv0 [He0 [Hs Hm0]]]]]]]]]].
  cbn [p_err p_extra p_sizer p_menu page_set_sizer] in Hparse0, Hv0, Hm0.
  rewrite Hgt in Hg. injection Hg as <-. rewrite Hparse in Hparse0. injection Hparse0 as <-.
  rewrite Hm in Hm0.
  pose proof (inner_err_extra gt gm (page_set_sizer pg (Some z2)) sym nsv 0) as Hi. rewrite Hpre in Hi. cbn [snd] in Hi.
  cbn [p_err p_extra p_map p_sizer page_set_sizer] in Hi. destruct Hi as [Hie [Hix [Him His]]].
  destruct (inner_menu _ _ _ _ _ _ _ _ m Hpre Hm) as [txt [m3 [Er Hm3]]].
  rewrite Er in Hm0. cbn [fst] in Hm0. injection Hm0 as ->.
  destruct (menu_render_st_static gm m 0 mtext0 m3 Er) as [[Hb3 [Hs3 [Hk3 [Hrs3 [Hsk3 Hpc3]]]]] Hit3].
  specialize (Hit3 Hkeep).
  destruct (menu_render_text0 gm m 0 mtext0 m3 Hpc Hsepne Er) as [_ [lines [Hlines Hmt]]].
  pose proof (menu_lines_nonempty _ _ _ _ Hsepne Hlines) as Hlne.
  assert (Hzs2 : z_sink z2 = k) by exact Hzs.
  assert (Hzs2ne : z_sink z2 <> []) by (rewrite Hzs2; exact Hk).
  assert (Hnd : NoDup (map fst nsv)) by (unfold nsv; rewrite blank_keys; apply Hsingle).
  assert (Hknsv : alookup k nsv = Some []) by (eapply alookup_blank_sink; exact Hlk).
  (* values of the pre-render: the sink is empty *)
  rewrite sizer_get_at_sink in Hv0 by exact Hzs2ne. rewrite Hzs2 in Hv0.
  assert (Hcrs2 : z_crsrs z2 = [0]) by (unfold z2; cbn [z_crsrs sizer_add_cursor]; rewrite Hcrs; reflexivity).
  rewrite Hcrs2 in Hv0.
  destruct (get_at_loop_ok k [0] 0 nsv [] [] Hnd Hknsv eq_refl) as [vals0' [Hg0 [Hk0 Ho0]]].
  rewrite Hg0 in Hv0. injection Hv0 as <-.
  destruct (proj1 (tpl_exec_single a k b vals0' body0) He0) as [xa [x0 [xb [Hxa [Hx0 [Hxb Hbody0]]]]]].
  rewrite Hk0 in Hx0. injection Hx0 as <-. cbn [app] in Hbody0.
  assert (Hslen2 : len s = len xa + len xb + rows_size lines).
  { rewrite Hs, Hbody0, Hmt, !len_app, len_opt_menu_join by exact Hlne. clia. }
  (* the sizer's check and the budget *)
  assert (Hfit : len s <= z_out z0).
  { eapply (inner_fits gt gm (page_set_sizer pg (Some z2)) sym nsv 0 s pg3 z2); [reflexivity|exact Hout|exact Hslen|exact Hpre]. }
  assert (Hchk : sizer_check z2 s = (z_out z0 - len s, true)).
  { unfold sizer_check. rewrite w32_small by exact Hslen. change (z_out z2) with (z_out z0).
    destruct (0 <? z_out z0) eqn:E1; [|revert E1; generalize Hout; clia].
    destruct (z_out z0 <? len s) eqn:E2; [revert E2; generalize Hfit; clia|reflexivity]. }
  set (R := z_out z0 - len s) in *.
  set (ms := browse_sizes (m_browse m)) in *.
  pose proof Hbud as Hbud'. unfold budget_ok in Hbud'. apply andb_true_iff in Hbud' as [Hb1 Hb2].
  assert (Hms : menu_sizes m3 = Ok ms).
  { rewrite (menu_sizes_browse m3 m Hb3). apply menu_sizes_closed; try assumption;
      unfold ms, browse_sizes, ms_next, ms_prev in Hb1; revert Hb1 Hb2; clia. }
  destruct (join_sink_budget vs R ms (split_on_nonempty nl v) Hrok Hrsz Hrlen Hbud)
    as [r [n [cs [pages [Hj [Hcat [Hlp Hpages]]]]]]].
  assert (Hnpos : 0 < n).
  { destruct pages as [|p0 pages]; [cbn in Hcat; exfalso; apply (split_on_nonempty nl v); symmetry; exact Hcat|].
    rewrite <- Hlp, len_cons. clia. }
  pose proof Hj as Hj0. rewrite <- Hcrs2 in Hj.
  pose proof (fun idx => prepare_single c gt gm pg sym idx z0 m k nsv vs s pg3 z2 R m3 ms r n cs
                Hz0 Hm Hsink Hk Hsplit Hpre His Hchk Hm3 Hms Hj) as Hprep.
  set (pg6 := page_set_menu (page_set_sizer pg3 (Some (sizer_set_crsrs z2 cs))) (Some (menu_with_page_count m3 n))) in *.
  assert (Hxab : forall w, (forall nm, nm <> k -> alookup nm w = alookup nm (p_map pg)) ->
            tpl_exec a w = Ok xa /\ tpl_exec b w = Ok xb).
  { intros w Hw.
    assert (Hagree : forall items', tmentions k items' = false -> tpl_exec items' w = tpl_exec items' vals0').
    { intros items' Hmi. apply tpl_exec_agree. intros nm Hnm.
      assert (Hne : nm <> k) by (intros ->; congruence).
      rewrite (Hw nm Hne), (Ho0 nm Hne). unfold nsv. symmetry. apply alookup_blank_other. exact Hne. }
    rewrite (Hagree a Hma), (Hagree b Hmb). split; assumption. }
  exists n, r, cs, pages, xa, xb, lines.
  split; [exact Hj0|]. split; [exact Hcat|]. split; [exact Hlp|]. split; [exact Hnpos|].
  split; [exact Hxab|]. split; [exact Hlines|]. split.
  - intros i0 p Enth. set (i := N.of_nat i0). unfold page_render. rewrite Hprep.
    destruct (Hpages _ _ Enth) as [Hsp Hfits]. fold i in Hsp, Hfits.
    assert (Hi : i < n).
    { assert (Hsome : nth_error pages i0 <> None) by congruence. apply nth_error_Some in Hsome.
      unfold len in Hlp. unfold i. revert Hsome Hlp. clia. }
    set (X := join_with [nl] p) in *.
    set (vals := aset k r nsv).
    assert (Hndv : NoDup (map fst vals)) by (unfold vals; rewrite (aset_keys_present k r [] nsv Hknsv); exact Hnd).
    set (m6 := menu_with_page_count m3 n).
    assert (Htf6 : title_for gm m6 = title_for gm m) by (unfold title_for, m6; cbn [m_has_rs menu_with_page_count]; rewrite Hrs3; reflexivity).
    destruct (final_render_ok gt gm pg6 sym vals i (sizer_set_crsrs z2 cs) m6 k r X src a b xa xb lines) as [m7 [_ Hfin]];
      [..|rewrite Hfin; unfold m6; cbn [m_browse m_page_count menu_with_page_count]; rewrite Hb3; eexists; reflexivity];
      try reflexivity; try assumption;
      unfold m6; cbn [m_browse m_page_count m_sep m_items menu_with_page_count z_out z_sink z_crsrs sizer_set_crsrs]; fold m6;
      rewrite ?Hb3, ?Hs3, ?Hit3, ?Htf6; try assumption.
    + apply alookup_aset_same.
    + unfold pg6. cbn [p_err p_extra page_set_menu page_set_sizer]. rewrite Hie, Hix. exact Hparse.
    + intros w Hw. apply Hxab. intros nm Hne. rewrite (Hw nm Hne). unfold vals.
      rewrite alookup_aset_other by exact Hne. unfold nsv. apply alookup_blank_other. exact Hne.
    + rewrite rows_size_browse_lines. unfold R in Hfits. unfold nav, ms, browse_sizes, ms_next, ms_prev in Hfits.
      change (z_out z2) with (z_out z0).
      revert Hfits Hslen2 Hfit. destruct (i + 1 <? n), (0 <? i); clia.
  - intros i Hi. apply (page_render_past_end c gt gm pg sym i (aset k r nsv) pg6 (menu_with_page_count m3 n));
      [exact Hgtp|apply Hprep|reflexivity|cbn [m_page_count menu_with_page_count]; exact Hi|revert Hi; generalize Hnpos; clia].
Qed.

(* the statement as asked: every index below n renders *)
Lemma page_offered_renders c gt gm pg sym z0 m k v src a b s pg3 :
  p_sizer pg = Some z0 -> z_crsrs z0 = [] -> z_sink z0 = k -> 0 < z_out z0 -> z_out z0 < 4294967296 ->
  p_menu pg = Some m -> m_sink m = false -> m_keep m = true -> m_page_count m = 0 ->
  b_next_avail (m_browse m) = true -> b_prev_avail (m_browse m) = true ->
  m_sep m = default_sep ->
  title_for gm m (b_next_title (m_browse m)) = Ok (b_next_title (m_browse m)) ->
  title_for gm m (b_prev_title (m_browse m)) = Ok (b_prev_title (m_browse m)) ->
  k <> [] -> single_sink c k (p_map pg) -> alookup k (p_map pg) = Some v ->
  (forall x, is_panic (gt x) = false) ->
  gt sym = Ok src -> tpl_parse (tpl_source (p_err pg) (p_extra pg) src) = Some (a ++ TVar k :: b) ->
  tmentions k a = false -> tmentions k b = false ->
  page_render_inner gt gm (page_set_sizer pg (Some (sizer_add_cursor z0 0))) sym (blank k (p_map pg)) 0 = (Ok s, pg3) ->
  len s < 4294967296 ->
  rows_ok (split_on nl v) = true -> rows_size (split_on nl v) < 4294967296 -> len (split_on nl v) < 65536 ->
  budget_ok (split_on nl v) (z_out z0 - len s) (browse_sizes (m_browse m)) = true ->
  exists n r cs,
    join_sink (split_on nl v) (z_out z0 - len s) (browse_sizes (m_browse m)) [0] = (Ok (r, n), cs)
    /\ 0 < n
    /\ (forall i, i < n -> exists out pg', page_render c gt gm pg sym i = (Ok out, pg'))
    /\ (forall i, n <= i -> exists e, fst (page_render c gt gm pg sym i) = Err e).
Proof.
  intros H1 H2 H3 H4 H5 H6 H7 H8 H9 H10 H11 H12 H13 H14 H15 H16 H17 H18 H19 H20 H21 H22 H23 H24 H25 H26 H27 H28.
  destruct (page_render_exact c gt gm pg sym z0 m k v src a b s pg3 H1 H2 H3 H4 H5 H6 H7 H8 H9 H10 H11 H12 H13 H14
              H15 H16 H17 H18 H19 H20 H21 H22 H23 H24 H25 H26 H27 H28)
    as [n [r [cs [pages [xa [xb [lines [Hj [_ [Hlp [Hn [_ [_ [Hok Herr]]]]]]]]]]]]]].
  exists n, r, cs. split; [exact Hj|]. split; [exact Hn|]. split; [|exact Herr].
  intros i Hi. destruct (nth_error pages (N.to_nat i)) as [p|] eqn:En.
  - destruct (Hok _ _ En) as [pg' Hp]. rewrite N2Nat.id in Hp. eexists. exists pg'. exact Hp.
  - apply nth_error_None in En. unfold len in Hlp. revert En Hlp Hi. clia.
Qed.

(* ---- the menu as sink (MSINK) ------------------------------------------------------------------ *)
Lemma menu_loop_ok_rest tf sep items : forall acc r rest, menu_loop tf sep items acc = (Ok r, rest) -> rest = [].
Proof.
  induction items as [|[sel t] items IH]; intros acc r rest H.
  - cbn in H. inversion H. reflexivity.
  - cbn [menu_loop] in H. destruct (tf t); try (inversion H; fail). eapply IH. exact H.
Qed.

Lemma menu_render_st_dispose gm m idx txt m' :
  menu_render_st gm m idx = (Ok txt, m') -> m_keep m = false -> m_items m' = [].
Proof.
  unfold menu_render_st. destruct (menu_apply_page m idx) as [m1|e|p] eqn:Ea; try discriminate.
  destruct (menu_apply_page_static m idx m1 Ea) as [_ [_ [Hk _]]].
  destruct (menu_loop (if m_has_rs m1 then gm else fun t => Ok t) (m_sep m1) (m_items m1) []) as [[r|e|p] rest] eqn:El;
    try discriminate.
  intros H Hkeep. inversion H; subst. cbn [set_items m_items]. rewrite Hk, Hkeep.
  eapply menu_loop_ok_rest. exact El.
Qed.

Definition no_sink (c : cache) (vals : alist) : Prop :=
  forall k', In k' (map fst vals) -> exists sz, cache_reserved c k' = Ok sz /\ sz <> 0.

Lemma split_loop_nosink c vals : forall acc sink svs,
  no_sink c vals -> page_split_loop c vals acc sink svs = Ok (acc ++ vals, sink, svs).
Proof.
  induction vals as [|[k0 v0] vals IH]; intros acc sink svs H.
  - cbn. rewrite app_nil_r. reflexivity.
  - cbn [page_split_loop]. destruct (H k0 (or_introl eq_refl)) as [sz [Hr Hsz]]. rewrite Hr.
    destruct (sz =? 0) eqn:E; [apply N.eqb_eq in E; contradiction|].
    rewrite IH by (intros k' Hin; apply H; right; exact Hin). rewrite <- app_assoc. reflexivity.
Qed.

Lemma page_split_nosink c vals : no_sink c vals -> page_split c vals = Ok (vals, [], []).
Proof. intros H. unfold page_split. rewrite split_loop_nosink by exact H. reflexivity. Qed.

Lemma In_aset_keys {V} x k (v : V) l : In x (map fst (aset k v l)) -> x = k \/ In x (map fst l).
Proof.
  induction l as [|[k' v'] l IH]; cbn [aset map fst].
  - intros [H|[]]. left. symmetry. exact H.
  - destruct (bytes_eqb k k') eqn:E; cbn [map fst].
    + apply bytes_eqb_eq in E. subst k'. intros [H|H]; [left; symmetry; exact H|right; right; exact H].
    + intros [H|H]; [right; left; exact H|]. destruct (IH H) as [H1|H1]; [left; exact H1|right; right; exact H1].
Qed.

Lemma NoDup_aset {V} k (v : V) l : NoDup (map fst l) -> NoDup (map fst (aset k v l)).
Proof.
  induction l as [|[k' v'] l IH]; intros H; cbn [aset map fst].
  - constructor; [intros []|constructor].
  - cbn [map fst] in H. inversion H as [|? ? Hnin Hnd]; subst.
    destruct (bytes_eqb k k') eqn:E; cbn [map fst].
    + apply bytes_eqb_eq in E. subst k'. constructor; assumption.
    + constructor; [|apply IH; exact Hnd]. intros Hin. destruct (In_aset_keys _ _ _ _ Hin) as [->|H1].
      * rewrite bytes_eqb_refl in E. discriminate.
      * contradiction.
Qed.

Lemma prepare_msink c gt gm pg sym idx z0 m s0 m2 s pg3 z3 R m3 ms r n cs :
  p_sizer pg = Some z0 -> p_menu pg = Some m -> m_sink m = true ->
  page_split c (p_map pg) = Ok (p_map pg, [], []) ->
  menu_render_st gm (menu_with_pages (menu_with_dispose m)) 0 = (Ok s0, m2) ->
  page_render_inner gt gm
    (page_set_sizer
       (page_set_map
          (page_set_sizer (page_set_extra (page_set_menu pg (Some m2)) menu_sink_extra)
             (Some (sizer_set_sink z0 menu_sink_key)))
          (aset menu_sink_key [] (p_map pg)))
       (Some (sizer_add_cursor (sizer_set_sink z0 menu_sink_key) 0)))
    sym (aset menu_sink_key [] (p_map pg)) 0 = (Ok s, pg3) ->
  p_sizer pg3 = Some z3 -> sizer_check z3 s = (R, true) ->
  p_menu pg3 = Some m3 -> menu_sizes m3 = Ok ms ->
  join_sink (split_on nl s0) R ms (z_crsrs z3) = (Ok (r, n), cs) ->
  exists pg6,
    page_prepare c gt gm pg sym idx = (Ok (aset menu_sink_key r (aset menu_sink_key [] (p_map pg))), pg6)
    /\ p_sizer pg6 = Some (sizer_set_crsrs z3 cs)
    /\ p_menu pg6 = Some (menu_with_page_count m3 n)
    /\ p_err pg6 = p_err pg3 /\ p_extra pg6 = p_extra pg3.
Proof.
  intros Hz0 Hm Hsink Hsplit Hr0 Hpre Hz3 Hchk Hm3 Hms Hj.
  unfold page_prepare. rewrite Hz0, Hsplit. cbv zeta. rewrite Hm, Hsink. cbn [negb].
  rewrite Hr0. unfold prep_write.
  cbn [p_sizer page_set_extra page_set_menu page_set_sizer page_set_map option_map]. rewrite Hz0. cbn [option_map].
  rewrite Hpre, Hz3, Hchk. cbn [negb]. rewrite Hm3, Hms, Hj.
  cbn [p_menu page_set_sizer page_set_map]. rewrite Hm3. cbn [option_map].
  eexists. split; [reflexivity|]. repeat split.
Qed.

Lemma page_offered_renders_msink c gt gm pg sym z0 m src a b xa xb lines :
  (* the page as the VM builds it after MSINK: fresh cursors, the menu is the sink *)
  p_sizer pg = Some z0 -> z_crsrs z0 = [] -> 0 < z_out z0 -> z_out z0 < 4294967296 ->
  p_menu pg = Some m -> m_sink m = true -> m_page_count m <= 1 ->
  b_next_avail (m_browse m) = true -> b_prev_avail (m_browse m) = true ->
  (* guard excluding K-C02-labelsize *)
  m_sep m = default_sep ->
  title_for gm m (b_next_title (m_browse m)) = Ok (b_next_title (m_browse m)) ->
  title_for gm m (b_prev_title (m_browse m)) = Ok (b_prev_title (m_browse m)) ->
  (* no symbol sink; the menu items resolve to `lines`, which are the sink rows *)
  NoDup (map fst (p_map pg)) -> no_sink c (p_map pg) ->
  menu_lines (title_for gm m) (m_sep m) (m_items m) = Some lines -> lines <> [] ->
  (* the template (extra "\n{{._menu}}" appended by prepare) mentions _menu exactly once and the
     text around it instantiates to xa / xb with the page's mapped values *)
  (forall x, is_panic (gt x) = false) ->
  gt sym = Ok src ->
  tpl_parse (tpl_source (p_err pg) menu_sink_extra src) = Some (a ++ TVar menu_sink_key :: b) ->
  (forall w, (forall nm, nm <> menu_sink_key -> alookup nm w = alookup nm (p_map pg)) ->
     tpl_exec a w = Ok xa /\ tpl_exec b w = Ok xb) ->
  len xa + len xb <= z_out z0 ->
  rows_ok lines = true -> rows_size lines < 4294967296 -> len lines < 65536 ->
  budget_ok lines (z_out z0 - (len xa + len xb)) (browse_sizes (m_browse m)) = true ->
  exists n r cs (pages : list (list bytes)),
    join_sink lines (z_out z0 - (len xa + len xb)) (browse_sizes (m_browse m)) [0] = (Ok (r, n), cs)
    /\ List.concat pages = lines /\ len pages = n /\ 0 < n
    (* page i: the template text, the WHOLE menu lines of block i, and only the browse lines as menu *)
    /\ (forall i p, nth_error pages i = Some p ->
          exists pg', page_render c gt gm pg sym (N.of_nat i)
            = (Ok ((xa ++ join_with [nl] p ++ xb)
                   ++ opt_menu (join_with [nl] (browse_lines (m_browse m) default_sep
                                                  (N.of_nat i + 1 <? n) (0 <? N.of_nat i)))), pg'))
    /\ (forall i, i < n -> exists out pg', page_render c gt gm pg sym i = (Ok out, pg'))
    /\ (forall i, n <= i -> exists e, fst (page_render c gt gm pg sym i) = Err e).
Proof.
  intros Hz0 Hcrs Hout Hout32 Hm Hsink Hpc Hna Hpa Hsep Hnt Hpt Hnd Hnos Hlines Hlne Hgtp Hgt Hparse Hexab Hpref
         Hrok Hrsz Hrlen Hbud.
  assert (Hsepne : m_sep m <> []) by (rewrite Hsep; discriminate).
  assert (Hmk : menu_sink_key <> []) by discriminate.
  (* the menu consumed as sink *)
  set (m1 := menu_with_pages (menu_with_dispose m)).
  assert (Hm1 : m_page_count m1 = 1 /\ m_browse m1 = m_browse m /\ m_sep m1 = m_sep m /\ m_items m1 = m_items m
                /\ m_has_rs m1 = m_has_rs m /\ m_keep m1 = false).
  { unfold m1, menu_with_pages. cbn [m_page_count menu_with_dispose].
    destruct (m_page_count m =? 0) eqn:E; cbn; repeat split; revert E Hpc; clia. }
  destruct Hm1 as [Hpc1 [Hb1 [Hs1 [Hi1 [Hrs1 Hk1]]]]].
  assert (Htf1 : title_for gm m1 = title_for gm m) by (unfold title_for; rewrite Hrs1; reflexivity).
  destruct (menu_render_paged_ok gm m1 0 lines) as [m2 Hr0];
    rewrite ?Hb1, ?Hs1, ?Hi1, ?Htf1, ?Hpc1; try assumption; try reflexivity.
  rewrite Hb1, Hs1, Hpc1 in Hr0. change (0 + 1 <? 1) with false in Hr0. change (0 <? 0) with false in Hr0.
  unfold browse_lines in Hr0. cbn [app] in Hr0. rewrite app_nil_r in Hr0.
  set (s0 := join_with [nl] lines) in *.
  assert (Hsvs : split_on nl s0 = lines) by (apply split_on_join; assumption).
  destruct (menu_render_st_static gm m1 0 s0 m2 Hr0) as [[Hb2 [Hs2 [Hk2 [Hrs2 [Hsk2 Hpc2]]]]] _].
  pose proof (menu_render_st_dispose gm m1 0 s0 m2 Hr0 Hk1) as Hi2.
  rewrite Hb1 in Hb2. rewrite Hs1 in Hs2. rewrite Hk1 in Hk2. rewrite Hrs1 in Hrs2. rewrite Hpc1 in Hpc2.
  assert (Htf2 : title_for gm m2 = title_for gm m) by (unfold title_for; rewrite Hrs2; reflexivity).
  (* the pre-render *)
  set (nsv := aset menu_sink_key [] (p_map pg)).
  set (z2 := sizer_add_cursor (sizer_set_sink z0 menu_sink_key) 0).
  set (pg2 := page_set_sizer
       (page_set_map
          (page_set_sizer (page_set_extra (page_set_menu pg (Some m2)) menu_sink_extra)
             (Some (sizer_set_sink z0 menu_sink_key))) nsv) (Some z2)).
  assert (Hndn : NoDup (map fst nsv)) by (apply NoDup_aset; exact Hnd).
  assert (Hoff : forall vals', (forall nm, nm <> menu_sink_key -> alookup nm vals' = alookup nm nsv) ->
                  tpl_exec a vals' = Ok xa /\ tpl_exec b vals' = Ok xb).
  { intros w Hw. apply Hexab. intros nm Hne. rewrite (Hw nm Hne). unfold nsv. apply alookup_aset_other. exact Hne. }
  assert (Hcrs2 : z_crsrs z2 = [0]) by (unfold z2; cbn [z_crsrs sizer_add_cursor sizer_set_sink]; rewrite Hcrs; reflexivity).
  destruct (final_render_ok gt gm pg2 sym nsv 0 z2 m2 menu_sink_key [] [] src a b xa xb [])
    as [m3 [Hr3 Hpre]];
    try reflexivity; try assumption;
    rewrite ?Hb2, ?Hs2, ?Hi2, ?Htf2, ?Hpc2, ?Hcrs2; try assumption; try reflexivity.
  { apply alookup_aset_same. }
  { change (0 + 1 <? 1) with false. change (0 <? 0) with false. cbn. change (z_out z2) with (z_out z0).
    revert Hpref. clia. }
  rewrite Hb2, Hpc2 in Hr3, Hpre. change (0 + 1 <? 1) with false in Hr3, Hpre. change (0 <? 0) with false in Hr3, Hpre.
  unfold browse_lines in Hr3, Hpre. cbn [app join_with] in Hr3, Hpre.
  change (opt_menu []) with (@nil N) in Hpre. rewrite app_nil_r in Hpre.
  set (s := xa ++ xb) in *.
  set (pg3 := page_set_menu pg2 (Some m3)) in *.
  destruct (menu_render_st_static gm m2 0 [] m3 Hr3) as [[Hb3 [Hs3 [Hk3 [Hrs3 [Hsk3 Hpc3]]]]] _].
  pose proof (menu_render_st_dispose gm m2 0 [] m3 Hr3 Hk2) as Hi3.
  rewrite Hb2 in Hb3. rewrite Hs2 in Hs3. rewrite Hrs2 in Hrs3.
  assert (Hslen : len s = len xa + len xb) by (unfold s; apply len_app).
  assert (Hchk : sizer_check z2 s = (z_out z0 - len s, true)).
  { unfold sizer_check. rewrite w32_small by (revert Hslen Hpref Hout32; clia). change (z_out z2) with (z_out z0).
    destruct (0 <? z_out z0) eqn:E1; [|revert E1; generalize Hout; clia].
    destruct (z_out z0 <? len s) eqn:E2; [revert E2; generalize Hslen Hpref; clia|reflexivity]. }
  rewrite Hslen in Hchk.
  set (R := z_out z0 - (len xa + len xb)) in *.
  set (ms := browse_sizes (m_browse m)) in *.
  pose proof Hbud as Hbud'. unfold budget_ok in Hbud'. apply andb_true_iff in Hbud' as [Hbd1 Hbd2].
  assert (Hms : menu_sizes m3 = Ok ms).
  { rewrite (menu_sizes_browse m3 m Hb3). apply menu_sizes_closed; try assumption;
      unfold ms, browse_sizes, ms_next, ms_prev in Hbd1; revert Hbd1 Hbd2; clia. }
  destruct (join_sink_budget lines R ms Hlne Hrok Hrsz Hrlen Hbud)
    as [r [n [cs [pages [Hj [Hcat [Hlp Hpages]]]]]]].
  assert (Hnpos : 0 < n).
  { destruct pages as [|p0 pages]; [cbn in Hcat; congruence|]. rewrite <- Hlp, len_cons. clia. }
  pose proof Hj as Hj0. rewrite <- Hcrs2, <- Hsvs in Hj.
  destruct (prepare_msink c gt gm pg sym 0 z0 m s0 m2 s pg3 z2 R m3 ms r n cs
              Hz0 Hm Hsink (page_split_nosink c _ Hnos) Hr0 Hpre eq_refl Hchk eq_refl Hms Hj)
    as [pg6 [Hprep [Hsz6 [Hmn6 [Herr6 Hex6]]]]].
  assert (Hprep' : forall idx, page_prepare c gt gm pg sym idx = (Ok (aset menu_sink_key r nsv), pg6)) by (intros idx; exact Hprep).
  assert (Hexact : forall i0 p, nth_error pages i0 = Some p ->
            exists pg', page_render c gt gm pg sym (N.of_nat i0)
              = (Ok ((xa ++ join_with [nl] p ++ xb)
                     ++ opt_menu (join_with [nl] (browse_lines (m_browse m) default_sep
                                                    (N.of_nat i0 + 1 <? n) (0 <? N.of_nat i0)))), pg')).
  { intros i0 p Enth. set (i := N.of_nat i0). unfold page_render. rewrite Hprep'.
    destruct (Hpages _ _ Enth) as [Hsp Hfits]. fold i in Hsp, Hfits.
    assert (Hi : i < n).
    { assert (Hsome : nth_error pages i0 <> None) by congruence. apply nth_error_Some in Hsome.
      unfold len in Hlp. unfold i. revert Hsome Hlp. clia. }
    set (X := join_with [nl] p) in *.
    set (vals := aset menu_sink_key r nsv).
    assert (Hndv : NoDup (map fst vals)) by (apply NoDup_aset; exact Hndn).
    set (m6 := menu_with_page_count m3 n).
    assert (Htf6 : title_for gm m6 = title_for gm m) by (unfold title_for, m6; cbn [m_has_rs menu_with_page_count]; rewrite Hrs3; reflexivity).
    destruct (final_render_ok gt gm pg6 sym vals i (sizer_set_crsrs z2 cs) m6 menu_sink_key r X src a b xa xb [])
      as [m7 [_ Hfin]];
      [..|rewrite Hfin; unfold m6; cbn [m_browse m_page_count menu_with_page_count app]; rewrite Hb3; eexists; reflexivity];
      try reflexivity; try assumption;
      unfold m6; cbn [m_browse m_page_count m_sep m_items menu_with_page_count z_out z_sink z_crsrs sizer_set_crsrs]; fold m6;
      rewrite ?Hb3, ?Hs3, ?Hi3, ?Htf6; try assumption; try reflexivity.
    + apply alookup_aset_same.
    + rewrite Herr6, Hex6. exact Hparse.
    + intros w Hw. apply Hoff. intros nm Hne. rewrite (Hw nm Hne). unfold vals. apply alookup_aset_other. exact Hne.
    + rewrite rows_size_browse_lines. unfold R in Hfits. unfold nav, ms, browse_sizes, ms_next, ms_prev in Hfits.
      change (z_out z2) with (z_out z0). change (rows_size []) with 0.
      revert Hfits Hpref. destruct (i + 1 <? n), (0 <? i); clia. }
  exists n, r, cs, pages. split; [exact Hj0|]. split; [exact Hcat|]. split; [exact Hlp|]. split; [exact Hnpos|].
  split; [exact Hexact|]. split.
  - intros i Hi. destruct (nth_error pages (N.to_nat i)) as [p|] eqn:En.
    + destruct (Hexact _ _ En) as [pg' Hp]. rewrite N2Nat.id in Hp. eexists. exists pg'. exact Hp.
    + apply nth_error_None in En. unfold len in Hlp. revert En Hlp Hi. clia.
  - intros i Hi. apply (page_render_past_end c gt gm pg sym i (aset menu_sink_key r nsv) pg6 (menu_with_page_count m3 n));
      [exact Hgtp|apply Hprep'|exact Hmn6|cbn [m_page_count menu_with_page_count]; exact Hi|revert Hi; generalize Hnpos; clia].
Qed.

(* ---- a four-page witness for the non-vacuity examples ---------------------------------------------- *)
Definition wit_rows6 : list bytes := map s2b ["aaaa"; "bbbb"; "cccc"; "dddd"; "eeee"; "ffff"]%string.
Definition wit_pages_cache : cache :=
  match cache_add (new_cache 0) (s2b "foo") (join_with [nl] wit_rows6) 0 with Ok c => c | _ => new_cache 0 end.
Definition wit_pages_page : page :=
  match page_map wit_pages_cache
          (page_with_sizer (page_with_menu (page_reset new_page)
             (menu_put (menu_with_browse (new_menu default_sep)
                (mkBrowse true (s2b "11") (s2b "next") true (s2b "22") (s2b "back"))) (s2b "1") (s2b "one")))
             (new_sizer 32))
          (s2b "foo") with
  | Ok p => p | _ => new_page end.
