(* RenderProofs.v — lemmas about model/RenderModel.v (paginator, menu, page render). *)
From Coq Require Import Lia ZArith.
From Coq Require Import ZifyN ZifyNat ZifyBool.
From Vise Require Import Bytes Errors CacheModel RenderModel BytesProofs.
Local Open Scope N_scope.

(* ================================================================ generic lists ===== *)
Lemma join_with_cons2 sep (x y : bytes) l :
  join_with sep (x :: y :: l) = x ++ sep ++ join_with sep (y :: l).
Proof. reflexivity. Qed.

Lemma join_with_snoc sep (l : list bytes) v :
  l <> [] -> join_with sep (l ++ [v]) = join_with sep l ++ sep ++ v.
Proof.
  induction l as [|x l IH]; intros Hne; [congruence|].
  destruct l as [|y l].
  - reflexivity.
  - change ((x :: y :: l) ++ [v]) with (x :: y :: (l ++ [v])).
    rewrite join_with_cons2. change (y :: l ++ [v]) with ((y :: l) ++ [v]).
    rewrite IH by discriminate. rewrite join_with_cons2. rewrite <- !app_assoc. reflexivity.
Qed.

Lemma index_of_notin b (a : bytes) : ~ In b a -> index_of b a = None.
Proof.
  induction a as [|x a IH]; intros Hn; cbn [index_of]; [reflexivity|].
  destruct (x =? b) eqn:E.
  - apply N.eqb_eq in E. subst. exfalso. apply Hn. left. reflexivity.
  - rewrite IH; [reflexivity|]. intros H. apply Hn. right. exact H.
Qed.

Lemma index_of_app b (a rest : bytes) : ~ In b a -> index_of b (a ++ b :: rest) = Some (len a).
Proof.
  induction a as [|x a IH]; intros Hn.
  - cbn [app index_of]. rewrite N.eqb_refl. reflexivity.
  - cbn [app index_of]. destruct (x =? b) eqn:E.
    + apply N.eqb_eq in E. subst. exfalso. apply Hn. left. reflexivity.
    + rewrite IH by (intros H; apply Hn; right; exact H). rewrite len_cons. f_equal. lia.
Qed.

Lemma In_join_with x sep (l : list bytes) :
  In x (join_with sep l) -> In x sep \/ exists v, In v l /\ In x v.
Proof.
  induction l as [|a l IH]; [intros []|].
  destruct l as [|b l].
  - cbn [join_with]. intros H. right. exists a. split; [left; reflexivity|exact H].
  - rewrite join_with_cons2. intros H. apply in_app_or in H as [H|H].
    + right. exists a. split; [left; reflexivity|exact H].
    + apply in_app_or in H as [H|H]; [left; exact H|].
      destruct (IH H) as [H1|[v [Hv Hx]]]; [left; exact H1|].
      right. exists v. split; [right; exact Hv|exact Hx].
Qed.

(* ===================================================================== rows ===== *)
(* a row as the C02 partition theorem needs it: not empty (finding K-C02-emptyrow), no NUL
   byte (the in-page separator; finding K-C02-nul) and no LF (the page separator; rows that
   come from strings.Split(v, "\n") never contain one) *)
Definition row_ok (v : bytes) : bool :=
  (0 <? len v) && negb (existsb (fun x => x =? 0) v) && negb (existsb (fun x => x =? nl) v).
Definition rows_ok (vs : list bytes) : bool := forallb row_ok vs.

Lemma existsb_eqb_In b (v : bytes) : existsb (fun x => x =? b) v = false -> ~ In b v.
Proof.
  intros H Hin. assert (existsb (fun x => x =? b) v = true); [|congruence].
  apply existsb_exists. exists b. split; [exact Hin|apply N.eqb_refl].
Qed.

Lemma row_ok_spec v : row_ok v = true -> v <> [] /\ ~ In 0 v /\ ~ In nl v.
Proof.
  unfold row_ok. intros H. apply andb_true_iff in H as [H H3]. apply andb_true_iff in H as [H1 H2].
  apply negb_true_iff in H2, H3. split; [|split].
  - intros ->. cbn in H1. discriminate.
  - apply existsb_eqb_In. exact H2.
  - apply existsb_eqb_In. exact H3.
Qed.

Lemma rows_ok_Forall vs : rows_ok vs = true -> Forall (fun v => row_ok v = true) vs.
Proof. unfold rows_ok. intros H. apply Forall_forall. apply forallb_forall. exact H. Qed.

Lemma rows_ok_app a b : rows_ok (a ++ b) = rows_ok a && rows_ok b.
Proof. unfold rows_ok. apply forallb_app. Qed.

Definition pjoin (p : list bytes) : bytes := join_with [0] p.

Lemma pjoin_nonempty p : p <> [] -> rows_ok p = true -> pjoin p <> [].
Proof.
  destruct p as [|x p]; [congruence|]. intros _ H. cbn [rows_ok forallb] in H.
  apply andb_true_iff in H as [Hx _]. apply row_ok_spec in Hx as [Hx _].
  unfold pjoin. destruct p as [|y p].
  - cbn. exact Hx.
  - rewrite join_with_cons2. destruct x; [congruence|discriminate].
Qed.

Lemma pjoin_no_lf p : rows_ok p = true -> ~ In nl (pjoin p).
Proof.
  intros H Hin. apply In_join_with in Hin as [Hin|[v [Hv Hx]]].
  - cbn in Hin. destruct Hin as [E|[]]. discriminate.
  - apply rows_ok_Forall in H. rewrite Forall_forall in H. apply H in Hv.
    apply row_ok_spec in Hv as [_ [_ Hn]]. contradiction.
Qed.

Lemma pjoin_last_not_lf p : p <> [] -> rows_ok p = true -> exists b x, pjoin p = b ++ [x] /\ x <> nl.
Proof.
  intros Hne Hok. destruct (exists_last (pjoin_nonempty p Hne Hok)) as [b [x E]].
  exists b, x. split; [exact E|]. intros ->.
  apply (pjoin_no_lf p Hok). rewrite E. apply in_or_app. right. left. reflexivity.
Qed.

Lemma nul_to_lf_app a b : nul_to_lf (a ++ b) = nul_to_lf a ++ nul_to_lf b.
Proof. unfold nul_to_lf. apply map_app. Qed.

Lemma nul_to_lf_id v : ~ In 0 v -> nul_to_lf v = v.
Proof.
  induction v as [|x v IH]; intros H; [reflexivity|].
  unfold nul_to_lf in *. cbn [map]. destruct (x =? 0) eqn:E.
  - apply N.eqb_eq in E. subst. exfalso. apply H. left. reflexivity.
  - f_equal. apply IH. intros Hin. apply H. right. exact Hin.
Qed.

Lemma nul_to_lf_pjoin p : rows_ok p = true -> nul_to_lf (pjoin p) = join_with [nl] p.
Proof.
  induction p as [|x p IH]; intros H; [reflexivity|].
  cbn [rows_ok forallb] in H. apply andb_true_iff in H as [Hx Hp].
  apply row_ok_spec in Hx as [_ [Hx0 _]].
  unfold pjoin in *. destruct p as [|y p].
  - cbn [join_with]. apply nul_to_lf_id. exact Hx0.
  - rewrite !join_with_cons2, !nul_to_lf_app. rewrite (nul_to_lf_id x Hx0).
    rewrite IH by exact Hp. reflexivity.
Qed.

Lemma split_on_app_sep sep (a rest : bytes) :
  ~ In sep a -> split_on sep (a ++ sep :: rest) = a :: split_on sep rest.
Proof.
  induction a as [|x a IH]; intros H.
  - cbn [app split_on]. rewrite N.eqb_refl. reflexivity.
  - cbn [app split_on]. destruct (x =? sep) eqn:E.
    + apply N.eqb_eq in E. subst. exfalso. apply H. left. reflexivity.
    + rewrite IH by (intros Hin; apply H; right; exact Hin). reflexivity.
Qed.

Lemma split_on_no_sep sep (a : bytes) : ~ In sep a -> split_on sep a = [a].
Proof.
  induction a as [|x a IH]; intros H; [reflexivity|].
  cbn [split_on]. destruct (x =? sep) eqn:E.
  - apply N.eqb_eq in E. subst. exfalso. apply H. left. reflexivity.
  - rewrite IH by (intros Hin; apply H; right; exact Hin). reflexivity.
Qed.

(* what a page displays, split back into rows, is the page's rows *)
Lemma split_on_join p : p <> [] -> rows_ok p = true -> split_on nl (join_with [nl] p) = p.
Proof.
  induction p as [|x p IH]; intros Hne H; [congruence|].
  cbn [rows_ok forallb] in H. apply andb_true_iff in H as [Hx Hp].
  apply row_ok_spec in Hx as [_ [_ Hxn]].
  destruct p as [|y p].
  - cbn [join_with]. apply split_on_no_sep. exact Hxn.
  - rewrite join_with_cons2. cbn [app]. rewrite split_on_app_sep by exact Hxn.
    rewrite IH by (try discriminate; exact Hp). reflexivity.
Qed.

(* ============================================================= TrimRight ===== *)
Lemma trim_right_lf_id b x : x <> nl -> trim_right_lf (b ++ [x]) = b ++ [x].
Proof.
  intros Hx. unfold trim_right_lf. rewrite rev_app_distr. cbn [rev app trim_lf_rev].
  destruct (x =? nl) eqn:E; [apply N.eqb_eq in E; contradiction|].
  change (x :: rev b) with ([x] ++ rev b). rewrite rev_app_distr, rev_involutive. reflexivity.
Qed.

(* ============================================================ the paginator ===== *)
(* closed pages, flattened as joinSink writes them *)
Definition flat (closed : list (list bytes)) : bytes :=
  List.concat (map (fun p => pjoin p ++ [nl]) closed).

Lemma flat_app a b : flat (a ++ b) = flat a ++ flat b.
Proof. unfold flat. rewrite map_app, concat_app. reflexivity. Qed.

Lemma flat_snoc a p : flat (a ++ [p]) = flat a ++ pjoin p ++ [nl].
Proof. rewrite flat_app. unfold flat at 2. cbn [map List.concat]. rewrite app_nil_r. reflexivity. Qed.

(* cursor k = (uint32 of the) length of the first k flattened pages *)
Definition cursor_at (closed : list (list bytes)) (k : nat) : N := w32 (len (flat (firstn k closed))).

Record JInv (crs0 : list N) (closed : list (list bytes)) (cur : list bytes) (s : jstate) : Prop := {
  ji_rb : j_rb s = flat closed;
  ji_tb : j_tb s = pjoin cur;
  ji_crs : j_crs s = crs0 ++ map (cursor_at closed) (seq 1 (List.length closed));
  ji_count : j_count s = w16 (N.of_nat (List.length closed));
  ji_cur : closed <> [] -> cur <> [];
  ji_pages : Forall (fun p => p <> []) closed
}.

Lemma firstn_snoc_le {A} (l : list A) x k : (k <= List.length l)%nat -> firstn k (l ++ [x]) = firstn k l.
Proof. intros H. rewrite firstn_app. replace (k - List.length l)%nat with 0%nat by lia. cbn. apply app_nil_r. Qed.

Lemma cursor_at_snoc closed p k : (k <= List.length closed)%nat -> cursor_at (closed ++ [p]) k = cursor_at closed k.
Proof. intros H. unfold cursor_at. rewrite firstn_snoc_le by exact H. reflexivity. Qed.

Lemma map_cursor_snoc closed p :
  map (cursor_at (closed ++ [p])) (seq 1 (List.length closed)) = map (cursor_at closed) (seq 1 (List.length closed)).
Proof.
  apply map_ext_in. intros k Hk. apply in_seq in Hk. apply cursor_at_snoc. lia.
Qed.

Lemma js_step_inv prevsz crs0 closed cur s v s' :
  JInv crs0 closed cur s -> rows_ok cur = true -> row_ok v = true ->
  js_step prevsz s v = Some s' ->
  ((sub32 (j_net s) 1 <? w32 (j_l s + len v)) = false /\ JInv crs0 closed (cur ++ [v]) s')
  \/ ((sub32 (j_net s) 1 <? w32 (j_l s + len v)) = true /\ cur <> [] /\ JInv crs0 (closed ++ [cur]) [v] s').
Proof.
  intros [Hrb Htb Hcrs Hcnt Hcur Hpg] Hokc Hokv. unfold js_step.
  destruct (sub32 (j_net s) 1 <? w32 (j_l s + len v)) eqn:Ebreak.
  - destruct (len (j_tb s) =? 0) eqn:Etb; [discriminate|].
    intros E. inversion E; subst s'; clear E. right. split; [reflexivity|].
    assert (Hne : cur <> []).
    { intros ->. rewrite Htb in Etb. cbn in Etb. discriminate. }
    split; [exact Hne|].
    constructor; cbn [j_rb j_tb j_crs j_count].
    + rewrite flat_snoc, Hrb, Htb. reflexivity.
    + reflexivity.
    + rewrite Hcrs, app_length. cbn [List.length]. rewrite Nat.add_1_r.
      rewrite seq_S, map_app, map_cursor_snoc. cbn [map]. rewrite <- app_assoc. f_equal. f_equal.
      unfold cursor_at. f_equal.
      replace (1 + List.length closed)%nat with (List.length (closed ++ [cur])) by (rewrite app_length; cbn; lia).
      rewrite firstn_all. rewrite flat_snoc, Hrb, Htb. reflexivity.
    + rewrite Hcnt, app_length. cbn [List.length]. unfold w16.
      rewrite Nat2N.inj_add. change (N.of_nat 1) with 1.
      rewrite N.add_mod_idemp_l by lia. reflexivity.
    + intros _. discriminate.
    + apply Forall_app. split; [exact Hpg|]. constructor; [exact Hne|constructor].
  - destruct (0 <? len (j_tb s)) eqn:Etb; intros E; inversion E; subst s'; clear E; left; (split; [reflexivity|]).
    + assert (Hne : cur <> []).
      { intros ->. rewrite Htb in Etb. cbn in Etb. discriminate. }
      constructor; cbn [j_rb j_tb j_crs j_count]; try assumption.
      * unfold pjoin. rewrite join_with_snoc by exact Hne. rewrite Htb. reflexivity.
      * intros _. destruct cur; discriminate.
    + assert (He : cur = []).
      { destruct cur as [|x cur]; [reflexivity|]. exfalso.
        assert (Hn : pjoin (x :: cur) <> []) by (apply pjoin_nonempty; [discriminate|exact Hokc]).
        rewrite Htb in Etb. destruct (pjoin (x :: cur)); [congruence|]. rewrite len_cons in Etb. lia. }
      subst cur. constructor; cbn [j_rb j_tb j_crs j_count]; try assumption.
      * rewrite Htb. reflexivity.
      * intros _. discriminate.
Qed.

(* the loop keeps the invariant and consumes the rows in order *)
Lemma js_loop_inv prevsz crs0 vs : forall closed cur s s',
  JInv crs0 closed cur s -> rows_ok cur = true -> rows_ok vs = true ->
  js_loop prevsz s vs = (true, s') ->
  exists closed' cur', JInv crs0 closed' cur' s' /\ rows_ok cur' = true
    /\ List.concat closed' ++ cur' = List.concat closed ++ cur ++ vs
    /\ (Forall (fun p => rows_ok p = true) closed -> Forall (fun p => rows_ok p = true) closed').
Proof.
  induction vs as [|v vs IH]; intros closed cur s s' HJ Hokc Hokvs Hloop.
  - cbn [js_loop] in Hloop. inversion Hloop; subst s'. exists closed, cur.
    rewrite app_nil_r. split; [exact HJ|]. split; [exact Hokc|]. split; [reflexivity|]. auto.
  - cbn [js_loop] in Hloop. cbn [rows_ok forallb] in Hokvs. apply andb_true_iff in Hokvs as [Hokv Hokvs].
    destruct (js_step prevsz s v) as [s1|] eqn:Estep; [|discriminate].
    destruct (js_step_inv prevsz crs0 closed cur s v s1 HJ Hokc Hokv Estep) as [[_ HJ1]|[_ [Hne HJ1]]].
    + assert (Hok1 : rows_ok (cur ++ [v]) = true).
      { rewrite rows_ok_app, Hokc. cbn [rows_ok forallb]. rewrite Hokv. reflexivity. }
      destruct (IH closed (cur ++ [v]) s1 s' HJ1 Hok1 Hokvs Hloop) as [c' [u' [H1 [H2 [H3 H5]]]]].
      exists c', u'. split; [exact H1|]. split; [exact H2|]. split; [|exact H5].
      rewrite H3, <- app_assoc. reflexivity.
    + assert (Hok1 : rows_ok [v] = true) by (cbn [rows_ok forallb]; rewrite Hokv; reflexivity).
      destruct (IH (closed ++ [cur]) [v] s1 s' HJ1 Hok1 Hokvs Hloop) as [c' [u' [H1 [H2 [H3 H5]]]]].
      exists c', u'. split; [exact H1|]. split; [exact H2|]. split.
      * rewrite H3, concat_app. cbn [List.concat]. rewrite app_nil_r, <- !app_assoc. reflexivity.
      * intros Hc. apply H5. apply Forall_app. split; [exact Hc|]. constructor; [exact Hokc|constructor].
Qed.

(* ---- reading the pages back with GetAt ------------------------------------------- *)
Lemma nth_error_split {A} (l : list A) i p :
  nth_error l i = Some p -> l = firstn i l ++ p :: skipn (S i) l.
Proof.
  revert i. induction l as [|x l IH]; intros [|i] H; cbn in H; try discriminate.
  - inversion H. reflexivity.
  - cbn [firstn skipn app]. f_equal. apply IH. exact H.
Qed.

Lemma nth_error_snoc_cases {A} (l : list A) x i p :
  nth_error (l ++ [x]) i = Some p ->
  ((i < List.length l)%nat /\ nth_error l i = Some p) \/ (i = List.length l /\ p = x).
Proof.
  intros H. destruct (Nat.lt_ge_cases i (List.length l)) as [Hlt|Hge].
  - left. split; [exact Hlt|]. rewrite nth_error_app1 in H by exact Hlt. exact H.
  - right. rewrite nth_error_app2 in H by exact Hge.
    destruct (i - List.length l)%nat as [|k] eqn:E.
    + cbn in H. inversion H. split; [lia|reflexivity].
    + cbn in H. destruct k; discriminate.
Qed.

Lemma nth_error_map_seq {B} (f : nat -> B) k n i : (i < n)%nat -> nth_error (map f (seq k n)) i = Some (f (k + i)%nat).
Proof.
  intros H. rewrite nth_error_map. rewrite nth_error_nth' with (d := 0%nat) by (rewrite seq_length; exact H).
  rewrite seq_nth by exact H. reflexivity.
Qed.

Lemma len_flat_firstn_le closed k : len (flat (firstn k closed)) <= len (flat closed).
Proof.
  rewrite <- (firstn_skipn k closed) at 2. rewrite flat_app, len_app. lia.
Qed.

Lemma w32_small x : x < 4294967296 -> w32 x = x.
Proof. intros H. unfold w32. apply N.mod_small. exact H. Qed.
Lemma w16_small x : x < 65536 -> w16 x = x.
Proof. intros H. unfold w16. apply N.mod_small. exact H. Qed.

Lemma sink_page_of_pages closed cur i p :
  let pages := closed ++ [cur] in
  let r := flat closed ++ pjoin cur in
  let cs := map (cursor_at closed) (seq 0 (S (List.length closed))) in
  Forall (fun q => rows_ok q = true) pages -> Forall (fun q => q <> []) pages ->
  len r < 4294967296 -> N.of_nat (S (List.length closed)) < 65536 ->
  nth_error pages i = Some p ->
  sink_page r cs (N.of_nat i) = Ok (join_with [nl] p).
Proof.
  intros pages r cs Hok Hne Hr Hn Hnth.
  assert (Hi : (i < S (List.length closed))%nat).
  { assert (H : nth_error pages i <> None) by congruence. apply nth_error_Some in H.
    unfold pages in H. rewrite app_length in H. cbn in H. lia. }
  assert (Hlen : len cs = N.of_nat (S (List.length closed))).
  { unfold cs, len. rewrite map_length, seq_length. reflexivity. }
  unfold sink_page. rewrite Hlen, (w16_small _ Hn).
  destruct (N.of_nat (S (List.length closed)) <=? N.of_nat i) eqn:E; [lia|]. clear E.
  rewrite Nat2N.id. unfold cs. rewrite nth_error_map_seq by exact Hi. cbn [Nat.add].
  assert (Hpok : rows_ok p = true).
  { rewrite Forall_forall in Hok. apply Hok. eapply nth_error_In. exact Hnth. }
  assert (Hpne : p <> []).
  { rewrite Forall_forall in Hne. apply Hne. eapply nth_error_In. exact Hnth. }
  assert (Hcle : len (flat (firstn i closed)) <= len r).
  { unfold r. rewrite len_app. pose proof (len_flat_firstn_le closed i). lia. }
  rewrite (w32_small (len r)) by exact Hr. unfold cursor_at.
  rewrite (w32_small (len (flat (firstn i closed)))) by lia.
  destruct (len r <? len (flat (firstn i closed))) eqn:E; [lia|]. clear E.
  destruct (nth_error_snoc_cases closed cur i p Hnth) as [[Hlt Hnc]|[-> ->]].
  - pose proof (nth_error_split closed i p Hnc) as Hsplit.
    assert (Hr2 : r = flat (firstn i closed) ++ pjoin p ++ nl :: (flat (skipn (S i) closed) ++ pjoin cur)).
    { unfold r. rewrite Hsplit at 1. rewrite flat_app.
      change (p :: skipn (S i) closed) with ([p] ++ skipn (S i) closed). rewrite flat_app.
      unfold flat at 2. cbn [map List.concat]. rewrite app_nil_r. rewrite <- !app_assoc. reflexivity. }
    rewrite Hr2. rewrite drop_app_exact by reflexivity.
    rewrite index_of_app by (apply pjoin_no_lf; exact Hpok).
    assert (Hpl : 0 < len (pjoin p)).
    { pose proof (pjoin_nonempty p Hpne Hpok) as Hq. destruct (pjoin p); [congruence|]. rewrite len_cons. lia. }
    destruct (0 <? len (pjoin p)) eqn:E; [|lia]. clear E.
    rewrite take_app_exact by reflexivity. rewrite nul_to_lf_pjoin by exact Hpok. reflexivity.
  - rewrite firstn_all. unfold r. rewrite drop_app_exact by reflexivity.
    rewrite index_of_notin by (apply pjoin_no_lf; exact Hpok).
    rewrite nul_to_lf_pjoin by exact Hpok. reflexivity.
Qed.

(* total size of the rows with their separators: len (flattened sink) + 1 *)
Definition rows_size (vs : list bytes) : N := fold_right (fun v a => len v + 1 + a) 0 vs.

Lemma rows_size_cons x l : rows_size (x :: l) = len x + 1 + rows_size l.
Proof. reflexivity. Qed.

Lemma rows_size_app a b : rows_size (a ++ b) = rows_size a + rows_size b.
Proof.
  induction a as [|x a IH]; [reflexivity|].
  change ((x :: a) ++ b) with (x :: (a ++ b)). rewrite !rows_size_cons, IH. lia.
Qed.

Lemma len_pjoin p : p <> [] -> len (pjoin p) + 1 = rows_size p.
Proof.
  induction p as [|x p IH]; intros H; [congruence|]. unfold pjoin in *.
  destruct p as [|y p].
  - cbn [join_with]. rewrite rows_size_cons. change (rows_size []) with 0. lia.
  - rewrite join_with_cons2, !len_app. rewrite (rows_size_cons x).
    rewrite <- IH by discriminate. change (len [0]) with 1. lia.
Qed.

Lemma len_flat closed : Forall (fun q => q <> []) closed -> len (flat closed) = rows_size (List.concat closed).
Proof.
  induction closed as [|p closed IH]; intros H; [reflexivity|].
  inversion H as [|? ? Hp Hc]; subst.
  change (p :: closed) with ([p] ++ closed). rewrite flat_app. unfold flat at 1. cbn [map List.concat].
  rewrite app_nil_r, !len_app. cbn [app List.concat]. rewrite rows_size_app, <- IH by exact Hc.
  rewrite <- len_pjoin by exact Hp. change (len [nl]) with 1. lia.
Qed.

Lemma map_seq_nth {A} (f : nat -> A) (l : list A) k :
  (forall i p, nth_error l i = Some p -> f (k + i)%nat = p) -> map f (seq k (List.length l)) = l.
Proof.
  revert k. induction l as [|x l IH]; intros k H; [reflexivity|].
  cbn [List.length seq map]. f_equal.
  - specialize (H 0%nat x eq_refl). rewrite Nat.add_0_r in H. exact H.
  - apply IH. intros i p Hi. specialize (H (S i) p Hi). rewrite <- H. f_equal. lia.
Qed.

Definition pages_of (r : bytes) (cs : list N) (n : N) : list (res bytes) :=
  map (fun i => sink_page r cs (N.of_nat i)) (seq 0 (N.to_nat n)).

(* The partition theorem, in terms of an explicit list of pages. *)
Lemma join_sink_pages vs remaining ms r n cs :
  vs <> [] -> rows_ok vs = true -> rows_size vs < 4294967296 -> len vs < 65536 ->
  join_sink vs remaining ms [0] = (Ok (r, n), cs) ->
  exists pages : list (list bytes),
    List.concat pages = vs
    /\ Forall (fun q => q <> []) pages
    /\ len pages = n /\ len cs = n
    /\ (forall i p, nth_error pages i = Some p -> sink_page r cs (N.of_nat i) = Ok (join_with [nl] p))
    /\ (forall i, n <= i -> sink_page r cs i = Err EGen).
Proof.
  intros Hvs Hok Hsz Hlen. unfold join_sink.
  destruct (js_loop (ms_prev ms) (js_init vs remaining ms [0]) vs) as [[|] s] eqn:Eloop; [|discriminate].
  assert (HJ0 : JInv [0] [] [] (js_init vs remaining ms [0])).
  { constructor; cbn; try reflexivity; try congruence. constructor. }
  destruct (js_loop_inv _ [0] vs [] [] _ s HJ0 eq_refl Hok Eloop) as [closed [cur [HJ [Hokc [Hcat Hokcl]]]]].
  cbn [List.concat app] in Hcat. specialize (Hokcl (Forall_nil _)).
  destruct HJ as [Hrb Htb Hcrs Hcnt Hcur Hpg].
  assert (Hcne : cur <> []).
  { destruct closed as [|q closed]; [|apply Hcur; discriminate]. cbn in Hcat. congruence. }
  assert (Htbne : pjoin cur <> []) by (apply pjoin_nonempty; assumption).
  assert (Htl : 0 < len (j_tb s)).
  { rewrite Htb. destruct (pjoin cur); [congruence|]. rewrite len_cons. lia. }
  destruct (0 <? len (j_tb s)) eqn:E; [|lia]. clear E.
  intros Hres. injection Hres as Hr Hn Hcs.
  destruct (pjoin_last_not_lf cur Hcne Hokc) as [b [x [Eb Hx]]].
  assert (Hreq : r = flat closed ++ pjoin cur).
  { rewrite <- Hr, Hrb, Htb, Eb, app_assoc. rewrite trim_right_lf_id by exact Hx. reflexivity. }
  set (pages := closed ++ [cur]).
  assert (Hpne : Forall (fun q => q <> []) pages).
  { apply Forall_app. split; [exact Hpg|]. constructor; [exact Hcne|constructor]. }
  assert (Hpok : Forall (fun q => rows_ok q = true) pages).
  { apply Forall_app. split; [exact Hokcl|]. constructor; [exact Hokc|constructor]. }
  assert (Hcatp : List.concat pages = vs).
  { unfold pages. rewrite concat_app. cbn [List.concat]. rewrite app_nil_r. exact Hcat. }
  assert (Hnpages : (List.length pages <= List.length vs)%nat).
  { rewrite <- Hcatp. clear - Hpne. induction pages as [|q pages IH]; [cbn; lia|].
    inversion Hpne as [|? ? Hq Hr]; subst. cbn [List.concat List.length]. rewrite app_length.
    specialize (IH Hr). destruct q; [congruence|]. cbn [List.length]. lia. }
  assert (Hnlt : N.of_nat (S (List.length closed)) < 65536).
  { unfold pages in Hnpages. rewrite app_length in Hnpages. cbn [List.length] in Hnpages. unfold len in Hlen. lia. }
  assert (Hrlen : len r < 4294967296).
  { rewrite Hreq, len_app, len_flat by exact Hpg.
    pose proof (len_pjoin cur Hcne). rewrite <- Hcat, rows_size_app in Hsz. lia. }
  assert (Hcs2 : cs = map (cursor_at closed) (seq 0 (S (List.length closed)))).
  { rewrite <- Hcs, Hcrs. cbn [seq map app]. f_equal. }
  assert (Hn2 : n = N.of_nat (S (List.length closed))).
  { rewrite <- Hn, Hcnt. unfold w16. rewrite N.add_mod_idemp_l by lia.
    rewrite N.mod_small by lia. lia. }
  exists pages. split; [exact Hcatp|]. split; [exact Hpne|]. split; [|split; [|split]].
  - unfold pages, len. rewrite app_length. cbn [List.length]. lia.
  - rewrite Hcs2. unfold len. rewrite map_length, seq_length. lia.
  - intros i p Hnth. rewrite Hcs2. rewrite Hreq in Hrlen |- *.
    apply sink_page_of_pages; [exact Hpok|exact Hpne|exact Hrlen|exact Hnlt|exact Hnth].
  - intros i Hi. unfold sink_page.
    assert (Hl : len cs = n) by (rewrite Hcs2; unfold len; rewrite map_length, seq_length; lia).
    rewrite Hl, w16_small by lia. destruct (n <=? i) eqn:E; [reflexivity|lia].
Qed.

(* ---- budget: every page, with the browse entries it carries, fits `remaining` -------- *)
Lemma sub32_small a b : b <= a -> a < 4294967296 -> sub32 a b = a - b.
Proof.
  intros Hb Ha. unfold sub32. rewrite (N.mod_small b) by lia.
  replace (a + 4294967296 - b) with ((a - b) + 1 * 4294967296) by lia.
  rewrite N.mod_add by lia. apply N.mod_small. lia.
Qed.

Definition maxlen (vs : list bytes) : N := fold_right (fun v m => N.max (len v) m) 0 vs.

Lemma maxlen_cons v vs : maxlen (v :: vs) = N.max (len v) (maxlen vs).
Proof. reflexivity. Qed.

Lemma maxlen_In v vs : In v vs -> len v <= maxlen vs.
Proof.
  induction vs as [|x vs IH]; [intros []|]. rewrite maxlen_cons. intros [->|H]; [lia|].
  specialize (IH H). lia.
Qed.

(* budget_ok: one row, both browse entries and the separators fit in what is left *)
Definition budget_ok (vs : list bytes) (remaining : N) (ms : N * N * N * N) : bool :=
  (ms_next ms + ms_prev ms + 4 + maxlen vs <=? remaining) && (remaining <? 2147483648).

(* netRemaining while page k is being filled *)
Definition net0 (R nx : N) (multi : bool) : N := R - 1 - (if multi then nx + 1 else 0).
Definition page_bound (R nx pv : N) (multi : bool) (k : nat) : N :=
  match k with O => net0 R nx multi | S _ => net0 R nx multi - (pv + 1) end.

Record LInv (R nx pv : N) (multi : bool) (closed : list (list bytes)) (cur : list bytes) (s : jstate)
  (rest : list bytes) : Prop := {
  li_l : j_l s = len (j_tb s);
  li_net : j_net s = page_bound R nx pv multi (List.length closed);
  li_cur : len (pjoin cur) <= page_bound R nx pv multi (List.length closed);
  li_closed : forall k p, nth_error closed k = Some p -> len (pjoin p) <= page_bound R nx pv multi k;
  li_cnt : N.of_nat (List.length closed) + N.of_nat (List.length rest) < 65536
}.

Lemma page_bound_S R nx pv multi k : page_bound R nx pv multi (S k) = net0 R nx multi - (pv + 1).
Proof. reflexivity. Qed.

Lemma js_step_linv R nx pv multi crs0 closed cur s v rest :
  JInv crs0 closed cur s -> LInv R nx pv multi closed cur s (v :: rest) ->
  rows_ok cur = true -> row_ok v = true ->
  R < 2147483648 -> nx + pv + 4 + len v <= R ->
  exists s', js_step pv s v = Some s'
    /\ ((JInv crs0 closed (cur ++ [v]) s' /\ LInv R nx pv multi closed (cur ++ [v]) s' rest)
        \/ (cur <> [] /\ JInv crs0 (closed ++ [cur]) [v] s' /\ LInv R nx pv multi (closed ++ [cur]) [v] s' rest)).
Proof.
  intros HJ HL Hokc Hokv HR Hb.
  pose proof HJ as [Hrb Htb Hcrs Hcnt Hcur Hpg].
  destruct HL as [Hl Hnet Hcb Hclb Hc].
  cbn [List.length] in Hc.
  assert (Hn0 : net0 R nx multi >= pv + 2 + len v) by (unfold net0; destruct multi; lia).
  assert (Hnetge : j_net s >= 1 + len v).
  { rewrite Hnet. destruct (List.length closed); [cbn [page_bound]; lia|rewrite page_bound_S; lia]. }
  assert (Hnetlt : j_net s < 2147483648).
  { rewrite Hnet. destruct (List.length closed); [cbn [page_bound]|rewrite page_bound_S]; unfold net0; lia. }
  assert (Htbl : len (j_tb s) <= j_net s) by (rewrite Htb, Hnet; exact Hcb).
  assert (Hs1 : sub32 (j_net s) 1 = j_net s - 1) by (apply sub32_small; lia).
  assert (Hw : w32 (j_l s + len v) = j_l s + len v) by (apply w32_small; rewrite Hl; lia).
  destruct (js_step pv s v) as [s'|] eqn:Estep.
  - exists s'. split; [reflexivity|].
    destruct (js_step_inv pv crs0 closed cur s v s' HJ Hokc Hokv Estep) as [[Ebr HJ1]|[Ebr [Hne HJ1]]].
    + left. split; [exact HJ1|].
      unfold js_step in Estep. rewrite Ebr in Estep. rewrite Hs1, Hw in Ebr.
      destruct (0 <? len (j_tb s)) eqn:Etb; inversion Estep; subst s'; clear Estep;
        constructor; cbn [j_l j_tb j_net]; try assumption; try lia.
      * rewrite !len_app. change (len [0]) with 1. lia.
      * destruct HJ1 as [_ Htb1 _ _ _ _]. cbn [j_tb] in Htb1. rewrite <- Htb1, <- Hnet.
        rewrite !len_app. change (len [0]) with 1. lia.
      * rewrite len_app. lia.
      * destruct HJ1 as [_ Htb1 _ _ _ _]. cbn [j_tb] in Htb1. rewrite <- Htb1, <- Hnet.
        rewrite len_app. lia.
    + right. split; [exact Hne|]. split; [exact HJ1|].
      unfold js_step in Estep. rewrite Ebr in Estep.
      destruct (len (j_tb s) =? 0) eqn:Etb; [discriminate|]. inversion Estep; subst s'; clear Estep.
      assert (Hcl : N.of_nat (List.length closed) < 65536) by lia.
      assert (Hcnt0 : (j_count s =? 0) = match List.length closed with O => true | S _ => false end).
      { rewrite Hcnt, w16_small by exact Hcl. destruct (List.length closed); [reflexivity|].
        apply N.eqb_neq. lia. }
      constructor; cbn [j_l j_tb j_net].
      * reflexivity.
      * rewrite app_length. cbn [List.length]. rewrite Nat.add_1_r, page_bound_S. rewrite Hcnt0.
        destruct (List.length closed) eqn:El.
        -- rewrite Hnet. cbn [page_bound]. rewrite w32_small by lia. apply sub32_small; [lia|].
           unfold net0. lia.
        -- rewrite Hnet, page_bound_S. reflexivity.
      * rewrite app_length. cbn [List.length]. rewrite Nat.add_1_r, page_bound_S.
        unfold pjoin. cbn [join_with]. lia.
      * intros k p Hk. destruct (nth_error_snoc_cases closed cur k p Hk) as [[_ Hk1]|[-> ->]].
        -- apply Hclb. exact Hk1.
        -- exact Hcb.
      * rewrite app_length. cbn [List.length]. lia.
  - exfalso. unfold js_step in Estep.
    destruct (sub32 (j_net s) 1 <? w32 (j_l s + len v)) eqn:Ebr.
    + destruct (len (j_tb s) =? 0) eqn:Etb; [|discriminate].
      rewrite Hs1, Hw, Hl in Ebr.
      assert (Hcur0 : cur = []).
      { destruct cur as [|x cur]; [reflexivity|]. exfalso.
        assert (Hn : pjoin (x :: cur) <> []) by (apply pjoin_nonempty; [discriminate|exact Hokc]).
        rewrite Htb in Etb. destruct (pjoin (x :: cur)); [congruence|]. rewrite len_cons in Etb. lia. }
      assert (Hcl0 : closed = []).
      { destruct closed as [|q closed]; [reflexivity|]. exfalso. apply Hcur; [discriminate|exact Hcur0]. }
      subst closed. cbn [List.length page_bound] in Hnet. lia.
    + destruct (0 <? len (j_tb s)); discriminate.
Qed.

Lemma js_loop_linv R nx pv multi crs0 vs : forall closed cur s,
  JInv crs0 closed cur s -> LInv R nx pv multi closed cur s vs ->
  rows_ok cur = true -> rows_ok vs = true ->
  R < 2147483648 -> Forall (fun v => nx + pv + 4 + len v <= R) vs ->
  Forall (fun p => rows_ok p = true) closed ->
  exists s' closed' cur', js_loop pv s vs = (true, s')
    /\ JInv crs0 closed' cur' s' /\ LInv R nx pv multi closed' cur' s' []
    /\ rows_ok cur' = true /\ Forall (fun p => rows_ok p = true) closed'
    /\ List.concat closed' ++ cur' = List.concat closed ++ cur ++ vs.
Proof.
  induction vs as [|v vs IH]; intros closed cur s HJ HL Hokc Hokvs HR Hb Hokcl.
  - exists s, closed, cur. cbn [js_loop]. rewrite app_nil_r. repeat (split; [assumption || reflexivity|]). reflexivity.
  - cbn [rows_ok forallb] in Hokvs. apply andb_true_iff in Hokvs as [Hokv Hokvs].
    inversion Hb as [|? ? Hbv Hbvs]; subst.
    destruct (js_step_linv R nx pv multi crs0 closed cur s v vs HJ HL Hokc Hokv HR Hbv)
      as [s1 [Estep [[HJ1 HL1]|[Hne [HJ1 HL1]]]]].
    + assert (Hok1 : rows_ok (cur ++ [v]) = true).
      { rewrite rows_ok_app, Hokc. cbn [rows_ok forallb]. rewrite Hokv. reflexivity. }
      destruct (IH closed (cur ++ [v]) s1 HJ1 HL1 Hok1 Hokvs HR Hbvs Hokcl)
        as [s' [c' [u' [E [H1 [H2 [H3 [H4 H5]]]]]]]].
      exists s', c', u'. cbn [js_loop]. rewrite Estep. split; [exact E|].
      repeat (split; [assumption|]). rewrite H5, <- app_assoc. reflexivity.
    + assert (Hok1 : rows_ok [v] = true) by (cbn [rows_ok forallb]; rewrite Hokv; reflexivity).
      assert (Hokcl1 : Forall (fun p => rows_ok p = true) (closed ++ [cur])).
      { apply Forall_app. split; [exact Hokcl|]. constructor; [exact Hokc|constructor]. }
      destruct (IH (closed ++ [cur]) [v] s1 HJ1 HL1 Hok1 Hokvs HR Hbvs Hokcl1)
        as [s' [c' [u' [E [H1 [H2 [H3 [H4 H5]]]]]]]].
      exists s', c', u'. cbn [js_loop]. rewrite Estep. split; [exact E|].
      repeat (split; [assumption|]).
      rewrite H5, concat_app. cbn [List.concat]. rewrite app_nil_r, <- !app_assoc. reflexivity.
Qed.
