(* WalkProofs.v — C02 at engine level: walking the pages of a sink node with the "next" /
   "previous" selectors (agent render, follow-up 2).  Builds on RenderProofs (page level),
   RoutingProofs (the run loop unfolded, INCMP blocks), NavProofs, SizeProofs.  No model file and
   no existing proof file is touched. *)
From Coq Require Import Lia ZArith.
From Coq Require Import ZifyN ZifyNat ZifyBool.
From Vise Require Import Bytes Errors Consts EngConsts Codec CacheModel StateModel NavModel NavSpec RenderModel
  VmModel EngineModel BytesProofs CodecProofs CacheProofs NavProofs VmProofs RenderProofs RoutingProofs.
From Vise Require SizeProofs.
Local Open Scope N_scope.

(* ================================================================================== *)
(* Part 1 — the page a sink node builds, from input-level facts                         *)
(* ================================================================================== *)

Lemma menu_render_unpaged_ok gm m lines :
  m_page_count m = 0 -> m_sep m <> [] ->
  menu_lines (title_for gm m) (m_sep m) (m_items m) = Some lines ->
  menu_render_st gm m 0 = (Ok (join_with [nl] lines), set_items m (if m_keep m then m_items m else [])).
Proof.
  intros Hpc Hsep Hl. unfold menu_render_st, menu_apply_page. rewrite Hpc. cbn [N.eqb N.ltb N.compare].
  fold (title_for gm m). rewrite (menu_loop_of_lines (title_for gm m) (m_sep m) Hsep _ _ [] Hl). reflexivity.
Qed.

(* the pre-render (sink empty, unpaged menu) succeeds with the expected text *)
Lemma pre_render_ok gt gm pg2 sym vals z2 m k src a b xa xb lines :
  p_sizer pg2 = Some z2 -> z_sink z2 = k -> k <> [] -> z_crsrs z2 = [0] -> 0 < z_out z2 -> z_out z2 < 4294967296 ->
  p_menu pg2 = Some m -> m_page_count m = 0 -> m_sep m <> [] ->
  menu_lines (title_for gm m) (m_sep m) (m_items m) = Some lines ->
  NoDup (map fst vals) -> alookup k vals = Some [] ->
  gt sym = Ok src -> tpl_parse (tpl_source (p_err pg2) (p_extra pg2) src) = Some (a ++ TVar k :: b) ->
  (forall w, (forall nm, nm <> k -> alookup nm w = alookup nm vals) -> tpl_exec a w = Ok xa /\ tpl_exec b w = Ok xb) ->
  len xa + len xb + rows_size lines <= z_out z2 ->
  page_render_inner gt gm pg2 sym vals 0
  = (Ok ((xa ++ xb) ++ opt_menu (join_with [nl] lines)),
     page_set_menu pg2 (Some (set_items m (if m_keep m then m_items m else [])))).
Proof.
  intros Hsz Hzs Hk Hcrs Hout Hout32 Hmn Hpc Hsep Hlines Hnd Hlk Hgt Hparse Hexab Hfit.
  pose proof (menu_lines_nonempty _ _ _ _ Hsep Hlines) as Hlne.
  destruct (get_at_loop_ok k [0] 0 vals [] [] Hnd Hlk eq_refl) as [vals0 [Hg0 [Hk0 Ho0]]].
  destruct (Hexab vals0 Ho0) as [Hxa Hxb].
  assert (Hexec : tpl_exec (a ++ TVar k :: b) vals0 = Ok (xa ++ [] ++ xb)).
  { apply (proj2 (tpl_exec_single a k b vals0 (xa ++ [] ++ xb))). exists xa, [], xb. repeat split; assumption. }
  cbn [List.app] in Hexec.
  unfold page_render_inner, render_template.
  rewrite Hgt. cbn [obind]. rewrite Hparse, Hsz.
  rewrite sizer_get_at_sink by (rewrite Hzs; exact Hk).
  rewrite Hzs, Hcrs, Hg0. cbn [obind]. rewrite Hexec.
  rewrite Hmn, (menu_render_unpaged_ok gm m lines Hpc Hsep Hlines).
  match goal with |- context [page_set_menu pg2 (Some ?mm)] =>
    change (p_sizer (page_set_menu pg2 (Some mm))) with (p_sizer pg2) end.
  rewrite Hsz. fold (opt_menu (join_with [nl] lines)).
  set (out := (xa ++ xb) ++ opt_menu (join_with [nl] lines)).
  assert (Hlo : len out = len xa + len xb + rows_size lines).
  { unfold out. rewrite !len_app, len_opt_menu_join by exact Hlne. reflexivity. }
  assert (Hck : snd (sizer_check z2 out) = true).
  { unfold sizer_check. rewrite w32_small by (revert Hlo Hfit Hout32; clia).
    destruct (0 <? z_out z2) eqn:E1; [|revert E1; generalize Hout; clia].
    destruct (z_out z2 <? len out) eqn:E2; [revert E2; generalize Hlo Hfit; clia|reflexivity]. }
  rewrite Hck. reflexivity.
Qed.

(* the page the node's prologue builds (fields that matter for Page.Render) *)
Definition node_page (pg : page) (k val : bytes) (out : N) (br : browse) : Prop :=
  p_map pg = [(k, val)] /\ p_err pg = None /\ p_extra pg = []
  /\ (exists z0, p_sizer pg = Some z0 /\ z_crsrs z0 = [] /\ z_sink z0 = k /\ z_out z0 = out)
  /\ (exists m, p_menu pg = Some m /\ m_items m = [] /\ m_browse m = br /\ m_page_count m = 0
        /\ m_sink m = false /\ m_keep m = true /\ m_sep m = default_sep /\ m_has_rs m = true).

(* the guards of the page-level lift, on the inputs of the node *)
Definition page_ok (c : cache) (gt gm : bytes -> res bytes) (sym k val : bytes) (out : N) (br : browse)
  (src : bytes) (a b : list tpl_item) (xa xb : bytes) : Prop :=
  k <> [] /\ cache_reserved c k = Ok 0 /\ 0 < out /\ out < 4294967296
  /\ (forall x, is_panic (gt x) = false) /\ gt sym = Ok src
  /\ tpl_parse (tpl_source None [] src) = Some (a ++ TVar k :: b)
  /\ tmentions k a = false /\ tmentions k b = false
  /\ (forall w, (forall nm, nm <> k -> alookup nm w = alookup nm [(k, val)]) ->
        tpl_exec a w = Ok xa /\ tpl_exec b w = Ok xb)
  /\ b_next_avail br = true /\ b_prev_avail br = true
  /\ gm (b_next_title br) = Ok (b_next_title br) /\ gm (b_prev_title br) = Ok (b_prev_title br)
  /\ len xa + len xb <= out
  /\ rows_ok (split_on nl val) = true /\ rows_size (split_on nl val) < 4294967296 /\ len (split_on nl val) < 65536
  /\ budget_ok (split_on nl val) (out - (len xa + len xb)) (browse_sizes br) = true.

(* text of page i of n showing the rows p *)
Definition page_text (xa xb : bytes) (br : browse) (n i : N) (p : list bytes) : bytes :=
  (xa ++ join_with [nl] p ++ xb) ++ opt_menu (join_with [nl] (browse_lines br default_sep (i + 1 <? n) (0 <? i))).

(* the pages: a function of the value, the size and the browse labels only *)
Definition pages_of_node (val : bytes) (out : N) (br : browse) (xa xb : bytes)
  (r : bytes) (n : N) (cs : list N) (pages : list (list bytes)) : Prop :=
  join_sink (split_on nl val) (out - (len xa + len xb)) (browse_sizes br) [0] = (Ok (r, n), cs)
  /\ List.concat pages = split_on nl val /\ len pages = n /\ 0 < n /\ n < 65536
  /\ (forall i p, nth_error pages i = Some p ->
        sink_page r cs (N.of_nat i) = Ok (join_with [nl] p)
        /\ len (join_with [nl] p) + nav (browse_sizes br) (N.of_nat i) n <= out - (len xa + len xb)).

Lemma node_pages_exist c gt gm sym k val out br src a b xa xb :
  page_ok c gt gm sym k val out br src a b xa xb ->
  exists r n cs pages, pages_of_node val out br xa xb r n cs pages.
Proof.
  intros (_ & _ & _ & _ & _ & _ & _ & _ & _ & _ & _ & _ & _ & _ & _ & Hrok & Hrsz & Hrlen & Hbud).
  destruct (join_sink_budget _ _ _ (split_on_nonempty nl val) Hrok Hrsz Hrlen Hbud)
    as [r [n [cs [pages [Hj [Hcat [Hlp Hpages]]]]]]].
  exists r, n, cs, pages. split; [exact Hj|]. split; [exact Hcat|]. split; [exact Hlp|]. split; [|split; [|exact Hpages]].
  - destruct pages as [|p0 pages]; [cbn in Hcat; exfalso; apply (split_on_nonempty nl val); symmetry; exact Hcat|].
    rewrite <- Hlp, len_cons. clia.
  - destruct (join_sink_partition _ _ _ r n cs (split_on_nonempty nl val) Hrok Hrsz Hrlen Hj)
      as (_ & _ & _ & (pages' & Hc' & Hl' & Hne' & _) & _).
    assert (Hle : (List.length pages' <= List.length (List.concat pages'))%nat).
    { clear - Hne'. induction pages' as [|q pages' IH]; [cbn; lia|].
      inversion Hne' as [|? ? Hq Hr]; subst. cbn [List.concat List.length]. rewrite app_length.
      specialize (IH Hr). destruct q; [congruence|]. cbn [List.length]. lia. }
    rewrite Hc' in Hle. unfold len in Hl', Hrlen. revert Hle Hl' Hrlen. clia.
Qed.

Lemma single_sink_one c k val : cache_reserved c k = Ok 0 -> single_sink c k [(k, val)].
Proof.
  intros H. split.
  - cbn. constructor; [intros []|constructor].
  - intros k' [<-|[]]. cbn [fst]. rewrite bytes_eqb_refl. exact H.
Qed.

(* what prepare hands to the final render on such a page *)
Lemma node_prepare c gt gm pg sym idx k val out br src a b xa xb r n cs pages :
  page_ok c gt gm sym k val out br src a b xa xb -> node_page pg k val out br ->
  pages_of_node val out br xa xb r n cs pages ->
  exists pg6 z6 m6,
    page_prepare c gt gm pg sym idx = (Ok (aset k r (blank k [(k, val)])), pg6)
    /\ p_sizer pg6 = Some z6 /\ z_sink z6 = k /\ z_crsrs z6 = cs /\ z_out z6 = out
    /\ p_menu pg6 = Some m6 /\ m_items m6 = [] /\ m_browse m6 = br /\ m_page_count m6 = n
    /\ m_sep m6 = default_sep /\ m_has_rs m6 = true
    /\ p_err pg6 = None /\ p_extra pg6 = [].
Proof.
  intros (Hk & Hres & Hout & Hout32 & Hgtp & Hgt & Hparse & Hma & Hmb & Hexab & Hna & Hpa & Hnt & Hpt & Hpref
          & Hrok & Hrsz & Hrlen & Hbud)
         (Hmap & Herr & Hextra & (z0 & Hz0 & Hcrs & Hzs & Hzo) & (m & Hm & Hit & Hbr & Hpc & Hsk & Hkeep & Hsep & Hrs))
         (Hj & Hcat & Hlp & Hnpos & Hn16 & Hpages).
  assert (Hsepne : m_sep m <> []) by (rewrite Hsep; discriminate).
  pose proof (page_split_single c k [(k, val)] val Hk (single_sink_one c k val Hres)) as Hsplit.
  cbn [alookup] in Hsplit. rewrite bytes_eqb_refl in Hsplit. specialize (Hsplit eq_refl).
  set (nsv := blank k [(k, val)]) in *.
  set (z2 := sizer_add_cursor z0 0).
  assert (Hknsv : alookup k nsv = Some []) by (eapply alookup_blank_sink; cbn [alookup]; rewrite bytes_eqb_refl; reflexivity).
  assert (Hnd : NoDup (map fst nsv)) by (unfold nsv; rewrite blank_keys; cbn; constructor; [intros []|constructor]).
  assert (Hlines : menu_lines (title_for gm m) (m_sep m) (m_items m) = Some []) by (rewrite Hit; reflexivity).
  assert (Hpre : page_render_inner gt gm (page_set_sizer pg (Some z2)) sym nsv 0
                 = (Ok ((xa ++ xb) ++ opt_menu (join_with [nl] [])),
                    page_set_menu (page_set_sizer pg (Some z2)) (Some (set_items m (if m_keep m then m_items m else []))))).
  { apply (pre_render_ok gt gm (page_set_sizer pg (Some z2)) sym nsv z2 m k src a b xa xb []); try assumption; try reflexivity.
    - unfold z2. cbn [z_crsrs sizer_add_cursor]. rewrite Hcrs. reflexivity.
    - change (z_out z2) with (z_out z0). rewrite Hzo. exact Hout.
    - change (z_out z2) with (z_out z0). rewrite Hzo. exact Hout32.
    - cbn [p_err p_extra page_set_sizer]. rewrite Herr, Hextra. exact Hparse.
    - intros w Hw. apply Hexab. intros nm Hne. rewrite (Hw nm Hne). unfold nsv. apply alookup_blank_other. exact Hne.
    - change (z_out z2) with (z_out z0). rewrite Hzo. change (rows_size []) with 0. revert Hpref. clia. }
  change (opt_menu (join_with [nl] [])) with (@nil N) in Hpre. rewrite app_nil_r in Hpre.
  rewrite Hkeep, Hit in Hpre.
  set (m3 := set_items m []) in *.
  set (pg3 := page_set_menu (page_set_sizer pg (Some z2)) (Some m3)) in *.
  set (s := xa ++ xb) in *.
  assert (Hslen : len s = len xa + len xb) by (unfold s; apply len_app).
  assert (Hchk : sizer_check z2 s = (out - (len xa + len xb), true)).
  { unfold sizer_check. rewrite w32_small by (revert Hslen Hpref Hout32; clia). change (z_out z2) with (z_out z0). rewrite Hzo.
    destruct (0 <? out) eqn:E1; [|revert E1; generalize Hout; clia].
    destruct (out <? len s) eqn:E2; [revert E2; generalize Hslen Hpref; clia|]. rewrite Hslen. reflexivity. }
  pose proof Hbud as Hbud'. unfold budget_ok in Hbud'. apply andb_true_iff in Hbud' as [Hb1 Hb2].
  assert (Hms : menu_sizes m3 = Ok (browse_sizes br)).
  { rewrite (menu_sizes_browse m3 m eq_refl). rewrite <- Hbr. apply menu_sizes_closed; rewrite ?Hbr; try assumption;
      unfold browse_sizes, ms_next, ms_prev in Hb1; revert Hb1 Hb2; clia. }
  assert (Hcrs2 : z_crsrs z2 = [0]) by (unfold z2; cbn [z_crsrs sizer_add_cursor]; rewrite Hcrs; reflexivity).
  rewrite <- Hcrs2 in Hj.
  pose proof (prepare_single c gt gm pg sym idx z0 m k nsv (split_on nl val) s pg3 z2
                (out - (len xa + len xb)) m3 (browse_sizes br) r n cs Hz0 Hm Hsk Hk) as Hprep.
  rewrite Hmap in Hprep. specialize (Hprep Hsplit Hpre eq_refl Hchk eq_refl Hms Hj).
  eexists. exists (sizer_set_crsrs z2 cs), (menu_with_page_count m3 n).
  split; [exact Hprep|]. cbn [p_sizer p_menu p_err p_extra page_set_menu page_set_sizer].
  repeat split; try assumption; try reflexivity.
Qed.

Lemma get_at_loop_err sink crs idx vals v e :
  NoDup (map fst vals) -> alookup sink vals = Some v -> sink_page v crs idx = Err e ->
  get_at_loop sink crs idx vals = Err e.
Proof.
  induction vals as [|[k0 v0] vals IH]; intros Hnd Hl Hp; [discriminate|].
  cbn [map fst] in Hnd. inversion Hnd as [|? ? Hnin Hnd']; subst.
  cbn [get_at_loop alookup] in *. destruct (bytes_eqb sink k0) eqn:E.
  - inversion Hl; subst v0. rewrite Hp. reflexivity.
  - rewrite (IH Hnd' Hl Hp). reflexivity.
Qed.

(* page i of the node: exactly the text, whatever the request that built the page *)
Lemma node_page_render c gt gm pg sym k val out br src a b xa xb r n cs pages i p :
  page_ok c gt gm sym k val out br src a b xa xb -> node_page pg k val out br ->
  pages_of_node val out br xa xb r n cs pages ->
  nth_error pages i = Some p ->
  exists pg', page_render c gt gm pg sym (N.of_nat i) = (Ok (page_text xa xb br n (N.of_nat i) p), pg').
Proof.
  intros Hok Hnp Hpn Enth.
  destruct (node_prepare c gt gm pg sym (N.of_nat i) k val out br src a b xa xb r n cs pages Hok Hnp Hpn)
    as (pg6 & z6 & m6 & Hprep & Hsz6 & Hzs6 & Hcs6 & Hzo6 & Hmn6 & Hit6 & Hbr6 & Hpc6 & Hsep6 & Hrs6 & Herr6 & Hex6).
  destruct Hok as (Hk & Hres & Hout & Hout32 & Hgtp & Hgt & Hparse & Hma & Hmb & Hexab & Hna & Hpa & Hnt & Hpt & Hpref
          & Hrok & Hrsz & Hrlen & Hbud).
  destruct Hpn as (Hj & Hcat & Hlp & Hnpos & Hn16 & Hpages).
  destruct (Hpages _ _ Enth) as [Hsp Hfits].
  set (ii := N.of_nat i) in *.
  assert (Hi : ii < n).
  { assert (Hsome : nth_error pages i <> None) by congruence. apply nth_error_Some in Hsome.
    unfold len in Hlp. unfold ii. revert Hsome Hlp. clia. }
  set (nsv := blank k [(k, val)]) in *.
  assert (Hknsv : alookup k nsv = Some []) by (eapply alookup_blank_sink; cbn [alookup]; rewrite bytes_eqb_refl; reflexivity).
  assert (Hnd : NoDup (map fst nsv)) by (unfold nsv; rewrite blank_keys; cbn; constructor; [intros []|constructor]).
  set (vals := aset k r nsv) in *.
  assert (Hndv : NoDup (map fst vals)) by (unfold vals; rewrite (aset_keys_present k r [] nsv Hknsv); exact Hnd).
  assert (Htf : title_for gm m6 = gm) by (unfold title_for; rewrite Hrs6; reflexivity).
  unfold page_render. rewrite Hprep.
  destruct (final_render_ok gt gm pg6 sym vals ii z6 m6 k r (join_with [nl] p) src a b xa xb []) as [m7 [_ Hfin]];
    [..|rewrite Hfin; unfold page_text; rewrite Hbr6, Hpc6; cbn [List.app]; eexists; reflexivity];
    rewrite ?Hbr6, ?Hsep6, ?Hit6, ?Htf, ?Hzo6, ?Hcs6, ?Hpc6, ?Herr6, ?Hex6; try assumption; try reflexivity.
  - apply alookup_aset_same.
  - intros w Hw. apply Hexab. intros nm Hne. rewrite (Hw nm Hne). unfold vals.
    rewrite alookup_aset_other by exact Hne. unfold nsv. apply alookup_blank_other. exact Hne.
  - rewrite rows_size_browse_lines. unfold nav, browse_sizes, ms_next, ms_prev in Hfits. change (rows_size []) with 0.
    revert Hfits Hpref. destruct (ii + 1 <? n), (0 <? ii); clia.
Qed.

(* an index past the last page: the plain error of GetAt ("no more values in index"), not a BrowseError *)
Lemma node_page_past_end c gt gm pg sym k val out br src a b xa xb r n cs pages i :
  page_ok c gt gm sym k val out br src a b xa xb -> node_page pg k val out br ->
  pages_of_node val out br xa xb r n cs pages ->
  n <= i -> i < 65536 ->
  exists pg', page_render c gt gm pg sym i = (Err EGen, pg').
Proof.
  intros Hok Hnp Hpn Hi Hi16.
  destruct (node_prepare c gt gm pg sym i k val out br src a b xa xb r n cs pages Hok Hnp Hpn)
    as (pg6 & z6 & m6 & Hprep & Hsz6 & Hzs6 & Hcs6 & Hzo6 & Hmn6 & Hit6 & Hbr6 & Hpc6 & Hsep6 & Hrs6 & Herr6 & Hex6).
  destruct Hok as (Hk & Hres & Hout & Hout32 & Hgtp & Hgt & Hparse & Hma & Hmb & Hexab & Hna & Hpa & Hnt & Hpt & Hpref
          & Hrok & Hrsz & Hrlen & Hbud).
  destruct Hpn as (Hj & Hcat & Hlp & Hnpos & Hn16 & Hpages).
  set (nsv := blank k [(k, val)]) in *.
  assert (Hknsv : alookup k nsv = Some []) by (eapply alookup_blank_sink; cbn [alookup]; rewrite bytes_eqb_refl; reflexivity).
  assert (Hnd : NoDup (map fst nsv)) by (unfold nsv; rewrite blank_keys; cbn; constructor; [intros []|constructor]).
  set (vals := aset k r nsv) in *.
  assert (Hndv : NoDup (map fst vals)) by (unfold vals; rewrite (aset_keys_present k r [] nsv Hknsv); exact Hnd).
  (* the partition theorem: every index from n on is refused by GetAt *)
  destruct (join_sink_partition _ _ _ r n cs (split_on_nonempty nl val) Hrok Hrsz Hrlen Hj) as (_ & _ & _ & _ & Hpast).
  unfold page_render. rewrite Hprep. unfold page_render_inner, render_template.
  rewrite Hgt. cbn [obind]. rewrite Hsz6.
  rewrite sizer_get_at_sink by (rewrite Hzs6; exact Hk). rewrite Hzs6, Hcs6.
  rewrite (get_at_loop_err k cs i vals r EGen Hndv (alookup_aset_same k r nsv) (Hpast i Hi)).
  cbn [obind]. eexists. reflexivity.
Qed.

(* ================================================================================== *)
(* Part 2 — the node's code, run by the VM                                               *)
(* ================================================================================== *)

Definition prologue (k nt ns pt ps : bytes) : bytes :=
  encode (ILoad k 0) ++ encode (IMap k) ++ encode (IMNext nt ns) ++ encode (IMPrev pt ps) ++ encode IHalt.
Definition routes (ns ps : bytes) (l2 : list (bytes * bytes)) : bytes :=
  incmp_block ((t_next, ns) :: (t_prev, ps) :: l2).
(* LOAD k 0; MAP k; MNEXT nt ns; MPREV pt ps; HALT; INCMP > ns; INCMP < ps; further INCMP lines *)
Definition node_code (k nt ns pt ps : bytes) (l2 : list (bytes * bytes)) : bytes :=
  prologue k nt ns pt ps ++ routes ns ps l2.
Definition node_wf (k nt ns pt ps : bytes) (l2 : list (bytes * bytes)) : Prop :=
  wf_sym k /\ wf_sym nt /\ wf_sym ns /\ wf_sym pt /\ wf_sym ps /\ wf_block l2.

Lemma routes_ne ns ps l2 : routes ns ps l2 <> [].
Proof. unfold routes. rewrite <- (app_nil_r (incmp_block _)). apply incmp_block_cons_ne. Qed.

(* one instruction whose handler succeeds and leaves code to run *)
Lemma run_simple fuel rs sep lang i rest v v1 :
  wf_instr i -> is_halt i = false -> getf (v_st v) FLAG_TERMINATE = false -> rest <> [] ->
  exec_instr rs sep (fst (run_prelude lang v)) i rest (vlog (snd (run_prelude lang v)) (EvInstr (opcode_of i)))
    = (v1, rest, SOk) ->
  run (S fuel) rs sep lang (encode i ++ rest) v = run fuel rs sep (fst (run_prelude lang v)) rest v1.
Proof.
  intros Hwf Hh Ht Hr He. rewrite run_unfold by exact Hwf. rewrite Ht, Hh, He.
  apply run_post_ok_nonempty. exact Hr.
Qed.

Lemma run_halt fuel rs sep lang rest v :
  getf (v_st v) FLAG_TERMINATE = false ->
  run (S fuel) rs sep lang (encode IHalt ++ rest) v =
  (let v0 := vlog (snd (run_prelude lang v)) (EvInstr op_HALT) in vset_st v0 (setf (v_st v0) FLAG_WAIT), rest, SOk).
Proof. intros Ht. rewrite run_unfold by exact I. rewrite Ht. reflexivity. Qed.

(* the page right after Vm.Reset on a page that carries no error: nothing mapped, fresh sizer state *)
Definition fresh_page (sep : bytes) (pg : page) (out : N) : Prop :=
  p_map pg = [] /\ p_sink pg = None /\ p_err pg = None /\ p_extra pg = []
  /\ (exists z, p_sizer pg = Some z /\ z_crsrs z = [] /\ z_sink z = [] /\ z_out z = out)
  /\ p_menu pg = Some (menu_with_resource (vm_new_menu sep)).

Definition walk_browse (nt ns pt ps : bytes) : browse := mkBrowse true ns nt true ps pt.

(* same_but_flags plus the flags the walk cares about *)
Definition keeps (v v' : vmst) : Prop :=
  same_but_flags (v_st v) (v_st v') /\ v_ca v' = v_ca v /\ v_w v' = v_w v /\ v_taint v' = v_taint v
  /\ flags_ok (v_st v') /\ getf (v_st v') FLAG_TERMINATE = false
  /\ getf (v_st v') FLAG_INMATCH = getf (v_st v) FLAG_INMATCH
  /\ getf (v_st v') FLAG_READIN = getf (v_st v) FLAG_READIN.

Lemma pre_state_keeps_nowait lang v :
  flags_ok (v_st v) -> getf (v_st v) FLAG_TERMINATE = false -> getf (v_st v) FLAG_WAIT = false ->
  forall e, keeps v (vlog (snd (run_prelude lang v)) e)
            /\ getf (v_st (vlog (snd (run_prelude lang v)) e)) FLAG_WAIT = false
            /\ getf (v_st (vlog (snd (run_prelude lang v)) e)) FLAG_DIRTY = true
            /\ v_pg (vlog (snd (run_prelude lang v)) e) = v_pg v.
Proof.
  intros Hf Ht Hw e. cbn [v_st v_pg vlog]. rewrite prelude_st.
  rewrite (prelude_pg_nowait lang v Hw).
  split; [|split; [apply pre_state_wait|split; [|reflexivity]]].
  - unfold keeps. cbn [v_st v_ca v_w v_taint vlog]. rewrite prelude_st, prelude_ca, prelude_w, prelude_taint.
    split; [apply pre_state_sbf|]. split; [reflexivity|]. split; [reflexivity|]. split; [reflexivity|].
    split; [apply pre_state_flags_ok; exact Hf|]. split; [rewrite pre_state_terminate; exact Ht|].
    split; [apply pre_state_inmatch_nowait; exact Hw|apply pre_state_readin].
  - unfold pre_state. apply getf_setf_builtin; [|reflexivity].
    destruct (getf (resetf (v_st v) FLAG_LANG) FLAG_WAIT); repeat apply flags_ok_resetf; exact Hf.
Qed.

Lemma keeps_trans a b c : keeps a b -> keeps b c -> keeps a c.
Proof.
  intros (A1 & A2 & A3 & A4 & A5 & A6 & A7 & A8) (B1 & B2 & B3 & B4 & B5 & B6 & B7 & B8).
  unfold keeps. split; [eapply sbf_trans; eassumption|]. repeat split; try congruence; assumption.
Qed.

Lemma keeps_pg v pg : flags_ok (v_st v) -> getf (v_st v) FLAG_TERMINATE = false -> keeps v (vset_pg v pg).
Proof. intros Hf Ht. unfold keeps. cbn. split; [apply sbf_refl|]. repeat split; assumption. Qed.

(* a machine in the middle of a node's prologue, relative to the machine v0 it started from *)
Definition mid (v0 v : vmst) : Prop := keeps v0 v /\ getf (v_st v) FLAG_WAIT = false.

(* one simple instruction: the machine after it, abstractly *)
Lemma step_simple rs sep i rest v0 v (f : vmst -> vmst) :
  wf_instr i -> is_halt i = false -> rest <> [] -> mid v0 v ->
  (forall L u, v_ca u = v_ca v0 -> v_pg u = v_pg v -> exec_instr rs sep L i rest u = (f u, rest, SOk)) ->
  (forall u, same_but_flags (v_st u) (v_st (f u)) /\ s_flags (v_st (f u)) = s_flags (v_st u)
             /\ v_ca (f u) = v_ca u /\ v_w (f u) = v_w u /\ v_taint (f u) = v_taint u) ->
  forall fuel lang, exists lang' v',
    run (S fuel) rs sep lang (encode i ++ rest) v = run fuel rs sep lang' rest v'
    /\ mid v0 v' /\ getf (v_st v') FLAG_DIRTY = true
    /\ v_pg v' = v_pg (f (vlog (snd (run_prelude lang v)) (EvInstr (opcode_of i)))).
Proof.
  intros Hwf Hh Hr ((S0 & C0 & X0 & T0 & F0 & Tm0 & I0 & R0) & W0) He Hfr fuel lang.
  destruct (pre_state_keeps_nowait lang v F0 Tm0 W0 (EvInstr (opcode_of i))) as (K1 & W1 & D1 & P1).
  set (u := vlog (snd (run_prelude lang v)) (EvInstr (opcode_of i))) in *.
  exists (fst (run_prelude lang v)), (f u).
  split; [apply run_simple; try assumption; apply He; [destruct K1 as (_ & -> & _); exact C0|exact P1]|].
  destruct (Hfr u) as (Sf & Ff & Cf & Xf & Tf).
  destruct K1 as (S1 & C1 & X1 & T1 & F1 & Tm1 & I1 & R1).
  assert (Hg : forall j, getf (v_st (f u)) j = getf (v_st u) j) by (intros j; unfold getf; rewrite Ff; reflexivity).
  split; [|split; [rewrite Hg; exact D1|reflexivity]].
  split; [|rewrite Hg; exact W1].
  unfold keeps.
  split; [eapply sbf_trans; [exact S0|]; eapply sbf_trans; [exact S1|exact Sf]|].
  split; [congruence|]. split; [congruence|]. split; [congruence|].
  split; [unfold flags_ok in *; rewrite Ff; exact F1|].
  split; [rewrite Hg; exact Tm1|]. split; rewrite Hg; congruence.
Qed.

Lemma step_halt rs sep rest v0 v :
  mid v0 v -> forall fuel lang, exists v',
    run (S fuel) rs sep lang (encode IHalt ++ rest) v = (v', rest, SOk)
    /\ keeps v0 v' /\ getf (v_st v') FLAG_WAIT = true /\ getf (v_st v') FLAG_DIRTY = true /\ v_pg v' = v_pg v.
Proof.
  intros ((S0 & C0 & X0 & T0 & F0 & Tm0 & I0 & R0) & W0) fuel lang.
  destruct (pre_state_keeps_nowait lang v F0 Tm0 W0 (EvInstr op_HALT)) as (K1 & W1 & D1 & P1).
  rewrite run_halt by exact Tm0. cbv zeta.
  set (u := vlog (snd (run_prelude lang v)) (EvInstr op_HALT)) in *.
  destruct K1 as (S1 & C1 & X1 & T1 & F1 & Tm1 & I1 & R1).
  eexists. split; [reflexivity|]. cbn [v_st v_ca v_w v_taint v_pg vset_st].
  split; [|split; [apply getf_setf_builtin; [exact F1|reflexivity]|split; [rewrite getf_setf_other by fneq; exact D1|exact P1]]].
  unfold keeps. cbn [v_st v_ca v_w v_taint vset_st].
  split; [eapply sbf_trans; [exact S0|]; eapply sbf_trans; [exact S1|]; unfold same_but_flags; cbn; repeat split|].
  split; [congruence|]. split; [congruence|]. split; [congruence|].
  split; [apply flags_ok_setf; exact F1|].
  split; [rewrite getf_setf_other by fneq; exact Tm1|].
  split; rewrite getf_setf_other by fneq; congruence.
Qed.

Lemma vset_pg_frame (g : page -> page) u :
  same_but_flags (v_st u) (v_st (vset_pg u (g (v_pg u)))) /\ s_flags (v_st (vset_pg u (g (v_pg u)))) = s_flags (v_st u)
  /\ v_ca (vset_pg u (g (v_pg u))) = v_ca u /\ v_w (vset_pg u (g (v_pg u))) = v_w u
  /\ v_taint (vset_pg u (g (v_pg u))) = v_taint u.
Proof. cbn. split; [apply sbf_refl|]. repeat split. Qed.

(* the prologue on a fresh page: LOAD is skipped (the symbol is visible), MAP / MNEXT / MPREV build
   the node's page, HALT stops with the routes pending *)
Lemma prologue_run rs sep k nt ns pt ps l2 val out : forall fuel lang v,
  node_wf k nt ns pt ps l2 -> m_sep (vm_new_menu sep) = default_sep ->
  flags_ok (v_st v) -> getf (v_st v) FLAG_TERMINATE = false -> getf (v_st v) FLAG_WAIT = false ->
  cache_get (v_ca v) k = Ok val -> cache_reserved (v_ca v) k = Ok 0 ->
  fresh_page sep (v_pg v) out ->
  out_of_fuel (run fuel rs sep lang (node_code k nt ns pt ps l2) v) \/
  exists vH, run fuel rs sep lang (node_code k nt ns pt ps l2) v = (vH, routes ns ps l2, SOk)
    /\ keeps v vH /\ getf (v_st vH) FLAG_WAIT = true /\ getf (v_st vH) FLAG_DIRTY = true
    /\ node_page (v_pg vH) k val out (walk_browse nt ns pt ps).
Proof.
  intros fuel lang v (Wk & Wnt & Wns & Wpt & Wps & Wl2) Hsep Hf Ht Hw Hget Hres
         (Hmap & Hsink & Herr & Hextra & (z & Hz & Hzc & Hzs & Hzo) & Hmenu).
  unfold node_code, prologue. rewrite <- !app_assoc.
  pose proof (routes_ne ns ps l2) as Hrne.
  assert (Hne : forall (x : bytes) i, encode i ++ x <> []).
  { intros x i. destruct (encode_shape i) as (a0 & b0 & t0 & ->). discriminate. }
  assert (Hmid0 : mid v v).
  { split; [|exact Hw]. unfold keeps. split; [apply sbf_refl|]. repeat split; assumption. }
  (* LOAD: the symbol is visible, the function is not called *)
  destruct fuel as [|fuel]; [left; reflexivity|].
  assert (Wn0 : wf_num 0) by reflexivity.
  set (r4 := encode IHalt ++ routes ns ps l2).
  set (r3 := encode (IMPrev pt ps) ++ r4).
  set (r2 := encode (IMNext nt ns) ++ r3).
  set (r1 := encode (IMap k) ++ r2).
  destruct (step_simple rs sep (ILoad k 0) r1 v v (fun u => u)
              (conj Wk Wn0) eq_refl (Hne _ _) Hmid0) with (fuel := fuel) (lang := lang)
    as (L1 & v1 & E1 & M1 & D1 & P1).
  { intros L u Hc _. cbn [exec_instr]. apply (run_load_visible _ _ _ _ _ _ val). rewrite Hc. exact Hget. }
  { intros u. split; [apply sbf_refl|]. repeat split. }
  rewrite E1. clear E1. cbn beta in P1. cbn [v_pg vlog] in P1. rewrite (prelude_pg_nowait lang v Hw) in P1.
  (* MAP *)
  set (pgm := mkPage (aset k val (p_map (v_pg v))) (Some k) (p_menu (v_pg v))
                (option_map (fun z => sizer_set z k 0) (p_sizer (v_pg v))) (p_err (v_pg v)) (p_extra (v_pg v))).
  destruct fuel as [|fuel]; [left; reflexivity|].
  destruct (step_simple rs sep (IMap k) r2 v v1 (fun u => vset_pg u pgm) Wk eq_refl (Hne _ _) M1)
    with (fuel := fuel) (lang := L1) as (L2 & v2 & E2 & M2 & D2 & P2).
  { intros L u Hc Hp. cbn [exec_instr]. unfold run_map, page_map. rewrite Hc, Hget, Hres. cbn [obind N.eqb].
    rewrite Hp, P1, Hsink. reflexivity. }
  { intros u. cbn. split; [apply sbf_refl|]. repeat split. }
  unfold r1. rewrite E2. clear E2. cbn [v_pg vset_pg] in P2.
  (* MNEXT *)
  destruct fuel as [|fuel]; [left; reflexivity|].
  destruct (step_simple rs sep (IMNext nt ns) r3 v v2 (fun u => vset_pg u (upd_menu (with_browse_next nt ns) (v_pg u)))
              (conj Wnt Wns) eq_refl (Hne _ _) M2) with (fuel := fuel) (lang := L2) as (L3 & v3 & E3 & M3 & D3 & P3).
  { intros L u _ _. reflexivity. }
  { intros u. apply (vset_pg_frame (upd_menu (with_browse_next nt ns))). }
  unfold r2. rewrite E3. clear E3. cbn [v_pg vset_pg vlog] in P3.
  rewrite (prelude_pg_nowait L2 v2 (proj2 M2)), P2 in P3.
  (* MPREV *)
  destruct fuel as [|fuel]; [left; reflexivity|].
  destruct (step_simple rs sep (IMPrev pt ps) r4 v v3 (fun u => vset_pg u (upd_menu (with_browse_prev pt ps) (v_pg u)))
              (conj Wpt Wps) eq_refl (Hne _ _) M3) with (fuel := fuel) (lang := L3) as (L4 & v4 & E4 & M4 & D4 & P4).
  { intros L u _ _. reflexivity. }
  { intros u. apply (vset_pg_frame (upd_menu (with_browse_prev pt ps))). }
  unfold r3. rewrite E4. clear E4. cbn [v_pg vset_pg vlog] in P4.
  rewrite (prelude_pg_nowait L3 v3 (proj2 M3)), P3 in P4.
  (* HALT *)
  destruct fuel as [|fuel]; [left; reflexivity|].
  destruct (step_halt rs sep (routes ns ps l2) v v4 M4 fuel L4) as (vH & EH & KH & WH & DH & PH).
  right. exists vH. split; [unfold r4; exact EH|]. split; [exact KH|]. split; [exact WH|]. split; [exact DH|].
  rewrite PH, P4. unfold pgm. rewrite Hmap, Hmenu, Hz, Herr, Hextra.
  unfold upd_menu. cbn [p_menu p_map p_sink p_sizer p_err p_extra option_map aset].
  unfold node_page. cbn [p_menu p_map p_sink p_sizer p_err p_extra].
  split; [reflexivity|]. split; [reflexivity|]. split; [reflexivity|]. split.
  - exists (sizer_set z k 0). split; [reflexivity|]. cbn [sizer_set z_crsrs z_sink z_out N.eqb]. repeat split; assumption.
  - eexists. split; [reflexivity|].
    unfold with_browse_prev, with_browse_next, menu_with_browse, menu_with_resource, walk_browse.
    cbn [m_items m_browse m_page_count m_sink m_keep m_sep m_has_rs b_next_avail b_next_sel b_next_title b_prev_avail b_prev_sel b_prev_title].
    unfold vm_new_menu, new_menu in *. cbn [m_items m_browse m_page_count m_sink m_keep m_sep m_has_rs] in *.
    repeat split. exact Hsep.
Qed.

(* ---- frame lemmas -------------------------------------------------------------------------------- *)
Lemma scan_skip_frame l : forall lang v,
  getf (v_st v) FLAG_WAIT = false ->
  v_pg (snd (scan_skip (lang, v) l)) = v_pg v /\ v_w (snd (scan_skip (lang, v) l)) = v_w v
  /\ v_taint (snd (scan_skip (lang, v) l)) = v_taint v
  /\ same_but_flags (v_st v) (v_st (snd (scan_skip (lang, v) l))).
Proof.
  induction l as [|ds l IH]; intros lang v Hw.
  - cbn. repeat split; reflexivity.
  - unfold scan_skip. cbn [fold_left]. rewrite (surjective_pairing (step_skip (lang, v) ds)).
    fold (scan_skip (fst (step_skip (lang, v) ds), snd (step_skip (lang, v) ds)) l).
    assert (Hw1 : getf (v_st (snd (step_skip (lang, v) ds))) FLAG_WAIT = false) by (rewrite step_skip_st; apply pre_state_wait).
    destruct (IH (fst (step_skip (lang, v) ds)) (snd (step_skip (lang, v) ds)) Hw1) as (A1 & A2 & A3 & A4).
    split; [rewrite A1; unfold step_skip; cbn [snd fst v_pg vlog]; apply prelude_pg_nowait; exact Hw|].
    split; [rewrite A2; reflexivity|]. split; [rewrite A3; reflexivity|].
    eapply sbf_trans; [|exact A4]. rewrite step_skip_st. apply pre_state_sbf.
Qed.

Lemma prelude_pg_wait lang v :
  getf (v_st v) FLAG_WAIT = true ->
  v_pg (snd (run_prelude lang v)) = upd_menu menu_reset (page_reset (page_with_error (v_pg v) None)).
Proof.
  intros H. unfold run_prelude. cbn [snd v_pg vset_pg]. rewrite getf_resetf_other by fneq. rewrite H. reflexivity.
Qed.

Lemma upd_menu_fields f pg :
  p_map (upd_menu f pg) = p_map pg /\ p_sink (upd_menu f pg) = p_sink pg /\ p_err (upd_menu f pg) = p_err pg
  /\ p_extra (upd_menu f pg) = p_extra pg /\ p_sizer (upd_menu f pg) = p_sizer pg.
Proof. unfold upd_menu. destruct (p_menu pg); repeat split. Qed.

(* Vm.Reset after the resume's page reset: a fresh page *)
Lemma fresh_after_resume sep pg z out :
  p_sizer pg = Some z -> z_out z = out ->
  fresh_page sep (vm_reset sep (upd_menu menu_reset (page_reset (page_with_error pg None)))) out.
Proof.
  intros Hz Ho. unfold vm_reset, page_with_menu.
  set (pg1 := upd_menu menu_reset (page_reset (page_with_error pg None))).
  destruct (upd_menu_fields menu_reset (page_reset (page_with_error pg None))) as (U1 & U2 & U3 & U4 & U5). fold pg1 in U1, U2, U3, U4, U5.
  unfold fresh_page. cbn [p_map p_sink p_err p_extra p_sizer p_menu page_set_menu page_reset].
  split; [reflexivity|]. split; [reflexivity|]. split; [rewrite U3; reflexivity|]. split; [reflexivity|].
  split; [|reflexivity].
  rewrite U5. cbn [p_sizer page_reset page_with_error]. rewrite Hz. cbn [option_map].
  eexists. split; [reflexivity|]. cbn [sizer_reset z_crsrs z_sink z_out]. repeat split. exact Ho.
Qed.

Lemma wf_sym_next : wf_sym t_next.
Proof. unfold wf_sym, bytes_ok, t_next. split; [repeat constructor|]. rewrite len_cons, len_nil. lia. Qed.

Lemma apply_next_ok st ca :
  s_path st <> [] ->
  apply_target t_next st ca = (set_path_idx st (s_path st) (w16 (s_idx st + 1)), ca, where_sym st, SOk).
Proof. intros H. rewrite apply_next. unfold do_next, st_next. destruct (s_path st); [contradiction|reflexivity]. Qed.

(* ---- the machine waiting at page j of the node ------------------------------------------------------ *)
Definition at_page (nd k val : bytes) (out j : N) (v : vmst) : Prop :=
  s_path (v_st v) <> [] /\ where_sym (v_st v) = nd /\ s_idx (v_st v) = j
  /\ flags_ok (v_st v) /\ getf (v_st v) FLAG_TERMINATE = false /\ getf (v_st v) FLAG_WAIT = true
  /\ cache_get (v_ca v) k = Ok val /\ cache_reserved (v_ca v) k = Ok 0
  /\ (exists z, p_sizer (v_pg v) = Some z /\ z_out z = out).

Lemma scan_nomatch_frame l : forall lang v,
  getf (v_st v) FLAG_WAIT = false ->
  v_pg (snd (scan_nomatch (lang, v) l)) = v_pg v /\ v_w (snd (scan_nomatch (lang, v) l)) = v_w v
  /\ v_taint (snd (scan_nomatch (lang, v) l)) = v_taint v
  /\ same_but_flags (v_st v) (v_st (snd (scan_nomatch (lang, v) l)))
  /\ getf (v_st (snd (scan_nomatch (lang, v) l))) FLAG_WAIT = false.
Proof.
  induction l as [|ds l IH]; intros lang v Hw.
  - cbn. repeat split; try reflexivity. exact Hw.
  - unfold scan_nomatch. cbn [fold_left]. rewrite (surjective_pairing (step_nomatch (lang, v) ds)).
    fold (scan_nomatch (fst (step_nomatch (lang, v) ds), snd (step_nomatch (lang, v) ds)) l).
    assert (Hw1 : getf (v_st (snd (step_nomatch (lang, v) ds))) FLAG_WAIT = false).
    { rewrite step_nomatch_st. unfold nomatch_st. rewrite getf_setf_other by fneq. apply pre_state_wait. }
    destruct (IH (fst (step_nomatch (lang, v) ds)) (snd (step_nomatch (lang, v) ds)) Hw1) as (A1 & A2 & A3 & A4 & A5).
    split; [rewrite A1; unfold step_nomatch; cbn [snd fst v_pg vlog vset_st]; apply prelude_pg_nowait; exact Hw|].
    split; [rewrite A2; reflexivity|]. split; [rewrite A3; reflexivity|]. split; [|exact A5].
    eapply sbf_trans; [|exact A4]. rewrite step_nomatch_st. unfold nomatch_st.
    eapply sbf_trans; [apply pre_state_sbf|]. unfold same_but_flags. cbn. repeat split.
Qed.

Definition reset_page (pg : page) : page := upd_menu menu_reset (page_reset (page_with_error pg None)).

(* the machine the matching line's handler is entered with, after a resume: the page was reset once *)
Lemma at_match_frame lang v l1 :
  getf (v_st v) FLAG_WAIT = true ->
  let vI := snd (at_match lang v l1) in
  v_pg vI = reset_page (v_pg v) /\ v_w vI = v_w v /\ v_taint vI = v_taint v /\ same_but_flags (v_st v) (v_st vI).
Proof.
  intros Hw. cbv zeta. unfold at_match. cbn [snd fst v_pg v_w v_taint v_st vlog].
  rewrite prelude_st, prelude_w, prelude_taint.
  destruct l1 as [|ds l].
  - cbn [scan_nomatch fold_left snd fst]. rewrite (prelude_pg_wait lang v Hw).
    repeat split; try reflexivity; apply pre_state_sbf.
  - unfold scan_nomatch. cbn [fold_left]. rewrite (surjective_pairing (step_nomatch (lang, v) ds)).
    fold (scan_nomatch (fst (step_nomatch (lang, v) ds), snd (step_nomatch (lang, v) ds)) l).
    assert (Hw1 : getf (v_st (snd (step_nomatch (lang, v) ds))) FLAG_WAIT = false).
    { rewrite step_nomatch_st. unfold nomatch_st. rewrite getf_setf_other by fneq. apply pre_state_wait. }
    destruct (scan_nomatch_frame l (fst (step_nomatch (lang, v) ds)) (snd (step_nomatch (lang, v) ds)) Hw1)
      as (A1 & A2 & A3 & A4 & A5).
    rewrite (prelude_pg_nowait _ _ A5), A1, A2, A3.
    split; [unfold step_nomatch; cbn [snd fst v_pg vlog vset_st]; apply (prelude_pg_wait lang v Hw)|].
    split; [reflexivity|]. split; [reflexivity|].
    eapply sbf_trans; [|apply pre_state_sbf]. eapply sbf_trans; [|exact A4].
    rewrite step_nomatch_st. unfold nomatch_st. eapply sbf_trans; [apply pre_state_sbf|].
    unfold same_but_flags. cbn. repeat split.
Qed.

Lemma match_st_sbf st : same_but_flags st (match_st st).
Proof. unfold match_st, same_but_flags. cbn. repeat split. Qed.

(* a lateral move from the waiting node: the route (d, s) fires on the input, the remaining lines are
   passed over, the node's code is fetched and run again — LOAD is skipped because the symbol is
   visible, the page is rebuilt from the same cache value — and the machine waits at page j' *)
Lemma walk_move_run rs sep nd k nt ns pt ps l2 val out j j' input l1 d s l2r fuel lang v :
  node_wf k nt ns pt ps l2 -> m_sep (vm_new_menu sep) = default_sep ->
  rs_code rs nd = Ok (node_code k nt ns pt ps l2) ->
  routes ns ps l2 = incmp_block (l1 ++ (d, s) :: l2r) ->
  wf_block l1 -> wf_sym d -> wf_sym s -> wf_block l2r ->
  no_match input l1 = true -> sel_match input s = true -> distinct_after l2r input = true ->
  (forall st ca, s_path st = s_path (v_st v) -> s_idx st = j ->
     apply_target d st ca = (set_path_idx st (s_path st) j', ca, where_sym st, SOk)) ->
  at_page nd k val out j v -> s_input (v_st v) = Some input ->
  out_of_fuel (run fuel rs sep lang (routes ns ps l2) v) \/
  exists vH, run fuel rs sep lang (routes ns ps l2) v = (vH, routes ns ps l2, SOk)
    /\ at_page nd k val out j' vH
    /\ node_page (v_pg vH) k val out (walk_browse nt ns pt ps)
    /\ getf (v_st vH) FLAG_DIRTY = true
    /\ s_path (v_st vH) = s_path (v_st v) /\ s_input (v_st vH) = Some input /\ s_lang (v_st vH) = s_lang (v_st v)
    /\ s_code (v_st vH) = s_code (v_st v) /\ s_bitsize (v_st vH) = s_bitsize (v_st v)
    /\ v_ca vH = v_ca v /\ v_w vH = v_w v /\ v_taint vH = v_taint v.
Proof.
  intros Hwf Hsep Hcode Hroutes Wl1 Wd Ws Wl2r Hnm Hsm Hdist Happ
         (Hpath & Hwhere & Hidx & Hf & Ht & Hw & Hget & Hres & (z & Hz & Hzo)) Hin.
  pose proof (resume_is_start input v Ht Hin Hw Hf) as Hs.
  assert (Hroutes' : routes ns ps l2 = incmp_block (l1 ++ (d, s) :: l2r) ++ []) by (rewrite app_nil_r; exact Hroutes).
  destruct (at_match_facts lang v l1 input Hs) as (Ap & Aca & Alog & Ai & Af & At & Aw & Aim).
  destruct (at_match_frame lang v l1 Hw) as (Bp & Bw & Bt & Bs).
  set (vI := snd (at_match lang v l1)) in *.
  destruct (match_st_facts _ Af) as (M1 & M2 & M3 & M4 & M5 & M6).
  pose proof (match_st_sbf (v_st vI)) as Ms.
  set (stM := match_st (v_st vI)) in *.
  destruct (pos_path_idx _ _ (eq_trans M4 Ap)) as [Hpp Hpi].
  set (st' := set_path_idx stM (s_path stM) j').
  assert (HwM : where_sym stM = nd) by (rewrite <- Hwhere; apply pos_where; exact (eq_trans M4 Ap)).
  pose proof (Happ stM (v_ca vI) Hpp (eq_trans Hpi Hidx)) as Ha. fold st' in Ha. rewrite HwM in Ha.
  destruct (first_match_fires_lemma fuel rs sep lang input l1 d s l2r [] v st' (v_ca vI) nd _
              Hs Wl1 Wd Ws Hnm Hsm Ha Hcode)
    as (Hrun & _ & _ & _ & _ & Fst & Fca & _).
  fold vI in Hrun, Fst, Fca.
  set (vF := fire_vm rs sep vI d s st' (v_ca vI) nd) in *.
  rewrite <- Hroutes' in Hrun.
  destruct Hrun as [Hrun|(f & Hflt & Hrun)]; [left; exact Hrun|].
  rewrite Hrun. rewrite app_nil_r.
  assert (HgF : forall i, getf (v_st vF) i = getf stM i) by (intros i; rewrite Fst; reflexivity).
  assert (Hsk : sk_inv input vF vF).
  { unfold sk_inv. rewrite !HgF. rewrite Fst.
    split; [rewrite M3 by fneq; exact At|]. split; [change (s_input st') with (s_input stM); rewrite M5; exact Ai|].
    split; [rewrite M3 by fneq; exact Aw|]. split; [exact M1|]. split; [exact M6|]. repeat split. }
  assert (Hguard : sk_guard input vF l2r) by (right; exact Hdist).
  destruct (scan_skip_post rs sep input l2r f (fst (at_match lang v l1)) (node_code k nt ns pt ps l2) vF Hsk Wl2r Hguard)
    as [Hsp|(f' & Hf' & Hsp)]; [left; exact Hsp|].
  rewrite Hsp. clear Hsp Hrun.
  set (lv := scan_skip (fst (at_match lang v l1), vF) l2r) in *.
  assert (Hcne : node_code k nt ns pt ps l2 <> []).
  { unfold node_code, prologue. destruct (encode_shape (ILoad k 0)) as (a0 & b0 & t0 & ->). discriminate. }
  rewrite run_post_ok_nonempty by exact Hcne.
  pose proof (scan_skip_inv input vF l2r (fst (at_match lang v l1)) vF Hsk) as (St & Si & Sw & Sm & Sf & Sp & Sc & Sr).
  fold lv in St, Si, Sw, Sm, Sf, Sp, Sc, Sr.
  assert (HwF : getf (v_st vF) FLAG_WAIT = false) by (rewrite HgF, M3 by fneq; exact Aw).
  destruct (scan_skip_frame l2r (fst (at_match lang v l1)) vF HwF) as (Gp & Gw & Gt & Gs). fold lv in Gp, Gw, Gt, Gs.
  assert (HvF : v_pg vF = vm_reset sep (v_pg vI) /\ v_w vF = v_w vI /\ v_taint vF = v_taint vI).
  { unfold vF, fire_vm. destruct (rs_observed rs); cbn [v_pg v_w v_taint vlog vset_pg vset_ca vset_st]; repeat split. }
  destruct HvF as (HpF & HwFv & HtFv).
  assert (Hfresh : fresh_page sep (v_pg (snd lv)) out).
  { rewrite Gp, HpF, Bp. apply (fresh_after_resume sep _ z); assumption. }
  assert (HcaS : v_ca (snd lv) = v_ca v) by (rewrite Sc, Fca; exact Aca).
  destruct (prologue_run rs sep k nt ns pt ps l2 val out f' (fst lv) (snd lv) Hwf Hsep Sf St Sw
              ltac:(rewrite HcaS; exact Hget) ltac:(rewrite HcaS; exact Hres) Hfresh)
    as [Hp|(vH & Hp & (KS & KC & KW & KT & KF & KTm & KI & KR) & WH & DH & NH)]; [left; exact Hp|].
  right. exists vH. split; [exact Hp|].
  (* everything but flags, path and index is what it was *)
  assert (Hall : same_but_flags (set_path_idx (v_st v) (s_path (v_st v)) j') (v_st vH)).
  { eapply sbf_trans; [|exact KS]. eapply sbf_trans; [|exact Gs]. rewrite Fst.
    destruct Bs as (B1 & B2 & B3 & B4 & B5 & B6). destruct Ms as (N1 & N2 & N3 & N4 & N5 & N6).
    unfold st', same_but_flags. cbn [s_code s_path s_bitsize s_idx s_lang s_input set_path_idx].
    repeat split; congruence. }
  destruct Hall as (H1 & H2 & H3 & H4 & H5 & H6).
  cbn [s_code s_path s_bitsize s_idx s_lang s_input set_path_idx] in H1, H2, H3, H4, H5, H6.
  split.
  - unfold at_page. split; [rewrite <- H2; exact Hpath|].
    split; [unfold where_sym; rewrite <- H2; exact Hwhere|].
    split; [symmetry; exact H4|].
    split; [exact KF|]. split; [exact KTm|]. split; [exact WH|].
    split; [rewrite KC, HcaS; exact Hget|]. split; [rewrite KC, HcaS; exact Hres|].
    destruct NH as (_ & _ & _ & (z1 & N1 & _ & _ & N4) & _). exists z1. split; assumption.
  - split; [exact NH|]. split; [exact DH|]. split; [symmetry; exact H2|].
    split; [rewrite <- H6; exact Hin|]. split; [symmetry; exact H5|].
    split; [symmetry; exact H1|]. split; [symmetry; exact H3|].
    split; [rewrite KC; exact HcaS|]. split; [rewrite KW, Gw, HwFv; exact Bw|rewrite KT, Gt, HtFv; exact Bt].
Qed.

Lemma apply_prev_ok st ca :
  s_path st <> [] -> s_idx st <> 0 ->
  apply_target t_prev st ca = (set_path_idx st (s_path st) (s_idx st - 1), ca, where_sym st, SOk).
Proof.
  intros H H0. rewrite apply_prev. unfold do_prev, st_previous. destruct (s_path st); [contradiction|].
  destruct (s_idx st =? 0) eqn:E; [apply N.eqb_eq in E; contradiction|reflexivity].
Qed.

(* the guards on the selectors: next and previous differ, next is not the wildcard, no other route
   repeats either of them *)
Definition sel_ok (ns ps : bytes) (l2 : list (bytes * bytes)) : Prop :=
  bytes_eqb ps ns = false /\ bytes_eqb ns ps = false /\ bytes_eqb ns star = false
  /\ distinct_after l2 ns = true /\ distinct_after l2 ps = true.

Lemma walk_next_run rs sep nd k nt ns pt ps l2 val out j fuel lang v :
  node_wf k nt ns pt ps l2 -> m_sep (vm_new_menu sep) = default_sep ->
  rs_code rs nd = Ok (node_code k nt ns pt ps l2) -> sel_ok ns ps l2 ->
  at_page nd k val out j v -> s_input (v_st v) = Some ns ->
  out_of_fuel (run fuel rs sep lang (routes ns ps l2) v) \/
  exists vH, run fuel rs sep lang (routes ns ps l2) v = (vH, routes ns ps l2, SOk)
    /\ at_page nd k val out (w16 (j + 1)) vH
    /\ node_page (v_pg vH) k val out (walk_browse nt ns pt ps)
    /\ getf (v_st vH) FLAG_DIRTY = true
    /\ s_path (v_st vH) = s_path (v_st v) /\ s_input (v_st vH) = Some ns /\ s_lang (v_st vH) = s_lang (v_st v)
    /\ s_code (v_st vH) = s_code (v_st v) /\ s_bitsize (v_st vH) = s_bitsize (v_st v)
    /\ v_ca vH = v_ca v /\ v_w vH = v_w v /\ v_taint vH = v_taint v.
Proof.
  intros Hwf Hsep Hcode (S1 & S2 & S3 & S4 & S5) Hat Hin.
  pose proof Hwf as (Wk & Wnt & Wns & Wpt & Wps & Wl2).
  pose proof Hat as (Hpath & _ & Hidx & _).
  apply (walk_move_run rs sep nd k nt ns pt ps l2 val out j (w16 (j + 1)) ns [] t_next ns ((t_prev, ps) :: l2));
    try assumption; try reflexivity.
  - constructor.
  - exact wf_sym_next.
  - constructor; [split; [exact wf_sym_prev|exact Wps]|exact Wl2].
  - unfold sel_match. rewrite bytes_eqb_refl. reflexivity.
  - unfold distinct_after. cbn [forallb snd]. rewrite S1. exact S4.
  - intros st ca Hp Hi. rewrite <- Hi. apply apply_next_ok. rewrite Hp. exact Hpath.
Qed.

Lemma walk_prev_run rs sep nd k nt ns pt ps l2 val out j fuel lang v :
  node_wf k nt ns pt ps l2 -> m_sep (vm_new_menu sep) = default_sep ->
  rs_code rs nd = Ok (node_code k nt ns pt ps l2) -> sel_ok ns ps l2 ->
  at_page nd k val out j v -> j <> 0 -> s_input (v_st v) = Some ps ->
  out_of_fuel (run fuel rs sep lang (routes ns ps l2) v) \/
  exists vH, run fuel rs sep lang (routes ns ps l2) v = (vH, routes ns ps l2, SOk)
    /\ at_page nd k val out (j - 1) vH
    /\ node_page (v_pg vH) k val out (walk_browse nt ns pt ps)
    /\ getf (v_st vH) FLAG_DIRTY = true
    /\ s_path (v_st vH) = s_path (v_st v) /\ s_input (v_st vH) = Some ps /\ s_lang (v_st vH) = s_lang (v_st v)
    /\ s_code (v_st vH) = s_code (v_st v) /\ s_bitsize (v_st vH) = s_bitsize (v_st v)
    /\ v_ca vH = v_ca v /\ v_w vH = v_w v /\ v_taint vH = v_taint v.
Proof.
  intros Hwf Hsep Hcode (S1 & S2 & S3 & S4 & S5) Hat Hj Hin.
  pose proof Hwf as (Wk & Wnt & Wns & Wpt & Wps & Wl2).
  pose proof Hat as (Hpath & _ & Hidx & _).
  apply (walk_move_run rs sep nd k nt ns pt ps l2 val out j (j - 1) ps [(t_next, ns)] t_prev ps l2);
    try assumption; try reflexivity.
  - constructor; [split; [exact wf_sym_next|exact Wns]|constructor].
  - exact wf_sym_prev.
  - unfold no_match, sel_match. cbn [forallb snd]. rewrite S2, S3. reflexivity.
  - unfold sel_match. rewrite bytes_eqb_refl. reflexivity.
  - intros st ca Hp Hi. rewrite <- Hi. apply apply_prev_ok; [rewrite Hp; exact Hpath|rewrite Hi; exact Hj].
Qed.

(* ================================================================================== *)
(* Part 3 — Vm.Render and the engine                                                     *)
(* ================================================================================== *)

Lemma page_render_sizer c gt gm pg sym idx z out :
  p_sizer pg = Some z -> z_out z = out ->
  exists z', p_sizer (snd (page_render c gt gm pg sym idx)) = Some z' /\ z_out z' = out.
Proof.
  intros Hz Ho. pose proof (SizeProofs.page_render_out c gt gm pg sym idx) as H.
  unfold page_out in H. rewrite Hz in H. cbn [option_map] in H.
  destruct (p_sizer (snd (page_render c gt gm pg sym idx))) as [z'|]; [|discriminate].
  exists z'. split; [reflexivity|]. cbn [option_map] in H. congruence.
Qed.

(* Vm.Render on the waiting machine, given what Page.Render answers *)
Lemma vm_render_waiting fuel rs sep L v nd r pg' :
  getf (v_st v) FLAG_DIRTY = true -> where_sym (v_st v) = nd -> nd <> [] ->
  page_render (v_ca v) (rs_tpl rs L) (rs_menu rs L) (v_pg v) nd (s_idx (v_st v)) = (r, pg') ->
  r <> Err EBrowse ->
  vm_render fuel rs sep L v
  = (vlog (vset_pg (vset_st v (resetf (v_st v) FLAG_DIRTY)) pg') (EvRender nd (s_idx (v_st v)) L), rres_of r).
Proof.
  intros Hd Hw Hn Hr Hb. unfold vm_render. rewrite Hd. cbn [negb].
  change (where_sym (v_st (vset_st v (resetf (v_st v) FLAG_DIRTY)))) with (where_sym (v_st v)). rewrite Hw.
  destruct nd as [|x t]; [congruence|].
  cbn [v_st v_ca v_pg vset_st]. change (s_idx (resetf (v_st v) FLAG_DIRTY)) with (s_idx (v_st v)).
  rewrite Hr. destruct r as [o|e|p]; try reflexivity. destruct e; try reflexivity. congruence.
Qed.

(* ---- the engine between two requests of the walk ---------------------------------------------------- *)
Definition steady (c : config) (nd k val : bytes) (code : bytes) (ca : cache) (j : N) (e : engine) : Prop :=
  e_initd e = true /\ e_execd e = true /\ e_exiting e = false /\ e_exit e = []
  /\ s_code (v_st (e_v e)) = code /\ getf (v_st (e_v e)) FLAG_DIRTY = false
  /\ v_ca (e_v e) = ca /\ at_page nd k val (c_out c) j (e_v e).

Lemma eng_flush_idle fuel rs c e :
  e_execd e = true -> getf (v_st (e_v e)) FLAG_DIRTY = false -> e_exit e = [] -> e_exiting e = false ->
  eng_flush fuel rs c e = (e, [], FOk).
Proof.
  intros Hx Hd Hex Hexi. unfold eng_flush. rewrite Hx. cbn [negb].
  unfold vm_render. rewrite Hd. cbn [negb]. cbn [e_exit e_exiting eset_v]. rewrite Hex, Hexi.
  change (len (@nil N)) with 0. rewrite Bool.andb_false_r. cbn [andb List.app].
  destruct e; reflexivity.
Qed.

Lemma eng_flush_page fuel rs c e v' r :
  e_execd e = true -> e_exit e = [] -> e_exiting e = false ->
  vm_render fuel rs (c_sep c) (s_lang (v_st (e_v e))) (e_v e) = (v', r) ->
  (forall n, r <> RRPanic n) -> r <> RRFuel ->
  eng_flush fuel rs c e
  = (eset_v e v', match r with RROk o => o | _ => [] end, match r with RRErr er => FErr er | _ => FOk end).
Proof.
  intros Hx Hex Hexi Hr Hp Hf. unfold eng_flush. rewrite Hx. cbn [negb]. rewrite Hr.
  destruct r as [o|er|n|]; try (exfalso; eapply Hp; reflexivity); try congruence;
    cbn [e_exit e_exiting eset_v]; rewrite Hex, Hexi; change (len (@nil N)) with 0;
    rewrite Bool.andb_false_r; cbn [andb]; rewrite ?app_nil_r; reflexivity.
Qed.

(* Exec of a steady engine with a valid, non-empty input: init has nothing to do, the pending code is run *)
Lemma eng_exec_steady fuel rs c e input nd k val code ca j :
  steady c nd k val code ca j e -> code <> [] ->
  0 < len input -> len input <= INPUT_LIMIT -> valid_input_b input = true ->
  eng_exec fuel rs c e input
  = eng_exec_inner fuel rs c
      (mkEng (vset_st (e_v e) (set_input_raw (v_st (e_v e)) (Some input))) true [] false false).
Proof.
  intros (Hi & Hx & Hexi & Hex & Hc & Hd & Hca & Hat) Hcne Hl0 Hl Hv.
  unfold eng_exec, eng_init. rewrite Hx. rewrite (eng_flush_idle fuel rs c e Hx Hd Hex Hexi).
  cbn [stat_of_f e_initd e_v]. rewrite Hi. cbn [negb].
  assert (Hz : (len input =? 0) = false) by (apply N.eqb_neq; lia).
  rewrite Hz, Bool.andb_false_r.
  assert (Hp : (0 <? len input) = true) by (apply N.ltb_lt; exact Hl0).
  rewrite Hp, Hv. cbn [negb andb e_v].
  unfold set_input. destruct (INPUT_LIMIT <? len input) eqn:E; [apply N.ltb_lt in E; lia|].
  reflexivity.
Qed.

Lemma eng_exec_inner_ok fuel rs c e code v1 b :
  s_code (v_st (e_v e)) = code -> code <> [] ->
  run fuel rs (c_sep c) (s_lang (v_st (e_v e))) code (vset_st (e_v e) (set_code (v_st (e_v e)) [])) = (v1, b, SOk) ->
  getf (v_st v1) FLAG_TERMINATE = false -> b <> [] ->
  eng_exec_inner fuel rs c e
  = (mkEng (vset_st v1 (set_code (v_st v1) b)) (e_initd e) (e_exit e) (e_exiting e) true, true, SOk).
Proof.
  intros Hc Hne Hr Ht Hb. unfold eng_exec_inner. rewrite Hc.
  destruct code as [|x code']; [congruence|].
  change (s_lang (v_st (vset_st (e_v e) (set_code (v_st (e_v e)) [])))) with (s_lang (v_st (e_v e))).
  rewrite Hr, Ht. unfold set_code_eng. destruct b as [|y b']; [congruence|]. reflexivity.
Qed.

(* ---- the application around the node, and the guards of the page-level lift --------------------------- *)
Definition walk_app (rs : rsrc) (c : config) (nd k nt ns pt ps : bytes) (l2 : list (bytes * bytes))
  (val : bytes) (ca : cache) (src : bytes) (a b : list tpl_item) (xa xb : bytes) : Prop :=
  node_wf k nt ns pt ps l2 /\ m_sep (vm_new_menu (c_sep c)) = default_sep
  /\ rs_code rs nd = Ok (node_code k nt ns pt ps l2) /\ sel_ok ns ps l2 /\ nd <> []
  /\ valid_input_b ns = true /\ valid_input_b ps = true
  /\ (forall L, page_ok ca (rs_tpl rs L) (rs_menu rs L) nd k val (c_out c) (walk_browse nt ns pt ps) src a b xa xb).

Lemma wf_sym_len s : wf_sym s -> 0 < len s /\ len s <= INPUT_LIMIT.
Proof. intros (_ & H1 & H2). unfold INPUT_LIMIT. lia. Qed.

(* the machine Exec runs the pending code on *)
Lemma at_page_exec nd k val out j v input :
  at_page nd k val out j v ->
  at_page nd k val out j (vset_st (vset_st v (set_input_raw (v_st v) (Some input)))
                            (set_code (v_st (vset_st v (set_input_raw (v_st v) (Some input)))) [])).
Proof. intros H. exact H. Qed.

(* one lateral request of the walk, whatever the direction *)
Lemma engine_move_step fuel rs c e nd k nt ns pt ps l2 val ca src a b xa xb j j' input (res : res bytes) :
  walk_app rs c nd k nt ns pt ps l2 val ca src a b xa xb ->
  steady c nd k val (routes ns ps l2) ca j e ->
  wf_sym input -> valid_input_b input = true ->
  (* the VM-level step for this input *)
  (forall lang v, at_page nd k val (c_out c) j v -> s_input (v_st v) = Some input ->
     out_of_fuel (run fuel rs (c_sep c) lang (routes ns ps l2) v) \/
     exists vH, run fuel rs (c_sep c) lang (routes ns ps l2) v = (vH, routes ns ps l2, SOk)
       /\ at_page nd k val (c_out c) j' vH
       /\ node_page (v_pg vH) k val (c_out c) (walk_browse nt ns pt ps)
       /\ getf (v_st vH) FLAG_DIRTY = true
       /\ s_path (v_st vH) = s_path (v_st v) /\ s_input (v_st vH) = Some input /\ s_lang (v_st vH) = s_lang (v_st v)
       /\ s_code (v_st vH) = s_code (v_st v) /\ s_bitsize (v_st vH) = s_bitsize (v_st v)
       /\ v_ca vH = v_ca v /\ v_w vH = v_w v /\ v_taint vH = v_taint v) ->
  (* what Page.Render answers for index j' on the node's page *)
  (forall L pg, node_page pg k val (c_out c) (walk_browse nt ns pt ps) ->
     exists pg', page_render ca (rs_tpl rs L) (rs_menu rs L) pg nd j' = (res, pg')) ->
  res <> Err EBrowse -> (forall m, res <> Panic m) ->
  r_exec (snd (request_long fuel rs c e input)) = SFuel \/
  (snd (request_long fuel rs c e input)
     = mkResp true SOk (match res with Ok o => o | _ => [] end) (match res with Err er => FErr er | _ => FOk end)
   /\ steady c nd k val (routes ns ps l2) ca j' (fst (request_long fuel rs c e input))
   /\ s_path (v_st (e_v (fst (request_long fuel rs c e input)))) = s_path (v_st (e_v e))
   /\ v_w (e_v (fst (request_long fuel rs c e input))) = v_w (e_v e)).
Proof.
  intros (Hwf & Hsep & Hcode & Hsel & Hnd & Hvns & Hvps & Hpok) Hst Win Hvin Hstep Hrender Hnb Hnp.
  pose proof Hst as (Hi & Hx & Hexi & Hex & Hc & Hd & Hca & Hat).
  destruct (wf_sym_len input Win) as [Hl0 Hl].
  pose proof (routes_ne ns ps l2) as Hrne.
  unfold request_long.
  rewrite (eng_exec_steady fuel rs c e input nd k val _ ca j Hst Hrne Hl0 Hl Hvin).
  set (v0 := vset_st (e_v e) (set_input_raw (v_st (e_v e)) (Some input))).
  set (e1 := mkEng v0 true [] false false).
  set (vr := vset_st (e_v e1) (set_code (v_st (e_v e1)) [])).
  assert (Hatr : at_page nd k val (c_out c) j vr) by exact Hat.
  destruct (Hstep (s_lang (v_st (e_v e1))) vr Hatr eq_refl)
    as [Hfu|(vH & Hrun & AtH & NpH & DH & PH & IH & LH & CH & BH & CaH & WH & TH)].
  - left. unfold eng_exec_inner. change (s_code (v_st (e_v e1))) with (s_code (v_st (e_v e))). rewrite Hc.
    destruct (routes ns ps l2) as [|x0 t0] eqn:Er; [congruence|]. fold vr.
    change (s_lang (v_st vr)) with (s_lang (v_st (e_v e1))).
    unfold out_of_fuel in Hfu.
    destruct (run fuel rs (c_sep c) (s_lang (v_st (e_v e1))) (x0 :: t0) vr) as [[v1 b1] s1]. cbn [snd] in Hfu. subst s1.
    reflexivity.
  - right.
    pose proof AtH as (_ & _ & _ & _ & TmH & _).
    rewrite (eng_exec_inner_ok fuel rs c e1 (routes ns ps l2) vH (routes ns ps l2) Hc Hrne Hrun TmH Hrne).
    cbn [e_initd e_exit e_exiting e1].
    set (v2 := vset_st vH (set_code (v_st vH) (routes ns ps l2))).
    set (e2 := mkEng v2 true [] false true).
    (* Flush: the page *)
    pose proof AtH as (PaH & WhH & IdH & FH & _ & WaH & GH & RH & (zH & ZH & ZoH)).
    set (L := s_lang (v_st (e_v e2))).
    assert (Hcav : v_ca v2 = ca) by (change (v_ca v2) with (v_ca vH); rewrite CaH; exact Hca).
    destruct (Hrender L (v_pg v2) NpH) as [pg' Hpr]. rewrite <- Hcav in Hpr.
    assert (Hidx2 : s_idx (v_st v2) = j') by (change (s_idx (v_st v2)) with (s_idx (v_st vH)); exact IdH).
    rewrite <- Hidx2 in Hpr.
    pose proof (vm_render_waiting fuel rs (c_sep c) L v2 nd _ pg' DH WhH Hnd Hpr Hnb) as Hvr.
    rewrite (eng_flush_page fuel rs c e2 _ _ eq_refl eq_refl eq_refl Hvr
               ltac:(intros m E; destruct res as [o|er|q]; cbn in E; try discriminate; exact (Hnp q eq_refl))
               ltac:(destruct res; discriminate)).
    cbn [snd fst].
    replace (match rres_of res with RROk o => o | _ => [] end) with (match res with Ok o => o | _ => [] end) by (destruct res; reflexivity).
    replace (match rres_of res with RRErr er => FErr er | _ => FOk end) with (match res with Err er => FErr er | _ => FOk end)
      by (destruct res; reflexivity).
    split; [reflexivity|]. split; [|split].
    + unfold steady. cbn [e_initd e_execd e_exiting e_exit e_v eset_v e2 v_st v_ca v_pg vlog vset_pg vset_st].
      split; [reflexivity|]. split; [reflexivity|]. split; [reflexivity|]. split; [reflexivity|].
      split; [reflexivity|]. split; [apply getf_resetf_same|]. split; [exact Hcav|].
      unfold at_page. cbn [v_st v_ca v_pg vlog vset_pg vset_st].
      split; [exact PaH|]. split; [exact WhH|]. split; [exact IdH|].
      split; [apply flags_ok_resetf; exact FH|].
      split; [rewrite getf_resetf_other by fneq; exact TmH|].
      split; [rewrite getf_resetf_other by fneq; exact WaH|].
      split; [exact GH|]. split; [exact RH|].
      pose proof (page_render_sizer (v_ca v2) (rs_tpl rs L) (rs_menu rs L) (v_pg v2) nd (s_idx (v_st v2)) zH (c_out c) ZH ZoH) as Hz.
      rewrite Hpr in Hz. exact Hz.
    + cbn [e_v eset_v v_st vlog vset_pg vset_st]. exact PH.
    + cbn [e_v eset_v v_w vlog vset_pg vset_st]. exact WH.
Qed.

(* ---- "next" below the last page: the answer is page j+1 ------------------------------------------------- *)
Lemma engine_next_step fuel rs c e nd k nt ns pt ps l2 val ca src a b xa xb r n cs pages j p :
  walk_app rs c nd k nt ns pt ps l2 val ca src a b xa xb ->
  pages_of_node val (c_out c) (walk_browse nt ns pt ps) xa xb r n cs pages ->
  steady c nd k val (routes ns ps l2) ca j e ->
  nth_error pages (N.to_nat (j + 1)) = Some p ->
  r_exec (snd (request_long fuel rs c e ns)) = SFuel \/
  (snd (request_long fuel rs c e ns)
     = mkResp true SOk (page_text xa xb (walk_browse nt ns pt ps) n (j + 1) p) FOk
   /\ steady c nd k val (routes ns ps l2) ca (j + 1) (fst (request_long fuel rs c e ns))
   /\ s_path (v_st (e_v (fst (request_long fuel rs c e ns)))) = s_path (v_st (e_v e))
   /\ v_w (e_v (fst (request_long fuel rs c e ns))) = v_w (e_v e)).
Proof.
  intros Happ Hpn Hst Enth.
  pose proof Happ as (Hwf & Hsep & Hcode & Hsel & Hnd & Hvns & Hvps & Hpok).
  pose proof Hwf as (Wk & Wnt & Wns & Wpt & Wps & Wl2).
  pose proof Hpn as (_ & _ & Hlp & _ & Hn16 & _).
  assert (Hlt : j + 1 < n).
  { assert (Hsome : nth_error pages (N.to_nat (j + 1)) <> None) by congruence. apply nth_error_Some in Hsome.
    unfold len in Hlp. lia. }
  assert (Hw16 : w16 (j + 1) = j + 1) by (apply w16_small; lia).
  pose proof (engine_move_step fuel rs c e nd k nt ns pt ps l2 val ca src a b xa xb j (j + 1) ns
                (Ok (page_text xa xb (walk_browse nt ns pt ps) n (j + 1) p)) Happ Hst Wns Hvns) as H.
  apply H; clear H; try discriminate.
  - intros lang v Hat Hin. rewrite <- Hw16.
    apply (walk_next_run rs (c_sep c) nd k nt ns pt ps l2 val (c_out c) j fuel lang v); assumption.
  - intros L pg Hnp.
    destruct (node_page_render ca (rs_tpl rs L) (rs_menu rs L) pg nd k val (c_out c) (walk_browse nt ns pt ps)
                src a b xa xb r n cs pages (N.to_nat (j + 1)) p (Hpok L) Hnp Hpn Enth) as [pg' Hr].
    rewrite N2Nat.id in Hr. exists pg'. exact Hr.
Qed.

(* ---- "previous" above the first page: the answer is page j-1 --------------------------------------------- *)
Lemma engine_prev_step fuel rs c e nd k nt ns pt ps l2 val ca src a b xa xb r n cs pages j p :
  walk_app rs c nd k nt ns pt ps l2 val ca src a b xa xb ->
  pages_of_node val (c_out c) (walk_browse nt ns pt ps) xa xb r n cs pages ->
  steady c nd k val (routes ns ps l2) ca j e -> j <> 0 ->
  nth_error pages (N.to_nat (j - 1)) = Some p ->
  r_exec (snd (request_long fuel rs c e ps)) = SFuel \/
  (snd (request_long fuel rs c e ps)
     = mkResp true SOk (page_text xa xb (walk_browse nt ns pt ps) n (j - 1) p) FOk
   /\ steady c nd k val (routes ns ps l2) ca (j - 1) (fst (request_long fuel rs c e ps))
   /\ s_path (v_st (e_v (fst (request_long fuel rs c e ps)))) = s_path (v_st (e_v e))
   /\ v_w (e_v (fst (request_long fuel rs c e ps))) = v_w (e_v e)).
Proof.
  intros Happ Hpn Hst Hj Enth.
  pose proof Happ as (Hwf & Hsep & Hcode & Hsel & Hnd & Hvns & Hvps & Hpok).
  pose proof Hwf as (Wk & Wnt & Wns & Wpt & Wps & Wl2).
  pose proof (engine_move_step fuel rs c e nd k nt ns pt ps l2 val ca src a b xa xb j (j - 1) ps
                (Ok (page_text xa xb (walk_browse nt ns pt ps) n (j - 1) p)) Happ Hst Wps Hvps) as H.
  apply H; clear H; try discriminate.
  - intros lang v Hat Hin.
    apply (walk_prev_run rs (c_sep c) nd k nt ns pt ps l2 val (c_out c) j fuel lang v); assumption.
  - intros L pg Hnp.
    destruct (node_page_render ca (rs_tpl rs L) (rs_menu rs L) pg nd k val (c_out c) (walk_browse nt ns pt ps)
                src a b xa xb r n cs pages (N.to_nat (j - 1)) p (Hpok L) Hnp Hpn Enth) as [pg' Hr].
    rewrite N2Nat.id in Hr. exists pg'. exact Hr.
Qed.

(* ---- the ends ------------------------------------------------------------------------------------------------ *)
(* "next" on the last page: the index advances, Flush reports an error and delivers no content *)
Lemma engine_next_on_last_page fuel rs c e nd k nt ns pt ps l2 val ca src a b xa xb r n cs pages j :
  walk_app rs c nd k nt ns pt ps l2 val ca src a b xa xb ->
  pages_of_node val (c_out c) (walk_browse nt ns pt ps) xa xb r n cs pages ->
  steady c nd k val (routes ns ps l2) ca j e -> j + 1 = n ->
  r_exec (snd (request_long fuel rs c e ns)) = SFuel \/
  (snd (request_long fuel rs c e ns) = mkResp true SOk [] (FErr EGen)
   /\ steady c nd k val (routes ns ps l2) ca n (fst (request_long fuel rs c e ns))
   /\ s_path (v_st (e_v (fst (request_long fuel rs c e ns)))) = s_path (v_st (e_v e))
   /\ v_w (e_v (fst (request_long fuel rs c e ns))) = v_w (e_v e)).
Proof.
  intros Happ Hpn Hst Hjn.
  pose proof Happ as (Hwf & Hsep & Hcode & Hsel & Hnd & Hvns & Hvps & Hpok).
  pose proof Hwf as (Wk & Wnt & Wns & Wpt & Wps & Wl2).
  pose proof Hpn as (_ & _ & Hlp & _ & Hn16 & _).
  assert (Hw16 : w16 (j + 1) = n) by (rewrite Hjn; apply w16_small; lia).
  pose proof (engine_move_step fuel rs c e nd k nt ns pt ps l2 val ca src a b xa xb j n ns (Err EGen) Happ Hst Wns Hvns) as H.
  apply H; clear H; try discriminate.
  - intros lang v Hat Hin. rewrite <- Hw16.
    apply (walk_next_run rs (c_sep c) nd k nt ns pt ps l2 val (c_out c) j fuel lang v); assumption.
  - intros L pg Hnp.
    apply (node_page_past_end ca (rs_tpl rs L) (rs_menu rs L) pg nd k val (c_out c) (walk_browse nt ns pt ps)
             src a b xa xb r n cs pages n (Hpok L) Hnp Hpn); lia.
Qed.

(* "previous" on the first page is no move: the input counts as invalid and the run goes to the catch
   node with the error "invalid input" on the page (RoutingProofs.prev_on_first_page_catch_lemma) *)
Lemma walk_prev_on_first_page fuel rs sep lang nd k nt ns pt ps l2 val out v :
  node_wf k nt ns pt ps l2 -> sel_ok ns ps l2 -> nd <> [] -> nd <> catch_sym ->
  at_page nd k val out 0 v -> s_input (v_st v) = Some ps ->
  let vI := snd (at_match lang v [(t_next, ns)]) in
  let vN := noprev_vm vI t_prev ps (match_st (v_st vI)) (v_ca vI) in
  let lv := scan_skip (fst (at_match lang v [(t_next, ns)]), vN) l2 in
  out_of_fuel (run fuel rs sep lang (routes ns ps l2) v) \/
  exists f, (f < fuel)%nat /\
    run fuel rs sep lang (routes ns ps l2) v =
    run f rs sep (fst lv) move_catch_code
        (vset_pg (snd lv) (page_with_error (v_pg (snd lv)) (Some (msg_invalid_input (Some ps))))).
Proof.
  intros (Wk & Wnt & Wns & Wpt & Wps & Wl2) (S1 & S2 & S3 & S4 & S5) Hnd Hnc
         (Hpath & Hwhere & Hidx & Hf & Ht & Hw & _) Hin.
  apply (prev_on_first_page_catch_lemma fuel rs sep lang ps [(t_next, ns)] ps l2 v).
  - apply resume_is_start; assumption.
  - constructor; [split; [exact wf_sym_next|exact Wns]|constructor].
  - exact Wps.
  - exact Wl2.
  - unfold no_match, sel_match. cbn [forallb snd]. rewrite S2, S3. reflexivity.
  - unfold sel_match. rewrite bytes_eqb_refl. reflexivity.
  - rewrite Hwhere. exact Hnd.
  - exact Hidx.
  - rewrite Hwhere. exact Hnc.
Qed.

(* ---- the walk: m successive "next" requests from page j ------------------------------------------------------- *)
Fixpoint nexts (m : nat) (fuel : nat) (rs : rsrc) (c : config) (e : engine) (ns : bytes) : engine * list response :=
  match m with
  | O => (e, [])
  | S m' =>
    let '(e1, r1) := request_long fuel rs c e ns in
    let '(e2, rl) := nexts m' fuel rs c e1 ns in
    (e2, r1 :: rl)
  end.

Definition page_resp (xa xb : bytes) (br : browse) (n : N) (pages : list (list bytes)) (i : N) : response :=
  mkResp true SOk (page_text xa xb br n i (nth (N.to_nat i) pages [])) FOk.

Lemma engine_walk fuel rs c nd k nt ns pt ps l2 val ca src a b xa xb r n cs pages :
  walk_app rs c nd k nt ns pt ps l2 val ca src a b xa xb ->
  pages_of_node val (c_out c) (walk_browse nt ns pt ps) xa xb r n cs pages ->
  forall m j e,
  steady c nd k val (routes ns ps l2) ca j e -> j + N.of_nat m < n ->
  (exists resp, In resp (snd (nexts m fuel rs c e ns)) /\ r_exec resp = SFuel) \/
  (snd (nexts m fuel rs c e ns)
     = map (fun i => page_resp xa xb (walk_browse nt ns pt ps) n pages (j + N.of_nat i)) (seq 1 m)
   /\ steady c nd k val (routes ns ps l2) ca (j + N.of_nat m) (fst (nexts m fuel rs c e ns))
   /\ s_path (v_st (e_v (fst (nexts m fuel rs c e ns)))) = s_path (v_st (e_v e))
   /\ v_w (e_v (fst (nexts m fuel rs c e ns))) = v_w (e_v e)).
Proof.
  intros Happ Hpn. pose proof Hpn as (_ & _ & Hlp & _).
  induction m as [|m IH]; intros j e Hst Hlt.
  - right. cbn [nexts fst snd seq map N.of_nat]. rewrite N.add_0_r. split; [reflexivity|]. split; [exact Hst|]. split; reflexivity.
  - cbn [nexts].
    assert (Enth : nth_error pages (N.to_nat (j + 1)) = Some (nth (N.to_nat (j + 1)) pages [])).
    { apply nth_error_nth'. unfold len in Hlp. lia. }
    destruct (engine_next_step fuel rs c e nd k nt ns pt ps l2 val ca src a b xa xb r n cs pages j _ Happ Hpn Hst Enth)
      as [Hfu|(Hresp & Hst1 & Hp1 & Hw1)].
    + left. destruct (request_long fuel rs c e ns) as [e1 r1]. cbn [snd] in Hfu.
      destruct (nexts m fuel rs c e1 ns) as [e2 rl]. exists r1. split; [left; reflexivity|exact Hfu].
    + destruct (request_long fuel rs c e ns) as [e1 r1]. cbn [fst snd] in Hresp, Hst1, Hp1, Hw1.
      destruct (IH (j + 1) e1 Hst1 ltac:(lia)) as [(resp & Hin & Hf)|(Hrl & Hst2 & Hp2 & Hw2)].
      * left. destruct (nexts m fuel rs c e1 ns) as [e2 rl]. exists resp. split; [right; exact Hin|exact Hf].
      * right. destruct (nexts m fuel rs c e1 ns) as [e2 rl]. cbn [fst snd] in *.
        split; [|split; [|split; congruence]].
        -- rewrite Hresp, Hrl. cbn [seq map]. rewrite <- (seq_shift m 1), map_map.
           replace (j + N.of_nat 1) with (j + 1) by lia. unfold page_resp at 2. f_equal.
           apply map_ext. intros i.
           replace (j + 1 + N.of_nat i) with (j + N.of_nat (S i)) by lia. reflexivity.
        -- replace (j + N.of_nat (S m)) with (j + 1 + N.of_nat m) by lia. exact Hst2.
Qed.

(* ================================================================================== *)
(* Part 4 — a concrete application meeting every hypothesis (non-vacuity)                 *)
(* ================================================================================== *)
Lemma wf_symb_ok s : wf_symb s = true -> wf_sym s.
Proof.
  unfold wf_symb, wf_sym, bytes_okb, bytes_ok. intros H.
  apply andb_true_iff in H as [H H3]. apply andb_true_iff in H as [H1 H2].
  split; [|split; [apply N.leb_le; exact H2|apply N.leb_le; exact H3]].
  apply Forall_forall. intros x Hx. rewrite forallb_forall in H1. apply N.ltb_lt. apply H1. exact Hx.
Qed.

Definition ex_val : bytes :=
  s2b "aaaa" ++ [nl] ++ s2b "bbbb" ++ [nl] ++ s2b "cccc" ++ [nl] ++ s2b "dddd" ++ [nl] ++ s2b "eeee" ++ [nl] ++ s2b "ffff".
Definition ex_src : bytes := s2b "T" ++ [nl] ++ s2b "{{.foo}}".
Definition ex_code : bytes := node_code (s2b "foo") (s2b "next") (s2b "11") (s2b "back") (s2b "22") [].
Definition ex_app : VmModel.app :=
  mkApp [(s2b "root", ex_code)] [(s2b "root", ex_src)] [] [(s2b "foo", [mkFres ex_val false 0 [] [] false])].
Definition ex_cfg : config := mkCfg 26 (s2b "root") 0 0 [] [] false None.
Definition ex_rs : rsrc := app_rsrc ex_app.
(* the engine after the request that enters the node (page 0) *)
Definition ex_e0 : engine := fst (request_long 100 ex_rs ex_cfg (new_engine ex_cfg None [] []) []).
Definition ex_ca : cache := v_ca (e_v ex_e0).
Definition ex_br : browse := walk_browse (s2b "next") (s2b "11") (s2b "back") (s2b "22").

Lemma ex_walk_app :
  walk_app ex_rs ex_cfg (s2b "root") (s2b "foo") (s2b "next") (s2b "11") (s2b "back") (s2b "22") []
           ex_val ex_ca ex_src [TLit (s2b "T" ++ [nl])] [] (s2b "T" ++ [nl]) [].
Proof.
  unfold walk_app.
  split; [repeat split; try (apply wf_symb_ok; reflexivity); constructor|].
  split; [reflexivity|]. split; [reflexivity|]. split; [repeat split|]. split; [discriminate|].
  split; [reflexivity|]. split; [reflexivity|].
  intros L. unfold page_ok.
  split; [discriminate|]. split; [reflexivity|]. split; [reflexivity|]. split; [reflexivity|].
  split.
  { intros x. unfold ex_rs, app_rsrc. cbn [rs_tpl]. destruct (lookup_lang (a_tpl ex_app) x L); reflexivity. }
  split.
  { destruct L as [l|]; vm_compute; reflexivity. }
  split; [reflexivity|]. split; [reflexivity|]. split; [reflexivity|].
  split; [intros w _; split; reflexivity|].
  split; [reflexivity|]. split; [reflexivity|].
  split; [destruct L as [l|]; reflexivity|]. split; [destruct L as [l|]; reflexivity|].
  split; [vm_compute; discriminate|].
  split; [reflexivity|]. split; [reflexivity|]. split; [reflexivity|]. reflexivity.
Qed.

Lemma ex_steady : steady ex_cfg (s2b "root") (s2b "foo") ex_val (routes (s2b "11") (s2b "22") []) ex_ca 0 ex_e0.
Proof.
  unfold steady. split; [reflexivity|]. split; [reflexivity|]. split; [reflexivity|]. split; [reflexivity|].
  split; [vm_compute; reflexivity|]. split; [reflexivity|]. split; [reflexivity|].
  unfold at_page. split; [vm_compute; discriminate|]. split; [reflexivity|]. split; [reflexivity|].
  split; [unfold flags_ok; vm_compute; lia|]. split; [reflexivity|]. split; [reflexivity|].
  split; [reflexivity|]. split; [reflexivity|].
  eexists. split; [vm_compute; reflexivity|reflexivity].
Qed.

Lemma ex_pages : exists r cs pages, pages_of_node ex_val 26 ex_br (s2b "T" ++ [nl]) [] r 4 cs pages.
Proof.
  destruct ex_walk_app as (_ & _ & _ & _ & _ & _ & _ & Hpok).
  destruct (node_pages_exist _ _ _ _ _ _ _ _ _ _ _ _ _ (Hpok None)) as (r & n & cs & pages & Hpn).
  pose proof Hpn as (Hj & _). vm_compute in Hj. injection Hj as _ Hn _. subst n.
  exists r, cs, pages. exact Hpn.
Qed.
