(* LoopProofs.v — engine.Loop (model/LoopModel.v) in terms of the request driver request_long.

   loop_output_is_requests   what Loop writes / returns is determined request by request: the
                             concatenation of resp_chunk over loop_prefix of the responses of
                             request_long along initial :: trimmed lines; the status is prefix_stat.
   loop_every_chunk_fits     C01 for Loop, from SizeProofs.long_responses_fit32.
   loop_stops_at_end         once a request does not go on (cont = false, or an error), nothing that
                             follows in the reader has any effect (written bytes, status, engine).
   loop_drops_unterminated_tail   the bytes after the last LF are never executed. *)
From Coq Require Import Lia ZifyN ZifyNat ZifyBool.
From Vise Require Import Bytes Errors Consts EngConsts Codec CacheModel StateModel NavModel RenderModel VmModel EngineModel
  LoopModel CorrBase EngineCorr RenderProofs SizeProofs.
Local Open Scope N_scope.

(* ================================================================ 1. request by request ===== *)
Lemma long_resps_long_responses fuel rs c : forall inputs e,
  long_resps fuel rs c e inputs = long_responses rs c e (map (pair fuel) inputs).
Proof.
  induction inputs as [|i inputs IH]; intros e; [reflexivity|].
  cbn [long_resps map long_responses].
  destruct (request_long fuel rs c e i) as [e' r]. rewrite IH. reflexivity.
Qed.

Lemma nl_after_nil : nl_after [] = [].
Proof. reflexivity. Qed.

(* unfold the per-request classification on a concrete response record *)
Ltac lnorm :=
  cbn [loop_prefix prefix_stat all_go_on fst snd];
  unfold resp_goes_on, resp_lstat;
  cbn [r_cont r_exec r_flush r_out andb];
  rewrite ?Bool.andb_true_r, ?Bool.andb_false_r.
Ltac lchunk :=
  cbn [map List.concat]; unfold resp_chunk; cbn [r_exec r_flush r_out]; rewrite ?app_nil_r.

(* the for loop *)
Lemma loop_rest_requests fuel rs c : forall lines e,
  fst (fst (loop_rest fuel rs c e lines))
    = List.concat (map resp_chunk (loop_prefix false (long_resps fuel rs c e lines)))
  /\ snd (fst (loop_rest fuel rs c e lines)) = prefix_stat false (long_resps fuel rs c e lines).
Proof.
  induction lines as [|ln rest IH]; intros e; [split; reflexivity|].
  cbn [loop_rest long_resps]. unfold request_long.
  destruct (eng_exec fuel rs c e ln) as [[e1 cont] s].
  destruct s as [|er msg|n|].
  - destruct (eng_flush fuel rs c e1) as [[e2 out] f].
    destruct f as [|er|n|]; lnorm.
    + destruct cont.
      * specialize (IH e2). destruct IH as [IHw IHs].
        destruct (loop_rest fuel rs c e2 rest) as [[w st] e3]. cbn [fst snd] in *.
        lchunk. rewrite IHw, IHs. split; reflexivity.
      * lchunk. split; reflexivity.
    + lchunk. split; reflexivity.
    + lchunk. split; reflexivity.
    + lchunk. split; reflexivity.
  - destruct (eng_flush fuel rs c e1) as [[e2 out] f]. lnorm. lchunk. split; reflexivity.
  - lnorm. lchunk. split; reflexivity.
  - lnorm. lchunk. split; reflexivity.
Qed.

(* (a) Loop *)
Theorem loop_output_is_requests rs c fuel e initial reader :
  let resps := long_resps fuel rs c e (loop_inputs initial reader) in
  fst (fst (eng_loop rs c fuel e initial reader)) = List.concat (map resp_chunk (loop_prefix true resps))
  /\ snd (fst (eng_loop rs c fuel e initial reader)) = prefix_stat true resps.
Proof.
  unfold eng_loop, loop_inputs. cbn [long_resps]. unfold request_long.
  destruct (eng_exec fuel rs c e (loop_initial initial)) as [[e1 cont] s].
  destruct s as [|er msg|n|].
  - destruct (eng_flush fuel rs c e1) as [[e2 out] f].
    pose proof (loop_rest_requests fuel rs c (fst (loop_lines reader)) e2) as [Hw Hs].
    destruct f as [|er|n|]; lnorm.
    + destruct cont.
      * destruct (loop_rest fuel rs c e2 (fst (loop_lines reader))) as [[w st] e3]. cbn [fst snd] in *.
        lchunk. rewrite Hw, Hs. split; reflexivity.
      * lchunk. split; reflexivity.
    + destruct (err_eqb er EFlushNoExec); lnorm.
      * destruct cont.
        -- destruct (loop_rest fuel rs c e2 (fst (loop_lines reader))) as [[w st] e3]. cbn [fst snd] in *.
           lchunk. rewrite Hw, Hs. split; reflexivity.
        -- lchunk. split; reflexivity.
      * lchunk. split; reflexivity.
    + lchunk. split; reflexivity.
    + lchunk. split; reflexivity.
  - destruct (eng_flush fuel rs c e1) as [[e2 out] f]. lnorm. lchunk. split; reflexivity.
  - lnorm. lchunk. split; reflexivity.
  - lnorm. lchunk. split; reflexivity.
Qed.

(* the requests made are requests of the request driver, in order, from the first one *)
Lemma loop_prefix_firstn : forall l first, loop_prefix first l = firstn (List.length (loop_prefix first l)) l.
Proof.
  induction l as [|r l IH]; intros first; [reflexivity|].
  cbn [loop_prefix]. destruct (resp_goes_on first r).
  - cbn [List.length firstn]. rewrite <- IH. reflexivity.
  - reflexivity.
Qed.

Lemma loop_prefix_incl : forall l first r, In r (loop_prefix first l) -> In r l.
Proof.
  induction l as [|r0 l IH]; intros first r Hin; [exact Hin|].
  cbn [loop_prefix] in Hin. destruct Hin as [<-|Hin]; [left; reflexivity|].
  destruct (resp_goes_on first r0); [right; eapply IH; exact Hin|destruct Hin].
Qed.

(* every request but the last went on *)
Lemma loop_prefix_all_but_last_go_on : forall l first pre r,
  loop_prefix first l = pre ++ [r] ->
  all_go_on first pre = true.
Proof.
  induction l as [|r0 l IH]; intros first pre r Heq.
  - destruct pre; discriminate Heq.
  - cbn [loop_prefix] in Heq. destruct pre as [|p pre].
    + reflexivity.
    + injection Heq as <- Heq. cbn [all_go_on].
      destruct (resp_goes_on first r0); [|destruct pre; discriminate Heq].
      cbn [andb]. eapply IH. exact Heq.
Qed.

(* the engine Loop ends with, when no Exec failed with an error (after which request_long still
   flushes and Loop does not): the engine of the request driver after the requests made *)
Definition no_exec_error (r : response) : Prop := forall er m, r_exec r <> SErr er m.

Lemma eng_after_cons fuel rs c e i l :
  eng_after fuel rs c e (i :: l) = eng_after fuel rs c (fst (request_long fuel rs c e i)) l.
Proof. reflexivity. Qed.

Lemma loop_rest_engine fuel rs c : forall lines e,
  Forall no_exec_error (loop_prefix false (long_resps fuel rs c e lines)) ->
  snd (loop_rest fuel rs c e lines)
  = eng_after fuel rs c e (firstn (List.length (loop_prefix false (long_resps fuel rs c e lines))) lines).
Proof.
  induction lines as [|ln rest IH]; intros e Hne; [reflexivity|].
  revert Hne. cbn [loop_rest long_resps].
  rewrite (surjective_pairing (request_long fuel rs c e ln)).
  cbn [loop_prefix List.length firstn]. rewrite eng_after_cons.
  unfold request_long.
  destruct (eng_exec fuel rs c e ln) as [[e1 cont] s].
  destruct s as [|er msg|n|].
  - destruct (eng_flush fuel rs c e1) as [[e2 out] f]. cbn [fst snd].
    unfold resp_goes_on, resp_lstat. cbn [r_cont r_exec r_flush andb].
    destruct f as [|er|n|].
    + destruct cont; cbn [andb].
      * intros Hne. apply Forall_inv_tail in Hne. specialize (IH e2 Hne).
        destruct (loop_rest fuel rs c e2 rest) as [[w st] e3]. cbn [snd] in *. exact IH.
      * intros _. reflexivity.
    + rewrite Bool.andb_false_r. intros _. reflexivity.
    + rewrite Bool.andb_false_r. intros _. reflexivity.
    + rewrite Bool.andb_false_r. intros _. reflexivity.
  - destruct (eng_flush fuel rs c e1) as [[e2 out] f]. cbn [fst snd].
    intros Hne. apply Forall_inv in Hne. exfalso. eapply Hne. reflexivity.
  - cbn [fst snd]. unfold resp_goes_on, resp_lstat. cbn [r_cont r_exec r_flush]. rewrite Bool.andb_false_r.
    intros _. reflexivity.
  - cbn [fst snd]. unfold resp_goes_on, resp_lstat. cbn [r_cont r_exec r_flush]. rewrite Bool.andb_false_r.
    intros _. reflexivity.
Qed.

Theorem loop_engine_is_requests rs c fuel e initial reader :
  let inputs := loop_inputs initial reader in
  let made := loop_prefix true (long_resps fuel rs c e inputs) in
  Forall no_exec_error made ->
  snd (eng_loop rs c fuel e initial reader) = eng_after fuel rs c e (firstn (List.length made) inputs).
Proof.
  unfold eng_loop, loop_inputs. cbn [long_resps].
  rewrite (surjective_pairing (request_long fuel rs c e (loop_initial initial))).
  cbn [loop_prefix List.length firstn]. rewrite eng_after_cons.
  unfold request_long.
  destruct (eng_exec fuel rs c e (loop_initial initial)) as [[e1 cont] s].
  destruct s as [|er msg|n|].
  - destruct (eng_flush fuel rs c e1) as [[e2 out] f]. cbn [fst snd].
    pose proof (loop_rest_engine fuel rs c (fst (loop_lines reader)) e2) as Hrest.
    unfold resp_goes_on, resp_lstat. cbn [r_cont r_exec r_flush andb].
    destruct f as [|er|n|].
    + destruct cont; cbn [andb].
      * intros Hne. apply Forall_inv_tail in Hne. specialize (Hrest Hne).
        destruct (loop_rest fuel rs c e2 (fst (loop_lines reader))) as [[w st] e3]. cbn [snd] in *. exact Hrest.
      * intros _. reflexivity.
    + destruct (err_eqb er EFlushNoExec); cbn [andb].
      * destruct cont; cbn [andb].
        -- intros Hne. apply Forall_inv_tail in Hne. specialize (Hrest Hne).
           destruct (loop_rest fuel rs c e2 (fst (loop_lines reader))) as [[w st] e3]. cbn [snd] in *. exact Hrest.
        -- intros _. reflexivity.
      * rewrite Bool.andb_false_r. intros _. reflexivity.
    + rewrite Bool.andb_false_r. intros _. reflexivity.
    + rewrite Bool.andb_false_r. intros _. reflexivity.
  - destruct (eng_flush fuel rs c e1) as [[e2 out] f]. cbn [fst snd].
    intros Hne. apply Forall_inv in Hne. exfalso. eapply Hne. reflexivity.
  - cbn [fst snd]. unfold resp_goes_on, resp_lstat. cbn [r_cont r_exec r_flush]. rewrite Bool.andb_false_r.
    intros _. reflexivity.
  - cbn [fst snd]. unfold resp_goes_on, resp_lstat. cbn [r_cont r_exec r_flush]. rewrite Bool.andb_false_r.
    intros _. reflexivity.
Qed.

(* transfer: the k-th response is THE response of request_long, from the engine the request driver
   has reached after the first k inputs — an engine of SizeProofs.long_reach when e is one *)
Lemma eng_after_snoc fuel rs c : forall l e i,
  eng_after fuel rs c e (l ++ [i]) = fst (request_long fuel rs c (eng_after fuel rs c e l) i).
Proof. intros l e i. unfold eng_after. rewrite fold_left_app. reflexivity. Qed.

Lemma long_resps_nth fuel rs c : forall inputs e k i,
  nth_error inputs k = Some i ->
  nth_error (long_resps fuel rs c e inputs) k
  = Some (snd (request_long fuel rs c (eng_after fuel rs c e (firstn k inputs)) i)).
Proof.
  induction inputs as [|i0 inputs IH]; intros e k i Hk; [destruct k; discriminate Hk|].
  cbn [long_resps]. destruct k as [|k].
  - injection Hk as ->. cbn [firstn]. change (eng_after fuel rs c e []) with e.
    destruct (request_long fuel rs c e i) as [e' r]. reflexivity.
  - cbn [nth_error] in Hk. cbn [firstn]. rewrite eng_after_cons.
    destruct (request_long fuel rs c e i0) as [e' r] eqn:Hr. cbn [nth_error fst].
    apply IH. exact Hk.
Qed.

Lemma eng_after_reach fuel rs c : forall l e, long_reach rs c e -> long_reach rs c (eng_after fuel rs c e l).
Proof.
  induction l as [|i l IH]; intros e Hr; [exact Hr|].
  rewrite eng_after_cons. apply IH. apply LReachS. exact Hr.
Qed.

Lemma nth_error_firstn_lt {A} : forall (l : list A) n k, (k < n)%nat -> nth_error (firstn n l) k = nth_error l k.
Proof.
  induction l as [|x l IH]; intros n k Hlt.
  - rewrite firstn_nil. reflexivity.
  - destruct n as [|n]; [lia|]. destruct k as [|k]; [reflexivity|]. cbn [firstn nth_error]. apply IH. lia.
Qed.

Theorem loop_requests_are_driver_requests rs c fuel e initial reader k r :
  let inputs := loop_inputs initial reader in
  nth_error (loop_prefix true (long_resps fuel rs c e inputs)) k = Some r ->
  exists i, nth_error inputs k = Some i
    /\ r = snd (request_long fuel rs c (eng_after fuel rs c e (firstn k inputs)) i)
    /\ (long_reach rs c e -> long_reach rs c (eng_after fuel rs c e (firstn k inputs)))
    /\ all_go_on true (firstn k (loop_prefix true (long_resps fuel rs c e inputs))) = true.
Proof.
  intros inputs Hk.
  set (l := long_resps fuel rs c e inputs) in *.
  assert (Hk' : nth_error l k = Some r).
  { rewrite (loop_prefix_firstn l true) in Hk.
    assert (Hlt : (k < List.length (loop_prefix true l))%nat).
    { apply nth_error_Some. rewrite (loop_prefix_firstn l true). rewrite Hk. discriminate. }
    rewrite nth_error_firstn_lt in Hk by exact Hlt. exact Hk. }
  assert (Hlen : List.length l = List.length inputs).
  { unfold l. clear. generalize e. induction inputs as [|i inputs IH]; intros e0; [reflexivity|].
    cbn [long_resps]. destruct (request_long fuel rs c e0 i) as [e' r0]. cbn [List.length]. rewrite IH. reflexivity. }
  destruct (nth_error inputs k) as [i|] eqn:Hi.
  - exists i. split; [reflexivity|]. split.
    + pose proof (long_resps_nth fuel rs c inputs e k i Hi) as Hn. fold l in Hn. rewrite Hk' in Hn.
      injection Hn as ->. reflexivity.
    + split; [apply eng_after_reach|].
      (* the first k requests made all went on *)
      assert (Hsplit : exists pre post, loop_prefix true l = pre ++ r :: post /\ List.length pre = k).
      { apply List.nth_error_split. exact Hk. }
      destruct Hsplit as [pre [post [Heq Hlenp]]].
      rewrite Heq. rewrite <- Hlenp. rewrite firstn_app. replace (List.length pre - List.length pre)%nat with 0%nat by lia.
      rewrite firstn_all. cbn [firstn]. rewrite app_nil_r.
      assert (Hgen : forall l0 first pre0, loop_prefix first l0 = pre0 ++ r :: post -> all_go_on first pre0 = true).
      { clear. induction l0 as [|r0 l0 IH]; intros first pre0 Heq.
        - destruct pre0; discriminate Heq.
        - cbn [loop_prefix] in Heq. destruct pre0 as [|p pre0]; [reflexivity|].
          injection Heq as <- Heq. cbn [all_go_on].
          destruct (resp_goes_on first r0); [|destruct pre0; discriminate Heq].
          cbn [andb]. eapply IH. exact Heq. }
      eapply Hgen. exact Heq.
  - exfalso. apply nth_error_None in Hi. assert (k < List.length l)%nat by (apply nth_error_Some; rewrite Hk'; discriminate). lia.
Qed.

(* the harness engine differs from new_engine in a flag only *)
Lemma PgInv_set_st c v st : PgInv c v -> PgInv c (vset_st v st).
Proof. apply PgInv_eq. reflexivity. Qed.

Lemma long_init_inv c : PgInv c (e_v (long_init c)).
Proof.
  unfold long_init.
  destruct (c_lang c); [apply new_engine_inv|].
  destruct (s_lang (v_st (e_v (new_engine c None [] [])))); [apply new_engine_inv|].
  unfold eset_v. cbn [e_v]. apply PgInv_set_st. apply new_engine_inv.
Qed.

(* Loop over a persister: the ONE deferred Finish saves the session of the engine Loop ends with — by
   loop_engine_is_requests the request driver's session after the last request made *)
Lemma loop_stored_is_final_session c res :
  e_initd (snd res) = true ->
  loop_stored c res = Some (snap_of (v_st (e_v (snd res))) (v_ca (e_v (snd res)))).
Proof. intros Hi. unfold loop_stored, loop_saved, eng_finish. rewrite Hi. reflexivity. Qed.

Theorem loop_stored_is_requests rs c fuel initial reader :
  let e := loop_persisted_init c in
  let inputs := loop_inputs initial reader in
  let made := loop_prefix true (long_resps fuel rs c e inputs) in
  let e_last := eng_after fuel rs c e (firstn (List.length made) inputs) in
  Forall no_exec_error made -> e_initd e_last = true ->
  loop_stored c (eng_loop rs c fuel e initial reader) = Some (snap_of (v_st (e_v e_last)) (v_ca (e_v e_last))).
Proof.
  intros e inputs made e_last Hne Hi.
  pose proof (loop_engine_is_requests rs c fuel e initial reader Hne) as He. fold inputs made e_last in He.
  rewrite loop_stored_is_final_session; rewrite He; [reflexivity|exact Hi].
Qed.

(* ================================================================ 2. C01 ===== *)
Lemma resp_chunk_cases r :
  resp_chunk r = [] \/ resp_chunk r = r_out r \/ resp_chunk r = r_out r ++ [LF].
Proof.
  unfold resp_chunk. destruct (r_exec r); try (left; reflexivity).
  destruct (r_flush r); try (right; left; reflexivity).
  unfold nl_after. destruct (r_out r); [left; reflexivity|right; right; reflexivity].
Qed.

Lemma len_app {A} (a b : list A) : len (a ++ b) = len a + len b.
Proof. unfold len. rewrite app_length. lia. Qed.

Lemma resp_chunk_len r : len (resp_chunk r) <= len (r_out r) + 1.
Proof.
  destruct (resp_chunk_cases r) as [H|[H|H]]; rewrite H.
  - change (len (@nil N)) with 0. lia.
  - lia.
  - rewrite len_app. change (len [LF]) with 1. lia.
Qed.

(* (b) every chunk written fits: the Flush output of every request Loop makes is within the output
   size in the arithmetic of the code (uint32), and what is written for it is that output, that
   output and one LF, or nothing *)
Theorem loop_every_chunk_fits rs c fuel e initial reader :
  PgInv c (e_v e) -> 0 < c_out c ->
  let made := loop_prefix true (long_resps fuel rs c e (loop_inputs initial reader)) in
  fst (fst (eng_loop rs c fuel e initial reader)) = List.concat (map resp_chunk made)
  /\ Forall (fun r => w32 (len (r_out r)) <= c_out c
                      /\ (resp_chunk r = [] \/ resp_chunk r = r_out r \/ resp_chunk r = r_out r ++ [LF])) made.
Proof.
  intros Hinv Hpos made. split; [apply loop_output_is_requests|].
  apply Forall_forall. intros r Hin. split; [|apply resp_chunk_cases].
  apply loop_prefix_incl in Hin. rewrite long_resps_long_responses in Hin.
  eapply long_responses_fit32; eassumption.
Qed.

Lemma len_cons {A} (x : A) (l : list A) : len (x :: l) = len l + 1.
Proof. unfold len. cbn [List.length]. lia. Qed.

Lemma concat_len_bound (k : N) : forall (l : list bytes),
  Forall (fun ch => len ch <= k) l -> len (List.concat l) <= len l * k.
Proof.
  induction l as [|ch l IH]; intros Hall.
  - change (len (List.concat (@nil bytes))) with 0. lia.
  - cbn [List.concat]. rewrite len_app, len_cons.
    pose proof (Forall_inv Hall) as H1. specialize (IH (Forall_inv_tail Hall)). cbn beta in H1. nia.
Qed.

(* absolute form, PARTIAL under the guard of C01_flush_fits (outputs below 4 GiB; see
   C01_check_refuted_uint32wrap for why it cannot be dropped) *)
Theorem loop_written_bound_partial rs c fuel e initial reader :
  PgInv c (e_v e) -> 0 < c_out c ->
  let made := loop_prefix true (long_resps fuel rs c e (loop_inputs initial reader)) in
  Forall (fun r => len (r_out r) < 4294967296) made ->
  Forall (fun r => len (resp_chunk r) <= c_out c + 1) made
  /\ len (fst (fst (eng_loop rs c fuel e initial reader))) <= len made * (c_out c + 1).
Proof.
  intros Hinv Hpos made Hsmall.
  destruct (loop_every_chunk_fits rs c fuel e initial reader Hinv Hpos) as [Hw Hfit].
  fold made in Hw, Hfit.
  assert (Hch : Forall (fun r => len (resp_chunk r) <= c_out c + 1) made).
  { apply Forall_forall. intros r Hin.
    rewrite Forall_forall in Hfit, Hsmall. destruct (Hfit r Hin) as [H32 _]. specialize (Hsmall r Hin).
    rewrite w32_below in H32 by exact Hsmall. pose proof (resp_chunk_len r). lia. }
  split; [exact Hch|].
  rewrite Hw.
  assert (Hl : len made = len (map resp_chunk made)) by (unfold len; rewrite map_length; reflexivity).
  rewrite Hl. apply concat_len_bound. apply Forall_forall. intros ch Hin.
  apply in_map_iff in Hin. destruct Hin as [r [<- Hin]]. rewrite Forall_forall in Hch. apply Hch. exact Hin.
Qed.

(* ================================================================ 3. nothing after the end ===== *)
Lemma loop_rest_stops fuel rs c : forall l1 l2 e,
  all_go_on false (long_resps fuel rs c e l1) = false ->
  loop_rest fuel rs c e (l1 ++ l2) = loop_rest fuel rs c e l1.
Proof.
  induction l1 as [|ln l1 IH]; intros l2 e Hstop; [discriminate Hstop|].
  revert Hstop. cbn [List.app loop_rest long_resps]. unfold request_long.
  destruct (eng_exec fuel rs c e ln) as [[e1 cont] s].
  destruct s as [|er msg|n|]; try (intros _; reflexivity).
  destruct (eng_flush fuel rs c e1) as [[e2 out] f].
  destruct f as [|er|n|]; try (intros _; reflexivity).
  destruct cont; [|intros _; reflexivity].
  cbn [all_go_on]. unfold resp_goes_on, resp_lstat. cbn [r_cont r_exec r_flush andb].
  intros Hstop. rewrite (IH l2 e2 Hstop). reflexivity.
Qed.

(* split_lines over a concatenation whose first part ends with a line feed (or is empty) *)
Definition ends_nl (r : bytes) : Prop := r = [] \/ exists r', r = r' ++ [LF].

Lemma split_lines_app : forall r1 r2,
  snd (split_lines r1) = [] ->
  split_lines (r1 ++ r2) = (fst (split_lines r1) ++ fst (split_lines r2), snd (split_lines r2)).
Proof.
  induction r1 as [|b r1 IH]; intros r2 Ht.
  - cbn [List.app split_lines fst]. destruct (split_lines r2); reflexivity.
  - revert Ht. cbn [List.app split_lines]. specialize (IH r2).
    destruct (split_lines r1) as [ls t]. cbn [fst snd] in IH.
    destruct (b =? LF).
    + cbn [fst snd]. intros Ht. rewrite (IH Ht). reflexivity.
    + destruct ls as [|l ls].
      * cbn [snd]. intros Ht. discriminate Ht.
      * cbn [fst snd]. intros Ht. rewrite (IH Ht). reflexivity.
Qed.

Lemma split_lines_snoc_nl : forall r, snd (split_lines (r ++ [LF])) = [] /\ fst (split_lines (r ++ [LF])) <> [].
Proof.
  induction r as [|b r [IHt IHl]].
  - vm_compute. split; [reflexivity|discriminate].
  - cbn [List.app split_lines]. destruct (split_lines (r ++ [LF])) as [ls t]. cbn [fst snd] in *. subst t.
    destruct (b =? LF).
    + split; [reflexivity|discriminate].
    + destruct ls as [|l ls]; [exfalso; apply IHl; reflexivity|]. split; [reflexivity|discriminate].
Qed.

Lemma ends_nl_no_tail r : ends_nl r -> snd (split_lines r) = [].
Proof. intros [->|[r' ->]]; [reflexivity|apply split_lines_snoc_nl]. Qed.

Lemma split_lines_no_nl : forall t, ~ In LF t -> split_lines t = ([], t).
Proof.
  induction t as [|b t IH]; intros Hno; [reflexivity|].
  cbn [split_lines]. rewrite IH by (intros H; apply Hno; right; exact H).
  destruct (b =? LF) eqn:Hb; [|reflexivity].
  exfalso. apply Hno. left. apply N.eqb_eq in Hb. exact Hb.
Qed.

Lemma loop_lines_app r1 r2 :
  ends_nl r1 ->
  loop_lines (r1 ++ r2) = (fst (loop_lines r1) ++ fst (loop_lines r2), snd (loop_lines r2)).
Proof.
  intros Hnl. unfold loop_lines. rewrite (split_lines_app r1 r2 (ends_nl_no_tail r1 Hnl)).
  destruct (split_lines r1) as [ls1 t1]. destruct (split_lines r2) as [ls2 t2]. cbn [fst snd].
  rewrite map_app. reflexivity.
Qed.

(* (c) if, on the reader content r1 (ending with a line feed), some request does not go on —
   it reports cont = false, or fails — then whatever follows r1 has no effect: same bytes
   written, same status, same engine *)
Theorem loop_stops_at_end rs c fuel e initial r1 r2 :
  ends_nl r1 ->
  all_go_on true (long_resps fuel rs c e (loop_inputs initial r1)) = false ->
  eng_loop rs c fuel e initial (r1 ++ r2) = eng_loop rs c fuel e initial r1.
Proof.
  intros Hnl. unfold eng_loop, loop_inputs. cbn [long_resps]. unfold request_long.
  rewrite (loop_lines_app r1 r2 Hnl). cbn [fst].
  destruct (eng_exec fuel rs c e (loop_initial initial)) as [[e1 cont] s].
  destruct s as [|er msg|n|]; try (intros _; reflexivity).
  destruct (eng_flush fuel rs c e1) as [[e2 out] f].
  cbn [all_go_on]. unfold resp_goes_on, resp_lstat. cbn [r_cont r_exec r_flush].
  destruct f as [|er|n|]; try (intros _; reflexivity).
  - destruct cont; [|intros _; reflexivity]. cbn [andb]. intros Hstop.
    rewrite (loop_rest_stops fuel rs c _ (fst (loop_lines r2)) e2 Hstop). reflexivity.
  - destruct (err_eqb er EFlushNoExec); [|intros _; reflexivity].
    destruct cont; [|intros _; reflexivity]. cbn [andb]. intros Hstop.
    rewrite (loop_rest_stops fuel rs c _ (fst (loop_lines r2)) e2 Hstop). reflexivity.
Qed.

(* a request that reports stop is one that does not go on *)
Lemma stop_not_all_go_on : forall l first r, In r l -> r_cont r = false -> all_go_on first l = false.
Proof.
  induction l as [|r0 l IH]; intros first r Hin Hc; [destruct Hin|].
  cbn [all_go_on]. destruct Hin as [->|Hin].
  - unfold resp_goes_on. rewrite Hc. reflexivity.
  - rewrite (IH false r Hin Hc). apply Bool.andb_false_r.
Qed.

Corollary loop_stops_at_cont_false rs c fuel e initial r1 r2 r :
  ends_nl r1 ->
  In r (long_resps fuel rs c e (loop_inputs initial r1)) -> r_cont r = false ->
  eng_loop rs c fuel e initial (r1 ++ r2) = eng_loop rs c fuel e initial r1.
Proof.
  intros Hnl Hin Hc. apply loop_stops_at_end; [exact Hnl|]. eapply stop_not_all_go_on; eassumption.
Qed.

(* ================================================================ 4. the unterminated tail ===== *)
(* (d) bufio.ReadString returns what follows the last line feed together with io.EOF, and Loop
   returns on io.EOF before looking at the data: those bytes are never executed *)
Theorem loop_drops_unterminated_tail rs c fuel e initial r tail :
  ends_nl r -> ~ In LF tail ->
  fst (loop_lines (r ++ tail)) = fst (loop_lines r)
  /\ eng_loop rs c fuel e initial (r ++ tail) = eng_loop rs c fuel e initial r.
Proof.
  intros Hnl Hno.
  assert (Hl : fst (loop_lines (r ++ tail)) = fst (loop_lines r)).
  { rewrite (loop_lines_app r tail Hnl). cbn [fst]. unfold loop_lines at 2.
    rewrite (split_lines_no_nl tail Hno). cbn [fst map]. apply app_nil_r. }
  split; [exact Hl|]. unfold eng_loop. rewrite Hl. reflexivity.
Qed.

(* every reader content is a part ending with a line feed (or empty) followed by a tail without one *)
Lemma split_lines_concat : forall r, List.concat (fst (split_lines r)) ++ snd (split_lines r) = r.
Proof.
  induction r as [|b r IH]; [reflexivity|].
  cbn [split_lines]. destruct (split_lines r) as [ls t]. cbn [fst snd] in IH.
  destruct (b =? LF) eqn:Hb.
  - apply N.eqb_eq in Hb. subst b. cbn [fst snd List.concat List.app]. rewrite IH. reflexivity.
  - destruct ls as [|l ls]; cbn [fst snd List.concat List.app] in *; rewrite <- IH; [reflexivity|].
    rewrite <- !app_assoc. reflexivity.
Qed.

Lemma split_lines_tail_no_nl : forall r, ~ In LF (snd (split_lines r)).
Proof.
  induction r as [|b r IH]; [intros H; exact H|].
  cbn [split_lines]. destruct (split_lines r) as [ls t]. cbn [snd] in IH.
  destruct (b =? LF) eqn:Hb; [exact IH|].
  destruct ls as [|l ls]; [|exact IH].
  cbn [snd]. intros [H|H]; [|exact (IH H)]. subst b. discriminate Hb.
Qed.

Lemma split_lines_lines_end_nl : forall r l, In l (fst (split_lines r)) -> exists l', l = l' ++ [LF].
Proof.
  induction r as [|b r IH]; intros l Hin; [destruct Hin|].
  revert Hin. cbn [split_lines]. destruct (split_lines r) as [ls t]. cbn [fst] in IH.
  destruct (b =? LF).
  - cbn [fst]. intros [<-|Hin]; [exists []; reflexivity|apply IH; exact Hin].
  - destruct ls as [|l0 ls]; [intros Hin; destruct Hin|].
    cbn [fst]. intros [<-|Hin].
    + destruct (IH l0 (or_introl eq_refl)) as [l' ->]. exists (b :: l'). reflexivity.
    + apply IH. right. exact Hin.
Qed.

Lemma concat_ends_nl : forall ls : list bytes,
  (forall l, In l ls -> exists l', l = l' ++ [LF]) -> ends_nl (List.concat ls).
Proof.
  induction ls as [|l ls IH]; intros Hall; [left; reflexivity|].
  cbn [List.concat]. destruct (IH (fun l0 H => Hall l0 (or_intror H))) as [Hnil|[r' Hr']].
  - rewrite Hnil, app_nil_r. right. apply Hall. left. reflexivity.
  - rewrite Hr'. right. exists (l ++ r'). rewrite app_assoc. reflexivity.
Qed.

Theorem loop_reader_decomposition reader :
  let complete := List.concat (fst (split_lines reader)) in
  let tail := snd (split_lines reader) in
  reader = complete ++ tail /\ ends_nl complete /\ ~ In LF tail.
Proof.
  cbn zeta. split; [symmetry; apply split_lines_concat|]. split; [|apply split_lines_tail_no_nl].
  apply concat_ends_nl. apply split_lines_lines_end_nl.
Qed.

(* so: for EVERY reader content, Loop behaves as on the part up to the last line feed *)
Corollary loop_ignores_tail rs c fuel e initial reader :
  eng_loop rs c fuel e initial reader
  = eng_loop rs c fuel e initial (List.concat (fst (split_lines reader))).
Proof.
  destruct (loop_reader_decomposition reader) as [Heq [Hnl Hno]].
  rewrite Heq at 1. apply loop_drops_unterminated_tail; assumption.
Qed.

(* ================================================================ 5. TrimSpace facts ===== *)
(* white space at either end of a line never reaches Exec: the trimmed line neither starts nor
   ends with an ASCII white space byte *)
Lemma trim_front_no_ascii rv : forall s b r, trim_front rv s = b :: r -> ascii_space_b b = false.
Proof.
  (* strong induction on the length: trim_front recurses on tails up to three bytes down *)
  assert (H : forall n s, (List.length s <= n)%nat -> forall b r, trim_front rv s = b :: r -> ascii_space_b b = false).
  { induction n as [|n IH]; intros s Hlen b r.
    - destruct s; [intros H; discriminate H|cbn [List.length] in Hlen; lia].
    - destruct s as [|b1 s1]; [intros H; discriminate H|].
      cbn [List.length] in Hlen. cbn [trim_front].
      destruct (ascii_space_b b1) eqn:Hb1.
      + apply IH. lia.
      + destruct s1 as [|b2 s2]; [intros H; injection H as <- _; exact Hb1|].
        cbn [List.length] in Hlen.
        destruct (if rv then space2_b b2 b1 else space2_b b1 b2).
        * apply IH. lia.
        * destruct s2 as [|b3 s3]; [intros H; injection H as <- _; exact Hb1|].
          cbn [List.length] in Hlen.
          destruct (if rv then space3_b b3 b2 b1 else space3_b b1 b2 b3).
          -- apply IH. lia.
          -- intros H; injection H as <- _; exact Hb1. }
  intros s. apply (H (List.length s)). lia.
Qed.

Lemma trim_front_suffix rv : forall s, exists p, s = p ++ trim_front rv s.
Proof.
  assert (H : forall n s, (List.length s <= n)%nat -> exists p, s = p ++ trim_front rv s).
  { induction n as [|n IH]; intros s Hlen.
    - destruct s; [exists []; reflexivity|cbn [List.length] in Hlen; lia].
    - destruct s as [|b1 s1]; [exists []; reflexivity|].
      cbn [List.length] in Hlen. cbn [trim_front].
      destruct (ascii_space_b b1).
      + destruct (IH s1 ltac:(lia)) as [p Hp]. exists (b1 :: p). cbn [List.app]. rewrite <- Hp. reflexivity.
      + destruct s1 as [|b2 s2]; [exists []; reflexivity|]. cbn [List.length] in Hlen.
        destruct (if rv then space2_b b2 b1 else space2_b b1 b2).
        * destruct (IH s2 ltac:(lia)) as [p Hp]. exists (b1 :: b2 :: p). cbn [List.app]. rewrite <- Hp. reflexivity.
        * destruct s2 as [|b3 s3]; [exists []; reflexivity|]. cbn [List.length] in Hlen.
          destruct (if rv then space3_b b3 b2 b1 else space3_b b1 b2 b3).
          -- destruct (IH s3 ltac:(lia)) as [p Hp]. exists (b1 :: b2 :: b3 :: p). cbn [List.app]. rewrite <- Hp. reflexivity.
          -- exists []. reflexivity. }
  intros s. apply (H (List.length s)). lia.
Qed.

Theorem trim_space_ends s :
  (forall b r, trim_space s = b :: r -> ascii_space_b b = false)
  /\ (forall b r, trim_space s = r ++ [b] -> ascii_space_b b = false)
  /\ exists p q, s = p ++ trim_space s ++ q.
Proof.
  unfold trim_space, trim_right, trim_left.
  set (l := trim_front false s).
  destruct (trim_front_suffix false s) as [p Hp]. fold l in Hp.
  destruct (trim_front_suffix true (rev l)) as [q Hq].
  assert (Hl : l = rev (trim_front true (rev l)) ++ rev q).
  { rewrite <- rev_app_distr, <- Hq, rev_involutive. reflexivity. }
  split; [|split].
  - intros b r Hbr.
    destruct l as [|b0 l0] eqn:El; [cbn [rev trim_front] in Hbr; discriminate Hbr|].
    (* the first byte of the result is the first byte of l, unless the result is empty *)
    assert (Hb0 : ascii_space_b b0 = false) by (eapply (trim_front_no_ascii false s); exact El).
    rewrite Hbr in Hl. cbn [List.app] in Hl. injection Hl as Hb _. subst b0. exact Hb0.
  - intros b r Hbr.
    assert (Hrev : trim_front true (rev l) = b :: rev r).
    { rewrite <- (rev_involutive (trim_front true (rev l))), Hbr, rev_app_distr. reflexivity. }
    eapply trim_front_no_ascii. exact Hrev.
  - exists p, (rev q). rewrite <- Hl. exact Hp.
Qed.

(* ================================================================ 6. witnesses ===== *)
(* corpus case exit-overflow with a short exit value: root halts and offers "1" -> end1, which loads
   " see you" and halts: graceful end on the second request *)
Definition wit_loop_app : app := wit_exit_app (s2b " see you").
Definition wit_loop_cfg : config := wit_cfg30.
Definition wit_loop_run (initial : option bytes) (reader : string) :=
  let '(w, st, e) := eng_loop (app_rsrc wit_loop_app) wit_loop_cfg 3000 (new_engine wit_loop_cfg None [] []) initial (s2b reader) in
  (w, st, s_path (v_st (e_v e)), List.length (v_log (e_v e))).
Definition lf_s : string := String (Ascii.ascii_of_nat 10) EmptyString.
Definition cr_s : string := String (Ascii.ascii_of_nat 13) EmptyString.
Definition tab_s : string := String (Ascii.ascii_of_nat 9) EmptyString.
