(* RoutingProofs2.v — C04, the engine's rewinds stated exactly: Engine.reset (eng_reset_inner / unwind),
   the ResetOnEmptyInput path of Exec (eng_reset_force + MOVE <entry node>) and the unwinding of a stale
   position by Init (eng_init) — what seeded changes C04-m5 / C04-m6 break.        (agent routing) *)
From Coq Require Import Lia ZifyN ZifyNat ZifyBool.
From Vise Require Import Bytes Errors Consts EngConsts Codec CacheModel StateModel NavModel NavSpec RenderModel
  VmModel EngineModel BytesProofs CodecProofs CacheProofs NavProofs VmProofs RoutingProofs.
Local Open Scope N_scope.

(* ================================================================================== *)
(* Engine.reset, exactly                                                               *)
(* ================================================================================== *)

(* the state Engine.reset leaves when there is a stack to unwind: empty stack, index 0, TERMINATE and
   DIRTY clear; Restart then fails silently on the empty stack, so every other field - the code, the
   other flags (WAIT, READIN, INMATCH among them), language and input - stays *)
Definition unwound_state (st : state) : state :=
  resetf (resetf (set_path_idx st [] 0) FLAG_TERMINATE) FLAG_DIRTY.
Definition unwound_vm (v : vmst) : vmst :=
  vset_ca (vset_st v (unwound_state (v_st v))) (pops (List.length (s_path (v_st v))) (v_ca v)).

Lemma unwind_exact : forall fuel st ca,
  s_path st <> [] -> (List.length (s_path st) <= fuel)%nat -> cache_ok ca ->
  unwind fuel st ca = (set_path_idx st [] 0, pops (List.length (s_path st)) ca, SOk).
Proof.
  induction fuel as [|f IH]; intros st ca Hne Hlen Hc.
  - destruct (s_path st); [contradiction|cbn [List.length] in Hlen; lia].
  - cbn [unwind]. unfold st_top, st_up. destruct (s_path st) as [|a l] eqn:Ep; [contradiction|].
    destruct (pop_levels ca Hc) as (ca1 & Hpop & Hne1 & _). rewrite Hpop.
    destruct l as [|b l].
    + cbn [List.length pops]. rewrite Hpop. reflexivity.
    + set (st1 := set_path_idx st (removelast (a :: b :: l)) 0).
      assert (Hl : S (List.length (removelast (a :: b :: l))) = List.length (a :: b :: l))
        by (apply length_removelast; discriminate).
      rewrite (IH st1 ca1).
      * subst st1. cbn [s_path set_path_idx].
        replace (List.length (a :: b :: l)) with (S (List.length (removelast (a :: b :: l)))) by exact Hl.
        cbn [pops]. rewrite Hpop. reflexivity.
      * subst st1. cbn [s_path set_path_idx removelast]. destruct l; discriminate.
      * subst st1. cbn [s_path set_path_idx]. cbn [List.length] in *. lia.
      * exact Hne1.
Qed.

Lemma eng_reset_inner_exact v :
  s_path (v_st v) <> [] -> cache_ok (v_ca v) -> eng_reset_inner v = (unwound_vm v, SOk).
Proof.
  intros Hne Hc. unfold eng_reset_inner.
  rewrite unwind_exact by (try assumption; lia).
  unfold st_restart. cbn [s_path set_path_idx]. reflexivity.
Qed.

Lemma pops_cache_ok n ca : cache_ok ca -> cache_ok (pops n ca).
Proof. apply pops_ne. Qed.

(* within the session invariant (cache levels = stack depth + 1) one cache level is left *)
Lemma unwound_levels st ca : nav_inv st ca -> cache_levels (pops (List.length (s_path st)) ca) = 1.
Proof.
  unfold nav_inv. intros H.
  pose proof (pops_levels (List.length (s_path st)) ca) as P. unfold len in *. lia.
Qed.

Lemma unwound_state_facts st :
  s_path (unwound_state st) = [] /\ s_idx (unwound_state st) = 0 /\ s_code (unwound_state st) = s_code st
  /\ s_input (unwound_state st) = s_input st /\ s_lang (unwound_state st) = s_lang st
  /\ getf (unwound_state st) FLAG_TERMINATE = false /\ getf (unwound_state st) FLAG_DIRTY = false
  /\ (forall i, i <> FLAG_TERMINATE -> i <> FLAG_DIRTY -> getf (unwound_state st) i = getf st i).
Proof.
  unfold unwound_state. repeat split.
  - rewrite getf_resetf_other by fneq. apply getf_resetf_same.
  - apply getf_resetf_same.
  - intros i H1 H2. rewrite getf_resetf_other by exact H2. rewrite getf_resetf_other by exact H1. reflexivity.
Qed.

(* ================================================================================== *)
(* MOVE <entry node> from the empty stack                                              *)
(* ================================================================================== *)

(* the entry node's name is a node symbol that the codec round-trips *)
Definition root_ok (c : config) : Prop := valid_sym_b (cfg_root c) = true /\ wf_sym (cfg_root c).

Lemma apply_named_from_empty t st ca :
  valid_sym_b t = true -> s_path st = [] ->
  apply_target t st ca = (set_path_idx st [t] 0, cache_push ca, t, SOk).
Proof.
  intros Hv Hp. rewrite (apply_named _ _ _ Hv). unfold do_named, st_down, where_sym. rewrite Hp.
  change (len (@nil bytes)) with 0. change (MaxLevel + 1 <=? 0) with false. change (MaxLevel <? 0) with false.
  cbv iota. cbn [last].
  destruct t as [|x t]; [vm_compute in Hv; discriminate|]. reflexivity.
Qed.

(* the machine after MOVE t executed on machine vI (the handler's entry machine) from the empty stack *)
Definition moved_vm (rs : rsrc) (sep : bytes) (t : bytes) (vI : vmst) : vmst :=
  let v1 := vset_ca (vset_st vI (set_path_idx (v_st vI) [t] 0)) (cache_push (v_ca vI)) in
  let v2 := if rs_observed rs then vlog (vlog v1 (EvMove 0 t t)) (EvCode t) else vlog v1 (EvMove 0 t t) in
  vset_pg v2 (vm_reset sep (v_pg v2)).

Lemma run_move_from_empty fuel rs sep lang t v code :
  valid_sym_b t = true -> wf_sym t -> s_path (v_st v) = [] -> getf (v_st v) FLAG_TERMINATE = false ->
  rs_code rs t = Ok code ->
  let vI := vlog (snd (run_prelude lang v)) (EvInstr op_MOVE) in
  run (S fuel) rs sep lang (encode (IMove t)) v =
  run_post fuel rs sep (fst (run_prelude lang v)) (moved_vm rs sep t vI, code, SOk)
  /\ pos_of (v_st (moved_vm rs sep t vI)) = ([t], 0)
  /\ v_ca (moved_vm rs sep t vI) = cache_push (v_ca v)
  /\ v_log (moved_vm rs sep t vI) = (if rs_observed rs then [EvCode t] else []) ++ EvMove 0 t t :: EvInstr op_MOVE :: v_log v.
Proof.
  intros Hv Hw Hp Ht Hc. cbv zeta. split.
  - rewrite <- (app_nil_r (encode (IMove t))). rewrite run_unfold by exact Hw. rewrite Ht.
    cbn [is_halt exec_instr opcode_of]. unfold run_move.
    rewrite apply_named_from_empty; [|exact Hv|cbn [v_st vlog]; rewrite prelude_st; destruct (pos_path_idx _ _ (pre_state_pos (v_st v))) as [E _]; rewrite E; exact Hp].
    unfold fetch_code, moved_vm. rewrite Hc. destruct (rs_observed rs); reflexivity.
  - unfold moved_vm. destruct (rs_observed rs); repeat split.
Qed.

(* the same when the code of the entry node cannot be fetched: the move has happened all the same *)
Lemma apply_root_refused_at_root t st ca :
  valid_sym_b t = true -> where_sym st = t -> apply_target t st ca = (st, ca, t, SErr EGen None).
Proof.
  intros Hv Hw. destruct (MaxLevel + 1 <=? len (s_path st)) eqn:E.
  - apply fail_depth; [exact Hv|lia].
  - apply fail_same_node; [exact Hv|lia|exact Hw].
Qed.

(* ================================================================================== *)
(* 1. ResetOnEmptyInput                                                                *)
(* ================================================================================== *)

(* Engine.Reset(ctx, true) on a session with a stack: the pending code is REPLACED by MOVE <entry node>,
   then Engine.reset *)
Definition reset_vm (c : config) (v : vmst) : vmst :=
  unwound_vm (vset_st v (set_code (v_st v) (encode (IMove (cfg_root c))))).

Lemma eng_reset_force_exact c e :
  s_path (v_st (e_v e)) <> [] -> cache_ok (v_ca (e_v e)) ->
  eng_reset_force c e = (eset_v e (reset_vm c (e_v e)), SOk).
Proof.
  intros Hne Hc. unfold eng_reset_force. destruct (s_path (v_st (e_v e))) eqn:Ep; [contradiction|].
  rewrite eng_reset_inner_exact; [reflexivity| |exact Hc].
  cbn [v_st vset_st s_path set_code]. rewrite Ep. discriminate.
Qed.

Lemma reset_vm_facts c v :
  s_code (v_st (reset_vm c v)) = encode (IMove (cfg_root c))
  /\ s_path (v_st (reset_vm c v)) = [] /\ s_idx (v_st (reset_vm c v)) = 0
  /\ getf (v_st (reset_vm c v)) FLAG_TERMINATE = false
  /\ v_ca (reset_vm c v) = pops (List.length (s_path (v_st v))) (v_ca v)
  /\ (nav_inv (v_st v) (v_ca v) -> cache_levels (v_ca (reset_vm c v)) = 1)
  /\ v_log (reset_vm c v) = v_log v /\ s_input (v_st (reset_vm c v)) = s_input (v_st v).
Proof.
  unfold reset_vm, unwound_vm. cbn [v_st v_ca v_log vset_st vset_ca].
  destruct (unwound_state_facts (set_code (v_st v) (encode (IMove (cfg_root c))))) as (H1 & H2 & H3 & H4 & _ & H6 & _).
  split; [rewrite H3; reflexivity|]. split; [exact H1|]. split; [exact H2|]. split; [exact H6|].
  split; [reflexivity|]. split; [|split; [reflexivity|rewrite H4; reflexivity]].
  intros Hn. cbn [s_path set_code]. apply unwound_levels. exact Hn.
Qed.

(* the engine Exec hands to exec after a reset-on-empty: the input "" is set *)
Definition reset_engine (c : config) (e1 : engine) : engine :=
  eset_v e1 (vset_st (reset_vm c (e_v e1)) (set_input_raw (v_st (reset_vm c (e_v e1))) (Some []))).

Lemma reset_on_empty_exec fuel rs c e e1 :
  c_reset_empty c = true -> eng_init fuel rs c e [] = (e1, true, SOk) ->
  s_path (v_st (e_v e1)) <> [] -> cache_ok (v_ca (e_v e1)) ->
  eng_exec fuel rs c e [] = eng_exec_inner fuel rs c (reset_engine c e1).
Proof.
  intros Hr Hi Hne Hc. unfold eng_exec. rewrite Hi, Hr. cbn [negb andb]. change (len (@nil N) =? 0) with true. cbv iota.
  rewrite eng_reset_force_exact by assumption.
  change (0 <? len (@nil N)) with false. cbn [andb]. cbv iota.
  unfold set_input. change (INPUT_LIMIT <? len (@nil N)) with false. cbv iota. reflexivity.
Qed.

(* exec on that engine: Run is called on MOVE <entry node>, not on the pending code of the old page *)
Lemma exec_inner_reset_engine fuel rs c e1 code :
  root_ok c -> rs_code rs (cfg_root c) = Ok code ->
  let e0 := reset_engine c e1 in
  let v0 := vset_st (e_v e0) (set_code (v_st (e_v e0)) []) in
  let lang := s_lang (v_st v0) in
  let vM := moved_vm rs (c_sep c) (cfg_root c) (vlog (snd (run_prelude lang v0)) (EvInstr op_MOVE)) in
  eng_exec_inner (S fuel) rs c e0 =
  (let '(v1, b, s) := run_post fuel rs (c_sep c) (fst (run_prelude lang v0)) (vM, code, SOk) in
   match s with
   | SOk =>
     let e2 := mkEng v1 (e_initd e0) (e_exit e0) (e_exiting e0) true in
     if getf (v_st v1) FLAG_TERMINATE then (e2, false, SOk)
     else let '(e3, cont) := set_code_eng e2 b in (e3, cont, SOk)
   | _ => (eset_v e0 v1, false, s)
   end)
  /\ pos_of (v_st vM) = ([cfg_root c], 0)
  /\ v_ca vM = cache_push (v_ca (reset_vm c (e_v e1)))
  /\ v_log vM = (if rs_observed rs then [EvCode (cfg_root c)] else []) ++
               EvMove 0 (cfg_root c) (cfg_root c) :: EvInstr op_MOVE :: v_log (e_v e1).
Proof.
  intros [Hv Hw] Hcode. cbv zeta.
  destruct (reset_vm_facts c (e_v e1)) as (F1 & F2 & F3 & F4 & F5 & _ & F7 & _).
  set (e0 := reset_engine c e1).
  assert (Hcode0 : s_code (v_st (e_v e0)) = encode (IMove (cfg_root c))) by exact F1.
  set (v0 := vset_st (e_v e0) (set_code (v_st (e_v e0)) [])).
  assert (Hp0 : s_path (v_st v0) = []) by exact F2.
  assert (Ht0 : getf (v_st v0) FLAG_TERMINATE = false) by exact F4.
  destruct (run_move_from_empty fuel rs (c_sep c) (s_lang (v_st v0)) (cfg_root c) v0 code Hv Hw Hp0 Ht0 Hcode) as (R & P & C & L).
  split; [|split; [exact P|split; [exact C|rewrite L; reflexivity]]].
  unfold eng_exec_inner. fold v0. rewrite Hcode0.
  destruct (encode_shape (IMove (cfg_root c))) as (a & b & t & Es). rewrite Es. rewrite <- Es.
  rewrite R. reflexivity.
Qed.

(* THE theorem: a request with the empty input under ResetOnEmptyInput, at any position with a
   non-empty stack.  e1 is the engine Init returns (see eng_init_steady for a long-lived engine). *)
Lemma reset_on_empty_returns_to_entry_lemma : forall fuel rs c e e1 code e' cont s,
  c_reset_empty c = true -> root_ok c -> rs_code rs (cfg_root c) = Ok code ->
  eng_init (S fuel) rs c e [] = (e1, true, SOk) ->
  s_path (v_st (e_v e1)) <> [] -> nav_inv (v_st (e_v e1)) (v_ca (e_v e1)) ->
  eng_exec (S fuel) rs c e [] = (e', cont, s) ->
  (* (a) the rewind: code replaced by MOVE root, stack empty, index 0, one cache level *)
  (let vr := reset_vm c (e_v e1) in
   s_code (v_st vr) = encode (IMove (cfg_root c)) /\ pos_of (v_st vr) = ([], 0) /\ cache_levels (v_ca vr) = 1)
  (* (b) the first instruction executed is MOVE root - not an INCMP of the old page's pending code -
         and it arrives at [root], index 0, two cache levels *)
  /\ exists vM new,
       pos_of (v_st vM) = ([cfg_root c], 0) /\ cache_levels (v_ca vM) = 2
       /\ v_log vM = (if rs_observed rs then [EvCode (cfg_root c)] else []) ++
                    EvMove 0 (cfg_root c) (cfg_root c) :: EvInstr op_MOVE :: v_log (e_v e1)
       (* (c) from there on only the root's own code runs: the final position is the fold of the table
              over the moves it logs; [root] at index 0 if it logs none (the root's code halts) *)
       /\ v_log (e_v e') = new ++ v_log vM
       /\ nav_fold nav_code ([cfg_root c], 0) (log_moves new) = Some (pos_of (v_st (e_v e')))
       /\ (log_moves new = [] -> pos_of (v_st (e_v e')) = ([cfg_root c], 0)).
Proof.
  intros fuel rs c e e1 code e' cont s Hr Hroot Hcode Hi Hne Hinv He.
  assert (Hc1 : cache_ok (v_ca (e_v e1))) by (apply levels_ne; unfold nav_inv in Hinv; lia).
  destruct (reset_vm_facts c (e_v e1)) as (F1 & F2 & F3 & F4 & F5 & F6 & F7 & F8).
  split; [split; [exact F1|split; [unfold pos_of; rewrite F2, F3; reflexivity|apply F6; exact Hinv]]|].
  rewrite (reset_on_empty_exec _ _ _ _ _ Hr Hi Hne Hc1) in He.
  destruct (exec_inner_reset_engine fuel rs c e1 code Hroot Hcode) as (X & P & C & L).
  cbv zeta in X, P, C, L.
  set (e0 := reset_engine c e1) in *.
  set (v0 := vset_st (e_v e0) (set_code (v_st (e_v e0)) [])) in *.
  set (vM := moved_vm rs (c_sep c) (cfg_root c) (vlog (snd (run_prelude (s_lang (v_st v0)) v0)) (EvInstr op_MOVE))) in *.
  rewrite X in He.
  assert (HcM : cache_ok (v_ca vM)) by (rewrite C; apply cache_ok_push).
  assert (HlM : cache_levels (v_ca vM) = 2).
  { rewrite C, push_levels, (F6 Hinv). reflexivity. }
  destruct (run_post fuel rs (c_sep c) (fst (run_prelude (s_lang (v_st v0)) v0)) (vM, code, SOk)) as [[v1 b] s1] eqn:Hrp.
  assert (F : pos_follows vM v1).
  { eapply (run_post_follows fuel rs (c_sep c)); [|exact HcM|exact Hrp]. intros. eapply run_follows; eassumption. }
  assert (Fin : pos_follows vM (e_v e')).
  { destruct s1.
    - destruct (getf (v_st v1) FLAG_TERMINATE); [inversion He; subst; exact F|].
      destruct (set_code_eng (mkEng v1 (e_initd e0) (e_exit e0) (e_exiting e0) true) b) as [e3 cont3] eqn:Hs.
      inversion He; subst.
      destruct (set_code_eng_follows (mkEng v1 (e_initd e0) (e_exit e0) (e_exiting e0) true) b e' cont (pf_cache_ok _ _ F) Hs) as (F2' & _).
      eapply pf_trans; [exact F|exact F2'].
    - inversion He; subst; exact F.
    - inversion He; subst; exact F.
    - inversion He; subst; exact F. }
  destruct Fin as (_ & new & Lf & Nf). rewrite P in Nf.
  exists vM, new. split; [exact P|]. split; [exact HlM|]. split; [exact L|]. split; [exact Lf|]. split; [exact Nf|].
  intros Hm. rewrite Hm in Nf. cbn [nav_fold] in Nf. injection Nf as Hx Hy. unfold pos_of. rewrite <- Hx, <- Hy. reflexivity.
Qed.

(* what Init does to a long-lived engine in its steady state (initialised, rendered, no exit value,
   not exiting): nothing but clearing the per-request marks *)
Lemma eng_init_steady fuel rs c e input :
  e_initd e = true -> getf (v_st (e_v e)) FLAG_DIRTY = false -> e_exit e = [] -> e_exiting e = false ->
  eng_init fuel rs c e input = (mkEng (e_v e) true [] false false, true, SOk).
Proof.
  intros Hi Hd Hx He. unfold eng_init. destruct (e_execd e) eqn:Hex.
  - unfold eng_flush. rewrite Hex. cbn [negb]. unfold vm_render. rewrite Hd. cbn [negb].
    cbn [eset_v e_exit e_exiting e_v]. rewrite Hx, He.
    change (len (@nil N)) with 0. change (0 <? 0) with false. rewrite andb_false_r. cbn [andb].
    cbn [stat_of_f e_v e_initd eset_v]. rewrite Hi. reflexivity.
  - cbn [e_v e_initd]. rewrite Hi. reflexivity.
Qed.

(* regression corollary (seeded change C04-m6): AT the entry node on a later page *)
Lemma reset_on_empty_at_entry_page_lemma : forall fuel rs c e code k e' cont s,
  c_reset_empty c = true -> root_ok c -> rs_code rs (cfg_root c) = Ok code ->
  e_initd e = true -> getf (v_st (e_v e)) FLAG_DIRTY = false -> e_exit e = [] -> e_exiting e = false ->
  s_path (v_st (e_v e)) = [cfg_root c] -> s_idx (v_st (e_v e)) = k -> 0 < k ->
  nav_inv (v_st (e_v e)) (v_ca (e_v e)) ->
  eng_exec (S fuel) rs c e [] = (e', cont, s) ->
  (* the rewind is NOT skipped at depth 0: position ([], 0), one cache level, code = MOVE root
     (whatever INCMP lines were pending) *)
  (let vr := reset_vm c (e_v e) in
   s_code (v_st vr) = encode (IMove (cfg_root c)) /\ pos_of (v_st vr) = ([], 0) /\ cache_levels (v_ca vr) = 1)
  /\ exists vM new,
       pos_of (v_st vM) = ([cfg_root c], 0) /\ cache_levels (v_ca vM) = 2
       /\ v_log vM = (if rs_observed rs then [EvCode (cfg_root c)] else []) ++
                    EvMove 0 (cfg_root c) (cfg_root c) :: EvInstr op_MOVE :: v_log (e_v e)
       /\ v_log (e_v e') = new ++ v_log vM
       /\ nav_fold nav_code ([cfg_root c], 0) (log_moves new) = Some (pos_of (v_st (e_v e')))
       (* root@k -> root@0 when the root's code halts without moving *)
       /\ (log_moves new = [] -> pos_of (v_st (e_v e')) = ([cfg_root c], 0)).
Proof.
  intros fuel rs c e code k e' cont s Hr Hroot Hcode Hi Hd Hx Hex Hp Hk Hk0 Hinv He.
  pose proof (eng_init_steady (S fuel) rs c e [] Hi Hd Hx Hex) as Hin.
  apply (reset_on_empty_returns_to_entry_lemma fuel rs c e _ code e' cont s Hr Hroot Hcode Hin); cbn [e_v].
  - rewrite Hp. discriminate.
  - exact Hinv.
  - exact He.
Qed.

(* ================================================================================== *)
(* 2. Init unwinds a stale position                                                    *)
(* ================================================================================== *)

(* a stored session without pending code, not terminated, with a stack: the previous request failed *)
Definition stale (st : state) : Prop :=
  s_code st = [] /\ getf st FLAG_TERMINATE = false /\ s_path st <> [].

(* the machine Init leaves for exec *)
Definition init_unwound_vm (c : config) (v : vmst) (input : bytes) : vmst :=
  let vu := unwound_vm (vset_st v (set_input_raw (v_st v) (Some input))) in
  vset_st vu (set_input_raw (set_code (v_st vu) (encode (IMove (cfg_root c)))) (s_input (v_st v))).

Lemma init_unwinds_stale_position_lemma : forall fuel rs c e input,
  c_first c = None -> e_initd e = false -> e_execd e = false ->
  stale (v_st (e_v e)) -> cache_ok (v_ca (e_v e)) -> len input <= INPUT_LIMIT ->
  (* whatever the depth (>= 1, the entry node itself included) *)
  eng_init fuel rs c e input = (mkEng (init_unwound_vm c (e_v e) input) true [] false false, true, SOk)
  /\ (let v' := init_unwound_vm c (e_v e) input in
      s_code (v_st v') = encode (IMove (cfg_root c)) /\ pos_of (v_st v') = ([], 0)
      /\ v_ca v' = pops (List.length (s_path (v_st (e_v e)))) (v_ca (e_v e))
      /\ (nav_inv (v_st (e_v e)) (v_ca (e_v e)) -> cache_levels (v_ca v') = 1)
      /\ v_log v' = v_log (e_v e) /\ getf (v_st v') FLAG_TERMINATE = false
      (* the injected move is not refused: it arrives at [root], index 0 *)
      /\ (valid_sym_b (cfg_root c) = true ->
          apply_target (cfg_root c) (v_st v') (v_ca v') =
          (set_path_idx (v_st v') [cfg_root c] 0, cache_push (v_ca v'), cfg_root c, SOk))).
Proof.
  intros fuel rs c e input Hf Hi Hx (Hcode & Hterm & Hne) Hc Hlen.
  split.
  - unfold eng_init. rewrite Hx. cbn [e_v e_initd e_exit e_exiting e_execd]. rewrite Hi.
    unfold set_input. destruct (INPUT_LIMIT <? len input) eqn:El; [lia|].
    rewrite (run_first_none _ _ _ _ Hf). cbn [negb e_v eset_v v_st vset_st].
    cbn [s_code s_path set_input_raw]. rewrite Hcode.
    destruct (s_path (v_st (e_v e))) as [|a p] eqn:Ep; [contradiction|].
    change (getf (set_input_raw (v_st (e_v e)) (Some input)) FLAG_TERMINATE) with (getf (v_st (e_v e)) FLAG_TERMINATE).
    rewrite Hterm.
    rewrite eng_reset_inner_exact; [|cbn [v_st vset_st s_path set_input_raw]; rewrite Ep; discriminate|exact Hc].
    cbn [eset_v e_v]. unfold unwound_vm at 1. cbn [v_st vset_st vset_ca].
    destruct (unwound_state_facts (set_input_raw (v_st (e_v e)) (Some input))) as (_ & _ & U3 & _).
    rewrite U3. cbn [s_code set_input_raw]. rewrite Hcode.
    unfold set_code_eng. destruct (encode_shape (IMove (cfg_root c))) as (x & y & t & Es). rewrite Es.
    cbn [e_v eset_v e_exit e_exiting e_execd e_initd]. rewrite <- Es. reflexivity.
  - cbv zeta. unfold init_unwound_vm, unwound_vm. cbn [v_st v_ca v_log vset_st vset_ca s_code s_path set_input_raw set_code].
    destruct (unwound_state_facts (set_input_raw (v_st (e_v e)) (Some input))) as (U1 & U2 & _ & _ & _ & U6 & _).
    assert (Hpos : pos_of (set_input_raw (set_code (unwound_state (set_input_raw (v_st (e_v e)) (Some input)))
                                          (encode (IMove (cfg_root c)))) (s_input (v_st (e_v e)))) = ([], 0)).
    { unfold pos_of. cbn [s_path s_idx set_input_raw set_code]. rewrite U1, U2. reflexivity. }
    split; [reflexivity|]. split; [exact Hpos|]. split; [reflexivity|].
    split; [intros Hn; apply (unwound_levels _ _ Hn)|]. split; [reflexivity|]. split; [exact U6|].
    intros Hv. apply apply_named_from_empty; [exact Hv|].
    destruct (pos_path_idx _ (set_path_idx (new_state 0) [] 0) Hpos) as [E _]. exact E.
Qed.

(* ... whereas WITHOUT the unwinding the injected MOVE <entry node> is refused when the stale position is
   the entry node itself ("already at node"): nothing moves, the page index stays *)
Lemma stale_at_entry_refuses_root c st ca :
  valid_sym_b (cfg_root c) = true -> s_path st = [cfg_root c] ->
  apply_target (cfg_root c) st ca = (st, ca, cfg_root c, SErr EGen None).
Proof.
  intros Hv Hp. apply apply_root_refused_at_root; [exact Hv|]. unfold where_sym. rewrite Hp. reflexivity.
Qed.

(* ================================================================================== *)
(* Fixtures: corpus cases reset-on-empty-at-entry-page and restart-after-error           *)
(* ================================================================================== *)
Definition nlb : bytes := [10].
Definition roe_app : app :=
  mkApp [(s2b "root", encode_prog [ILoad (s2b "aa") 0; IMap (s2b "aa"); IMNext (s2b "nxt") (s2b "11"); IMPrev (s2b "prv") (s2b "22");
                                    IHalt; IInCmp (s2b ">") (s2b "11"); IInCmp (s2b "<") (s2b "22"); IInCmp (s2b "foo") (s2b "*")]);
         (s2b "foo", encode_prog [IHalt; IInCmp (s2b "_") (s2b "0")]);
         (s2b "_catch", encode_prog [IMOut (s2b "back") (s2b "0"); IHalt; IInCmp (s2b "_") (s2b "0")])]
        [(s2b "root", s2b "r {{.aa}}"); (s2b "foo", s2b "foo"); (s2b "_catch", s2b "catch")]
        []
        [(s2b "aa", [mkFres (s2b "one" ++ nlb ++ s2b "two" ++ nlb ++ s2b "three" ++ nlb ++ s2b "four" ++ nlb ++ s2b "five" ++ nlb ++ s2b "six")
                            false 0 [] [] false])].
Definition roe_cfg : config := mkCfg 30 (s2b "root") 1 0 [] [] true None.

Definition rae_app : app :=
  mkApp [(s2b "root", encode_prog [ILoad (s2b "aa") 5; IMap (s2b "aa"); IHalt; IInCmp (s2b "foo") (s2b "1")]);
         (s2b "foo", encode_prog [IHalt; IInCmp (s2b "_") (s2b "0")]);
         (s2b "_catch", encode_prog [IHalt; IInCmp (s2b "_") (s2b "*")])]
        [(s2b "root", s2b "root {{.aa}}"); (s2b "foo", s2b "foo"); (s2b "_catch", s2b "catch")]
        []
        [(s2b "aa", [mkFres (s2b "toolong") false 0 [] [] false; mkFres (s2b "ok") false 0 [] [] false])].
Definition rae_cfg : config := mkCfg 0 (s2b "root") 1 0 [] [] false None.

(* positions (path, index) after each request of a history *)
Fixpoint long_positions (rs : rsrc) (c : config) (e : engine) (inputs : list bytes) : list (list bytes * N) * engine :=
  match inputs with
  | [] => ([], e)
  | i :: r => let '(e1, _) := request_long 300 rs c e i in
              let '(ps, e2) := long_positions rs c e1 r in (pos_of (v_st (e_v e1)) :: ps, e2)
  end.
Fixpoint pers_positions (rs : rsrc) (c : config) (p : pworld) (inputs : list bytes)
  : list (option (list bytes * N * bytes)) * pworld :=
  match inputs with
  | [] => ([], p)
  | i :: r => let '(p1, _) := request_persisted 300 rs c p i in
              let '(ps, p2) := pers_positions rs c p1 r in
              (option_map (fun sn => (pos_of (fst sn), s_code (fst sn))) (pw_store p1) :: ps, p2)
  end.
