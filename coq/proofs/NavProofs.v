(* NavProofs.v — C04, component level: the move table of doc/texinfo/navigation.texi as a
   specification (nav_spec), and the lemmas relating vm/input.go:applyTarget (NavModel.apply_target)
   to it.  Part 1 holds DEFINITIONS (specification, invariants, run functions) that NavCorr.v and
   props/C04nav.v share; part 2 holds the lemmas. *)
From Coq Require Import Lia PeanoNat ZifyN ZifyNat ZifyBool.
From Vise Require Import Bytes Errors Consts CacheModel StateModel NavModel BytesProofs.
Local Open Scope N_scope.
From Vise Require Export NavSpec.
Local Open Scope N_scope.

(* ================================================================================== *)
(* Part 2 — lemmas                                                                    *)
(* ================================================================================== *)

(* ---- the patterns ---------------------------------------------------------------- *)
Lemma input_regex_pinned : input_regex_src = "^\+?[a-zA-Z0-9].*$"%string.
Proof. reflexivity. Qed.
Lemma ctrl_regex_pinned : ctrl_regex_src = "^[><_^.]$"%string.
Proof. reflexivity. Qed.
Lemma sym_regex_pinned : sym_regex_src = "^[a-zA-Z0-9][a-zA-Z0-9_]+$"%string.
Proof. reflexivity. Qed.

Lemma catch_sym_val : catch_sym = [95; 99; 97; 116; 99; 104].
Proof. reflexivity. Qed.

Lemma valid_ctrl_char s :
  valid_ctrl_b s = true <-> s = t_up \/ s = t_next \/ s = t_prev \/ s = t_top \/ s = t_same.
Proof.
  unfold t_up, t_next, t_prev, t_top, t_same. split.
  - destruct s as [|c [|d r]]; cbn [valid_ctrl_b]; try discriminate. intros H.
    assert (Hc : c = 62 \/ c = 60 \/ c = 95 \/ c = 94 \/ c = 46) by lia.
    destruct Hc as [->|[->|[->|[->| ->]]]]; tauto.
  - intros [->|[->|[->|[->| ->]]]]; reflexivity.
Qed.

Lemma forallb_Forall {A} (f : A -> bool) l : forallb f l = true <-> Forall (fun x => f x = true) l.
Proof. rewrite forallb_forall, Forall_forall. reflexivity. Qed.

Lemma valid_sym_char s :
  valid_sym_b s = true <->
  s = catch_sym \/
  exists c r, s = c :: r /\ r <> [] /\ is_alnum c = true /\ Forall (fun x => is_symchar x = true) r.
Proof.
  unfold valid_sym_b. rewrite orb_true_iff, bytes_eqb_eq. split.
  - intros [H|H]; [left; exact H|right].
    destruct s as [|c [|d r]]; try discriminate. apply andb_true_iff in H. destruct H as [Hc Hr].
    exists c, (d :: r). split; [reflexivity|]. split; [discriminate|]. split; [exact Hc|].
    apply forallb_Forall. exact Hr.
  - intros [H|H]; [left; exact H|right]. destruct H as (c & r & -> & Hne & Hc & Hr).
    destruct r as [|d r]; [contradiction|]. apply andb_true_iff. split; [exact Hc|].
    apply forallb_Forall. exact Hr.
Qed.

Lemma valid_sym_len s : valid_sym_b s = true -> 2 <= len s.
Proof.
  intros H. apply valid_sym_char in H. destruct H as [->|(c & r & -> & Hne & _)].
  - vm_compute. discriminate.
  - destruct r; [contradiction|]. rewrite !len_cons. lia.
Qed.

Lemma plus_match_ite (i : bytes) :
  match i with 43 :: r => r | _ => i end =
  match i with a :: r => if a =? 43 then r else i | [] => i end.
Proof.
  destruct i as [|a r]; [reflexivity|]. destruct a as [|p]; [reflexivity|].
  do 6 (try (destruct p as [p|p|]; try reflexivity)).
Qed.

Lemma alnum_not_plus c : is_alnum c = true -> (c =? 43) = false.
Proof. unfold is_alnum. lia. Qed.

Lemma nolf_Forall r : forallb (fun x => negb (x =? 10)) r = true <-> Forall (fun x => x <> 10) r.
Proof.
  rewrite forallb_Forall. split; intros H; eapply Forall_impl; try exact H; cbv beta; intros a Ha; lia.
Qed.

(* ^\+?[a-zA-Z0-9].*$ : an optional "+", one alphanumeric byte, then anything without LF *)
Lemma valid_input_char i :
  valid_input_b i = true <->
  exists c r, (i = c :: r \/ i = 43 :: c :: r) /\ is_alnum c = true /\ Forall (fun x => x <> 10) r.
Proof.
  unfold valid_input_b. rewrite plus_match_ite. split.
  - destruct i as [|a r]; [discriminate|]. destruct (a =? 43) eqn:Ea.
    + assert (a = 43) by lia. subst a. destruct r as [|c r']; [discriminate|].
      intros H. apply andb_true_iff in H. destruct H as [Hc Hr]. exists c, r'.
      split; [right; reflexivity|]. split; [exact Hc|]. apply nolf_Forall. exact Hr.
    + intros H. apply andb_true_iff in H. destruct H as [Hc Hr]. exists a, r.
      split; [left; reflexivity|]. split; [exact Hc|]. apply nolf_Forall. exact Hr.
  - intros (c & r & [-> | ->] & Hc & Hr).
    + rewrite (alnum_not_plus _ Hc). apply andb_true_iff. split; [exact Hc|]. apply nolf_Forall. exact Hr.
    + change (43 =? 43) with true. cbv iota. apply andb_true_iff. split; [exact Hc|]. apply nolf_Forall. exact Hr.
Qed.

Lemma valid_target_char t : valid_target_b t = true <-> valid_sym_b t = true \/ valid_ctrl_b t = true.
Proof.
  unfold valid_target_b. destruct t as [|c r].
  - split; [discriminate|]. intros [H|H]; [vm_compute in H|cbn in H]; discriminate.
  - apply orb_true_iff.
Qed.

(* a node symbol is never one of the five control tokens *)
Lemma sym_not_single t c : valid_sym_b t = true -> bytes_eqb t [c] = false.
Proof.
  intros H. apply valid_sym_len in H. destruct t as [|a [|b r]].
  - reflexivity.
  - rewrite !len_cons, len_nil in H. lia.
  - cbn [bytes_eqb]. apply andb_false_r.
Qed.

Lemma sym_not_ctrl t : valid_sym_b t = true -> valid_ctrl_b t = false.
Proof.
  intros H. apply valid_sym_len in H. destruct t as [|a [|b r]]; try reflexivity.
  rewrite !len_cons, len_nil in H. lia.
Qed.

Lemma target_cases t :
  valid_target_b t = false \/ t = t_up \/ t = t_next \/ t = t_prev \/ t = t_top \/ t = t_same
  \/ valid_sym_b t = true.
Proof.
  destruct (valid_target_b t) eqn:E; [|left; reflexivity]. right.
  apply valid_target_char in E. destruct E as [E|E]; [tauto|].
  apply valid_ctrl_char in E. tauto.
Qed.

(* the text's grammar of node names is not the code's *)
Lemma doc_name_differs :
  doc_name_b (s2b "x") = true /\ valid_sym_b (s2b "x") = false        (* one-letter names *)
  /\ doc_name_b (s2b "1ab") = false /\ valid_sym_b (s2b "1ab") = true.  (* leading digit *)
Proof. vm_compute. auto. Qed.

(* ---- applyTarget as a chain of tests --------------------------------------------- *)
Lemma ctrl_match_ite {A} (t : bytes) (X Y Z W V D : A) :
  match t with [95] => X | [62] => Y | [60] => Z | [94] => W | [46] => V | _ => D end =
  if bytes_eqb t t_up then X else if bytes_eqb t t_next then Y else if bytes_eqb t t_prev then Z
  else if bytes_eqb t t_top then W else if bytes_eqb t t_same then V else D.
Proof.
  unfold t_up, t_next, t_prev, t_top, t_same.
  destruct t as [|a r]; [reflexivity|].
  destruct a as [|p]; [destruct r; reflexivity|].
  do 7 (try (destruct p as [p|p|]; try (destruct r; reflexivity))).
Qed.

Definition do_up (st : state) (ca : cache) : state * cache * bytes * stat :=
  match st_up st with
  | Ok (sym', st') =>
    match cache_pop ca with
    | Ok ca' => (st', ca', sym', SOk)
    | Err e => (st', ca, sym', SErr e None)
    | Panic n => (st', ca, sym', SPanic n)
    end
  | Err e => (st, ca, [], SErr e None)
  | Panic n => (st, ca, where_sym st, SPanic n)
  end.
Definition do_next (st : state) (ca : cache) : state * cache * bytes * stat :=
  match st_next st with
  | Ok st' => (st', ca, where_sym st, SOk)
  | Err e => (st, ca, where_sym st, SErr e None)
  | Panic n => (st, ca, where_sym st, SPanic n)
  end.
Definition do_prev (st : state) (ca : cache) : state * cache * bytes * stat :=
  match st_previous st with
  | Ok st' => (st', ca, where_sym st, SOk)
  | Err EIndex => (st, ca, where_sym st, SErr EIndex (Some msg_index))
  | Err e => (st, ca, where_sym st, SErr e None)
  | Panic n => (st, ca, where_sym st, SPanic n)
  end.
Definition do_named (t : bytes) (st : state) (ca : cache) : state * cache * bytes * stat :=
  if MaxLevel + 1 <=? len (s_path st) then (st, ca, t, SErr EGen None)
  else if bytes_eqb (where_sym st) t then (st, ca, t, SErr EGen None)
  else match st_down st t with
       | Ok st' => (st', cache_push ca, t, SOk)
       | Err e => (st, ca, t, SErr e None)
       | Panic n => (st, ca, t, SPanic n)
       end.

Lemma apply_target_ite t st ca :
  apply_target t st ca =
  if negb (valid_target_b t) then (st, ca, where_sym st, SErr EGen None)
  else if bytes_eqb t t_up then do_up st ca
  else if bytes_eqb t t_next then do_next st ca
  else if bytes_eqb t t_prev then do_prev st ca
  else if bytes_eqb t t_top then rewind (S (List.length (s_path st))) (where_sym st) st ca
  else if bytes_eqb t t_same then (st, ca, where_sym st, SOk)
  else do_named t st ca.
Proof. unfold apply_target. cbv zeta. rewrite ctrl_match_ite. reflexivity. Qed.

Lemma apply_invalid t st ca :
  valid_target_b t = false -> apply_target t st ca = (st, ca, where_sym st, SErr EGen None).
Proof. intros H. unfold apply_target. rewrite H. reflexivity. Qed.
Lemma apply_up st ca : apply_target t_up st ca = do_up st ca.
Proof. reflexivity. Qed.
Lemma apply_next st ca : apply_target t_next st ca = do_next st ca.
Proof. reflexivity. Qed.
Lemma apply_prev st ca : apply_target t_prev st ca = do_prev st ca.
Proof. reflexivity. Qed.
Lemma apply_top st ca :
  apply_target t_top st ca = rewind (S (List.length (s_path st))) (where_sym st) st ca.
Proof. reflexivity. Qed.
Lemma apply_same st ca : apply_target t_same st ca = (st, ca, where_sym st, SOk).
Proof. reflexivity. Qed.
Lemma apply_named t st ca : valid_sym_b t = true -> apply_target t st ca = do_named t st ca.
Proof.
  intros H. rewrite apply_target_ite.
  assert (Hv : valid_target_b t = true) by (apply valid_target_char; left; exact H).
  rewrite Hv. cbn [negb]. unfold t_up, t_next, t_prev, t_top, t_same.
  rewrite !(sym_not_single t _ H). reflexivity.
Qed.

(* the table, row by row *)
Lemma nav_spec_up p : nav_spec p t_up = if len (fst p) <=? 1 then None else Some (removelast (fst p), 0).
Proof. destruct p; reflexivity. Qed.
Lemma nav_spec_top p :
  nav_spec p t_top = if len (fst p) <=? 1 then Some p else Some (firstn 1 (fst p), 0).
Proof. destruct p; reflexivity. Qed.
Lemma nav_spec_same p : nav_spec p t_same = Some p.
Proof. destruct p; reflexivity. Qed.
Lemma nav_spec_next p :
  nav_spec p t_next = match fst p with [] => None | _ => Some (fst p, w16 (snd p + 1)) end.
Proof. destruct p; reflexivity. Qed.
Lemma nav_spec_prev p :
  nav_spec p t_prev =
  match fst p with [] => None | _ => if snd p =? 0 then None else Some (fst p, snd p - 1) end.
Proof. destruct p; reflexivity. Qed.
Lemma nav_spec_named p t : valid_sym_b t = true -> nav_spec p t = Some (fst p ++ [t], 0).
Proof.
  intros H. destruct p as [path idx]. unfold nav_spec, t_up, t_next, t_prev, t_top, t_same.
  rewrite !(sym_not_single t _ H), H. reflexivity.
Qed.
Lemma nav_spec_invalid p t : valid_target_b t = false -> nav_spec p t = None.
Proof.
  intros H. destruct p as [path idx].
  destruct (target_cases t) as [_|[E|[E|[E|[E|[E|E]]]]]]; try (subst t; vm_compute in H; discriminate).
  - unfold nav_spec.
    assert (Hs : valid_sym_b t = false).
    { destruct (valid_sym_b t) eqn:Es; [|reflexivity].
      assert (valid_target_b t = true) by (apply valid_target_char; left; exact Es). congruence. }
    assert (Hc : valid_ctrl_b t = false).
    { destruct (valid_ctrl_b t) eqn:Es; [|reflexivity].
      assert (valid_target_b t = true) by (apply valid_target_char; right; exact Es). congruence. }
    assert (Hn : forall x, In x [t_up; t_next; t_prev; t_top; t_same] -> bytes_eqb t x = false).
    { intros x Hx. destruct (bytes_eqb t x) eqn:Ex; [|reflexivity]. apply bytes_eqb_eq in Ex. subst x.
      assert (valid_ctrl_b t = true).
      { cbn [In] in Hx. destruct Hx as [<-|[<-|[<-|[<-|[<-|[]]]]]]; reflexivity. }
      congruence. }
    rewrite !Hn by (cbn [In]; tauto). rewrite Hs. reflexivity.
  - assert (valid_target_b t = true) by (apply valid_target_char; left; exact E). congruence.
Qed.

(* ---- cache depth under Pop / Push ------------------------------------------------- *)
Lemma levels_ne ca : c_frames ca <> [] <-> 1 <= cache_levels ca.
Proof.
  unfold cache_levels. destruct (c_frames ca); [rewrite len_nil|rewrite len_cons]; split; intros H; try lia; try discriminate.
  contradiction.
Qed.

Lemma pop_levels ca :
  c_frames ca <> [] ->
  exists ca', cache_pop ca = Ok ca' /\ c_frames ca' <> []
    /\ cache_levels ca' = (if cache_levels ca =? 1 then 1 else cache_levels ca - 1).
Proof.
  intros Hne. destruct (exists_last Hne) as [pre [top Hfs]].
  unfold cache_pop, cache_levels. rewrite Hfs, rev_app_distr. cbn [rev app]. rewrite rev_involutive.
  eexists. split; [reflexivity|]. cbn [c_frames]. rewrite len_app, len_cons, len_nil.
  destruct pre as [|f pre]; [split; [discriminate|reflexivity]|].
  split; [discriminate|]. rewrite len_cons.
  destruct (1 + len pre + (1 + 0) =? 1) eqn:E; lia.
Qed.

Lemma pop_never_panics ca : is_panic (cache_pop ca) = false.
Proof. unfold cache_pop. destruct (rev (c_frames ca)); reflexivity. Qed.

Lemma push_levels ca : cache_levels (cache_push ca) = cache_levels ca + 1.
Proof. unfold cache_levels, cache_push. cbn [c_frames]. rewrite len_app, len_cons, len_nil. lia. Qed.

Lemma pops_ne n : forall ca, c_frames ca <> [] -> c_frames (pops n ca) <> [].
Proof.
  induction n as [|n IH]; intros ca Hne; [exact Hne|]. cbn [pops].
  destruct (pop_levels ca Hne) as (ca' & Hp & Hne' & _). rewrite Hp. apply IH. exact Hne'.
Qed.

Lemma pops_levels n : forall ca,
  N.of_nat n + 1 <= cache_levels ca -> cache_levels (pops n ca) + N.of_nat n = cache_levels ca.
Proof.
  induction n as [|n IH]; intros ca Hl; [cbn [pops]; lia|]. cbn [pops].
  assert (Hne : c_frames ca <> []) by (apply levels_ne; lia).
  destruct (pop_levels ca Hne) as (ca' & Hp & Hne' & Hlv). rewrite Hp.
  destruct (cache_levels ca =? 1) eqn:E; [lia|].
  specialize (IH ca'). lia.
Qed.

(* ---- state helpers ---------------------------------------------------------------- *)
Lemma state_eta st : st = set_path_idx st (s_path st) (s_idx st).
Proof. destruct st; reflexivity. Qed.

Lemma removelast_snoc {A} (l : list A) a : removelast (l ++ [a]) = l.
Proof. apply removelast_last. Qed.

Lemma length_removelast {A} (l : list A) : l <> [] -> S (List.length (removelast l)) = List.length l.
Proof.
  intros Hne. destruct (exists_last Hne) as [pre [a ->]]. rewrite removelast_snoc, app_length. cbn. lia.
Qed.

(* ---- Rewind ------------------------------------------------------------------------ *)
Lemma rewind_status fuel : forall sym st ca, snd (rewind fuel sym st ca) = SOk.
Proof.
  induction fuel as [|f IH]; intros sym st ca; [reflexivity|]. cbn [rewind].
  unfold st_top, st_up. destruct (s_path st) as [|a [|b l]]; try reflexivity.
  destruct (cache_pop ca) eqn:Ep; try reflexivity; [apply IH|].
  pose proof (pop_never_panics ca) as Hn. rewrite Ep in Hn. discriminate.
Qed.

Lemma st_top_deep st e r z : s_path st = e :: r ++ [z] -> st_top st = Ok false.
Proof. intros H. unfold st_top. rewrite H. destruct r; reflexivity. Qed.
Lemma st_up_ne st :
  s_path st <> [] ->
  st_up st = Ok (last (removelast (s_path st)) [], set_path_idx st (removelast (s_path st)) 0).
Proof. intros H. unfold st_up. destruct (s_path st); [contradiction|reflexivity]. Qed.

(* with at least one cache frame: the stack is cut down to its first element, one Pop per
   removed level; nothing happens when the entry node is already current *)
Lemma rewind_cons fuel : forall rest e sym st ca,
  s_path st = e :: rest -> (List.length rest < fuel)%nat -> c_frames ca <> [] ->
  rewind fuel sym st ca =
  (match rest with [] => st | _ => set_path_idx st [e] 0 end,
   pops (List.length rest) ca,
   match rest with [] => sym | _ => e end, SOk).
Proof.
  induction fuel as [|f IH]; intros rest e sym st ca Hp Hf Hne; [lia|]. cbn [rewind].
  destruct rest as [|r0 rest0].
  - unfold st_top. rewrite Hp. reflexivity.
  - assert (Hrne : r0 :: rest0 <> []) by discriminate.
    destruct (exists_last Hrne) as [rest' [z Hr]]. rewrite Hr in *. clear Hrne Hr r0 rest0.
    rewrite (st_top_deep st e rest' z Hp).
    assert (Hpne : s_path st <> []) by (rewrite Hp; discriminate).
    rewrite (st_up_ne st Hpne), Hp.
    assert (Hpl : removelast (e :: rest' ++ [z]) = e :: rest').
    { change (e :: rest' ++ [z]) with ((e :: rest') ++ [z]). apply removelast_snoc. }
    rewrite Hpl.
    assert (Hl : List.length (rest' ++ [z]) = S (List.length rest')) by (rewrite app_length; cbn; lia).
    rewrite Hl in *. cbn [pops].
    destruct (pop_levels ca Hne) as (ca' & Hpop & Hne' & _). rewrite Hpop.
    rewrite (IH rest' e (last (e :: rest') []) (set_path_idx st (e :: rest') 0) ca'); [|reflexivity|lia|exact Hne'].
    destruct rest' as [|r1 rest1]; [|destruct (rest1 ++ [z]) eqn:E; [destruct rest1; discriminate|]]; reflexivity.
Qed.

(* ---- one call of applyTarget ------------------------------------------------------ *)
Lemma nav_code_not_up p t : bytes_eqb t t_up = false -> nav_code p t = nav_spec p t.
Proof. intros H. unfold nav_code, up_at_entry. rewrite H. reflexivity. Qed.

Lemma nav_code_guard p t : up_at_entry p t = false -> nav_code p t = nav_spec p t.
Proof. intros H. unfold nav_code. rewrite H. reflexivity. Qed.

Lemma where_sym_set st p i : where_sym (set_path_idx st p i) = last p [].
Proof. reflexivity. Qed.

(* a call that returns without error: position per the code's table, returned symbol, the
   rest of the state untouched, and the cache pushed once / popped once per removed level *)
Lemma apply_ok_exact t st ca st' ca' sym :
  c_frames ca <> [] ->
  apply_target t st ca = (st', ca', sym, SOk) ->
  nav_code (pos_of st) t = Some (pos_of st')
  /\ sym = where_sym st'
  /\ st' = set_path_idx st (s_path st') (s_idx st')
  /\ ca' = (if valid_sym_b t then cache_push ca
            else pops (List.length (s_path st) - List.length (s_path st')) ca).
Proof.
  intros Hne.
  destruct (target_cases t) as [E|[E|[E|[E|[E|[E|E]]]]]]; try subst t.
  - rewrite (apply_invalid _ _ _ E). intros H. inversion H.
  - (* _ *)
    rewrite apply_up. unfold do_up. destruct (s_path st) as [|a l] eqn:Ep.
    + unfold st_up. rewrite Ep. intros H. inversion H.
    + assert (Hpne : s_path st <> []) by (rewrite Ep; discriminate).
      rewrite (st_up_ne st Hpne). destruct (pop_levels ca Hne) as (ca1 & Hpop & _ & _). rewrite Hpop.
      intros H. inversion H; subst st' ca' sym; clear H.
      pose proof (length_removelast (s_path st) Hpne) as Hlen.
      cbn [s_path s_idx set_path_idx]. repeat split.
      * unfold nav_code, up_at_entry, pos_of. cbn [fst set_path_idx s_path s_idx].
        change (bytes_eqb t_up t_up) with true. cbn [andb].
        destruct (len (s_path st) =? 1) eqn:E1.
        -- rewrite Ep in *. destruct l; [reflexivity|]. rewrite !len_cons in E1. lia.
        -- rewrite nav_spec_up. cbn [fst]. destruct (len (s_path st) <=? 1) eqn:E2; [|reflexivity].
           rewrite Ep in *. rewrite len_cons in *. lia.
      * change (valid_sym_b t_up) with false. cbv iota. rewrite <- Ep.
        replace (List.length (s_path st) - List.length (removelast (s_path st)))%nat with 1%nat by lia.
        cbn [pops]. rewrite Hpop. reflexivity.
  - (* > *)
    rewrite apply_next. unfold do_next, st_next. destruct (s_path st) as [|a l] eqn:Ep; intros H; inversion H; subst st' ca' sym; clear H.
    cbn [s_path s_idx set_path_idx]. repeat split.
    + rewrite nav_code_not_up by reflexivity. rewrite nav_spec_next. unfold pos_of. cbn [fst snd set_path_idx s_path s_idx].
      rewrite Ep. reflexivity.
    + unfold where_sym. cbn [s_path set_path_idx]. rewrite Ep. reflexivity.
    + change (valid_sym_b t_next) with false. cbv iota. rewrite Nat.sub_diag. reflexivity.
  - (* < *)
    rewrite apply_prev. unfold do_prev, st_previous. destruct (s_path st) as [|a l] eqn:Ep; [intros H; inversion H|].
    destruct (s_idx st =? 0) eqn:E0; intros H; inversion H; subst st' ca' sym; clear H.
    cbn [s_path s_idx set_path_idx]. repeat split.
    + rewrite nav_code_not_up by reflexivity. rewrite nav_spec_prev. unfold pos_of. cbn [fst snd set_path_idx s_path s_idx].
      rewrite Ep, E0. reflexivity.
    + unfold where_sym. cbn [s_path set_path_idx]. rewrite Ep. reflexivity.
    + change (valid_sym_b t_prev) with false. cbv iota. rewrite Nat.sub_diag. reflexivity.
  - (* ^ *)
    rewrite apply_top. change (valid_sym_b t_top) with false. cbv iota.
    rewrite nav_code_not_up by reflexivity. rewrite nav_spec_top. unfold pos_of at 1. cbn [fst].
    destruct (s_path st) as [|e rest] eqn:Ep.
    + cbn [List.length rewind]. unfold st_top. rewrite Ep. intros H. inversion H; subst st' ca' sym; clear H.
      rewrite Ep. cbn [List.length Nat.sub pops]. unfold pos_of. rewrite Ep.
      repeat split. rewrite <- Ep. apply state_eta.
    + rewrite (rewind_cons _ rest e _ st ca Ep); [|cbn [List.length]; lia|exact Hne].
      intros H. inversion H; subst st' ca' sym; clear H.
      destruct rest as [|r rest1].
      * rewrite Ep. cbn [List.length Nat.sub pops]. unfold pos_of, where_sym. rewrite Ep.
        repeat split. rewrite <- Ep. apply state_eta.
      * cbn [s_path s_idx set_path_idx]. unfold pos_of. cbn [s_path s_idx set_path_idx].
        assert (Hl : (len (e :: r :: rest1) <=? 1) = false) by (rewrite !len_cons; lia).
        rewrite Hl. cbn [fst]. rewrite Ep. cbn [firstn]. repeat split.
  - (* . *)
    rewrite apply_same. intros H. inversion H; subst st' ca' sym; clear H.
    rewrite nav_code_not_up by reflexivity. rewrite nav_spec_same.
    change (valid_sym_b t_same) with false. cbv iota. rewrite Nat.sub_diag.
    repeat split. apply state_eta.
  - (* named node *)
    rewrite (apply_named _ _ _ E), E. unfold do_named, st_down.
    destruct (MaxLevel + 1 <=? len (s_path st)) eqn:E1; [intros H; inversion H|].
    destruct (bytes_eqb (where_sym st) t) eqn:E0; [intros H; inversion H|].
    destruct (MaxLevel <? len (s_path st)) eqn:E2; [intros H; inversion H|].
    rewrite (nav_code_not_up _ _ (sym_not_single t _ E)), (nav_spec_named _ _ E).
    unfold pos_of at 1. cbn [fst].
    destruct (s_path st) as [|a l] eqn:Ep.
    + intros H. inversion H; subst st' ca' sym; clear H. repeat split.
    + destruct (bytes_eqb (last (a :: l) []) t) eqn:E3; intros H; inversion H; subst st' ca' sym; clear H.
      unfold pos_of, where_sym. cbn [s_path s_idx set_path_idx]. repeat split.
      symmetry. change (a :: l ++ [t]) with ((a :: l) ++ [t]). apply last_last.
Qed.

(* a call that returns an error or panics leaves state and cache exactly as they were *)
Lemma apply_fail_unchanged t st ca st' ca' sym r :
  c_frames ca <> [] ->
  apply_target t st ca = (st', ca', sym, r) -> r <> SOk -> st' = st /\ ca' = ca.
Proof.
  intros Hne.
  destruct (target_cases t) as [E|[E|[E|[E|[E|[E|E]]]]]]; try subst t.
  - rewrite (apply_invalid _ _ _ E). intros H _. inversion H. auto.
  - rewrite apply_up. unfold do_up. destruct (s_path st) as [|a l] eqn:Ep.
    + unfold st_up. rewrite Ep. intros H _. inversion H. auto.
    + assert (Hpne : s_path st <> []) by (rewrite Ep; discriminate).
      rewrite (st_up_ne st Hpne). destruct (pop_levels ca Hne) as (ca1 & Hpop & _ & _). rewrite Hpop.
      intros H Hr. inversion H. congruence.
  - rewrite apply_next. unfold do_next, st_next. destruct (s_path st); intros H Hr; inversion H; auto. congruence.
  - rewrite apply_prev. unfold do_prev, st_previous. destruct (s_path st); [intros H Hr; inversion H; auto|].
    destruct (s_idx st =? 0); intros H Hr; inversion H; auto. congruence.
  - rewrite apply_top. intros H Hr. pose proof (rewind_status (S (List.length (s_path st))) (where_sym st) st ca) as Hs.
    rewrite H in Hs. cbn [snd] in Hs. congruence.
  - rewrite apply_same. intros H Hr. inversion H. congruence.
  - rewrite (apply_named _ _ _ E). unfold do_named, st_down.
    destruct (MaxLevel + 1 <=? len (s_path st)); [intros H _; inversion H; auto|].
    destruct (bytes_eqb (where_sym st) t); [intros H _; inversion H; auto|].
    destruct (MaxLevel <? len (s_path st)); [intros H _; inversion H; auto|].
    destruct (s_path st) as [|a l]; [intros H Hr; inversion H; congruence|].
    destruct (bytes_eqb (last (a :: l) []) t); intros H Hr; inversion H; auto. congruence.
Qed.

(* shape of one row of the code's table *)
Lemma nav_code_shape p t p' :
  nav_code p t = Some p' ->
  (if valid_sym_b t then fst p' = fst p ++ [t] /\ snd p' = 0
   else (List.length (fst p') <= List.length (fst p))%nat /\ (snd p < 65536 -> snd p' < 65536)).
Proof.
  destruct p as [path idx].
  destruct (target_cases t) as [E|[E|[E|[E|[E|[E|E]]]]]]; try subst t.
  - assert (Hn : bytes_eqb t t_up = false).
    { destruct (bytes_eqb t t_up) eqn:Eu; [|reflexivity]. apply bytes_eqb_eq in Eu. subst t. vm_compute in E. discriminate. }
    rewrite (nav_code_not_up _ _ Hn), (nav_spec_invalid _ _ E). discriminate.
  - change (valid_sym_b t_up) with false. cbv iota. unfold nav_code, up_at_entry. cbn [fst].
    change (bytes_eqb t_up t_up) with true. cbn [andb].
    destruct (len path =? 1) eqn:E1.
    + intros H. inversion H. cbn [fst snd List.length]. split; [lia|lia].
    + rewrite nav_spec_up. cbn [fst]. destruct (len path <=? 1) eqn:E2; [discriminate|].
      intros H. inversion H. cbn [fst snd]. split; [|lia].
      destruct path as [|a l]; [cbn; lia|].
      assert (Hne : a :: l <> []) by discriminate. pose proof (length_removelast _ Hne). lia.
  - change (valid_sym_b t_next) with false. cbv iota. rewrite nav_code_not_up by reflexivity.
    rewrite nav_spec_next. cbn [fst snd]. destruct path; [discriminate|]. intros H. inversion H. cbn [fst snd].
    split; [lia|]. intros _. unfold w16. apply N.mod_lt. discriminate.
  - change (valid_sym_b t_prev) with false. cbv iota. rewrite nav_code_not_up by reflexivity.
    rewrite nav_spec_prev. cbn [fst snd]. destruct path; [discriminate|]. destruct (idx =? 0); [discriminate|].
    intros H. inversion H. cbn [fst snd]. split; lia.
  - change (valid_sym_b t_top) with false. cbv iota. rewrite nav_code_not_up by reflexivity.
    rewrite nav_spec_top. cbn [fst snd]. destruct (len path <=? 1); intros H; inversion H; cbn [fst snd].
    + split; [lia|auto].
    + split; [|lia]. destruct path; cbn [List.length]; lia.
  - change (valid_sym_b t_same) with false. cbv iota. rewrite nav_code_not_up by reflexivity.
    rewrite nav_spec_same. intros H. inversion H. cbn [fst snd]. split; [lia|auto].
  - rewrite E. rewrite (nav_code_not_up _ _ (sym_not_single t _ E)), (nav_spec_named _ _ E).
    intros H. inversion H. cbn [fst snd]. auto.
Qed.

(* a descent that succeeded was within the depth limit and not into the current node *)
Lemma apply_named_ok_depth t st ca st' ca' sym :
  valid_sym_b t = true -> apply_target t st ca = (st', ca', sym, SOk) ->
  len (s_path st) <= MaxLevel /\ (s_path st = [] \/ last (s_path st) [] <> t).
Proof.
  intros E. rewrite (apply_named _ _ _ E). unfold do_named, st_down.
  destruct (MaxLevel + 1 <=? len (s_path st)) eqn:E1; [intros H; inversion H|].
  destruct (bytes_eqb (where_sym st) t) eqn:E0; [intros H; inversion H|].
  destruct (MaxLevel <? len (s_path st)) eqn:E2; [intros H; inversion H|].
  destruct (s_path st) as [|a l] eqn:Ep; [intros _; split; [lia|left; reflexivity]|].
  destruct (bytes_eqb (last (a :: l) []) t) eqn:E3; intros H; inversion H.
  split; [lia|right]. intros Hx. apply bytes_eqb_eq in Hx. congruence.
Qed.

(* cache depth follows the stack depth *)
Lemma apply_levels t st ca st' ca' sym r :
  nav_inv st ca -> apply_target t st ca = (st', ca', sym, r) ->
  nav_inv st' ca' /\ cache_levels ca' + len (s_path st) = cache_levels ca + len (s_path st').
Proof.
  unfold nav_inv. intros Hinv H.
  assert (Hne : c_frames ca <> []) by (apply levels_ne; lia).
  destruct r.
  - destruct (apply_ok_exact _ _ _ _ _ _ Hne H) as (Hc & _ & _ & Hca).
    apply nav_code_shape in Hc. unfold pos_of in Hc. cbn [fst snd] in Hc.
    destruct (valid_sym_b t).
    + destruct Hc as [Hp _]. subst ca'. rewrite push_levels, Hp, len_app, len_cons, len_nil. lia.
    + destruct Hc as [Hl _]. subst ca'.
      pose proof (pops_levels (List.length (s_path st) - List.length (s_path st')) ca) as Hpl.
      unfold len in *. lia.
  - destruct (apply_fail_unchanged _ _ _ _ _ _ _ Hne H) as [-> ->]; [discriminate|lia].
  - destruct (apply_fail_unchanged _ _ _ _ _ _ _ Hne H) as [-> ->]; [discriminate|lia].
  - destruct (apply_fail_unchanged _ _ _ _ _ _ _ Hne H) as [-> ->]; [discriminate|lia].
Qed.

Lemma apply_wf t st ca st' ca' sym r :
  wf_nav st ca -> apply_target t st ca = (st', ca', sym, r) -> wf_nav st' ca'.
Proof.
  intros (Hinv & Hd & Hi) H. destruct (apply_levels _ _ _ _ _ _ _ Hinv H) as [Hinv' _].
  split; [exact Hinv'|].
  assert (Hne : c_frames ca <> []) by (apply levels_ne; unfold nav_inv in Hinv; lia).
  assert (Hcase : r = SOk \/ r <> SOk) by (destruct r; [left; reflexivity|right; discriminate ..]).
  destruct Hcase as [->|Hr].
  - destruct (apply_ok_exact _ _ _ _ _ _ Hne H) as (Hc & _ & _ & _).
    apply nav_code_shape in Hc. unfold pos_of in Hc. cbn [fst snd] in Hc.
    destruct (valid_sym_b t) eqn:Es.
    + destruct (apply_named_ok_depth _ _ _ _ _ _ Es H) as [Hm _]. destruct Hc as [Hp Hz].
      rewrite Hp, Hz, len_app, len_cons, len_nil. lia.
    + destruct Hc as [Hl Hz]. unfold len in *. split; [lia|auto].
  - destruct (apply_fail_unchanged _ _ _ _ _ _ _ Hne H Hr) as [-> ->]. auto.
Qed.

(* refinement of the documented table, outside the one finding class *)
Lemma apply_refines_spec_partial t st ca st' ca' sym :
  1 <= cache_levels ca ->
  up_at_entry (pos_of st) t = false ->
  apply_target t st ca = (st', ca', sym, SOk) ->
  nav_spec (pos_of st) t = Some (pos_of st')
  /\ sym = where_sym st'
  /\ st' = set_path_idx st (s_path st') (s_idx st')
  /\ (nav_inv st ca -> cache_levels ca' + len (s_path st) = cache_levels ca + len (s_path st')).
Proof.
  intros Hl Hg H. apply levels_ne in Hl.
  destruct (apply_ok_exact _ _ _ _ _ _ Hl H) as (Hc & Hs & Hst & _).
  rewrite (nav_code_guard _ _ Hg) in Hc. repeat split; try assumption.
  intros Hinv. apply (apply_levels _ _ _ _ _ _ _ Hinv H).
Qed.

(* ... and the finding: "_" at the entry node returns without error and empties the stack *)
Lemma apply_up_at_entry st ca e :
  s_path st = [e] -> 1 <= cache_levels ca ->
  exists ca', cache_pop ca = Ok ca'
    /\ apply_target t_up st ca = (set_path_idx st [] 0, ca', [], SOk)
    /\ nav_spec (pos_of st) t_up = None.
Proof.
  intros Hp Hl. apply levels_ne in Hl. destruct (pop_levels ca Hl) as (ca' & Hpop & _ & _).
  exists ca'. split; [exact Hpop|]. split.
  - rewrite apply_up. unfold do_up, st_up. rewrite Hp, Hpop. reflexivity.
  - rewrite nav_spec_up. unfold pos_of. cbn [fst]. rewrite Hp. reflexivity.
Qed.

Lemma refines_spec_refuted_up_at_entry :
  exists t st ca st' ca' sym,
    1 <= cache_levels ca /\ nav_inv st ca /\ up_at_entry (pos_of st) t = true
    /\ apply_target t st ca = (st', ca', sym, SOk) /\ nav_spec (pos_of st) t = None
    /\ s_path st' = [].
Proof.
  exists t_up, (set_path_idx (new_state 0) [s2b "root"] 0), (cache_push (new_cache 0)).
  eexists. eexists. eexists. vm_compute. repeat split. discriminate.
Qed.

(* ---- failures, exactly ------------------------------------------------------------ *)
Lemma fail_prev_at_zero st ca :
  s_path st <> [] -> s_idx st = 0 ->
  apply_target t_prev st ca = (st, ca, where_sym st, SErr EIndex (Some msg_index)).
Proof.
  intros Hp Hi. rewrite apply_prev. unfold do_prev, st_previous. destruct (s_path st); [contradiction|].
  rewrite Hi. reflexivity.
Qed.
Lemma fail_lateral_empty st ca :
  s_path st = [] ->
  apply_target t_prev st ca = (st, ca, [], SErr EGen None)
  /\ apply_target t_next st ca = (st, ca, [], SErr EGen None).
Proof.
  intros Hp. rewrite apply_prev, apply_next. unfold do_prev, do_next, st_previous, st_next, where_sym. rewrite Hp. auto.
Qed.
Lemma fail_up_empty st ca : s_path st = [] -> apply_target t_up st ca = (st, ca, [], SErr EGen None).
Proof. intros Hp. rewrite apply_up. unfold do_up, st_up. rewrite Hp. reflexivity. Qed.
Lemma fail_depth t st ca :
  valid_sym_b t = true -> MaxLevel + 1 <= len (s_path st) ->
  apply_target t st ca = (st, ca, t, SErr EGen None).
Proof.
  intros E Hd. rewrite (apply_named _ _ _ E). unfold do_named.
  destruct (MaxLevel + 1 <=? len (s_path st)) eqn:E1; [reflexivity|lia].
Qed.
Lemma fail_same_node t st ca :
  valid_sym_b t = true -> len (s_path st) <= MaxLevel -> where_sym st = t ->
  apply_target t st ca = (st, ca, t, SErr EGen None).
Proof.
  intros E Hd Hw. rewrite (apply_named _ _ _ E). unfold do_named.
  destruct (MaxLevel + 1 <=? len (s_path st)) eqn:E1; [reflexivity|].
  rewrite Hw, bytes_eqb_refl. reflexivity.
Qed.
Lemma next_never_fails st ca :
  s_path st <> [] ->
  apply_target t_next st ca = (set_path_idx st (s_path st) (w16 (s_idx st + 1)), ca, where_sym st, SOk).
Proof. intros Hp. rewrite apply_next. unfold do_next, st_next. destruct (s_path st); [contradiction|reflexivity]. Qed.

(* ---- panics ------------------------------------------------------------------------ *)
Lemma apply_never_panics t st ca : is_spanic (snd (apply_target t st ca)) = false.
Proof.
  destruct (target_cases t) as [E|[E|[E|[E|[E|[E|E]]]]]]; try subst t.
  - rewrite (apply_invalid _ _ _ E). reflexivity.
  - rewrite apply_up. unfold do_up, st_up.
    destruct (s_path st); [reflexivity|]. pose proof (pop_never_panics ca) as Hn.
    destruct (cache_pop ca); cbn [snd is_spanic]; try reflexivity. cbn in Hn. discriminate.
  - rewrite apply_next. unfold do_next, st_next. destruct (s_path st); reflexivity.
  - rewrite apply_prev. unfold do_prev, st_previous.
    destruct (s_path st); [reflexivity|]. destruct (s_idx st =? 0); reflexivity.
  - rewrite apply_top, rewind_status. reflexivity.
  - rewrite apply_same. reflexivity.
  - rewrite (apply_named _ _ _ E). unfold do_named, st_down.
    destruct (MaxLevel + 1 <=? len (s_path st)) eqn:E1; [reflexivity|].
    destruct (bytes_eqb (where_sym st) t) eqn:E0; [reflexivity|].
    destruct (MaxLevel <? len (s_path st)) eqn:E2; [lia|].
    unfold where_sym in E0.
    destruct (s_path st) as [|a l] eqn:Ep; [reflexivity|]. rewrite E0. reflexivity.
Qed.

(* ---- histories ---------------------------------------------------------------------- *)
Lemma nav_run_code ts : forall st ca st2 ca2 log,
  c_frames ca <> [] -> nav_run st ca ts = (st2, ca2, log) ->
  nav_fold nav_code (pos_of st) log = Some (pos_of st2) /\ c_frames ca2 <> [].
Proof.
  induction ts as [|t ts IH]; intros st ca st2 ca2 log Hne H.
  - cbn [nav_run] in H. inversion H; subst. split; [reflexivity|exact Hne].
  - cbn [nav_run] in H. destruct (apply_target t st ca) as [[[st1 ca1] sym] r] eqn:Ea.
    destruct (nav_run st1 ca1 ts) as [[st3 ca3] log3] eqn:Er. inversion H; subst st3 ca3 log; clear H.
    assert (Hcase : r = SOk \/ r <> SOk) by (destruct r; [left; reflexivity|right; discriminate ..]).
    destruct Hcase as [->|Hr].
    + destruct (apply_ok_exact _ _ _ _ _ _ Hne Ea) as (Hc & _ & _ & Hca).
      assert (Hne1 : c_frames ca1 <> []).
      { subst ca1. destruct (valid_sym_b t); [|apply pops_ne; exact Hne].
        unfold cache_push. cbn [c_frames]. destruct (c_frames ca); discriminate. }
      destruct (IH _ _ _ _ _ Hne1 Er) as [Hf Hne2]. split; [|exact Hne2].
      cbn [nav_fold]. rewrite Hc. exact Hf.
    + destruct (apply_fail_unchanged _ _ _ _ _ _ _ Hne Ea Hr) as [-> ->].
      destruct (IH _ _ _ _ _ Hne Er) as [Hf Hne2]. split; [|exact Hne2].
      destruct r; [congruence|exact Hf ..].
Qed.

Lemma fold_spec_code ms : forall p, up_free p ms = true -> nav_fold nav_spec p ms = nav_fold nav_code p ms.
Proof.
  induction ms as [|m ms IH]; intros p H; [reflexivity|]. cbn [up_free] in H. cbn [nav_fold].
  apply andb_true_iff in H. destruct H as [Hg Hr]. apply negb_true_iff in Hg.
  rewrite <- (nav_code_guard _ _ Hg). destruct (nav_code p m) as [p'|]; [apply IH; exact Hr|reflexivity].
Qed.

Lemma nav_run_spec_partial ts st ca st2 ca2 log :
  1 <= cache_levels ca -> nav_run st ca ts = (st2, ca2, log) ->
  up_free (pos_of st) log = true ->
  nav_fold nav_spec (pos_of st) log = Some (pos_of st2).
Proof.
  intros Hl H Hg. apply levels_ne in Hl. rewrite (fold_spec_code _ _ Hg).
  apply (nav_run_code ts _ _ _ _ _ Hl H).
Qed.

Lemma nav_run_wf ts : forall st ca st2 ca2 log,
  wf_nav st ca -> nav_run st ca ts = (st2, ca2, log) -> wf_nav st2 ca2.
Proof.
  induction ts as [|t ts IH]; intros st ca st2 ca2 log Hw H.
  - cbn [nav_run] in H. inversion H; subst. exact Hw.
  - cbn [nav_run] in H. destruct (apply_target t st ca) as [[[st1 ca1] sym] r] eqn:Ea.
    destruct (nav_run st1 ca1 ts) as [[st3 ca3] log3] eqn:Er. inversion H; subst st3 ca3 log; clear H.
    eapply IH; [|exact Er]. eapply apply_wf; eauto.
Qed.

Lemma fold_refuted_up_at_entry :
  exists ts st ca st2 ca2 log,
    wf_nav st ca /\ nav_run st ca ts = (st2, ca2, log) /\ up_free (pos_of st) log = false
    /\ nav_fold nav_spec (pos_of st) log = None.
Proof.
  exists [s2b "root"; t_up], (new_state 0), (new_cache 0).
  eexists. eexists. eexists. vm_compute. repeat split; try discriminate; reflexivity.
Qed.

(* ---- statements assembled for props/C04nav.v ---------------------------------------- *)
Lemma failures_exact_lemma st ca :
  1 <= cache_levels ca ->
  (* every call that fails (error or panic) leaves state and cache as they were *)
  (forall t st' ca' sym r, apply_target t st ca = (st', ca', sym, r) -> r <> SOk -> st' = st /\ ca' = ca)
  (* "<" on the first page: IndexError *)
  /\ (s_path st <> [] -> s_idx st = 0 ->
      apply_target t_prev st ca = (st, ca, where_sym st, SErr EIndex (Some msg_index)))
  (* no entry node yet: "_", "<", ">" fail *)
  /\ (s_path st = [] ->
      apply_target t_up st ca = (st, ca, [], SErr EGen None)
      /\ apply_target t_prev st ca = (st, ca, [], SErr EGen None)
      /\ apply_target t_next st ca = (st, ca, [], SErr EGen None))
  (* "_" AT the entry node does not fail: nil error, empty stack, symbol "" *)
  /\ (forall e, s_path st = [e] ->
      exists ca', cache_pop ca = Ok ca' /\ apply_target t_up st ca = (set_path_idx st [] 0, ca', [], SOk))
  (* malformed target *)
  /\ (forall t, valid_target_b t = false -> apply_target t st ca = (st, ca, where_sym st, SErr EGen None))
  (* depth limit *)
  /\ (forall t, valid_sym_b t = true -> MaxLevel + 1 <= len (s_path st) ->
      apply_target t st ca = (st, ca, t, SErr EGen None))
  (* a move to the node the session is already at is refused *)
  /\ (forall t, valid_sym_b t = true -> where_sym st = t ->
      apply_target t st ca = (st, ca, t, SErr EGen None))
  (* ">" never fails once there is a node; the index wraps at 2^16 *)
  /\ (s_path st <> [] ->
      apply_target t_next st ca = (set_path_idx st (s_path st) (w16 (s_idx st + 1)), ca, where_sym st, SOk)).
Proof.
  intros Hl. pose proof Hl as Hne. apply levels_ne in Hne.
  split; [intros t st' ca' sym r H Hr; exact (apply_fail_unchanged _ _ _ _ _ _ _ Hne H Hr)|].
  split; [apply fail_prev_at_zero|].
  split; [intros Hp; split; [apply fail_up_empty; exact Hp|apply fail_lateral_empty; exact Hp]|].
  split; [intros e Hp; destruct (apply_up_at_entry st ca e Hp Hl) as (ca' & H1 & H2 & _); exists ca'; auto|].
  split; [intros t; apply apply_invalid|].
  split; [intros t; apply fail_depth|].
  split; [|apply next_never_fails].
  intros t E Hw. destruct (MaxLevel + 1 <=? len (s_path st)) eqn:E1.
  - apply fail_depth; [exact E|lia].
  - apply fail_same_node; [exact E|lia|exact Hw].
Qed.

Lemma regex_pinned_lemma :
  input_regex_src = "^\+?[a-zA-Z0-9].*$"%string
  /\ ctrl_regex_src = "^[><_^.]$"%string
  /\ sym_regex_src = "^[a-zA-Z0-9][a-zA-Z0-9_]+$"%string.
Proof. repeat split. Qed.

Lemma matchers_char_lemma s :
  (valid_input_b s = true <->
     exists c r, (s = c :: r \/ s = 43 :: c :: r) /\ is_alnum c = true /\ Forall (fun x => x <> 10) r)
  /\ (valid_sym_b s = true <->
     s = catch_sym \/
     exists c r, s = c :: r /\ r <> [] /\ is_alnum c = true /\ Forall (fun x => is_symchar x = true) r)
  /\ (valid_ctrl_b s = true <-> s = t_up \/ s = t_next \/ s = t_prev \/ s = t_top \/ s = t_same)
  /\ (valid_target_b s = true <-> valid_sym_b s = true \/ valid_ctrl_b s = true)
  /\ (valid_sym_b s = true -> valid_ctrl_b s = false).
Proof.
  split; [apply valid_input_char|]. split; [apply valid_sym_char|]. split; [apply valid_ctrl_char|].
  split; [apply valid_target_char|apply sym_not_ctrl].
Qed.

Lemma apply_exact_lemma t st ca st' ca' sym :
  1 <= cache_levels ca ->
  apply_target t st ca = (st', ca', sym, SOk) ->
  nav_code (pos_of st) t = Some (pos_of st')
  /\ sym = where_sym st'
  /\ st' = set_path_idx st (s_path st') (s_idx st')
  /\ ca' = (if valid_sym_b t then cache_push ca
            else pops (List.length (s_path st) - List.length (s_path st')) ca).
Proof. intros Hl. apply apply_ok_exact. apply levels_ne. exact Hl. Qed.

Lemma nav_run_code_lemma ts st ca st2 ca2 log :
  1 <= cache_levels ca -> nav_run st ca ts = (st2, ca2, log) ->
  nav_fold nav_code (pos_of st) log = Some (pos_of st2).
Proof. intros Hl H. apply levels_ne in Hl. apply (nav_run_code ts _ _ _ _ _ Hl H). Qed.

Lemma lockstep_lemma t st ca st' ca' sym r :
  wf_nav st ca -> apply_target t st ca = (st', ca', sym, r) ->
  wf_nav st' ca' /\ cache_levels ca' + len (s_path st) = cache_levels ca + len (s_path st').
Proof.
  intros Hw H. split; [eapply apply_wf; eauto|]. destruct Hw as [Hinv _].
  apply (apply_levels _ _ _ _ _ _ _ Hinv H).
Qed.
